import XV.Lemmas.Sandbox
import XV.Lemmas.SandboxXfer
/-!
C10 — sandbox: read-your-writes, exact range scans, sound replayable read/write set.

Property theorems only (helper lemmas live in `XV/Lemmas/Sandbox.lean`).  Every theorem quantifies
over all programs `ops` of `Get / Put / Del / Select(bounds, early stop)` run from the empty sandbox
(`State.init`) over every consistent backing reader `r` (`Reader.WF`: MemXModel, the reader built
from a read set, and the ledger's XModel all are).  `fixed` is the strip configuration of the
repaired code, `orig` that of the code before the `fix:` commits; the full statements are refuted for
`orig` from concrete witnesses (the replays in corpus/C10).
-/
namespace XV.C10
open XV.Sandbox

/-- the sandbox after running a program from scratch -/
abbrev after (c : Cfg) (r : Reader) (ops : List Op) : State := (run c r State.init ops).1

theorem reachable_inv (c : Cfg) (r : Reader) (hr : r.WF) (ops : List Op) : Inv r (after c r ops) :=
  run_inv c hr ops State.init (Inv.init r)

/-! ### write set -/

/-- The write set holds, for every key, exactly the final value written by the program
(`0` = delete mark), and nothing for a key the program never wrote. -/
theorem wset_final (r : Reader) (hr : r.WF) (ops : List Op) (b : Bucket) (k : Key) :
    (after fixed r ops).outputs.get b k = (lastWrite b k ops).map (fun v => ⟨0, v⟩) := by
  unfold after
  rw [run_outputs fixed hr b k ops State.init (Inv.init r)]
  cases lastWrite b k ops with
  | some v => rfl
  | none => simp [State.init, Store.empty, Store.get, find]

/-! ### read your writes -/

/-- A read observes the latest preceding write or delete of the execution, else the underlying
state (where a deleted or never-written key is absent). -/
theorem read_your_writes (r : Reader) (hr : r.WF) (ops : List Op) (b : Bucket) (k : Key) :
    (get r (after fixed r ops) b k).2.toOpt =
      match lastWrite b k ops with
      | some v => if v = 0 then none else some v
      | none => backView r b k := by
  rw [get_spec (reachable_inv fixed r hr ops) b k]
  unfold view
  rw [wset_final r hr ops b k]
  cases lastWrite b k ops with
  | none => rfl
  | some v =>
    by_cases hv : v = 0
    · simp [hv, VData.isDel]
    · simp [hv, VData.isDel]

/-! ### read set -/

/-- Every entry of the read set is the entry (value and version) the reader holds for that key; and
a `Get` that is not answered from the write set leaves the reader's entry in the read set. -/
theorem rset_sound (r : Reader) (hr : r.WF) (ops : List Op) :
    (∀ b k d, (after fixed r ops).inputs.get b k = some d → r.get b k = some d) ∧
    (∀ b k d, (after fixed r ops).outputs.get b k = none → r.get b k = some d →
      (get r (after fixed r ops) b k).1.inputs.get b k = some d) :=
  ⟨(reachable_inv fixed r hr ops).faithful,
   fun b k d ho hd => get_recorded_value (reachable_inv fixed r hr ops) b k d ho hd⟩

/-- Outside the transient bucket every written key has been looked up: it is in the read set unless
the reader itself refused the key (`ErrNotFound`, only MemXModel does that). -/
theorem wset_subset_rset_partial (r : Reader) (hr : r.WF) (ops : List Op) (b : Bucket) (k : Key)
    (hb : b ≠ transient) (hw : (after fixed r ops).outputs.get b k ≠ none) :
    (after fixed r ops).inputs.get b k ≠ none ∨ r.get b k = none := by
  suffices h : ∀ (ops : List Op) (s : State), Inv r s →
      (s.outputs.get b k ≠ none → s.inputs.get b k ≠ none ∨ r.get b k = none) →
      ((run fixed r s ops).1.outputs.get b k ≠ none →
        (run fixed r s ops).1.inputs.get b k ≠ none ∨ r.get b k = none) by
    exact h ops State.init (Inv.init r) (by simp [State.init, Store.empty, Store.get, find]) hw
  intro ops
  induction ops with
  | nil => intro s _ h; exact h
  | cons op ops ih =>
    intro s hi h
    rw [run_cons]
    apply ih _ (step_inv fixed hr hi op)
    intro hw1
    have keep : s.inputs.get b k ≠ none ∨ r.get b k = none →
        (stepOp fixed r s op).1.inputs.get b k ≠ none ∨ r.get b k = none := by
      rintro (h1 | h1)
      · left
        cases hd : s.inputs.get b k with
        | none => exact absurd hd h1
        | some d => rw [step_mono fixed hr hi op b k d hd]; simp
      · exact Or.inr h1
    rw [step_outputs fixed hr hi op b k] at hw1
    cases hwo : writeOf b k op with
    | none => rw [hwo] at hw1; exact keep (h hw1)
    | some v =>
      -- the op writes `b/k`: `Put` has looked the key up first
      have hput : ∀ v', (put r s b k v').inputs.get b k ≠ none ∨ r.get b k = none := by
        intro v'
        rw [put_inputs_eq_get]
        simp only [hb, if_false]
        rcases get_records r s b k with g | g | g
        · exact Or.inl g
        · rcases h g with g' | g'
          · left
            cases hd : s.inputs.get b k with
            | none => exact absurd hd g'
            | some d => rw [(get_reach r s b k).mono b k d hd]; simp
          · exact Or.inr g'
        · exact Or.inr g
      cases op with
      | get b' k' => simp [writeOf] at hwo
      | sel b' lo hiB n => simp [writeOf] at hwo
      | put b' k' v' =>
        simp only [writeOf] at hwo
        by_cases hbk : b' = b ∧ k' = k
        · obtain ⟨rfl, rfl⟩ := hbk; exact hput v'
        · simp [hbk] at hwo
      | del b' k' =>
        simp only [writeOf] at hwo
        by_cases hbk : b' = b ∧ k' = k
        · obtain ⟨rfl, rfl⟩ := hbk; exact hput 0
        · simp [hbk] at hwo

/-- Over a reader whose `Get` never fails (the ledger's XModel answers a never-written key with an
empty version) the write set — transient bucket aside — only holds keys that are in the read set. -/
theorem wset_subset_rset (r : Reader) (hr : r.WF) (htotal : ∀ b k, r.get b k ≠ none) (ops : List Op)
    (b : Bucket) (k : Key) (hb : b ≠ transient) (hw : (after fixed r ops).outputs.get b k ≠ none) :
    (after fixed r ops).inputs.get b k ≠ none := by
  rcases wset_subset_rset_partial r hr ops b k hb hw with h | h
  · exact h
  · exact absurd h (htotal b k)

/-- the statement without a hypothesis on the reader -/
def wset_subset_rset_statement : Prop :=
  ∀ (r : Reader), r.WF → ∀ (ops : List Op) (b : Bucket) (k : Key), b ≠ transient →
    (after fixed r ops).outputs.get b k ≠ none → (after fixed r ops).inputs.get b k ≠ none

/-- It fails over an empty MemXModel: `Put` drops the `ErrNotFound` of its forced `Get`, so the
written key never reaches the read set.  (Not reachable in production: the first execution runs over
XModel, whose `Get` is total, and the verifying execution runs over a read set that by
`wset_subset_rset` holds every written key.) -/
theorem wset_subset_rset_counterexample : ¬ wset_subset_rset_statement := by
  intro h
  have := h (memReader Store.empty) (memReader_wf _ (fun _ => by simp [Store.empty, Sorted]))
    [.put 1 0 5] 1 0 (by decide) (by decide)
  exact this (by decide)

/-! ### range scans -/

/-- `Select(b, lo, hi)` consumed by `n` calls of `Next` yields the first `n` entries of the list `L`
that holds exactly the live keys of `[lo, hi)` in increasing key order, where live means: the latest
write of this execution if there is one (a deleted key is not live), else the underlying state
(deleted and never-written keys are not live). -/
def select_exact_statement (c : Cfg) : Prop :=
  ∀ (r : Reader), r.WF → ∀ (ops : List Op) (b : Bucket) (lo : Nat) (hi : Option Nat),
    badRange lo hi = false →
    ∃ L : List (Key × Nat), Sorted L ∧
      (∀ k v, (k, v) ∈ L ↔ (inRange lo hi k = true ∧ view r (after c r ops) b k = some v)) ∧
      ∀ n, (select c r (after c r ops) b lo hi n).2 = some (L.take n)

theorem mem_outputs_iff {s : State} {r : Reader} (hi : Inv r s) (b : Bucket) (k : Key) (d : VData) :
    (k, d) ∈ s.outputs b ↔ s.outputs.get b k = some d :=
  ⟨fun h => mem_find_of_sorted (hi.sortedOut b) h, fun h => find_some_mem h⟩

theorem select_exact : select_exact_statement fixed := by
  intro r hr ops b lo hi hok
  have hi' := reachable_inv fixed r hr ops
  refine ⟨(selList fixed r (after fixed r ops) b lo hi).map (fun e => (e.1, e.2.val)), ?_, ?_, ?_⟩
  · exact List.Pairwise.map _ (fun _ _ h => h) (sorted_selList fixed hr hi' b lo hi)
  · intro k v
    simp only [List.mem_map, Prod.mk.injEq]
    constructor
    · rintro ⟨e, he, rfl, rfl⟩
      rw [mem_selList_fixed hr hi'] at he
      obtain ⟨h1, h2⟩ := he
      refine ⟨h1, ?_⟩
      unfold view
      rcases h2 with ⟨h2, h3⟩ | ⟨h2, h3, h4⟩
      · rw [(mem_outputs_iff hi' b e.1 e.2).mp h2]; simp [h3]
      · rw [show (after fixed r ops).outputs.get b e.1 = none from find_none_iff.mpr h2]
        simp only [backView, hr.selGet b e.1 e.2 h3, h4.1, h4.2]
        simp
    · rintro ⟨h1, h2⟩
      unfold view at h2
      cases ho : (after fixed r ops).outputs.get b k with
      | some d =>
        rw [ho] at h2
        by_cases hd : d.isDel = true
        · simp [hd] at h2
        · simp only [hd, if_false, Bool.false_eq_true] at h2
          refine ⟨(k, d), ?_, rfl, Option.some.inj h2⟩
          rw [mem_selList_fixed hr hi']
          exact ⟨h1, Or.inl ⟨(mem_outputs_iff hi' b k d).mpr ho, by simpa using hd⟩⟩
      | none =>
        rw [ho] at h2
        unfold backView at h2
        cases hg : r.get b k with
        | none => rw [hg] at h2; simp at h2
        | some d =>
          rw [hg] at h2
          by_cases hd : (d.isEmptyVer || d.isDel) = true
          · simp [hd] at h2
          · simp only [hd, if_false, Bool.false_eq_true] at h2
            have hlive : live d := by
              simp only [Bool.or_eq_true, not_or] at hd
              exact ⟨by simpa using hd.2, by simpa using hd.1⟩
            refine ⟨(k, d), ?_, rfl, Option.some.inj h2⟩
            rw [mem_selList_fixed hr hi']
            refine ⟨h1, Or.inr ⟨find_none_iff.mp ho, ?_, hlive⟩⟩
            rcases hr.getSel b k d hg with h | h | h
            · exact h
            · rw [hlive.1] at h; exact absurd h (by simp)
            · rw [hlive.2] at h; exact absurd h (by simp)
  · intro n
    rw [(select_spec fixed r _ b lo hi n hr hi' hok).1, List.map_take]

/-- a reader holding key 0 of bucket 1 -/
def r1 : Reader := memReader (fun b => if b = 1 then [(0, ⟨1, 5⟩)] else [])

theorem r1_wf : r1.WF :=
  memReader_wf _ (fun b => by by_cases h : b = 1 <;> simp [h, Sorted])

/-- Before the repair the statement is false: after `Del(k)` the scan yields `k` with the delete
mark as its value (corpus/C10/select-yields-deleted.ops). -/
theorem select_exact_orig_counterexample : ¬ select_exact_statement orig := by
  intro h
  obtain ⟨L, _, hL, hn⟩ := h r1 r1_wf [.del 1 0] 1 0 none rfl
  have h1 : (select orig r1 (after orig r1 [.del 1 0]) 1 0 none 5).2 = some [(0, 0)] := by decide
  rw [hn 5] at h1
  have hm : ((0, 0) : Key × Nat) ∈ L := by
    have : ((0, 0) : Key × Nat) ∈ L.take 5 := by rw [Option.some.inj h1]; simp
    exact List.mem_of_mem_take this
  have := ((hL 0 0).mp hm).2
  revert this
  decide

/-- The read set after an early-stopped scan is sound for what was consumed: with `res` the items
yielded by `n` calls of `Next`, (1) every read-set entry is the reader's entry, (2) every entry the
reader iterates from `lo` up to the last consumed key is in the read set with its version, or is
shadowed by a write of this execution, and (3) if the scan ran to its end the same holds for the
whole range.  (The look-ahead of the iterator stack may record more — never less.) -/
theorem select_early_stop_rset (r : Reader) (hr : r.WF) (ops : List Op) (b : Bucket) (lo : Nat)
    (hi : Option Nat) (n : Nat) (res : List (Key × Nat))
    (hres : (select fixed r (after fixed r ops) b lo hi n).2 = some res) :
    let s2 := (select fixed r (after fixed r ops) b lo hi n).1
    (∀ b' k d, s2.inputs.get b' k = some d → r.get b' k = some d) ∧
    (∀ kv ∈ res, ∀ x ∈ r.sel b, lo ≤ x.1 → x.1 ≤ kv.1 →
      s2.inputs.get b x.1 = some x.2 ∨ s2.outputs.get b x.1 ≠ none) ∧
    (res.length < n → ∀ x ∈ r.sel b, inRange lo hi x.1 = true →
      s2.inputs.get b x.1 = some x.2 ∨ s2.outputs.get b x.1 ≠ none) := by
  intro s2
  have hi' := reachable_inv fixed r hr ops
  have hok : badRange lo hi = false := by
    cases hb : badRange lo hi with
    | false => rfl
    | true => rw [select_bad _ _ _ _ _ _ _ hb] at hres; simp at hres
  obtain ⟨a1, a2, a3, a4⟩ := select_spec fixed r _ b lo hi n hr hi' hok
  have hs2 : Inv r s2 := a2.inv hi'
  have conv : ∀ x ∈ r.sel b, Rec r s2 b x.1 →
      s2.inputs.get b x.1 = some x.2 ∨ s2.outputs.get b x.1 ≠ none := by
    intro x hx hrec
    have hg := hr.selGet b x.1 x.2 hx
    rcases hrec with h | h | h
    · left
      cases hv : s2.inputs.get b x.1 with
      | none => exact absurd hv h
      | some d' => have := hs2.faithful b x.1 d' hv; rw [hg] at this; rw [this]
    · exact Or.inr h
    · rw [hg] at h; exact absurd h (by simp)
  rw [a1] at hres
  have hres' := Option.some.inj hres
  refine ⟨hs2.faithful, ?_, ?_⟩
  · intro kv hkv x hx hlo hle
    rw [← hres'] at hkv
    obtain ⟨e, he, rfl⟩ := List.mem_map.mp hkv
    have heL := List.mem_of_mem_take he
    rw [mem_selList_fixed hr hi'] at heL
    have hin : inRange lo hi x.1 = true := by
      have := heL.1
      simp only [inRange, Bool.and_eq_true, decide_eq_true_eq] at this ⊢
      refine ⟨hlo, ?_⟩
      cases hi with
      | none => rfl
      | some h => simp only [decide_eq_true_eq] at this ⊢; simp only at hle; omega
    exact conv x hx (a4 e he x (mem_rangeOf.mpr ⟨hx, hin⟩) hle)
  · intro hlen x hx hin
    rw [← hres', List.length_map] at hlen
    exact conv x hx (a3 hlen x (mem_rangeOf.mpr ⟨hx, hin⟩))

/-! ### re-running over the read set -/

/-- Re-running the same program from scratch over `XMReaderFromRWSet` of the first run's read set
gives the same result for every call and the same write set. -/
def replay_deterministic_statement (c : Cfg) : Prop :=
  ∀ (r : Reader), r.WF → ∀ (ops : List Op),
    (run c (readerFromRWSet (after c r ops)) State.init ops).2 = (run c r State.init ops).2 ∧
    (run c (readerFromRWSet (after c r ops)) State.init ops).1.outputs = (after c r ops).outputs

theorem replay_deterministic : replay_deterministic_statement fixed := by
  intro r hr ops
  have hi' := reachable_inv fixed r hr ops
  exact replay_aux hr (after fixed r ops).inputs hi'.sortedIn hi'.faithful ops State.init State.init
    (Inv.init r) (Inv.init _) rfl (fun _ _ _ h => h)

/-- the ledger's XModel holding nothing -/
def rx : Reader := xmodelReader Store.empty Store.empty

theorem rx_wf : rx.WF :=
  ⟨fun _ => by simp [rx, xmodelReader, Store.empty, Sorted],
   fun _ _ _ h => by simp [rx, xmodelReader, Store.empty] at h,
   fun b k d h => by
     simp only [rx, xmodelReader, Store.empty, find] at h
     cases h
     exact Or.inr (Or.inr rfl)⟩

/-- Before the repair the statement is false: a scan followed by a lookup of a never-written key of
the scanned range; the re-run over the read set yields that key as a phantom
(corpus/C10/replay-diverges-sel.ops). -/
theorem replay_deterministic_orig_counterexample : ¬ replay_deterministic_statement orig := by
  intro h
  have := (h rx rx_wf [.sel 1 0 none 9, .get 1 2]).1
  revert this
  decide

/-! ### non-vacuity: the hypotheses are met by non-trivial states and the conclusions are not empty -/

/-- XModel-like reader: key 0 live, key 1 deleted, key 2 never written, key 3 live -/
def rDemo : Reader :=
  xmodelReader (fun b => if b = 1 then [(0, ⟨1, 5⟩), (3, ⟨3, 7⟩)] else [])
    (fun b => if b = 1 then [(1, ⟨2, 0⟩)] else [])

/-- the demo reader meets the hypothesis `Reader.WF` of the theorems -/
theorem rDemo_wf : rDemo.WF := by
  refine ⟨fun b => ?_, fun b k d h => ?_, fun b k d h => ?_⟩
  · by_cases hb : b = 1 <;> simp [rDemo, xmodelReader, hb, Sorted]
  · by_cases hb : b = 1
    · subst hb
      simp only [rDemo, xmodelReader, if_true, List.mem_cons, Prod.mk.injEq, List.not_mem_nil, or_false] at h ⊢
      rcases h with ⟨rfl, rfl⟩ | ⟨rfl, rfl⟩ <;> simp [find]
    · simp [rDemo, xmodelReader, hb] at h
  · by_cases hb : b = 1
    · subst hb
      simp only [rDemo, xmodelReader, if_true, find] at h ⊢
      by_cases h0 : k = 0
      · subst h0; simp at h; subst h; simp
      · by_cases h3 : k = 3
        · subst h3; simp at h; subst h; simp
        · by_cases h1 : k = 1
          · subst h1; simp at h; subst h; exact Or.inr (Or.inl rfl)
          · simp [h0, h3, h1] at h; subst h; exact Or.inr (Or.inr rfl)
    · simp only [rDemo, xmodelReader, hb, if_false, find] at h
      cases h; exact Or.inr (Or.inr rfl)

def demoOps : List Op := [.get 1 2, .get 1 1, .put 1 4 9, .del 1 0, .sel 1 0 none 1]

-- the scan after the program: key 0 deleted by the execution, 1 deleted in the ledger, 2 never
-- written (but in the read set), 3 live, 4 written by the execution
example : (select fixed rDemo (after fixed rDemo demoOps) 1 0 none 9).2 = some [(3, 7), (4, 9)] := by decide
example : (select fixed rDemo (after fixed rDemo demoOps) 1 0 none 1).2 = some [(3, 7)] := by decide
-- the unrepaired stack on the same state yields the deleted key and the phantom
example : (select orig rDemo (after orig rDemo demoOps) 1 0 none 9).2 = some [(0, 0), (2, 1), (3, 7), (4, 9)] := by decide
example : lastWrite 1 0 demoOps = some 0 ∧ lastWrite 1 4 demoOps = some 9 ∧ lastWrite 1 3 demoOps = none := by decide
example : (get rDemo (after fixed rDemo demoOps) 1 4).2 = .val 9 ∧ (get rDemo (after fixed rDemo demoOps) 1 0).2 = .hasDel
    ∧ (get rDemo (after fixed rDemo demoOps) 1 3).2 = .val 7 := by decide
-- the read set is non-empty and the re-run agrees
example : ((after fixed rDemo demoOps).inputs 1).length = 5 := by decide
example : (run fixed (readerFromRWSet (after fixed rDemo demoOps)) State.init demoOps).2 = (run fixed rDemo State.init demoOps).2 := by decide

/-! ### the token side: `Transfer`, events, `Flush`

Programs now mix `Get / Put / Del / Select` (`XOp.kv`) with `Transfer` (`XOp.xfer`) and `AddEvent`
(`XOp.event`); `XState.flush` is the write set after `Flush` (the three reserved entries of the
transient bucket, then the key/value write set).  The first run draws its token inputs from a
`UReader` that meets the contract of `UtxoVM.SelectUtxos` (`UReader.Lawful`: inputs of the asked
address, total = their sum ≥ the amount, **no proper prefix already covers the amount**, what is
handed out or refused is consistent with a spendable amount that never grows); `listReader` (the
first-run reader of the harness) is one such reader for every list of unspent outputs.
The re-run is what `State.verifyTxRWSets` does: `XMReaderFromRWSet` of the read set and
`NewUTXOReaderFromInput` of the recorded inputs (`replayReader`). -/

/-- Re-running the same program over the reader built from the recorded read set and the utxo
reader built from the recorded inputs reproduces every call's result (which transfers fail
included), the token inputs and outputs, the events and the whole write set after `Flush`
(reserved transient entries and key/value part), and uses up the recorded inputs exactly. -/
def transfer_replay_statement (c : Cfg) : Prop :=
  ∀ (r : Reader), r.WF → ∀ (σ : Type) (R : UReader σ), R.Lawful → ∀ (st0 : σ) (ops : List XOp),
    let first := xrun c r R (XState.init st0) ops
    let again := xrun c (readerFromRWSet first.1.kv) replayReader (XState.init first.1.tok.uin) ops
    again.2 = first.2 ∧ again.1.tok.uin = first.1.tok.uin ∧ again.1.tok.uout = first.1.tok.uout ∧
    again.1.events = first.1.events ∧ again.1.flush = first.1.flush ∧ again.1.tok.rd = []

theorem transfer_replay : transfer_replay_statement fixed := by
  intro r hr σ R hR st0 ops
  obtain ⟨cap, hcap⟩ := hR
  simp only
  rw [xrun_split fixed r R ops (XState.init st0)]
  simp only [XState.init]
  rw [xrun_split]
  simp only
  obtain ⟨k1, k2⟩ := replay_deterministic r hr (kvOps ops)
  obtain ⟨t1, _⟩ := tok_replay hcap (xfers ops) st0 [] (fun a => by simp [ownSum_nil])
  rw [List.append_nil] at t1
  unfold after at k1 k2
  rw [t1, k1]
  simp [XState.flush, k2]

/-- the same statement for an arbitrary first-run reader -/
def transfer_replay_any_reader_statement : Prop :=
  ∀ (r : Reader), r.WF → ∀ (σ : Type) (R : UReader σ) (st0 : σ) (ops : List XOp),
    let first := xrun fixed r R (XState.init st0) ops
    let again := xrun fixed (readerFromRWSet first.1.kv) replayReader (XState.init first.1.tok.uin) ops
    again.2 = first.2 ∧ again.1.tok.uin = first.1.tok.uin ∧ again.1.tok.uout = first.1.tok.uout ∧
    again.1.events = first.1.events ∧ again.1.flush = first.1.flush ∧ again.1.tok.rd = []

/-- a reader that hands out every output of the address (it covers the amount, but a proper prefix
already did) -/
def eagerReader : UReader (List TxIn) where
  select st a need :=
    let mine := st.filter (fun u => u.owner = a)
    if sumIn mine < need then (none, st) else (some (mine, sumIn mine), st.filter (fun u => u.owner ≠ a))

/-- The hypothesis on the first-run reader is needed: if it hands out `[5, 3]` for an amount of 5,
the replay reader stops after the `5`, so the re-run records one input and no change output. -/
theorem transfer_replay_any_reader_counterexample : ¬ transfer_replay_any_reader_statement := by
  intro h
  have := (h rx rx_wf _ eagerReader [⟨0, 1, 5⟩, ⟨1, 1, 3⟩] [.xfer 1 2 5]).2.1
  revert this
  decide

/-- Conservation inside the sandbox: the recorded inputs are worth exactly the recorded outputs
(transfer outputs plus change). -/
theorem transfer_conserved (c : Cfg) (r : Reader) {σ : Type} (R : UReader σ) (hR : R.Lawful) (st0 : σ)
    (ops : List XOp) :
    sumIn (xrun c r R (XState.init st0) ops).1.tok.uin = sumOut (xrun c r R (XState.init st0) ops).1.tok.uout := by
  obtain ⟨cap, hcap⟩ := hR
  rw [xrun_split]
  exact tok_conserved hcap (xfers ops) st0

/-- `UTXOSandbox.Transfer` as found (before `fix:` abdcf7e) refused only `amount = 0`; what it
appended to the outputs for inputs worth `total` (amounts are written with `big.Int.Bytes()`, the
absolute value) -/
def outputsAsFound (total amt : Int) : List Nat :=
  [amt.natAbs] ++ (if amt < total then [(total - amt).natAbs] else [])

/-- conservation for the code as found, over every amount it accepted -/
def transfer_conserved_as_found_statement : Prop :=
  ∀ total amt : Int, amt ≠ 0 → amt ≤ total → 0 ≤ total → (outputsAsFound total amt).sum = total.natAbs

/-- It fails for a negative amount: inputs worth 5, amount −3, outputs 3 and 8
(corpus/C10/transfer-negative-accepted.ops). -/
theorem transfer_conserved_as_found_counterexample : ¬ transfer_conserved_as_found_statement := by
  intro h
  have := h 5 (-3) (by decide) (by decide) (by decide)
  revert this
  decide

/-- Every recorded input belongs to the `from` of the transfer that consumed it: the recorded inputs
are the concatenation of one chunk per `Transfer` call, in call order; the chunk of a failed call is
empty, the chunk of a successful call belongs to its `from` address and covers its amount. -/
theorem transfer_inputs_owned (c : Cfg) (r : Reader) {σ : Type} (R : UReader σ) (hR : R.Lawful) (st0 : σ)
    (ops : List XOp) :
    ∃ chunks : List (List TxIn),
      (xrun c r R (XState.init st0) ops).1.tok.uin = chunks.flatten ∧
      Chunks (xfers ops) (xferOks (xrun c r R (XState.init st0) ops).2) chunks := by
  obtain ⟨cap, hcap⟩ := hR
  rw [xrun_split]
  simp only
  rw [xferOks_weave ops _ _ (run_results_length _ _ _ _) (tokRun_results_length _ _ _)]
  exact tok_chunks hcap (xfers ops) st0

/-- No output is recorded twice as an input if the first-run reader never hands one out twice (it
locks what it returns, `UReader.Locks`). -/
theorem transfer_inputs_distinct (c : Cfg) (r : Reader) {σ : Type} (R : UReader σ) (st0 : σ)
    (hL : R.Locks st0) (ops : List XOp) :
    ((xrun c r R (XState.init st0) ops).1.tok.uin.map (·.ref)).Nodup := by
  obtain ⟨free, good, h0, hL⟩ := hL
  rw [xrun_split]
  exact (tok_nodup free good hL (xfers ops) st0 h0).1

/-- the three keys `Flush` writes -/
inductive RKey where
  | utxoInputs | utxoOutputs | contractEvent
deriving Repr, DecidableEq

def TEntry.key : TEntry → RKey
  | .inputs _ => .utxoInputs
  | .outputs _ => .utxoOutputs
  | .events _ => .contractEvent

/-- does the write set after `Flush` hold an entry for this bucket and key (`inl`: one of the keys of
`Flush`, `inr`: a key of the program) -/
def wsetHas {σ : Type} (x : XState σ) (b : Bucket) : RKey ⊕ Key → Prop
  | .inl rk => b = transient ∧ rk ∈ x.flush.reserved.map TEntry.key
  | .inr k => x.flush.kv.get b k ≠ none

/-- does the read set hold an entry for this bucket and key (`Flush` reads nothing) -/
def rsetHas {σ : Type} (x : XState σ) (b : Bucket) : RKey ⊕ Key → Prop
  | .inl _ => False
  | .inr k => x.kv.inputs.get b k ≠ none

/-- After `Flush`, the transient bucket is the only place where the write set holds keys that are
not in the read set (over a reader whose `Get` never fails, as the ledger's XModel). -/
theorem wset_subset_rset_flush (r : Reader) (hr : r.WF) (htotal : ∀ b k, r.get b k ≠ none) {σ : Type}
    (R : UReader σ) (st0 : σ) (ops : List XOp) (b : Bucket) (key : RKey ⊕ Key) (hb : b ≠ transient)
    (hw : wsetHas (xrun fixed r R (XState.init st0) ops).1 b key) :
    rsetHas (xrun fixed r R (XState.init st0) ops).1 b key := by
  cases key with
  | inl rk => exact absurd hw.1 hb
  | inr k =>
    simp only [wsetHas, rsetHas, XState.flush] at hw ⊢
    rw [xrun_split] at hw ⊢
    exact wset_subset_rset r hr htotal (kvOps ops) b k hb hw

/-! ### non-vacuity of the token side -/

/-- unspent outputs: address 1 holds 5, 3 and 2, address 2 holds 4 -/
def utxoDemo : List TxIn := [⟨0, 1, 5⟩, ⟨1, 1, 3⟩, ⟨2, 2, 4⟩, ⟨3, 1, 2⟩]

/-- a transfer covered exactly by the first output, an event, a transfer that needs two outputs and
leaves change, one that fails for lack of funds, one refused for a zero amount, between reads and
writes -/
def xDemo : List XOp :=
  [.kv (.get 1 0), .xfer 1 9 5, .event 7 8, .xfer 1 9 4, .xfer 2 9 10, .kv (.put 1 4 9), .xfer 1 9 0]

-- the demo reader meets the hypotheses of the theorems
example : listReader.Lawful ∧ listReader.Locks utxoDemo := ⟨listReader_lawful, listReader_locks _ (by decide)⟩
example : (xrun fixed rDemo listReader (XState.init utxoDemo) xDemo).2 =
    [.kv (.got (.val 5)), .xfer true, .event, .xfer true, .xfer false, .kv .done, .xfer false] := by decide
example : (xrun fixed rDemo listReader (XState.init utxoDemo) xDemo).1.tok.uin =
    [⟨0, 1, 5⟩, ⟨1, 1, 3⟩, ⟨3, 1, 2⟩] := by decide
example : (xrun fixed rDemo listReader (XState.init utxoDemo) xDemo).1.tok.uout =
    [⟨9, 5⟩, ⟨9, 4⟩, ⟨1, 1⟩] := by decide
example : (xrun fixed rDemo listReader (XState.init utxoDemo) xDemo).1.flush.reserved =
    [.inputs [⟨0, 1, 5⟩, ⟨1, 1, 3⟩, ⟨3, 1, 2⟩], .outputs [⟨9, 5⟩, ⟨9, 4⟩, ⟨1, 1⟩], .events [⟨7, 8⟩]] := by decide
-- the re-run over the recorded inputs agrees call by call and is left with nothing
example : (xrun fixed (readerFromRWSet (xrun fixed rDemo listReader (XState.init utxoDemo) xDemo).1.kv) replayReader
    (XState.init [⟨0, 1, 5⟩, ⟨1, 1, 3⟩, ⟨3, 1, 2⟩]) xDemo).2 =
    (xrun fixed rDemo listReader (XState.init utxoDemo) xDemo).2 := by decide
example : (xrun fixed (readerFromRWSet (xrun fixed rDemo listReader (XState.init utxoDemo) xDemo).1.kv) replayReader
    (XState.init [⟨0, 1, 5⟩, ⟨1, 1, 3⟩, ⟨3, 1, 2⟩]) xDemo).1.tok.rd = [] := by decide
-- the transient bucket does hold a key that was not read
example : wsetHas (xrun fixed rDemo listReader (XState.init utxoDemo) xDemo).1 transient (.inl .utxoInputs) ∧
    ¬ rsetHas (xrun fixed rDemo listReader (XState.init utxoDemo) xDemo).1 transient (.inl .utxoInputs) :=
  ⟨⟨rfl, by decide⟩, fun h => h⟩
-- an execution without transfers or events leaves no reserved entry
example : (xrun fixed rDemo listReader (XState.init utxoDemo) [.kv (.put 1 4 9), .xfer 2 9 10]).1.flush.reserved = [] := by decide

end XV.C10
