import XV.Model.Sandbox
/-!
C10 — sandbox: read-your-writes, exact range scans, sound replayable read/write set.
-/
namespace XV.C10
open XV.Sandbox

theorem find_ins_same (k : Key) (v : VData) (l : KV) : find k (ins k v l) = some v := by
  induction l with
  | nil => simp [ins, find]
  | cons e r ih =>
    unfold ins
    split
    · simp [find]
    · split
      · simp [find]
      · rename_i h1 h2
        simp [find, h2, ih]

end XV.C10
