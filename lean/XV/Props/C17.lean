import XV.Lemmas.ChainFrame
/-!
C17 — finality window: the irreversible height is monotone and never undone by consensus.
Statements about the L1 chain model (`XV.Chain`), whose update rule `nextIrrev` mirrors
`Meta.UpdateNextIrreversibleBlockHeight` and whose walk mirrors `State.Walk`.
-/
namespace XV.C17
open XV.Chain

/-- with a non-zero window every applied block moves the irreversible height to max(current, height − w) -/
theorem nextIrrev_eq_max (w cur h : Int) (hw : 0 < w) : nextIrrev w cur h = max cur (h - w) := by
  unfold nextIrrev
  have : ¬ w ≤ 0 := by omega
  simp only [this, ↓reduceIte]
  split <;> omega

/-- window 0: the height never moves -/
theorem nextIrrev_window_zero (cur h : Int) : nextIrrev 0 cur h = cur := by
  unfold nextIrrev; simp

theorem nextIrrev_mono (w cur h : Int) : cur ≤ nextIrrev w cur h := by
  unfold nextIrrev
  split
  · omega
  · split <;> omega

-- ---------------------------------------------------------------- the pruning rule (`UpdateNextIrreversibleBlockHeightForPrune`)
-- The property sets "explicit pruning walks aside"; what such a walk does to the height is part of the model all the same
-- (`undoBlock … true`), and these statements bound it: the undo of a block of height h with the prune flag sets the
-- height to max(0, h − w) whatever it was, which is below h, never above what applying the block would have given, and
-- exactly what applying the block again restores.

/-- with a non-zero window the pruning rule forgets the current height: the result is max(0, height − w) -/
theorem nextIrrevPrune_eq_max (w cur h : Int) (hw : 0 < w) : nextIrrevPrune w cur h = max 0 (h - w) := by
  unfold nextIrrevPrune
  have : ¬ w ≤ 0 := by omega
  simp only [this, ↓reduceIte]
  split <;> omega

/-- window 0: a pruning undo leaves the height alone as well -/
theorem nextIrrevPrune_window_zero (cur h : Int) : nextIrrevPrune 0 cur h = cur := by
  unfold nextIrrevPrune; simp

/-- the pruning rule never produces a negative height from a non-negative one -/
theorem nextIrrevPrune_nonneg (w cur h : Int) (hc : 0 ≤ cur) : 0 ≤ nextIrrevPrune w cur h := by
  unfold nextIrrevPrune
  split
  · exact hc
  · split <;> omega

/-- **after the pruning undo of a block of height h ≥ 1 (window w > 0) the irreversible height is below h**: at most
h − 1, the height of the block the pointer then names when heights are consecutive — a pruning walk never leaves the
irreversible height above the tip it produced -/
theorem nextIrrevPrune_lt_height (w cur h : Int) (hw : 0 < w) (hh : 0 < h) : nextIrrevPrune w cur h < h := by
  rw [nextIrrevPrune_eq_max w cur h hw]; omega

/-- the pruning rule never sets the height above what APPLYING the same block gives from the same height -/
theorem nextIrrevPrune_le_nextIrrev (w cur h : Int) (hc : 0 ≤ cur) : nextIrrevPrune w cur h ≤ nextIrrev w cur h := by
  unfold nextIrrevPrune nextIrrev
  split
  · omega
  · split <;> split <;> omega

/-- **prune, then apply the block again**: the height is exactly the one the pruning undo set — re-applying the pruned
block raises nothing (so undo-with-prune followed by a replay of the same block is stable under repetition) -/
theorem nextIrrev_after_prune (w cur h : Int) : nextIrrev w (nextIrrevPrune w cur h) h = nextIrrevPrune w cur h := by
  unfold nextIrrevPrune nextIrrev
  split
  · rfl
  · split <;> (try split) <;> omega

/-- the pruning rule is idempotent in the height it is given -/
theorem nextIrrevPrune_idem (w cur h : Int) : nextIrrevPrune w (nextIrrevPrune w cur h) h = nextIrrevPrune w cur h := by
  unfold nextIrrevPrune
  split
  · rfl
  · rfl

/-- a pruning undo of blocks of DEcreasing heights (a walk undoes newest first) ends at the value of the LAST one -/
theorem prune_fold_last (w cur : Int) (hw : 0 < w) (hs : List Int) (h : Int) :
    (hs ++ [h]).foldl (nextIrrevPrune w) cur = max 0 (h - w) := by
  rw [List.foldl_append]
  simp only [List.foldl_cons, List.foldl_nil]
  exact nextIrrevPrune_eq_max w _ h hw

/-- the height after applying blocks of heights `hs` in any order of application, starting from `cur`:
it is the maximum of `cur` and every `h − w` (stated as: upper bound that is attained) -/
theorem irrev_is_max (w : Int) (hw : 0 < w) (hs : List Int) (cur : Int) :
    let r := hs.foldl (nextIrrev w) cur
    cur ≤ r ∧ (∀ h ∈ hs, h - w ≤ r) ∧ (r = cur ∨ ∃ h ∈ hs, r = h - w) := by
  induction hs generalizing cur with
  | nil => simp
  | cons h rest ih =>
    simp only [List.foldl_cons]
    obtain ⟨h1, h2, h3⟩ := ih (nextIrrev w cur h)
    have hm := nextIrrev_eq_max w cur h hw
    refine ⟨by have := nextIrrev_mono w cur h; omega, ?_, ?_⟩
    · intro x hx
      rcases List.mem_cons.mp hx with rfl | hx
      · have : x - w ≤ nextIrrev w cur x := by rw [hm]; omega
        omega
      · exact h2 x hx
    · rcases h3 with h3 | ⟨x, hx, hr⟩
      · rw [h3, hm]
        by_cases hc : cur ≤ h - w
        · right; exact ⟨h, List.mem_cons_self, by omega⟩
        · left; omega
      · right; exact ⟨x, List.mem_cons_of_mem _ hx, hr⟩

/-- floored at zero: starting from 0 the height is never negative -/
theorem irrev_nonneg (w : Int) (hs : List Int) : 0 ≤ hs.foldl (nextIrrev w) 0 := by
  have : ∀ cur, 0 ≤ cur → 0 ≤ hs.foldl (nextIrrev w) cur := by
    induction hs with
    | nil => intro cur h; simpa
    | cons h rest ih =>
      intro cur hc
      simp only [List.foldl_cons]
      exact ih _ (by have := nextIrrev_mono w cur h; omega)
  exact this 0 (by omega)

/-- admitting a transaction to the pool never touches the irreversible height -/
theorem doTx_irrev (e : Env) (s : St) (lh : Int) (i : Nat) : (doTx e s lh i).1.irrev = s.irrev := by
  unfold doTx
  split
  · rfl
  · dsimp only
    split
    · simp [(applyTx_frame s (e.tx i)).2.1]
    · rfl

private theorem applyBlockTxs_irrev (e : Env) (lh : Int) (prop : String) (already : List Nat) (l : List Nat) (s s' : St) (r : Res)
    (h : applyBlockTxs e lh prop already l s = some (s', r)) : s'.irrev = s.irrev := by
  induction l generalizing s with
  | nil => simp [applyBlockTxs] at h; rw [← h.1]
  | cons i rest ih =>
    unfold applyBlockTxs at h
    simp only at h
    split at h
    · rw [ih _ h]; exact (payFee_frame _ _ _ _ _).2.2.2.2.1
    · split at h
      · rw [ih _ h, (payFee_frame _ _ _ _ _).2.2.2.2.1]; exact (applyTx_frame _ _).2.1
      · simp at h; rw [← h.1]

/-- playing a block never lowers the irreversible height; on success it is max(old, height − w) for w > 0 -/
theorem play_irrev (e : Env) (s : St) (lh : Int) (b : Block) :
    s.irrev ≤ (play e s lh b).1.irrev ∧
    ((play e s lh b).2 = .ok → (play e s lh b).1.irrev = nextIrrev e.window s.irrev b.height) := by
  unfold play
  split
  · simp
  · split
    · simp
    · split
      · simp
      · split
        · simp
        · simp only
          split
          · exact ⟨nextIrrev_mono _ _ _, fun _ => rfl⟩
          · rename_i hne _
            exact ⟨Int.le_refl _, fun h => absurd h (fun h2 => hne h2)⟩
          · exact ⟨Int.le_refl _, fun h => absurd h (by simp)⟩

private theorem pfm_go_irrev (e : Env) (lh : Int) (b : Block) (l : List Nat) (s s' : St)
    (h : playForMiner.go e lh b l s = some s') : s'.irrev = s.irrev := by
  induction l generalizing s with
  | nil => simp [playForMiner.go] at h; rw [h]
  | cons i rest ih =>
    unfold playForMiner.go at h
    simp only at h
    split at h
    · split at h
      · rw [ih _ h, (payFee_frame _ _ _ _ _).2.2.2.2.1]; exact (applyTx_frame _ _).2.1
      · simp at h
    · rw [ih _ h]; exact (payFee_frame _ _ _ _ _).2.2.2.2.1

theorem playForMiner_irrev (e : Env) (s : St) (lh : Int) (b : Block) :
    s.irrev ≤ (playForMiner e s lh b).1.irrev ∧
    ((playForMiner e s lh b).2 = .ok → (playForMiner e s lh b).1.irrev = nextIrrev e.window s.irrev b.height) := by
  unfold playForMiner
  split
  · simp
  · split
    · exact ⟨nextIrrev_mono _ _ _, fun _ => rfl⟩
    · exact ⟨Int.le_refl _, fun h => absurd h (by simp)⟩

/-- undoing a block without the prune flag leaves the irreversible height alone -/
theorem undoBlock_irrev (e : Env) (s : St) (b : Block) : (undoBlock e s b false).irrev = s.irrev := by
  unfold undoBlock; simp

/-- **undoing a block WITH the prune flag**: the new height is the pruning rule applied to the block's height — with a
window w > 0 it is max(0, height − w), whatever the height was; with window 0 it is unchanged -/
theorem undoBlock_prune_irrev (e : Env) (s : St) (b : Block) :
    (undoBlock e s b true).irrev = nextIrrevPrune e.window s.irrev b.height := by
  unfold undoBlock; simp

/-- … and it lies strictly below the undone block's height (window > 0, height ≥ 1): the block that was pruned away is not
irreversible afterwards, nor is anything above the pointer's new block when heights are consecutive -/
theorem undoBlock_prune_below (e : Env) (s : St) (b : Block) (hw : 0 < e.window) (hh : 0 < b.height) :
    (undoBlock e s b true).irrev < (b.height : Int) := by
  rw [undoBlock_prune_irrev]
  exact nextIrrevPrune_lt_height _ _ _ hw (by exact_mod_cast hh)

/-- a pruning undo moves the pointer exactly as a plain undo does (the flag touches the height only) -/
theorem undoBlock_prune_pointer (e : Env) (s : St) (b : Block) :
    (undoBlock e s b true).pointer = (undoBlock e s b false).pointer := by
  unfold undoBlock; simp

theorem todoBlock_irrev (e : Env) (s s' : St) (lh : Int) (b : Block) (h : todoBlock e s lh b = some s') :
    s'.irrev = nextIrrev e.window s.irrev b.height := by
  unfold todoBlock at h
  split at h
  · simp at h
  · split at h
    · simp at h; rw [← h]
    · simp at h

private theorem undoAll_irrev (e : Env) (l : List Nat) (s : St) :
    (walk.undoAll e false l s).1.irrev = s.irrev := by
  induction l generalizing s with
  | nil => simp [walk.undoAll]
  | cons bi rest ih =>
    unfold walk.undoAll
    simp only
    split
    · rfl
    · rw [ih]; exact undoBlock_irrev _ _ _

/-- **no consensus walk undoes an irreversible block**: every block a non-pruning walk undoes lies strictly above
the irreversible height (stated on the undo loop: if it completes, all heights in the undo list exceed it;
if it refuses, it stops before the first block at or below it, having undone only blocks above it) -/
theorem walk_never_undoes_irreversible (e : Env) (l : List Nat) (s : St) :
    ((walk.undoAll e false l s).2 = true → ∀ bi ∈ l, s.irrev < ((e.block bi).height : Int)) ∧
    ((walk.undoAll e false l s).2 = false → ∃ pre bi post, l = pre ++ bi :: post ∧
        ((e.block bi).height : Int) ≤ s.irrev ∧ ∀ x ∈ pre, s.irrev < ((e.block x).height : Int)) := by
  induction l generalizing s with
  | nil => simp [walk.undoAll]
  | cons bi rest ih =>
    unfold walk.undoAll
    simp only
    by_cases hc : ((e.block bi).height : Int) ≤ s.irrev
    · simp only [Bool.not_false, Bool.true_and, hc, decide_true, ↓reduceIte]
      refine ⟨by simp, fun _ => ⟨[], bi, rest, by simp, hc, by simp⟩⟩
    · simp only [Bool.not_false, Bool.true_and, hc, decide_false, Bool.false_eq_true, ↓reduceIte]
      obtain ⟨i1, i2⟩ := ih (undoBlock e s (e.block bi) false)
      rw [undoBlock_irrev] at i1 i2
      constructor
      · intro h x hx
        rcases List.mem_cons.mp hx with rfl | hx
        · omega
        · exact i1 h x hx
      · intro h
        obtain ⟨pre, b2, post, hl, hb, hp⟩ := i2 h
        refine ⟨bi :: pre, b2, post, by simp [hl], hb, ?_⟩
        intro x hx
        rcases List.mem_cons.mp hx with rfl | hx
        · omega
        · exact hp x hx

private theorem todoAll_irrev (e : Env) (lh : Int) (l : List Nat) (s : St) :
    s.irrev ≤ (walk.todoAll e lh l s).1.irrev := by
  induction l generalizing s with
  | nil => simp [walk.todoAll]
  | cons bi rest ih =>
    unfold walk.todoAll
    split
    · rename_i st' heq
      have := todoBlock_irrev e s st' lh (e.block bi) heq
      have h2 := ih st'
      have := nextIrrev_mono e.window s.irrev (e.block bi).height
      omega
    · simp

private theorem foldl_doTx_irrev (e : Env) (lh : Int) (l : List Nat) (s : St) :
    (l.foldl (fun st i => (doTx e st lh i).1) s).irrev = s.irrev := by
  induction l generalizing s with
  | nil => rfl
  | cons i rest ih => simp only [List.foldl_cons]; rw [ih, doTx_irrev]

private theorem foldl_undoTx_irrev (e : Env) (l : List Nat) (s : St) :
    (l.foldl (fun st i => undoTx e st (e.tx i)) s).irrev = s.irrev := by
  induction l generalizing s with
  | nil => rfl
  | cons i rest ih => simp only [List.foldl_cons]; rw [ih, (undoTx_frame _ _ _).2.1]

/-- **monotone**: whatever forks are played, undone or replayed, a walk without the prune flag never lowers the
irreversible height — also when it fails half way -/
theorem walk_irrev_mono (e : Env) (s : St) (lh : Int) (dest : Nat) :
    s.irrev ≤ (walk e s lh dest false).1.irrev := by
  unfold walk
  simp only
  have h0 : ({ (s.pool.reverse.foldl (fun st i => undoTx e st (e.tx i)) s) with pool := [] } : St).irrev = s.irrev :=
    foldl_undoTx_irrev e s.pool.reverse s
  generalize hs0 : ({ (s.pool.reverse.foldl (fun st i => undoTx e st (e.tx i)) s) with pool := [] } : St) = s0 at h0
  have h1 := undoAll_irrev e (undoTodo e s.pointer dest).1 s0
  generalize hu : walk.undoAll e false (undoTodo e s.pointer dest).1 s0 = ua at h1
  obtain ⟨s1, ok1⟩ := ua
  simp only at h1
  by_cases hok1 : ok1 = true
  · simp only [hok1, Bool.not_true, Bool.false_eq_true, ↓reduceIte]
    have h2 := todoAll_irrev e lh (undoTodo e s.pointer dest).2 s1
    generalize ht : walk.todoAll e lh (undoTodo e s.pointer dest).2 s1 = ta at h2
    obtain ⟨s2, ok2⟩ := ta
    simp only at h2
    by_cases hok2 : ok2 = true
    · simp only [hok2, Bool.not_true, Bool.false_eq_true, ↓reduceIte]
      rw [foldl_doTx_irrev]; omega
    · simp only [hok2, Bool.not_false, ↓reduceIte]; omega
  · simp only [hok1, Bool.not_false, ↓reduceIte]; omega

-- non-vacuity: window 2, blocks of heights 1..5 applied in order: the irreversible height is 3 = max(h − 2)
example : [1, 2, 3, 4, 5].foldl (nextIrrev 2) 0 = 3 := by decide
-- a fork replayed at lower heights afterwards does not move it back
example : [1, 2, 3, 4, 5, 3, 4].foldl (nextIrrev 2) 0 = 3 := by decide

-- non-vacuity of the pruning statements: window 2, heights 5 then 4 undone from height 3
example : [5, 4].foldl (nextIrrevPrune 2) 3 = 2 := by decide
example : nextIrrev 2 (nextIrrevPrune 2 3 4) 4 = 2 ∧ nextIrrevPrune 2 3 4 < 4 := by decide

end XV.C17
