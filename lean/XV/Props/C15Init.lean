import XV.Props.C15
/-!
C15, initialisation — the tree `InitQCTree` builds from a ledger.

`XV.QcTree.initQCTree chain start tip` is the model of `common.InitQCTree(startHeight, ledger, log)`
(kernel/consensus/base/common/common.go after the `fix:` commit c73d582) over a ledger whose main
chain holds the blocks of the heights `0..tip`; `chain h` is the id of the block of height `h`.
The only assumption is that the world `W` (content of every proposal id) agrees with the ledger
(`LedgerWorld`: block `h` has view `h` and parent `chain (h-1)`), plus `Acyclic W` where the theorems
of Props/C15.lean need it.

For EVERY consensus start height and EVERY tip height — fresh start, restart exactly at the start
height, restart at tip 0 / 1 / 2 / ≥ 3, start heights whose predecessor block is not on the ledger —
the initial tree satisfies the invariant `Inv` of Props/C15.lean and `MarkersOK`; it is the ledger's
path from the root block to the tip, nothing else and nothing missing; every marker is a node of it;
HighQC is not behind the certificate the tip carries; Root is not above the last committed block.
Hence every history theorem of Props/C15.lean (tree_inv, stored_once, adopted_on_parent_arrival,
markers_are_ancestors, root_only_descends, highqc_monotone, pacemaker_monotone) holds for every
sequence of operations that continues from such a tree (`*_from_ledger`).
-/
namespace XV.C15Init
open XV.QcTree XV.C15

/-- the world agrees with the ledger `chain 0 .. chain tip`: `makeTreeNode` gives the block of height
`h` the view `h` and the parent id `chain (h-1)` -/
structure LedgerWorld (W : World) (chain : Nat → Nat) (tip : Nat) : Prop where
  view : ∀ h, h ≤ tip → (W (chain h)).view = (h : Int)
  parent : ∀ h, h < tip → (W (chain (h + 1))).parent = some (chain h)

/-- blocks of different heights have different ids -/
theorem LedgerWorld.inj {W : World} {chain : Nat → Nat} {tip : Nat} (hL : LedgerWorld W chain tip)
    {h h' : Nat} (hh : h ≤ tip) (hh' : h' ≤ tip) (e : chain h = chain h') : h = h' := by
  have h1 := hL.view h hh
  rw [e, hL.view h' hh'] at h1
  omega

/-- `s` is exactly the ledger's path `chain lo → chain (lo+1) → … → chain hi`, rooted at `chain lo`,
without orphans -/
structure PathTree (chain : Nat → Nat) (lo hi : Nat) (s : St) : Prop where
  root : s.root = chain lo
  le : lo ≤ hi
  sonsOn : ∀ h, lo ≤ h → h < hi → s.sons (chain h) = [chain (h + 1)]
  sonsOff : ∀ x, (∀ h, lo ≤ h → h < hi → x ≠ chain h) → s.sons x = []
  orphans : s.orphans = []
  tbl : ∀ h, lo ≤ h → h ≤ hi → chain h ∈ s.tbl

section path
variable {W : World} {chain : Nat → Nat} {tip lo hi : Nat} {s : St}

theorem PathTree.edge_cases (hP : PathTree chain lo hi s) {a c : Nat} (hc : c ∈ s.sons a) :
    ∃ h, lo ≤ h ∧ h < hi ∧ a = chain h ∧ c = chain (h + 1) := by
  by_cases hex : ∃ h, lo ≤ h ∧ h < hi ∧ a = chain h
  · obtain ⟨h, h1, h2, e⟩ := hex
    refine ⟨h, h1, h2, e, ?_⟩
    rw [e, hP.sonsOn h h1 h2] at hc
    simpa using hc
  · have : s.sons a = [] := hP.sonsOff a (fun h h1 h2 e => hex ⟨h, h1, h2, e⟩)
    rw [this] at hc
    simp at hc

/-- the nodes of the tree are the blocks `lo..hi` of the ledger -/
theorem PathTree.desc_iff (hP : PathTree chain lo hi s) (x : Nat) :
    Desc s.sons s.root x ↔ ∃ h, lo ≤ h ∧ h ≤ hi ∧ x = chain h := by
  constructor
  · intro hd
    refine Desc.closed (S := fun y => ∃ h, lo ≤ h ∧ h ≤ hi ∧ y = chain h) ?_ hd
      ⟨lo, Nat.le_refl _, hP.le, hP.root⟩
    intro b c _ hc
    obtain ⟨h, h1, h2, _, e⟩ := hP.edge_cases hc
    exact ⟨h + 1, by omega, by omega, e⟩
  · rintro ⟨h, h1, h2, e⟩
    subst e
    have key : ∀ k, lo + k ≤ hi → Desc s.sons s.root (chain (lo + k)) := by
      intro k
      induction k with
      | zero => intro _; rw [hP.root]; exact Desc.refl _
      | succ k ih =>
        intro hk
        refine Desc.tail (ih (by omega)) ?_
        rw [hP.sonsOn (lo + k) (by omega) (by omega)]
        exact List.mem_singleton.mpr rfl
    have := key (h - lo) (by omega)
    rwa [show lo + (h - lo) = h by omega] at this

theorem PathTree.inv (hL : LedgerWorld W chain tip) (hhi : hi ≤ tip) (hP : PathTree chain lo hi s) :
    Inv W s := by
  have noOrph : ∀ x, ¬ InOrph s x := by
    rintro x ⟨r, hr, _⟩
    rw [hP.orphans] at hr
    simp at hr
  constructor
  · intro a c hc
    obtain ⟨h, _, h2, ea, ec⟩ := hP.edge_cases hc
    subst ea; subst ec
    exact hL.parent h (by omega)
  · intro a
    by_cases hex : ∃ h, lo ≤ h ∧ h < hi ∧ a = chain h
    · obtain ⟨h, h1, h2, e⟩ := hex
      rw [e, hP.sonsOn h h1 h2]; simp
    · rw [hP.sonsOff a (fun h h1 h2 e => hex ⟨h, h1, h2, e⟩)]; simp
  · rw [hP.orphans]; simp
  · intro a c _ hc
    obtain ⟨h, h1, h2, _, ec⟩ := hP.edge_cases hc
    refine ⟨?_, by rw [hP.orphans]; simp⟩
    intro e
    rw [ec, hP.root] at e
    have := hL.inj (by omega) (by omega) e
    omega
  · rw [hP.orphans]; simp
  · intro r hr
    rw [hP.orphans] at hr
    simp at hr
  · intro x hx; exact (noOrph x hx).elim
  · rintro x (hx | hx)
    · obtain ⟨h, h1, h2, e⟩ := (hP.desc_iff x).mp hx
      rw [e]; exact hP.tbl h h1 h2
    · exact (noOrph x hx).elim

end path

/-! ### `link` -/

theorem link_self (f : Nat → List Nat) (a c : Nat) : link f a c a = f a ++ [c] := by
  simp [link, upd]

theorem link_other (f : Nat → List Nat) (a c x : Nat) (h : x ≠ a) : link f a c x = f x := by
  simp [link, upd, h]

/-! ### the shape of the initial tree -/

/-- the height of the block `InitQCTree` roots the tree at -/
def rootHeight (start tip : Nat) : Nat := if tip ≤ start then start - 1 else tip - 3

/-- the height of the block `InitQCTree` makes HighQC -/
def highHeight (start tip : Nat) : Nat := if tip ≤ start then start - 1 else tip - 1

/-- **init_some_iff.** `InitQCTree` builds a tree iff the block below the consensus start height is on
the ledger. -/
theorem init_some_iff (chain : Nat → Nat) (start tip : Nat) :
    (initQCTree chain start tip).isSome = true ↔ (1 ≤ start ∧ start ≤ tip + 1) := by
  unfold initQCTree
  split
  · rename_i h; simp; omega
  · rename_i h
    have : 1 ≤ start ∧ start ≤ tip + 1 := by omega
    simp only [this, and_self, iff_true]
    split
    · split <;> rfl
    · split
      · split <;> rfl
      · rfl

/-- everything `InitQCTree` decides, in one place -/
structure InitShape (chain : Nat → Nat) (start tip : Nat) (s : St) : Prop where
  range : 1 ≤ start ∧ start ≤ tip + 1
  path : PathTree chain (rootHeight start tip) tip s
  genesis : s.genesis = chain (start - 1)
  high : s.high = chain (highHeight start tip)
  generic : s.generic = if tip ≤ start ∨ tip < 3 then none else some (chain (tip - 2))
  locked : s.locked = none
  commit : s.commit = if tip ≤ start then some (chain (start - 1)) else none
  omap : s.omap = []
  pm : s.pm = 0

theorem init_shape {W : World} {chain : Nat → Nat} {start tip : Nat} {s : St}
    (hL : LedgerWorld W chain tip) (h : initQCTree chain start tip = some s) :
    InitShape chain start tip s := by
  unfold initQCTree at h
  split at h
  · cases h
  · rename_i h0
    have hr : 1 ≤ start ∧ start ≤ tip + 1 := by omega
    dsimp only at h
    split at h
    · rename_i hle
      have hrh : rootHeight start tip = start - 1 := by simp [rootHeight, hle]
      have hhh : highHeight start tip = start - 1 := by simp [highHeight, hle]
      split at h
      · -- restart exactly at the start height: genesis QC with the tip under it
        rename_i heq
        subst heq
        cases h
        refine ⟨hr, ?_, rfl, by rw [hhh]; rfl, by simp [init], rfl, by simp [init], rfl, rfl⟩
        rw [hrh]
        have e1 : tip - 1 + 1 = tip := by omega
        refine ⟨rfl, by omega, ?_, ?_, rfl, ?_⟩
        · intro h h1 h2
          have : h = tip - 1 := by omega
          subst this
          show link (fun _ => []) (chain (tip - 1)) (chain tip) (chain (tip - 1)) = _
          rw [link_self, e1]; rfl
        · intro x hx
          have := hx (tip - 1) (Nat.le_refl _) (by omega)
          show link (fun _ => []) (chain (tip - 1)) (chain tip) x = _
          rw [link_other _ _ _ _ this]
        · intro h h1 h2
          have : h = tip - 1 ∨ h = tip := by omega
          rcases this with e | e <;> subst e <;> simp
      · -- fresh start: the genesis QC alone
        rename_i hne
        cases h
        have ht : tip = start - 1 := by omega
        refine ⟨hr, ?_, rfl, by rw [hhh]; rfl, by simp [init, hle], rfl, by simp [init, hle], rfl, rfl⟩
        rw [hrh]
        refine ⟨rfl, by omega, ?_, ?_, rfl, ?_⟩
        · intro h h1 h2; omega
        · intro x _; rfl
        · intro h h1 h2
          have : h = start - 1 := by omega
          subst this; simp [init]
    · rename_i hgt
      have hrh : rootHeight start tip = tip - 3 := by simp [rootHeight, hgt]
      have hhh : highHeight start tip = tip - 1 := by simp [highHeight, hgt]
      split at h
      · -- restart with tip < 3: only tip = 2 is possible (tip > start ≥ 1)
        rename_i hlt
        have ht : tip = 2 := by omega
        subst ht
        simp only at h
        cases h
        have d01 : chain 0 ≠ chain 1 := fun e => by have := hL.inj (by omega) (by omega) e; omega
        refine ⟨hr, ?_, rfl, by rw [hhh], by simp, rfl, by simp; omega, rfl, rfl⟩
        rw [hrh]
        refine ⟨rfl, by omega, ?_, ?_, rfl, ?_⟩
        · intro h h1 h2
          have : h = 0 ∨ h = 1 := by omega
          rcases this with e | e <;> subst e
          · show link (link (fun _ => []) (chain 1) (chain 2)) (chain 0) (chain 1) (chain 0) = _
            rw [link_self, link_other _ _ _ _ d01]; rfl
          · show link (link (fun _ => []) (chain 1) (chain 2)) (chain 0) (chain 1) (chain 1) = _
            rw [link_other _ _ _ _ (Ne.symm d01), link_self]; rfl
        · intro x hx
          have x0 := hx 0 (by omega) (by omega)
          have x1 := hx 1 (by omega) (by omega)
          show link (link (fun _ => []) (chain 1) (chain 2)) (chain 0) (chain 1) x = _
          rw [link_other _ _ _ _ x0, link_other _ _ _ _ x1]
        · intro h h1 h2
          have : h = 0 ∨ h = 1 ∨ h = 2 := by omega
          rcases this with e | e | e <;> subst e <;> simp
      · -- restart with tip ≥ 3
        rename_i hge
        cases h
        have e1 : tip - 3 + 1 = tip - 2 := by omega
        have e2 : tip - 2 + 1 = tip - 1 := by omega
        have e3 : tip - 1 + 1 = tip := by omega
        have d01 : chain (tip - 3) ≠ chain (tip - 2) := fun e => by have := hL.inj (by omega) (by omega) e; omega
        have d02 : chain (tip - 3) ≠ chain (tip - 1) := fun e => by have := hL.inj (by omega) (by omega) e; omega
        have d12 : chain (tip - 2) ≠ chain (tip - 1) := fun e => by have := hL.inj (by omega) (by omega) e; omega
        refine ⟨hr, ?_, rfl, by rw [hhh], ?_, rfl, ?_, rfl, rfl⟩
        · rw [hrh]
          refine ⟨rfl, by omega, ?_, ?_, rfl, ?_⟩
          · intro h h1 h2
            have : h = tip - 3 ∨ h = tip - 2 ∨ h = tip - 1 := by omega
            rcases this with e | e | e <;> subst e
            · show link (link (link (fun _ => []) (chain (tip - 3)) (chain (tip - 2))) (chain (tip - 2)) (chain (tip - 1)))
                (chain (tip - 1)) (chain tip) (chain (tip - 3)) = _
              rw [link_other _ _ _ _ d02, link_other _ _ _ _ d01, link_self, e1]; rfl
            · show link (link (link (fun _ => []) (chain (tip - 3)) (chain (tip - 2))) (chain (tip - 2)) (chain (tip - 1)))
                (chain (tip - 1)) (chain tip) (chain (tip - 2)) = _
              rw [link_other _ _ _ _ d12, link_self, link_other _ _ _ _ (Ne.symm d01), e2]; rfl
            · show link (link (link (fun _ => []) (chain (tip - 3)) (chain (tip - 2))) (chain (tip - 2)) (chain (tip - 1)))
                (chain (tip - 1)) (chain tip) (chain (tip - 1)) = _
              rw [link_self, link_other _ _ _ _ (Ne.symm d12), link_other _ _ _ _ (Ne.symm d02), e3]; rfl
          · intro x hx
            have x0 := hx (tip - 3) (by omega) (by omega)
            have x1 := hx (tip - 2) (by omega) (by omega)
            have x2 := hx (tip - 1) (by omega) (by omega)
            show link (link (link (fun _ => []) (chain (tip - 3)) (chain (tip - 2))) (chain (tip - 2)) (chain (tip - 1)))
                (chain (tip - 1)) (chain tip) x = _
            rw [link_other _ _ _ _ x2, link_other _ _ _ _ x1, link_other _ _ _ _ x0]
          · intro h h1 h2
            have : h = tip - 3 ∨ h = tip - 2 ∨ h = tip - 1 ∨ h = tip := by omega
            rcases this with e | e | e | e <;> subst e <;> simp
        · have : ¬ (tip ≤ start ∨ tip < 3) := by omega
          simp [this]
        · simp [hgt]

/-! ## The property theorems about the initial tree -/

section init
variable {W : World} {chain : Nat → Nat} {start tip : Nat} {s : St}

/-- **init_tree_inv.** For every start height and every tip height the tree `InitQCTree` builds
satisfies the invariant of Props/C15.lean … -/
theorem init_tree_inv (hL : LedgerWorld W chain tip) (h : initQCTree chain start tip = some s) : Inv W s :=
  (init_shape hL h).path.inv hL (Nat.le_refl _)

/-- … hence it is a forest (a single tree: no orphans) in which every id occurs once and every node
hangs under the node its `ParentId` names. -/
theorem init_forest (hL : LedgerWorld W chain tip) (h : initQCTree chain start tip = some s) :
    Forest W s ∧ s.orphans = [] :=
  ⟨(init_tree_inv hL h).forest, (init_shape hL h).path.orphans⟩

/-- **init_stored_iff.** The nodes of the initial tree are exactly the blocks of the ledger from the
root block up to the tip: every accepted proposal above the root is stored (reachable from Root),
and nothing else is. -/
theorem init_stored_iff (hL : LedgerWorld W chain tip) (h : initQCTree chain start tip = some s) (x : Nat) :
    Stored s x ↔ ∃ k, rootHeight start tip ≤ k ∧ k ≤ tip ∧ x = chain k := by
  have hP := (init_shape hL h).path
  constructor
  · rintro (hx | ⟨r, hr, _⟩)
    · exact (hP.desc_iff x).mp hx
    · rw [hP.orphans] at hr; simp at hr
  · intro hx
    exact Or.inl ((hP.desc_iff x).mpr hx)

/-- the ledger's tip is a node of the tree, so the next block finds its parent -/
def init_tip_stored_statement (initF : (Nat → Nat) → Nat → Nat → Option St) : Prop :=
  ∀ (W : World) (chain : Nat → Nat) (start tip : Nat) (s : St), LedgerWorld W chain tip →
    initF chain start tip = some s → InMain s (chain tip)

/-- **init_tip_stored.** -/
theorem init_tip_stored : init_tip_stored_statement initQCTree := by
  intro W chain start tip s hL h
  have hP := (init_shape hL h).path
  exact (hP.desc_iff _).mpr ⟨tip, hP.le, Nat.le_refl _, rfl⟩

/-- **init_markers_ok.** GenericQC / LockedQC / CommitQC of the initial tree are the successive
ancestors of HighQC whenever set (CommitQC = Genesis only as the placeholder of the initial state). -/
theorem init_markers_ok (hL : LedgerWorld W chain tip) (h : initQCTree chain start tip = some s) :
    MarkersOK W s := by
  have hS := init_shape hL h
  constructor
  · intro g hg
    rw [hS.generic] at hg
    split at hg
    · cases hg
    · rename_i hc
      cases hg
      rw [hS.high]
      have : highHeight start tip = tip - 2 + 1 := by unfold highHeight; split <;> omega
      rw [this]
      exact hL.parent (tip - 2) (by omega)
  · intro l hl
    rw [hS.locked] at hl; cases hl
  · intro c hc
    rw [hS.commit] at hc
    split at hc
    · rename_i hle
      cases hc
      refine Or.inr ⟨hS.genesis.symm, ?_, ?_, hS.locked⟩
      · rw [hS.high, hS.genesis]; simp [highHeight, hle]
      · rw [hS.generic]; simp [hle]
    · cases hc

/-- **init_markers_in_tree.** Every marker of the initial tree is a node of it (reachable from Root). -/
theorem init_markers_in_tree (hL : LedgerWorld W chain tip) (h : initQCTree chain start tip = some s) :
    InMain s s.high ∧ (∀ g, s.generic = some g → InMain s g) ∧ (∀ l, s.locked = some l → InMain s l) ∧
    (∀ c, s.commit = some c → InMain s c) := by
  have hS := init_shape hL h
  have hP := hS.path
  have hr := hS.range
  refine ⟨?_, ?_, ?_, ?_⟩
  · rw [hS.high]
    refine (hP.desc_iff _).mpr ⟨highHeight start tip, ?_, ?_, rfl⟩ <;>
      (by_cases hc : tip ≤ start <;> simp [highHeight, rootHeight, hc] <;> omega)
  · intro g hg
    rw [hS.generic] at hg
    split at hg
    · cases hg
    · cases hg
      refine (hP.desc_iff _).mpr ⟨tip - 2, ?_, by omega, rfl⟩
      unfold rootHeight; split <;> omega
  · intro l hl; rw [hS.locked] at hl; cases hl
  · intro c hc
    rw [hS.commit] at hc
    split at hc
    · rename_i hle
      cases hc
      refine (hP.desc_iff _).mpr ⟨start - 1, ?_, by omega, rfl⟩
      simp [rootHeight, hle]
    · cases hc

/-- **init_highqc_not_behind_ledger.** The tip carries the certificate of its parent: HighQC of the
initial tree is a ledger block of height ≥ tip - 1. -/
theorem init_highqc_not_behind_ledger (hL : LedgerWorld W chain tip) (h : initQCTree chain start tip = some s) :
    (tip : Int) ≤ (W s.high).view + 1 := by
  have hS := init_shape hL h
  have hr := hS.range
  rw [hS.high, hL.view _ (by unfold highHeight; split <;> omega)]
  unfold highHeight; split <;> omega

/-- **init_root_committed.** Root of the initial tree is the ledger block of height `rootHeight`, which
is never above the last committed block: `tip - 3` heads the certified three-chain below the tip, and
the blocks below the consensus start height are final. -/
theorem init_root_committed (hL : LedgerWorld W chain tip) (h : initQCTree chain start tip = some s) :
    s.root = chain (rootHeight start tip) ∧ (W s.root).view = (rootHeight start tip : Nat) ∧
    (rootHeight start tip ≤ tip - 3 ∨ rootHeight start tip ≤ start - 1) := by
  have hS := init_shape hL h
  have hr := hS.range
  refine ⟨hS.path.root, ?_, ?_⟩
  · rw [hS.path.root]; exact hL.view _ hS.path.le
  · unfold rootHeight; split
    · exact Or.inr (Nat.le_refl _)
    · exact Or.inl (Nat.le_refl _)

/-! ### every history theorem of Props/C15.lean continues from the initial tree -/

/-- **tree_inv_from_ledger.** -/
theorem tree_inv_from_ledger (hW : Acyclic W) (hL : LedgerWorld W chain tip)
    (h : initQCTree chain start tip = some s) (ops : List Op) : Forest W (run W s ops) :=
  tree_inv_from W hW (init_tree_inv hL h) ops

/-- the invariant after any history from the initial tree -/
theorem run_inv_from_ledger (hW : Acyclic W) (hL : LedgerWorld W chain tip)
    (h : initQCTree chain start tip = some s) (ops : List Op) : Inv W (run W s ops) := by
  obtain ⟨rk, hrk⟩ := hW
  exact run_inv hrk (init_tree_inv hL h) ops

/-- **stored_once_from_ledger.** -/
theorem stored_once_from_ledger (hW : Acyclic W) (hL : LedgerWorld W chain tip)
    (h : initQCTree chain start tip = some s) (ops : List Op) (x p : Nat) (hp : (W x).parent = some p) :
    (updateQcStatus W (run W s ops) x).2 = true ∧
    (Stored (updateQcStatus W (run W s ops) x).1 x ∨
      (x ∈ (run W s ops).omap ∧ ¬ Stored (run W s ops) x)) :=
  stored_once_inv W hW (run_inv_from_ledger hW hL h ops) x p hp

/-- **adopted_on_parent_arrival_from_ledger.** -/
theorem adopted_on_parent_arrival_from_ledger (hW : Acyclic W) (hL : LedgerWorld W chain tip)
    (h : initQCTree chain start tip = some s) (ops : List Op) (c p : Nat)
    (hc : Stored (run W s ops) c) (hroot : c ≠ (run W s ops).root)
    (hpar : (W c).parent = some p) (hp : Stored (run W s ops) p) :
    c ∈ (run W s ops).sons p ∧ c ∉ (run W s ops).orphans :=
  adopted_inv (run_inv_from_ledger hW hL h ops) c p hc hroot hpar hp

/-- **markers_are_ancestors_from_ledger.** -/
theorem markers_are_ancestors_from_ledger (hL : LedgerWorld W chain tip)
    (h : initQCTree chain start tip = some s) (ops : List Op) : MarkersOK W (run W s ops) :=
  markers_run (init_markers_ok hL h) ops

/-- **root_only_descends_from_ledger.** The block `InitQCTree` rooted the tree at stays an ancestor of
every later Root. -/
theorem root_only_descends_from_ledger (hW : Acyclic W) (hL : LedgerWorld W chain tip)
    (h : initQCTree chain start tip = some s) (ops : List Op) :
    AncW W (chain (rootHeight start tip)) (run W s ops).root := by
  have := root_only_descends_inv W hW (init_tree_inv hL h) ops
  rwa [(init_shape hL h).path.root] at this

/-- **highqc_monotone_from_ledger.** Without explicit rollback the certified view never falls below
what the ledger certified at start-up (`tip - 1`). -/
theorem highqc_monotone_from_ledger (hL : LedgerWorld W chain tip)
    (h : initQCTree chain start tip = some s) (ops : List Op) (ho : ∀ o, o ∈ ops → notEnforce o) :
    (tip : Int) ≤ (W (run W s ops).high).view + 1 := by
  have h1 := init_highqc_not_behind_ledger hL h
  have h2 := highqc_monotone W s ops ho
  omega

end init

/-! ### the code as found -/

/-- `InitQCTree` before the `fix:` commit c73d582: with the tip exactly at the start height the tree
was the bare genesis QC (block `start - 1`) -/
def initAsFound (chain : Nat → Nat) (start tip : Nat) : Option St :=
  if start = 0 ∨ tip + 1 < start then none
  else if tip ≤ start then some (init (chain (start - 1)))
  else initQCTree chain start tip

/-- the ledger whose block of height `h` has id `h` -/
def W0 : World := fun x => ⟨x, if x = 0 then none else some (x - 1)⟩

theorem W0_acyclic : Acyclic W0 := by
  refine ⟨fun x => x, ?_⟩
  intro x p h
  show p < x
  unfold W0 at h
  simp only at h
  split at h
  · cases h
  · cases h; omega

theorem W0_ledger (tip : Nat) : LedgerWorld W0 (fun h => h) tip := by
  constructor
  · intro h _; rfl
  · intro h _; simp [W0]

/-- **init_tip_stored_as_found_counterexample.** Ledger 0, 1 with start height 1 (a chain restarted
right after its first block): the rebuilt tree did not hold the tip, so block 2 — and every block
after it — stayed an orphan for good (corpus/C15/init-tip-at-start-height.ops). -/
theorem init_tip_stored_as_found_counterexample : ¬ init_tip_stored_statement initAsFound := by
  intro hst
  have h := hst W0 (fun h => h) 1 1 (init 0) (W0_ledger 1) rfl
  have hd : ∀ a x, Desc (init 0).sons a x → x = a := by
    intro a x h
    cases h with
    | refl => rfl
    | step hc _ => simp [init] at hc
  have := hd _ _ h
  simp [init] at this

/-- … as found, block 2 waits in the orphan list although its parent is the ledger's tip … -/
example : (run W0 (init 0) [.ins 2]).orphans = [2] ∧ (run W0 (init 0) [.ins 2, .ins 3]).high = 0 := by decide

/-- … repaired, it hangs under the tip and certifies it -/
example : ((initQCTree (fun h => h) 1 1).map fun s =>
    ((run W0 s [.ins 2]).orphans, mainNodes (run W0 s [.ins 2]), (run W0 s [.ins 2]).high)) =
    some ([], [0, 1, 2], 1) := by decide

/-! ### non-vacuity: concrete initial trees and histories that continue from them -/

/-- restart at ledger height 2 (start height 1): Root = block 0, HighQC = block 1, the tip below it
(the tree of seeded change C15-5) -/
example : ((initQCTree (fun h => h) 1 2).map fun s => (s.root, s.high, s.generic, mainNodes s)) =
    some (0, 1, none, [0, 1, 2]) := by decide

/-- restart at ledger height 5: Root = 2, GenericQC = 3, HighQC = 4; the chain grows by 6 and 7, both
certify their parents, and the commit moves Root to block 4 (`root_only_descends_from_ledger`,
`markers_are_ancestors_from_ledger` are about histories like this one) -/
example : ((initQCTree (fun h => h) 1 5).map fun s => (s.root, s.generic, s.high, mainNodes s)) =
    some (2, some 3, 4, [2, 3, 4, 5]) ∧
    ((initQCTree (fun h => h) 1 5).map fun s =>
      ((run W0 s [.ins 6, .ins 7]).high, (run W0 s [.ins 6, .ins 7]).commit,
       (run W0 s [.ins 6, .ins 7, .commit 7]).root, mainNodes (run W0 s [.ins 6, .ins 7, .commit 7]))) =
    some (6, some 3, 4, [4, 5, 6, 7]) := by decide

/-- consensus started at height 5 on a ledger of height 4 (fresh) and of height 5 (restart at the start
height): the genesis QC is block 4 -/
example : ((initQCTree (fun h => h) 5 4).map fun s => (s.root, s.high, s.commit, mainNodes s)) =
    some (4, 4, some 4, [4]) ∧
    ((initQCTree (fun h => h) 5 5).map fun s => (s.root, s.high, s.commit, mainNodes s)) =
    some (4, 4, some 4, [4, 5]) := by decide

/-- start heights whose predecessor block is not on the ledger: no tree -/
example : (initQCTree (fun h => h) 0 3).isSome = false ∧ (initQCTree (fun h => h) 6 3).isSome = false := by decide

end XV.C15Init
