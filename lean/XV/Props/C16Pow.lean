import XV.Model.Pow
import Mathlib.Tactic.Ring
/-!
C16, proof-of-work part: compact difficulty encoding, `IsProofed`, retarget clamp, and what an accepted
block satisfies.  The model (`XV.Model.Pow`) is tied to `bcs/consensus/pow` by correspondence.
-/
namespace XV.C16
open XV.Pow

/-- **`proofed_iff`** (bitcoin-style targets): a block id passes `IsProofed` exactly when the target bits
are neither negative nor overflowing, the target is not below the configured floor (`maxDifficulty`, the
hardest admissible target) and the id, read as a number, does not exceed the target. -/
theorem proofed_iff (maxDiff hash bits : Nat) :
    isProofed true maxDiff hash bits = true ↔
      (setCompact bits).2.1 = false ∧ (setCompact bits).2.2 = false ∧ maxDiff ≤ target bits ∧ hash ≤ target bits := by
  unfold isProofed target
  simp only [if_true]
  rcases hsc : setCompact bits with ⟨d, neg, ovf⟩
  simp only []
  cases neg <;> cases ovf <;> simp

/-- legacy (leading-zero-bits) targets: passes iff `hash ≤ 2^(256 - bits)` -/
theorem proofed_legacy_iff (maxDiff hash bits : Nat) :
    isProofed false maxDiff hash bits = true ↔ hash ≤ 2 ^ (256 - bits) := by
  unfold isProofed
  simp

/-- One formula for both branches of `SetCompact`: value = mantissa · 256^size / 256^3. -/
theorem target_formula (c : Nat) : target c = (c % 2 ^ 23) * 2 ^ (8 * (c / 2 ^ 24)) / 2 ^ 24 := by
  unfold target setCompact
  simp only []
  generalize c / 2 ^ 24 = s
  generalize c % 2 ^ 23 = m
  by_cases h : s ≤ 3
  · simp only [h, if_true]
    have e : (2 : Nat) ^ 24 = 2 ^ (8 * (3 - s)) * 2 ^ (8 * s) := by
      rw [← Nat.pow_add]; congr 1; omega
    rw [e, Nat.mul_div_mul_right _ _ (Nat.two_pow_pos _)]
  · simp only [h, if_false]
    have e : (2 : Nat) ^ (8 * s) = 2 ^ (8 * (s - 3)) * 2 ^ 24 := by
      rw [← Nat.pow_add]; congr 1; omega
    rw [e, ← Nat.mul_assoc, Nat.mul_div_cancel _ (by decide)]

/-- **`setCompact_monotone`**: on encodings with the sign bit clear, a larger encoding denotes a larger (or
equal) target, provided the larger one is normalised (mantissa ≥ 0x008000) whenever the sizes differ. -/
theorem setCompact_monotone (c₁ c₂ : Nat) (h1 : c₁ % 2 ^ 24 < 2 ^ 23) (h2 : c₂ % 2 ^ 24 < 2 ^ 23)
    (hn : 2 ^ 15 ≤ c₂ % 2 ^ 24 ∨ c₁ / 2 ^ 24 = c₂ / 2 ^ 24) (hle : c₁ ≤ c₂) : target c₁ ≤ target c₂ := by
  rw [target_formula, target_formula]
  apply Nat.div_le_div_right
  have hm1 : c₁ % 2 ^ 23 = c₁ % 2 ^ 24 := by omega
  have hm2 : c₂ % 2 ^ 23 = c₂ % 2 ^ 24 := by omega
  rw [hm1, hm2]
  by_cases hs : c₁ / 2 ^ 24 = c₂ / 2 ^ 24
  · rw [hs]
    apply Nat.mul_le_mul_right
    omega
  · have hlt : c₁ / 2 ^ 24 < c₂ / 2 ^ 24 := by omega
    have hn' : 2 ^ 15 ≤ c₂ % 2 ^ 24 := by
      rcases hn with h | h
      · exact h
      · exact absurd h hs
    calc c₁ % 2 ^ 24 * 2 ^ (8 * (c₁ / 2 ^ 24))
        ≤ 2 ^ 23 * 2 ^ (8 * (c₁ / 2 ^ 24)) := Nat.mul_le_mul_right _ (by omega)
      _ = 2 ^ 15 * 2 ^ (8 * (c₁ / 2 ^ 24) + 8) := by rw [Nat.pow_add]; ring
      _ ≤ 2 ^ 15 * 2 ^ (8 * (c₂ / 2 ^ 24)) := Nat.mul_le_mul_left _ (Nat.pow_le_pow_right (by decide) (by omega))
      _ ≤ c₂ % 2 ^ 24 * 2 ^ (8 * (c₂ / 2 ^ 24)) := Nat.mul_le_mul_right _ hn'

/-! ### round trip -/

private theorem byteLen_eq {n s : Nat} (hs : 1 ≤ s) (hlo : 2 ^ (8 * (s - 1)) ≤ n) (hhi : n < 2 ^ (8 * s)) :
    byteLen n = s := by
  have hn : n ≠ 0 := by have := Nat.two_pow_pos (8 * (s - 1)); omega
  unfold byteLen bitLen
  simp only [hn, if_false]
  have h1 := (Nat.le_log2 hn).mpr hlo
  have h2 := (Nat.log2_lt hn).mpr hhi
  omega

/-- `GetCompact` once the byte length `b` and the three-byte window `c0` are known -/
private theorem getCompact_of {n b c0 : Nat} (hb : byteLen n = b)
    (hc0 : (if b ≤ 3 then (n % 2 ^ 64 * 2 ^ (8 * (3 - b))) % 2 ^ 64 % 2 ^ 32
            else (n / 2 ^ (8 * (b - 3))) % 2 ^ 64 % 2 ^ 32) = c0)
    (h24 : c0 < 2 ^ 24) (hb255 : b ≤ 255 ∧ (2 ^ 23 ≤ c0 → b + 1 ≤ 255)) :
    getCompact n = if 2 ^ 23 ≤ c0 then (c0 / 256 + (b + 1) * 2 ^ 24, true) else (c0 + b * 2 ^ 24, true) := by
  unfold getCompact
  simp only [hb, hc0]
  by_cases h : 2 ^ 23 ≤ c0
  · have hb1 := hb255.2 h
    have hs : c0 / 2 ^ 23 % 2 = 1 := by omega
    simp only [hs, if_true, h]
    have h1 : ¬ (c0 / 2 ^ 8 / 2 ^ 23 ≠ 0 ∨ b + 1 > 256) := by omega
    simp only [h1, if_false]
    have : (b + 1) * 2 ^ 24 % 2 ^ 32 = (b + 1) * 2 ^ 24 := by omega
    rw [this]
  · have hb0 := hb255.1
    have hs : ¬ (c0 / 2 ^ 23 % 2 = 1) := by omega
    simp only [hs, if_false, h]
    have h1 : ¬ (c0 / 2 ^ 23 ≠ 0 ∨ b > 256) := by omega
    simp only [h1, if_false]
    have : b * 2 ^ 24 % 2 ^ 32 = b * 2 ^ 24 := by omega
    rw [this]

/-- canonical encodings — exactly what `GetCompact` produces: zero is `0`; otherwise the sign bit is clear,
the mantissa is normalised (`≥ 0x008000`, i.e. its top two bytes are in use) and, for sizes below 3, the
bytes that `SetCompact` shifts out are zero. -/
def Canonical (c : Nat) : Prop :=
  c < 2 ^ 32 ∧ (c = 0 ∨ (2 ^ 15 ≤ c % 2 ^ 24 ∧ c % 2 ^ 24 < 2 ^ 23 ∧
    (c / 2 ^ 24 ≤ 3 → (c % 2 ^ 24) % 2 ^ (8 * (3 - c / 2 ^ 24)) = 0)))

/-- **`compact_roundtrip`**: `GetCompact (SetCompact c) = c` for every canonical encoding (any size 0..255). -/
theorem compact_roundtrip (c : Nat) (hc : Canonical c) : getCompact (target c) = (c, true) := by
  obtain ⟨h32, h⟩ := hc
  rcases h with h0 | ⟨hm15, hm23, hsmall⟩
  · subst h0; decide
  · have hmm : c % 2 ^ 23 = c % 2 ^ 24 := by omega
    have hcdecomp : c = c % 2 ^ 24 + c / 2 ^ 24 * 2 ^ 24 := by omega
    have hs255 : c / 2 ^ 24 ≤ 255 := by omega
    unfold target setCompact
    simp only [hmm]
    generalize hm : c % 2 ^ 24 = m at *
    generalize hsz : c / 2 ^ 24 = s at *
    by_cases hs3 : s ≤ 3
    · simp only [hs3, if_true]
      have hz := hsmall hs3
      have hcases : s = 0 ∨ s = 1 ∨ s = 2 ∨ s = 3 := by omega
      rcases hcases with rfl | rfl | rfl | rfl
      · norm_num at hz; omega
      · -- size 1
        norm_num at hz ⊢
        have hb : byteLen (m / 65536) = 1 := byteLen_eq (by omega) (by norm_num; omega) (by norm_num; omega)
        rw [getCompact_of hb (c0 := m) (by rw [if_pos (by omega)]; norm_num; omega) (by omega) (by omega)]
        have : ¬ (2 ^ 23 ≤ m) := by omega
        simp only [this, if_false]
        rw [hcdecomp]
      · -- size 2
        norm_num at hz ⊢
        by_cases hlt : m / 256 < 256
        · have hb : byteLen (m / 256) = 1 := byteLen_eq (by omega) (by norm_num; omega) (by norm_num; omega)
          rw [getCompact_of hb (c0 := m * 256) (by rw [if_pos (by omega)]; norm_num; omega) (by omega) (by omega)]
          have : 2 ^ 23 ≤ m * 256 := by omega
          simp only [this, if_true]
          rw [hcdecomp]; congr 1; omega
        · have hb : byteLen (m / 256) = 2 := byteLen_eq (by omega) (by norm_num; omega) (by norm_num; omega)
          rw [getCompact_of hb (c0 := m) (by rw [if_pos (by omega)]; norm_num; omega) (by omega) (by omega)]
          have : ¬ (2 ^ 23 ≤ m) := by omega
          simp only [this, if_false]
          rw [hcdecomp]
      · -- size 3
        norm_num at hz ⊢
        by_cases hlt : m < 65536
        · have hb : byteLen m = 2 := byteLen_eq (by omega) (by norm_num; omega) (by norm_num; omega)
          rw [getCompact_of hb (c0 := m * 256) (by rw [if_pos (by omega)]; norm_num; omega) (by omega) (by omega)]
          have : 2 ^ 23 ≤ m * 256 := by omega
          simp only [this, if_true]
          rw [hcdecomp]; congr 1; omega
        · have hb : byteLen m = 3 := byteLen_eq (by omega) (by norm_num; omega) (by norm_num; omega)
          rw [getCompact_of hb (c0 := m) (by rw [if_pos (by omega)]; norm_num; omega) (by omega) (by omega)]
          have : ¬ (2 ^ 23 ≤ m) := by omega
          simp only [this, if_false]
          rw [hcdecomp]
    · simp only [hs3, if_false]
      have hP : 0 < 2 ^ (8 * (s - 3)) := Nat.two_pow_pos _
      by_cases hlt : m < 2 ^ 16
      · -- mantissa 0x008000..0x00ffff: byte length s-1
        have e1 : 2 ^ (8 * (s - 1 - 1)) = 2 ^ 8 * 2 ^ (8 * (s - 3)) := by
          rw [← Nat.pow_add]; congr 1; omega
        have e2 : 2 ^ (8 * (s - 1)) = 2 ^ 16 * 2 ^ (8 * (s - 3)) := by
          rw [← Nat.pow_add]; congr 1; omega
        have hb : byteLen (m * 2 ^ (8 * (s - 3))) = s - 1 := by
          apply byteLen_eq (by omega)
          · rw [e1]; exact Nat.mul_le_mul_right _ (by omega)
          · rw [e2]; exact Nat.mul_lt_mul_of_pos_right hlt hP
        have hc0 : (if s - 1 ≤ 3 then (m * 2 ^ (8 * (s - 3)) % 2 ^ 64 * 2 ^ (8 * (3 - (s - 1)))) % 2 ^ 64 % 2 ^ 32
            else (m * 2 ^ (8 * (s - 3)) / 2 ^ (8 * (s - 1 - 3))) % 2 ^ 64 % 2 ^ 32) = m * 256 := by
          by_cases h4 : s = 4
          · subst h4; norm_num; omega
          · have : ¬ (s - 1 ≤ 3) := by omega
            simp only [this, if_false]
            have e3 : 2 ^ (8 * (s - 3)) = 2 ^ 8 * 2 ^ (8 * (s - 1 - 3)) := by
              rw [← Nat.pow_add]; congr 1; omega
            rw [e3, ← Nat.mul_assoc, Nat.mul_div_cancel _ (Nat.two_pow_pos _)]
            omega
        have h24 : m * 256 < 2 ^ 24 := by omega
        rw [getCompact_of hb hc0 h24 ⟨by omega, fun _ => by omega⟩]
        have : 2 ^ 23 ≤ m * 256 := by omega
        simp only [this, if_true]
        rw [hcdecomp]; congr 1
        have : s - 1 + 1 = s := by omega
        rw [this]; omega
      · -- mantissa 0x010000..0x7fffff: byte length s
        have e1 : 2 ^ (8 * (s - 1)) = 2 ^ 16 * 2 ^ (8 * (s - 3)) := by
          rw [← Nat.pow_add]; congr 1; omega
        have e2 : 2 ^ (8 * s) = 2 ^ 24 * 2 ^ (8 * (s - 3)) := by
          rw [← Nat.pow_add]; congr 1; omega
        have hb : byteLen (m * 2 ^ (8 * (s - 3))) = s := by
          apply byteLen_eq (by omega)
          · rw [e1]; exact Nat.mul_le_mul_right _ (by omega)
          · rw [e2]; exact Nat.mul_lt_mul_of_pos_right (by omega) hP
        have hc0 : (if s ≤ 3 then (m * 2 ^ (8 * (s - 3)) % 2 ^ 64 * 2 ^ (8 * (3 - s))) % 2 ^ 64 % 2 ^ 32
            else (m * 2 ^ (8 * (s - 3)) / 2 ^ (8 * (s - 3))) % 2 ^ 64 % 2 ^ 32) = m := by
          simp only [hs3, if_false]
          rw [Nat.mul_div_cancel _ hP]
          omega
        have h24 : m < 2 ^ 24 := by omega
        rw [getCompact_of hb hc0 h24 ⟨by omega, fun _ => by omega⟩]
        have : ¬ (2 ^ 23 ≤ m) := by omega
        simp only [this, if_false]
        rw [hcdecomp]

/-- non-vacuity: Bitcoin's genesis bits and the repo's test target are canonical, and decode as expected -/
example : Canonical 0x1d00ffff := by unfold Canonical; norm_num; omega
example : Canonical 0x207fffff := by unfold Canonical; norm_num; omega
example : target 0x1d00ffff = 0xffff * 2 ^ 208 := by rw [target_formula]; norm_num
/-- a non-normalised mantissa is not canonical (0x04000080 and 0x03008000 denote the same number) -/
example : ¬ Canonical 0x04000080 := by unfold Canonical; norm_num; omega
example : target 0x04000080 = target 0x03008000 := by rw [target_formula, target_formula]; norm_num

/-! ### retarget -/

/-- the time span used for retargeting is clamped to `[expected/4, expected·4]` (Go integer division) -/
theorem clampSpan_bounds (expected actual : Int) (hE : 0 ≤ expected) :
    Int.tdiv expected 4 ≤ clampSpan expected actual ∧ clampSpan expected actual ≤ expected * 4 := by
  unfold clampSpan
  rw [Int.tdiv_eq_ediv_of_nonneg hE]
  simp only []
  split <;> split <;> omega

/-- **`retarget_clamped`** (upper half, and the exact lower bound): the new target `old·span/expected` never
exceeds four times the old one, and `old·⌊expected/4⌋ < (new+1)·expected`. -/
theorem retarget_clamped (old : Nat) (expected actual : Int) (hE : 0 < expected) :
    scaleTarget old (clampSpan expected actual) expected ≤ 4 * (old : Int) ∧
    (old : Int) * Int.tdiv expected 4 < (scaleTarget old (clampSpan expected actual) expected + 1) * expected := by
  obtain ⟨hlo, hhi⟩ := clampSpan_bounds expected actual (by omega)
  unfold scaleTarget
  generalize clampSpan expected actual = s at *
  have hold : (0 : Int) ≤ old := by omega
  have h1 := Int.mul_ediv_self_le (x := (old : Int) * s) (k := expected) (by omega)
  have h2 := Int.lt_mul_ediv_self_add (x := (old : Int) * s) (k := expected) hE
  have h3 : (old : Int) * s ≤ old * (expected * 4) := Int.mul_le_mul_of_nonneg_left hhi hold
  have h4 : (old : Int) * Int.tdiv expected 4 ≤ old * s := Int.mul_le_mul_of_nonneg_left hlo hold
  generalize (old : Int) * s / expected = n at *
  constructor
  · have : expected * n ≤ expected * (4 * old) := by
      have : (old : Int) * (expected * 4) = expected * (4 * old) := by ring
      omega
    exact Int.le_of_mul_le_mul_left this hE
  · have : (n + 1) * expected = expected * n + expected := by ring
    omega

/-- Full-strength clamp: new target at least a quarter of the old one (`old ≤ 4·new + 3`, integer division).
FALSE when the expected span is not a multiple of 4 (`expected/4` rounds down), see the counterexample. -/
def retarget_quarter_statement : Prop :=
  ∀ (old : Nat) (expected actual : Int), 0 < expected →
    (old : Int) ≤ 4 * scaleTarget old (clampSpan expected actual) expected + 3

theorem retarget_quarter_counterexample : ¬ retarget_quarter_statement := by
  intro h
  have := h 700 7 0 (by decide)
  revert this
  decide

/-- ¼-clamp under the exact extra condition `4 ∣ expected`. -/
theorem retarget_quarter_partial (old : Nat) (expected actual : Int) (hE : 0 < expected) (h4 : expected % 4 = 0) :
    (old : Int) ≤ 4 * scaleTarget old (clampSpan expected actual) expected + 3 := by
  obtain ⟨-, hlow⟩ := retarget_clamped old expected actual hE
  rw [Int.tdiv_eq_ediv_of_nonneg (by omega)] at hlow
  generalize scaleTarget old (clampSpan expected actual) expected = n at *
  have he : expected = 4 * (expected / 4) := by omega
  generalize expected / 4 = e at *
  subst he
  have he0 : 0 < e := by omega
  have : (old : Int) * e < (4 * (n + 1)) * e := by
    have : (n + 1) * (4 * e) = (4 * (n + 1)) * e := by ring
    omega
  have := Int.lt_of_mul_lt_mul_right this (by omega)
  omega

/-- non-vacuity of the clamp: a four-fold slow-down and a ten-fold speed-up on a 14-day span -/
example : scaleTarget 1000 (clampSpan 1209600 9999999) 1209600 = 4000 := by decide
example : scaleTarget 1000 (clampSpan 1209600 120960) 1209600 = 250 := by decide

/-- **The retarget step of `refreshDifficulty`** (bitcoin-style targets): at a height that is a multiple of
the adjustment gap, with the needed ancestors in the ledger, the prescribed bits are the compact encoding of
`old·span/expected` — the quantity `retarget_clamped` bounds — floored at the configured hardest target.
`old` is the target of the block *before* the parent (the code reads `preBlock`), `far` lies `gap-1`
blocks further back. -/
theorem refresh_retarget (c : Cfg) (chain : Array Blk) (ti : Nat) (h : Int) (tipB pre far : Blk) (prevBits : Nat)
    (hb : c.bitcoin = true) (hg0 : c.gap ≠ 0) (hh : ¬ h ≤ c.gap) (hmod : Int.tmod h c.gap = 0)
    (h1 : chain[ti]? = some tipB) (hti : 1 ≤ ti) (h2 : chain[ti - 1]? = some pre) (hpb : pre.bits = some prevBits)
    (hfi : (c.gap - 1).toNat ≤ ti - 1) (h3 : chain[ti - 1 - (c.gap - 1).toNat]? = some far)
    (hE : c.expectedPeriod * (c.gap - 1) ≠ 0) :
    refreshDifficulty c chain (some ti) h = .ok (
      let expected := c.expectedPeriod * (c.gap - 1)
      let d := scaleTarget (target prevBits) (clampSpan expected (Int.tdiv (pre.ts - far.ts) 1000000000)) expected
      if d < (c.maxDiff : Int) then c.maxTarget else
      match getCompact d.toNat with
      | (_, false) => prevBits
      | (nb, true) => nb) := by
  unfold refreshDifficulty
  simp only [hg0, if_false, hh, Option.bind_some, h1, Option.map_some, walkBack, hti, if_true, h2, hpb, hmod,
    ne_eq, not_true_eq_false, hfi, h3, hb, hE]
  split
  · rfl
  · split <;> simp_all

/-! ### acceptance -/

/-- **pow: what an accepted block satisfies.**  Its stored target bits are the ones the retarget rule
prescribes from the chain's own history, its id passes `IsProofed` for them (so, with bitcoin-style
targets, `hash ≤ target`), its parent is known and not younger than it, the id recomputes, and the
signature by the proposer's key verifies. -/
theorem pow_accept_sound (c : Cfg) (chain : Array Blk) (b : Cand) (h : checkMinerMatch c chain b = .accept) :
    ∃ bits pre, b.bits = some bits ∧ refreshDifficulty c chain b.parent b.height = .ok bits ∧
      isProofed c.bitcoin c.maxDiff b.hash bits = true ∧
      b.parent.bind (fun i => chain[i]?) = some pre ∧ pre.ts ≤ b.ts ∧
      b.idOk = true ∧ b.keyOk = true ∧ b.sigOk = true := by
  unfold checkMinerMatch at h
  split at h
  · exact absurd h (by simp)
  · rename_i bits hbits
    split at h
    · exact absurd h (by simp)
    · rename_i hproof
      split at h
      · exact absurd h (by simp)
      · rename_i hid
        split at h
        · exact absurd h (by simp)
        · exact absurd h (by simp)
        · rename_i tb hrd
          split at h
          · exact absurd h (by simp)
          · rename_i htb
            split at h
            · exact absurd h (by simp)
            · rename_i pre hpre
              split at h
              · exact absurd h (by simp)
              · rename_i hts
                split at h
                · exact absurd h (by simp)
                · split at h
                  · exact absurd h (by simp)
                  · rename_i hkey
                    split at h
                    · rename_i hsig
                      have htb' : tb = bits := by simpa using htb
                      subst htb'
                      refine ⟨tb, pre, hbits, hrd, by simpa using hproof, hpre, by omega, by simpa using hid,
                        by simpa using hkey, hsig⟩
                    · exact absurd h (by simp)

/-- corollary for bitcoin-style targets: accepted ⇒ `hash ≤ target(prescribed bits)` and the prescribed
target is legal (not negative, no overflow, not below the floor) -/
theorem pow_accept_hash_le_target (c : Cfg) (chain : Array Blk) (b : Cand) (hb : c.bitcoin = true)
    (h : checkMinerMatch c chain b = .accept) :
    ∃ bits, refreshDifficulty c chain b.parent b.height = .ok bits ∧ b.hash ≤ target bits ∧
      c.maxDiff ≤ target bits ∧ (setCompact bits).2.1 = false ∧ (setCompact bits).2.2 = false := by
  obtain ⟨bits, pre, -, hrd, hp, -⟩ := pow_accept_sound c chain b h
  rw [hb, proofed_iff] at hp
  exact ⟨bits, hrd, hp.2.2.2, hp.2.2.1, hp.1, hp.2.1⟩

end XV.C16
