import XV.Model.GovToken
import XV.Lemmas.GovToken
/-! stake lemmas of the `gov` model (C19): the books of the proposal and TDPoS contracts against the locked amounts -/
namespace XV.GovToken

/-! ### buckets: erase, sums under `aput` / `aerase` -/

theorem nomStake_aput_new {l : List (Acct × (Acct × Int))} {c : Acct} (h : aget l c = none) (i : Acct) (n : Int)
    (a : Acct) : nomStake (aput l c (i, n)) a = nomStake l a + (if i = a then n else 0) := by
  induction l with
  | nil => simp [aput, nomStake]
  | cons hd r ih =>
    obtain ⟨k, j, m⟩ := hd
    by_cases hk : k = c
    · simp [aget, hk] at h
    · simp only [aget, hk, if_false] at h
      simp only [aput, hk, if_false, nomStake, ih h]
      omega

theorem nomStake_aerase {l : List (Acct × (Acct × Int))} {c i : Acct} {n : Int} (h : aget l c = some (i, n))
    (a : Acct) : nomStake (aerase l c) a = nomStake l a - (if i = a then n else 0) := by
  induction l with
  | nil => simp [aget] at h
  | cons hd r ih =>
    obtain ⟨k, j, m⟩ := hd
    by_cases hk : k = c
    · simp only [aget, hk, if_true, Option.some.injEq, Prod.mk.injEq] at h
      obtain ⟨h1, h2⟩ := h
      subst h1; subst h2
      simp only [aerase, hk, if_true, nomStake]
      omega
    · simp only [aget, hk, if_false] at h
      simp only [aerase, hk, if_false, nomStake, ih h]
      omega

theorem mapStake_aput (vm : List (Acct × Int)) (i : Acct) (v : Int) (a : Acct) :
    mapStake (aput vm i v) a
      = mapStake vm a - (if i = a then (aget vm i).getD 0 else 0) + (if i = a then v else 0) := by
  induction vm with
  | nil => simp [aput, mapStake, aget]
  | cons hd r ih =>
    obtain ⟨k, m⟩ := hd
    by_cases hk : k = i
    · subst hk
      simp only [aput, if_true, mapStake, aget, Option.getD_some]
      split <;> omega
    · simp only [aput, hk, if_false, mapStake, aget, ih]
      omega

theorem voteStake_aput (vs : List (Acct × List (Acct × Int))) (c : Acct) (vm' : List (Acct × Int)) (a : Acct) :
    voteStake (aput vs c vm') a = voteStake vs a - mapStake ((aget vs c).getD []) a + mapStake vm' a := by
  induction vs with
  | nil => simp [aput, voteStake, aget, mapStake]
  | cons hd r ih =>
    obtain ⟨k, m⟩ := hd
    by_cases hk : k = c
    · subst hk
      simp only [aput, if_true, voteStake, aget, Option.getD_some]
      omega
    · simp only [aput, hk, if_false, voteStake, aget, ih]
      omega

/-! ### proposal stakes -/

theorem propOpen_aput (props : List (Nat × Proposal)) (pid p : Nat) (q : Proposal) :
    propOpen (aput props pid q) p = if p = pid then q.status.isOpen else propOpen props p := by
  unfold propOpen
  rw [aget_aput]
  by_cases h : p = pid <;> simp [h]

theorem stakeOrd_congr {props props' : List (Nat × Proposal)} (l : List ((Nat × Acct) × Int)) (a : Acct)
    (h : ∀ e ∈ l, propOpen props' e.1.1 = propOpen props e.1.1) : stakeOrd props' l a = stakeOrd props l a := by
  induction l with
  | nil => rfl
  | cons hd r ih =>
    obtain ⟨⟨p, x⟩, amt⟩ := hd
    have h1 := h ((p, x), amt) List.mem_cons_self
    simp only at h1
    simp only [stakeOrd, h1, ih (fun e he => h e (List.mem_cons_of_mem _ he))]

theorem stakeOrd_aput_locks (props : List (Nat × Proposal)) (l : List ((Nat × Acct) × Int)) (pid : Nat) (x : Acct)
    (v : Int) (a : Acct) :
    stakeOrd props (aput l (pid, x) v) a
      = stakeOrd props l a - (if x = a ∧ propOpen props pid = true then (aget l (pid, x)).getD 0 else 0)
          + (if x = a ∧ propOpen props pid = true then v else 0) := by
  induction l with
  | nil => simp [aput, stakeOrd, aget]
  | cons hd r ih =>
    obtain ⟨⟨p, y⟩, amt⟩ := hd
    by_cases hk : (p, y) = (pid, x)
    · simp only [Prod.mk.injEq] at hk
      obtain ⟨h1, h2⟩ := hk
      subst h1; subst h2
      simp only [aput, if_true, stakeOrd, aget, Option.getD_some]
      split <;> omega
    · simp only [aput, hk, if_false, stakeOrd, aget, ih]
      omega

/-- sum of the lock records of `(pid, a)` -/
def recSum (pid : Nat) (a : Acct) : List ((Nat × Acct) × Int) → Int
  | [] => 0
  | ((p, x), amt) :: r => (if p = pid ∧ x = a then amt else 0) + recSum pid a r

theorem recSum_nonneg (pid : Nat) (a : Acct) {l : List ((Nat × Acct) × Int)} (h : ∀ e ∈ l, 0 ≤ e.2) :
    0 ≤ recSum pid a l := by
  induction l with
  | nil => simp [recSum]
  | cons hd r ih =>
    obtain ⟨⟨p, x⟩, amt⟩ := hd
    have h1 := h ((p, x), amt) List.mem_cons_self
    have h2 := ih (fun e he => h e (List.mem_cons_of_mem _ he))
    simp only at h1
    simp only [recSum]
    split <;> omega

theorem recSum_zero_of_bound (pid : Nat) (a : Acct) {l : List ((Nat × Acct) × Int)} {n : Nat}
    (h : ∀ e ∈ l, e.1.1 ≤ n) (hp : n < pid) : recSum pid a l = 0 := by
  induction l with
  | nil => rfl
  | cons hd r ih =>
    obtain ⟨⟨p, x⟩, amt⟩ := hd
    have h1 := h ((p, x), amt) List.mem_cons_self
    have h2 := ih (fun e he => h e (List.mem_cons_of_mem _ he))
    simp only at h1
    have : ¬ (p = pid ∧ x = a) := fun hh => by omega
    simp only [recSum, this, if_false, h2]
    omega

/-- the first record of `(pid, a)` is part of the sum of all its records -/
theorem aget_le_recSum (pid : Nat) (a : Acct) {l : List ((Nat × Acct) × Int)} (h : ∀ e ∈ l, 0 ≤ e.2) :
    (aget l (pid, a)).getD 0 ≤ recSum pid a l := by
  induction l with
  | nil => simp [aget, recSum]
  | cons hd r ih =>
    obtain ⟨⟨p, x⟩, amt⟩ := hd
    have h1 := h ((p, x), amt) List.mem_cons_self
    have hr : ∀ e ∈ r, 0 ≤ e.2 := fun e he => h e (List.mem_cons_of_mem _ he)
    have h2 := ih hr
    have h3 := recSum_nonneg pid a hr
    simp only at h1
    by_cases hk : (p, x) = (pid, a)
    · simp only [Prod.mk.injEq] at hk
      obtain ⟨e1, e2⟩ := hk
      subst e1; subst e2
      simp only [aget, if_true, Option.getD_some, recSum, and_self]
      omega
    · have : ¬ (p = pid ∧ x = a) := fun hh => hk (by rw [hh.1, hh.2])
      simp only [aget, hk, if_false, recSum, this]
      omega

/-- closing proposal `pid` (and changing the status of no other) takes exactly its records out of the stakes -/
theorem stakeOrd_close {props props' : List (Nat × Proposal)} (pid : Nat) (l : List ((Nat × Acct) × Int)) (a : Acct)
    (hc : propOpen props' pid = false) (ho : ∀ p, p ≠ pid → propOpen props' p = propOpen props p) :
    stakeOrd props' l a = stakeOrd props l a - (if propOpen props pid = true then recSum pid a l else 0) := by
  induction l with
  | nil => simp [stakeOrd, recSum]
  | cons hd r ih =>
    obtain ⟨⟨p, x⟩, amt⟩ := hd
    simp only [stakeOrd, recSum, ih]
    by_cases hp : p = pid
    · subst hp
      rw [hc]
      by_cases hx : x = a
      · subst hx
        cases hop : propOpen props p <;> simp <;> omega
      · cases hop : propOpen props p <;> simp [hx]
    · rw [ho p hp]
      have : ¬ (p = pid ∧ x = a) := fun hh => hp hh.1
      simp only [this, if_false]
      generalize (if x = a ∧ propOpen props p = true then amt else 0) = u
      cases hop : propOpen props pid <;> simp <;> omega

/-- `unlockGovernTokensForProposal` leaves at least `K` locked if `K` plus the proposal's records were locked -/
theorem unlockAll_cover (pid : Nat) (a : Acct) (l : List ((Nat × Acct) × Int)) (hn : ∀ e ∈ l, 0 ≤ e.2) :
    ∀ (g : Gov) (K : Int), K + recSum pid a l ≤ lockedOf g a .ordinary →
      K ≤ lockedOf (unlockAll g pid l) a .ordinary := by
  induction l with
  | nil => intro g K h; simpa [recSum, unlockAll] using h
  | cons hd r ih =>
    intro g K h
    obtain ⟨⟨p, x⟩, amt⟩ := hd
    have h1 := hn ((p, x), amt) List.mem_cons_self
    have hr : ∀ e ∈ r, 0 ≤ e.2 := fun e he => hn e (List.mem_cons_of_mem _ he)
    simp only at h1
    simp only [recSum] at h
    unfold unlockAll
    split
    · rename_i hc
      cases hu : unlock g .proposal x amt (some .ordinary) with
      | none =>
        apply ih hr g K
        split at h <;> omega
      | some g' =>
        rw [Option.getD_some]
        apply ih hr g' K
        have hl := unlock_lockedOf hu a .ordinary
        by_cases hx : x = a
        · subst hx
          rw [if_pos ⟨rfl, rfl⟩] at hl
          rw [if_pos ⟨hc.1, rfl⟩] at h
          omega
        · have : ¬ (a = x ∧ some LockType.ordinary = some LockType.ordinary) := fun hh => hx hh.1.symm
          rw [if_neg this] at hl
          have : ¬ (p = pid ∧ x = a) := fun hh => hx hh.2
          rw [if_neg this] at h
          omega
    · apply ih hr g K
      split at h <;> omega

/-! ### what a successful proposal call did, in full -/

theorem propose_full {w w' : World} {a : Acct} {pct stop trig : Int} {ok : Bool} {pid : Nat}
    (h : propose w a pct stop trig ok = some (w', pid)) :
    ∃ g, lock w.gov .proposal a 1000 (some .ordinary) = some g ∧
      w' = { w with
              gov := g
              lastPid := w.lastPid + 1
              locks := aput w.locks (w.lastPid + 1, a) 1000
              props := aput w.props (w.lastPid + 1) ⟨.voting, 0, a, pct, trig, ok⟩
              tasks := w.tasks ++ [⟨stop, .check, w.lastPid + 1⟩] } := by
  unfold propose at h
  simp only at h
  split at h
  · contradiction
  · split at h
    · contradiction
    · split at h
      · contradiction
      · rename_i g hg
        simp only [Option.some.injEq, Prod.mk.injEq] at h
        exact ⟨g, hg, h.1.symm⟩

theorem vote_full {w w' : World} {a : Acct} {pid : Nat} {n : Int} (h : vote w a pid n = some w') :
    ∃ p g, aget w.props pid = some p ∧ p.status = .voting ∧ 0 ≤ n ∧
      lock w.gov .proposal a n (some .ordinary) = some g ∧
      w' = { w with
              gov := g
              locks := aput w.locks (pid, a) (n + (aget w.locks (pid, a)).getD 0)
              props := aput w.props pid { p with votes := p.votes + n } } := by
  unfold vote at h
  split at h
  · contradiction
  · rename_i hn
    split at h
    · contradiction
    · rename_i p hp
      split at h
      · contradiction
      · rename_i hs
        split at h
        · contradiction
        · rename_i g hg
          simp only [Option.some.injEq] at h
          refine ⟨p, g, hp, ?_, by omega, hg, h.symm⟩
          apply Classical.byContradiction
          intro hne
          exact hs hne

theorem thaw_full {w w' : World} {a : Acct} {pid : Nat} (h : thaw w a pid = some w') :
    ∃ p amt g, aget w.props pid = some p ∧ p.status = .voting ∧ aget w.locks (pid, a) = some amt ∧
      unlock w.gov .proposal a amt (some .ordinary) = some g ∧
      w' = { w with gov := g, props := aput w.props pid { p with status := .cancelled } } := by
  unfold thaw at h
  split at h
  · contradiction
  · rename_i p hp
    split at h
    · contradiction
    · split at h
      · contradiction
      · split at h
        · contradiction
        · rename_i hs
          split at h
          · contradiction
          · rename_i amt hamt
            split at h
            · contradiction
            · rename_i g hg
              simp only [Option.some.injEq] at h
              refine ⟨p, amt, g, hp, ?_, hamt, hg, h.symm⟩
              apply Classical.byContradiction
              intro hne
              exact hs hne

/-! ### the invariant: the books are covered by the locks -/

/-- every account has at least its open stakes locked, per lock type; the proposal books are sane -/
structure Staked (w : World) : Prop where
  /-- ordinary locks cover the records of the proposals still open -/
  ord : ∀ a, stakeOrd w.props w.locks a ≤ lockedOf w.gov a .ordinary
  /-- tdpos locks cover the nomination deposits and the ballots -/
  td : ∀ a, stakeTd w.td a ≤ lockedOf w.gov a .tdpos
  nonneg : ∀ e ∈ w.locks, 0 ≤ e.2
  bound : ∀ e ∈ w.locks, e.1.1 ≤ w.lastPid
  pbound : ∀ e ∈ w.props, e.1 ≤ w.lastPid

theorem mem_aput {κ ν : Type} [DecidableEq κ] {l : List (κ × ν)} {k : κ} {v : ν} {e : κ × ν}
    (h : e ∈ aput l k v) : e ∈ l ∨ e = (k, v) := by
  induction l with
  | nil => simp [aput] at h; exact Or.inr h
  | cons hd r ih =>
    obtain ⟨k', v'⟩ := hd
    unfold aput at h
    split at h
    · cases List.mem_cons.mp h with
      | inl h1 => exact Or.inr h1
      | inr h1 => exact Or.inl (List.mem_cons_of_mem _ h1)
    · cases List.mem_cons.mp h with
      | inl h1 => exact Or.inl (h1 ▸ List.mem_cons_self)
      | inr h1 =>
        cases ih h1 with
        | inl h2 => exact Or.inl (List.mem_cons_of_mem _ h2)
        | inr h2 => exact Or.inr h2

theorem mem_of_aget {κ ν : Type} [DecidableEq κ] {l : List (κ × ν)} {k : κ} {v : ν} (h : aget l k = some v) :
    (k, v) ∈ l := by
  induction l with
  | nil => simp [aget] at h
  | cons hd r ih =>
    obtain ⟨k', v'⟩ := hd
    unfold aget at h
    split at h
    · rename_i hk
      simp only [Option.some.injEq] at h
      subst hk; subst h
      exact List.mem_cons_self
    · exact List.mem_cons_of_mem _ (ih h)

theorem aget_getD_nonneg {κ : Type} [DecidableEq κ] {l : List (κ × Int)} (h : ∀ e ∈ l, 0 ≤ e.2) (k : κ) :
    0 ≤ (aget l k).getD 0 := by
  cases hk : aget l k with
  | none => simp
  | some v => exact h (k, v) (mem_of_aget hk)

theorem lockedOf_empty (a : Acct) (τ : LockType) : lockedOf {} a τ = 0 := by
  cases τ <;> rfl

theorem staked_new (pre : List (Acct × Int)) : Staked { pre := pre } := by
  refine ⟨fun a => ?_, fun a => ?_, ?_, ?_, ?_⟩
  · show stakeOrd [] [] a ≤ lockedOf {} a .ordinary
    rw [lockedOf_empty]; simp [stakeOrd]
  · show stakeTd {} a ≤ lockedOf {} a .tdpos
    rw [lockedOf_empty]; simp [stakeTd, nomStake, voteStake]
  · intro e he; cases he
  · intro e he; cases he
  · intro e he; cases he

/-- a change of the token bucket that lowers no locked amount keeps the books covered -/
theorem staked_gov_mono {w : World} (hs : Staked w) {g : Gov}
    (h : ∀ a τ, lockedOf w.gov a τ ≤ lockedOf g a τ) : Staked { w with gov := g } :=
  ⟨fun a => Int.le_trans (hs.ord a) (h a .ordinary), fun a => Int.le_trans (hs.td a) (h a .tdpos),
    hs.nonneg, hs.bound, hs.pbound⟩

theorem staked_propose {w w' : World} {a : Acct} {pct stop trig : Int} {ok : Bool} {pid : Nat} (hs : Staked w)
    (h : propose w a pct stop trig ok = some (w', pid)) : Staked w' := by
  obtain ⟨g, hl, rfl⟩ := propose_full h
  have hlk := lock_lockedOf hl
  refine ⟨fun x => ?_, fun x => ?_, ?_, ?_, ?_⟩
  · show stakeOrd (aput w.props (w.lastPid + 1) _) (aput w.locks (w.lastPid + 1, a) 1000) x ≤ lockedOf g x .ordinary
    rw [stakeOrd_aput_locks, propOpen_aput, if_pos rfl]
    have hc : stakeOrd (aput w.props (w.lastPid + 1) ⟨.voting, 0, a, pct, trig, ok⟩) w.locks x = stakeOrd w.props w.locks x := by
      apply stakeOrd_congr
      intro e he
      rw [propOpen_aput, if_neg]
      have := hs.bound e he
      omega
    rw [hc, hlk x .ordinary]
    have h0 := aget_getD_nonneg hs.nonneg (w.lastPid + 1, a)
    have h1 := hs.ord x
    by_cases hx : x = a
    · subst hx
      simp [Status.isOpen]
      omega
    · have : ¬ a = x := fun e => hx e.symm
      simp [hx, this]
      omega
  · show stakeTd w.td x ≤ lockedOf g x .tdpos
    rw [hlk x .tdpos, if_neg (by simp)]
    exact hs.td x
  · intro e he
    cases mem_aput he with
    | inl h1 => exact hs.nonneg e h1
    | inr h1 => subst h1; simp
  · intro e he
    show e.1.1 ≤ w.lastPid + 1
    cases mem_aput he with
    | inl h1 => have := hs.bound e h1; omega
    | inr h1 => subst h1; simp
  · intro e he
    show e.1 ≤ w.lastPid + 1
    cases mem_aput he with
    | inl h1 => have := hs.pbound e h1; omega
    | inr h1 => subst h1; simp

theorem staked_vote {w w' : World} {a : Acct} {pid : Nat} {n : Int} (hs : Staked w)
    (h : vote w a pid n = some w') : Staked w' := by
  obtain ⟨p, g, hp, hst, hn, hl, rfl⟩ := vote_full h
  have hlk := lock_lockedOf hl
  have hopen : propOpen w.props pid = true := by simp [propOpen, hp, hst, Status.isOpen]
  have hsame : ∀ q, propOpen (aput w.props pid { p with votes := p.votes + n }) q = propOpen w.props q := by
    intro q
    rw [propOpen_aput]
    split
    · rename_i hq; subst hq; rw [hopen]; simp [hst, Status.isOpen]
    · rfl
  have h0 := aget_getD_nonneg hs.nonneg (pid, a)
  refine ⟨fun x => ?_, fun x => ?_, ?_, ?_, ?_⟩
  · show stakeOrd (aput w.props pid _) (aput w.locks (pid, a) _) x ≤ lockedOf g x .ordinary
    rw [stakeOrd_congr _ _ (fun e _ => hsame e.1.1), stakeOrd_aput_locks, hopen, hlk x .ordinary]
    have h1 := hs.ord x
    by_cases hx : x = a
    · subst hx
      simp
      omega
    · have : ¬ a = x := fun e => hx e.symm
      simp [hx, this]
      omega
  · show stakeTd w.td x ≤ lockedOf g x .tdpos
    rw [hlk x .tdpos, if_neg (by simp)]
    exact hs.td x
  · intro e he
    cases mem_aput he with
    | inl h1 => exact hs.nonneg e h1
    | inr h1 => subst h1; show 0 ≤ n + _; omega
  · intro e he
    cases mem_aput he with
    | inl h1 => exact hs.bound e h1
    | inr h1 => subst h1; exact hs.pbound (pid, p) (mem_of_aget hp)
  · intro e he
    cases mem_aput he with
    | inl h1 => exact hs.pbound e h1
    | inr h1 => subst h1; exact hs.pbound (pid, p) (mem_of_aget hp)

/-- closing an open proposal `pid` after releasing (some of) its records through `unlockAll`, or exactly the
proposer's record through one UnLock -/
theorem staked_close {w : World} (hs : Staked w) {pid : Nat} {p q : Proposal} {g : Gov} (hp : aget w.props pid = some p)
    (hopen : p.status.isOpen = true) (hq : q.status.isOpen = false)
    (hord : ∀ x, stakeOrd w.props w.locks x - recSum pid x w.locks ≤ lockedOf g x .ordinary)
    (htd : ∀ x, lockedOf g x .tdpos = lockedOf w.gov x .tdpos) :
    Staked { w with gov := g, props := aput w.props pid q } := by
  refine ⟨fun x => ?_, fun x => ?_, hs.nonneg, hs.bound, ?_⟩
  · show stakeOrd (aput w.props pid q) w.locks x ≤ lockedOf g x .ordinary
    have hc : propOpen (aput w.props pid q) pid = false := by rw [propOpen_aput, if_pos rfl, hq]
    have ho : ∀ r, r ≠ pid → propOpen (aput w.props pid q) r = propOpen w.props r := by
      intro r hr; rw [propOpen_aput, if_neg hr]
    have hop : propOpen w.props pid = true := by simp [propOpen, hp, hopen]
    rw [stakeOrd_close pid w.locks x hc ho, if_pos hop]
    exact hord x
  · show stakeTd w.td x ≤ lockedOf g x .tdpos
    rw [htd x]; exact hs.td x
  · intro e he
    cases mem_aput he with
    | inl h1 => exact hs.pbound e h1
    | inr h1 => subst h1; exact hs.pbound (pid, p) (mem_of_aget hp)

theorem staked_thaw {w w' : World} {a : Acct} {pid : Nat} (hs : Staked w) (h : thaw w a pid = some w') :
    Staked w' := by
  obtain ⟨p, amt, g, hp, hst, hamt, hl, rfl⟩ := thaw_full h
  have hlk := unlock_lockedOf hl
  apply staked_close hs hp (by rw [hst]; rfl) (by rfl)
  · intro x
    rw [hlk x .ordinary]
    have h1 := hs.ord x
    have h2 := recSum_nonneg pid x hs.nonneg
    by_cases hx : x = a
    · subst hx
      have h3 := aget_le_recSum pid x hs.nonneg
      rw [hamt, Option.getD_some] at h3
      simp
      omega
    · simp [hx]
      omega
  · intro x
    rw [hlk x .tdpos, if_neg (by simp)]

theorem unlockAll_tdpos (pid : Nat) (l : List ((Nat × Acct) × Int)) (g : Gov) (x : Acct) :
    lockedOf (unlockAll g pid l) x .tdpos = lockedOf g x .tdpos := by
  apply Classical.byContradiction
  intro hne
  have := ((unlockAll_lockedOf pid l x .tdpos g).2 hne).1
  contradiction

theorem staked_release {w : World} (hs : Staked w) {pid : Nat} {p q : Proposal} (hp : aget w.props pid = some p)
    (hopen : p.status.isOpen = true) (hq : q.status.isOpen = false) :
    Staked { w with gov := unlockAll w.gov pid w.locks, props := aput w.props pid q } := by
  apply staked_close hs hp hopen hq
  · intro x
    apply unlockAll_cover pid x w.locks hs.nonneg
    have := hs.ord x
    omega
  · intro x
    exact unlockAll_tdpos pid w.locks w.gov x

theorem staked_checkVote {w : World} (hs : Staked w) (pid : Nat) : Staked (checkVote w pid) := by
  unfold checkVote
  split
  · exact hs
  · rename_i p hp
    split
    · exact hs
    · rename_i hst
      split
      · exact hs
      · have hv : p.status = .voting := by
          apply Classical.byContradiction
          intro hne
          exact hst hne
        split
        · exact staked_release hs hp (by rw [hv]; rfl) (by rfl)
        · -- passed: the proposal stays open, nothing is released
          have hopen : propOpen w.props pid = true := by simp [propOpen, hp, hv, Status.isOpen]
          have hsame : ∀ q, propOpen (aput w.props pid { p with status := .passed }) q = propOpen w.props q := by
            intro q
            rw [propOpen_aput]
            split
            · rename_i hq; subst hq; rw [hopen]; rfl
            · rfl
          refine ⟨fun x => ?_, hs.td, hs.nonneg, hs.bound, ?_⟩
          · show stakeOrd (aput w.props pid _) w.locks x ≤ lockedOf w.gov x .ordinary
            rw [stakeOrd_congr _ _ (fun e _ => hsame e.1.1)]
            exact hs.ord x
          · intro e he
            cases mem_aput he with
            | inl h1 => exact hs.pbound e h1
            | inr h1 => subst h1; exact hs.pbound (pid, p) (mem_of_aget hp)

theorem staked_trigger {w : World} (hs : Staked w) (pid : Nat) : Staked (trigger w pid) := by
  unfold trigger
  split
  · exact hs
  · rename_i p hp
    split
    · exact hs
    · rename_i hst
      have hv : p.status = .passed := by
        apply Classical.byContradiction
        intro hne
        exact hst hne
      apply staked_release hs hp (by rw [hv]; rfl)
      cases p.trigOk <;> rfl

theorem staked_runTask {w : World} (hs : Staked w) (t : Task) : Staked (runTask w t) := by
  unfold runTask
  split
  · exact staked_checkVote hs t.pid
  · exact staked_trigger hs t.pid

theorem staked_foldl (ts : List Task) : ∀ {w : World}, Staked w → Staked (ts.foldl runTask w) := by
  induction ts with
  | nil => intro w hs; exact hs
  | cons t r ih => intro w hs; exact ih (staked_runTask hs t)

theorem staked_timerDo {w : World} (hs : Staked w) (h : Int) : Staked (timerDo w h) :=
  staked_foldl _ hs

/-! ### the TDPoS election calls, when they read the committed records -/

theorem staked_td {w : World} (hs : Staked w) {g : Gov} {td : TdBucket}
    (hord : ∀ x, lockedOf g x .ordinary = lockedOf w.gov x .ordinary)
    (htd : ∀ x, stakeTd td x - stakeTd w.td x ≤ lockedOf g x .tdpos - lockedOf w.gov x .tdpos) :
    Staked { w with gov := g, td := td } := by
  refine ⟨fun x => ?_, fun x => ?_, hs.nonneg, hs.bound, hs.pbound⟩
  · show stakeOrd w.props w.locks x ≤ lockedOf g x .ordinary
    rw [hord x]; exact hs.ord x
  · show stakeTd td x ≤ lockedOf g x .tdpos
    have := hs.td x
    have := htd x
    omega

theorem staked_nominate {w w' : World} {i c : Acct} {n : Int} {auth : Bool} {h : Int} (hs : Staked w)
    (hf : tdSnapAt w h = some w.td) (hh : nominate w i c n auth h = some w') : Staked w' := by
  obtain ⟨s, g, hsn, _, _, hl, hc, rfl⟩ := nominate_some hh
  rw [hf] at hsn
  cases Option.some.inj hsn
  have hlk := lock_lockedOf hl
  apply staked_td hs
  · intro x; rw [hlk x .ordinary, if_neg (by simp)]
  · intro x
    show nomStake (aput w.td.nom c (i, n)) x + voteStake w.td.votes x - stakeTd w.td x ≤ _
    rw [nomStake_aput_new hc, hlk x .tdpos]
    unfold stakeTd
    by_cases hx : x = i
    · subst hx; simp <;> omega
    · have : ¬ i = x := fun e => hx e.symm
      simp [hx, this] <;> omega

theorem staked_revokeNominate {w w' : World} {i c : Acct} {h : Int} (hs : Staked w)
    (hf : tdSnapAt w h = some w.td) (hh : revokeNominate w i c h = some w') : Staked w' := by
  obtain ⟨s, ballot, g, hsn, hc, hl, rfl⟩ := revokeNominate_some hh
  rw [hf] at hsn
  cases Option.some.inj hsn
  have hlk := unlock_lockedOf hl
  apply staked_td hs
  · intro x; rw [hlk x .ordinary, if_neg (by simp)]
  · intro x
    show nomStake (aerase w.td.nom c) x + voteStake w.td.votes x - stakeTd w.td x ≤ _
    rw [nomStake_aerase hc, hlk x .tdpos]
    unfold stakeTd
    by_cases hx : x = i
    · subst hx; simp <;> omega
    · have : ¬ i = x := fun e => hx e.symm
      simp [hx, this] <;> omega

theorem staked_tdVote {w w' : World} {i c : Acct} {n : Int} {h : Int} (hs : Staked w)
    (hf : tdSnapAt w h = some w.td) (hh : tdVote w i c n h = some w') : Staked w' := by
  obtain ⟨s, g, hsn, _, hl, _, rfl⟩ := tdVote_some hh
  rw [hf] at hsn
  cases Option.some.inj hsn
  have hlk := lock_lockedOf hl
  apply staked_td hs
  · intro x; rw [hlk x .ordinary, if_neg (by simp)]
  · intro x
    show nomStake w.td.nom x + voteStake (aput w.td.votes c _) x - stakeTd w.td x ≤ _
    rw [voteStake_aput, mapStake_aput, hlk x .tdpos]
    unfold stakeTd
    by_cases hx : x = i
    · subst hx; simp <;> omega
    · have : ¬ i = x := fun e => hx e.symm
      simp [hx, this] <;> omega

theorem staked_tdRevokeVote {w w' : World} {i c : Acct} {n : Int} {h : Int} (hs : Staked w)
    (hf : tdSnapAt w h = some w.td) (hh : tdRevokeVote w i c n h = some w') : Staked w' := by
  obtain ⟨s, g, vm, v, hsn, _, hl, hvm, hv, _, rfl⟩ := tdRevokeVote_some hh
  rw [hf] at hsn
  cases Option.some.inj hsn
  have hlk := unlock_lockedOf hl
  apply staked_td hs
  · intro x; rw [hlk x .ordinary, if_neg (by simp)]
  · intro x
    show nomStake w.td.nom x + voteStake (aput w.td.votes c _) x - stakeTd w.td x ≤ _
    rw [voteStake_aput, mapStake_aput, hvm, Option.getD_some, hv, Option.getD_some, hlk x .tdpos]
    unfold stakeTd
    by_cases hx : x = i
    · subst hx; simp <;> omega
    · have : ¬ i = x := fun e => hx e.symm
      simp [hx, this] <;> omega

/-! ### disciplined histories -/

/-- the `$tdpos` call reads the records that are committed: the block it names carries the current bucket -/
def freshAt (w : World) (h : Int) : Bool := tdSnapAt w h == some w.td

/-- the two things the stake invariant needs of a call: no UnLock arrives from a contract other than through the
modelled methods (the harness's forwarding stub keeps no books), and a `$tdpos` call names a block whose snapshot
is the committed state (what a client naming the tip does when every earlier election call is in a block) -/
def disciplined (w : World) : Call → Bool
  | .unlock c _ _ _ => !c.mayLock
  | .nominate _ _ _ _ h => freshAt w h
  | .revokeNominate _ _ h => freshAt w h
  | .tdVote _ _ _ h => freshAt w h
  | .tdRevokeVote _ _ _ h => freshAt w h
  | _ => true

def disciplinedRun (w : World) : List Call → Bool
  | [] => true
  | c :: r => disciplined w c && disciplinedRun (step w c) r

theorem freshAt_eq {w : World} {h : Int} (hf : freshAt w h = true) : tdSnapAt w h = some w.td := by
  unfold freshAt at hf
  exact eq_of_beq hf

theorem step?_staked {w w' : World} {c : Call} (hs : Staked w) (hd : disciplined w c = true)
    (h : step? w c = some w') : Staked w' := by
  cases c with
  | init =>
    simp only [step?, Option.map_eq_some_iff] at h
    obtain ⟨g, hi, rfl⟩ := h
    exact staked_gov_mono hs (fun a τ => by rw [init_lockedOf hi a τ]; exact Int.le_refl _)
  | transfer s t n =>
    simp only [step?, Option.map_eq_some_iff] at h
    obtain ⟨g, hi, rfl⟩ := h
    exact staked_gov_mono hs (fun a τ => by rw [transfer_lockedOf hi a τ]; exact Int.le_refl _)
  | lock c a n τ =>
    simp only [step?, Option.map_eq_some_iff] at h
    obtain ⟨g, hi, rfl⟩ := h
    obtain ⟨_, _, _, _, _, hn, _, _⟩ := lock_some hi
    exact staked_gov_mono hs (fun x σ => by rw [lock_lockedOf hi x σ]; split <;> omega)
  | unlock c a n τ =>
    simp only [step?, Option.map_eq_some_iff] at h
    obtain ⟨g, hi, rfl⟩ := h
    obtain ⟨_, _, _, hc, _⟩ := unlock_some hi
    simp [disciplined, hc] at hd
  | propose a pct stop trig ok =>
    simp only [step?, Option.map_eq_some_iff] at h
    obtain ⟨⟨w1, pid⟩, hi, rfl⟩ := h
    exact staked_propose hs hi
  | vote a pid n => exact staked_vote hs h
  | thaw a pid => exact staked_thaw hs h
  | timer hgt =>
    simp only [step?, Option.some.injEq] at h
    subst h
    exact staked_timerDo hs hgt
  | checkVote c pid =>
    simp only [step?] at h
    split at h
    · simp only [Option.some.injEq] at h
      subst h
      exact staked_checkVote hs pid
    · contradiction
  | trigger c pid =>
    simp only [step?] at h
    split at h
    · simp only [Option.some.injEq] at h
      subst h
      exact staked_trigger hs pid
    · contradiction
  | newBlock =>
    simp only [step?, Option.some.injEq] at h
    subst h
    exact ⟨hs.ord, hs.td, hs.nonneg, hs.bound, hs.pbound⟩
  | nominate i c n auth hgt => exact staked_nominate hs (freshAt_eq hd) h
  | revokeNominate i c hgt => exact staked_revokeNominate hs (freshAt_eq hd) h
  | tdVote i c n hgt => exact staked_tdVote hs (freshAt_eq hd) h
  | tdRevokeVote i c n hgt => exact staked_tdRevokeVote hs (freshAt_eq hd) h

theorem step_staked {w : World} {c : Call} (hs : Staked w) (hd : disciplined w c = true) : Staked (step w c) := by
  unfold step
  cases h : step? w c with
  | none => exact hs
  | some w' => exact step?_staked hs hd h

theorem run_staked (cs : List Call) : ∀ {w : World}, Staked w → disciplinedRun w cs = true → Staked (run w cs) := by
  induction cs with
  | nil => intro w hs _; exact hs
  | cons c r ih =>
    intro w hs hd
    simp only [disciplinedRun, Bool.and_eq_true] at hd
    exact ih (step_staked hs hd.1) hd.2

end XV.GovToken
