import XV.Model.Chain
/-! frame lemmas: which fields the table-level helpers of the chain model leave alone -/
namespace XV.Chain

theorem applyKOut_frame (t : Tx) (l : List KOut) (off : Nat) (s : St) :
    (applyKOut t l off s).U = s.U ∧ (applyKOut t l off s).total = s.total ∧
    (applyKOut t l off s).pointer = s.pointer ∧ (applyKOut t l off s).irrev = s.irrev ∧
    (applyKOut t l off s).pool = s.pool := by
  induction l generalizing off s with
  | nil => simp [applyKOut]
  | cons ko rest ih =>
    unfold applyKOut
    obtain ⟨h1, h2, h3, h4, h5⟩ := ih (off + 1)
      (if ko.del then { s with ZU := del s.ZU ko.key, ZD := put s.ZD ko.key (t.id, off) }
       else { s with ZU := put s.ZU ko.key (t.id, off) })
    refine ⟨?_, ?_, ?_, ?_, ?_⟩
    · rw [h1]; split <;> rfl
    · rw [h2]; split <;> rfl
    · rw [h3]; split <;> rfl
    · rw [h4]; split <;> rfl
    · rw [h5]; split <;> rfl

theorem applyOuts_frame (t : Tx) (l : List Out) (off : Nat) (s : St) :
    (applyOuts t l off s).ZU = s.ZU ∧ (applyOuts t l off s).ZD = s.ZD ∧
    (applyOuts t l off s).pointer = s.pointer ∧ (applyOuts t l off s).irrev = s.irrev ∧
    (applyOuts t l off s).pool = s.pool := by
  induction l generalizing off s with
  | nil => simp [applyOuts]
  | cons o rest ih =>
    unfold applyOuts
    obtain ⟨h1, h2, h3, h4, h5⟩ := ih (off + 1)
      (if (o.addr == "$" || o.amt == 0) = true then s
       else { s with U := put s.U (t.id, off) ⟨o.addr, o.amt, o.frozen⟩,
                     total := if t.coinbase then s.total + o.amt else s.total })
    refine ⟨?_, ?_, ?_, ?_, ?_⟩
    · rw [h1]; split <;> rfl
    · rw [h2]; split <;> rfl
    · rw [h3]; split <;> rfl
    · rw [h4]; split <;> rfl
    · rw [h5]; split <;> rfl

theorem applyTx_frame (s : St) (t : Tx) :
    (applyTx s t).pointer = s.pointer ∧ (applyTx s t).irrev = s.irrev ∧ (applyTx s t).pool = s.pool := by
  unfold applyTx
  obtain ⟨_, _, k3, k4, k5⟩ := applyKOut_frame t t.kout 0 s
  obtain ⟨_, _, o3, o4, o5⟩ := applyOuts_frame t t.outs 0
    { applyKOut t t.kout 0 s with U := t.ins.foldl (fun u r => del u (r.tx, r.off)) (applyKOut t t.kout 0 s).U }
  simp only at o3 o4 o5
  exact ⟨o3.trans k3, o4.trans k4, o5.trans k5⟩

theorem payFee_frame (t : Tx) (prop : String) (l : List Out) (off : Nat) (s : St) :
    (payFee t prop l off s).ZU = s.ZU ∧ (payFee t prop l off s).ZD = s.ZD ∧ (payFee t prop l off s).total = s.total ∧
    (payFee t prop l off s).pointer = s.pointer ∧ (payFee t prop l off s).irrev = s.irrev ∧
    (payFee t prop l off s).pool = s.pool := by
  induction l generalizing off s with
  | nil => simp [payFee]
  | cons o rest ih =>
    unfold payFee
    obtain ⟨h1, h2, h3, h4, h5, h6⟩ := ih (off + 1)
      (if (o.addr == "$") = true then { s with U := put s.U (t.id, off) ⟨prop, o.amt, 0⟩ } else s)
    refine ⟨?_, ?_, ?_, ?_, ?_, ?_⟩
    · rw [h1]; split <;> rfl
    · rw [h2]; split <;> rfl
    · rw [h3]; split <;> rfl
    · rw [h4]; split <;> rfl
    · rw [h5]; split <;> rfl
    · rw [h6]; split <;> rfl

theorem undoKOut_frame (e : Env) (t : Tx) (l : List KOut) (s : St) :
    (undoKOut e t l s).U = s.U ∧ (undoKOut e t l s).total = s.total ∧
    (undoKOut e t l s).pointer = s.pointer ∧ (undoKOut e t l s).irrev = s.irrev ∧
    (undoKOut e t l s).pool = s.pool := by
  induction l generalizing s with
  | nil => simp [undoKOut]
  | cons ko rest ih =>
    unfold undoKOut
    simp only
    generalize hp : ((t.kin.find? (fun ki => ki.key == ko.key)).bind (·.ver)) = prev
    cases prev with
    | none =>
      obtain ⟨h1, h2, h3, h4, h5⟩ := ih { s with ZU := del s.ZU ko.key, ZD := if ko.del then del s.ZD ko.key else s.ZD }
      exact ⟨h1, h2, h3, h4, h5⟩
    | some pv =>
      simp only
      split
      · obtain ⟨h1, h2, h3, h4, h5⟩ := ih { s with ZD := put s.ZD ko.key pv, ZU := del s.ZU ko.key }
        exact ⟨h1, h2, h3, h4, h5⟩
      · obtain ⟨h1, h2, h3, h4, h5⟩ := ih { s with ZU := put s.ZU ko.key pv, ZD := if ko.del then del s.ZD ko.key else s.ZD }
        exact ⟨h1, h2, h3, h4, h5⟩

theorem undoOuts_frame (t : Tx) (l : List Out) (off : Nat) (s : St) :
    (undoOuts t l off s).ZU = s.ZU ∧ (undoOuts t l off s).ZD = s.ZD ∧
    (undoOuts t l off s).pointer = s.pointer ∧ (undoOuts t l off s).irrev = s.irrev ∧
    (undoOuts t l off s).pool = s.pool := by
  induction l generalizing off s with
  | nil => simp [undoOuts]
  | cons o rest ih =>
    unfold undoOuts
    obtain ⟨h1, h2, h3, h4, h5⟩ := ih (off + 1)
      (if (o.addr == "$" || o.amt == 0) = true then s
       else { s with U := del s.U (t.id, off), total := if t.coinbase then s.total - o.amt else s.total })
    refine ⟨?_, ?_, ?_, ?_, ?_⟩
    · rw [h1]; split <;> rfl
    · rw [h2]; split <;> rfl
    · rw [h3]; split <;> rfl
    · rw [h4]; split <;> rfl
    · rw [h5]; split <;> rfl

theorem undoTx_frame (e : Env) (s : St) (t : Tx) :
    (undoTx e s t).pointer = s.pointer ∧ (undoTx e s t).irrev = s.irrev ∧ (undoTx e s t).pool = s.pool := by
  unfold undoTx
  obtain ⟨_, _, k3, k4, k5⟩ := undoKOut_frame e t t.kout s
  obtain ⟨_, _, o3, o4, o5⟩ := undoOuts_frame t t.outs 0
    { undoKOut e t t.kout s with
      U := t.ins.foldl (fun u r => put u (r.tx, r.off) ⟨r.addr, r.amt, r.frozen⟩) (undoKOut e t t.kout s).U }
  simp only at o3 o4 o5
  exact ⟨o3.trans k3, o4.trans k4, o5.trans k5⟩

theorem undoPayFee_frame (t : Tx) (l : List Out) (off : Nat) (s : St) :
    (undoPayFee t l off s).ZU = s.ZU ∧ (undoPayFee t l off s).ZD = s.ZD ∧ (undoPayFee t l off s).total = s.total ∧
    (undoPayFee t l off s).pointer = s.pointer ∧ (undoPayFee t l off s).irrev = s.irrev ∧
    (undoPayFee t l off s).pool = s.pool := by
  induction l generalizing off s with
  | nil => simp [undoPayFee]
  | cons o rest ih =>
    unfold undoPayFee
    obtain ⟨h1, h2, h3, h4, h5, h6⟩ := ih (off + 1)
      (if (o.addr == "$") = true then { s with U := del s.U (t.id, off) } else s)
    refine ⟨?_, ?_, ?_, ?_, ?_, ?_⟩
    · rw [h1]; split <;> rfl
    · rw [h2]; split <;> rfl
    · rw [h3]; split <;> rfl
    · rw [h4]; split <;> rfl
    · rw [h5]; split <;> rfl
    · rw [h6]; split <;> rfl

end XV.Chain
