import XV.Lemmas.InvLive
/-!
The *ledger* invariant of the chain model: the table `U` is completely explained by a log of applied transactions —
a ghost list `C` of confirmed transactions (in chain order; their fees are paid) followed by the pending ones `P` (the
pool, in admission order). Every row of `U` is a live output slot of a logged transaction; every live slot is a row
(with its amount) or was spent by a logged transaction; inputs of logged transactions are spent, pairwise disjoint,
cite logged transactions only, and nobody cites a later transaction.

Because *every* row is explained, the hash-causality facts that `XV.Lemmas.InvLive` takes as hypotheses (the id of an
admitted transaction is carried by no row, is cited by nobody, the transaction does not cite itself) are *consequences*
of admission here. Four table-level steps: a pending transaction is added, a pending transaction is confirmed (fee
paid), a pending / a confirmed transaction that nobody cites is undone. No sums here (they are in `XV.Props.C02`).
-/
namespace XV.Chain

/-- slot `idx` of transaction `i` is a row while `i` is applied: a materialised output, or the fee slot once confirmed -/
def liveSlot (e : Env) (C : List Nat) (i idx : Nat) : Prop :=
  matSlot (e.tx i) idx = true ∨ (i ∈ C ∧ feeSlot (e.tx i) idx = true)

structure Led (e : Env) (U : List (Ver × UItem)) (C P : List Nat) : Prop where
  nodupA : (C ++ P).Nodup
  idEq : ∀ i ∈ C ++ P, (e.tx i).id = i
  insNodup : ∀ i ∈ C ++ P, ((e.tx i).ins.map (fun r => (r.tx, r.off))).Nodup
  /-- nobody cites a later transaction (chain order, then admission order; confirmed ones never cite pending ones) -/
  order : (C ++ P).Pairwise (fun a b => ∀ r ∈ (e.tx a).ins, r.tx ≠ b)
  noSelf : ∀ i ∈ C ++ P, ∀ r ∈ (e.tx i).ins, r.tx ≠ i
  outs : ∀ i ∈ C ++ P, ∀ idx, liveSlot e C i idx →
    (∃ u, lookup U (i, idx) = some u ∧ u.amt = slotAmt (e.tx i) idx) ∨
    (∃ j ∈ C ++ P, ∃ r ∈ (e.tx j).ins, r.tx = i ∧ r.off = idx)
  insSpent : ∀ i ∈ C ++ P, ∀ r ∈ (e.tx i).ins, lookup U (r.tx, r.off) = none
  disjoint : ∀ i ∈ C ++ P, ∀ j ∈ C ++ P, i ≠ j →
    ∀ r ∈ (e.tx i).ins, ∀ r' ∈ (e.tx j).ins, (r.tx, r.off) ≠ (r'.tx, r'.off)
  cites : ∀ j ∈ C ++ P, ∀ r ∈ (e.tx j).ins,
    r.tx ∈ C ++ P ∧ liveSlot e C r.tx r.off ∧ slotAmt (e.tx r.tx) r.off = r.amt
  /-- every row is a live slot of a logged transaction -/
  rows : ∀ i idx u, lookup U (i, idx) = some u → i ∈ C ++ P ∧ liveSlot e C i idx

theorem Led_empty (e : Env) : Led e [] [] [] := by
  refine ⟨List.nodup_nil, ?_, ?_, List.Pairwise.nil, ?_, ?_, ?_, ?_, ?_, ?_⟩
  · intro i hi; cases hi
  · intro i hi; cases hi
  · intro i hi; cases hi
  · intro i hi; cases hi
  · intro i hi; cases hi
  · intro i hi; cases hi
  · intro i hi; cases hi
  · intro i idx u hu; cases hu

/-- consequences of "every row is explained" for a transaction that is not logged: no row carries its id -/
theorem Led.noRow {e : Env} {U : List (Ver × UItem)} {C P : List Nat} (hl : Led e U C P) (i : Nat)
    (hnot : i ∉ C ++ P) : ∀ o, lookup U (i, o) = none := by
  intro o
  cases h : lookup U (i, o) with
  | none => rfl
  | some u => exact absurd (hl.rows i o u h).1 hnot

/-- … and nobody cites it -/
theorem Led.notCited {e : Env} {U : List (Ver × UItem)} {C P : List Nat} (hl : Led e U C P) (i : Nat)
    (hnot : i ∉ C ++ P) : ∀ j ∈ C ++ P, ∀ r ∈ (e.tx j).ins, r.tx ≠ i := by
  intro j hj r hr e2
  exact hnot (e2 ▸ (hl.cites j hj r hr).1)

/-- **a pending transaction is added**: `i` is not logged, `e.tx i` has id `i`, its inputs are pairwise distinct rows
with the cited amounts (admission). Freshness and causality follow from the invariant. -/
theorem Led_addPending (e : Env) (s : St) (C P : List Nat) (i : Nat) (hl : Led e s.U C P) (hnot : i ∉ C ++ P)
    (hid : (e.tx i).id = i)
    (hnd : ((e.tx i).ins.map (fun r => (r.tx, r.off))).Nodup)
    (hcur : ∀ r ∈ (e.tx i).ins, ∃ u, lookup s.U (r.tx, r.off) = some u ∧ u.amt = r.amt) :
    Led e (applyTx s (e.tx i)).U C (P ++ [i]) := by
  have hfresh := hl.noRow i hnot
  have hcited := hl.notCited i hnot
  have hself : ∀ r ∈ (e.tx i).ins, r.tx ≠ i := by
    intro r hr e2
    obtain ⟨u, hu, _⟩ := hcur r hr
    rw [e2, hfresh r.off] at hu
    cases hu
  have hself' : ∀ r ∈ (e.tx i).ins, r.tx ≠ (e.tx i).id := by rw [hid]; exact hself
  have hmem : ∀ x, x ∈ C ++ (P ++ [i]) ↔ x ∈ C ++ P ∨ x = i := by
    intro x
    rw [← List.append_assoc]
    simp only [List.mem_append, List.mem_cons, List.not_mem_nil, or_false]
  have hiC : i ∉ C := fun h => hnot (List.mem_append_left _ h)
  have hneA : ∀ j ∈ C ++ P, j ≠ i := fun j hj e2 => hnot (e2 ▸ hj)
  have hnew : ∀ a ∈ C ++ P, ∀ r ∈ (e.tx a).ins, ∀ r' ∈ (e.tx i).ins, (r.tx, r.off) ≠ (r'.tx, r'.off) := by
    intro a ha r hr r' hr' heq
    obtain ⟨u, hu, _⟩ := hcur r' hr'
    rw [← heq, hl.insSpent a ha r hr] at hu
    cases hu
  refine ⟨?_, ?_, ?_, ?_, ?_, ?_, ?_, ?_, ?_, ?_⟩
  · rw [← List.append_assoc]
    apply List.nodup_append.mpr
    refine ⟨hl.nodupA, by simp, ?_⟩
    intro a ha b hb
    simp only [List.mem_cons, List.not_mem_nil, or_false] at hb
    rw [hb]; exact hneA a ha
  · intro j hj
    rcases (hmem j).mp hj with h | h
    · exact hl.idEq j h
    · rw [h]; exact hid
  · intro j hj
    rcases (hmem j).mp hj with h | h
    · exact hl.insNodup j h
    · rw [h]; exact hnd
  · rw [← List.append_assoc]
    apply List.pairwise_append.mpr
    refine ⟨hl.order, by simp, ?_⟩
    intro a ha b hb
    simp only [List.mem_cons, List.not_mem_nil, or_false] at hb
    rw [hb]; exact hcited a ha
  · intro j hj
    rcases (hmem j).mp hj with h | h
    · exact hl.noSelf j h
    · rw [h]; exact hself
  · -- outs
    intro j hj idx hm
    rcases (hmem j).mp hj with hjA | hji
    · rcases hl.outs j hjA idx hm with ⟨u, hu, ha⟩ | ⟨j', hj', r, hr, hrt, hro⟩
      · by_cases hin : (j, idx) ∈ (e.tx i).ins.map (fun r => (r.tx, r.off))
        · right
          obtain ⟨r, hr, he⟩ := List.mem_map.mp hin
          injection he with e1 e2
          exact ⟨i, (hmem i).mpr (Or.inr rfl), r, hr, e1, e2⟩
        · left
          refine ⟨u, ?_, ha⟩
          rw [applyTx_lookup_otherid s (e.tx i) (j, idx) (by rw [hid]; exact hneA j hjA)]
          simp only [hin, ↓reduceIte]
          exact hu
      · right
        exact ⟨j', (hmem j').mpr (Or.inl hj'), r, hr, hrt, hro⟩
    · left
      subst hji
      rcases hm with hm | ⟨hc, _⟩
      · have := applyTx_lookup_mat s (e.tx j) idx hself' hm
        rw [hid] at this
        exact this
      · exact absurd hc hiC
  · -- insSpent
    intro j hj r hr
    rcases (hmem j).mp hj with hjA | hji
    · rw [applyTx_lookup_otherid s (e.tx i) (r.tx, r.off) (by rw [hid]; exact hcited j hjA r hr)]
      split
      · rfl
      · exact hl.insSpent j hjA r hr
    · subst hji
      rw [applyTx_lookup_otherid s (e.tx j) (r.tx, r.off) (hself' r hr)]
      have : (r.tx, r.off) ∈ (e.tx j).ins.map (fun r => (r.tx, r.off)) := List.mem_map.mpr ⟨r, hr, rfl⟩
      simp only [this, ↓reduceIte]
  · -- disjoint
    intro a ha b hb hab r hr r' hr'
    rcases (hmem a).mp ha with haA | hai
    · rcases (hmem b).mp hb with hbA | hbi
      · exact hl.disjoint a haA b hbA hab r hr r' hr'
      · rw [hbi] at hr'
        exact hnew a haA r hr r' hr'
    · rcases (hmem b).mp hb with hbA | hbi
      · rw [hai] at hr
        exact fun heq => hnew b hbA r' hr' r hr heq.symm
      · exact absurd (hai.trans hbi.symm) hab
  · -- cites
    intro j hj r hr
    rcases (hmem j).mp hj with hjA | hji
    · obtain ⟨c1, c2, c3⟩ := hl.cites j hjA r hr
      exact ⟨(hmem r.tx).mpr (Or.inl c1), c2, c3⟩
    · rw [hji] at hr
      obtain ⟨u, hu, hamt⟩ := hcur r hr
      obtain ⟨hrA, hlive⟩ := hl.rows r.tx r.off u hu
      refine ⟨(hmem r.tx).mpr (Or.inl hrA), hlive, ?_⟩
      rcases hl.outs r.tx hrA r.off hlive with ⟨u', hu', ha'⟩ | ⟨j', hj', r', hr', e1, e2⟩
      · rw [hu] at hu'
        injection hu' with hu'
        rw [← ha', ← hu', hamt]
      · have := hl.insSpent j' hj' r' hr'
        rw [e1, e2, hu] at this
        cases this
  · -- rows
    intro j idx u hu
    by_cases hji : j = i
    · subst hji
      refine ⟨(hmem j).mpr (Or.inr rfl), ?_⟩
      cases hm : matSlot (e.tx j) idx
      · have := applyTx_lookup_nonmat s (e.tx j) idx hself' hm
        rw [hid] at this
        rw [this, hfresh idx] at hu
        cases hu
      · exact Or.inl hm
    · rw [applyTx_lookup_otherid s (e.tx i) (j, idx) (by rw [hid]; exact hji)] at hu
      split at hu
      · cases hu
      · obtain ⟨h1, h2⟩ := hl.rows j idx u hu
        exact ⟨(hmem j).mpr (Or.inl h1), h2⟩

theorem payFee_lookup_fee (t : Tx) (prop : String) (s : St) (idx : Nat) (h : feeSlot t idx = true) :
    ∃ u, lookup (payFee t prop t.outs 0 s).U (t.id, idx) = some u ∧ u.amt = slotAmt t idx := by
  rw [payFee_lookup_idx0]
  unfold feeSlot at h
  unfold slotAmt
  cases ho : t.outs[idx]? with
  | none => simp [ho] at h
  | some o =>
    simp only [ho] at h
    simp only [h, ↓reduceIte]
    exact ⟨_, rfl, rfl⟩

theorem liveSlot_mono (e : Env) (C C' : List Nat) (i idx : Nat) (hsub : ∀ x ∈ C, x ∈ C')
    (h : liveSlot e C i idx) : liveSlot e C' i idx := by
  rcases h with h | ⟨h1, h2⟩
  · exact Or.inl h
  · exact Or.inr ⟨hsub i h1, h2⟩

/-- **a pending transaction is confirmed** (its fee is paid to the proposer): it moves to the end of the confirmed log.
It must not cite a transaction that is still pending (its pending parents were confirmed before it). -/
theorem Led_confirmPending (e : Env) (s : St) (prop : String) (C P : List Nat) (i : Nat) (hl : Led e s.U C P)
    (hi : i ∈ P) (hnp : ∀ r ∈ (e.tx i).ins, r.tx ∉ P) :
    Led e (payFee (e.tx i) prop (e.tx i).outs 0 s).U (C ++ [i]) (P.filter (fun x => x != i)) := by
  have hiA : i ∈ C ++ P := List.mem_append_right _ hi
  have hid := hl.idEq i hiA
  obtain ⟨hndC, hndP, hCP⟩ := List.nodup_append.mp hl.nodupA
  obtain ⟨hoC, hoP, hoCP⟩ := List.pairwise_append.mp hl.order
  have hiC : i ∉ C := fun h => hCP i h i hi rfl
  have hmem : ∀ x, x ∈ (C ++ [i]) ++ P.filter (fun x => x != i) ↔ x ∈ C ++ P := by
    intro x
    simp only [List.mem_append, List.mem_cons, List.not_mem_nil, or_false, List.mem_filter, bne_iff_ne, ne_eq]
    constructor
    · rintro ((h | h) | ⟨h, _⟩)
      · exact Or.inl h
      · rw [h]; exact Or.inr hi
      · exact Or.inr h
    · rintro (h | h)
      · exact Or.inl (Or.inl h)
      · by_cases hx : x = i
        · exact Or.inl (Or.inr hx)
        · exact Or.inr ⟨h, hx⟩
  have hsubC : ∀ x ∈ C, x ∈ C ++ [i] := fun x hx => List.mem_append_left _ hx
  -- a slot that was live before is not a fee slot of `i`
  have hold_notfee : ∀ idx, liveSlot e C i idx → feeSlot (e.tx i) idx = false := by
    intro idx h
    rcases h with h | ⟨h, _⟩
    · exact feeSlot_matSlot _ _ h
    · exact absurd h hiC
  -- what the fee payment does to a row
  have hlk_other : ∀ k : Ver, k.1 ≠ i → lookup (payFee (e.tx i) prop (e.tx i).outs 0 s).U k = lookup s.U k := by
    intro k hk
    exact payFee_lookup_otherid _ _ _ _ _ _ (by rw [hid]; exact hk)
  have hlk_nonfee : ∀ idx, feeSlot (e.tx i) idx = false →
      lookup (payFee (e.tx i) prop (e.tx i).outs 0 s).U (i, idx) = lookup s.U (i, idx) := by
    intro idx hf
    have := payFee_lookup_feeSlot (e.tx i) prop s idx hf
    rw [hid] at this
    exact this
  refine ⟨?_, ?_, ?_, ?_, ?_, ?_, ?_, ?_, ?_, ?_⟩
  · -- nodupA
    apply List.nodup_append.mpr
    refine ⟨?_, List.Nodup.sublist List.filter_sublist hndP, ?_⟩
    · apply List.nodup_append.mpr
      refine ⟨hndC, by simp, ?_⟩
      intro a ha b hb
      simp only [List.mem_cons, List.not_mem_nil, or_false] at hb
      rw [hb]; intro e2; exact hiC (e2 ▸ ha)
    · intro a ha b hb
      have hbP := (List.mem_filter.mp hb).1
      have hbi : b ≠ i := by simpa using (List.mem_filter.mp hb).2
      rcases List.mem_append.mp ha with h | h
      · exact hCP a h b hbP
      · simp only [List.mem_cons, List.not_mem_nil, or_false] at h
        rw [h]; exact fun e2 => hbi e2.symm
  · intro j hj; exact hl.idEq j ((hmem j).mp hj)
  · intro j hj; exact hl.insNodup j ((hmem j).mp hj)
  · -- order
    apply List.pairwise_append.mpr
    refine ⟨?_, List.Pairwise.sublist List.filter_sublist hoP, ?_⟩
    · apply List.pairwise_append.mpr
      refine ⟨hoC, by simp, ?_⟩
      intro a ha b hb
      simp only [List.mem_cons, List.not_mem_nil, or_false] at hb
      rw [hb]; exact hoCP a ha i hi
    · intro a ha b hb
      have hbP := (List.mem_filter.mp hb).1
      rcases List.mem_append.mp ha with h | h
      · exact hoCP a h b hbP
      · simp only [List.mem_cons, List.not_mem_nil, or_false] at h
        rw [h]
        intro r hr e2
        exact hnp r hr (e2 ▸ hbP)
  · intro j hj; exact hl.noSelf j ((hmem j).mp hj)
  · -- outs
    intro x hx idx hlive
    have hxA := (hmem x).mp hx
    have hold : liveSlot e C x idx ∨ (x = i ∧ feeSlot (e.tx i) idx = true) := by
      rcases hlive with h | ⟨h1, h2⟩
      · exact Or.inl (Or.inl h)
      · rcases List.mem_append.mp h1 with h | h
        · exact Or.inl (Or.inr ⟨h, h2⟩)
        · simp only [List.mem_cons, List.not_mem_nil, or_false] at h
          exact Or.inr ⟨h, h ▸ h2⟩
    rcases hold with hold | ⟨hxi, hf⟩
    · rcases hl.outs x hxA idx hold with ⟨u, hu, ha⟩ | ⟨j, hj, r, hr, hrt, hro⟩
      · left
        refine ⟨u, ?_, ha⟩
        by_cases hxi : x = i
        · rw [hxi] at hold hu ⊢
          rw [hlk_nonfee idx (hold_notfee idx hold)]; exact hu
        · rw [hlk_other (x, idx) hxi]; exact hu
      · right
        exact ⟨j, (hmem j).mpr hj, r, hr, hrt, hro⟩
    · left
      rw [hxi]
      have := payFee_lookup_fee (e.tx i) prop s idx hf
      rw [hid] at this
      exact this
  · -- insSpent
    intro j hj r hr
    have hjA := (hmem j).mp hj
    by_cases hri : r.tx = i
    · obtain ⟨_, c2, _⟩ := hl.cites j hjA r hr
      rw [hri] at c2
      have hk : (r.tx, r.off) = (i, r.off) := by rw [hri]
      rw [hk, hlk_nonfee r.off (hold_notfee r.off c2), ← hk]
      exact hl.insSpent j hjA r hr
    · rw [hlk_other (r.tx, r.off) hri]
      exact hl.insSpent j hjA r hr
  · intro a ha b hb hab
    exact hl.disjoint a ((hmem a).mp ha) b ((hmem b).mp hb) hab
  · -- cites
    intro j hj r hr
    obtain ⟨c1, c2, c3⟩ := hl.cites j ((hmem j).mp hj) r hr
    exact ⟨(hmem r.tx).mpr c1, liveSlot_mono e C _ _ _ hsubC c2, c3⟩
  · -- rows
    intro x idx u hu
    by_cases hxi : x = i
    · rw [hxi] at hu ⊢
      refine ⟨(hmem i).mpr hiA, ?_⟩
      cases hf : feeSlot (e.tx i) idx
      · rw [hlk_nonfee idx hf] at hu
        exact liveSlot_mono e C _ _ _ hsubC (hl.rows i idx u hu).2
      · exact Or.inr ⟨List.mem_append_right _ List.mem_cons_self, hf⟩
    · rw [hlk_other (x, idx) hxi] at hu
      obtain ⟨h1, h2⟩ := hl.rows x idx u hu
      exact ⟨(hmem x).mpr h1, liveSlot_mono e C _ _ _ hsubC h2⟩

/-- **a logged transaction that nobody cites is removed** — generic form: the new table agrees with the old one away from
the keys of `t`, has the inputs of `t` back as cited, and no row with the id of `t` -/
theorem Led_remove (e : Env) (U U' : List (Ver × UItem)) (C P : List Nat) (t : Nat) (hl : Led e U C P)
    (ht : t ∈ C ++ P) (hnc : ∀ j ∈ C ++ P, ∀ r ∈ (e.tx j).ins, r.tx ≠ t)
    (ha : ∀ k : Ver, k.1 ≠ t → k ∉ (e.tx t).ins.map (fun r => (r.tx, r.off)) → lookup U' k = lookup U k)
    (hb : ∀ r ∈ (e.tx t).ins, lookup U' (r.tx, r.off) = some ⟨r.addr, r.amt, r.frozen⟩)
    (hc : ∀ idx, lookup U' (t, idx) = none) :
    Led e U' (C.filter (fun x => x != t)) (P.filter (fun x => x != t)) := by
  have hmem : ∀ x, x ∈ C.filter (fun x => x != t) ++ P.filter (fun x => x != t) ↔ x ∈ C ++ P ∧ x ≠ t := by
    intro x
    rw [← List.filter_append]
    simp only [List.mem_filter, bne_iff_ne, ne_eq]
  have hlive : ∀ x idx, x ≠ t → (liveSlot e (C.filter (fun x => x != t)) x idx ↔ liveSlot e C x idx) := by
    intro x idx hx
    unfold liveSlot
    simp only [List.mem_filter, bne_iff_ne, ne_eq, hx, not_false_eq_true, and_true]
  refine ⟨?_, ?_, ?_, ?_, ?_, ?_, ?_, ?_, ?_, ?_⟩
  · rw [← List.filter_append]; exact List.Nodup.sublist List.filter_sublist hl.nodupA
  · intro j hj; exact hl.idEq j ((hmem j).mp hj).1
  · intro j hj; exact hl.insNodup j ((hmem j).mp hj).1
  · rw [← List.filter_append]; exact List.Pairwise.sublist List.filter_sublist hl.order
  · intro j hj; exact hl.noSelf j ((hmem j).mp hj).1
  · -- outs
    intro x hx idx hlv
    obtain ⟨hxA, hxt⟩ := (hmem x).mp hx
    rcases hl.outs x hxA idx ((hlive x idx hxt).mp hlv) with ⟨u, hu, hamt⟩ | ⟨j, hj, r, hr, hrt, hro⟩
    · left
      refine ⟨u, ?_, hamt⟩
      rw [ha (x, idx) hxt]
      · exact hu
      · intro hmm
        obtain ⟨r, hr, he⟩ := List.mem_map.mp hmm
        have := hl.insSpent t ht r hr
        rw [he, hu] at this
        cases this
    · by_cases hjt : j = t
      · left
        rw [hjt] at hr
        have := hb r hr
        rw [hrt, hro] at this
        refine ⟨_, this, ?_⟩
        have hc3 := (hl.cites t ht r hr).2.2
        rw [hrt, hro] at hc3
        exact hc3.symm
      · right
        exact ⟨j, (hmem j).mpr ⟨hj, hjt⟩, r, hr, hrt, hro⟩
  · -- insSpent
    intro j hj r hr
    obtain ⟨hjA, hjt⟩ := (hmem j).mp hj
    rw [ha (r.tx, r.off) (hnc j hjA r hr)]
    · exact hl.insSpent j hjA r hr
    · intro hmm
      obtain ⟨r', hr', he⟩ := List.mem_map.mp hmm
      exact hl.disjoint t ht j hjA (fun e2 => hjt e2.symm) r' hr' r hr he
  · intro a ha' b hb' hab
    exact hl.disjoint a ((hmem a).mp ha').1 b ((hmem b).mp hb').1 hab
  · -- cites
    intro j hj r hr
    obtain ⟨hjA, _⟩ := (hmem j).mp hj
    obtain ⟨c1, c2, c3⟩ := hl.cites j hjA r hr
    have hrt := hnc j hjA r hr
    exact ⟨(hmem r.tx).mpr ⟨c1, hrt⟩, (hlive r.tx r.off hrt).mpr c2, c3⟩
  · -- rows
    intro x idx u hu
    by_cases hxt : x = t
    · rw [hxt, hc idx] at hu; cases hu
    · by_cases hin : (x, idx) ∈ (e.tx t).ins.map (fun r => (r.tx, r.off))
      · obtain ⟨r, hr, he⟩ := List.mem_map.mp hin
        injection he with e1 e2
        obtain ⟨c1, c2, _⟩ := hl.cites t ht r hr
        rw [e1, e2] at c2
        rw [e1] at c1
        exact ⟨(hmem x).mpr ⟨c1, hxt⟩, (hlive x idx hxt).mpr c2⟩
      · rw [ha (x, idx) hxt hin] at hu
        obtain ⟨h1, h2⟩ := hl.rows x idx u hu
        exact ⟨(hmem x).mpr ⟨h1, hxt⟩, (hlive x idx hxt).mpr h2⟩

/-- **a pending transaction that nobody cites is undone** (pool eviction, pool roll-back) -/
theorem Led_undoPending (e : Env) (s : St) (C P : List Nat) (t : Nat) (hl : Led e s.U C P) (ht : t ∈ P)
    (hnc : ∀ j ∈ C ++ P, ∀ r ∈ (e.tx j).ins, r.tx ≠ t) :
    Led e (undoTx e s (e.tx t)).U C (P.filter (fun x => x != t)) := by
  have htA : t ∈ C ++ P := List.mem_append_right _ ht
  have hid := hl.idEq t htA
  have hself : ∀ r ∈ (e.tx t).ins, r.tx ≠ (e.tx t).id := by rw [hid]; exact hl.noSelf t htA
  have htC : t ∉ C := fun h => (List.nodup_append.mp hl.nodupA).2.2 t h t ht rfl
  have hCf : C.filter (fun x => x != t) = C := by
    apply List.filter_eq_self.mpr
    intro a ha
    simp only [bne_iff_ne, ne_eq]
    intro e2; exact htC (e2 ▸ ha)
  have := Led_remove e s.U (undoTx e s (e.tx t)).U C P t hl htA hnc
    (fun k hk hnot => undoTx_lookup_otherid e s (e.tx t) k (by rw [hid]; exact hk) hnot)
    (fun r hr => undoTx_lookup_in e s (e.tx t) (hl.insNodup t htA) hself r hr)
    (fun idx => by
      have hk : (t, idx) = ((e.tx t).id, idx) := by rw [hid]
      rw [hk]
      cases hm : matSlot (e.tx t) idx
      · rw [undoTx_lookup_nonmat e s (e.tx t) idx hself hm, ← hk]
        cases hlk : lookup s.U (t, idx) with
        | none => rfl
        | some u =>
          rcases (hl.rows t idx u hlk).2 with h | ⟨h, _⟩
          · rw [h] at hm; cases hm
          · exact absurd h htC
      · exact undoTx_lookup_mat e s (e.tx t) idx hself hm)
  rw [hCf] at this
  exact this

/-- **a confirmed transaction that nobody cites is undone** (`undoBlock`: the transaction, then its fee) -/
theorem Led_undoConfirmed (e : Env) (s : St) (C P : List Nat) (t : Nat) (hl : Led e s.U C P) (ht : t ∈ C)
    (hnc : ∀ j ∈ C ++ P, ∀ r ∈ (e.tx j).ins, r.tx ≠ t) :
    Led e (undoPayFee (e.tx t) (e.tx t).outs 0 (undoTx e s (e.tx t))).U (C.filter (fun x => x != t)) P := by
  have htA : t ∈ C ++ P := List.mem_append_left _ ht
  have hid := hl.idEq t htA
  have hself : ∀ r ∈ (e.tx t).ins, r.tx ≠ (e.tx t).id := by rw [hid]; exact hl.noSelf t htA
  have htP : t ∉ P := fun h => (List.nodup_append.mp hl.nodupA).2.2 t ht t h rfl
  have hPf : P.filter (fun x => x != t) = P := by
    apply List.filter_eq_self.mpr
    intro a ha
    simp only [bne_iff_ne, ne_eq]
    intro e2; exact htP (e2 ▸ ha)
  have := Led_remove e s.U (undoPayFee (e.tx t) (e.tx t).outs 0 (undoTx e s (e.tx t))).U C P t hl htA hnc
    (fun k hk hnot => by
      rw [undoPayFee_lookup_otherid _ _ _ _ _ (by rw [hid]; exact hk)]
      exact undoTx_lookup_otherid e s (e.tx t) k (by rw [hid]; exact hk) hnot)
    (fun r hr => by
      rw [undoPayFee_lookup_otherid _ _ _ _ _ (by simpa using hself r hr)]
      exact undoTx_lookup_in e s (e.tx t) (hl.insNodup t htA) hself r hr)
    (fun idx => by
      have hk : (t, idx) = ((e.tx t).id, idx) := by rw [hid]
      rw [hk]
      cases hm : matSlot (e.tx t) idx
      · cases hf : feeSlot (e.tx t) idx
        · -- neither: the row was not there
          have h1 : lookup (undoPayFee (e.tx t) (e.tx t).outs 0 (undoTx e s (e.tx t))).U ((e.tx t).id, idx) =
              lookup (undoTx e s (e.tx t)).U ((e.tx t).id, idx) := by
            rw [undoPayFee_lookup_idx0]
            unfold feeSlot at hf
            split
            · rename_i o ho
              simp only [ho] at hf
              simp [hf]
            · rfl
          rw [h1, undoTx_lookup_nonmat e s (e.tx t) idx hself hm, ← hk]
          cases hlk : lookup s.U (t, idx) with
          | none => rfl
          | some u =>
            rcases (hl.rows t idx u hlk).2 with h | ⟨_, h⟩
            · rw [h] at hm; cases hm
            · rw [h] at hf; cases hf
        · rw [undoPayFee_lookup_idx0]
          unfold feeSlot at hf
          split
          · rename_i o ho
            simp only [ho] at hf
            simp [hf]
          · rename_i hn
            simp [hn] at hf
      · apply undoPayFee_lookup_none
        exact undoTx_lookup_mat e s (e.tx t) idx hself hm)
  rw [hPf] at this
  exact this

end XV.Chain
