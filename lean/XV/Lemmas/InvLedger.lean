import XV.Lemmas.InvLive
/-!
The *ledger* invariant of the chain model: the table `U` is completely explained by a log of applied transactions —
a ghost list `C` of confirmed transactions (in chain order; their fees are paid) followed by the pending ones `P` (the
pool, in admission order). Every row of `U` is a live output slot of a logged transaction; every live slot is a row
(with its amount) or was spent by a logged transaction; inputs of logged transactions are spent, pairwise disjoint,
cite logged transactions only, and nobody cites a later transaction.

Because *every* row is explained, the hash-causality facts that `XV.Lemmas.InvLive` takes as hypotheses (the id of an
admitted transaction is carried by no row, is cited by nobody, the transaction does not cite itself) are *consequences*
of admission here. Four table-level steps: a pending transaction is added, a pending transaction is confirmed (fee
paid), a pending / a confirmed transaction that nobody cites is undone. No sums here (they are in `XV.Props.C02`).
-/
namespace XV.Chain

/-- slot `idx` of transaction `i` is a row while `i` is applied: a materialised output, or the fee slot once confirmed -/
def liveSlot (e : Env) (C : List Nat) (i idx : Nat) : Prop :=
  matSlot (e.tx i) idx = true ∨ (i ∈ C ∧ feeSlot (e.tx i) idx = true)

structure Led (e : Env) (U : List (Ver × UItem)) (C P : List Nat) : Prop where
  nodupA : (C ++ P).Nodup
  idEq : ∀ i ∈ C ++ P, (e.tx i).id = i
  insNodup : ∀ i ∈ C ++ P, ((e.tx i).ins.map (fun r => (r.tx, r.off))).Nodup
  /-- nobody cites a later transaction (chain order, then admission order; confirmed ones never cite pending ones) -/
  order : (C ++ P).Pairwise (fun a b => ∀ r ∈ (e.tx a).ins, r.tx ≠ b)
  noSelf : ∀ i ∈ C ++ P, ∀ r ∈ (e.tx i).ins, r.tx ≠ i
  outs : ∀ i ∈ C ++ P, ∀ idx, liveSlot e C i idx →
    (∃ u, lookup U (i, idx) = some u ∧ u.amt = slotAmt (e.tx i) idx) ∨
    (∃ j ∈ C ++ P, ∃ r ∈ (e.tx j).ins, r.tx = i ∧ r.off = idx)
  insSpent : ∀ i ∈ C ++ P, ∀ r ∈ (e.tx i).ins, lookup U (r.tx, r.off) = none
  disjoint : ∀ i ∈ C ++ P, ∀ j ∈ C ++ P, i ≠ j →
    ∀ r ∈ (e.tx i).ins, ∀ r' ∈ (e.tx j).ins, (r.tx, r.off) ≠ (r'.tx, r'.off)
  cites : ∀ j ∈ C ++ P, ∀ r ∈ (e.tx j).ins,
    r.tx ∈ C ++ P ∧ liveSlot e C r.tx r.off ∧ slotAmt (e.tx r.tx) r.off = r.amt
  /-- every row is a live slot of a logged transaction -/
  rows : ∀ i idx u, lookup U (i, idx) = some u → i ∈ C ++ P ∧ liveSlot e C i idx

theorem Led_empty (e : Env) : Led e [] [] [] := by
  refine ⟨List.nodup_nil, ?_, ?_, List.Pairwise.nil, ?_, ?_, ?_, ?_, ?_, ?_⟩
  · intro i hi; cases hi
  · intro i hi; cases hi
  · intro i hi; cases hi
  · intro i hi; cases hi
  · intro i hi; cases hi
  · intro i hi; cases hi
  · intro i hi; cases hi
  · intro i idx u hu; cases hu

/-- consequences of "every row is explained" for a transaction that is not logged: no row carries its id -/
theorem Led.noRow {e : Env} {U : List (Ver × UItem)} {C P : List Nat} (hl : Led e U C P) (i : Nat)
    (hnot : i ∉ C ++ P) : ∀ o, lookup U (i, o) = none := by
  intro o
  cases h : lookup U (i, o) with
  | none => rfl
  | some u => exact absurd (hl.rows i o u h).1 hnot

/-- … and nobody cites it -/
theorem Led.notCited {e : Env} {U : List (Ver × UItem)} {C P : List Nat} (hl : Led e U C P) (i : Nat)
    (hnot : i ∉ C ++ P) : ∀ j ∈ C ++ P, ∀ r ∈ (e.tx j).ins, r.tx ≠ i := by
  intro j hj r hr e2
  exact hnot (e2 ▸ (hl.cites j hj r hr).1)

/-- **a pending transaction is added**: `i` is not logged, `e.tx i` has id `i`, its inputs are pairwise distinct rows
with the cited amounts (admission). Freshness and causality follow from the invariant. -/
theorem Led_addPending (e : Env) (s : St) (C P : List Nat) (i : Nat) (hl : Led e s.U C P) (hnot : i ∉ C ++ P)
    (hid : (e.tx i).id = i)
    (hnd : ((e.tx i).ins.map (fun r => (r.tx, r.off))).Nodup)
    (hcur : ∀ r ∈ (e.tx i).ins, ∃ u, lookup s.U (r.tx, r.off) = some u ∧ u.amt = r.amt) :
    Led e (applyTx s (e.tx i)).U C (P ++ [i]) := by
  have hfresh := hl.noRow i hnot
  have hcited := hl.notCited i hnot
  have hself : ∀ r ∈ (e.tx i).ins, r.tx ≠ i := by
    intro r hr e2
    obtain ⟨u, hu, _⟩ := hcur r hr
    rw [e2, hfresh r.off] at hu
    cases hu
  have hself' : ∀ r ∈ (e.tx i).ins, r.tx ≠ (e.tx i).id := by rw [hid]; exact hself
  have hmem : ∀ x, x ∈ C ++ (P ++ [i]) ↔ x ∈ C ++ P ∨ x = i := by
    intro x
    rw [← List.append_assoc]
    simp only [List.mem_append, List.mem_cons, List.not_mem_nil, or_false]
  have hiC : i ∉ C := fun h => hnot (List.mem_append_left _ h)
  have hneA : ∀ j ∈ C ++ P, j ≠ i := fun j hj e2 => hnot (e2 ▸ hj)
  have hnew : ∀ a ∈ C ++ P, ∀ r ∈ (e.tx a).ins, ∀ r' ∈ (e.tx i).ins, (r.tx, r.off) ≠ (r'.tx, r'.off) := by
    intro a ha r hr r' hr' heq
    obtain ⟨u, hu, _⟩ := hcur r' hr'
    rw [← heq, hl.insSpent a ha r hr] at hu
    cases hu
  refine ⟨?_, ?_, ?_, ?_, ?_, ?_, ?_, ?_, ?_, ?_⟩
  · rw [← List.append_assoc]
    apply List.nodup_append.mpr
    refine ⟨hl.nodupA, by simp, ?_⟩
    intro a ha b hb
    simp only [List.mem_cons, List.not_mem_nil, or_false] at hb
    rw [hb]; exact hneA a ha
  · intro j hj
    rcases (hmem j).mp hj with h | h
    · exact hl.idEq j h
    · rw [h]; exact hid
  · intro j hj
    rcases (hmem j).mp hj with h | h
    · exact hl.insNodup j h
    · rw [h]; exact hnd
  · rw [← List.append_assoc]
    apply List.pairwise_append.mpr
    refine ⟨hl.order, by simp, ?_⟩
    intro a ha b hb
    simp only [List.mem_cons, List.not_mem_nil, or_false] at hb
    rw [hb]; exact hcited a ha
  · intro j hj
    rcases (hmem j).mp hj with h | h
    · exact hl.noSelf j h
    · rw [h]; exact hself
  · -- outs
    intro j hj idx hm
    rcases (hmem j).mp hj with hjA | hji
    · rcases hl.outs j hjA idx hm with ⟨u, hu, ha⟩ | ⟨j', hj', r, hr, hrt, hro⟩
      · by_cases hin : (j, idx) ∈ (e.tx i).ins.map (fun r => (r.tx, r.off))
        · right
          obtain ⟨r, hr, he⟩ := List.mem_map.mp hin
          injection he with e1 e2
          exact ⟨i, (hmem i).mpr (Or.inr rfl), r, hr, e1, e2⟩
        · left
          refine ⟨u, ?_, ha⟩
          rw [applyTx_lookup_otherid s (e.tx i) (j, idx) (by rw [hid]; exact hneA j hjA)]
          simp only [hin, ↓reduceIte]
          exact hu
      · right
        exact ⟨j', (hmem j').mpr (Or.inl hj'), r, hr, hrt, hro⟩
    · left
      subst hji
      rcases hm with hm | ⟨hc, _⟩
      · have := applyTx_lookup_mat s (e.tx j) idx hself' hm
        rw [hid] at this
        exact this
      · exact absurd hc hiC
  · -- insSpent
    intro j hj r hr
    rcases (hmem j).mp hj with hjA | hji
    · rw [applyTx_lookup_otherid s (e.tx i) (r.tx, r.off) (by rw [hid]; exact hcited j hjA r hr)]
      split
      · rfl
      · exact hl.insSpent j hjA r hr
    · subst hji
      rw [applyTx_lookup_otherid s (e.tx j) (r.tx, r.off) (hself' r hr)]
      have : (r.tx, r.off) ∈ (e.tx j).ins.map (fun r => (r.tx, r.off)) := List.mem_map.mpr ⟨r, hr, rfl⟩
      simp only [this, ↓reduceIte]
  · -- disjoint
    intro a ha b hb hab r hr r' hr'
    rcases (hmem a).mp ha with haA | hai
    · rcases (hmem b).mp hb with hbA | hbi
      · exact hl.disjoint a haA b hbA hab r hr r' hr'
      · rw [hbi] at hr'
        exact hnew a haA r hr r' hr'
    · rcases (hmem b).mp hb with hbA | hbi
      · rw [hai] at hr
        exact fun heq => hnew b hbA r' hr' r hr heq.symm
      · exact absurd (hai.trans hbi.symm) hab
  · -- cites
    intro j hj r hr
    rcases (hmem j).mp hj with hjA | hji
    · obtain ⟨c1, c2, c3⟩ := hl.cites j hjA r hr
      exact ⟨(hmem r.tx).mpr (Or.inl c1), c2, c3⟩
    · rw [hji] at hr
      obtain ⟨u, hu, hamt⟩ := hcur r hr
      obtain ⟨hrA, hlive⟩ := hl.rows r.tx r.off u hu
      refine ⟨(hmem r.tx).mpr (Or.inl hrA), hlive, ?_⟩
      rcases hl.outs r.tx hrA r.off hlive with ⟨u', hu', ha'⟩ | ⟨j', hj', r', hr', e1, e2⟩
      · rw [hu] at hu'
        injection hu' with hu'
        rw [← ha', ← hu', hamt]
      · have := hl.insSpent j' hj' r' hr'
        rw [e1, e2, hu] at this
        cases this
  · -- rows
    intro j idx u hu
    by_cases hji : j = i
    · subst hji
      refine ⟨(hmem j).mpr (Or.inr rfl), ?_⟩
      cases hm : matSlot (e.tx j) idx
      · have := applyTx_lookup_nonmat s (e.tx j) idx hself' hm
        rw [hid] at this
        rw [this, hfresh idx] at hu
        cases hu
      · exact Or.inl hm
    · rw [applyTx_lookup_otherid s (e.tx i) (j, idx) (by rw [hid]; exact hji)] at hu
      split at hu
      · cases hu
      · obtain ⟨h1, h2⟩ := hl.rows j idx u hu
        exact ⟨(hmem j).mpr (Or.inl h1), h2⟩

end XV.Chain
