import XV.Lemmas.InvTable
/-!
The application of the transactions of a block, as a relation. `applyBlockTxs` (used by `play` and `todoBlock`) and
the loop of `playForMiner` both process the block's transactions in order; each transaction is either *confirmed from
the pool* (only its fee is paid to the proposer) or *new* (admitted against the evolving state, applied, fee paid).
`blockRun` states exactly that; the two functions refine it (`applyBlockTxs_run`, `playForMiner_go_run`), so every
invariant of block application is proved once, over `blockRun`.
-/
namespace XV.Chain

/-- output number `idx` of `t` is a fee placeholder -/
def feeSlot (t : Tx) (idx : Nat) : Bool :=
  match t.outs[idx]? with
  | some o => o.addr == "$"
  | none => false

/-- output number `idx` of `t` materialises when `t` is applied (not the fee placeholder, not zero) -/
def matSlot (t : Tx) (idx : Nat) : Bool :=
  match t.outs[idx]? with
  | some o => !(o.addr == "$" || o.amt == 0)
  | none => false

theorem feeSlot_matSlot (t : Tx) (idx : Nat) (h : matSlot t idx = true) : feeSlot t idx = false := by
  unfold matSlot at h
  unfold feeSlot
  split
  · rename_i o ho
    simp only [ho, Bool.not_eq_true', Bool.or_eq_false_iff] at h
    exact h.1
  · rfl

def blockRun (e : Env) (lh : Int) (prop : String) (isPool : Nat → Bool) : List Nat → St → St → Prop
  | [], s, s' => s' = s
  | i :: rest, s, s' =>
    if isPool i = true then blockRun e lh prop isPool rest (payFee (e.tx i) prop (e.tx i).outs 0 s) s'
    else admitTx s lh (e.tx i) = .ok ∧
      blockRun e lh prop isPool rest (payFee (e.tx i) prop (e.tx i).outs 0 (applyTx s (e.tx i))) s'

theorem applyBlockTxs_run (e : Env) (lh : Int) (prop : String) (already : List Nat) (txs : List Nat) (s s2 : St)
    (h : applyBlockTxs e lh prop already txs s = some (s2, .ok)) :
    blockRun e lh prop (fun i => already.contains i) txs s s2 := by
  induction txs generalizing s with
  | nil =>
    simp only [applyBlockTxs, Option.some.injEq, Prod.mk.injEq, and_true] at h
    exact h.symm
  | cons i rest ih =>
    unfold applyBlockTxs at h
    unfold blockRun
    by_cases hp : already.contains i = true
    · simp only [hp, ↓reduceIte] at h ⊢
      exact ih _ h
    · simp only [hp, Bool.false_eq_true, ↓reduceIte] at h ⊢
      cases hadm : admitTx s lh (e.tx i) <;> simp only [hadm] at h
      case ok => exact ⟨rfl, ih _ h⟩
      all_goals (simp at h)

theorem playForMiner_go_run (e : Env) (lh : Int) (b : Block) (txs : List Nat) (s s2 : St)
    (h : playForMiner.go e lh b txs s = some s2) :
    blockRun e lh b.prop (fun i => !(e.tx i).coinbase) txs s s2 := by
  induction txs generalizing s with
  | nil =>
    simp only [playForMiner.go, Option.some.injEq] at h
    exact h.symm
  | cons i rest ih =>
    unfold playForMiner.go at h
    unfold blockRun
    by_cases hc : (e.tx i).coinbase = true
    · simp only [hc, ↓reduceIte, Bool.not_true, Bool.false_eq_true] at h ⊢
      cases hadm : admitTx s lh (e.tx i) <;> simp only [hadm] at h
      case ok => exact ⟨rfl, ih _ h⟩
      all_goals (simp at h)
    · simp only [hc, Bool.false_eq_true, ↓reduceIte] at h
      have hc' : (e.tx i).coinbase = false := by simpa using hc
      simp only [hc', Bool.not_false, ↓reduceIte]
      exact ih _ h

/-- block application touches neither the pool nor the pointer nor the irreversible height -/
theorem blockRun_frame (e : Env) (lh : Int) (prop : String) (isPool : Nat → Bool) (txs : List Nat) (s s2 : St)
    (h : blockRun e lh prop isPool txs s s2) :
    s2.pool = s.pool ∧ s2.pointer = s.pointer ∧ s2.irrev = s.irrev := by
  induction txs generalizing s with
  | nil => simp only [blockRun] at h; subst h; exact ⟨rfl, rfl, rfl⟩
  | cons i rest ih =>
    unfold blockRun at h
    split at h
    · obtain ⟨a1, a2, a3⟩ := ih _ h
      obtain ⟨_, _, _, p4, p5, p6⟩ := payFee_frame (e.tx i) prop (e.tx i).outs 0 s
      exact ⟨a1.trans p6, a2.trans p4, a3.trans p5⟩
    · obtain ⟨a1, a2, a3⟩ := ih _ h.2
      obtain ⟨_, _, _, p4, p5, p6⟩ := payFee_frame (e.tx i) prop (e.tx i).outs 0 (applyTx s (e.tx i))
      obtain ⟨t1, t2, t3⟩ := applyTx_frame s (e.tx i)
      exact ⟨a1.trans (p6.trans t3), a2.trans (p4.trans t1), a3.trans (p5.trans t2)⟩

theorem payFee_lookup_feeSlot (t : Tx) (prop : String) (s : St) (idx : Nat) (h : feeSlot t idx = false) :
    lookup (payFee t prop t.outs 0 s).U (t.id, idx) = lookup s.U (t.id, idx) := by
  rw [payFee_lookup_idx0]
  unfold feeSlot at h
  split
  · rename_i o ho
    simp only [ho] at h
    simp [h]
  · rfl

/-- **a spent output stays spent through a block**: a key absent from the table stays absent, unless the block creates
it — i.e. unless it is an output of a new transaction of the block or the fee slot of any transaction of the block -/
theorem blockRun_lookup_none (e : Env) (lh : Int) (prop : String) (isPool : Nat → Bool) (txs : List Nat) (s s2 : St)
    (h : blockRun e lh prop isPool txs s s2) (hid : ∀ i ∈ txs, (e.tx i).id = i) (k : Ver)
    (hk : k.1 ∈ txs → isPool k.1 = true ∧ feeSlot (e.tx k.1) k.2 = false)
    (hnone : lookup s.U k = none) : lookup s2.U k = none := by
  induction txs generalizing s with
  | nil => simp only [blockRun] at h; subst h; exact hnone
  | cons i rest ih =>
    have hid' : ∀ j ∈ rest, (e.tx j).id = j := fun j hj => hid j (List.mem_cons_of_mem _ hj)
    have hk' : k.1 ∈ rest → isPool k.1 = true ∧ feeSlot (e.tx k.1) k.2 = false :=
      fun hm => hk (List.mem_cons_of_mem _ hm)
    have hidi := hid i List.mem_cons_self
    unfold blockRun at h
    by_cases hki : k.1 = i
    · obtain ⟨hp, hf⟩ := hk (by rw [hki]; exact List.mem_cons_self)
      rw [hki] at hp hf
      simp only [hp, ↓reduceIte] at h
      apply ih _ h hid' hk'
      have hkk : k = ((e.tx i).id, k.2) := by rw [hidi, ← hki]
      rw [hkk, payFee_lookup_feeSlot _ _ _ _ hf, ← hkk]
      exact hnone
    · have hne : k.1 ≠ (e.tx i).id := by rw [hidi]; exact hki
      split at h
      · apply ih _ h hid' hk'
        rw [payFee_lookup_otherid _ _ _ _ _ _ hne]; exact hnone
      · apply ih _ h.2 hid' hk'
        rw [payFee_lookup_otherid _ _ _ _ _ _ hne, applyTx_lookup_otherid _ _ _ hne, hnone]
        split <;> rfl

theorem confirmPool_lookup_none (t : Tx) (prop : String) (s : St) (k : Ver) (hk : k.1 ≠ t.id)
    (h : lookup s.U k = none) : lookup (payFee t prop t.outs 0 s).U k = none := by
  rw [payFee_lookup_otherid _ _ _ _ _ _ hk]; exact h

theorem confirmNew_lookup_none (t : Tx) (prop : String) (s : St) (k : Ver) (hk : k.1 ≠ t.id)
    (h : lookup s.U k = none) : lookup (payFee t prop t.outs 0 (applyTx s t)).U k = none := by
  rw [payFee_lookup_otherid _ _ _ _ _ _ hk, applyTx_lookup_otherid _ _ _ hk, h]
  split <;> rfl

theorem feeSlot_of_get (t : Tx) (idx : Nat) (o : Out) (ho : t.outs[idx]? = some o) (hd : (o.addr == "$") = true) :
    feeSlot t idx = true := by
  unfold feeSlot; rw [ho]; exact hd

/-- the fee slots of a freshly applied transaction are still free -/
theorem applyTx_feeSlot_free (s : St) (t : Tx) (idx : Nat) (hself : ∀ r ∈ t.ins, r.tx ≠ t.id)
    (hf : feeSlot t idx = true) (hfree : lookup s.U (t.id, idx) = none) :
    lookup (applyTx s t).U (t.id, idx) = none := by
  rw [applyTx_lookup_idx s t idx hself]
  unfold feeSlot at hf
  split
  · rename_i o ho
    simp only [ho] at hf
    simp [hf, hfree]
  · exact hfree

/-- decidable form of "the fee slots of `t` (id `i`) are not rows of the table" -/
theorem feeFree_of_rows (u : List (Ver × UItem)) (t : Tx) (i : Nat)
    (h : ∀ p ∈ u, p.1.1 = i → feeSlot t p.1.2 = false) :
    ∀ idx, feeSlot t idx = true → lookup u (i, idx) = none := by
  intro idx hf
  induction u with
  | nil => rfl
  | cons p r ih =>
    obtain ⟨a, b⟩ := p
    rw [lookup_cons]
    have h1 : ¬ a = (i, idx) := by
      intro e2
      have := h (a, b) List.mem_cons_self (by simp [e2])
      simp only [e2] at this
      rw [this] at hf
      cases hf
    simp only [h1, ↓reduceIte]
    exact ih (fun p hp => h p (List.mem_cons_of_mem _ hp))

end XV.Chain
