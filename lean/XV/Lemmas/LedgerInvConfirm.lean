import XV.Lemmas.LedgerInvAdd
/-!
Ledger main-chain invariant, part 4: what `saveBlock`, `correctTxs`, `confirmTxs` and `confirm` write
(pure unfolding lemmas, no invariant involved).
-/
namespace XV.Ledger
open XV.Chain (lookup put del lookup_put lookup_del lookup_put_same lookup_cons lookup_nil)

theorem saveBlock_B (l : L) (id : Nat) (h : Hdr) (x : Nat) :
    lookup (saveBlock l id h).B x = if id = x then some h else lookup l.B x := by
  simp [saveBlock, lookup_put]

theorem saveBlock_ZH (l : L) (id : Nat) (h : Hdr) :
    (saveBlock l id h).ZH = if h.inTrunk then put l.ZH h.height id else l.ZH := rfl

theorem saveBlock_rest (l : L) (id : Nat) (h : Hdr) :
    (saveBlock l id h).C = l.C ∧ (saveBlock l id h).ZI = l.ZI ∧ (saveBlock l id h).root = l.root ∧
    (saveBlock l id h).tip = l.tip ∧ (saveBlock l id h).trunkHeight = l.trunkHeight := ⟨rfl, rfl, rfl, rfl, rfl⟩

theorem foldl_put_lookup (txs : List Nat) (id : Nat) (c : List (Nat × Nat)) (t : Nat) :
    lookup (txs.foldl (fun c t => put c t id) c) t = if t ∈ txs then some id else lookup c t := by
  induction txs generalizing c with
  | nil => simp
  | cons a r ih =>
    simp only [List.foldl_cons, ih, lookup_put, List.mem_cons]
    by_cases e : a = t
    · simp [e]
    · have : ¬ t = a := fun h => e h.symm
      simp [e, this]

theorem correctTxs_C (l : L) (id : Nat) (txs : List Nat) (t : Nat) :
    lookup (correctTxs l id txs).C t = if t ∈ txs then some id else lookup l.C t := by
  simp [correctTxs, foldl_put_lookup]

/-- does `confirmTxs` (re)write the confirmed-table entry of a transaction of the new block? -/
def overw (l0 : L) (it : Bool) (t : Nat) : Bool :=
  it || match lookup l0.C t with
        | none => true
        | some ob => (lookup l0.B ob).isNone

theorem cTxs_frame (l0 : L) (id : Nat) (it : Bool) (sh : Nat) (txs : List (Nat × Bool)) (cb : Nat) (l l' : L)
    (h : confirmTxs l0 id it sh txs cb l = some l') :
    l'.B = l.B ∧ l'.ZH = l.ZH ∧ l'.ZI = l.ZI ∧ l'.tip = l.tip ∧ l'.trunkHeight = l.trunkHeight ∧ l'.root = l.root := by
  induction txs generalizing cb l with
  | nil => simp [confirmTxs] at h; subst h; simp
  | cons p rest ih =>
    obtain ⟨t, c⟩ := p
    unfold confirmTxs at h
    simp only at h
    repeat' split at h
    all_goals first
      | (simp at h; done)
      | (have := ih _ _ h; simpa using this)

theorem cTxs_C (l0 : L) (id : Nat) (it : Bool) (sh : Nat) (txs : List (Nat × Bool)) (cb : Nat) (l l' : L)
    (h : confirmTxs l0 id it sh txs cb l = some l') (t : Nat) :
    lookup l'.C t = if t ∈ txs.map (·.1) ∧ overw l0 it t = true then some id else lookup l.C t := by
  induction txs generalizing cb l with
  | nil => simp [confirmTxs] at h; subst h; simp
  | cons p rest ih =>
    obtain ⟨t0, c⟩ := p
    have putCase : ∀ cb', overw l0 it t0 = true →
        confirmTxs l0 id it sh rest cb' { l with C := put l.C t0 id } = some l' →
        lookup l'.C t = if t ∈ ((t0, c) :: rest).map (·.1) ∧ overw l0 it t = true then some id else lookup l.C t := by
      intro cb' ho h'
      rw [ih _ _ h']
      simp only [lookup_put, List.map_cons, List.mem_cons]
      by_cases e : t0 = t
      · subst e; simp [ho]
      · have : ¬ t = t0 := fun h => e h.symm
        simp [e, this]
    have keepCase : ∀ cb', overw l0 it t0 = false →
        confirmTxs l0 id it sh rest cb' l = some l' →
        lookup l'.C t = if t ∈ ((t0, c) :: rest).map (·.1) ∧ overw l0 it t = true then some id else lookup l.C t := by
      intro cb' ho h'
      rw [ih _ _ h']
      simp only [List.map_cons, List.mem_cons]
      by_cases e : t0 = t
      · subst e; simp [ho]
      · have : ¬ t = t0 := fun h => e h.symm
        simp [this]
    unfold confirmTxs at h
    simp only at h
    generalize (if c = true then cb + 1 else cb) = cb' at h
    by_cases hcb : cb' > 1
    · simp [hcb] at h
    · simp only [hcb, ↓reduceIte] at h
      cases hC : lookup l0.C t0 with
      | none =>
        simp only [hC] at h
        exact putCase _ (by simp [overw, hC]) h
      | some ob =>
        simp only [hC] at h
        cases hB : lookup l0.B ob with
        | none =>
          simp only [hB] at h
          exact putCase _ (by simp [overw, hC, hB]) h
        | some oh =>
          simp only [hB] at h
          by_cases hdup : (oh.inTrunk && it && decide (oh.height ≤ sh)) = true
          · simp [hdup] at h
          · rw [if_neg hdup] at h
            by_cases hit : it = true
            · rw [if_pos hit] at h
              exact putCase _ (by simp [overw, hit]) h
            · rw [if_neg hit] at h
              have hit' : it = false := by simpa using hit
              exact keepCase _ (by simp [overw, hit', hC, hB]) h

/-- tables after writing the new block's header and its branch-tip entry -/
def withNew (l1 : L) (id pre height : Nat) (it : Bool) (txids : List Nat) : L :=
  { saveBlock l1 id ⟨some pre, height, it, none, txids⟩ with
    ZI := put (del (saveBlock l1 id ⟨some pre, height, it, none, txids⟩).ZI pre) id height }

theorem withNew_B (l1 : L) (id pre height : Nat) (it : Bool) (txids : List Nat) (x : Nat) :
    lookup (withNew l1 id pre height it txids).B x =
      if id = x then some ⟨some pre, height, it, none, txids⟩ else lookup l1.B x := by
  simp [withNew, saveBlock, lookup_put]

theorem withNew_rest (l1 : L) (id pre height : Nat) (it : Bool) (txids : List Nat) :
    (withNew l1 id pre height it txids).ZH = (if it then put l1.ZH height id else l1.ZH) ∧
    (withNew l1 id pre height it txids).ZI = put (del l1.ZI pre) id height ∧
    (withNew l1 id pre height it txids).C = l1.C ∧ (withNew l1 id pre height it txids).root = l1.root ∧
    (withNew l1 id pre height it txids).tip = l1.tip ∧
    (withNew l1 id pre height it txids).trunkHeight = l1.trunkHeight := ⟨rfl, rfl, rfl, rfl, rfl, rfl⟩

/-- the four outcomes of `confirm`: nothing written, trunk extended, trunk switched, side branch extended -/
theorem confirm_cases' (l : L) (id pre : Nat) (txs : List (Nat × Bool)) :
    confirm l id pre txs = (l, .fail) ∨
    ∃ pb, lookup l.B id = none ∧ lookup l.B pre = some pb ∧
      ((pre = l.tip ∧ ∃ l4,
          confirmTxs l id true l.trunkHeight txs 0
            (withNew (saveBlock l pre { pb with next := some id }) id pre (pb.height + 1) true (txs.map (·.1))) = some l4 ∧
          confirm l id pre txs = ({ l4 with tip := id, trunkHeight := l.trunkHeight + 1 }, .succ)) ∨
       (pre ≠ l.tip ∧ pb.height + 1 > l.trunkHeight ∧ ∃ l1 sh l4,
          handleFork l (l.trunkHeight + 2) l.tip pre (some id) l = some (l1, sh) ∧
          confirmTxs l id true sh txs 0 (withNew l1 id pre (pb.height + 1) true (txs.map (·.1))) = some l4 ∧
          confirm l id pre txs = ({ l4 with tip := id, trunkHeight := pb.height + 1 }, .succSwitch)) ∨
       (pre ≠ l.tip ∧ ¬ pb.height + 1 > l.trunkHeight ∧ ∃ l4,
          confirmTxs l id false l.trunkHeight txs 0 (withNew l id pre (pb.height + 1) false (txs.map (·.1))) = some l4 ∧
          confirm l id pre txs = (l4, .succSide))) := by
  unfold confirm
  by_cases h1 : (lookup l.B id).isSome = true
  · left; simp [h1]
  · simp only [h1]
    have hid : lookup l.B id = none := by
      cases h : lookup l.B id with
      | none => rfl
      | some x => simp [h] at h1
    cases hp : lookup l.B pre with
    | none => left; simp
    | some pb =>
      simp only
      by_cases h2 : pre = l.tip
      · simp only [h2, ↓reduceIte]
        cases hc : confirmTxs l id true l.trunkHeight txs 0 _ with
        | none => left; simp
        | some l4 =>
          right
          refine ⟨pb, hid, rfl, Or.inl ⟨trivial, l4, ?_, ?_⟩⟩
          · rw [← hc]; simp only [withNew]
          · simp
      · simp only [h2, ↓reduceIte]
        by_cases h3 : pb.height + 1 > l.trunkHeight
        · simp only [h3, ↓reduceIte]
          cases hf : handleFork l (l.trunkHeight + 2) l.tip pre (some id) l with
          | none => left; simp
          | some r =>
            obtain ⟨l1, sh⟩ := r
            simp only
            cases hc : confirmTxs l id true sh txs 0 _ with
            | none => left; simp
            | some l4 =>
              right
              refine ⟨pb, hid, rfl, Or.inr (Or.inl ⟨fun e => h2 e, h3, l1, sh, l4, rfl, ?_, ?_⟩)⟩
              · rw [← hc]; simp only [withNew]
              · simp
        · simp only [h3, ↓reduceIte]
          cases hc : confirmTxs l id false l.trunkHeight txs 0 _ with
          | none => left; simp
          | some l4 =>
            right
            refine ⟨pb, hid, rfl, Or.inr (Or.inr ⟨fun e => h2 e, h3, l4, ?_, ?_⟩)⟩
            · rw [← hc]; simp only [withNew]
            · simp

theorem confirm_cases (l : L) (id pre : Nat) (txs : List (Nat × Bool)) :
    (confirm l id pre txs).1 = l ∨
    ∃ pb, lookup l.B id = none ∧ lookup l.B pre = some pb ∧
      ((pre = l.tip ∧ ∃ l4,
          confirmTxs l id true l.trunkHeight txs 0
            (withNew (saveBlock l pre { pb with next := some id }) id pre (pb.height + 1) true (txs.map (·.1))) = some l4 ∧
          (confirm l id pre txs).1 = { l4 with tip := id, trunkHeight := l.trunkHeight + 1 }) ∨
       (pre ≠ l.tip ∧ pb.height + 1 > l.trunkHeight ∧ ∃ l1 sh l4,
          handleFork l (l.trunkHeight + 2) l.tip pre (some id) l = some (l1, sh) ∧
          confirmTxs l id true sh txs 0 (withNew l1 id pre (pb.height + 1) true (txs.map (·.1))) = some l4 ∧
          (confirm l id pre txs).1 = { l4 with tip := id, trunkHeight := pb.height + 1 }) ∨
       (pre ≠ l.tip ∧ ¬ pb.height + 1 > l.trunkHeight ∧ ∃ l4,
          confirmTxs l id false l.trunkHeight txs 0 (withNew l id pre (pb.height + 1) false (txs.map (·.1))) = some l4 ∧
          (confirm l id pre txs).1 = l4)) := by
  rcases confirm_cases' l id pre txs with e | ⟨pb, h1, h2, h⟩
  · left; rw [e]
  · right
    refine ⟨pb, h1, h2, ?_⟩
    rcases h with ⟨a, l4, b, e⟩ | ⟨a, a', l1, sh, l4, b, c, e⟩ | ⟨a, a', l4, b, e⟩
    · exact Or.inl ⟨a, l4, b, by rw [e]⟩
    · exact Or.inr (Or.inl ⟨a, a', l1, sh, l4, b, c, by rw [e]⟩)
    · exact Or.inr (Or.inr ⟨a, a', l4, b, by rw [e]⟩)

end XV.Ledger
