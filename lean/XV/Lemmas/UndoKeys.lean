import XV.Lemmas.Assoc
import XV.Lemmas.ChainFrame
/-!
Key tables (ZU live rows / ZD delete markers) under `applyKOut` and `undoKOut`: one write step at a time, then
whole write lists (one write per key), then the well-formedness `KVInv` and what apply-then-undo does to a key.
Nothing here changes a model definition; `applyStep` / `undoStep` are the bodies of the model's recursions,
tied to them by `rfl`.
-/
namespace XV.Chain

/-- the version `t` cites for `key` in its read set — what `undoKOut` puts back -/
def citedVer (t : Tx) (key : String) : Option Ver :=
  (t.kin.find? (fun ki => ki.key == key)).bind (·.ver)

/-- one step of `applyKOut` -/
def applyStep (t : Tx) (ko : KOut) (off : Nat) (s : St) : St :=
  if ko.del then { s with ZU := del s.ZU ko.key, ZD := put s.ZD ko.key (t.id, off) }
  else { s with ZU := put s.ZU ko.key (t.id, off) }

theorem applyKOut_cons (t : Tx) (ko : KOut) (rest : List KOut) (off : Nat) (s : St) :
    applyKOut t (ko :: rest) off s = applyKOut t rest (off + 1) (applyStep t ko off s) := rfl

/-- one step of `undoKOut` -/
def undoStep (e : Env) (t : Tx) (ko : KOut) (s : St) : St :=
  match citedVer t ko.key with
  | none => { s with ZU := del s.ZU ko.key, ZD := if ko.del then del s.ZD ko.key else s.ZD }
  | some pv =>
    if verIsDel e pv then { s with ZD := put s.ZD ko.key pv, ZU := del s.ZU ko.key }
    else { s with ZU := put s.ZU ko.key pv, ZD := if ko.del then del s.ZD ko.key else s.ZD }

theorem undoKOut_cons (e : Env) (t : Tx) (ko : KOut) (rest : List KOut) (s : St) :
    undoKOut e t (ko :: rest) s = undoKOut e t rest (undoStep e t ko s) := rfl

/-- live row of the written key after an undo step: a function of the cited version only -/
def undoZU (e : Env) (c : Option Ver) : Option Ver :=
  match c with
  | none => none
  | some pv => if verIsDel e pv then none else some pv

/-- marker row of the written key after an undo step (`zd` = the marker row before) -/
def undoZD (e : Env) (c : Option Ver) (isDel : Bool) (zd : Option Ver) : Option Ver :=
  match c with
  | none => if isDel then none else zd
  | some pv => if verIsDel e pv then some pv else if isDel then none else zd

-- ------------------------------------------------------------------ single steps

theorem applyStep_ZU (t : Tx) (ko : KOut) (off : Nat) (s : St) (key : String) :
    lookup (applyStep t ko off s).ZU key =
      if ko.key = key then (if ko.del then none else some (t.id, off)) else lookup s.ZU key := by
  unfold applyStep
  by_cases hd : ko.del = true
  · simp only [hd, ↓reduceIte, lookup_del]
  · simp only [hd, Bool.false_eq_true, ↓reduceIte, lookup_put]

theorem applyStep_ZD (t : Tx) (ko : KOut) (off : Nat) (s : St) (key : String) :
    lookup (applyStep t ko off s).ZD key =
      if ko.key = key ∧ ko.del = true then some (t.id, off) else lookup s.ZD key := by
  unfold applyStep
  by_cases hd : ko.del = true
  · simp only [hd, ↓reduceIte, lookup_put, and_true]
  · simp only [hd, Bool.false_eq_true, ↓reduceIte, and_false]

theorem applyStep_curVer (t : Tx) (ko : KOut) (off : Nat) (s : St) (key : String) :
    curVer (applyStep t ko off s) key = if ko.key = key then some (t.id, off) else curVer s key := by
  unfold curVer
  rw [applyStep_ZU, applyStep_ZD]
  by_cases hk : ko.key = key
  · by_cases hd : ko.del = true <;> simp [hk, hd]
  · simp [hk]

theorem undoStep_ZU (e : Env) (t : Tx) (ko : KOut) (s : St) (key : String) :
    lookup (undoStep e t ko s).ZU key =
      if ko.key = key then undoZU e (citedVer t ko.key) else lookup s.ZU key := by
  unfold undoStep undoZU
  cases citedVer t ko.key with
  | none => simp only [lookup_del]
  | some pv =>
    simp only
    by_cases hm : verIsDel e pv = true
    · simp only [hm, ↓reduceIte, lookup_del]
    · simp only [hm, Bool.false_eq_true, ↓reduceIte, lookup_put]

theorem undoStep_ZD (e : Env) (t : Tx) (ko : KOut) (s : St) (key : String) :
    lookup (undoStep e t ko s).ZD key =
      if ko.key = key then undoZD e (citedVer t ko.key) ko.del (lookup s.ZD key) else lookup s.ZD key := by
  unfold undoStep undoZD
  cases citedVer t ko.key with
  | none =>
    simp only
    by_cases hd : ko.del = true
    · simp only [hd, ↓reduceIte, lookup_del]
    · simp only [hd, Bool.false_eq_true, ↓reduceIte, ite_self]
  | some pv =>
    simp only
    by_cases hm : verIsDel e pv = true
    · simp only [hm, ↓reduceIte, lookup_put]
    · simp only [hm, Bool.false_eq_true, ↓reduceIte]
      by_cases hd : ko.del = true
      · simp only [hd, ↓reduceIte, lookup_del]
      · simp only [hd, Bool.false_eq_true, ↓reduceIte, ite_self]

-- ------------------------------------------------------------------ whole write lists

/-- a key that is not written keeps both of its rows under `applyKOut` -/
theorem applyKOut_other (t : Tx) (l : List KOut) (off : Nat) (s : St) (key : String)
    (hk : key ∉ l.map (·.key)) :
    lookup (applyKOut t l off s).ZU key = lookup s.ZU key ∧
    lookup (applyKOut t l off s).ZD key = lookup s.ZD key := by
  induction l generalizing off s with
  | nil => exact ⟨rfl, rfl⟩
  | cons ko rest ih =>
    simp only [List.map_cons, List.mem_cons, not_or] at hk
    have hne : ¬ ko.key = key := fun h => hk.1 h.symm
    rw [applyKOut_cons]
    obtain ⟨i1, i2⟩ := ih (off + 1) (applyStep t ko off s) hk.2
    rw [i1, i2, applyStep_ZU, applyStep_ZD]
    simp [hne]

/-- the rows of a written key after `applyKOut` (one write per key): the write at index `i` decides -/
theorem applyKOut_written (t : Tx) (l : List KOut) (off : Nat) (s : St) (i : Nat) (ko : KOut)
    (hnd : (l.map (·.key)).Nodup) (hi : l[i]? = some ko) :
    lookup (applyKOut t l off s).ZU ko.key = (if ko.del then none else some (t.id, off + i)) ∧
    lookup (applyKOut t l off s).ZD ko.key = (if ko.del then some (t.id, off + i) else lookup s.ZD ko.key) := by
  induction l generalizing off s i with
  | nil => simp at hi
  | cons k0 rest ih =>
    simp only [List.map_cons, List.nodup_cons] at hnd
    rw [applyKOut_cons]
    cases i with
    | zero =>
      simp only [List.getElem?_cons_zero, Option.some.injEq] at hi
      subst hi
      obtain ⟨o1, o2⟩ := applyKOut_other t rest (off + 1) (applyStep t k0 off s) k0.key hnd.1
      rw [o1, o2, applyStep_ZU, applyStep_ZD]
      by_cases hd : k0.del = true <;> simp [hd]
    | succ j =>
      simp only [List.getElem?_cons_succ] at hi
      obtain ⟨i1, i2⟩ := ih (off + 1) (applyStep t k0 off s) j hnd.2 hi
      have hmem : ko.key ∈ rest.map (·.key) := List.mem_map.mpr ⟨ko, List.mem_of_getElem? hi, rfl⟩
      have hne : ¬ k0.key = ko.key := fun h => hnd.1 (h ▸ hmem)
      have ho : off + 1 + j = off + (j + 1) := by omega
      rw [i1, i2, applyStep_ZD, ho]
      simp [hne]

/-- a key that is not written keeps both of its rows under `undoKOut` -/
theorem undoKOut_other (e : Env) (t : Tx) (l : List KOut) (s : St) (key : String)
    (hk : key ∉ l.map (·.key)) :
    lookup (undoKOut e t l s).ZU key = lookup s.ZU key ∧
    lookup (undoKOut e t l s).ZD key = lookup s.ZD key := by
  induction l generalizing s with
  | nil => exact ⟨rfl, rfl⟩
  | cons ko rest ih =>
    simp only [List.map_cons, List.mem_cons, not_or] at hk
    have hne : ¬ ko.key = key := fun h => hk.1 h.symm
    rw [undoKOut_cons]
    obtain ⟨i1, i2⟩ := ih (undoStep e t ko s) hk.2
    rw [i1, i2, undoStep_ZU, undoStep_ZD]
    simp [hne]

/-- the rows of a written key after `undoKOut` (one write per key) -/
theorem undoKOut_written (e : Env) (t : Tx) (l : List KOut) (s : St) (ko : KOut)
    (hnd : (l.map (·.key)).Nodup) (hm : ko ∈ l) :
    lookup (undoKOut e t l s).ZU ko.key = undoZU e (citedVer t ko.key) ∧
    lookup (undoKOut e t l s).ZD ko.key = undoZD e (citedVer t ko.key) ko.del (lookup s.ZD ko.key) := by
  induction l generalizing s with
  | nil => simp at hm
  | cons k0 rest ih =>
    simp only [List.map_cons, List.nodup_cons] at hnd
    rw [undoKOut_cons]
    rcases List.mem_cons.mp hm with h0 | hr
    · subst h0
      obtain ⟨o1, o2⟩ := undoKOut_other e t rest (undoStep e t ko s) ko.key hnd.1
      rw [o1, o2, undoStep_ZU, undoStep_ZD]
      simp
    · obtain ⟨i1, i2⟩ := ih (undoStep e t k0 s) hnd.2 hr
      have hmem : ko.key ∈ rest.map (·.key) := List.mem_map.mpr ⟨ko, hr, rfl⟩
      have hne : ¬ k0.key = ko.key := fun h => hnd.1 (h ▸ hmem)
      rw [i1, i2, undoStep_ZD]
      simp [hne]

-- ------------------------------------------------------------------ ZU / ZD of applyTx and undoTx

theorem applyTx_ZU (s : St) (t : Tx) : (applyTx s t).ZU = (applyKOut t t.kout 0 s).ZU := by
  unfold applyTx
  exact (applyOuts_frame t t.outs 0 _).1

theorem applyTx_ZD (s : St) (t : Tx) : (applyTx s t).ZD = (applyKOut t t.kout 0 s).ZD := by
  unfold applyTx
  exact (applyOuts_frame t t.outs 0 _).2.1

theorem undoTx_ZU (e : Env) (s : St) (t : Tx) : (undoTx e s t).ZU = (undoKOut e t t.kout s).ZU := by
  unfold undoTx
  exact (undoOuts_frame t t.outs 0 _).1

theorem undoTx_ZD (e : Env) (s : St) (t : Tx) : (undoTx e s t).ZD = (undoKOut e t t.kout s).ZD := by
  unfold undoTx
  exact (undoOuts_frame t t.outs 0 _).2.1

theorem curVer_congr_tables (s s' : St) (key : String) (h1 : lookup s.ZU key = lookup s'.ZU key)
    (h2 : lookup s.ZD key = lookup s'.ZD key) : curVer s key = curVer s' key := by
  unfold curVer; rw [h1, h2]

theorem curVer_none (s : St) (key : String) (h : curVer s key = none) :
    lookup s.ZU key = none ∧ lookup s.ZD key = none := by
  unfold curVer at h
  cases hz : lookup s.ZU key with
  | none => simp only [hz] at h; exact ⟨rfl, h⟩
  | some v => simp [hz] at h

-- ------------------------------------------------------------------ well-formedness of the key tables

/-- a live row never names a delete marker; a visible recycle row always does -/
def KVInv (e : Env) (s : St) : Prop :=
  ∀ k v, (lookup s.ZU k = some v → verIsDel e v = false) ∧
         (lookup s.ZU k = none → lookup s.ZD k = some v → verIsDel e v = true)

theorem lookup_mem {κ ν : Type} [DecidableEq κ] (m : List (κ × ν)) (k : κ) (v : ν) (h : lookup m k = some v) :
    (k, v) ∈ m := by
  induction m with
  | nil => simp at h
  | cons p r ih =>
    obtain ⟨a, b⟩ := p
    rw [lookup_cons] at h
    by_cases hk : a = k
    · simp only [hk, ↓reduceIte, Option.some.injEq] at h
      simp [hk, h]
    · simp only [hk, ↓reduceIte] at h
      exact List.mem_cons_of_mem _ (ih h)

/-- a checkable sufficient condition (row by row) -/
theorem KVInv_of_rows (e : Env) (s : St) (h1 : ∀ p ∈ s.ZU, verIsDel e p.2 = false)
    (h2 : ∀ p ∈ s.ZD, lookup s.ZU p.1 = none → verIsDel e p.2 = true) : KVInv e s := by
  intro k v
  exact ⟨fun h => h1 (k, v) (lookup_mem _ _ _ h), fun hn h => h2 (k, v) (lookup_mem _ _ _ h) hn⟩

theorem KVInv_empty (e : Env) (s : St) (h1 : s.ZU = []) (h2 : s.ZD = []) : KVInv e s := by
  intro k v; simp [h1, h2]

/-- with `KVInv`, the current version tells in which table the key lives -/
theorem KVInv_live (e : Env) (s : St) (h : KVInv e s) (key : String) (v : Ver) (hc : curVer s key = some v)
    (hm : verIsDel e v = false) : lookup s.ZU key = some v := by
  unfold curVer at hc
  cases hz : lookup s.ZU key with
  | some w => simp only [hz, Option.some.injEq] at hc; rw [hc]
  | none =>
    simp only [hz] at hc
    have := (h key v).2 hz hc
    rw [hm] at this; cases this

theorem KVInv_marker (e : Env) (s : St) (h : KVInv e s) (key : String) (v : Ver) (hc : curVer s key = some v)
    (hm : verIsDel e v = true) : lookup s.ZU key = none ∧ lookup s.ZD key = some v := by
  unfold curVer at hc
  cases hz : lookup s.ZU key with
  | some w =>
    simp only [hz, Option.some.injEq] at hc
    have := (h key w).1 hz
    rw [hc, hm] at this; cases this
  | none => simp only [hz] at hc; exact ⟨rfl, hc⟩

theorem applyStep_KVInv (e : Env) (t : Tx) (ko : KOut) (off : Nat) (s : St) (h : KVInv e s)
    (hv : verIsDel e (t.id, off) = ko.del) : KVInv e (applyStep t ko off s) := by
  intro k v
  rw [applyStep_ZU, applyStep_ZD]
  by_cases hk : ko.key = k
  · by_cases hd : ko.del = true
    · simp only [hk, hd, ↓reduceIte, and_self, Option.some.injEq, reduceCtorEq, false_implies, true_and,
        true_implies]
      intro hv2; rw [← hv2, hv, hd]
    · simp only [hk, hd, Bool.false_eq_true, ↓reduceIte, and_false, Option.some.injEq, reduceCtorEq,
        false_implies, and_true]
      intro hv2; rw [← hv2, hv]; simpa using hd
  · simp only [hk, ↓reduceIte, false_and]
    exact h k v

/-- the key writes of a transaction keep `KVInv` (the version a write creates is a marker iff the write is a
delete: `verIsDel` reads it back from the environment) -/
theorem applyKOut_KVInv (e : Env) (t : Tx) (l : List KOut) (off : Nat) (s : St) (h : KVInv e s)
    (hv : ∀ i ko, l[i]? = some ko → verIsDel e (t.id, off + i) = ko.del) :
    KVInv e (applyKOut t l off s) := by
  induction l generalizing off s with
  | nil => exact h
  | cons k0 rest ih =>
    rw [applyKOut_cons]
    apply ih
    · exact applyStep_KVInv e t k0 off s h (by simpa using hv 0 k0 (by simp))
    · intro i ko hi
      have := hv (i + 1) ko (by simpa using hi)
      have ho : off + 1 + i = off + (i + 1) := by omega
      rw [ho]; exact this

theorem verIsDel_self (e : Env) (t : Tx) (hself : e.tx t.id = t) (i : Nat) (ko : KOut) (hi : t.kout[i]? = some ko) :
    verIsDel e (t.id, i) = ko.del := by
  unfold verIsDel
  simp only [hself, hi]

theorem KVInv_of_tables (e : Env) (s s' : St) (h : KVInv e s) (h1 : s'.ZU = s.ZU) (h2 : s'.ZD = s.ZD) :
    KVInv e s' := by
  intro k v; rw [h1, h2]; exact h k v

-- ------------------------------------------------------------------ what admission says about the cited versions

/-- the version restored on undo is the version that was current at admission: every cited read was current and
every written key was read (any of several read entries of one key cites the same, current, version) -/
theorem citedVer_current (s : St) (t : Tx) (hread : ∀ ki ∈ t.kin, curVer s ki.key = ki.ver)
    (hwr : ∀ ko ∈ t.kout, ∃ ki ∈ t.kin, ki.key = ko.key) (ko : KOut) (hko : ko ∈ t.kout) :
    citedVer t ko.key = curVer s ko.key := by
  unfold citedVer
  obtain ⟨ki, hki, hkk⟩ := hwr ko hko
  cases hf : t.kin.find? (fun ki => ki.key == ko.key) with
  | none =>
    have := List.find?_eq_none.mp hf ki hki
    simp [hkk] at this
  | some k1 =>
    have h1 : k1.key = ko.key := by simpa using List.find?_some hf
    have h2 := hread k1 (List.mem_of_find?_eq_some hf)
    simp only [Option.bind_some]
    rw [← h2, h1]

-- ------------------------------------------------------------------ apply then undo, key by key

/-- rows of a written key after apply-then-undo, in terms of the state before -/
theorem undo_apply_written (e : Env) (s : St) (t : Tx) (hnd : (t.kout.map (·.key)).Nodup)
    (ko : KOut) (hko : ko ∈ t.kout) :
    lookup (undoTx e (applyTx s t) t).ZU ko.key = undoZU e (citedVer t ko.key) ∧
    lookup (undoTx e (applyTx s t) t).ZD ko.key =
      undoZD e (citedVer t ko.key) ko.del (if ko.del then none else lookup s.ZD ko.key) := by
  obtain ⟨i, hi⟩ := List.mem_iff_getElem?.mp hko
  obtain ⟨u1, u2⟩ := undoKOut_written e t t.kout (applyTx s t) ko hnd hko
  obtain ⟨_, a2⟩ := applyKOut_written t t.kout 0 s i ko hnd hi
  rw [undoTx_ZU, undoTx_ZD, u1, u2, applyTx_ZD, a2]
  refine ⟨rfl, ?_⟩
  unfold undoZD
  by_cases hd : ko.del = true
  · simp [hd]
  · simp [hd]

theorem undo_apply_other (e : Env) (s : St) (t : Tx) (key : String) (hk : key ∉ t.kout.map (·.key)) :
    lookup (undoTx e (applyTx s t) t).ZU key = lookup s.ZU key ∧
    lookup (undoTx e (applyTx s t) t).ZD key = lookup s.ZD key := by
  obtain ⟨u1, u2⟩ := undoKOut_other e t t.kout (applyTx s t) key hk
  obtain ⟨a1, a2⟩ := applyKOut_other t t.kout 0 s key hk
  rw [undoTx_ZU, undoTx_ZD, u1, u2, applyTx_ZU, applyTx_ZD, a1, a2]
  exact ⟨rfl, rfl⟩

/-- **the reader sees every key at its old version after apply-then-undo** (no well-formedness needed) -/
theorem undo_apply_curVer (e : Env) (s : St) (t : Tx) (hread : ∀ ki ∈ t.kin, curVer s ki.key = ki.ver)
    (hwr : ∀ ko ∈ t.kout, ∃ ki ∈ t.kin, ki.key = ko.key) (hnd : (t.kout.map (·.key)).Nodup) (key : String) :
    curVer (undoTx e (applyTx s t) t) key = curVer s key := by
  by_cases hk : key ∈ t.kout.map (·.key)
  · obtain ⟨ko, hko, rfl⟩ := List.mem_map.mp hk
    have hc := citedVer_current s t hread hwr ko hko
    obtain ⟨w1, w2⟩ := undo_apply_written e s t hnd ko hko
    have hL : curVer (undoTx e (applyTx s t) t) ko.key =
        (match undoZU e (curVer s ko.key) with
         | some v => some v
         | none => undoZD e (curVer s ko.key) ko.del (if ko.del then none else lookup s.ZD ko.key)) := by
      rw [← hc, ← w1, ← w2]; rfl
    rw [hL]
    cases hcv : curVer s ko.key with
    | none =>
      obtain ⟨_, z2⟩ := curVer_none s ko.key hcv
      simp [undoZU, undoZD, z2]
    | some pv =>
      by_cases hm : verIsDel e pv = true
      · simp [undoZU, undoZD, hm]
      · simp [undoZU, hm]
  · obtain ⟨o1, o2⟩ := undo_apply_other e s t key hk
    exact curVer_congr_tables _ _ _ o1 o2

/-- with `KVInv`: the live table is restored row by row, and every marker row present afterwards was there before
(a marker hidden behind a live row can be lost: deleting a live key overwrites its stale marker, and the undo of a
delete removes the marker instead of restoring the stale one) -/
theorem undo_apply_tables (e : Env) (s : St) (t : Tx) (hinv : KVInv e s)
    (hread : ∀ ki ∈ t.kin, curVer s ki.key = ki.ver)
    (hwr : ∀ ko ∈ t.kout, ∃ ki ∈ t.kin, ki.key = ko.key) (hnd : (t.kout.map (·.key)).Nodup) (key : String) :
    lookup (undoTx e (applyTx s t) t).ZU key = lookup s.ZU key ∧
    ∀ m, lookup (undoTx e (applyTx s t) t).ZD key = some m → lookup s.ZD key = some m := by
  by_cases hk : key ∈ t.kout.map (·.key)
  · obtain ⟨ko, hko, rfl⟩ := List.mem_map.mp hk
    have hc := citedVer_current s t hread hwr ko hko
    obtain ⟨w1, w2⟩ := undo_apply_written e s t hnd ko hko
    rw [w1, w2, hc]
    cases hcv : curVer s ko.key with
    | none =>
      obtain ⟨z1, z2⟩ := curVer_none s ko.key hcv
      simp [undoZU, undoZD, z1, z2]
    | some pv =>
      by_cases hm : verIsDel e pv = true
      · obtain ⟨z1, z2⟩ := KVInv_marker e s hinv ko.key pv hcv hm
        simp [undoZU, undoZD, hm, z1, z2]
      · have hm' : verIsDel e pv = false := by simpa using hm
        have z1 := KVInv_live e s hinv ko.key pv hcv hm'
        by_cases hd : ko.del = true
        · simp [undoZU, undoZD, hm', z1, hd]
        · simp [undoZU, undoZD, hm', z1, hd]
  · obtain ⟨o1, o2⟩ := undo_apply_other e s t key hk
    rw [o1, o2]; exact ⟨rfl, fun _ h => h⟩

theorem applyTx_KVInv' (e : Env) (s : St) (t : Tx) (hself : e.tx t.id = t) (hinv : KVInv e s) :
    KVInv e (applyTx s t) := by
  have := applyKOut_KVInv e t t.kout 0 s hinv (fun i ko hi => by
    rw [Nat.zero_add]; exact verIsDel_self e t hself i ko hi)
  exact KVInv_of_tables e _ _ this (applyTx_ZU s t) (applyTx_ZD s t)

theorem undo_apply_KVInv' (e : Env) (s : St) (t : Tx) (hinv : KVInv e s)
    (hread : ∀ ki ∈ t.kin, curVer s ki.key = ki.ver)
    (hwr : ∀ ko ∈ t.kout, ∃ ki ∈ t.kin, ki.key = ko.key) (hnd : (t.kout.map (·.key)).Nodup) :
    KVInv e (undoTx e (applyTx s t) t) := by
  intro k v
  obtain ⟨h1, h2⟩ := undo_apply_tables e s t hinv hread hwr hnd k
  rw [h1]
  exact ⟨(hinv k v).1, fun hn hz => (hinv k v).2 hn (h2 v hz)⟩

end XV.Chain
