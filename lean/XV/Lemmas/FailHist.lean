import XV.Props.C01
import XV.Props.C05
import XV.Lemmas.CrashNode
/-!
Helper lemmas for the history form of C05 (`XV/Props/C05Hist.lean`).

1. A generic fact about folds: if every operation that a test `drop` selects leaves the state as it is, the operations
   selected when they are reached can be removed from any list (`keepG`, `foldl_keepG`), and — the same read the other
   way — such operations can be inserted anywhere (`InsertedG`, `foldl_insertedG`, `foldl_insert_block`).
2. The two loops of `walk` when they fail: the list splits into the completed prefix, the refused block and the rest
   (`undoAll_fail_split`, `todoAll_fail_split`).
3. Histories of the C01 framework cut at a position (`histOK_take`).
-/
namespace XV.C05
open XV.Chain

-- ------------------------------------------------------------------ 1. removing / inserting operations that change nothing

section Generic
variable {σ ω : Type}

/-- the sub-list of the operations that `drop` does not select when they are reached; the run is followed with `step`
(a selected operation is skipped and the state stays) -/
def keepG (step : σ → ω → σ) (drop : σ → ω → Bool) : σ → List ω → List ω
  | _, [] => []
  | s, o :: rest => if drop s o then keepG step drop s rest else o :: keepG step drop (step s o) rest

theorem keepG_nil (step : σ → ω → σ) (drop : σ → ω → Bool) (s : σ) : keepG step drop s [] = [] := rfl

theorem keepG_cons_drop (step : σ → ω → σ) (drop : σ → ω → Bool) (s : σ) (o : ω) (rest : List ω)
    (h : drop s o = true) : keepG step drop s (o :: rest) = keepG step drop s rest := by
  rw [keepG, if_pos h]

theorem keepG_cons_keep (step : σ → ω → σ) (drop : σ → ω → Bool) (s : σ) (o : ω) (rest : List ω)
    (h : ¬ drop s o = true) : keepG step drop s (o :: rest) = o :: keepG step drop (step s o) rest := by
  rw [keepG, if_neg h]

/-- **operations that change nothing can be removed**: the fold over the whole list is the fold over the kept part -/
theorem foldl_keepG (step : σ → ω → σ) (drop : σ → ω → Bool) (h : ∀ s o, drop s o = true → step s o = s) :
    ∀ (ops : List ω) (s : σ), ops.foldl step s = (keepG step drop s ops).foldl step s := by
  intro ops
  induction ops with
  | nil => intro s; rfl
  | cons o rest ih =>
    intro s
    by_cases hd : drop s o = true
    · rw [keepG_cons_drop step drop s o rest hd, List.foldl_cons, h s o hd]
      exact ih s
    · rw [keepG_cons_keep step drop s o rest hd, List.foldl_cons, List.foldl_cons]
      exact ih (step s o)

/-- no operation of the list is selected by `drop` when it is reached -/
def noneDropped (step : σ → ω → σ) (drop : σ → ω → Bool) : σ → List ω → Bool
  | _, [] => true
  | s, o :: rest => !drop s o && noneDropped step drop (step s o) rest

theorem keepG_noneDropped (step : σ → ω → σ) (drop : σ → ω → Bool) :
    ∀ (ops : List ω) (s : σ), noneDropped step drop s (keepG step drop s ops) = true := by
  intro ops
  induction ops with
  | nil => intro s; rfl
  | cons o rest ih =>
    intro s
    by_cases hd : drop s o = true
    · rw [keepG_cons_drop step drop s o rest hd]; exact ih s
    · rw [keepG_cons_keep step drop s o rest hd]
      unfold noneDropped
      rw [ih (step s o)]
      simp [hd]

theorem keepG_of_noneDropped (step : σ → ω → σ) (drop : σ → ω → Bool) :
    ∀ (ops : List ω) (s : σ), noneDropped step drop s ops = true → keepG step drop s ops = ops := by
  intro ops
  induction ops with
  | nil => intro s _; rfl
  | cons o rest ih =>
    intro s hn
    unfold noneDropped at hn
    rw [Bool.and_eq_true] at hn
    have hd : ¬ drop s o = true := by
      intro hc; rw [hc] at hn; simp at hn
    rw [keepG_cons_keep step drop s o rest hd, ih (step s o) hn.2]

theorem keepG_idem (step : σ → ω → σ) (drop : σ → ω → Bool) (ops : List ω) (s : σ) :
    keepG step drop s (keepG step drop s ops) = keepG step drop s ops :=
  keepG_of_noneDropped step drop _ s (keepG_noneDropped step drop ops s)

/-- `ops'` is `ops` with operations inserted, each of which `drop` selects in the state in which it is reached -/
inductive InsertedG (step : σ → ω → σ) (drop : σ → ω → Bool) : σ → List ω → List ω → Prop
  | nil (s : σ) : InsertedG step drop s [] []
  | keep (s : σ) (o : ω) (rest rest' : List ω) :
      InsertedG step drop (step s o) rest rest' → InsertedG step drop s (o :: rest) (o :: rest')
  | ins (s : σ) (f : ω) (rest rest' : List ω) :
      drop s f = true → InsertedG step drop s rest rest' → InsertedG step drop s rest (f :: rest')

/-- **operations that change nothing can be inserted anywhere** -/
theorem foldl_insertedG (step : σ → ω → σ) (drop : σ → ω → Bool) (h : ∀ s o, drop s o = true → step s o = s)
    (s : σ) (ops ops' : List ω) (hi : InsertedG step drop s ops ops') : ops'.foldl step s = ops.foldl step s := by
  induction hi with
  | nil s => rfl
  | keep s o rest rest' _ ih => rw [List.foldl_cons, List.foldl_cons]; exact ih
  | ins s f rest rest' hd _ ih => rw [List.foldl_cons, h s f hd]; exact ih

theorem insertedG_refl (step : σ → ω → σ) (drop : σ → ω → Bool) :
    ∀ (ops : List ω) (s : σ), InsertedG step drop s ops ops := by
  intro ops
  induction ops with
  | nil => intro s; exact .nil s
  | cons o rest ih => intro s; exact .keep s o rest rest (ih _)

/-- a list is its kept part with the dropped operations inserted -/
theorem insertedG_keepG (step : σ → ω → σ) (drop : σ → ω → Bool) :
    ∀ (ops : List ω) (s : σ), InsertedG step drop s (keepG step drop s ops) ops := by
  intro ops
  induction ops with
  | nil => intro s; exact .nil s
  | cons o rest ih =>
    intro s
    by_cases hd : drop s o = true
    · rw [keepG_cons_drop step drop s o rest hd]; exact .ins s o _ rest hd (ih s)
    · rw [keepG_cons_keep step drop s o rest hd]; exact .keep s o _ rest (ih _)

/-- … and the kept part is the only list without dropped operations of which it is such an extension -/
theorem keepG_of_insertedG (step : σ → ω → σ) (drop : σ → ω → Bool)
    (s : σ) (ops ops' : List ω) (hi : InsertedG step drop s ops ops') (hn : noneDropped step drop s ops = true) :
    keepG step drop s ops' = ops := by
  induction hi with
  | nil s => rfl
  | keep s o rest rest' _ ih =>
    unfold noneDropped at hn
    rw [Bool.and_eq_true] at hn
    have hd : ¬ drop s o = true := by
      intro hc; rw [hc] at hn; simp at hn
    rw [keepG_cons_keep step drop s o rest' hd, ih hn.2]
  | ins s f rest rest' hd _ ih =>
    rw [keepG_cons_drop step drop s f rest' hd]; exact ih hn

/-- a block of operations all of which change nothing in the state they are run in -/
theorem foldl_all_dropped (step : σ → ω → σ) (drop : σ → ω → Bool) (h : ∀ s o, drop s o = true → step s o = s)
    (F : List ω) (x : σ) (hF : ∀ f ∈ F, drop x f = true) : F.foldl step x = x := by
  induction F with
  | nil => rfl
  | cons f rest ih =>
    rw [List.foldl_cons, h x f (hF f List.mem_cons_self)]
    exact ih (fun g hg => hF g (List.mem_cons_of_mem _ hg))

/-- **a block of such operations inserted at any position of a history** -/
theorem foldl_insert_block (step : σ → ω → σ) (drop : σ → ω → Bool) (h : ∀ s o, drop s o = true → step s o = s)
    (A F B : List ω) (s : σ) (hF : ∀ f ∈ F, drop (A.foldl step s) f = true) :
    (A ++ F ++ B).foldl step s = (A ++ B).foldl step s := by
  rw [List.foldl_append, List.foldl_append, List.foldl_append, foldl_all_dropped step drop h F _ hF]

end Generic

-- ------------------------------------------------------------------ 2. the loops of `walk` when they fail

/-- the undo loop of `walk` over a list of blocks, without the refusal test -/
def undoRun (e : Env) (prune : Bool) (u : List Nat) (x : St) : St :=
  u.foldl (fun st bi => undoBlock e st (e.block bi) prune) x

theorem undoRun_nil (e : Env) (prune : Bool) (x : St) : undoRun e prune [] x = x := rfl

theorem undoRun_cons (e : Env) (prune : Bool) (bi : Nat) (rest : List Nat) (x : St) :
    undoRun e prune (bi :: rest) x = undoRun e prune rest (undoBlock e x (e.block bi) prune) := rfl

/-- a completed undo loop is the plain fold -/
theorem undoAll_ok_eq (e : Env) (prune : Bool) (l : List Nat) : ∀ st, (walk.undoAll e prune l st).2 = true →
    walk.undoAll e prune l st = (undoRun e prune l st, true) := by
  induction l with
  | nil => intro st _; rfl
  | cons bi rest ih =>
    intro st h
    rw [XV.Crash.undoAll_cons] at h ⊢
    by_cases hc : (!prune && decide (((e.block bi).height : Int) ≤ st.irrev)) = true
    · rw [if_pos hc] at h; cases h
    · rw [if_neg hc] at h ⊢
      rw [undoRun_cons]
      exact ih _ h

/-- **a refused undo loop**: the list is the completed prefix `u`, the refused block `b` and the rest; the loop over `u`
completed; `b` lies at or below the irreversible height of the state after `u` (and the walk is not pruning); what the
loop returns is the state after `u` — nothing of `b` -/
theorem undoAll_fail_split (e : Env) (prune : Bool) (l : List Nat) : ∀ st, (walk.undoAll e prune l st).2 = false →
    ∃ u b r, l = u ++ b :: r ∧ walk.undoAll e prune u st = (undoRun e prune u st, true) ∧
      prune = false ∧ ((e.block b).height : Int) ≤ (undoRun e prune u st).irrev ∧
      walk.undoAll e prune l st = (undoRun e prune u st, false) := by
  induction l with
  | nil => intro st h; cases h
  | cons bi rest ih =>
    intro st h
    rw [XV.Crash.undoAll_cons] at h ⊢
    by_cases hc : (!prune && decide (((e.block bi).height : Int) ≤ st.irrev)) = true
    · rw [if_pos hc]
      simp only [Bool.and_eq_true, Bool.not_eq_eq_eq_not, Bool.not_true, decide_eq_true_eq] at hc
      exact ⟨[], bi, rest, rfl, rfl, hc.1, hc.2, rfl⟩
    · rw [if_neg hc] at h ⊢
      obtain ⟨u, b, r, h1, h2, h3, h4, h5⟩ := ih _ h
      refine ⟨bi :: u, b, r, by rw [h1]; rfl, ?_, h3, h4, ?_⟩
      · rw [XV.Crash.undoAll_cons, if_neg hc, undoRun_cons]; exact h2
      · rw [undoRun_cons]; exact h5

/-- a completed apply loop is the replay of the list -/
theorem todoAll_ok_eq (e : Env) (lh : Int) (l : List Nat) (st : St) (h : (walk.todoAll e lh l st).2 = true) :
    walk.todoAll e lh l st = (replayChain e l st, true) := by
  have := todoAll_eq e lh l st h
  rw [← this, ← h]

/-- **a failing apply loop**: the list is the completed prefix `t`, the block `b` that cannot be applied and the rest; the
loop over `t` completed and is the replay of `t`; `todoBlock` returns nothing for `b` on that state; what the loop returns
is the state after `t` — nothing of `b` -/
theorem todoAll_fail_split (e : Env) (lh : Int) (l : List Nat) : ∀ st, (walk.todoAll e lh l st).2 = false →
    ∃ t b r, l = t ++ b :: r ∧ walk.todoAll e lh t st = (replayChain e t st, true) ∧
      todoBlock e (replayChain e t st) lh (e.block b) = none ∧
      walk.todoAll e lh l st = (replayChain e t st, false) := by
  induction l with
  | nil => intro st h; cases h
  | cons bi rest ih =>
    intro st h
    rw [XV.Crash.todoAll_cons] at h ⊢
    cases hx : todoBlock e st lh (e.block bi) with
    | none => exact ⟨[], bi, rest, rfl, rfl, hx, rfl⟩
    | some st' =>
      rw [hx] at h
      simp only at h ⊢
      obtain ⟨t, b, r, h1, h2, h3, h4⟩ := ih _ h
      have hst' : st' = replayBlock e st (e.block bi) := (todoBlock_eq e st st' lh _ hx).1
      refine ⟨bi :: t, b, r, by rw [h1]; rfl, ?_, ?_, ?_⟩
      · rw [XV.Crash.todoAll_cons, hx, replayChain_cons, ← hst']; exact h2
      · rw [replayChain_cons, ← hst']; exact h3
      · rw [replayChain_cons, ← hst']; exact h4

theorem undoRun_pool (e : Env) (prune : Bool) (u : List Nat) : ∀ x, (undoRun e prune u x).pool = x.pool := by
  induction u with
  | nil => intro x; rfl
  | cons bi rest ih =>
    intro x
    rw [undoRun_cons, ih, undoBlock_eq]
    exact (undoTxs_frame e _ x).2.2

/-- the block the node stands on after undoing `u` and then applying `t`, started at `start` -/
def stepsPointer (e : Env) (start : Nat) (u t : List Nat) : Nat :=
  match t.getLast? with
  | some b => (e.block b).id
  | none =>
    match u.getLast? with
    | some b => (e.block b).pre.getD 0
    | none => start

-- ------------------------------------------------------------------ 3. C01 histories cut at a position

open XV.C01 in
theorem hrun_append (e : Env) (s : St) (A B : List HOp) : hrun e s (A ++ B) = hrun e (hrun e s A) B := by
  unfold hrun; rw [List.foldl_append]

open XV.C01 in
theorem hrun_take_succ (e : Env) (s : St) (ops : List HOp) (k : Nat) (op : HOp) (h : ops[k]? = some op) :
    hrun e s (ops.take (k + 1)) = hstep e (hrun e s (ops.take k)) op := by
  rw [List.take_add_one, h, hrun_append]
  rfl

open XV.C01 in
/-- the hypotheses of a history hold for each of its prefixes, and for the operation that follows the prefix -/
theorem histOK_take (e : Env) (g : St) : ∀ (ops : List HOp) (s : St) (k : Nat), HistOK e g s ops →
    HistOK e g s (ops.take k) ∧ ∀ op, ops[k]? = some op → OpOK e g (hrun e s (ops.take k)) op := by
  intro ops
  induction ops with
  | nil => intro s k _; exact ⟨by simp [HistOK], fun op h => by simp at h⟩
  | cons o rest ih =>
    intro s k hh
    obtain ⟨h1, h2⟩ := hh
    cases k with
    | zero =>
      refine ⟨trivial, fun op h => ?_⟩
      simp only [List.getElem?_cons_zero, Option.some.injEq] at h
      subst h
      exact h1
    | succ k =>
      obtain ⟨a, b⟩ := ih (hstep e s o) k h2
      refine ⟨⟨h1, a⟩, fun op h => ?_⟩
      rw [List.getElem?_cons_succ] at h
      exact b op h

end XV.C05
