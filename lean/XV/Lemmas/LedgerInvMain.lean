import XV.Lemmas.LedgerInvSwitch
import XV.Lemmas.LedgerInvUndo
import XV.Lemmas.LedgerInvTruncInv
import XV.Lemmas.LedgerInvHist
/-!
Ledger main-chain invariant, part 10: user-facing forms (hypotheses and conclusions phrased with the model's own
`pathOf`, which is computable, instead of the ancestor relation).
-/
namespace XV.Ledger
open XV.Chain (lookup put del lookup_put lookup_del lookup_put_same lookup_cons lookup_nil)

/-- all transactions of the blocks on the branch ending in `b` -/
def branchTxs (l : L) (b : Nat) : List Nat :=
  (pathOf l b).flatMap (fun a => ((lookup l.B a).map (·.txs)).getD [])

theorem mem_branchTxs {l : L} (T : TreeInv l) {b a t : Nat} {hb ha : Hdr} (sb : lookup l.B b = some hb)
    (hab : Anc l a b) (sa : lookup l.B a = some ha) (ht : t ∈ ha.txs) : t ∈ branchTxs l b := by
  unfold branchTxs
  rw [List.mem_flatMap]
  exact ⟨a, (T.mem_pathOf_iff sb).2 hab, by simp [sa, ht]⟩

namespace LedgerInv
variable {l : L}

/-- the main chain as the model computes it -/
theorem onPath_iff (I : LedgerInv l) (b : Nat) : OnPath l b ↔ b ∈ pathOf l l.tip := by
  obtain ⟨h, hs, _⟩ := I.tip
  exact (I.tree.mem_pathOf_iff hs).symm

/-- (b) the computed path from the tip ends in the root and has `trunkHeight + 1` blocks -/
theorem pathOf_tip (I : LedgerInv l) :
    l.root ∈ pathOf l l.tip ∧ (pathOf l l.tip).length = l.trunkHeight + 1 := by
  obtain ⟨h, hs, e⟩ := I.tip
  exact ⟨(I.onPath_iff _).1 I.root_on_path, by rw [I.tree.pathOf_length hs, e]⟩

end LedgerInv

/-- `confirm` preserves the invariant; hypotheses in computable form -/
theorem confirm_ledgerInv_dec {l : L} (I : LedgerInv l) (id pre : Nat) (txs : List (Nat × Bool))
    (hfresh : ∀ t, t ∈ txs.map (·.1) → t ∉ branchTxs l pre)
    (hidC : ∀ p, p ∈ l.C → p.2 = id → p.1 ∈ txs.map (·.1)) : LedgerInv (confirm l id pre txs).1 := by
  cases hp : lookup l.B pre with
  | none =>
    rcases confirm_cases l id pre txs with e | ⟨pb, _, hp', _⟩
    · rw [e]; exact I
    · rw [hp] at hp'; cases hp'
  | some pb =>
    refine confirm_ledgerInv I id pre txs ?_ ?_
    · intro a ha hab sa t ht hta
      exact hfresh t ht (mem_branchTxs I.tree hp hab sa hta)
    · intro t ht
      exact hidC (t, id) (lookup_mem _ _ _ ht) rfl

/-- `confirm` preserves invariant + `CStored`; only the no-repeat hypothesis is needed -/
theorem confirm_ledgerInv_cstored_dec {l : L} (I : LedgerInv l) (CS : CStored l) (id pre : Nat) (txs : List (Nat × Bool))
    (hfresh : ∀ t, t ∈ txs.map (·.1) → t ∉ branchTxs l pre) :
    LedgerInv (confirm l id pre txs).1 ∧ CStored (confirm l id pre txs).1 := by
  cases hp : lookup l.B pre with
  | none =>
    rcases confirm_cases l id pre txs with e | ⟨pb, _, hp', _⟩
    · rw [e]; exact ⟨I, CS⟩
    · rw [hp] at hp'; cases hp'
  | some pb =>
    refine confirm_ledgerInv_cstored I CS id pre txs ?_
    intro a ha hab sa t ht hta
    exact hfresh t ht (mem_branchTxs I.tree hp hab sa hta)

theorem confirm_fail_fst (l : L) (id pre : Nat) (txs : List (Nat × Bool)) (h : (confirm l id pre txs).2 = .fail) :
    (confirm l id pre txs).1 = l := by
  rcases confirm_cases' l id pre txs with e | ⟨pb, _, _, h'⟩
  · rw [e]
  · rcases h' with ⟨_, _, _, e⟩ | ⟨_, _, _, _, _, _, _, e⟩ | ⟨_, _, _, _, e⟩ <;> rw [e] at h <;> cases h

/-- every operation of the history attaches a block that repeats no transaction of its own branch -/
def OpsOk : L → List (Nat × Nat × List (Nat × Bool)) → Prop
  | _, [] => True
  | l, op :: rest =>
    (∀ t, t ∈ op.2.2.map (·.1) → t ∉ branchTxs l op.2.1) ∧ OpsOk (confirm l op.1 op.2.1 op.2.2).1 rest

instance OpsOk.dec : (l : L) → (ops : List (Nat × Nat × List (Nat × Bool))) → Decidable (OpsOk l ops)
  | _, [] => isTrue trivial
  | l, op :: rest =>
    have := OpsOk.dec (confirm l op.1 op.2.1 op.2.2).1 rest
    inferInstanceAs (Decidable ((∀ t, t ∈ op.2.2.map (·.1) → t ∉ branchTxs l op.2.1) ∧
      OpsOk (confirm l op.1 op.2.1 op.2.2).1 rest))

theorem runOps_fst (s : L × List Nat) (ops : List (Nat × Nat × List (Nat × Bool))) (I : LedgerInv s.1) (CS : CStored s.1)
    (ok : OpsOk s.1 ops) : LedgerInv (runOps s ops).1 ∧ CStored (runOps s ops).1 := by
  induction ops generalizing s with
  | nil => exact ⟨I, CS⟩
  | cons op rest ih =>
    unfold runOps
    obtain ⟨ok1, ok2⟩ := ok
    obtain ⟨I', CS'⟩ := confirm_ledgerInv_cstored_dec I CS op.1 op.2.1 op.2.2 ok1
    by_cases hf : (confirm s.1 op.1 op.2.1 op.2.2).2 = .fail
    · rw [if_pos hf]
      rw [confirm_fail_fst _ _ _ _ hf] at ok2
      exact ih s I CS ok2
    · rw [if_neg hf]
      exact ih _ I' CS' ok2

namespace LedgerInv
variable {l : L}

/-- (e) in closed form: the `next` link of a path block is the height-index entry one higher (none for the tip);
off-path blocks have none -/
theorem next_eq (I : LedgerInv l) {b : Nat} {h : Hdr} (hb : lookup l.B b = some h) :
    (OnPath l b → h.next = lookup l.ZH (h.height + 1)) ∧ (¬ OnPath l b → h.next = none) := by
  refine ⟨fun hp => ?_, fun hp => I.next_none b h hb (Or.inr hp)⟩
  by_cases ht : b = l.tip
  · rw [I.next_none b h hb (Or.inl ht)]
    obtain ⟨th, hts, e⟩ := I.tip
    rw [← ht, hb] at hts; cases hts
    exact (I.zh_none_above (by omega)).symm
  · obtain ⟨c, hc1, hc2⟩ := anc_child hp ht
    rw [I.next_path b h c hb hc1 hc2]
    obtain ⟨cb, _, sc, _, sb', hh⟩ := I.tree.par_stored hc2
    rw [hb] at sb'; cases sb'
    have := I.zh_complete c cb sc hc1
    rw [hh] at this
    exact this.symm

end LedgerInv

/-- item (h) in its strongest form: every transaction of a stored block is mapped by the confirmed table to a stored
block that contains it -/
def HFull (l : L) : Prop :=
  ∀ b h t, lookup l.B b = some h → t ∈ h.txs → ∃ c ch, lookup l.C t = some c ∧ lookup l.B c = some ch ∧ t ∈ ch.txs

theorem hfull_of_cstored {l : L} (I : LedgerInv l) (CS : CStored l) : HFull l := by
  intro b h t hb ht
  obtain ⟨c, hc⟩ := I.c_total b h t hb ht
  obtain ⟨ch, sc⟩ := CS t c hc
  exact ⟨c, ch, hc, sc, I.c_sound t c ch hc sc⟩

end XV.Ledger
