import XV.Lemmas.LedgerInvFork
import XV.Lemmas.LedgerInvSide
/-!
Ledger main-chain invariant, part 7: the new block becomes the tip (trunk extension and trunk switch, which is the
same computation with lowest common ancestor = old tip).
-/
namespace XV.Ledger
open XV.Chain (lookup put del lookup_put lookup_del lookup_put_same lookup_cons lookup_nil)

/-- position of a stored block relative to the fork, with the header `handleFork` leaves for it -/
theorem ForkSpec.cls {l l1 : L} {p q s : Nat} {nh : Option Nat} {sb : Hdr} {qh : Nat}
    (S : ForkSpec l l l1 p q nh s sb qh) {x : Nat} {xb : Hdr} (sx : lookup l.B x = some xb) :
    (Anc l x q ∧ Anc l s x ∧ ∃ nx, lookup l1.B x = some { xb with inTrunk := true, next := nx } ∧ (x = q → nx = nh) ∧
        (∀ c, par l c = some x → Anc l c q → nx = some c)) ∨
    (Anc l x p ∧ ¬ Anc l x q ∧ lookup l1.B x = some { xb with inTrunk := false, next := none }) ∨
    (¬ (Anc l x q ∧ Anc l s x) ∧ ¬ (Anc l x p ∧ ¬ Anc l x q) ∧ lookup l1.B x = some xb) := by
  by_cases h1 : Anc l x q ∧ Anc l s x
  · exact Or.inl ⟨h1.1, h1.2, S.Bq x xb sx h1.1 h1.2⟩
  · by_cases h2 : Anc l x p ∧ ¬ Anc l x q
    · exact Or.inr (Or.inl ⟨h2.1, h2.2, S.Bp x xb sx h2.1 h2.2⟩)
    · exact Or.inr (Or.inr ⟨h1, h2, by rw [S.Bo x h1 h2]; exact sx⟩)

theorem ForkSpec.skel {l l1 : L} (T : TreeInv l) {p q s : Nat} {nh : Option Nat} {sb : Hdr} {qh : Nat} {pb qb : Hdr}
    (sp : lookup l.B p = some pb) (sq : lookup l.B q = some qb)
    (S : ForkSpec l l l1 p q nh s sb qh) (x : Nat) : (lookup l1.B x).map skel = (lookup l.B x).map skel := by
  cases sx : lookup l.B x with
  | none =>
    have h1 : ¬ (Anc l x q ∧ Anc l s x) := by
      rintro ⟨h, _⟩
      obtain ⟨_, e⟩ := T.anc_stored h sq
      rw [sx] at e; cases e
    have h2 : ¬ (Anc l x p ∧ ¬ Anc l x q) := by
      rintro ⟨h, _⟩
      obtain ⟨_, e⟩ := T.anc_stored h sp
      rw [sx] at e; cases e
    rw [S.Bo x h1 h2, sx]
  | some xb =>
    rcases S.cls sx with ⟨_, _, nx, h, _⟩ | ⟨_, _, h⟩ | ⟨_, _, h⟩ <;> rw [h] <;> rfl

theorem switch_inv {l l1 l' : L} {id pre s : Nat} {pb sb : Hdr} {txids : List Nat} (I : LedgerInv l)
    (hid : lookup l.B id = none) (hp : lookup l.B pre = some pb) (hph : pb.height = l.trunkHeight)
    (S : ForkSpec l l l1 l.tip pre (some id) s sb pb.height)
    (hB : ∀ x, lookup l'.B x = if id = x then some ⟨some pre, pb.height + 1, true, none, txids⟩ else lookup l1.B x)
    (hZH : l'.ZH = put l1.ZH (pb.height + 1) id)
    (hZI : l'.ZI = put (del l.ZI pre) id (pb.height + 1))
    (hC : ∀ t, lookup l'.C t = if t ∈ txids then some id else lookup l1.C t)
    (hroot : l'.root = l.root) (htip : l'.tip = id) (hth : l'.trunkHeight = pb.height + 1)
    (hfresh : ∀ a ha, Anc l a pre → lookup l.B a = some ha → ∀ t, t ∈ txids → t ∉ ha.txs)
    (hidC : ∀ t, lookup l.C t = some id → t ∈ txids) : LedgerInv l' ∧ (CStored l → CStored l') := by
  have T := I.tree
  obtain ⟨tb, hts, hth0⟩ := I.tip
  have hnew : lookup l'.B id = some ⟨some pre, pb.height + 1, true, none, txids⟩ := by rw [hB, if_pos rfl]
  have hBo : ∀ x, x ≠ id → lookup l'.B x = lookup l1.B x := fun x hx => by rw [hB, if_neg (fun e => hx e.symm)]
  have sk := S.skel T hts hp
  have A : AddLeaf l l' id pre pb.height txids :=
    { fresh := hid, pre_stored := ⟨pb, hp, rfl⟩, root := hroot, new := ⟨_, hnew, rfl, rfl, rfl⟩,
      old := fun x hx => by rw [hBo x hx]; exact sk x }
  have ne_id : ∀ {x : Nat} {xb : Hdr}, lookup l.B x = some xb → x ≠ id := fun h => A.ne_of_stored h
  have onp : ∀ b, OnPath l' b ↔ b = id ∨ Anc l b pre := by
    intro b; unfold OnPath; rw [htip]; exact A.anc_new_iff T
  -- blocks on the new branch below the split block are common ancestors
  have below : ∀ {b : Nat} {bb : Hdr}, lookup l.B b = some bb → Anc l b pre → ¬ Anc l s b →
      Anc l b s ∧ bb.height < sb.height := by
    intro b bb sbb h1 h2
    by_cases hle : sb.height ≤ bb.height
    · exact absurd (T.anc_linear h1 S.s_q S.s_stored sbb hle) h2
    · exact ⟨T.anc_linear S.s_q h1 sbb S.s_stored (by omega), by omega⟩
  have common : ∀ {b : Nat}, Anc l b s → Anc l b l.tip ∧ Anc l b pre := fun h => ⟨h.trans S.s_p, h.trans S.s_q⟩
  have hs_le : sb.height ≤ pb.height := T.anc_height_le S.s_q S.s_stored hp
  -- the confirmed table after `handleFork`
  have l1C : ∀ t, (∃ x xb, lookup l.B x = some xb ∧ Anc l x pre ∧ ¬ Anc l x l.tip ∧ t ∈ xb.txs ∧ lookup l1.C t = some x) ∨
      ((∀ x xb, lookup l.B x = some xb → Anc l x pre → ¬ Anc l x l.tip → t ∉ xb.txs) ∧ lookup l1.C t = lookup l.C t) := by
    intro t
    by_cases hq : ∃ x xb, lookup l.B x = some xb ∧ Anc l x pre ∧ ¬ Anc l x l.tip ∧ t ∈ xb.txs
    · obtain ⟨x, xb, sx, h1, h2, ht⟩ := hq
      left
      refine ⟨x, xb, sx, h1, h2, ht, S.Cq t x xb sx h1 h2 ht ?_⟩
      intro y yb sy hy hne
      exact I.norepeat y x yb xb sy sx hy hne t ht
    · have hq' : ∀ x xb, lookup l.B x = some xb → Anc l x pre → ¬ Anc l x l.tip → t ∉ xb.txs :=
        fun x xb sx h1 h2 ht => hq ⟨x, xb, sx, h1, h2, ht⟩
      exact Or.inr ⟨hq', S.Co t hq'⟩
  refine ⟨?_, ?_⟩
  refine
    { tree := A.tree T, tip := ⟨_, by rw [htip]; exact hnew, by rw [hth]⟩, trunk := ?_,
      zh_sound := ?_, zh_complete := ?_, next_path := ?_, next_none := ?_, height_le := ?_,
      zi := A.zi T I.zi hZI, zi_nodup := ?_,
      c_sound := ?_, c_total := ?_, c_trunk := ?_, norepeat := A.norepeat T I.norepeat hfresh }
  · -- trunk
    intro b h hb
    rw [onp]
    by_cases e : b = id
    · subst e
      rw [hnew] at hb; cases hb
      simp
    · rw [hBo b e] at hb
      obtain ⟨xb, sx, _⟩ := A.bwd e (by rw [hBo b e]; exact hb)
      rcases S.cls sx with ⟨h1, _, nx, h, _⟩ | ⟨_, h2, h⟩ | ⟨h1, h2, h⟩
      · rw [hb] at h; cases h
        simp [h1]
      · rw [hb] at h; cases h
        simp [e, h2]
      · rw [hb] at h; cases h
        rw [I.trunk b h sx]
        unfold OnPath
        constructor
        · intro ht
          right
          by_cases hq : Anc l b pre
          · exact hq
          · exact absurd ⟨ht, hq⟩ h2
        · rintro (e' | hq)
          · exact absurd e' e
          · have : ¬ Anc l s b := fun hs => h1 ⟨hq, hs⟩
            exact (common (below sx hq this).1).1
  · -- zh_sound
    intro k b hz
    rw [hZH, lookup_put] at hz
    by_cases ek : pb.height + 1 = k
    · rw [if_pos ek] at hz; cases hz
      exact ⟨_, hnew, ek, (onp _).2 (Or.inl rfl)⟩
    · rw [if_neg ek] at hz
      by_cases hk : sb.height ≤ k ∧ k ≤ pb.height
      · obtain ⟨x, xb, x1, x2, x3⟩ := T.exists_anc_at hp hk.2
        have x4 : Anc l s x := T.anc_linear x1 S.s_q S.s_stored x2 (by omega)
        have := S.ZHq x xb x2 x1 x4
        rw [x3, hz] at this; cases this
        obtain ⟨h', f1, _, f3, _⟩ := A.fwd x2
        exact ⟨h', f1, by omega, (onp b).2 (Or.inr x1)⟩
      · rw [S.ZHo k (by omega)] at hz
        obtain ⟨h, hs, e, hpth⟩ := I.zh_sound k b hz
        have := I.height_le b h hs
        have hbs : Anc l b s := T.anc_linear S.s_p hpth hs S.s_stored (by omega)
        obtain ⟨h', f1, _, f3, _⟩ := A.fwd hs
        exact ⟨h', f1, by omega, (onp b).2 (Or.inr (common hbs).2)⟩
  · -- zh_complete
    intro b h hb hpth
    rw [hZH, lookup_put]
    rcases (onp b).1 hpth with e | hq
    · subst e
      rw [hnew] at hb; cases hb
      simp
    · obtain ⟨xb, sx⟩ := T.anc_stored hq hp
      have e := ne_id sx
      obtain ⟨h', f1, _, f3, _⟩ := A.fwd sx
      rw [hb] at f1; cases f1
      have := T.anc_height_le hq sx hp
      rw [if_neg (by omega), f3]
      by_cases hs : Anc l s b
      · exact S.ZHq b xb sx hq hs
      · obtain ⟨b1, b2⟩ := below sx hq hs
        rw [S.ZHo _ (Or.inl b2)]
        exact I.zh_complete b xb sx (common b1).1
  · -- next_path
    intro b h c hb hc hpar
    rcases (onp c).1 hc with e | hq
    · subst e
      rw [A.par_new] at hpar; cases hpar
      rw [hBo _ A.pre_ne] at hb
      obtain ⟨nx, n1, n2, _⟩ := S.Bq pre pb hp (Anc.refl _) S.s_q
      rw [hb] at n1; cases n1
      exact n2 rfl
    · obtain ⟨cb, sc⟩ := T.anc_stored hq hp
      rw [A.par_old (ne_id sc)] at hpar
      obtain ⟨_, xb, sc', _, sx, hh⟩ := T.par_stored hpar
      rw [sc] at sc'; cases sc'
      have hbq : Anc l b pre := (anc_of_par hpar).trans hq
      rw [hBo _ (ne_id sx)] at hb
      by_cases hs : Anc l s b
      · obtain ⟨nx, n1, _, n3⟩ := S.Bq b xb sx hbq hs
        rw [hb] at n1; cases n1
        exact n3 c hpar hq
      · obtain ⟨b1, b2⟩ := below sx hbq hs
        have h1 : ¬ (Anc l b pre ∧ Anc l s b) := fun h => hs h.2
        have h2 : ¬ (Anc l b l.tip ∧ ¬ Anc l b pre) := fun h => h.2 hbq
        rw [S.Bo b h1 h2, sx] at hb; cases hb
        have hcs : Anc l c s := T.anc_linear S.s_q hq sc S.s_stored (by omega)
        exact I.next_path b h c sx (common hcs).1 hpar
  · -- next_none
    intro b h hb hor
    by_cases e : b = id
    · subst e
      rw [hnew] at hb; cases hb; rfl
    · have hnq : ¬ Anc l b pre := by
        rcases hor with h | h
        · exact absurd (h.trans htip) e
        · exact fun hq => h ((onp b).2 (Or.inr hq))
      obtain ⟨xb, sx, _⟩ := A.bwd e hb
      rw [hBo b e] at hb
      by_cases ht : Anc l b l.tip
      · rw [S.Bp b xb sx ht hnq] at hb; cases hb; rfl
      · rw [S.Bo b (fun h => hnq h.1) (fun h => ht h.1), sx] at hb; cases hb
        exact I.next_none b h sx (Or.inr ht)
  · -- height_le
    intro b h hb
    rw [hth]
    by_cases e : b = id
    · subst e
      rw [hnew] at hb; cases hb; exact Nat.le_refl _
    · obtain ⟨xb, sx, _, f2, _⟩ := A.bwd e hb
      have := I.height_le b xb sx
      omega
  · -- zi_nodup
    rw [hZI]
    exact nodup_keys_put _ _ _ (nodup_keys_del _ _ I.zi_nodup)
  · -- c_sound
    intro t c ch hc hb
    rw [hC] at hc
    by_cases e : t ∈ txids
    · rw [if_pos e] at hc; cases hc
      rw [hnew] at hb; cases hb
      exact e
    · rw [if_neg e] at hc
      rcases l1C t with ⟨x, xb, sx, _, _, ht, hx⟩ | ⟨_, hx⟩
      · rw [hx] at hc; cases hc
        obtain ⟨h', f1, _, _, f4⟩ := A.fwd sx
        rw [hb] at f1; cases f1
        rw [f4]; exact ht
      · rw [hx] at hc
        by_cases e2 : c = id
        · subst e2
          exact absurd (hidC t hc) e
        · obtain ⟨xb, sx, _, _, f4⟩ := A.bwd e2 hb
          rw [f4]
          exact I.c_sound t c xb hc sx
  · -- c_total
    refine A.c_total I.c_total ?_ ?_
    · intro t c hc
      rw [hC]
      by_cases e : t ∈ txids
      · exact ⟨id, by rw [if_pos e]⟩
      · rw [if_neg e]
        rcases l1C t with ⟨x, _, _, _, _, _, hx⟩ | ⟨_, hx⟩
        · exact ⟨x, hx⟩
        · exact ⟨c, by rw [hx]; exact hc⟩
    · intro t ht
      exact ⟨id, by rw [hC, if_pos ht]⟩
  · -- c_trunk
    intro b h t hb hpth ht
    rw [hC]
    rcases (onp b).1 hpth with e | hq
    · subst e
      rw [hnew] at hb; cases hb
      rw [if_pos ht]
    · obtain ⟨xb, sx⟩ := T.anc_stored hq hp
      obtain ⟨h', f1, _, _, f4⟩ := A.fwd sx
      rw [hb] at f1; cases f1
      rw [f4] at ht
      rw [if_neg (fun htx => hfresh b xb hq sx t htx ht)]
      by_cases htp : Anc l b l.tip
      · rcases l1C t with ⟨x, yb, sy, y1, y2, yt, _⟩ | ⟨_, hx⟩
        · -- a new-branch block above the split holding `t` would repeat `t` on the branch
          exfalso
          by_cases hle : yb.height ≤ xb.height
          · exact y2 ((T.anc_linear hq y1 sy sx hle).trans htp)
          · have hbx : Anc l b x := T.anc_linear y1 hq sx sy (by omega)
            have hne : b ≠ x := by
              intro e; subst e
              rw [sx] at sy; cases sy; omega
            exact I.norepeat b x xb yb sx sy hbx hne t yt ht
        · rw [hx]
          exact I.c_trunk b xb t sx htp ht
      · exact S.Cq t b xb sx hq htp ht (fun y yb sy hy hne => I.norepeat y b yb xb sy sx hy hne t ht)
  · -- CStored
    intro CS t c hc
    rw [hC] at hc
    by_cases e : t ∈ txids
    · rw [if_pos e] at hc; cases hc
      exact ⟨_, hnew⟩
    · rw [if_neg e] at hc
      rcases l1C t with ⟨x, xb, sx, _, _, _, hx⟩ | ⟨_, hx⟩
      · rw [hx] at hc; cases hc
        obtain ⟨h', f1, _⟩ := A.fwd sx
        exact ⟨h', f1⟩
      · rw [hx] at hc
        obtain ⟨ch, sc⟩ := CS t c hc
        obtain ⟨h', f1, _⟩ := A.fwd sc
        exact ⟨h', f1⟩

/-- the outcomes of `confirm` that make the new block the tip preserve the invariant -/
theorem confirm_tip_inv {l l1 l4 : L} {id pre sh sh' : Nat} {pb : Hdr} {txs : List (Nat × Bool)} (I : LedgerInv l)
    (hid : lookup l.B id = none) (hp : lookup l.B pre = some pb) (hph : pb.height = l.trunkHeight)
    (hf : handleFork l (l.trunkHeight + 2) l.tip pre (some id) l = some (l1, sh))
    (hc : confirmTxs l id true sh' txs 0 (withNew l1 id pre (pb.height + 1) true (txs.map (·.1))) = some l4)
    (hfresh : ∀ a ha, Anc l a pre → lookup l.B a = some ha → ∀ t, t ∈ txs.map (·.1) → t ∉ ha.txs)
    (hidC : ∀ t, lookup l.C t = some id → t ∈ txs.map (·.1)) :
    LedgerInv { l4 with tip := id, trunkHeight := pb.height + 1 } ∧
    (CStored l → CStored { l4 with tip := id, trunkHeight := pb.height + 1 }) := by
  obtain ⟨tb, hts, hth0⟩ := I.tip
  obtain ⟨l1', s, sb, hrun, S⟩ := handleFork_spec I.tree (l.trunkHeight + 2) l.tip pre (some id) l tb pb hts hp
    (by omega) (by omega)
  rw [hrun] at hf
  simp only [Option.some.injEq, Prod.mk.injEq] at hf
  obtain ⟨e1, _⟩ := hf
  subst e1
  obtain ⟨fB, fZH, fZI, ftip, fth, froot⟩ := cTxs_frame _ _ _ _ _ _ _ _ hc
  obtain ⟨wZH, wZI, wC, wroot, wtip, wth⟩ := withNew_rest l1' id pre (pb.height + 1) true (txs.map (·.1))
  obtain ⟨rZI, rroot, _, _⟩ := S.rest
  refine switch_inv (l' := { l4 with tip := id, trunkHeight := pb.height + 1 }) I hid hp hph S ?_ ?_ ?_ ?_ ?_ rfl rfl
    hfresh hidC
  · intro x
    show lookup l4.B x = _
    rw [fB, withNew_B]
  · show l4.ZH = _
    rw [fZH, wZH]; rfl
  · show l4.ZI = _
    rw [fZI, wZI, rZI]
  · intro t
    show lookup l4.C t = _
    rw [cTxs_C _ _ _ _ _ _ _ _ hc t, wC]
    have : overw l true t = true := by simp [overw]
    simp [this]
  · show l4.root = _
    rw [froot, wroot, rroot]

/-- extending the trunk is the trunk switch whose split block is the old tip -/
theorem ext_as_fork {l : L} {id : Nat} {tb : Hdr} (I : LedgerInv l) (hts : lookup l.B l.tip = some tb) :
    handleFork l (l.trunkHeight + 2) l.tip l.tip (some id) l =
      some (saveBlock l l.tip { tb with next := some id }, tb.height) := by
  rw [handleFork_same l (l.trunkHeight + 1) l.tip (some id) l tb hts]
  have : tb.inTrunk = true := (I.trunk l.tip tb hts).2 (Anc.refl _)
  have e : ({ tb with inTrunk := true, next := some id } : Hdr) = { tb with next := some id } := by
    cases tb
    simp only at this
    subst this
    rfl
  rw [e]

/-- `confirm` preserves the main-chain invariant, and the property that every confirmed-table entry names a stored
block -/
theorem confirm_ledgerInv_both {l : L} (I : LedgerInv l) (id pre : Nat) (txs : List (Nat × Bool))
    (hfresh : ∀ a ha, Anc l a pre → lookup l.B a = some ha → ∀ t, t ∈ txs.map (·.1) → t ∉ ha.txs)
    (hidC : ∀ t, lookup l.C t = some id → t ∈ txs.map (·.1)) :
    LedgerInv (confirm l id pre txs).1 ∧ (CStored l → CStored (confirm l id pre txs).1) := by
  rcases confirm_cases l id pre txs with e | ⟨pb, hid, hp, h⟩
  · rw [e]; exact ⟨I, fun h => h⟩
  · rcases h with ⟨e, l4, hc, er⟩ | ⟨_, hgt, l1, sh, l4, hf, hc, er⟩ | ⟨_, hle, l4, hc, er⟩
    · rw [er]
      subst e
      obtain ⟨tb, hts, hth0⟩ := I.tip
      rw [hp] at hts; cases hts
      have := confirm_tip_inv I hid hp hth0 (ext_as_fork I hp) hc hfresh hidC
      rw [hth0] at this
      exact this
    · rw [er]
      have := I.height_le pre pb hp
      exact confirm_tip_inv I hid hp (by omega) hf hc hfresh hidC
    · rw [er]
      exact confirm_side_inv I hid hp hle hc hfresh hidC

/-- **`confirm` preserves the main-chain invariant**, for every input: `hfresh` = the new block repeats no
transaction of its own branch, `hidC` = confirmed-table entries already naming `id` (left over from a truncated
block with the same id) are transactions of the new block. -/
theorem confirm_ledgerInv {l : L} (I : LedgerInv l) (id pre : Nat) (txs : List (Nat × Bool))
    (hfresh : ∀ a ha, Anc l a pre → lookup l.B a = some ha → ∀ t, t ∈ txs.map (·.1) → t ∉ ha.txs)
    (hidC : ∀ t, lookup l.C t = some id → t ∈ txs.map (·.1)) : LedgerInv (confirm l id pre txs).1 :=
  (confirm_ledgerInv_both I id pre txs hfresh hidC).1

/-- along truncation-free histories (`CStored`) the hypothesis on left-over entries is not needed -/
theorem confirm_ledgerInv_cstored {l : L} (I : LedgerInv l) (CS : CStored l) (id pre : Nat) (txs : List (Nat × Bool))
    (hfresh : ∀ a ha, Anc l a pre → lookup l.B a = some ha → ∀ t, t ∈ txs.map (·.1) → t ∉ ha.txs) :
    LedgerInv (confirm l id pre txs).1 ∧ CStored (confirm l id pre txs).1 := by
  cases hid : lookup l.B id with
  | some x =>
    rcases confirm_cases l id pre txs with e | ⟨pb, hid', _⟩
    · rw [e]; exact ⟨I, CS⟩
    · rw [hid] at hid'; cases hid'
  | none =>
    have hidC : ∀ t, lookup l.C t = some id → t ∈ txs.map (·.1) := by
      intro t ht
      obtain ⟨ch, sc⟩ := CS t id ht
      rw [hid] at sc; cases sc
    obtain ⟨h1, h2⟩ := confirm_ledgerInv_both I id pre txs hfresh hidC
    exact ⟨h1, h2 CS⟩

end XV.Ledger
