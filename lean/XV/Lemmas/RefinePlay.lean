import XV.Lemmas.RefineEvict
import XV.Lemmas.InvLive
/-!
`play` (`PlayAndRepost`) with a non-empty pool, against a base state `R` (the canonical state of the parent block) on
which the pool is valid and on which the block can be replayed.

* `play_evict_form`: the evicted transactions (`playEvict`: the conflicting ones and the closure of their dependents) can
  be applied last, so that the eviction is the roll-back of a suffix of a valid pool;
* `play_absorb_form`: if the state after the eviction refines "`R` with the kept transactions applied", the state after
  an accepted `play` refines "the block replayed on `R`, then the surviving pool applied in order", and the surviving pool
  is valid there.

What is used of the acceptance: the shape of the computation (`play_ok_raw`), the admission of the new transactions at
their point on the node, and — through `conflicts` — that a surviving transaction that is not in the block read no key
version that the block overwrites.
-/
namespace XV.Chain

-- ------------------------------------------------------------------ the last write of a key inside the block

/-- index of the last write of `k` in the write list of `t`, as `conflicts` computes it -/
def lastWriteIdx (t : Tx) (k : String) : Option Nat :=
  t.kout.zipIdx.reverse.findSome? (fun (ko, off) => if ko.key == k then some off else none)

/-- `blockVer` of `conflicts`: the version of `k` after the block, if the block writes `k` -/
def blockVerOf (e : Env) (B : List Nat) (k : String) : Option Ver :=
  B.reverse.findSome? (fun b => (lastWriteIdx (e.tx b) k).map (fun off => (b, off)))

theorem lastWriteIdx_none (t : Tx) (k : String) (h : lastWriteIdx t k = none) : ∀ ko ∈ t.kout, ko.key ≠ k := by
  intro ko hko he
  unfold lastWriteIdx at h
  obtain ⟨i, hi⟩ := List.mem_iff_getElem?.mp hko
  have hm : (ko, i) ∈ t.kout.zipIdx := List.mem_zipIdx_iff_getElem?.mpr hi
  have := List.findSome?_eq_none_iff.mp h (ko, i) (List.mem_reverse.mpr hm)
  simp [he] at this

/-- the block's version of `k` is written by a transaction of the block after which no transaction of the block
writes `k` -/
theorem blockVerOf_some (e : Env) (B : List Nat) (k : String) (rv : Ver) (h : blockVerOf e B k = some rv) :
    ∃ pre post, B = pre ++ rv.1 :: post ∧ ∀ j ∈ post, ∀ ko ∈ (e.tx j).kout, ko.key ≠ k := by
  unfold blockVerOf at h
  obtain ⟨l1, a, l2, hsplit, hfa, hnone⟩ := List.findSome?_eq_some_iff.mp h
  have hB : B = l2.reverse ++ a :: l1.reverse := by
    have := List.reverse_eq_append_iff.mp hsplit
    rw [this]; simp
  have ha : rv.1 = a := by
    cases hl : lastWriteIdx (e.tx a) k with
    | none => rw [hl] at hfa; cases hfa
    | some off => rw [hl] at hfa; simp only [Option.map_some, Option.some.injEq] at hfa; rw [← hfa]
  refine ⟨l2.reverse, l1.reverse, by rw [ha]; exact hB, ?_⟩
  intro j hj
  have := hnone j (List.mem_reverse.mp hj)
  cases hl : lastWriteIdx (e.tx j) k with
  | none => exact lastWriteIdx_none _ _ hl
  | some off => rw [hl] at this; cases this

theorem blockVerOf_of_writer (e : Env) (B : List Nat) (k : String) (i : Nat) (hi : i ∈ B)
    (hw : ∃ ko ∈ (e.tx i).kout, ko.key = k) : ∃ rv, blockVerOf e B k = some rv := by
  cases h : blockVerOf e B k with
  | some rv => exact ⟨rv, rfl⟩
  | none =>
    exfalso
    unfold blockVerOf at h
    have := List.findSome?_eq_none_iff.mp h i (List.mem_reverse.mpr hi)
    cases hl : lastWriteIdx (e.tx i) k with
    | none =>
      obtain ⟨ko, hko, he⟩ := hw
      exact lastWriteIdx_none _ _ hl ko hko he
    | some off => rw [hl] at this; cases this

/-- a pending transaction without conflict: a key it read that the block writes was read at the block's final version,
or at a version whose writer is still pending and not in the block -/
theorem conflicts_false_kin (e : Env) (pool B : List Nat) (a : Nat) (h : conflicts e pool B a = false) :
    ∀ ki ∈ (e.tx a).kin, ∀ rv, blockVerOf e B ki.key = some rv →
      ki.ver = some rv ∨ ∃ v, ki.ver = some v ∧ v.1 ∈ pool ∧ v.1 ∉ B := by
  intro ki hki rv hrv
  have h' : ((e.tx a).ins.any (fun r => (B.flatMap (fun b => (e.tx b).ins.map (fun r => (r.tx, r.off)))).contains
        (r.tx, r.off)) ||
      (e.tx a).kin.any (fun ki => match blockVerOf e B ki.key with
        | some rv => ki.ver != some rv &&
            !(match ki.ver with | some v => pool.contains v.1 && !B.contains v.1 | none => false)
        | none => false) ||
      ((e.tx a).kout.zipIdx.any (fun (ko, off) => match blockVerOf e B ko.key with
        | some rv => (a, off) != rv && !(pool.contains rv.1)
        | none => false))) = false := h
  simp only [Bool.or_eq_false_iff, List.any_eq_false] at h'
  have := h'.1.2 ki hki
  rw [hrv] at this
  simp only [Bool.and_eq_true, bne_iff_ne, ne_eq, Bool.not_eq_true', not_and, Bool.not_eq_false] at this
  by_cases hv : ki.ver = some rv
  · exact Or.inl hv
  · right
    have h2 := this hv
    cases hkv : ki.ver with
    | none => rw [hkv] at h2; cases h2
    | some v =>
      rw [hkv] at h2
      simp only [Bool.and_eq_true, List.contains_eq_mem, decide_eq_true_eq, Bool.not_eq_true',
        decide_eq_false_iff_not] at h2
      exact ⟨v, rfl, h2.1, h2.2⟩

-- ------------------------------------------------------------------ the evicted set

theorem contains_true_of_mem (l : List Nat) (x : Nat) (h : x ∈ l) : l.contains x = true := by
  simp only [List.contains_eq_mem, decide_eq_true_eq]; exact h

theorem mem_of_contains_true (l : List Nat) (x : Nat) (h : l.contains x = true) : x ∈ l := by
  simp only [List.contains_eq_mem, decide_eq_true_eq] at h; exact h

theorem not_mem_of_contains_false (l : List Nat) (x : Nat) (h : l.contains x = false) : x ∉ l := by
  intro hm; rw [contains_true_of_mem l x hm] at h; cases h

theorem playEvict_sub (e : Env) (s : St) (b : Block) : ∀ x ∈ playEvict e s b, x ∈ s.pool := by
  apply closure_induct e s.pool (fun x => x ∈ s.pool)
  · intro x hx
    exact (List.mem_filter.mp (List.mem_filter.mp hx).1).1
  · intro c hc _ _ _; exact hc

/-- the evicted set is closed under dependents -/
theorem playEvict_closedB (e : Env) (s : St) (b : Block) :
    ∀ p ∈ s.pool, (playEvict e s b).contains p = true → ∀ c ∈ s.pool, c ≠ p → depB e c p = true →
      (playEvict e s b).contains c = true := by
  intro p hp hpe c hc hne hd
  have hpe' : p ∈ playEvict e s b := mem_of_contains_true _ _ hpe
  have : c ∈ playEvict e s b := closure_closed e s.pool s.pool.length _ (List.length_filter_le _ _) p hpe' c hc
    (dependsOn_of_depB e s.pool c p hne hp hd)
  exact contains_true_of_mem _ _ this

/-- a pending transaction that is neither in the block nor evicted has no conflict with the block -/
theorem playEvict_seed (e : Env) (s : St) (b : Block) (a : Nat) (ha : a ∈ s.pool) (hab : a ∉ b.txs)
    (hne : (playEvict e s b).contains a = false) : conflicts e s.pool b.txs a = false := by
  cases hc : conflicts e s.pool b.txs a with
  | false => rfl
  | true =>
    have : a ∈ playEvict e s b := by
      apply closure_mono
      apply List.mem_filter.mpr
      refine ⟨List.mem_filter.mpr ⟨ha, by simpa using hab⟩, hc⟩
    have : (playEvict e s b).contains a = true := contains_true_of_mem _ _ this
    rw [this] at hne; cases hne

theorem playUndone_eq (e : Env) (s : St) (b : Block) :
    playUndone e s b = rollback e (s.pool.filter (fun i => (playEvict e s b).contains i)) s := by
  unfold playUndone rollback
  rw [List.filter_reverse]

-- ------------------------------------------------------------------ pool side conditions along appends

theorem poolOK_append (e : Env) (l1 l2 : List Nat) (s : St) :
    PoolOK e (l1 ++ l2) s ↔ PoolOK e l1 s ∧ PoolOK e l2 (applyPool e l1 s) := by
  induction l1 generalizing s with
  | nil => simp [PoolOK, applyPool]
  | cons i rest ih =>
    simp only [List.cons_append, PoolOK, applyPool_cons]
    rw [ih]
    constructor
    · intro ⟨a, b, c, d, f, g⟩; exact ⟨⟨a, b, c, d, f⟩, g⟩
    · intro ⟨⟨a, b, c, d, f⟩, g⟩; exact ⟨a, b, c, d, f, g⟩

theorem PoolOK.wf {e : Env} {l : List Nat} {s : St} (h : PoolOK e l s) : ∀ i ∈ l, WF e i := by
  induction l generalizing s with
  | nil => intro i hi; cases hi
  | cons j rest ih =>
    intro i hi
    rcases List.mem_cons.mp hi with rfl | hi
    · exact h.2.1
    · exact ih h.2.2.2.2 i hi

/-- **the evicted transactions can be applied last**: the pool `P` (valid on `R`) is, row by row, the kept
transactions `K` followed by the evicted ones `Ev`, both in pool order, and both parts are valid where they stand -/
theorem play_evict_form (e : Env) (s : St) (b : Block) (R : St)
    (hP : PoolOK e s.pool R) (hndP : s.pool.Nodup)
    (hfreshU : ∀ i ∈ s.pool, ∀ o, lookup R.U (i, o) = none)
    (hfz : FrozenInv e R) (hsf : ∀ i ∈ s.pool, StaticFrozen e i) :
    TabEq (applyPool e s.pool R)
      (applyPool e (s.pool.filter (fun i => (playEvict e s b).contains i))
        (applyPool e (s.pool.filter (fun i => !(playEvict e s b).contains i)) R)) ∧
    PoolOK e (s.pool.filter (fun i => !(playEvict e s b).contains i)) R ∧
    PoolOK e (s.pool.filter (fun i => (playEvict e s b).contains i))
      (applyPool e (s.pool.filter (fun i => !(playEvict e s b).contains i)) R) := by
  have hwf := hP.wf
  obtain ⟨hv, hE⟩ := evict_reorder e s.pool R (fun i => (playEvict e s b).contains i) hndP hwf hfreshU hP.valid
    (playEvict_closedB e s b)
  have hperm : (s.pool.filter (fun i => !(playEvict e s b).contains i) ++
      s.pool.filter (fun i => (playEvict e s b).contains i)).Perm s.pool := by
    have h1 := List.filter_append_perm (fun i => !(playEvict e s b).contains i) s.pool
    have h2 : s.pool.filter (fun x => !(fun i => !(playEvict e s b).contains i) x) =
        s.pool.filter (fun i => (playEvict e s b).contains i) := by
      apply List.filter_congr; intro x _; simp
    rw [h2] at h1
    exact h1
  have hok := poolOK_of_valid e _ R hv (hperm.nodup_iff.mpr hndP)
    (fun i hi => hwf i (hperm.subset hi)) (fun i hi => hfreshU i (hperm.subset hi)) hfz
    (fun i hi => hsf i (hperm.subset hi))
  obtain ⟨k1, k2⟩ := (poolOK_append e _ _ R).mp hok
  refine ⟨?_, k1, k2⟩
  rw [prun_apps, prun_apps] at hE
  have : applyPool e (s.pool.filter (fun i => !(playEvict e s b).contains i) ++
      s.pool.filter (fun i => (playEvict e s b).contains i)) R =
      applyPool e (s.pool.filter (fun i => (playEvict e s b).contains i))
        (applyPool e (s.pool.filter (fun i => !(playEvict e s b).contains i)) R) := by
    unfold applyPool; rw [List.foldl_append]
  rw [this] at hE
  exact hE

-- ------------------------------------------------------------------ the block against the kept pool

/-- `i`, a transaction of the block that is admitted on the replay of the transactions `pre` before it, read no
version and spends no row that a transaction outside `pre` creates -/
theorem replay_point (e : Env) (prop : String) (B : List Nat) (R : St) (hB : pValid e (blockOps prop B) R)
    (pre post : List Nat) (i : Nat) (hs : B = pre ++ i :: post) :
    ∃ lh, admitTx (prun e (blockOps prop pre) R) lh (e.tx i) = .ok := by
  rw [hs, blockOps_append, blockOps_cons] at hB
  obtain ⟨_, h2⟩ := (pValid_append e _ _ R).mp hB
  exact ((pValid_cons e _ _ _).mp h2).1

/-- the version of a key on the replay of a prefix of the block: the base version, or written by the prefix -/
theorem replay_curVer (e : Env) (prop : String) (pre : List Nat) (R : St) (hid : ∀ j ∈ pre, (e.tx j).id = j)
    (key : String) :
    curVer (prun e (blockOps prop pre) R) key = curVer R key ∨
      ∃ w o, w ∈ pre ∧ curVer (prun e (blockOps prop pre) R) key = some (w, o) := by
  rcases prun_curVer e (blockOps prop pre) R key (fun op hop => hid _ (opId_blockOps _ _ op hop)) with h | ⟨w, o, hw, h⟩
  · exact Or.inl h
  · exact Or.inr ⟨w, o, app_mem_blockOps _ _ w hw, h⟩

/-- a kept pending transaction `a` does not spend an output of a transaction `i` of the block that it does not follow in
the pool: at its point in the pool `i` was not applied (fresh ids), or `i` is a pending transaction that was not kept -/
theorem absorb_cite (e : Env) (P K B : List Nat) (R : St)
    (hP : PoolOK e P R) (hndP : P.Nodup) (hKP : K.Sublist P)
    (hfreshU : ∀ i ∈ P ++ B, ∀ o, lookup R.U (i, o) = none)
    (hev : ∀ i ∈ P, i ∉ K → ∀ a ∈ K, a ≠ i → ∀ r ∈ (e.tx a).ins, r.tx ≠ i) :
    ∀ i ∈ B, ∀ a ∈ K, a ≠ i → (i ∈ K → [a, i].Sublist K) → ∀ r ∈ (e.tx a).ins, r.tx ≠ i := by
  intro i hiB a haK hai hord
  have haP : a ∈ P := hKP.subset haK
  have hwf := hP.wf
  intro r hr hri
  obtain ⟨p, q, hPs⟩ := List.append_of_mem haP
  have hv := hP.valid
  rw [hPs] at hv
  simp only [List.map_append, List.map_cons] at hv
  obtain ⟨_, hv2⟩ := (pValid_append e _ _ R).mp hv
  obtain ⟨⟨lh, hadm⟩, _⟩ := (pValid_cons e _ _ _).mp hv2
  obtain ⟨hcur, _⟩ := XV.C03.admit_sound _ lh _ hadm
  obtain ⟨u, hu, _⟩ := hcur r hr
  rw [hri] at hu
  have hidp : ∀ op ∈ p.map POp.app, (e.tx (opId op)).id = opId op := by
    intro op hop
    obtain ⟨j, hj, rfl⟩ := List.mem_map.mp hop
    exact (hwf j (by rw [hPs]; simp [hj])).id
  by_cases hip : i ∈ p
  · have hiP : i ∈ P := by rw [hPs]; simp [hip]
    by_cases hiK : i ∈ K
    · have h1 : [a, i].Sublist P := (hord hiK).trans hKP
      have h2 : [i, a].Sublist P := by
        rw [hPs]
        exact List.Sublist.append (List.singleton_sublist.mpr hip)
          (List.singleton_sublist.mpr List.mem_cons_self)
      exact nodup_pair_order P a i hndP h1 h2
    · exact hev i hiP hiK a haK hai r hr hri
  · have := prun_row_other e _ R i r.off u hidp
      (fun op hop h => by
        obtain ⟨j, hj, rfl⟩ := List.mem_map.mp hop
        simp only [opId] at h
        exact hip (h ▸ hj)) hu
    rw [hfreshU i (List.mem_append_right _ hiB) r.off] at this
    cases this

/-- **the hypothesis `H1` of `absorb`**, for a pool `P` valid on `R`, the kept part `K` of it (a sublist) and a block `B`
that can be replayed on `R`, all ids fresh in `R`. Two things are left to the caller, because they depend on how the
node chose `K` and `B`: a kept transaction outside the block has no read that the block makes stale (`hstale`), and a
kept transaction spends no output of a pending transaction that is not kept (`hev`). -/
theorem absorb_H1 (e : Env) (prop : String) (P K B : List Nat) (R : St)
    (hP : PoolOK e P R) (hndP : P.Nodup) (hKP : K.Sublist P)
    (hB : pValid e (blockOps prop B) R) (hwB : ∀ i ∈ B, WF e i) (hndB : B.Nodup)
    (hfreshU : ∀ i ∈ P ++ B, ∀ o, lookup R.U (i, o) = none)
    (hfreshV : ∀ i ∈ P ++ B, ∀ k o, curVer R k ≠ some (i, o))
    (hstale : ∀ pre i post, B = pre ++ i :: post → ∀ a ∈ K, a ∉ B → (i ∈ K → [a, i].Sublist K) →
      ∀ pk ∈ (e.tx a).kin, (∀ ko' ∈ (e.tx a).kout, ko'.key ≠ pk.key) → (∃ ko ∈ (e.tx i).kout, ko.key = pk.key) →
      curVer (prun e (blockOps prop pre) R) pk.key = pk.ver → False)
    (hev : ∀ i ∈ P, i ∉ K → ∀ a ∈ K, a ≠ i → ∀ r ∈ (e.tx a).ins, r.tx ≠ i) :
    ∀ i ∈ B, ∀ a ∈ K, a ≠ i → ¬ [a, i].Sublist B → (i ∈ K → [a, i].Sublist K) →
      depB e i a = false ∧ ∀ r ∈ (e.tx a).ins, r.tx ≠ i := by
  intro i hiB a haK hai hnb hord
  have haP : a ∈ P := hKP.subset haK
  have hwf := hP.wf
  obtain ⟨pre, post, hsplit⟩ := List.append_of_mem hiB
  have hapre : a ∉ pre := by
    intro hm
    apply hnb
    rw [hsplit]
    exact List.Sublist.append (List.singleton_sublist.mpr hm) (List.singleton_sublist.mpr List.mem_cons_self)
  have hpreB : ∀ j ∈ pre, j ∈ B := fun j hj => by rw [hsplit]; exact List.mem_append_left _ hj
  have hidpre : ∀ op ∈ blockOps prop pre, (e.tx (opId op)).id = opId op :=
    fun op hop => (hwB _ (hpreB _ (opId_blockOps _ _ op hop))).id
  obtain ⟨lhi, hadmi⟩ := replay_point e prop B R hB pre post i hsplit
  obtain ⟨hcuri, _, hreadi, _⟩ := XV.C03.admit_sound _ lhi _ hadmi
  -- the version of a key at the point of `i`: the base version, or written by a transaction of `pre`
  have hV0 := replay_curVer e prop pre R (fun j hj => (hwB j (hpreB j hj)).id)
  constructor
  · -- `i` does not depend on `a`
    cases hd : depB e i a with
    | false => rfl
    | true =>
      exfalso
      unfold depB at hd
      simp only [Bool.or_eq_true, List.any_eq_true, beq_iff_eq, Bool.and_eq_true, Bool.not_eq_true',
        List.any_eq_false] at hd
      rcases hd with (⟨r, hr, hra⟩ | ⟨ki, hki, hkv⟩) | ⟨pk, hpk, hnw, ck, hck, ⟨hkk, hvv⟩, ko, hko, hkok⟩
      · -- an input of `i` cites `a`
        obtain ⟨u, hu, _⟩ := hcuri r hr
        rw [hra] at hu
        have := prun_row_other e _ R a r.off u hidpre
          (fun op hop h => hapre (h ▸ opId_blockOps _ _ op hop)) hu
        rw [hfreshU a (List.mem_append_left _ haP) r.off] at this
        cases this
      · -- `i` read a version written by `a`
        cases hv : ki.ver with
        | none => rw [hv] at hkv; cases hkv
        | some v =>
          rw [hv] at hkv
          simp only [beq_iff_eq] at hkv
          have hcv := hreadi ki hki
          rw [hv] at hcv
          rcases hV0 ki.key with h | ⟨w, o, hw, h⟩
          · rw [h] at hcv
            exact hfreshV a (List.mem_append_left _ haP) ki.key v.2 (by rw [hcv, ← hkv])
          · rw [h] at hcv
            injection hcv with hcv
            rw [← hcv] at hkv
            exact hapre (hkv ▸ hw)
      · -- `a` only reads a key version that `i` overwrites
        have hnw' : ∀ ko' ∈ (e.tx a).kout, ko'.key ≠ pk.key := by
          intro ko' hko' he
          have := hnw ko' hko'
          simp [he] at this
        have hcv : curVer (prun e (blockOps prop pre) R) pk.key = pk.ver := by
          rw [← hkk, hreadi ck hck, hvv]
        have hwi : ∃ ko ∈ (e.tx i).kout, ko.key = pk.key := ⟨ko, hko, by rw [hkok, hkk]⟩
        by_cases haB : a ∈ B
        · -- `a` is a later member of the block: its read is stale on the replay
          have hapost : a ∈ post := by
            rw [hsplit] at haB
            rcases List.mem_append.mp haB with h | h
            · exact absurd h hapre
            · rcases List.mem_cons.mp h with h | h
              · exact absurd h hai
              · exact h
          obtain ⟨q, t, hpost⟩ := List.append_of_mem hapost
          have hsplit2 : B = (pre ++ i :: q) ++ a :: t := by rw [hsplit, hpost]; simp
          obtain ⟨lha, hadma⟩ := replay_point e prop B R hB _ t a hsplit2
          obtain ⟨_, _, hreada, _⟩ := XV.C03.admit_sound _ lha _ hadma
          have hcva := hreada pk hpk
          rw [blockOps_append, blockOps_cons, prun_append, prun_cons, prun_cons] at hcva
          obtain ⟨o1, ho1⟩ := applyTx_curVer_written (prun e (blockOps prop pre) R) (e.tx i) pk.key hwi
          have hidq : ∀ op ∈ blockOps prop q, (e.tx (opId op)).id = opId op := by
            intro op hop
            apply (hwB _ _).id
            rw [hsplit2]
            have := opId_blockOps _ _ op hop
            simp [this]
          have hafter : ∃ w o, (w = i ∨ w ∈ q) ∧ pk.ver = some (w, o) := by
            rcases prun_curVer e (blockOps prop q) _ pk.key hidq with h | ⟨w, o, hw, h⟩
            · rw [h] at hcva
              simp only [pstep] at hcva
              rw [payFee_curVer, ho1, (hwB i hiB).id] at hcva
              exact ⟨i, o1, Or.inl rfl, hcva.symm⟩
            · rw [h] at hcva
              exact ⟨w, o, Or.inr (app_mem_blockOps _ _ w hw), hcva.symm⟩
          obtain ⟨w, o, hw, hpv⟩ := hafter
          have hwB' : w ∈ B := by
            rw [hsplit2]
            rcases hw with rfl | h
            · simp
            · simp [h]
          rcases hV0 pk.key with h | ⟨w', o', hw', h⟩
          · rw [h, hpv] at hcv
            exact hfreshV w (List.mem_append_right _ hwB') pk.key o hcv
          · rw [h, hpv] at hcv
            injection hcv with hcv
            injection hcv with hw1 _
            rw [hsplit2] at hndB
            simp only [List.append_assoc, List.cons_append] at hndB
            have hd := (List.nodup_append.mp hndB).2.2 w' hw' w (by
              rcases hw with rfl | h
              · simp
              · simp [h])
            exact hd hw1
        · -- `a` stays pending
          exact hstale pre i post hsplit a haK haB hord pk hpk hnw' hwi hcv
  · exact absorb_cite e P K B R hP hndP hKP hfreshU hev i hiB a haK hai hord

/-- the hypothesis `H1` of `absorb` for an accepted `play`: staleness is excluded by `conflicts`, spending an evicted
transaction's output by the closure -/
theorem play_H1 (e : Env) (s : St) (b : Block) (R : St)
    (hP : PoolOK e s.pool R) (hndP : s.pool.Nodup)
    (hB : pValid e (blockOps b.prop b.txs) R) (hwB : ∀ i ∈ b.txs, WF e i) (hndB : b.txs.Nodup)
    (hfreshU : ∀ i ∈ s.pool ++ b.txs, ∀ o, lookup R.U (i, o) = none)
    (hfreshV : ∀ i ∈ s.pool ++ b.txs, ∀ k o, curVer R k ≠ some (i, o)) :
    ∀ i ∈ b.txs, ∀ a ∈ s.pool.filter (fun i => !(playEvict e s b).contains i), a ≠ i →
      ¬ [a, i].Sublist b.txs →
      (i ∈ s.pool.filter (fun i => !(playEvict e s b).contains i) →
        [a, i].Sublist (s.pool.filter (fun i => !(playEvict e s b).contains i))) →
      depB e i a = false ∧ ∀ r ∈ (e.tx a).ins, r.tx ≠ i := by
  apply absorb_H1 e b.prop s.pool _ b.txs R hP hndP List.filter_sublist hB hwB hndB hfreshU hfreshV
  · -- a surviving transaction outside the block would conflict with the block
    intro pre i post hsplit a haK haB _ pk hpk _ hwi hcv
    have haP : a ∈ s.pool := (List.mem_filter.mp haK).1
    have hak : (playEvict e s b).contains a = false := by simpa using (List.mem_filter.mp haK).2
    have hiB : i ∈ b.txs := by rw [hsplit]; simp
    have hpreB : ∀ j ∈ pre, j ∈ b.txs := fun j hj => by rw [hsplit]; exact List.mem_append_left _ hj
    have hV0 := replay_curVer e b.prop pre R (fun j hj => (hwB j (hpreB j hj)).id)
    have hcf := playEvict_seed e s b a haP haB hak
    obtain ⟨rv, hrv⟩ := blockVerOf_of_writer e b.txs pk.key i hiB hwi
    rcases conflicts_false_kin e s.pool b.txs a hcf pk hpk rv hrv with hpv | ⟨v, hpv, hvP, hvB⟩
    · obtain ⟨prew, postw, hw1, hw2⟩ := blockVerOf_some e b.txs pk.key rv hrv
      have hrvB : rv.1 ∈ b.txs := by rw [hw1]; simp
      rcases hV0 pk.key with h | ⟨w', o', hw', h⟩
      · rw [h, hpv] at hcv
        exact hfreshV rv.1 (List.mem_append_right _ hrvB) pk.key rv.2 hcv
      · rw [h, hpv] at hcv
        injection hcv with hcv
        have hw'rv : w' = rv.1 := by rw [← hcv]
        -- rv.1 stands before `i` (it is in `pre`), and `i` does not stand after rv.1
        have h1 : [rv.1, i].Sublist b.txs := by
          rw [hsplit, ← hw'rv]
          exact List.Sublist.append (List.singleton_sublist.mpr hw')
            (List.singleton_sublist.mpr List.mem_cons_self)
        have hipost : i ∉ postw := by
          intro hm
          obtain ⟨ko', hko', he'⟩ := hwi
          exact hw2 i hm ko' hko' he'
        have hirv : i ≠ rv.1 := by
          intro h2
          rw [← h2] at hw'rv
          rw [hsplit] at hndB
          exact (List.nodup_append.mp hndB).2.2 w' hw' i (by simp) hw'rv
        have hipre : i ∈ prew := by
          have hi2 := hiB
          rw [hw1] at hi2
          rcases List.mem_append.mp hi2 with h | h
          · exact h
          · rcases List.mem_cons.mp h with h | h
            · exact absurd h hirv
            · exact absurd h hipost
        have h2 : [i, rv.1].Sublist b.txs := by
          rw [hw1]
          exact List.Sublist.append (List.singleton_sublist.mpr hipre)
            (List.singleton_sublist.mpr List.mem_cons_self)
        exact nodup_pair_order b.txs rv.1 i hndB h1 h2
    · rcases hV0 pk.key with h | ⟨w', o', hw', h⟩
      · rw [h, hpv] at hcv
        exact hfreshV v.1 (List.mem_append_left _ hvP) pk.key v.2 hcv
      · rw [h, hpv] at hcv
        injection hcv with hcv
        apply hvB
        rw [← hcv]
        exact hpreB w' hw'
  · -- a surviving transaction that spent an output of an evicted one would have been evicted with it
    intro i hiP hiK a haK hai r hr hri
    have haP : a ∈ s.pool := (List.mem_filter.mp haK).1
    have hak : (playEvict e s b).contains a = false := by simpa using (List.mem_filter.mp haK).2
    have hie : (playEvict e s b).contains i = true := by
      cases h : (playEvict e s b).contains i with
      | true => rfl
      | false => exact absurd (List.mem_filter.mpr ⟨hiP, by rw [h]; rfl⟩) hiK
    have hdep : depB e a i = true := by
      unfold depB
      simp only [Bool.or_eq_true, List.any_eq_true, beq_iff_eq]
      exact Or.inl (Or.inl ⟨r, hr, hri⟩)
    have := playEvict_closedB e s b i hiP hie a haP hai hdep
    rw [hak] at this; cases this

/-- the hypothesis `H2` of `absorb`: a pending transaction spends no fee row of a transaction of the block -/
theorem play_H2 (e : Env) (P B : List Nat) (R : St) (hP : PoolOK e P R) (hwB : ∀ i ∈ B, WF e i)
    (hfreshU : ∀ i ∈ B, ∀ o, lookup R.U (i, o) = none) :
    ∀ i ∈ B, ∀ a ∈ P, a ≠ i → ∀ r ∈ (e.tx a).ins, r.tx = i → feeSlot (e.tx i) r.off = false := by
  intro i hiB a haP _ r hr hri
  cases hf : feeSlot (e.tx i) r.off with
  | false => rfl
  | true =>
    exfalso
    have hwf := hP.wf
    obtain ⟨p, q, hPs⟩ := List.append_of_mem haP
    have hv := hP.valid
    rw [hPs] at hv
    simp only [List.map_append, List.map_cons] at hv
    obtain ⟨_, hv2⟩ := (pValid_append e _ _ R).mp hv
    obtain ⟨⟨lh, hadm⟩, _⟩ := (pValid_cons e _ _ _).mp hv2
    obtain ⟨hcur, _⟩ := XV.C03.admit_sound _ lh _ hadm
    obtain ⟨u, hu, _⟩ := hcur r hr
    rw [hri] at hu
    have := prun_row_fee e (p.map POp.app) R i r.off u
      (fun op hop => by
        obtain ⟨j, hj, rfl⟩ := List.mem_map.mp hop
        exact (hwf j (by rw [hPs]; simp [hj])).id)
      (fun pr hm => by
        obtain ⟨j, _, hj⟩ := List.mem_map.mp hm
        cases hj)
      (hwB i hiB).self hf hu
    rw [hfreshU i hiB r.off] at this
    cases this

/-- **an accepted `play` against the kept pool.** `K` / `P'`: the pending transactions that are not evicted / neither
evicted nor in the block. If the state after the eviction refines "`R`, then `K`", then the state after the accepted
`play` refines "the block replayed on `R`, then `P'`", `P'` is the new pool and satisfies the side conditions there. -/
theorem play_absorb_form (e : Env) (s : St) (lh : Int) (b : Block) (R : St)
    (hok : (play e s lh b).2 = .ok)
    (hP : PoolOK e s.pool R) (hndP : s.pool.Nodup)
    (hK : PoolOK e (s.pool.filter (fun i => !(playEvict e s b).contains i)) R)
    (hs1 : TRefines (playUndone e s b) (applyPool e (s.pool.filter (fun i => !(playEvict e s b).contains i)) R))
    (hB : pValid e (blockOps b.prop b.txs) R) (hwB : ∀ i ∈ b.txs, WF e i) (hndB : b.txs.Nodup)
    (hfreshU : ∀ i ∈ s.pool ++ b.txs, ∀ o, lookup R.U (i, o) = none)
    (hfreshV : ∀ i ∈ s.pool ++ b.txs, ∀ k o, curVer R k ≠ some (i, o))
    (hfz : FrozenInv e R) (hsf : ∀ i ∈ s.pool, StaticFrozen e i) :
    (play e s lh b).1.pool = (s.pool.filter (fun i => !(playEvict e s b).contains i)).filter
      (fun i => decide (i ∉ b.txs)) ∧
    TRefines (play e s lh b).1 (applyPool e (play e s lh b).1.pool (replayTxs e b.prop b.txs R)) ∧
    PoolOK e (play e s lh b).1.pool (replayTxs e b.prop b.txs R) := by
  obtain ⟨s2, happ, hshape⟩ := play_ok_raw e s lh b hok
  have hrun := applyBlockTxs_run e lh b.prop _ b.txs _ s2 happ
  obtain ⟨r1, r2⟩ := blockRun_refines e lh b.prop _ b.txs _ s2 _ hrun hs1
  -- the skipped transactions are the kept pending members of the block
  have hskip : skipOps b.prop (fun i => ((s.pool.filter (fun i => b.txs.contains i)).filter
        (fun i => !(playEvict e s b).contains i)).contains i) b.txs =
      skipOps b.prop (fun i => decide (i ∈ s.pool.filter (fun i => !(playEvict e s b).contains i))) b.txs := by
    apply skipOps_congr
    intro i hi
    by_cases h1 : i ∈ s.pool <;> by_cases h2 : (playEvict e s b).contains i = true <;>
      simp [List.mem_filter, h1, h2, hi]
  rw [hskip] at r1 r2
  have hwK := hK.wf
  have hndK : (s.pool.filter (fun i => !(playEvict e s b).contains i)).Nodup :=
    List.Nodup.sublist List.filter_sublist hndP
  have hvall : pValid e ((s.pool.filter (fun i => !(playEvict e s b).contains i)).map POp.app ++
      skipOps b.prop (fun i => decide (i ∈ s.pool.filter (fun i => !(playEvict e s b).contains i))) b.txs) R := by
    apply (pValid_append e _ _ R).mpr
    refine ⟨hK.valid, ?_⟩
    rw [prun_apps]
    exact r2
  obtain ⟨vfin, efin⟩ := absorb e b.prop b.txs _ R hndB hndK hwB hwK hvall
    (play_H1 e s b R hP hndP hB hwB hndB hfreshU hfreshV)
    (fun i hi a ha => play_H2 e s.pool b.txs R hP hwB
      (fun j hj => hfreshU j (List.mem_append_right _ hj)) i hi a (List.mem_filter.mp ha).1)
  rw [prun_append, prun_apps, prun_append, prun_blockOps, prun_apps] at efin
  have hpool : (play e s lh b).1.pool = (s.pool.filter (fun i => !(playEvict e s b).contains i)).filter
      (fun i => decide (i ∉ b.txs)) := by
    rw [hshape]
    simp only
    rw [List.filter_filter]
    apply List.filter_congr
    intro x _
    by_cases h1 : x ∈ b.txs <;> simp [h1]
  refine ⟨hpool, ?_, ?_⟩
  · rw [hpool]
    have h2 : TRefines s2 (applyPool e ((s.pool.filter (fun i => !(playEvict e s b).contains i)).filter
        (fun i => decide (i ∉ b.txs))) (replayTxs e b.prop b.txs R)) := r1.trans efin.trefines
    rw [hshape]
    exact h2.of_tables ⟨rfl, rfl, rfl, rfl⟩ ⟨rfl, rfl, rfl, rfl⟩
  · rw [hpool]
    obtain ⟨_, v2⟩ := (pValid_append e _ _ R).mp vfin
    rw [prun_blockOps] at v2
    have hmemP' : ∀ i, i ∈ (s.pool.filter (fun i => !(playEvict e s b).contains i)).filter
        (fun i => decide (i ∉ b.txs)) → i ∈ s.pool ∧ i ∉ b.txs := by
      intro i hi
      obtain ⟨h1, h2⟩ := List.mem_filter.mp hi
      exact ⟨(List.mem_filter.mp h1).1, by simpa using h2⟩
    apply poolOK_of_valid e _ _ v2 (List.Nodup.sublist List.filter_sublist hndK)
      (fun i hi => hP.wf i (hmemP' i hi).1)
    · intro i hi o
      rw [← prun_blockOps]
      apply prun_row_absent e _ R i o
      · intro op hop
        exact (hwB _ (opId_blockOps _ _ op hop)).id
      · intro op hop h
        exact (hmemP' i hi).2 (h ▸ opId_blockOps _ _ op hop)
      · exact hfreshU i (List.mem_append_left _ (hmemP' i hi).1) o
    · rw [← prun_blockOps]
      exact prun_FrozenInv e _ R (fun op hop => hwB _ (opId_blockOps _ _ op hop)) hfz
    · exact fun i hi => hsf i (hmemP' i hi).1

-- ------------------------------------------------------------------ the miner's own block

/-- shape of a successful `playForMiner` -/
theorem playForMiner_ok_raw (e : Env) (s : St) (lh : Int) (b : Block) (h : (playForMiner e s lh b).2 = .ok) :
    b.pre = some s.pointer ∧ ∃ s2, playForMiner.go e lh b b.txs s = some s2 ∧
      (playForMiner e s lh b).1 =
        { s2 with pointer := b.id, irrev := nextIrrev e.window s.irrev b.height,
                  pool := s.pool.filter (fun i => !b.txs.contains i) } := by
  unfold playForMiner at h ⊢
  by_cases h1 : b.pre ≠ some s.pointer
  · rw [if_pos h1] at h; cases h
  · rw [if_neg h1] at h ⊢
    refine ⟨by simpa using h1, ?_⟩
    cases hgo : playForMiner.go e lh b b.txs s with
    | none => rw [hgo] at h; cases h
    | some s2 => exact ⟨s2, rfl, rfl⟩

/-- **`playForMiner` against the pool.** The miner's block: its coinbase transactions are new and write no key, its other
transactions are pending, and every pending transaction left out stands in the pool after every pending member (the
members are a prefix of the pool). If the state refines "`R`, then the pool", the block can be replayed on `R` and all
ids are fresh in `R`, the state after `playForMiner` refines "the block replayed on `R`, then the remaining pool", and
the remaining pool is valid there. -/
theorem miner_absorb_form (e : Env) (s : St) (lh : Int) (b : Block) (R : St)
    (hok : (playForMiner e s lh b).2 = .ok)
    (hs : TRefines s (applyPool e s.pool R))
    (hP : PoolOK e s.pool R) (hndP : s.pool.Nodup)
    (hB : pValid e (blockOps b.prop b.txs) R) (hwB : ∀ i ∈ b.txs, WF e i) (hndB : b.txs.Nodup)
    (hfreshU : ∀ i ∈ s.pool ++ b.txs, ∀ o, lookup R.U (i, o) = none)
    (hfreshV : ∀ i ∈ s.pool ++ b.txs, ∀ k o, curVer R k ≠ some (i, o))
    (hfz : FrozenInv e R) (hsf : ∀ i ∈ s.pool, StaticFrozen e i)
    (hsub : ∀ i ∈ b.txs, (e.tx i).coinbase = false → i ∈ s.pool)
    (hcb : ∀ i ∈ b.txs, (e.tx i).coinbase = true → i ∉ s.pool ∧ (e.tx i).kout = [])
    (hprefix : ∀ a ∈ s.pool, a ∉ b.txs → ∀ i ∈ b.txs, i ∈ s.pool → [i, a].Sublist s.pool) :
    (playForMiner e s lh b).1.pool = s.pool.filter (fun i => decide (i ∉ b.txs)) ∧
    TRefines (playForMiner e s lh b).1
      (applyPool e (playForMiner e s lh b).1.pool (replayTxs e b.prop b.txs R)) ∧
    PoolOK e (playForMiner e s lh b).1.pool (replayTxs e b.prop b.txs R) := by
  obtain ⟨_, s2, hgo, hshape⟩ := playForMiner_ok_raw e s lh b hok
  have hrun := playForMiner_go_run e lh b b.txs s s2 hgo
  obtain ⟨r1, r2⟩ := blockRun_refines e lh b.prop _ b.txs s s2 _ hrun hs
  have hskip : skipOps b.prop (fun i => !(e.tx i).coinbase) b.txs =
      skipOps b.prop (fun i => decide (i ∈ s.pool)) b.txs := by
    apply skipOps_congr
    intro i hi
    cases hc : (e.tx i).coinbase with
    | false => simp [hsub i hi hc]
    | true => simp [(hcb i hi hc).1]
  rw [hskip] at r1 r2
  have hwP := hP.wf
  have hvall : pValid e (s.pool.map POp.app ++ skipOps b.prop (fun i => decide (i ∈ s.pool)) b.txs) R := by
    apply (pValid_append e _ _ R).mpr
    refine ⟨hP.valid, ?_⟩
    rw [prun_apps]
    exact r2
  obtain ⟨vfin, efin⟩ := absorb e b.prop b.txs s.pool R hndB hndP hwB hwP hvall
    (absorb_H1 e b.prop s.pool s.pool b.txs R hP hndP (List.Sublist.refl _) hB hwB hndB hfreshU hfreshV
      (by
        intro pre i post hsplit a haP haB hord pk _ _ hwi _
        have hiB : i ∈ b.txs := by rw [hsplit]; simp
        cases hc : (e.tx i).coinbase with
        | true =>
          obtain ⟨ko, hko, _⟩ := hwi
          rw [(hcb i hiB hc).2] at hko
          cases hko
        | false =>
          have hiP := hsub i hiB hc
          exact nodup_pair_order s.pool a i hndP (hord hiP) (hprefix a haP haB i hiB hiP))
      (fun i hiP hiK => absurd hiP hiK))
    (play_H2 e s.pool b.txs R hP hwB (fun j hj => hfreshU j (List.mem_append_right _ hj)))
  rw [prun_append, prun_apps, prun_append, prun_blockOps, prun_apps] at efin
  have hpool : (playForMiner e s lh b).1.pool = s.pool.filter (fun i => decide (i ∉ b.txs)) := by
    rw [hshape]
    simp only
    apply List.filter_congr
    intro x _
    by_cases h1 : x ∈ b.txs <;> simp [h1]
  refine ⟨hpool, ?_, ?_⟩
  · rw [hpool]
    have h2 : TRefines s2 (applyPool e (s.pool.filter (fun i => decide (i ∉ b.txs)))
        (replayTxs e b.prop b.txs R)) := r1.trans efin.trefines
    rw [hshape]
    exact h2.of_tables ⟨rfl, rfl, rfl, rfl⟩ ⟨rfl, rfl, rfl, rfl⟩
  · rw [hpool]
    obtain ⟨_, v2⟩ := (pValid_append e _ _ R).mp vfin
    rw [prun_blockOps] at v2
    have hmemP' : ∀ i, i ∈ s.pool.filter (fun i => decide (i ∉ b.txs)) → i ∈ s.pool ∧ i ∉ b.txs := by
      intro i hi
      obtain ⟨h1, h2⟩ := List.mem_filter.mp hi
      exact ⟨h1, by simpa using h2⟩
    apply poolOK_of_valid e _ _ v2 (List.Nodup.sublist List.filter_sublist hndP)
      (fun i hi => hP.wf i (hmemP' i hi).1)
    · intro i hi o
      rw [← prun_blockOps]
      apply prun_row_absent e _ R i o
      · intro op hop
        exact (hwB _ (opId_blockOps _ _ op hop)).id
      · intro op hop h
        exact (hmemP' i hi).2 (h ▸ opId_blockOps _ _ op hop)
      · exact hfreshU i (List.mem_append_left _ (hmemP' i hi).1) o
    · rw [← prun_blockOps]
      exact prun_FrozenInv e _ R (fun op hop => hwB _ (opId_blockOps _ _ op hop)) hfz
    · exact fun i hi => hsf i (hmemP' i hi).1

-- ------------------------------------------------------------------ glue for Props/C01

theorem skipOps_none (prop : String) (f : Nat → Bool) (l : List Nat) (h : ∀ i ∈ l, f i = false) :
    skipOps prop f l = blockOps prop l := by
  induction l with
  | nil => rfl
  | cons i rest ih =>
    rw [skipOps_cons, blockOps_cons, h i List.mem_cons_self, ih (fun j hj => h j (List.mem_cons_of_mem _ hj))]
    rfl

/-- a block that a fresh node applies (`todoBlock`'s loop succeeds) is a valid list of operations -/
theorem pValid_of_applyBlockTxs (e : Env) (lh : Int) (prop : String) (l : List Nat) (R s2 : St)
    (h : applyBlockTxs e lh prop [] l R = some (s2, .ok)) : pValid e (blockOps prop l) R := by
  have hrun := applyBlockTxs_run e lh prop [] l R s2 h
  have := (blockRun_refines e lh prop _ l R s2 R hrun (TRefines.refl R)).2
  rw [skipOps_none prop _ l (fun i _ => by simp)] at this
  exact this

theorem poolOK_tabEq (e : Env) (l : List Nat) (s s' : St) (h : TabEq s s') (hp : PoolOK e l s) : PoolOK e l s' := by
  induction l generalizing s s' with
  | nil => trivial
  | cons i rest ih =>
    obtain ⟨⟨lh, a⟩, b, c, d, f⟩ := hp
    refine ⟨⟨lh, by rw [← adm_tabEq s s' lh _ h]; exact a⟩, b, fun o => by rw [← h.U]; exact c o,
      fun r hr u hu => d r hr u (by rw [h.U]; exact hu), ih _ _ (applyTx_tabEq s s' _ h) f⟩

theorem applyPool_trefines (e : Env) (l : List Nat) (x r : St) (h : TRefines x r) :
    TRefines (applyPool e l x) (applyPool e l r) := by
  induction l generalizing x r with
  | nil => exact h
  | cons i rest ih => exact ih _ _ (applyTx_trefines x r (e.tx i) h)

theorem applyPool_tabEq (e : Env) (l : List Nat) (x r : St) (h : TabEq x r) :
    TabEq (applyPool e l x) (applyPool e l r) := by
  induction l generalizing x r with
  | nil => exact h
  | cons i rest ih => exact ih _ _ (applyTx_tabEq x r (e.tx i) h)

theorem applyPool_KVInv (e : Env) (l : List Nat) (s : St) (hid : ∀ i ∈ l, (e.tx i).id = i) (h : KVInv e s) :
    KVInv e (applyPool e l s) := by
  induction l generalizing s with
  | nil => exact h
  | cons i rest ih =>
    rw [applyPool_cons]
    apply ih _ (fun j hj => hid j (List.mem_cons_of_mem _ hj))
    exact applyTx_KVInv' e s (e.tx i) (by rw [hid i List.mem_cons_self]) h

/-- checkable form of "no key version of the state carries transaction id `i`" -/
theorem verFresh_of_rows (s : St) (i : Nat) (h1 : ∀ p ∈ s.ZU, p.2.1 ≠ i) (h2 : ∀ p ∈ s.ZD, p.2.1 ≠ i) :
    ∀ k o, curVer s k ≠ some (i, o) := by
  intro k o hc
  unfold curVer at hc
  cases hz : lookup s.ZU k with
  | some v =>
    rw [hz] at hc
    simp only [Option.some.injEq] at hc
    exact h1 _ (lookup_mem s.ZU k v hz) (by rw [hc])
  | none =>
    rw [hz] at hc
    simp only at hc
    exact h2 _ (lookup_mem s.ZD k (i, o) hc) rfl

/-- checkable form of `FrozenInv` -/
theorem frozenInv_of_rows (e : Env) (s : St) (h : ∀ p ∈ s.U, p.2.frozen = declFrozen e p.1.1 p.1.2) :
    FrozenInv e s := by
  intro a o u hu
  exact h _ (lookup_mem s.U (a, o) u hu)

instance (e : Env) (i : Nat) : Decidable (StaticFrozen e i) := by unfold StaticFrozen; exact inferInstance

end XV.Chain
