import XV.Lemmas.CrashHistory
/-!
Checkable (decidable) forms of the hypotheses of the crash theorems, with their soundness: `TRefines` from row-by-row
equality over the keys of both tables, `BlockValid` / `ChainValid` / `PoolValid` / `TreeValid` / `SInv` from finite
tests. Used to show on a concrete history that the hypotheses of the headline theorems can be met.
-/
namespace XV.Crash
open XV.Chain XV.C01 XV.C02

/-- same rows in two association lists: lookup by lookup over the keys of both -/
def rowsEq {κ ν : Type} [DecidableEq κ] [DecidableEq ν] (a b : List (κ × ν)) : Bool :=
  (a.map (·.1) ++ b.map (·.1)).all (fun k => lookup a k == lookup b k)

theorem lookup_none_of_not_key {κ ν : Type} [DecidableEq κ] (m : List (κ × ν)) (k : κ) (h : k ∉ m.map (·.1)) :
    lookup m k = none := by
  induction m with
  | nil => rfl
  | cons p r ih =>
    obtain ⟨a, v⟩ := p
    simp only [List.map_cons, List.mem_cons, not_or] at h
    unfold lookup
    rw [if_neg (fun e => h.1 e.symm)]
    exact ih h.2

theorem rowsEq_sound {κ ν : Type} [DecidableEq κ] [DecidableEq ν] (a b : List (κ × ν)) (h : rowsEq a b = true) :
    ∀ k, lookup a k = lookup b k := by
  intro k
  by_cases hk : k ∈ a.map (·.1) ++ b.map (·.1)
  · unfold rowsEq at h
    have := List.all_eq_true.mp h k hk
    simpa using this
  · rw [List.mem_append, not_or] at hk
    rw [lookup_none_of_not_key a k hk.1, lookup_none_of_not_key b k hk.2]

/-- table refinement from row-by-row equality of the three tables and equal totals -/
theorem trefines_of_rows (s r : St) (hU : rowsEq s.U r.U = true) (hZU : rowsEq s.ZU r.ZU = true)
    (hZD : rowsEq s.ZD r.ZD = true) (ht : s.total = r.total) : TRefines s r :=
  RowEq.trefines ⟨rowsEq_sound _ _ hU, rowsEq_sound _ _ hZU, rowsEq_sound _ _ hZD, ht⟩

/-- checkable `TxWF` -/
def TxWFC (e : Env) (i : Nat) : Prop :=
  (e.tx i).id = i ∧ (∀ r ∈ (e.tx i).ins, r.tx ≠ i) ∧ koutDistinct (e.tx i)

instance (e : Env) (i : Nat) : Decidable (TxWFC e i) := by unfold TxWFC; exact inferInstance

theorem TxWFC.sound {e : Env} {i : Nat} (h : TxWFC e i) : TxWF e i := ⟨h.1, h.2.1, h.2.2⟩

/-- checkable `BlockValid` (admission tried at ledger height 0) -/
def BlockValidC (e : Env) (r : St) (b : Block) : Prop :=
  (applyBlockTxs e 0 b.prop [] b.txs r).map (·.2) = some .ok ∧ (∀ i ∈ b.txs, TxWFC e i) ∧ b.txs.Nodup ∧
  (∀ i ∈ b.txs, ∀ p ∈ r.U, p.1.1 ≠ i) ∧ FrozenAlong e b.prop b.txs r

instance (e : Env) (r : St) (b : Block) : Decidable (BlockValidC e r b) := by unfold BlockValidC; exact inferInstance

theorem BlockValidC.sound {e : Env} {r : St} {b : Block} (h : BlockValidC e r b) : BlockValid e r b :=
  ⟨⟨0, fwd_of_res e 0 b.prop b.txs r h.1⟩, fun i hi => (h.2.1 i hi).sound, h.2.2.1,
    fun i hi => absent_of_rows r.U i (h.2.2.2.1 i hi), h.2.2.2.2⟩

/-- checkable `ChainValid` -/
def ChainValidC (e : Env) : List Nat → St → Prop
  | [], _ => True
  | bi :: rest, r => BlockValidC e r (e.block bi) ∧ ChainValidC e rest (replayBlock e r (e.block bi))

instance decChainValidC (e : Env) : (l : List Nat) → (r : St) → Decidable (ChainValidC e l r)
  | [], _ => isTrue trivial
  | bi :: rest, r =>
    have := decChainValidC e rest (replayBlock e r (e.block bi))
    by unfold ChainValidC; exact inferInstance

theorem ChainValidC.sound {e : Env} : ∀ {l : List Nat} {r : St}, ChainValidC e l r → ChainValid e l r
  | [], _, _ => trivial
  | _ :: _, _, h => ⟨h.1.sound, ChainValidC.sound h.2⟩

/-- checkable `PoolValid` (admission tried at ledger height 0) -/
def PoolValidC (e : Env) : List Nat → St → Prop
  | [], _ => True
  | i :: rest, s => admitTx s 0 (e.tx i) = .ok ∧ TxWFC e i ∧ (∀ p ∈ s.U, p.1.1 ≠ i) ∧ citesFrozen s (e.tx i) ∧
      PoolValidC e rest (applyTx s (e.tx i))

instance decPoolValidC (e : Env) : (l : List Nat) → (s : St) → Decidable (PoolValidC e l s)
  | [], _ => isTrue trivial
  | i :: rest, s =>
    have := decPoolValidC e rest (applyTx s (e.tx i))
    by unfold PoolValidC; exact inferInstance

theorem PoolValidC.sound {e : Env} : ∀ {l : List Nat} {s : St}, PoolValidC e l s → PoolValid e l s
  | [], _, _ => trivial
  | _ :: _, _, h => ⟨⟨0, h.1⟩, h.2.1.sound, absent_of_rows _ _ h.2.2.1, h.2.2.2.1, PoolValidC.sound h.2.2.2.2⟩

/-- checkable `SInv` -/
def SInvC (e : Env) (g : St) (s : St) : Prop :=
  rowsEq s.U (applyPool e s.pool (canon e g s.pointer)).U = true ∧
  rowsEq s.ZU (applyPool e s.pool (canon e g s.pointer)).ZU = true ∧
  rowsEq s.ZD (applyPool e s.pool (canon e g s.pointer)).ZD = true ∧
  s.total = (applyPool e s.pool (canon e g s.pointer)).total ∧
  PoolValidC e s.pool (canon e g s.pointer)

instance (e : Env) (g s : St) : Decidable (SInvC e g s) := by unfold SInvC; exact inferInstance

theorem SInvC.sound {e : Env} {g s : St} (h : SInvC e g s) : SInv e g s :=
  ⟨trefines_of_rows _ _ h.1 h.2.1 h.2.2.1 h.2.2.2.1, h.2.2.2.2.sound⟩

theorem block_unknown (e : Env) (b : Nat) (h : b ∉ e.blocks.map (·.1)) : e.block b = default := by
  unfold Env.block
  rw [lookup_none_of_not_key e.blocks b h]
  rfl

/-- `TreeValid` from one test per registered block (an unregistered id names the empty default block) -/
theorem treeValid_of_blocks (e : Env) (g : St)
    (h : ∀ b ∈ e.blocks.map (·.1), ChainValidC e (ancestors e (e.blocks.length + 1) b).reverse g) : TreeValid e g := by
  intro b
  by_cases hb : b ∈ e.blocks.map (·.1)
  · exact (h b hb).sound
  · have hd := block_unknown e b hb
    have hanc : ancestors e (e.blocks.length + 1) b = [b] := by
      rw [ancestors_succ, hd]
      rfl
    rw [hanc]
    refine ⟨?_, trivial⟩
    rw [hd]
    exact ⟨⟨0, g, rfl⟩, fun i hi => (by cases hi), List.nodup_nil, fun i hi => (by cases hi), trivial⟩

end XV.Crash
