import XV.Model.Pool
import XV.Lemmas.Pool
import XV.Lemmas.Assoc
import XV.Lemmas.ChainFrame
import XV.Props.C03
/-!
Lookup-level characterisation of `applyTx` of the L1 chain model, congruence of admission and application under
observational equality of the tables, and the commutation of two adjacent independent admissions
(the lemmas behind `C13.swap_independent` / `C13.replayable`).
-/
namespace XV.Pool
open XV.Chain

/-- observational equality of the tables the property names: every U / ZU / ZD lookup and the total -/
def Equiv (s t : St) : Prop :=
  (∀ k, lookup s.U k = lookup t.U k) ∧ (∀ k, lookup s.ZU k = lookup t.ZU k) ∧
  (∀ k, lookup s.ZD k = lookup t.ZD k) ∧ s.total = t.total

theorem Equiv.refl (s : St) : Equiv s s := ⟨fun _ => rfl, fun _ => rfl, fun _ => rfl, rfl⟩

theorem Equiv.symm {s t : St} (h : Equiv s t) : Equiv t s :=
  ⟨fun k => (h.1 k).symm, fun k => (h.2.1 k).symm, fun k => (h.2.2.1 k).symm, h.2.2.2.symm⟩

theorem Equiv.trans {a b c : St} (h1 : Equiv a b) (h2 : Equiv b c) : Equiv a c :=
  ⟨fun k => (h1.1 k).trans (h2.1 k), fun k => (h1.2.1 k).trans (h2.2.1 k),
   fun k => (h1.2.2.1 k).trans (h2.2.2.1 k), h1.2.2.2.trans h2.2.2.2⟩

theorem Equiv.curVer {s t : St} (h : Equiv s t) (k : String) : curVer s k = curVer t k := by
  unfold Chain.curVer
  rw [h.2.1 k, h.2.2.1 k]

-- ---------------------------------------------------------------- token outputs

/-- the row `applyOuts` leaves at `k`, if it writes one -/
def outAt (t : Tx) : List Out → Nat → Ver → Option UItem
  | [], _, _ => none
  | o :: rest, off, k =>
    match outAt t rest (off + 1) k with
    | some u => some u
    | none =>
      if (o.addr == "$" || o.amt == 0) = true then none
      else if (t.id, off) = k then some ⟨o.addr, o.amt, o.frozen⟩ else none

theorem outAt_id (t : Tx) (l : List Out) (off : Nat) (k : Ver) (u : UItem) (h : outAt t l off k = some u) :
    k.1 = t.id := by
  induction l generalizing off u with
  | nil => simp [outAt] at h
  | cons o rest ih =>
    unfold outAt at h
    cases hr : outAt t rest (off + 1) k with
    | some u' => exact ih _ u' hr
    | none =>
      rw [hr] at h
      simp only at h
      split at h
      · simp at h
      · split at h
        · rename_i hk; rw [← hk]
        · simp at h

theorem applyOuts_lookup (t : Tx) (l : List Out) (off : Nat) (s : St) (k : Ver) :
    lookup (applyOuts t l off s).U k = (match outAt t l off k with | some u => some u | none => lookup s.U k) := by
  induction l generalizing off s with
  | nil => simp [applyOuts, outAt]
  | cons o rest ih =>
    unfold applyOuts outAt
    rw [ih]
    cases h : outAt t rest (off + 1) k with
    | some u => rfl
    | none =>
      simp only
      by_cases hs : (o.addr == "$" || o.amt == 0) = true
      · simp only [hs, ↓reduceIte]
      · simp only [hs, Bool.false_eq_true, ↓reduceIte]
        rw [lookup_put]
        by_cases hk : (t.id, off) = k
        · simp only [hk, ↓reduceIte]
        · simp only [hk, ↓reduceIte]

/-- what a coinbase adds to the total -/
def awardSum (t : Tx) : List Out → Int
  | [] => 0
  | o :: rest => (if (o.addr == "$" || o.amt == 0) = true then 0 else if t.coinbase then (o.amt : Int) else 0) + awardSum t rest

theorem applyOuts_total (t : Tx) (l : List Out) (off : Nat) (s : St) :
    (applyOuts t l off s).total = s.total + awardSum t l := by
  induction l generalizing off s with
  | nil => simp [applyOuts, awardSum]
  | cons o rest ih =>
    unfold applyOuts awardSum
    rw [ih]
    by_cases hs : (o.addr == "$" || o.amt == 0) = true
    · simp only [hs, ↓reduceIte]; omega
    · simp only [hs, Bool.false_eq_true, ↓reduceIte]
      by_cases hc : t.coinbase = true
      · simp only [hc, ↓reduceIte]; omega
      · simp only [hc, Bool.false_eq_true, ↓reduceIte]; omega

def insRefs (t : Tx) : List Ver := t.ins.map (fun r => (r.tx, r.off))

theorem foldl_del_lookup (ins : List InRef) (u : List (Ver × UItem)) (k : Ver) :
    lookup (ins.foldl (fun u r => del u (r.tx, r.off)) u) k =
      if k ∈ ins.map (fun r => (r.tx, r.off)) then none else lookup u k := by
  induction ins generalizing u with
  | nil => simp
  | cons r rest ih =>
    simp only [List.foldl_cons, List.map_cons, List.mem_cons]
    rw [ih, lookup_del]
    by_cases h1 : k ∈ rest.map (fun r => (r.tx, r.off))
    · simp [h1]
    · by_cases h2 : (r.tx, r.off) = k
      · simp [h1, h2]
      · have : ¬ k = (r.tx, r.off) := fun e => h2 e.symm
        simp [h1, h2, this]

/-- **U table after `applyTx`**, as a function of the old lookup at the same key -/
theorem applyTx_U (s : St) (t : Tx) (k : Ver) :
    lookup (applyTx s t).U k =
      (match outAt t t.outs 0 k with
       | some u => some u
       | none => if k ∈ insRefs t then none else lookup s.U k) := by
  unfold applyTx
  rw [applyOuts_lookup]
  simp only
  rw [foldl_del_lookup, (applyKOut_frame t t.kout 0 s).1]
  rfl

theorem applyTx_total (s : St) (t : Tx) : (applyTx s t).total = s.total + awardSum t t.outs := by
  unfold applyTx
  rw [applyOuts_total]
  simp only
  rw [(applyKOut_frame t t.kout 0 s).2.1]

-- ---------------------------------------------------------------- key versions

/-- effect of `applyKOut` on the live table at key `K`: the last write of `K` (`some none` = deleted) -/
def zuEff (t : Tx) : List KOut → Nat → String → Option (Option Ver)
  | [], _, _ => none
  | ko :: rest, off, K =>
    match zuEff t rest (off + 1) K with
    | some e => some e
    | none => if ko.key = K then (if ko.del then some none else some (some (t.id, off))) else none

/-- effect on the delete markers: the last delete of `K` -/
def zdEff (t : Tx) : List KOut → Nat → String → Option Ver
  | [], _, _ => none
  | ko :: rest, off, K =>
    match zdEff t rest (off + 1) K with
    | some v => some v
    | none => if ko.key = K ∧ ko.del = true then some (t.id, off) else none

theorem applyKOut_ZU (t : Tx) (l : List KOut) (off : Nat) (s : St) (K : String) :
    lookup (applyKOut t l off s).ZU K = (match zuEff t l off K with | some e => e | none => lookup s.ZU K) := by
  induction l generalizing off s with
  | nil => simp [applyKOut, zuEff]
  | cons ko rest ih =>
    unfold applyKOut zuEff
    rw [ih]
    cases h : zuEff t rest (off + 1) K with
    | some e => rfl
    | none =>
      simp only
      by_cases hk : ko.key = K
      · by_cases hd : ko.del = true
        · simp only [hk, hd, ↓reduceIte]; rw [lookup_del]; simp
        · simp only [hk, hd, ↓reduceIte, Bool.false_eq_true]; rw [lookup_put]; simp
      · by_cases hd : ko.del = true
        · simp only [hk, hd, ↓reduceIte]; rw [lookup_del]; simp [hk]
        · simp only [hk, hd, ↓reduceIte, Bool.false_eq_true]; rw [lookup_put]; simp [hk]

theorem applyKOut_ZD (t : Tx) (l : List KOut) (off : Nat) (s : St) (K : String) :
    lookup (applyKOut t l off s).ZD K = (match zdEff t l off K with | some v => some v | none => lookup s.ZD K) := by
  induction l generalizing off s with
  | nil => simp [applyKOut, zdEff]
  | cons ko rest ih =>
    unfold applyKOut zdEff
    rw [ih]
    cases h : zdEff t rest (off + 1) K with
    | some e => rfl
    | none =>
      simp only
      by_cases hd : ko.del = true
      · by_cases hk : ko.key = K
        · simp only [hk, hd, ↓reduceIte, and_self]; rw [lookup_put]; simp
        · simp only [hk, hd, ↓reduceIte, false_and]; rw [lookup_put]; simp [hk]
      · simp only [hd, ↓reduceIte, Bool.false_eq_true, and_false]

theorem zuEff_none (t : Tx) (l : List KOut) (off : Nat) (K : String) (h : ∀ ko ∈ l, ko.key ≠ K) :
    zuEff t l off K = none := by
  induction l generalizing off with
  | nil => rfl
  | cons ko rest ih =>
    unfold zuEff
    rw [ih _ (fun x hx => h x (List.mem_cons_of_mem _ hx))]
    simp [h ko List.mem_cons_self]

theorem zdEff_none (t : Tx) (l : List KOut) (off : Nat) (K : String) (h : ∀ ko ∈ l, ko.key ≠ K) :
    zdEff t l off K = none := by
  induction l generalizing off with
  | nil => rfl
  | cons ko rest ih =>
    unfold zdEff
    rw [ih _ (fun x hx => h x (List.mem_cons_of_mem _ hx))]
    simp [h ko List.mem_cons_self]

theorem zuEff_some_of_write (t : Tx) (l : List KOut) (off : Nat) (K : String) (h : ∃ ko ∈ l, ko.key = K) :
    ∃ e, zuEff t l off K = some e := by
  induction l generalizing off with
  | nil => simp at h
  | cons ko rest ih =>
    unfold zuEff
    cases hr : zuEff t rest (off + 1) K with
    | some e => exact ⟨e, rfl⟩
    | none =>
      simp only
      by_cases hk : ko.key = K
      · simp only [hk, ↓reduceIte]
        split <;> exact ⟨_, rfl⟩
      · exfalso
        obtain ⟨x, hx, hxk⟩ := h
        rcases List.mem_cons.mp hx with rfl | hx
        · exact hk hxk
        · obtain ⟨e, he⟩ := ih (off + 1) ⟨x, hx, hxk⟩
          rw [hr] at he; simp at he

theorem zuEff_ver (t : Tx) (l : List KOut) (off : Nat) (K : String) (v : Ver) (h : zuEff t l off K = some (some v)) :
    v.1 = t.id := by
  induction l generalizing off with
  | nil => simp [zuEff] at h
  | cons ko rest ih =>
    unfold zuEff at h
    cases hr : zuEff t rest (off + 1) K with
    | some e => rw [hr] at h; simp only [Option.some.injEq] at h; subst h; exact ih _ hr
    | none =>
      rw [hr] at h
      simp only at h
      split at h
      · split at h
        · simp at h
        · simp only [Option.some.injEq] at h; rw [← h]
      · simp at h

theorem zdEff_ver (t : Tx) (l : List KOut) (off : Nat) (K : String) (v : Ver) (h : zdEff t l off K = some v) :
    v.1 = t.id := by
  induction l generalizing off with
  | nil => simp [zdEff] at h
  | cons ko rest ih =>
    unfold zdEff at h
    cases hr : zdEff t rest (off + 1) K with
    | some e => rw [hr] at h; simp only [Option.some.injEq] at h; subst h; exact ih _ hr
    | none =>
      rw [hr] at h
      simp only at h
      split at h
      · simp only [Option.some.injEq] at h; rw [← h]
      · simp at h

/-- the last write of `K` is a delete ⇒ there is a last delete of `K` -/
theorem zdEff_of_zuEff_del (t : Tx) (l : List KOut) (off : Nat) (K : String) (h : zuEff t l off K = some none) :
    ∃ v, zdEff t l off K = some v := by
  induction l generalizing off with
  | nil => simp [zuEff] at h
  | cons ko rest ih =>
    unfold zuEff at h
    unfold zdEff
    cases hr : zuEff t rest (off + 1) K with
    | some e =>
      rw [hr] at h; simp only [Option.some.injEq] at h; subst h
      obtain ⟨v, hv⟩ := ih _ hr
      exact ⟨v, by rw [hv]⟩
    | none =>
      rw [hr] at h
      simp only at h
      cases hz : zdEff t rest (off + 1) K with
      | some v => exact ⟨v, rfl⟩
      | none =>
        simp only
        split at h
        · rename_i hk
          split at h
          · rename_i hd
            exact ⟨(t.id, off), by simp [hk, hd]⟩
          · simp at h
        · simp at h

theorem applyTx_ZU (s : St) (t : Tx) (K : String) :
    lookup (applyTx s t).ZU K = (match zuEff t t.kout 0 K with | some e => e | none => lookup s.ZU K) := by
  unfold applyTx
  rw [(applyOuts_frame t t.outs 0 _).1]
  simp only
  exact applyKOut_ZU t t.kout 0 s K

theorem applyTx_ZD (s : St) (t : Tx) (K : String) :
    lookup (applyTx s t).ZD K = (match zdEff t t.kout 0 K with | some v => some v | none => lookup s.ZD K) := by
  unfold applyTx
  rw [(applyOuts_frame t t.outs 0 _).2.1]
  simp only
  exact applyKOut_ZD t t.kout 0 s K

/-- a key the transaction does not write keeps its version -/
theorem curVer_unwritten (s : St) (t : Tx) (K : String) (h : ∀ ko ∈ t.kout, ko.key ≠ K) :
    curVer (applyTx s t) K = curVer s K := by
  unfold Chain.curVer
  rw [applyTx_ZU, applyTx_ZD, zuEff_none t _ _ _ h, zdEff_none t _ _ _ h]

/-- a key the transaction writes (or deletes) carries a version made by it afterwards -/
theorem curVer_written (s : St) (t : Tx) (K : String) (h : ∃ ko ∈ t.kout, ko.key = K) :
    ∃ v, curVer (applyTx s t) K = some v ∧ v.1 = t.id := by
  unfold Chain.curVer
  rw [applyTx_ZU, applyTx_ZD]
  obtain ⟨e, he⟩ := zuEff_some_of_write t t.kout 0 K h
  rw [he]
  cases e with
  | some v => exact ⟨v, rfl, zuEff_ver t _ _ _ _ he⟩
  | none =>
    obtain ⟨v, hv⟩ := zdEff_of_zuEff_del t _ _ _ he
    rw [hv]
    exact ⟨v, rfl, zdEff_ver t _ _ _ _ hv⟩

-- ---------------------------------------------------------------- congruence

theorem applyTx_congr {s s' : St} (h : Equiv s s') (t : Tx) : Equiv (applyTx s t) (applyTx s' t) := by
  refine ⟨?_, ?_, ?_, ?_⟩
  · intro k; rw [applyTx_U, applyTx_U, h.1 k]
  · intro k; rw [applyTx_ZU, applyTx_ZU, h.2.1 k]
  · intro k; rw [applyTx_ZD, applyTx_ZD, h.2.2.1 k]
  · rw [applyTx_total, applyTx_total, h.2.2.2]

theorem checkInputs_congr (s s' : St) (lh : Int) (ins : List InRef) (seen : List Ver) (acc : Nat)
    (h : ∀ r ∈ ins, lookup s.U (r.tx, r.off) = lookup s'.U (r.tx, r.off)) :
    checkInputs s lh ins seen acc = checkInputs s' lh ins seen acc := by
  induction ins generalizing seen acc with
  | nil => rfl
  | cons r rest ih =>
    unfold checkInputs
    rw [h r List.mem_cons_self]
    have ih' := fun seen acc => ih seen acc (fun x hx => h x (List.mem_cons_of_mem _ hx))
    split
    · rfl
    · split
      · rfl
      · split
        · rfl
        · split
          · rfl
          · split
            · rfl
            · exact ih' _ _

theorem all_congr_mem {α : Type} (l : List α) (f g : α → Bool) (h : ∀ x ∈ l, f x = g x) : l.all f = l.all g := by
  induction l with
  | nil => rfl
  | cons a l ih =>
    simp only [List.all_cons]
    rw [h a List.mem_cons_self, ih (fun x hx => h x (List.mem_cons_of_mem _ hx))]

theorem verifyRW_congr (s s' : St) (t : Tx) (h : ∀ ki ∈ t.kin, curVer s ki.key = curVer s' ki.key) :
    verifyRW s t = verifyRW s' t := by
  unfold verifyRW
  rw [all_congr_mem t.kin (fun ki => curVer s ki.key == ki.ver) (fun ki => curVer s' ki.key == ki.ver)
    (fun ki hki => by simp only [h ki hki])]

/-- admission only looks at the rows of the cited outputs and at the versions of the keys read -/
theorem admitTx_congr (s s' : St) (lh : Int) (t : Tx)
    (hu : ∀ r ∈ t.ins, lookup s.U (r.tx, r.off) = lookup s'.U (r.tx, r.off))
    (hk : ∀ ki ∈ t.kin, curVer s ki.key = curVer s' ki.key) :
    admitTx s lh t = admitTx s' lh t := by
  unfold admitTx checkInputEqualOutput
  rw [checkInputs_congr s s' lh t.ins [] 0 hu, verifyRW_congr s s' t hk]

theorem admitTx_equiv {s s' : St} (h : Equiv s s') (lh : Int) (t : Tx) : admitTx s lh t = admitTx s' lh t :=
  admitTx_congr s s' lh t (fun r _ => h.1 _) (fun ki _ => h.curVer ki.key)

theorem admitAll_congr (lh : Int) : ∀ (l : List Tx) (s s' r : St), Equiv s s' → admitAll s lh l = some r →
    ∃ r', admitAll s' lh l = some r' ∧ Equiv r r' := by
  intro l
  induction l with
  | nil =>
    intro s s' r h hr
    simp only [admitAll, Option.some.injEq] at hr
    exact ⟨s', rfl, hr ▸ h⟩
  | cons t rest ih =>
    intro s s' r h hr
    unfold admitAll at hr ⊢
    rw [← admitTx_equiv h lh t]
    by_cases ha : admitTx s lh t = .ok
    · simp only [ha, ↓reduceIte] at hr ⊢
      exact ih _ _ r (applyTx_congr h t) hr
    · simp only [ha, ↓reduceIte] at hr
      simp at hr

-- ---------------------------------------------------------------- two adjacent independent admissions commute

theorem admit_inputs_exist {s : St} {lh : Int} {t : Tx} (h : admitTx s lh t = .ok) :
    ∀ r ∈ t.ins, ∃ u, lookup s.U (r.tx, r.off) = some u := by
  intro r hr
  obtain ⟨u, hu, _⟩ := (XV.C03.admit_sound s lh t h).1 r hr
  exact ⟨u, hu⟩

theorem writesKey_iff (t : Tx) (K : String) : writesKey t K = true ↔ ∃ ko ∈ t.kout, ko.key = K := by
  unfold writesKey
  simp only [List.any_eq_true, beq_iff_eq]

theorem not_writesKey (t : Tx) (K : String) (h : writesKey t K = false) : ∀ ko ∈ t.kout, ko.key ≠ K := by
  intro ko hko hk
  have : writesKey t K = true := (writesKey_iff t K).mpr ⟨ko, hko, hk⟩
  rw [h] at this; simp at this

/-- the hypotheses under which `b`, admitted right after `a`, may also go first -/
structure Indep (a b : Tx) : Prop where
  ne : a.id ≠ b.id
  tok : ∀ r ∈ b.ins, r.tx ≠ a.id                         -- b spends no output of a
  tok' : ∀ r ∈ a.ins, r.tx ≠ b.id                        -- a spends no output of b
  key : ∀ ki ∈ b.kin, ∀ v, ki.ver = some v → v.1 ≠ a.id  -- b read no version written by a
  anti : antiDep a b = false                              -- a is not a read-only reader of a version b overwrites

/-- `a` writes none of the keys `b` read -/
theorem Indep.a_writes {a b : Tx} (hi : Indep a b) {s : St} {lh : Int}
    (hb : admitTx (applyTx s a) lh b = .ok) : ∀ ki ∈ b.kin, writesKey a ki.key = false := by
  intro ki hki
  cases hw : writesKey a ki.key with
  | false => rfl
  | true =>
    exfalso
    obtain ⟨v, hv, hid⟩ := curVer_written s a ki.key ((writesKey_iff a ki.key).mp hw)
    have hcur := (XV.C03.admit_sound _ lh b hb).2.2.1 ki hki
    rw [hv] at hcur
    exact hi.key ki hki v hcur.symm hid

/-- `b` writes none of the keys `a` read -/
theorem Indep.b_writes {a b : Tx} (hi : Indep a b) {s : St} {lh : Int}
    (ha : admitTx s lh a = .ok) (hb : admitTx (applyTx s a) lh b = .ok) :
    ∀ ka ∈ a.kin, writesKey b ka.key = false := by
  intro ka hka
  cases hw : writesKey b ka.key with
  | false => rfl
  | true =>
    exfalso
    -- b read the key it writes
    obtain ⟨ko, hko, hkk⟩ := (writesKey_iff b ka.key).mp hw
    obtain ⟨kb, hkb, hkbk⟩ := (XV.C03.admit_sound _ lh b hb).2.2.2 ko hko
    have hkey : kb.key = ka.key := hkbk.trans hkk
    -- a does not write it (b read it)
    have haw : writesKey a ka.key = false := hkey ▸ hi.a_writes hb kb hkb
    -- so both read the same version
    have h1 := (XV.C03.admit_sound s lh a ha).2.2.1 ka hka
    have h2 := (XV.C03.admit_sound _ lh b hb).2.2.1 kb hkb
    rw [hkey, curVer_unwritten s a ka.key (not_writesKey a ka.key haw), h1] at h2
    -- which is the anti-dependency a → b
    have : antiDep a b = true := by
      unfold antiDep
      simp only [Bool.and_eq_true, bne_iff_ne, ne_eq, List.any_eq_true, Bool.not_eq_true', beq_iff_eq]
      exact ⟨hi.ne, ka, hka, haw, kb, hkb, ⟨hkey, h2.symm⟩, hkey ▸ hw⟩
    rw [hi.anti] at this
    simp at this

theorem outAt_none_of_ne (t : Tx) (k : Ver) (h : k.1 ≠ t.id) : outAt t t.outs 0 k = none := by
  cases hr : outAt t t.outs 0 k with
  | none => rfl
  | some u => exact absurd (outAt_id t _ _ _ u hr) h

/-- **commutation**: if `b` was admitted right after `a` and is independent of it, then `b` is admissible first,
`a` is admissible after it, and both orders end in the same tables -/
theorem swap_core (s : St) (lh : Int) (a b : Tx) (hi : Indep a b)
    (ha : admitTx s lh a = .ok) (hb : admitTx (applyTx s a) lh b = .ok) :
    admitTx s lh b = .ok ∧ admitTx (applyTx s b) lh a = .ok ∧
    Equiv (applyTx (applyTx s a) b) (applyTx (applyTx s b) a) := by
  have haw := hi.a_writes hb
  have hbw := hi.b_writes ha hb
  -- b's inputs are not touched by a
  have hbin : ∀ r ∈ b.ins, (r.tx, r.off) ∉ insRefs a := by
    intro r hr hmem
    obtain ⟨u, hu⟩ := admit_inputs_exist hb r hr
    rw [applyTx_U, outAt_none_of_ne a (r.tx, r.off) (hi.tok r hr)] at hu
    simp [hmem] at hu
  have hbU : ∀ r ∈ b.ins, lookup (applyTx s a).U (r.tx, r.off) = lookup s.U (r.tx, r.off) := by
    intro r hr
    rw [applyTx_U, outAt_none_of_ne a (r.tx, r.off) (hi.tok r hr)]
    simp [hbin r hr]
  have hbK : ∀ ki ∈ b.kin, curVer (applyTx s a) ki.key = curVer s ki.key :=
    fun ki hki => curVer_unwritten s a ki.key (not_writesKey a ki.key (haw ki hki))
  have hb0 : admitTx s lh b = .ok := by
    rw [← admitTx_congr (applyTx s a) s lh b hbU hbK]; exact hb
  -- a's inputs are not touched by b
  have hain : ∀ r ∈ a.ins, (r.tx, r.off) ∉ insRefs b := by
    intro r hr hmem
    unfold insRefs at hmem
    obtain ⟨r', hr', heq⟩ := List.mem_map.mp hmem
    exact hbin r' hr' (by rw [heq]; exact List.mem_map.mpr ⟨r, hr, rfl⟩)
  have haU : ∀ r ∈ a.ins, lookup s.U (r.tx, r.off) = lookup (applyTx s b).U (r.tx, r.off) := by
    intro r hr
    rw [applyTx_U, outAt_none_of_ne b (r.tx, r.off) (hi.tok' r hr)]
    simp [hain r hr]
  have haK : ∀ ka ∈ a.kin, curVer s ka.key = curVer (applyTx s b) ka.key :=
    fun ka hka => (curVer_unwritten s b ka.key (not_writesKey b ka.key (hbw ka hka))).symm
  have ha1 : admitTx (applyTx s b) lh a = .ok := by
    rw [← admitTx_congr s (applyTx s b) lh a haU haK]; exact ha
  refine ⟨hb0, ha1, ?_, ?_, ?_, ?_⟩
  · -- U
    intro k
    rw [applyTx_U, applyTx_U, applyTx_U, applyTx_U]
    cases hoa : outAt a a.outs 0 k with
    | some ua =>
      have hka : k.1 = a.id := outAt_id a _ _ _ ua hoa
      have hob : outAt b b.outs 0 k = none := outAt_none_of_ne b k (by rw [hka]; exact hi.ne)
      have hnb : k ∉ insRefs b := by
        intro hmem
        unfold insRefs at hmem
        obtain ⟨r, hr, heq⟩ := List.mem_map.mp hmem
        exact hi.tok r hr (by rw [← hka, ← heq])
      simp [hob, hnb]
    | none =>
      cases hob : outAt b b.outs 0 k with
      | some ub =>
        have hkb : k.1 = b.id := outAt_id b _ _ _ ub hob
        have hna : k ∉ insRefs a := by
          intro hmem
          unfold insRefs at hmem
          obtain ⟨r, hr, heq⟩ := List.mem_map.mp hmem
          exact hi.tok' r hr (by rw [← hkb, ← heq])
        simp [hna]
      | none =>
        simp only
        by_cases h1 : k ∈ insRefs a <;> by_cases h2 : k ∈ insRefs b <;> simp [h1, h2]
  · -- ZU: the written key sets are disjoint
    intro K
    rw [applyTx_ZU, applyTx_ZU, applyTx_ZU, applyTx_ZU]
    by_cases hwa : writesKey a K = true
    · -- then b does not write K (b would have read it)
      have hwb : writesKey b K = false := by
        cases h : writesKey b K with
        | false => rfl
        | true =>
          exfalso
          obtain ⟨ko, hko, hkk⟩ := (writesKey_iff b K).mp h
          obtain ⟨kb, hkb, hkbk⟩ := (XV.C03.admit_sound _ lh b hb).2.2.2 ko hko
          have := haw kb hkb
          rw [hkbk.trans hkk, hwa] at this
          simp at this
      rw [zuEff_none b _ _ _ (not_writesKey b K hwb)]
    · have hwa' : writesKey a K = false := by simpa using hwa
      rw [zuEff_none a _ _ _ (not_writesKey a K hwa')]
  · intro K
    rw [applyTx_ZD, applyTx_ZD, applyTx_ZD, applyTx_ZD]
    by_cases hwa : writesKey a K = true
    · have hwb : writesKey b K = false := by
        cases h : writesKey b K with
        | false => rfl
        | true =>
          exfalso
          obtain ⟨ko, hko, hkk⟩ := (writesKey_iff b K).mp h
          obtain ⟨kb, hkb, hkbk⟩ := (XV.C03.admit_sound _ lh b hb).2.2.2 ko hko
          have := haw kb hkb
          rw [hkbk.trans hkk, hwa] at this
          simp at this
      rw [zdEff_none b _ _ _ (not_writesKey b K hwb)]
    · have hwa' : writesKey a K = false := by simpa using hwa
      rw [zdEff_none a _ _ _ (not_writesKey a K hwa')]
  · rw [applyTx_total, applyTx_total, applyTx_total, applyTx_total]
    omega

-- ---------------------------------------------------------------- reordering an admitted sequence

def ids (l : List Tx) : List Nat := l.map (·.id)

@[simp] theorem ids_cons (t : Tx) (l : List Tx) : ids (t :: l) = t.id :: ids l := rfl
@[simp] theorem ids_nil : ids [] = [] := rfl
theorem ids_append (a b : List Tx) : ids (a ++ b) = ids a ++ ids b := by simp [ids]
theorem mem_ids {t : Tx} {l : List Tx} (h : t ∈ l) : t.id ∈ ids l := List.mem_map.mpr ⟨t, h, rfl⟩

/-- transaction ids are hashes of the content: no unspent output carries the id of a transaction that is yet to be applied -/
def FreshU (s : St) (l : List Nat) : Prop := ∀ k : Ver, k.1 ∈ l → lookup s.U k = none

theorem FreshU.apply {s : St} {l : List Nat} {t : Tx} (h : FreshU s l) (ht : t.id ∉ l) : FreshU (applyTx s t) l := by
  intro k hk
  rw [applyTx_U, outAt_none_of_ne t k (fun e => ht (e ▸ hk)), h k hk]
  simp

theorem FreshU.mono {s : St} {l l' : List Nat} (h : FreshU s l) (hsub : ∀ x ∈ l', x ∈ l) : FreshU s l' :=
  fun k hk => h k (hsub _ hk)

theorem admitAll_cons (s : St) (lh : Int) (t : Tx) (l : List Tx) (r : St) :
    admitAll s lh (t :: l) = some r ↔ admitTx s lh t = .ok ∧ admitAll (applyTx s t) lh l = some r := by
  have : admitAll s lh (t :: l) = if admitTx s lh t = .ok then admitAll (applyTx s t) lh l else none := rfl
  rw [this]
  by_cases h : admitTx s lh t = .ok
  · simp [h]
  · simp [h]

theorem admitAll_append (lh : Int) : ∀ (l1 l2 : List Tx) (s r : St), admitAll s lh (l1 ++ l2) = some r →
    ∃ m, admitAll s lh l1 = some m ∧ admitAll m lh l2 = some r := by
  intro l1
  induction l1 with
  | nil => intro l2 s r h; exact ⟨s, rfl, h⟩
  | cons t l1 ih =>
    intro l2 s r h
    rw [List.cons_append, admitAll_cons] at h
    obtain ⟨m, h1, h2⟩ := ih l2 _ r h.2
    exact ⟨m, (admitAll_cons s lh t l1 m).mpr ⟨h.1, h1⟩, h2⟩

/-- no edge `y → x`, `y` admitted, `x` still fresh ⇒ the swap hypotheses -/
theorem indep_of {y x : Tx} {s : St} {lh : Int} (hne : y.id ≠ x.id) (he : edge y x = false)
    (hy : admitTx s lh y = .ok) (hf : ∀ k : Ver, k.1 = x.id → lookup s.U k = none) : Indep y x := by
  unfold edge at he
  simp only [Bool.or_eq_false_iff] at he
  obtain ⟨⟨h1, h2⟩, h3⟩ := he
  refine ⟨hne, ?_, ?_, ?_, h3⟩
  · intro r hr heq
    unfold tokDep at h1
    have := List.any_eq_false.mp h1 r hr
    simp [heq] at this
  · intro r hr heq
    obtain ⟨u, hu⟩ := admit_inputs_exist hy r hr
    rw [hf (r.tx, r.off) heq] at hu
    simp at hu
  · intro ki hki v hv heq
    unfold keyDep at h2
    have := List.any_eq_false.mp h2 ki hki
    simp [hv, heq] at this

/-- a transaction with no edge from anything admitted before it can be admitted first -/
theorem bubble (lh : Int) : ∀ (pre : List Tx) (s : St) (x : Tx) (post : List Tx) (sA : St),
    admitAll s lh (pre ++ x :: post) = some sA → (ids (pre ++ x :: post)).Nodup →
    FreshU s (ids (pre ++ x :: post)) → (∀ y ∈ pre, edge y x = false) →
    ∃ sB, admitAll s lh (x :: (pre ++ post)) = some sB ∧ Equiv sA sB := by
  intro pre
  induction pre with
  | nil =>
    intro s x post sA h _ _ _
    exact ⟨sA, h, Equiv.refl sA⟩
  | cons y pre ih =>
    intro s x post sA h hnd hfr hedge
    rw [List.cons_append, admitAll_cons] at h
    obtain ⟨hy, hrest⟩ := h
    simp only [List.cons_append, ids_cons, List.nodup_cons] at hnd
    obtain ⟨hyn, hnd'⟩ := hnd
    have hfr' : FreshU (applyTx s y) (ids (pre ++ x :: post)) :=
      (hfr.mono (fun z hz => by simp only [List.cons_append, ids_cons]; exact List.mem_cons_of_mem _ hz)).apply hyn
    obtain ⟨sB1, h1, e1⟩ := ih (applyTx s y) x post sA hrest hnd' hfr'
      (fun z hz => hedge z (List.mem_cons_of_mem _ hz))
    rw [admitAll_cons] at h1
    obtain ⟨hx1, hrest1⟩ := h1
    have hxin : x.id ∈ ids (pre ++ x :: post) := mem_ids (by simp)
    have hne : y.id ≠ x.id := fun e => hyn (e ▸ hxin)
    have hi : Indep y x := indep_of hne (hedge y List.mem_cons_self) hy
      (fun k hk => hfr k (by simp only [List.cons_append, ids_cons]; exact List.mem_cons_of_mem _ (hk ▸ hxin)))
    obtain ⟨hx0, hy1, eq⟩ := swap_core s lh y x hi hy hx1
    obtain ⟨sB, h2, e2⟩ := admitAll_congr lh (pre ++ post) _ _ sB1 eq hrest1
    refine ⟨sB, ?_, e1.trans e2⟩
    rw [admitAll_cons]
    refine ⟨hx0, ?_⟩
    rw [List.cons_append, admitAll_cons]
    exact ⟨hy1, h2⟩

/-- **reordering**: a sequence admitted one by one stays admissible, with the same final tables, in every order that
keeps `u` before `v` whenever `edge u v` -/
theorem reorder (lh : Int) : ∀ (ord adm : List Tx) (s sA : St), adm.Perm ord → (ids adm).Nodup → FreshU s (ids adm) →
    admitAll s lh adm = some sA →
    (∀ u ∈ adm, ∀ v ∈ adm, edge u v = true → Before (ids ord) u.id v.id) →
    ∃ sB, admitAll s lh ord = some sB ∧ Equiv sA sB := by
  intro ord
  induction ord with
  | nil =>
    intro adm s sA hp _ _ h _
    have : adm = [] := List.Perm.eq_nil hp
    subst this
    exact ⟨sA, h, Equiv.refl sA⟩
  | cons x ord ih =>
    intro adm s sA hp hnd hfr h hedge
    have hx : x ∈ adm := hp.symm.subset List.mem_cons_self
    obtain ⟨pre, post, rfl⟩ := List.append_of_mem hx
    have hmid : (pre ++ x :: post).Perm (x :: (pre ++ post)) := List.perm_middle
    have hnd2 : (ids (x :: (pre ++ post))).Nodup := by
      unfold ids at hnd ⊢
      exact (List.Perm.nodup_iff (hmid.map _)).mp hnd
    simp only [ids_cons, List.nodup_cons] at hnd2
    obtain ⟨hxn, hnd3⟩ := hnd2
    have hordnd : (ids (x :: ord)).Nodup := by
      unfold ids at hnd ⊢
      exact (List.Perm.nodup_iff (hp.map _)).mp hnd
    -- nothing admitted before x has an edge to x: x is first in the target order
    have hfree : ∀ y ∈ pre, edge y x = false := by
      intro y hy
      cases he : edge y x with
      | false => rfl
      | true =>
        exfalso
        have hb := hedge y (by simp [hy]) x (by simp) he
        simp only [ids_cons] at hb hordnd
        exact Before.not_head hordnd y.id hb
    obtain ⟨sB0, h0, e0⟩ := bubble lh pre s x post sA h hnd hfr hfree
    rw [admitAll_cons] at h0
    obtain ⟨hx0, hrest0⟩ := h0
    have hp' : (pre ++ post).Perm ord := (hmid.symm.trans hp).cons_inv
    have hfr' : FreshU (applyTx s x) (ids (pre ++ post)) :=
      (hfr.mono (fun z hz => by
        rw [ids_append] at hz
        rw [ids_append, ids_cons]
        rcases List.mem_append.mp hz with hz | hz
        · exact List.mem_append_left _ hz
        · exact List.mem_append_right _ (List.mem_cons_of_mem _ hz))).apply hxn
    obtain ⟨sB, h1, e1⟩ := ih (pre ++ post) (applyTx s x) sB0 hp' hnd3 hfr' hrest0 (by
      intro u hu v hv he
      have hu' : u ∈ pre ++ x :: post := by
        rcases List.mem_append.mp hu with hu | hu
        · exact List.mem_append_left _ hu
        · exact List.mem_append_right _ (List.mem_cons_of_mem _ hu)
      have hv' : v ∈ pre ++ x :: post := by
        rcases List.mem_append.mp hv with hv | hv
        · exact List.mem_append_left _ hv
        · exact List.mem_append_right _ (List.mem_cons_of_mem _ hv)
      have hb := hedge u hu' v hv' he
      simp only [ids_cons] at hb
      exact hb.tail (fun e => hxn (e ▸ mem_ids hu)))
    exact ⟨sB, (admitAll_cons s lh x ord sB).mpr ⟨hx0, h1⟩, e0.trans e1⟩

end XV.Pool
