/-!
Reordering of valid executions, abstractly (used for the pool processing of a played block, C01).

A *swap system*: states `σ`, operations `α`, a step function, an equivalence `E` of states that steps and validity
respect, a validity predicate `V x a` ("operation `a` is admissible in state `x`") and an independence relation `Ind`
such that two adjacent operations `a, b` that are valid in this order and independent are valid in the other order and
lead to equivalent states (`swap`).

`reorder`: if `l₁` is a valid execution from `x`, `l₂` is a permutation of `l₁` (no repetitions) and every pair whose
order differs between the two lists is independent, then `l₂` is a valid execution from `x` and both end in equivalent
states.
-/
namespace XV.Refine

structure SwapSys (σ α : Type) where
  step : σ → α → σ
  E : σ → σ → Prop
  V : σ → α → Prop
  Ind : α → α → Prop
  E_refl : ∀ x, E x x
  E_trans : ∀ x y z, E x y → E y z → E x z
  step_congr : ∀ x y a, E x y → E (step x a) (step y a)
  V_congr : ∀ x y a, E x y → V x a → V y a
  swap : ∀ x a b, V x a → V (step x a) b → Ind a b →
    V x b ∧ V (step x b) a ∧ E (step (step x a) b) (step (step x b) a)

variable {σ α : Type} (S : SwapSys σ α)

def SwapSys.run (l : List α) (x : σ) : σ := l.foldl S.step x

/-- every operation is valid at its point of application -/
def SwapSys.Valid : List α → σ → Prop
  | [], _ => True
  | a :: r, x => S.V x a ∧ SwapSys.Valid r (S.step x a)

theorem SwapSys.run_cons (a : α) (l : List α) (x : σ) : S.run (a :: l) x = S.run l (S.step x a) := rfl

theorem SwapSys.run_append (l1 l2 : List α) (x : σ) : S.run (l1 ++ l2) x = S.run l2 (S.run l1 x) := by
  unfold SwapSys.run; rw [List.foldl_append]

theorem SwapSys.valid_append (l1 l2 : List α) (x : σ) :
    S.Valid (l1 ++ l2) x ↔ S.Valid l1 x ∧ S.Valid l2 (S.run l1 x) := by
  induction l1 generalizing x with
  | nil => simp [SwapSys.Valid, SwapSys.run]
  | cons a r ih =>
    simp only [List.cons_append, SwapSys.Valid, SwapSys.run_cons]
    rw [ih]
    exact and_assoc.symm

/-- validity and the final state respect the equivalence of start states -/
theorem SwapSys.congr (l : List α) (x y : σ) (h : S.E x y) (hv : S.Valid l x) :
    S.Valid l y ∧ S.E (S.run l x) (S.run l y) := by
  induction l generalizing x y with
  | nil => exact ⟨trivial, h⟩
  | cons a r ih =>
    obtain ⟨h1, h2⟩ := hv
    obtain ⟨i1, i2⟩ := ih _ _ (S.step_congr x y a h) h2
    exact ⟨⟨S.V_congr x y a h h1, i1⟩, i2⟩

/-- an operation that is independent of everything in front of it can be executed first -/
theorem SwapSys.bubble (pre post : List α) (b : α) (x : σ) (hv : S.Valid (pre ++ b :: post) x)
    (hind : ∀ a ∈ pre, S.Ind a b) :
    S.Valid (b :: (pre ++ post)) x ∧ S.E (S.run (pre ++ b :: post) x) (S.run (b :: (pre ++ post)) x) := by
  induction pre generalizing x with
  | nil => exact ⟨hv, S.E_refl _⟩
  | cons a pre' ih =>
    obtain ⟨ha, hrest⟩ := hv
    obtain ⟨⟨hb, hpp⟩, hE⟩ := ih (S.step x a) hrest (fun c hc => hind c (List.mem_cons_of_mem _ hc))
    obtain ⟨s1, s2, s3⟩ := S.swap x a b ha hb (hind a List.mem_cons_self)
    obtain ⟨c1, c2⟩ := S.congr (pre' ++ post) _ _ s3 hpp
    refine ⟨⟨s1, s2, c1⟩, ?_⟩
    simp only [List.cons_append, SwapSys.run_cons] at hE ⊢
    exact S.E_trans _ _ _ hE c2

/-- **reordering**: a permutation of a valid execution in which only independent operations changed their relative
order is a valid execution with an equivalent result -/
theorem SwapSys.reorder (l2 : List α) : ∀ (l1 : List α) (x : σ), l1.Perm l2 → l1.Nodup →
    (∀ a b, [a, b].Sublist l1 → [b, a].Sublist l2 → S.Ind a b) → S.Valid l1 x →
    S.Valid l2 x ∧ S.E (S.run l1 x) (S.run l2 x) := by
  induction l2 with
  | nil =>
    intro l1 x hp _ _ hv
    have : l1 = [] := List.Perm.eq_nil hp
    subst this
    exact ⟨trivial, S.E_refl _⟩
  | cons b l2' ih =>
    intro l1 x hp hnd hind hv
    have hb : b ∈ l1 := hp.symm.subset List.mem_cons_self
    obtain ⟨pre, post, rfl⟩ := List.append_of_mem hb
    have hnb : ∀ a ∈ pre, a ≠ b := by
      intro a ha e
      subst e
      have := (List.nodup_append.mp hnd).2.2 a ha a List.mem_cons_self
      exact this rfl
    have hpre : ∀ a ∈ pre, S.Ind a b := by
      intro a ha
      apply hind a b
      · have h1 : [a].Sublist pre := List.singleton_sublist.mpr ha
        have h2 : [b].Sublist (b :: post) := List.singleton_sublist.mpr List.mem_cons_self
        exact List.Sublist.append h1 h2
      · have ha2 : a ∈ b :: l2' := hp.subset (List.mem_append_left _ ha)
        rcases List.mem_cons.mp ha2 with e | h
        · exact absurd e (hnb a ha)
        · exact List.Sublist.cons_cons b (List.singleton_sublist.mpr h)
    obtain ⟨⟨vb, vrest⟩, hE⟩ := S.bubble pre post b x hv hpre
    have hp' : (pre ++ post).Perm l2' := by
      have h0 : (b :: (pre ++ post)).Perm (b :: l2') := List.perm_middle.symm.trans hp
      exact (List.perm_cons b).mp h0
    have hnd' : (pre ++ post).Nodup := by
      have : (b :: (pre ++ post)).Nodup := (List.perm_middle.nodup_iff).mp hnd
      exact (List.nodup_cons.mp this).2
    obtain ⟨i1, i2⟩ := ih (pre ++ post) (S.step x b) hp' hnd'
      (fun a c h1 h2 => hind a c
        (h1.trans (List.Sublist.append (List.Sublist.refl pre) (List.sublist_cons_self b post)))
        (List.Sublist.cons b h2))
      vrest
    refine ⟨⟨vb, i1⟩, ?_⟩
    rw [SwapSys.run_cons] at hE ⊢
    exact S.E_trans _ _ _ hE i2

/-- a sublist `[a, b]` splits the list at `a` and `b` -/
theorem sublist_pair_split {α : Type} (a b : α) (l : List α) (h : [a, b].Sublist l) :
    ∃ p q r, l = p ++ a :: q ++ b :: r := by
  induction l with
  | nil => cases h
  | cons x rest ih =>
    cases h with
    | cons _ h' =>
      obtain ⟨p, q, r, hr⟩ := ih h'
      exact ⟨x :: p, q, r, by rw [hr]; simp⟩
    | cons_cons _ h' =>
      have hb : b ∈ rest := List.singleton_sublist.mp h'
      obtain ⟨q, r, hr⟩ := List.append_of_mem hb
      exact ⟨[], q, r, by rw [hr]; simp⟩

end XV.Refine
