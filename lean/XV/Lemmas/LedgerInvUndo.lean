import XV.Lemmas.LedgerInvPath
/-!
Ledger main-chain invariant, part 9: `findUndoTodo` returns the two branch segments above the lowest common ancestor.
-/
namespace XV.Ledger
open XV.Chain (lookup put del lookup_put lookup_del lookup_put_same lookup_cons lookup_nil)

/-- `s` is the lowest common ancestor of `a` and `b` -/
def IsLCA (l : L) (s a b : Nat) : Prop := Anc l s a ∧ Anc l s b ∧ ∀ x, Anc l x a → Anc l x b → Anc l x s

theorem IsLCA.symm {l : L} {s a b : Nat} (h : IsLCA l s a b) : IsLCA l s b a :=
  ⟨h.2.1, h.1, fun x h1 h2 => h.2.2 x h2 h1⟩

theorem IsLCA.unique {l : L} (T : TreeInv l) {s s' a b : Nat} {ha : Hdr} (sa : lookup l.B a = some ha)
    (h : IsLCA l s a b) (h' : IsLCA l s' a b) : s = s' := by
  obtain ⟨x, sx⟩ := T.anc_stored h'.1 sa
  exact T.anc_antisymm (h'.2.2 s h.1 h.2.1) (h.2.2 s' h'.1 h'.2.1) sx

namespace TreeInv
variable {l : L}

theorem notIn_eq (T : TreeInv l) {d : Nat} {hd : Hdr} (sd : lookup l.B d = some hd) (x : Nat) :
    (!(pathOf l d).contains x) = true ↔ ¬ Anc l x d := by
  rw [← T.mem_pathOf_iff sd]
  simp

theorem tw_neg (T : TreeInv l) {d : Nat} {hd : Hdr} (sd : lookup l.B d = some hd) {b : Nat} (r : List Nat)
    (hm : Anc l b d) : (b :: r).takeWhile (fun x => !(pathOf l d).contains x) = [] := by
  apply List.takeWhile_cons_of_neg
  rw [T.notIn_eq sd]; exact fun h => h hm

theorem tw_pos (T : TreeInv l) {d : Nat} {hd : Hdr} (sd : lookup l.B d = some hd) {b : Nat} (r : List Nat)
    (hm : ¬ Anc l b d) : (b :: r).takeWhile (fun x => !(pathOf l d).contains x) =
      b :: r.takeWhile (fun x => !(pathOf l d).contains x) := by
  apply List.takeWhile_cons_of_pos
  rw [T.notIn_eq sd]; exact hm

theorem pathOf_head {b : Nat} {hb : Hdr} (sb : lookup l.B b = some hb) : ∃ r, pathOf l b = b :: r :=
  ⟨_, ancestors_succ_of_lookup sb _⟩

/-- the segment of the path of `b` above the lowest common ancestor with `d` -/
theorem undo_spec (T : TreeInv l) {b d : Nat} {hb hd : Hdr} (sb : lookup l.B b = some hb) (sd : lookup l.B d = some hd) :
    ∃ s, IsLCA l s b d ∧
      pathOf l b = (pathOf l b).takeWhile (fun x => !(pathOf l d).contains x) ++ pathOf l s ∧
      (∀ y, ((pathOf l b).takeWhile (fun x => !(pathOf l d).contains x)).getLast? = some y → par l y = some s) := by
  generalize hn : hb.height = n
  induction n generalizing b hb with
  | zero =>
    have := T.height_zero sb hn
    subst this
    have hm : Anc l l.root d := T.anc_root sd
    refine ⟨l.root, ⟨Anc.refl _, hm, fun x h _ => h⟩, ?_, ?_⟩
    · rw [T.pathOf_root, T.tw_neg sd _ hm]; rfl
    · rw [T.pathOf_root, T.tw_neg sd _ hm]
      intro y h; cases h
  | succ n ih =>
    have hne : b ≠ l.root := by
      intro e; subst e
      obtain ⟨h', h1, _, h3⟩ := T.root
      rw [sb] at h1; cases h1; omega
    obtain ⟨p, ph, e1, e2, e3⟩ := T.parent b hb sb hne
    have parb : par l b = some p := by rw [par_of_lookup sb, e1]
    rw [T.pathOf_cons sb e1]
    by_cases hm : Anc l b d
    · refine ⟨b, ⟨Anc.refl _, hm, fun x h _ => h⟩, ?_, ?_⟩
      · rw [T.tw_neg sd _ hm, T.pathOf_cons sb e1]; rfl
      · rw [T.tw_neg sd _ hm]
        intro y h; cases h
    · obtain ⟨s, ⟨s1, s2, s3⟩, hpath, hlast⟩ := ih e2 (by omega)
      refine ⟨s, ⟨Anc.step parb s1, s2, ?_⟩, ?_, ?_⟩
      · intro x h1 h2
        have : x ≠ b := fun e => hm (e ▸ h2)
        obtain ⟨p', q1, q2⟩ := T.anc_par_of_ne h1 this
        rw [parb] at q1; cases q1
        exact s3 x q2 h2
      · rw [T.tw_pos sd _ hm, List.cons_append, ← hpath]
      · rw [T.tw_pos sd _ hm]
        intro y hy
        by_cases hnil : (pathOf l p).takeWhile (fun x => !(pathOf l d).contains x) = []
        · rw [hnil] at hy
          simp only [List.getLast?_singleton, Option.some.injEq] at hy
          subst hy
          -- the parent is already a common ancestor, so it is the lowest one
          have hp_d : Anc l p d := by
            by_cases hpd : Anc l p d
            · exact hpd
            · obtain ⟨r, hr⟩ := pathOf_head e2
              rw [hr, T.tw_pos sd _ hpd] at hnil
              cases hnil
          have : p = s := (T.anc_antisymm s1 (s3 p (Anc.refl _) hp_d) e2).symm
          rw [← this]; exact parb
        · rw [List.getLast?_cons_of_ne_nil hnil] at hy
          exact hlast y hy

end TreeInv

theorem mem_takeWhile_pred {α : Type} {p : α → Bool} {xs : List α} {x : α} (h : x ∈ xs.takeWhile p) : p x = true := by
  induction xs with
  | nil => simp at h
  | cons a r ih =>
    by_cases ha : p a = true
    · rw [List.takeWhile_cons_of_pos ha] at h
      rcases List.mem_cons.1 h with e | h
      · subst e; exact ha
      · exact ih h
    · rw [List.takeWhile_cons_of_neg ha] at h
      cases h

theorem findUndoTodo_fst (l : L) (cur dest : Nat) :
    (findUndoTodo l cur dest).1 = (pathOf l cur).takeWhile (fun b => !(pathOf l dest).contains b) := rfl

theorem findUndoTodo_snd (l : L) (cur dest : Nat) :
    (findUndoTodo l cur dest).2 = (pathOf l dest).takeWhile (fun b => !(pathOf l cur).contains b) := rfl

/-- `findUndoTodo` under the tree invariant, for stored `cur` and `dest`: with `s` their lowest common ancestor, the
path of `cur` is `undo` followed by the path of `s`, the path of `dest` is `todo` followed by the path of `s` (so
`undo` / `todo` are the ancestors of `cur` / `dest` strictly above `s`, newest first), the two lists share no block,
and the last block of each has `s` as parent. -/
theorem findUndoTodo_spec {l : L} (T : TreeInv l) {cur dest : Nat} {hc hd : Hdr} (sc : lookup l.B cur = some hc)
    (sd : lookup l.B dest = some hd) :
    ∃ s, IsLCA l s cur dest ∧
      pathOf l cur = (findUndoTodo l cur dest).1 ++ pathOf l s ∧
      pathOf l dest = (findUndoTodo l cur dest).2 ++ pathOf l s ∧
      (∀ x, x ∈ (findUndoTodo l cur dest).1 ↔ Anc l x cur ∧ ¬ Anc l x dest) ∧
      (∀ x, x ∈ (findUndoTodo l cur dest).2 ↔ Anc l x dest ∧ ¬ Anc l x cur) ∧
      (∀ x, x ∈ (findUndoTodo l cur dest).1 → x ∉ (findUndoTodo l cur dest).2) ∧
      (∀ y, (findUndoTodo l cur dest).1.getLast? = some y → par l y = some s) ∧
      (∀ y, (findUndoTodo l cur dest).2.getLast? = some y → par l y = some s) := by
  obtain ⟨s, L1, p1, g1⟩ := T.undo_spec sc sd
  obtain ⟨s', L2, p2, g2⟩ := T.undo_spec sd sc
  have es : s' = s := IsLCA.unique T sd L2 L1.symm
  subst es
  rw [findUndoTodo_fst, findUndoTodo_snd]
  have memU : ∀ (a b : Nat) (ha hb : Hdr) (z : Nat), lookup l.B a = some ha → lookup l.B b = some hb → IsLCA l z a b →
      pathOf l a = (pathOf l a).takeWhile (fun x => !(pathOf l b).contains x) ++ pathOf l z →
      ∀ x, x ∈ (pathOf l a).takeWhile (fun x => !(pathOf l b).contains x) ↔ Anc l x a ∧ ¬ Anc l x b := by
    intro a b ha hb z sa sb Lz hp x
    constructor
    · intro hx
      exact ⟨(T.mem_pathOf_iff sa).1 (List.takeWhile_subset _ hx), (T.notIn_eq sb x).1 (mem_takeWhile_pred (p := fun x => !(pathOf l b).contains x) hx)⟩
    · rintro ⟨h1, h2⟩
      have : x ∈ pathOf l a := (T.mem_pathOf_iff sa).2 h1
      rw [hp] at this
      rcases List.mem_append.1 this with h | h
      · exact h
      · obtain ⟨zb, sz⟩ := T.anc_stored Lz.1 sa
        exact absurd (((T.mem_pathOf_iff sz).1 h).trans Lz.2.1) h2
  have m1 := memU cur dest hc hd s' sc sd L1 p1
  have m2 := memU dest cur hd hc s' sd sc L2 p2
  refine ⟨s', L1, p1, p2, m1, m2, ?_, g1, g2⟩
  intro x hx hx'
  exact ((m1 x).1 hx).2 ((m2 x).1 hx').1

end XV.Ledger
