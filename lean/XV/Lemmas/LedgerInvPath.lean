import XV.Lemmas.LedgerInvDef
/-!
Ledger main-chain invariant, part 8: the model's fuel-driven `ancestors` / `pathOf` coincide with the ancestor
relation under the tree invariant (the fuel `B.length + 1` always suffices), and `findUndoTodo`.
-/
namespace XV.Ledger
open XV.Chain (lookup put del lookup_put lookup_del lookup_put_same lookup_cons lookup_nil)

theorem lookup_mem_keys {ν : Type} (m : List (Nat × ν)) (k : Nat) (v : ν) (h : lookup m k = some v) : k ∈ m.map (·.1) := by
  induction m with
  | nil => simp at h
  | cons p m ih =>
    obtain ⟨a, b⟩ := p
    rw [lookup_cons] at h
    by_cases e : a = k
    · simp [e]
    · rw [if_neg e] at h
      simp [ih h]

theorem lookup_mem {ν : Type} (m : List (Nat × ν)) (k : Nat) (v : ν) (h : lookup m k = some v) : (k, v) ∈ m := by
  induction m with
  | nil => simp at h
  | cons p m ih =>
    obtain ⟨a, b⟩ := p
    rw [lookup_cons] at h
    by_cases e : a = k
    · rw [if_pos e] at h; cases h; simp [e]
    · rw [if_neg e] at h
      simp [ih h]

theorem ancestors_succ_of_lookup {l : L} {b : Nat} {h : Hdr} (hb : lookup l.B b = some h) (fuel : Nat) :
    ancestors l (fuel + 1) b = b :: (match h.pre with | some p => ancestors l fuel p | none => []) := by
  simp only [ancestors, hb]
  cases h.pre <;> rfl

theorem ancestors_unstored {l : L} {b : Nat} (hb : lookup l.B b = none) (fuel : Nat) : ancestors l fuel b = [] := by
  cases fuel with
  | zero => rfl
  | succ n => simp [ancestors, hb]

theorem mem_ancestors_anc {l : L} {fuel a b : Nat} (h : a ∈ ancestors l fuel b) : Anc l a b := by
  induction fuel generalizing b with
  | zero => simp [ancestors] at h
  | succ n ih =>
    cases hb : lookup l.B b with
    | none => rw [ancestors_unstored hb] at h; cases h
    | some hd =>
      rw [ancestors_succ_of_lookup hb] at h
      rcases List.mem_cons.1 h with e | h
      · subst e; exact Anc.refl _
      · cases hp : hd.pre with
        | none => simp [hp] at h
        | some p =>
          simp only [hp] at h
          exact Anc.step (by rw [par_of_lookup hb, hp]) (ih h)

namespace TreeInv
variable {l : L}

theorem ancestors_fuel (T : TreeInv l) {b : Nat} {h : Hdr} (hb : lookup l.B b = some h) {f1 f2 : Nat}
    (h1 : h.height < f1) (h2 : h.height < f2) : ancestors l f1 b = ancestors l f2 b := by
  induction f1 generalizing f2 b h with
  | zero => omega
  | succ n ih =>
    cases f2 with
    | zero => omega
    | succ m =>
      rw [ancestors_succ_of_lookup hb, ancestors_succ_of_lookup hb]
      cases hp : h.pre with
      | none => rfl
      | some p =>
        simp only
        obtain ⟨_, ph, s1, _, s2, hh⟩ := T.par_stored (b := b) (p := p) (by rw [par_of_lookup hb, hp])
        rw [hb] at s1; cases s1
        rw [ih s2 (f2 := m) (by omega) (by omega)]

theorem ancestors_cons (T : TreeInv l) {b p : Nat} {h : Hdr} (hb : lookup l.B b = some h) (hp : h.pre = some p)
    {fuel : Nat} (hf : h.height < fuel) : ancestors l fuel b = b :: ancestors l fuel p := by
  cases fuel with
  | zero => omega
  | succ n =>
    rw [ancestors_succ_of_lookup hb, hp]
    simp only
    obtain ⟨_, ph, s1, _, s2, hh⟩ := T.par_stored (b := b) (p := p) (by rw [par_of_lookup hb, hp])
    rw [hb] at s1; cases s1
    rw [T.ancestors_fuel s2 (f1 := n) (f2 := n + 1) (by omega) (by omega)]

theorem ancestors_root (T : TreeInv l) {fuel : Nat} (hf : 0 < fuel) : ancestors l fuel l.root = [l.root] := by
  obtain ⟨h, h1, h2, _⟩ := T.root
  cases fuel with
  | zero => omega
  | succ n => rw [ancestors_succ_of_lookup h1, h2]

theorem anc_mem_ancestors (T : TreeInv l) {a b : Nat} (hab : Anc l a b) {h : Hdr} (hb : lookup l.B b = some h)
    {fuel : Nat} (hf : h.height < fuel) : a ∈ ancestors l fuel b := by
  induction hab generalizing h with
  | refl =>
    cases fuel with
    | zero => omega
    | succ n => rw [ancestors_succ_of_lookup hb]; exact List.mem_cons_self
  | step hp _ ih =>
    obtain ⟨_, ph, s1, e1, s2, hh⟩ := T.par_stored hp
    rw [hb] at s1; cases s1
    rw [T.ancestors_cons hb e1 hf]
    exact List.mem_cons_of_mem _ (ih s2 (by omega))

theorem mem_ancestors_iff (T : TreeInv l) {a b : Nat} {h : Hdr} (hb : lookup l.B b = some h) {fuel : Nat}
    (hf : h.height < fuel) : a ∈ ancestors l fuel b ↔ Anc l a b :=
  ⟨mem_ancestors_anc, fun hab => T.anc_mem_ancestors hab hb hf⟩

theorem ancestors_length (T : TreeInv l) {b : Nat} {h : Hdr} (hb : lookup l.B b = some h) {fuel : Nat}
    (hf : h.height < fuel) : (ancestors l fuel b).length = h.height + 1 := by
  generalize hn : h.height = n
  induction n generalizing b h fuel with
  | zero =>
    have := T.height_zero hb hn
    subst this
    rw [T.ancestors_root (by omega)]; rfl
  | succ n ih =>
    have hne : b ≠ l.root := by
      intro e; subst e
      obtain ⟨h', h1, _, h3⟩ := T.root
      rw [hb] at h1; cases h1; omega
    obtain ⟨p, ph, e1, e2, e3⟩ := T.parent b h hb hne
    rw [T.ancestors_cons hb e1 hf, List.length_cons, ih e2 (by omega) (by omega)]

theorem ancestors_nodup (T : TreeInv l) {b : Nat} {h : Hdr} (hb : lookup l.B b = some h) {fuel : Nat}
    (hf : h.height < fuel) : (ancestors l fuel b).Nodup := by
  generalize hn : h.height = n
  induction n generalizing b h fuel with
  | zero =>
    have := T.height_zero hb hn
    subst this
    rw [T.ancestors_root (by omega)]; simp
  | succ n ih =>
    have hne : b ≠ l.root := by
      intro e; subst e
      obtain ⟨h', h1, _, h3⟩ := T.root
      rw [hb] at h1; cases h1; omega
    obtain ⟨p, ph, e1, e2, e3⟩ := T.parent b h hb hne
    rw [T.ancestors_cons hb e1 hf, List.nodup_cons]
    refine ⟨?_, ih e2 (by omega) (by omega)⟩
    intro hm
    exact T.not_anc_of_lt' hb e2 (by omega) (mem_ancestors_anc hm)

/-- the stored blocks outnumber the height of any of them: the fuel `B.length + 1` suffices for every walk -/
theorem height_lt_length (T : TreeInv l) {b : Nat} {h : Hdr} (hb : lookup l.B b = some h) : h.height < l.B.length := by
  have h1 := T.ancestors_length hb (fuel := h.height + 1) (by omega)
  have h2 := T.ancestors_nodup hb (fuel := h.height + 1) (by omega)
  have h3 : ancestors l (h.height + 1) b ⊆ l.B.map (·.1) := by
    intro a ha
    obtain ⟨x, sx⟩ := T.anc_stored (mem_ancestors_anc ha) hb
    exact lookup_mem_keys _ _ _ sx
  have := h2.length_le_of_subset h3
  rw [h1, List.length_map] at this
  omega

theorem pathOf_cons (T : TreeInv l) {b p : Nat} {h : Hdr} (hb : lookup l.B b = some h) (hp : h.pre = some p) :
    pathOf l b = b :: pathOf l p := by
  unfold pathOf
  have := T.height_lt_length hb
  exact T.ancestors_cons hb hp (by omega)

theorem pathOf_root (T : TreeInv l) : pathOf l l.root = [l.root] := T.ancestors_root (by omega)

theorem mem_pathOf_iff (T : TreeInv l) {a b : Nat} {h : Hdr} (hb : lookup l.B b = some h) :
    a ∈ pathOf l b ↔ Anc l a b := by
  unfold pathOf
  have := T.height_lt_length hb
  exact T.mem_ancestors_iff hb (by omega)

theorem pathOf_length (T : TreeInv l) {b : Nat} {h : Hdr} (hb : lookup l.B b = some h) :
    (pathOf l b).length = h.height + 1 := by
  unfold pathOf
  have := T.height_lt_length hb
  exact T.ancestors_length hb (by omega)

end TreeInv
end XV.Ledger
