import XV.Model.Chain
/-! lemmas about the association-list maps of the chain / ledger models -/
namespace XV.Chain

variable {κ ν : Type} [DecidableEq κ]

@[simp] theorem lookup_nil (k : κ) : lookup ([] : List (κ × ν)) k = none := rfl

theorem lookup_cons (k' : κ) (v : ν) (m : List (κ × ν)) (k : κ) :
    lookup ((k', v) :: m) k = if k' = k then some v else lookup m k := rfl

theorem lookup_del (m : List (κ × ν)) (k k' : κ) :
    lookup (del m k) k' = if k = k' then none else lookup m k' := by
  induction m with
  | nil => simp [del]
  | cons p m ih =>
    obtain ⟨a, b⟩ := p
    unfold del at ih ⊢
    by_cases h : a = k
    · subst h
      simp only [List.filter_cons, ne_eq, not_true_eq_false, decide_false]
      simp only [Bool.false_eq_true, ↓reduceIte]
      rw [ih, lookup_cons]
      by_cases h2 : a = k'
      · simp [h2]
      · simp [h2]
    · simp only [List.filter_cons, ne_eq, h, not_false_eq_true, decide_true, ↓reduceIte]
      rw [lookup_cons, lookup_cons, ih]
      by_cases h2 : a = k'
      · subst h2
        have : ¬ k = a := fun e => h e.symm
        simp [this]
      · simp [h2]

theorem lookup_put (m : List (κ × ν)) (k : κ) (v : ν) (k' : κ) :
    lookup (put m k v) k' = if k = k' then some v else lookup m k' := by
  unfold put
  rw [lookup_cons, lookup_del]
  by_cases h : k = k' <;> simp [h]

theorem lookup_put_same (m : List (κ × ν)) (k : κ) (v : ν) : lookup (put m k v) k = some v := by
  rw [lookup_put]; simp

theorem lookup_del_same (m : List (κ × ν)) (k : κ) : lookup (del m k) k = none := by
  rw [lookup_del]; simp

end XV.Chain
