import XV.Lemmas.UndoFee
import XV.Props.C03
/-!
Block level: the forward run `applyBlockTxs` with nothing pre-applied (as `todoBlock` calls it), the backward run of
`undoBlock`, and how freshness of transaction ids travels along the forward run.
-/
namespace XV.Chain

/-- the transaction loop of `undoBlock`: newest first, each `undoTx` followed by `undoPayFee` -/
def undoTxs (e : Env) (l : List Nat) (s : St) : St :=
  l.reverse.foldl (fun st i => let t := e.tx i; undoPayFee t t.outs 0 (undoTx e st t)) s

theorem undoTxs_nil (e : Env) (s : St) : undoTxs e [] s = s := rfl

theorem undoTxs_cons (e : Env) (i : Nat) (rest : List Nat) (s : St) :
    undoTxs e (i :: rest) s = undoPayFee (e.tx i) (e.tx i).outs 0 (undoTx e (undoTxs e rest s) (e.tx i)) := by
  unfold undoTxs
  simp only [List.reverse_cons, List.foldl_append, List.foldl_cons, List.foldl_nil]

theorem undoBlock_eq (e : Env) (s : St) (b : Block) (prune : Bool) :
    undoBlock e s b prune = { undoTxs e b.txs s with
      pointer := b.pre.getD 0,
      irrev := if prune then nextIrrevPrune e.window s.irrev b.height else s.irrev } := rfl

/-- one forward step of a block: apply, then pay the fee to the proposer -/
def blockStep (e : Env) (prop : String) (i : Nat) (s : St) : St :=
  payFee (e.tx i) prop (e.tx i).outs 0 (applyTx s (e.tx i))

theorem applyBlockTxs_nil_ok (e : Env) (lh : Int) (prop : String) (s s2 : St)
    (h : applyBlockTxs e lh prop [] [] s = some (s2, .ok)) : s2 = s := by
  simp only [applyBlockTxs, Option.some.injEq, Prod.mk.injEq, and_true] at h
  exact h.symm

/-- a successful forward run admits its first transaction and continues from `blockStep` -/
theorem applyBlockTxs_cons_ok (e : Env) (lh : Int) (prop : String) (i : Nat) (rest : List Nat) (s s2 : St)
    (h : applyBlockTxs e lh prop [] (i :: rest) s = some (s2, .ok)) :
    admitTx s lh (e.tx i) = .ok ∧ applyBlockTxs e lh prop [] rest (blockStep e prop i s) = some (s2, .ok) := by
  unfold applyBlockTxs at h
  simp only [List.contains_nil, Bool.false_eq_true, ↓reduceIte] at h
  cases hadm : admitTx s lh (e.tx i) <;> simp only [hadm] at h
  · exact ⟨rfl, h⟩
  all_goals (simp only [Option.some.injEq, Prod.mk.injEq, reduceCtorEq, and_false] at h)

/-- rows of other transaction ids stay absent across a forward step -/
theorem blockStep_absent (e : Env) (prop : String) (i : Nat) (s : St) (k : Ver) (hk : k.1 ≠ (e.tx i).id)
    (h : lookup s.U k = none) : lookup (blockStep e prop i s).U k = none := by
  unfold blockStep
  rw [payFee_nofee _ _ _ _ _ _ (fun hf => hk (isFeeKey_id _ _ _ _ hf))]
  exact XV.C03.spent_stays_spent s (e.tx i) k hk h

theorem blockStep_KVInv (e : Env) (prop : String) (i : Nat) (s : St) (hid : e.tx (e.tx i).id = e.tx i)
    (h : KVInv e s) : KVInv e (blockStep e prop i s) := by
  unfold blockStep
  obtain ⟨f1, f2, _⟩ := payFee_frame (e.tx i) prop (e.tx i).outs 0 (applyTx s (e.tx i))
  exact KVInv_of_tables e _ _ (applyTx_KVInv' e s (e.tx i) hid h) f1 f2

theorem blockStep_frame (e : Env) (prop : String) (i : Nat) (s : St) :
    (blockStep e prop i s).pointer = s.pointer ∧ (blockStep e prop i s).irrev = s.irrev ∧
    (blockStep e prop i s).pool = s.pool := by
  unfold blockStep
  obtain ⟨_, _, _, f1, f2, f3⟩ := payFee_frame (e.tx i) prop (e.tx i).outs 0 (applyTx s (e.tx i))
  obtain ⟨a1, a2, a3⟩ := applyTx_frame s (e.tx i)
  exact ⟨f1.trans a1, f2.trans a2, f3.trans a3⟩

/-- the forward run without the admission checks -/
def replayTxs (e : Env) (prop : String) (l : List Nat) (s : St) : St :=
  l.foldl (fun st i => blockStep e prop i st) s

theorem replayTxs_cons (e : Env) (prop : String) (i : Nat) (rest : List Nat) (s : St) :
    replayTxs e prop (i :: rest) s = replayTxs e prop rest (blockStep e prop i s) := rfl

/-- a successful forward run returns exactly the replay -/
theorem applyBlockTxs_ok_eq (e : Env) (lh : Int) (prop : String) (l : List Nat) (s s2 : St)
    (h : applyBlockTxs e lh prop [] l s = some (s2, .ok)) : s2 = replayTxs e prop l s := by
  induction l generalizing s with
  | nil => exact applyBlockTxs_nil_ok e lh prop s s2 h
  | cons i rest ih =>
    obtain ⟨_, hrest⟩ := applyBlockTxs_cons_ok e lh prop i rest s s2 h
    rw [replayTxs_cons]
    exact ih _ hrest

theorem replayTxs_frame (e : Env) (prop : String) (l : List Nat) (s : St) :
    (replayTxs e prop l s).pointer = s.pointer ∧ (replayTxs e prop l s).irrev = s.irrev ∧
    (replayTxs e prop l s).pool = s.pool := by
  induction l generalizing s with
  | nil => exact ⟨rfl, rfl, rfl⟩
  | cons i rest ih =>
    rw [replayTxs_cons]
    obtain ⟨a1, a2, a3⟩ := ih (blockStep e prop i s)
    obtain ⟨b1, b2, b3⟩ := blockStep_frame e prop i s
    exact ⟨a1.trans b1, a2.trans b2, a3.trans b3⟩

theorem undoTxs_frame (e : Env) (l : List Nat) (s : St) :
    (undoTxs e l s).pointer = s.pointer ∧ (undoTxs e l s).irrev = s.irrev ∧ (undoTxs e l s).pool = s.pool := by
  induction l with
  | nil => exact ⟨rfl, rfl, rfl⟩
  | cons i rest ih =>
    rw [undoTxs_cons]
    obtain ⟨_, _, _, f1, f2, f3⟩ := undoPayFee_frame (e.tx i) (e.tx i).outs 0 (undoTx e (undoTxs e rest s) (e.tx i))
    obtain ⟨a1, a2, a3⟩ := undoTx_frame e (undoTxs e rest s) (e.tx i)
    exact ⟨f1.trans (a1.trans ih.1), f2.trans (a2.trans ih.2.1), f3.trans (a3.trans ih.2.2)⟩

end XV.Chain
