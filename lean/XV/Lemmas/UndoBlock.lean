import XV.Lemmas.UndoFee
import XV.Props.C03
/-!
Block level: the forward run `applyBlockTxs` with nothing pre-applied (as `todoBlock` calls it), the backward run of
`undoBlock`, and how freshness of transaction ids travels along the forward run.
-/
namespace XV.Chain

/-- the transaction loop of `undoBlock`: newest first, each `undoTx` followed by `undoPayFee` -/
def undoTxs (e : Env) (l : List Nat) (s : St) : St :=
  l.reverse.foldl (fun st i => let t := e.tx i; undoPayFee t t.outs 0 (undoTx e st t)) s

theorem undoTxs_nil (e : Env) (s : St) : undoTxs e [] s = s := rfl

theorem undoTxs_cons (e : Env) (i : Nat) (rest : List Nat) (s : St) :
    undoTxs e (i :: rest) s = undoPayFee (e.tx i) (e.tx i).outs 0 (undoTx e (undoTxs e rest s) (e.tx i)) := by
  unfold undoTxs
  simp only [List.reverse_cons, List.foldl_append, List.foldl_cons, List.foldl_nil]

theorem undoBlock_eq (e : Env) (s : St) (b : Block) (prune : Bool) :
    undoBlock e s b prune = { undoTxs e b.txs s with
      pointer := b.pre.getD 0,
      irrev := if prune then nextIrrevPrune e.window s.irrev b.height else s.irrev } := rfl

/-- one forward step of a block: apply, then pay the fee to the proposer -/
def blockStep (e : Env) (prop : String) (i : Nat) (s : St) : St :=
  payFee (e.tx i) prop (e.tx i).outs 0 (applyTx s (e.tx i))

theorem applyBlockTxs_nil_ok (e : Env) (lh : Int) (prop : String) (s s2 : St)
    (h : applyBlockTxs e lh prop [] [] s = some (s2, .ok)) : s2 = s := by
  simp only [applyBlockTxs, Option.some.injEq, Prod.mk.injEq, and_true] at h
  exact h.symm

/-- a successful forward run admits its first transaction and continues from `blockStep` -/
theorem applyBlockTxs_cons_ok (e : Env) (lh : Int) (prop : String) (i : Nat) (rest : List Nat) (s s2 : St)
    (h : applyBlockTxs e lh prop [] (i :: rest) s = some (s2, .ok)) :
    admitTx s lh (e.tx i) = .ok ∧ applyBlockTxs e lh prop [] rest (blockStep e prop i s) = some (s2, .ok) := by
  unfold applyBlockTxs at h
  simp only [List.contains_nil, Bool.false_eq_true, ↓reduceIte] at h
  cases hadm : admitTx s lh (e.tx i) <;> simp only [hadm] at h
  · exact ⟨rfl, h⟩
  all_goals (simp only [Option.some.injEq, Prod.mk.injEq, reduceCtorEq, and_false] at h)

/-- rows of other transaction ids stay absent across a forward step -/
theorem blockStep_absent (e : Env) (prop : String) (i : Nat) (s : St) (k : Ver) (hk : k.1 ≠ (e.tx i).id)
    (h : lookup s.U k = none) : lookup (blockStep e prop i s).U k = none := by
  unfold blockStep
  rw [payFee_nofee _ _ _ _ _ _ (fun hf => hk (isFeeKey_id _ _ _ _ hf))]
  exact XV.C03.spent_stays_spent s (e.tx i) k hk h

theorem blockStep_KVInv (e : Env) (prop : String) (i : Nat) (s : St) (hid : e.tx (e.tx i).id = e.tx i)
    (h : KVInv e s) : KVInv e (blockStep e prop i s) := by
  unfold blockStep
  obtain ⟨f1, f2, _⟩ := payFee_frame (e.tx i) prop (e.tx i).outs 0 (applyTx s (e.tx i))
  exact KVInv_of_tables e _ _ (applyTx_KVInv' e s (e.tx i) hid h) f1 f2

theorem blockStep_frame (e : Env) (prop : String) (i : Nat) (s : St) :
    (blockStep e prop i s).pointer = s.pointer ∧ (blockStep e prop i s).irrev = s.irrev ∧
    (blockStep e prop i s).pool = s.pool := by
  unfold blockStep
  obtain ⟨_, _, _, f1, f2, f3⟩ := payFee_frame (e.tx i) prop (e.tx i).outs 0 (applyTx s (e.tx i))
  obtain ⟨a1, a2, a3⟩ := applyTx_frame s (e.tx i)
  exact ⟨f1.trans a1, f2.trans a2, f3.trans a3⟩

/-- the forward run without the admission checks -/
def replayTxs (e : Env) (prop : String) (l : List Nat) (s : St) : St :=
  l.foldl (fun st i => blockStep e prop i st) s

theorem replayTxs_cons (e : Env) (prop : String) (i : Nat) (rest : List Nat) (s : St) :
    replayTxs e prop (i :: rest) s = replayTxs e prop rest (blockStep e prop i s) := rfl

/-- a successful forward run returns exactly the replay -/
theorem applyBlockTxs_ok_eq (e : Env) (lh : Int) (prop : String) (l : List Nat) (s s2 : St)
    (h : applyBlockTxs e lh prop [] l s = some (s2, .ok)) : s2 = replayTxs e prop l s := by
  induction l generalizing s with
  | nil => exact applyBlockTxs_nil_ok e lh prop s s2 h
  | cons i rest ih =>
    obtain ⟨_, hrest⟩ := applyBlockTxs_cons_ok e lh prop i rest s s2 h
    rw [replayTxs_cons]
    exact ih _ hrest

theorem replayTxs_frame (e : Env) (prop : String) (l : List Nat) (s : St) :
    (replayTxs e prop l s).pointer = s.pointer ∧ (replayTxs e prop l s).irrev = s.irrev ∧
    (replayTxs e prop l s).pool = s.pool := by
  induction l generalizing s with
  | nil => exact ⟨rfl, rfl, rfl⟩
  | cons i rest ih =>
    rw [replayTxs_cons]
    obtain ⟨a1, a2, a3⟩ := ih (blockStep e prop i s)
    obtain ⟨b1, b2, b3⟩ := blockStep_frame e prop i s
    exact ⟨a1.trans b1, a2.trans b2, a3.trans b3⟩

theorem undoTxs_frame (e : Env) (l : List Nat) (s : St) :
    (undoTxs e l s).pointer = s.pointer ∧ (undoTxs e l s).irrev = s.irrev ∧ (undoTxs e l s).pool = s.pool := by
  induction l with
  | nil => exact ⟨rfl, rfl, rfl⟩
  | cons i rest ih =>
    rw [undoTxs_cons]
    obtain ⟨_, _, _, f1, f2, f3⟩ := undoPayFee_frame (e.tx i) (e.tx i).outs 0 (undoTx e (undoTxs e rest s) (e.tx i))
    obtain ⟨a1, a2, a3⟩ := undoTx_frame e (undoTxs e rest s) (e.tx i)
    exact ⟨f1.trans (a1.trans ih.1), f2.trans (a2.trans ih.2.1), f3.trans (a3.trans ih.2.2)⟩

-- ------------------------------------------------------------------ replay of blocks and chains

/-- what `todoBlock` returns when it succeeds -/
def replayBlock (e : Env) (s : St) (b : Block) : St :=
  { replayTxs e b.prop b.txs s with pointer := b.id, irrev := nextIrrev e.window s.irrev b.height }

theorem todoBlock_eq (e : Env) (s s' : St) (lh : Int) (b : Block) (h : todoBlock e s lh b = some s') :
    s' = replayBlock e s b ∧ ∃ s2, applyBlockTxs e lh b.prop [] b.txs s = some (s2, .ok) := by
  unfold todoBlock at h
  split at h
  · cases h
  · split at h
    · rename_i s2 hfwd
      simp only [Option.some.injEq] at h
      refine ⟨?_, s2, hfwd⟩
      rw [← h, applyBlockTxs_ok_eq e lh b.prop b.txs s s2 hfwd]
      rfl
    · cases h

/-- blocks applied one after the other (oldest first) -/
def replayChain (e : Env) (l : List Nat) (s : St) : St :=
  l.foldl (fun st bi => replayBlock e st (e.block bi)) s

theorem replayChain_cons (e : Env) (bi : Nat) (rest : List Nat) (s : St) :
    replayChain e (bi :: rest) s = replayChain e rest (replayBlock e s (e.block bi)) := rfl

theorem replayChain_snoc (e : Env) (l : List Nat) (bi : Nat) (s : St) :
    replayChain e (l ++ [bi]) s = replayBlock e (replayChain e l s) (e.block bi) := by
  unfold replayChain
  rw [List.foldl_append]; rfl

/-- a completed apply loop of `walk` is the replay of its list -/
theorem todoAll_eq (e : Env) (lh : Int) (l : List Nat) (st : St) (h : (walk.todoAll e lh l st).2 = true) :
    (walk.todoAll e lh l st).1 = replayChain e l st := by
  induction l generalizing st with
  | nil => rfl
  | cons bi rest ih =>
    unfold walk.todoAll at h ⊢
    split
    · rename_i st' heq
      simp only [heq] at h
      rw [ih st' h, replayChain_cons, (todoBlock_eq e st st' lh (e.block bi) heq).1]
    · rename_i heq
      simp [heq] at h

/-- `TRefines` does not look at pointer, irreversible height, pool -/
theorem TRefines.setMeta {x r : St} (h : TRefines x r) (p p' : Nat) (i i' : Int) (q q' : List Nat) :
    TRefines { x with pointer := p, irrev := i, pool := q } { r with pointer := p', irrev := i', pool := q' } :=
  ⟨⟨h.obs.U, h.obs.ver, h.obs.total⟩, h.ZU, h.ZD⟩

theorem TRefines.of_tables {x x' r r' : St} (h : TRefines x r)
    (hx : x'.U = x.U ∧ x'.ZU = x.ZU ∧ x'.ZD = x.ZD ∧ x'.total = x.total)
    (hr : r'.U = r.U ∧ r'.ZU = r.ZU ∧ r'.ZD = r.ZD ∧ r'.total = r.total) : TRefines x' r' := by
  obtain ⟨x1, x2, x3, x4⟩ := hx
  obtain ⟨r1, r2, r3, r4⟩ := hr
  refine ⟨⟨fun k => ?_, fun key => ?_, ?_⟩, fun k => ?_, fun k m => ?_⟩
  · rw [x1, r1]; exact h.obs.U k
  · exact (curVer_congr_tables x' x key (by rw [x2]) (by rw [x3])).trans
      ((h.obs.ver key).trans (curVer_congr_tables r r' key (by rw [r2]) (by rw [r3])))
  · rw [x4, r4]; exact h.obs.total
  · rw [x2, r2]; exact h.ZU k
  · rw [x3, r3]; exact h.ZD k m

theorem blockStep_trefines (e : Env) (prop : String) (i : Nat) (x r : St) (h : TRefines x r) :
    TRefines (blockStep e prop i x) (blockStep e prop i r) :=
  payFee_trefines _ _ _ _ _ _ (applyTx_trefines x r (e.tx i) h)

theorem replayTxs_trefines (e : Env) (prop : String) (l : List Nat) (x r : St) (h : TRefines x r) :
    TRefines (replayTxs e prop l x) (replayTxs e prop l r) := by
  induction l generalizing x r with
  | nil => exact h
  | cons i rest ih => exact ih _ _ (blockStep_trefines e prop i x r h)

theorem replayBlock_trefines (e : Env) (b : Block) (x r : St) (h : TRefines x r) :
    TRefines (replayBlock e x b) (replayBlock e r b) :=
  (replayTxs_trefines e b.prop b.txs x r h).of_tables ⟨rfl, rfl, rfl, rfl⟩ ⟨rfl, rfl, rfl, rfl⟩

/-- replay is monotone for the refinement: no admission check is involved -/
theorem replayChain_trefines (e : Env) (l : List Nat) (x r : St) (h : TRefines x r) :
    TRefines (replayChain e l x) (replayChain e l r) := by
  induction l generalizing x r with
  | nil => exact h
  | cons bi rest ih => exact ih _ _ (replayBlock_trefines e (e.block bi) x r h)

theorem replayTxs_KVInv (e : Env) (prop : String) (l : List Nat) (s : St)
    (hid : ∀ i ∈ l, e.tx (e.tx i).id = e.tx i) (h : KVInv e s) : KVInv e (replayTxs e prop l s) := by
  induction l generalizing s with
  | nil => exact h
  | cons i rest ih =>
    rw [replayTxs_cons]
    exact ih _ (fun j hj => hid j (List.mem_cons_of_mem _ hj))
      (blockStep_KVInv e prop i s (hid i List.mem_cons_self) h)

theorem replayBlock_KVInv (e : Env) (b : Block) (s : St)
    (hid : ∀ i ∈ b.txs, e.tx (e.tx i).id = e.tx i) (h : KVInv e s) : KVInv e (replayBlock e s b) :=
  KVInv_of_tables e _ _ (replayTxs_KVInv e b.prop b.txs s hid h) rfl rfl

/-- the pool as a sequence of applications (the pool field itself is not modelled here) -/
def applyPool (e : Env) (l : List Nat) (s : St) : St := l.foldl (fun st i => applyTx st (e.tx i)) s

theorem applyPool_cons (e : Env) (i : Nat) (rest : List Nat) (s : St) :
    applyPool e (i :: rest) s = applyPool e rest (applyTx s (e.tx i)) := rfl

/-- the roll-back loop of `walk` step 1 -/
def rollback (e : Env) (l : List Nat) (s : St) : St := l.reverse.foldl (fun st i => undoTx e st (e.tx i)) s

theorem rollback_cons (e : Env) (i : Nat) (rest : List Nat) (s : St) :
    rollback e (i :: rest) s = undoTx e (rollback e rest s) (e.tx i) := by
  unfold rollback
  simp only [List.reverse_cons, List.foldl_append, List.foldl_cons, List.foldl_nil]

/-- checkable form of "no output row of transaction `i` exists" -/
theorem absent_of_rows (u : List (Ver × UItem)) (i : Nat) (h : ∀ p ∈ u, p.1.1 ≠ i) :
    ∀ o, lookup u (i, o) = none := by
  intro o
  cases hl : lookup u (i, o) with
  | none => rfl
  | some v => exact absurd rfl (h _ (lookup_mem u (i, o) v hl))

/-- checkable form of "the forward run succeeds" -/
theorem fwd_of_res (e : Env) (lh : Int) (prop : String) (l : List Nat) (s : St)
    (h : (applyBlockTxs e lh prop [] l s).map (·.2) = some .ok) :
    ∃ s2, applyBlockTxs e lh prop [] l s = some (s2, .ok) := by
  cases hr : applyBlockTxs e lh prop [] l s with
  | none => simp [hr] at h
  | some p =>
    obtain ⟨s2, res⟩ := p
    simp only [hr, Option.map_some, Option.some.injEq] at h
    exact ⟨s2, by rw [← h]⟩

end XV.Chain
