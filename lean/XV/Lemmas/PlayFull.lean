import XV.Lemmas.InvLive
import XV.Lemmas.InvLedger
/-!
Facts about an accepted `play` that do not need the hypothesis "nothing of the block is evicted":

* the evicted set is a set of pending transactions, closed under the dependents graph — in particular whoever
  cites an evicted transaction is evicted (`playEvict_sub_pool`, `playEvict_closed`, `playEvict_cited`);
* after the eviction no row carries the id of an evicted transaction (`undoFold_Live_gone`), so a pending member
  of the block that was rolled back with an evicted transaction is, for the block run, a *new* transaction;
* the repaired `processUnconfirmTxs` (`parentMissing`) gives the block order for free: no transaction of an
  accepted block cites (token input or key version read) a pending transaction that stands later in the block
  (`parentMissing_order`, `play_order_pending`, `play_order_pending_ins`, `play_order_pending_kin`).
-/
namespace XV.Chain

theorem playEvict_sub_pool (e : Env) (s : St) (b : Block) : ∀ x ∈ playEvict e s b, x ∈ s.pool := by
  apply closure_induct e s.pool (fun x => x ∈ s.pool)
  · intro x hx
    exact (List.mem_filter.mp (List.mem_filter.mp hx).1).1
  · intro c hc _ _ _
    exact hc

/-- the seeds of the eviction are outside the block: what of the block is evicted was pulled in as a dependent -/
theorem playEvict_closed (e : Env) (s : St) (b : Block) :
    ∀ p ∈ playEvict e s b, ∀ c ∈ s.pool, dependsOn e s.pool c p = true → c ∈ playEvict e s b :=
  closure_closed e s.pool s.pool.length _ (List.length_filter_le _ _)

/-- a pending transaction that spends an output of an evicted transaction is evicted -/
theorem playEvict_cited (e : Env) (s : St) (b : Block) (t : Nat) (ht : t ∈ playEvict e s b) (j : Nat)
    (hj : j ∈ s.pool) (hjt : j ≠ t) (r : InRef) (hr : r ∈ (e.tx j).ins) (hrt : r.tx = t) :
    j ∈ playEvict e s b := by
  apply playEvict_closed e s b t ht j hj
  unfold dependsOn
  simp only [Bool.and_eq_true, Bool.or_eq_true, List.any_eq_true, bne_iff_ne, ne_eq,
    List.contains_eq_mem, decide_eq_true_eq, beq_iff_eq]
  exact ⟨⟨hjt, playEvict_sub_pool e s b t ht⟩, Or.inl (Or.inl ⟨r, hr, hrt⟩)⟩

/-- a pending transaction that read a key version written by an evicted transaction is evicted -/
theorem playEvict_cited_ver (e : Env) (s : St) (b : Block) (t : Nat) (ht : t ∈ playEvict e s b) (j : Nat)
    (hj : j ∈ s.pool) (hjt : j ≠ t) (ki : KIn) (hki : ki ∈ (e.tx j).kin) (v : Ver) (hv : ki.ver = some v)
    (hvt : v.1 = t) : j ∈ playEvict e s b := by
  apply playEvict_closed e s b t ht j hj
  unfold dependsOn
  simp only [Bool.and_eq_true, Bool.or_eq_true, List.any_eq_true, bne_iff_ne, ne_eq,
    List.contains_eq_mem, decide_eq_true_eq]
  refine ⟨⟨hjt, playEvict_sub_pool e s b t ht⟩, Or.inl (Or.inr ⟨ki, hki, ?_⟩)⟩
  rw [hv]
  simpa using hvt

/-- after a closed, ordered list of live transactions is undone, no row carries the id of any of them -/
theorem undoFold_Live_gone (e : Env) (ev : List Nat) (s : St) (L : List Nat) (hl : Live e s.U L)
    (hnd : ev.Nodup) (hsub : ∀ t ∈ ev, t ∈ L)
    (hord : ev.Pairwise (fun a b => ∀ r ∈ (e.tx b).ins, r.tx ≠ a))
    (hclosed : ∀ t ∈ ev, ∀ j ∈ L, (∃ r ∈ (e.tx j).ins, r.tx = t) → j ∈ ev) :
    ∀ t ∈ ev, ∀ o, lookup (ev.foldl (fun st i => undoTx e st (e.tx i)) s).U (t, o) = none := by
  induction ev generalizing s L with
  | nil => intro t ht; cases ht
  | cons a rest ih =>
    intro t ht o
    simp only [List.nodup_cons] at hnd
    simp only [List.pairwise_cons] at hord
    have haL := hsub a List.mem_cons_self
    have hnc : ∀ j ∈ L, ∀ r ∈ (e.tx j).ins, r.tx ≠ a := by
      intro j hj r hr hrt
      rcases List.mem_cons.mp (hclosed a List.mem_cons_self j hj ⟨r, hr, hrt⟩) with hjt | hjr
      · exact hl.noSelf j hj r hr (hrt.trans hjt.symm)
      · exact hord.1 j hjr r hr hrt
    simp only [List.foldl_cons]
    rcases List.mem_cons.mp ht with hta | htr
    · rw [hta]
      apply undoFold_lookup_none
      · intro t' ht' r hr he
        injection he with e1 _
        exact hord.1 t' ht' r hr e1
      · exact undo_Live_gone e s L a hl haL o
    · have hmem : ∀ x, x ∈ L.filter (fun x => x != a) ↔ x ∈ L ∧ x ≠ a := by
        intro x; simp only [List.mem_filter, bne_iff_ne, ne_eq]
      exact ih (undoTx e s (e.tx a)) (L.filter (fun x => x != a)) (undo_Live e s L a hl haL hnc) hnd.2
        (fun t' ht' => (hmem t').mpr ⟨hsub t' (List.mem_cons_of_mem _ ht'), fun e2 => hnd.1 (e2 ▸ ht')⟩)
        hord.2
        (fun t' ht' j hj hc => by
          obtain ⟨hjL, hjt⟩ := (hmem j).mp hj
          rcases List.mem_cons.mp (hclosed t' (List.mem_cons_of_mem _ ht') j hjL hc) with h1 | h1
          · exact absurd h1 hjt
          · exact h1)
        t htr o

/-- **block order from the pool guard**: in a block that passes `parentMissing` (ids pairwise distinct), no
transaction cites — as the source of a token input or as the writer of a key version it read — a pending
transaction that stands later in the block -/
theorem parentMissing_order (e : Env) (pool before txs : List Nat)
    (h : parentMissing e pool before txs = false) (hnd : (before ++ txs).Nodup) :
    txs.Pairwise (fun a c => c ∈ pool → c ∉ refTxs (e.tx a)) := by
  induction txs generalizing before with
  | nil => exact List.Pairwise.nil
  | cons a rest ih =>
    unfold parentMissing at h
    simp only [Bool.or_eq_false_iff] at h
    apply List.Pairwise.cons
    · intro c hc hcp hcr
      have h1 := h.1
      simp only [List.any_eq_false, Bool.and_eq_true, Bool.not_eq_true', not_and, Bool.not_eq_false,
        List.contains_eq_mem, decide_eq_true_eq, decide_eq_false_iff_not, Decidable.not_not] at h1
      have hcb : c ∈ before := h1 c hcr hcp
      exact (List.nodup_append.mp hnd).2.2 c hcb c (List.mem_cons_of_mem _ hc) rfl
    · apply ih (before ++ [a]) h.2
      simpa [List.append_assoc] using hnd

theorem mem_refTxs_ins (t : Tx) (r : InRef) (hr : r ∈ t.ins) : r.tx ∈ refTxs t := by
  unfold refTxs
  exact List.mem_append_left _ (List.mem_map.mpr ⟨r, hr, rfl⟩)

theorem mem_refTxs_kin (t : Tx) (ki : KIn) (hki : ki ∈ t.kin) (v : Ver) (hv : ki.ver = some v) :
    v.1 ∈ refTxs t := by
  unfold refTxs
  apply List.mem_append_right
  apply List.mem_filterMap.mpr
  exact ⟨ki, hki, by rw [hv]; rfl⟩

/-- an accepted block is ordered with respect to the pending transactions it confirms -/
theorem play_order_pending (e : Env) (s : St) (lh : Int) (b : Block) (h : (play e s lh b).2 = .ok)
    (hnd : b.txs.Nodup) : b.txs.Pairwise (fun a c => c ∈ s.pool → c ∉ refTxs (e.tx a)) :=
  parentMissing_order e s.pool [] b.txs (play_ok_parents e s lh b h) (by simpa using hnd)

/-- token inputs: no transaction of an accepted block spends an output of a pending transaction that stands later -/
theorem play_order_pending_ins (e : Env) (s : St) (lh : Int) (b : Block) (h : (play e s lh b).2 = .ok)
    (hnd : b.txs.Nodup) : b.txs.Pairwise (fun a c => c ∈ s.pool → ∀ r ∈ (e.tx a).ins, r.tx ≠ c) :=
  by
  apply List.Pairwise.imp _ (play_order_pending e s lh b h hnd)
  intro a c hac hc r hr e2
  exact hac hc (e2 ▸ mem_refTxs_ins _ r hr)

/-- key reads: no transaction of an accepted block read a key version written by a pending transaction that stands later -/
theorem play_order_pending_kin (e : Env) (s : St) (lh : Int) (b : Block) (h : (play e s lh b).2 = .ok)
    (hnd : b.txs.Nodup) :
    b.txs.Pairwise (fun a c => c ∈ s.pool → ∀ ki ∈ (e.tx a).kin, ∀ v, ki.ver = some v → v.1 ≠ c) :=
  by
  apply List.Pairwise.imp _ (play_order_pending e s lh b h hnd)
  intro a c hac hc ki hki v hv e2
  exact hac hc (e2 ▸ mem_refTxs_kin _ ki hki v hv)

/-- every pending transaction an accepted block's transaction cites (token input or key read) is in the block -/
theorem play_refs_in_block (e : Env) (s : St) (lh : Int) (b : Block) (hok : (play e s lh b).2 = .ok) :
    ∀ i ∈ b.txs, ∀ p ∈ refTxs (e.tx i), p ∈ s.pool → p ∈ b.txs := by
  intro i hi p hp hpool
  have hpm := play_ok_parents e s lh b hok
  obtain ⟨pre, post, hsplit⟩ := List.append_of_mem hi
  have := parentMissing_false e s.pool [] b.txs hpm pre i post hsplit p hp hpool
  rw [hsplit]
  simp only [List.nil_append] at this
  exact List.mem_append_left _ this

end XV.Chain
