import XV.Model.Chain
/-!
The re-admission list of a walk (repaired `recoverUnconfirmedTx`): `repostList e s` = the pool of `s` in pool order without
the transactions of `e.skipRepost`. `e.skipRepost` is supplied per walk by the owner of the ledger (`walkEnv` of the
driver: the pending transactions whose recorded block and the destination are both on the main chain, the former not
higher — `isConfirmedOnCurrentChain`). What the theorems need of it is stated here as two explicit hypotheses on the
environment:

* `SkipsConfirmed e s Cnew` (completeness): every pending transaction that the log `Cnew` the walk ends on confirms is
  skipped — this is what removes the hypothesis `hre` of the walk theorems;
* `SkipsOnlyConfirmed e s Cnew` (soundness): only such transactions are skipped — needed where a theorem says that the
  node loses nothing (every rolled-back transaction is re-submitted or confirmed).
-/
namespace XV.Chain

theorem mem_repostList (e : Env) (s : St) (i : Nat) : i ∈ repostList e s ↔ i ∈ s.pool ∧ i ∉ e.skipRepost := by
  unfold repostList
  simp [List.mem_filter]

theorem repostList_sublist (e : Env) (s : St) : (repostList e s).Sublist s.pool := by
  unfold repostList
  exact List.filter_sublist

theorem repostList_subset (e : Env) (s : St) : ∀ i ∈ repostList e s, i ∈ s.pool :=
  fun i hi => ((mem_repostList e s i).mp hi).1

theorem repostList_nodup (e : Env) (s : St) (h : s.pool.Nodup) : (repostList e s).Nodup :=
  List.Sublist.nodup (repostList_sublist e s) h

/-- with nothing to skip (the default environment: the code as found) the whole rolled-back pool is re-submitted -/
theorem repostList_of_skip_nil (e : Env) (s : St) (h : e.skipRepost = []) : repostList e s = s.pool := by
  unfold repostList
  rw [h]
  simp

theorem repostList_of_pool_nil (e : Env) (s : St) (h : s.pool = []) : repostList e s = [] := by
  unfold repostList
  rw [h]
  rfl

/-- `repostList` only looks at the pool of the state and the skip list of the environment -/
theorem repostList_congr (e e' : Env) (s s' : St) (hp : s'.pool = s.pool) (hs : e'.skipRepost = e.skipRepost) :
    repostList e' s' = repostList e s := by
  unfold repostList
  rw [hp, hs]

/-- **what the ledger guarantees of the skip list (completeness)**: every pending transaction that the log `Cnew` — the
confirmed transactions of the chain the walk ends on — contains is in `e.skipRepost`. The driver's `walkEnv` supplies the
pending transactions whose recorded block and the destination are both on the main chain, the former not higher. -/
def SkipsConfirmed (e : Env) (s : St) (Cnew : List Nat) : Prop := ∀ i ∈ s.pool, i ∈ Cnew → i ∈ e.skipRepost

/-- **soundness of the skip list**: only transactions that `Cnew` confirms are skipped -/
def SkipsOnlyConfirmed (e : Env) (s : St) (Cnew : List Nat) : Prop := ∀ i ∈ s.pool, i ∈ e.skipRepost → i ∈ Cnew

instance (e : Env) (s : St) (Cnew : List Nat) : Decidable (SkipsConfirmed e s Cnew) := by
  unfold SkipsConfirmed; infer_instance

instance (e : Env) (s : St) (Cnew : List Nat) : Decidable (SkipsOnlyConfirmed e s Cnew) := by
  unfold SkipsOnlyConfirmed; infer_instance

/-- under `SkipsConfirmed` no re-submitted transaction is confirmed on the chain walked to -/
theorem SkipsConfirmed.not_confirmed {e : Env} {s : St} {Cnew : List Nat} (h : SkipsConfirmed e s Cnew) :
    ∀ i ∈ repostList e s, i ∉ Cnew := by
  intro i hi hc
  obtain ⟨h1, h2⟩ := (mem_repostList e s i).mp hi
  exact h2 (h i h1 hc)

/-- under `SkipsOnlyConfirmed` every rolled-back transaction is re-submitted or confirmed on the chain walked to -/
theorem SkipsOnlyConfirmed.covered {e : Env} {s : St} {Cnew : List Nat} (h : SkipsOnlyConfirmed e s Cnew) :
    ∀ i ∈ s.pool, i ∈ repostList e s ∨ i ∈ Cnew := by
  intro i hi
  by_cases hs : i ∈ e.skipRepost
  · exact Or.inr (h i hi hs)
  · exact Or.inl ((mem_repostList e s i).mpr ⟨hi, hs⟩)

/-- if the chain walked to confirms no pending transaction, the empty skip list is complete -/
theorem SkipsConfirmed.of_disjoint {e : Env} {s : St} {Cnew : List Nat} (h : ∀ i ∈ s.pool, i ∉ Cnew) :
    SkipsConfirmed e s Cnew := fun i hi hc => absurd hc (h i hi)

/-- the canonical skip list: the pending transactions that `Cnew` confirms -/
theorem SkipsConfirmed.of_filter {e : Env} {s : St} {Cnew : List Nat}
    (h : e.skipRepost = s.pool.filter (fun i => Cnew.contains i)) : SkipsConfirmed e s Cnew := by
  intro i hi hc
  rw [h]
  exact List.mem_filter.mpr ⟨hi, by simpa using hc⟩

theorem SkipsOnlyConfirmed.of_filter {e : Env} {s : St} {Cnew : List Nat}
    (h : e.skipRepost = s.pool.filter (fun i => Cnew.contains i)) : SkipsOnlyConfirmed e s Cnew := by
  intro i _ hs
  rw [h] at hs
  simpa using (List.mem_filter.mp hs).2

end XV.Chain
