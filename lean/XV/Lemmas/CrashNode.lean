import XV.Lemmas.CrashInv
import XV.Lemmas.CrashLedger
import XV.Lemmas.CrashIrrev
/-!
Histories: every crash state of a history is either a state of the uninterrupted run between two operations, or the
ledger of such a state together with an element of the trace of the `walk` that was being executed.
-/
namespace XV.Crash
open XV.Chain

theorem run_nil (e : Env) (n : Node) : run e n [] = n := rfl

theorem run_cons (e : Env) (n : Node) (op : Op) (rest : List Op) :
    run e n (op :: rest) = run e (runOp e n op) rest := rfl

theorem run_append (e : Env) (n : Node) (l1 l2 : List Op) : run e n (l1 ++ l2) = run e (run e n l1) l2 := by
  unfold run; rw [List.foldl_append]

/-- the uninterrupted run one operation further -/
theorem run_take_succ (e : Env) (n : Node) (ops : List Op) (k : Nat) (op : Op) (h : ops[k]? = some op) :
    run e n (ops.take (k + 1)) = runOp e (run e n (ops.take k)) op := by
  rw [List.take_add_one, h, run_append]
  rfl

theorem crashStates_head (e : Env) (n : Node) (ops : List Op) : ∃ tl, crashStates e n ops = n :: tl := by
  cases ops with
  | nil => exact ⟨[], rfl⟩
  | cons op rest => exact ⟨_, rfl⟩

/-- the node an operation leaves behind is the last element of its trace, hence an element -/
theorem runOp_mem_opTrace (e : Env) (n : Node) (op : Op) : runOp e n op ∈ opTrace e n op :=
  List.mem_of_getLast? (opTrace_getLast e n op)

/-- **what a crash state is**: for some `k`, either the node of the uninterrupted run after the first `k`
operations, or — when operation `k` is a walk — the ledger of that node with an element of the trace of the walk -/
theorem mem_crashStates (e : Env) : ∀ (ops : List Op) (n x : Node), x ∈ crashStates e n ops →
    ∃ k, k ≤ ops.length ∧ (x = run e n (ops.take k) ∨
      ∃ dest prune, ops[k]? = some (.walk dest prune) ∧ x.l = (run e n (ops.take k)).l ∧
        x.s ∈ walkTrace e (run e n (ops.take k)).s (lh (run e n (ops.take k))) dest prune) := by
  intro ops
  induction ops with
  | nil =>
    intro n x hx
    simp only [crashStates, List.mem_cons, List.not_mem_nil, or_false] at hx
    exact ⟨0, Nat.le_refl _, Or.inl (by rw [hx]; rfl)⟩
  | cons op rest ih =>
    intro n x hx
    unfold crashStates at hx
    rcases List.mem_cons.mp hx with rfl | hx
    · exact ⟨0, Nat.zero_le _, Or.inl rfl⟩
    · rcases List.mem_append.mp hx with hx | hx
      · cases op with
        | walk dest prune =>
          refine ⟨0, Nat.zero_le _, Or.inr ⟨dest, prune, rfl, ?_⟩⟩
          unfold opTrace at hx
          obtain ⟨s', hs', rfl⟩ := List.mem_map.mp hx
          exact ⟨rfl, hs'⟩
        | submit i =>
          refine ⟨1, by simp, Or.inl ?_⟩
          simpa [opTrace, run] using hx
        | confirm b =>
          refine ⟨1, by simp, Or.inl ?_⟩
          simpa [opTrace, run] using hx
        | play b =>
          refine ⟨1, by simp, Or.inl ?_⟩
          simpa [opTrace, run] using hx
        | playMiner b =>
          refine ⟨1, by simp, Or.inl ?_⟩
          simpa [opTrace, run] using hx
        | truncate d =>
          refine ⟨1, by simp, Or.inl ?_⟩
          simpa [opTrace, run] using hx
      · obtain ⟨k, hk, hcase⟩ := ih (runOp e n op) x hx
        refine ⟨k + 1, by simp; omega, ?_⟩
        rw [List.take_succ_cons, run_cons, List.getElem?_cons_succ]
        exact hcase

/-- conversely, every node of the uninterrupted run between two operations is a crash state -/
theorem run_take_mem_crashStates (e : Env) : ∀ (ops : List Op) (n : Node) (k : Nat),
    run e n (ops.take k) ∈ crashStates e n ops := by
  intro ops
  induction ops with
  | nil => intro n k; simp [crashStates, run]
  | cons op rest ih =>
    intro n k
    cases k with
    | zero => simp [crashStates, run]
    | succ k =>
      rw [List.take_succ_cons, run_cons]
      unfold crashStates
      exact List.mem_cons_of_mem _ (List.mem_append_right _ (ih _ k))

/-- … in particular the end of the uninterrupted run -/
theorem run_mem_crashStates (e : Env) (ops : List Op) (n : Node) : run e n ops ∈ crashStates e n ops := by
  have := run_take_mem_crashStates e ops n ops.length
  rw [List.take_length] at this
  exact this

/-- … and every element of the trace of a walk of the history -/
theorem walkTrace_mem_crashStates (e : Env) : ∀ (ops : List Op) (n : Node) (k : Nat) (dest : Nat) (prune : Bool),
    ops[k]? = some (.walk dest prune) →
    ∀ s' ∈ walkTrace e (run e n (ops.take k)).s (lh (run e n (ops.take k))) dest prune,
      ({ run e n (ops.take k) with s := s' } : Node) ∈ crashStates e n ops := by
  intro ops
  induction ops with
  | nil => intro n k dest prune h; simp at h
  | cons op rest ih =>
    intro n k dest prune h s' hs'
    cases k with
    | zero =>
      simp only [List.getElem?_cons_zero, Option.some.injEq] at h
      subst h
      unfold crashStates
      apply List.mem_cons_of_mem
      apply List.mem_append_left
      unfold opTrace
      exact List.mem_map.mpr ⟨s', hs', rfl⟩
    | succ k =>
      rw [List.getElem?_cons_succ] at h
      rw [List.take_succ_cons, run_cons] at hs' ⊢
      unfold crashStates
      exact List.mem_cons_of_mem _ (List.mem_append_right _ (ih _ k dest prune h s' hs'))

/-- the crash states of a prefix of a history are crash states of the history (prefix closure) -/
theorem crashStates_prefix (e : Env) : ∀ (ops more : List Op) (n x : Node), x ∈ crashStates e n ops →
    x ∈ crashStates e n (ops ++ more) := by
  intro ops
  induction ops with
  | nil =>
    intro more n x hx
    simp only [crashStates, List.mem_cons, List.not_mem_nil, or_false] at hx
    rw [hx, List.nil_append]
    obtain ⟨tl, h⟩ := crashStates_head e n more
    rw [h]; exact List.mem_cons_self
  | cons op rest ih =>
    intro more n x hx
    rw [List.cons_append]
    unfold crashStates at hx ⊢
    rcases List.mem_cons.mp hx with rfl | hx
    · exact List.mem_cons_self
    · apply List.mem_cons_of_mem
      rcases List.mem_append.mp hx with hx | hx
      · exact List.mem_append_left _ hx
      · exact List.mem_append_right _ (ih more _ x hx)

/-- ledger batches are atomic: the ledger of a crash state is the ledger after a completed prefix of the history -/
theorem crashStates_ledger (e : Env) (ops : List Op) (n x : Node) (hx : x ∈ crashStates e n ops) :
    ∃ k, k ≤ ops.length ∧ x.l = (run e n (ops.take k)).l := by
  obtain ⟨k, hk, h | ⟨_, _, _, h, _⟩⟩ := mem_crashStates e ops n x hx
  · exact ⟨k, hk, by rw [h]⟩
  · exact ⟨k, hk, h⟩

end XV.Crash
