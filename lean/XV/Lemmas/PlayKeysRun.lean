import XV.Lemmas.PlayKeys
import XV.Lemmas.PlayFull
import XV.Props.C05
/-!
The key ledger invariant `LedK` (`XV.Lemmas.PlayKeys`) through the loops of the chain model: the eviction / roll-back
fold (`undoFold_LedK`), the transactions of a block (`blockRun_LedK`), the undo of a block (`undoConfFold_LedK`), and
`play` as a whole (`play_LedK`). The log is `C ++ P`: confirmed transactions, then the pool.
-/
namespace XV.Chain
open XV.C03 (supersedes)

-- ---------------------------------------------------------------- eviction / roll-back

/-- undoing a duplicate-free list `ev` of logged transactions, each after every logged transaction that read one of its
versions (`hord`: for `a` before `b` in `ev`, `b` read nothing of `a`; `hclosed`: whoever read a version of a member of
`ev` is in `ev`), keeps the invariant for the remaining log -/
theorem undoFold_LedK (e : Env) (ev : List Nat) (s : St) (A : List Nat) (h : LedK e s A)
    (hnd : ev.Nodup) (hsub : ∀ t ∈ ev, t ∈ A)
    (hord : ev.Pairwise (fun a b => ¬ citesK e b a))
    (hclosed : ∀ t ∈ ev, ∀ j ∈ A, citesK e j t → j ∈ ev) :
    LedK e (ev.foldl (fun st i => undoTx e st (e.tx i)) s) (A.filter (fun x => !ev.contains x)) := by
  induction ev generalizing s A with
  | nil =>
    have : A.filter (fun x => !([] : List Nat).contains x) = A := by
      apply List.filter_eq_self.mpr; intro a _; simp
    rw [this]; exact h
  | cons t rest ih =>
    simp only [List.nodup_cons] at hnd
    simp only [List.pairwise_cons] at hord
    have htA := hsub t List.mem_cons_self
    have hnc : ∀ j ∈ A, ¬ citesK e j t := by
      intro j hj hc
      rcases List.mem_cons.mp (hclosed t List.mem_cons_self j hj hc) with hjt | hjr
      · rw [hjt] at hc; exact h.noSelfK t htA hc
      · exact hord.1 j hjr hc
    have hstep := LedK_undo e s A t h htA hnc
    have hmem : ∀ x, x ∈ A.filter (fun x => x != t) ↔ x ∈ A ∧ x ≠ t := by
      intro x; simp only [List.mem_filter, bne_iff_ne, ne_eq]
    have := ih (undoTx e s (e.tx t)) (A.filter (fun x => x != t)) hstep hnd.2
      (fun t' ht' => (hmem t').mpr ⟨hsub t' (List.mem_cons_of_mem _ ht'), fun e2 => hnd.1 (e2 ▸ ht')⟩)
      hord.2
      (fun t' ht' j hj hc => by
        obtain ⟨hjA, hjt⟩ := (hmem j).mp hj
        rcases List.mem_cons.mp (hclosed t' (List.mem_cons_of_mem _ ht') j hjA hc) with h1 | h1
        · exact absurd h1 hjt
        · exact h1)
    simp only [List.foldl_cons]
    have hfil : (A.filter (fun x => x != t)).filter (fun x => !rest.contains x) =
        A.filter (fun x => !(t :: rest).contains x) := by
      rw [List.filter_filter]
      apply List.filter_congr
      intro x _
      by_cases hx : x = t
      · simp [hx]
      · simp [hx]
    rw [hfil] at this
    exact this

-- ---------------------------------------------------------------- list plumbing for "a transaction is confirmed"

theorem pairwise_move {α : Type} (R : α → α → Prop) (C P' : List α) (i : α) (hC : C.Pairwise R) (hP : P'.Pairwise R)
    (hCi : ∀ c ∈ C, R c i) (hCP : ∀ c ∈ C, ∀ p ∈ P', R c p) (hiP : ∀ p ∈ P', R i p) :
    ((C ++ [i]) ++ P').Pairwise R := by
  apply List.pairwise_append.mpr
  refine ⟨?_, hP, ?_⟩
  · apply List.pairwise_append.mpr
    refine ⟨hC, by simp, ?_⟩
    intro a ha b hb
    simp only [List.mem_cons, List.not_mem_nil, or_false] at hb
    rw [hb]; exact hCi a ha
  · intro a ha b hb
    rcases List.mem_append.mp ha with ha | ha
    · exact hCP a ha b hb
    · simp only [List.mem_cons, List.not_mem_nil, or_false] at ha
      rw [ha]; exact hiP b hb

theorem confirm_mem (C P : List Nat) (i : Nat) (hi : i ∈ P) :
    ∀ x, x ∈ (C ++ [i]) ++ P.filter (fun x => x != i) ↔ x ∈ C ++ P := by
  intro x
  simp only [List.mem_append, List.mem_cons, List.not_mem_nil, or_false, List.mem_filter, bne_iff_ne, ne_eq]
  constructor
  · rintro ((h | h) | ⟨h, _⟩)
    · exact Or.inl h
    · rw [h]; exact Or.inr hi
    · exact Or.inr h
  · rintro (h | h)
    · exact Or.inl (Or.inl h)
    · by_cases hx : x = i
      · exact Or.inl (Or.inr hx)
      · exact Or.inr ⟨h, hx⟩

theorem confirm_nodup (C P : List Nat) (i : Nat) (hnd : (C ++ P).Nodup) (hi : i ∈ P) :
    ((C ++ [i]) ++ P.filter (fun x => x != i)).Nodup := by
  obtain ⟨hndC, hndP, hCP⟩ := List.nodup_append.mp hnd
  have hiC : i ∉ C := fun h => hCP i h i hi rfl
  apply List.nodup_append.mpr
  refine ⟨?_, List.Nodup.sublist List.filter_sublist hndP, ?_⟩
  · apply List.nodup_append.mpr
    refine ⟨hndC, by simp, ?_⟩
    intro a ha b hb
    simp only [List.mem_cons, List.not_mem_nil, or_false] at hb
    rw [hb]; intro e2; exact hiC (e2 ▸ ha)
  · intro a ha b hb
    have hbP := (List.mem_filter.mp hb).1
    have hbi : b ≠ i := by simpa using (List.mem_filter.mp hb).2
    rcases List.mem_append.mp ha with h | h
    · exact hCP a h b hbP
    · simp only [List.mem_cons, List.not_mem_nil, or_false] at h
      rw [h]; exact fun e2 => hbi e2.symm

theorem new_mem (C P : List Nat) (i : Nat) : ∀ x, x ∈ (C ++ [i]) ++ P ↔ x ∈ (C ++ P) ++ [i] := by
  intro x
  simp only [List.mem_append, List.mem_cons, List.not_mem_nil, or_false]
  constructor
  · rintro ((h | h) | h)
    · exact Or.inl (Or.inl h)
    · exact Or.inr h
    · exact Or.inl (Or.inr h)
  · rintro ((h | h) | h)
    · exact Or.inl (Or.inl h)
    · exact Or.inr h
    · exact Or.inl (Or.inr h)

theorem new_nodup (C P : List Nat) (i : Nat) (hnd : (C ++ P).Nodup) (hi : i ∉ C ++ P) : ((C ++ [i]) ++ P).Nodup := by
  obtain ⟨hndC, hndP, hCP⟩ := List.nodup_append.mp hnd
  apply List.nodup_append.mpr
  refine ⟨?_, hndP, ?_⟩
  · apply List.nodup_append.mpr
    refine ⟨hndC, by simp, ?_⟩
    intro a ha b hb
    simp only [List.mem_cons, List.not_mem_nil, or_false] at hb
    rw [hb]; intro e2; exact hi (List.mem_append_left _ (e2 ▸ ha))
  · intro a ha b hb
    rcases List.mem_append.mp ha with h | h
    · exact hCP a h b hb
    · simp only [List.mem_cons, List.not_mem_nil, or_false] at h
      rw [h]; intro e2; exact hi (List.mem_append_right _ (e2 ▸ hb))

-- ---------------------------------------------------------------- the transactions of a block

/-- **the transactions of a block keep the key ledger invariant**: they join the confirmed log in block order, the
pending ones among them leave the pool. Hypotheses as for `blockRun_LedSum`: ids pairwise distinct, `e.tx i` has id `i`,
none already confirmed; a new transaction has one write per key (`hkw`); the block contains the pending transactions whose
versions its transactions read (`hparents`), and no transaction read a version of a later *pending* one (`hord`).
Second conclusion: no transaction of the block read a version written by a later transaction of the block that is not
logged — a pending reader cites logged writers only, a new one is admitted against current versions, all written by
logged transactions. -/
theorem blockRun_LedK (e : Env) (lh : Int) (prop : String) (isPool : Nat → Bool) (txs : List Nat) (s s2 : St)
    (C P : List Nat) (hrun : blockRun e lh prop isPool txs s s2) (h : LedK e s (C ++ P))
    (hnd : txs.Nodup) (hid : ∀ i ∈ txs, (e.tx i).id = i)
    (hpool : ∀ i ∈ txs, (isPool i = true ↔ i ∈ P))
    (hnewC : ∀ i ∈ txs, i ∉ C)
    (hkw : ∀ i ∈ txs, isPool i = false → ((e.tx i).kout.map (·.key)).Nodup)
    (hparents : ∀ i ∈ txs, ∀ p ∈ P, citesK e i p → p ∈ txs)
    (hord : txs.Pairwise (fun a b => b ∈ P → ¬ citesK e a b)) :
    LedK e s2 ((C ++ txs) ++ P.filter (fun x => !txs.contains x)) ∧
    txs.Pairwise (fun a c => c ∉ C → c ∉ P → ¬ citesK e a c) := by
  induction txs generalizing s C P with
  | nil =>
    simp only [blockRun] at hrun
    subst hrun
    have : P.filter (fun x => !([] : List Nat).contains x) = P := by
      apply List.filter_eq_self.mpr; intro a _; simp
    rw [this, List.append_nil]; exact ⟨h, List.Pairwise.nil⟩
  | cons i rest ih =>
    simp only [List.nodup_cons] at hnd
    simp only [List.pairwise_cons] at hord
    have hid' : ∀ j ∈ rest, (e.tx j).id = j := fun j hj => hid j (List.mem_cons_of_mem _ hj)
    have hne : ∀ j ∈ rest, j ≠ i := fun j hj e2 => hnd.1 (e2 ▸ hj)
    obtain ⟨hoC, hoP, hoCP⟩ := List.pairwise_append.mp h.orderK
    have hnewC' : ∀ j ∈ rest, j ∉ C ++ [i] := by
      intro j hj hm
      rcases List.mem_append.mp hm with hm | hm
      · exact hnewC j (List.mem_cons_of_mem _ hj) hm
      · simp only [List.mem_cons, List.not_mem_nil, or_false] at hm; exact hne j hj hm
    unfold blockRun at hrun
    by_cases hp : isPool i = true
    · have hiP : i ∈ P := (hpool i List.mem_cons_self).mp hp
      have hiA : i ∈ C ++ P := List.mem_append_right _ hiP
      -- `i` read nothing written by a transaction that is still pending
      have hnp : ∀ p ∈ P, ¬ citesK e i p := by
        intro p hpP hc
        rcases List.mem_cons.mp (hparents i List.mem_cons_self p hpP hc) with h1 | h1
        · rw [h1] at hc; exact h.noSelfK i hiA hc
        · exact hord.1 p h1 hpP hc
      simp only [hp, ↓reduceIte] at hrun
      obtain ⟨z1, z2, _⟩ := payFee_frame (e.tx i) prop (e.tx i).outs 0 s
      have hstep : LedK e (payFee (e.tx i) prop (e.tx i).outs 0 s) ((C ++ [i]) ++ P.filter (fun x => x != i)) := by
        apply LedK.congr _ z1 z2
        apply LedK_reorder e s (C ++ P) _ h (confirm_mem C P i hiP) (confirm_nodup C P i h.nodupA hiP)
        apply pairwise_move _ C _ i hoC (List.Pairwise.sublist List.filter_sublist hoP)
        · intro c hc; exact hoCP c hc i hiP
        · intro c hc p hpf; exact hoCP c hc p (List.mem_filter.mp hpf).1
        · intro p hpf; exact hnp p (List.mem_filter.mp hpf).1
      have hmemP' : ∀ x, x ∈ P.filter (fun x => x != i) ↔ x ∈ P ∧ x ≠ i := by
        intro x; simp only [List.mem_filter, bne_iff_ne, ne_eq]
      obtain ⟨r1, r2⟩ := ih _ (C ++ [i]) (P.filter (fun x => x != i)) hrun hstep hnd.2 hid'
        (fun j hj => by
          rw [hmemP', hpool j (List.mem_cons_of_mem _ hj)]
          exact ⟨fun hh => ⟨hh, hne j hj⟩, fun hh => hh.1⟩)
        hnewC'
        (fun j hj => hkw j (List.mem_cons_of_mem _ hj))
        (fun j hj p hpf hc => by
          obtain ⟨h1, h2⟩ := (hmemP' p).mp hpf
          rcases List.mem_cons.mp (hparents j (List.mem_cons_of_mem _ hj) p h1 hc) with h3 | h3
          · exact absurd h3 h2
          · exact h3)
        (List.Pairwise.imp (R := fun a b => b ∈ P → ¬ citesK e a b)
          (fun hab hb => hab ((hmemP' _).mp hb).1) hord.2)
      have hfil : (P.filter (fun x => x != i)).filter (fun x => !rest.contains x) =
          P.filter (fun x => !(i :: rest).contains x) := by
        rw [List.filter_filter]
        apply List.filter_congr
        intro x _
        by_cases hx : x = i
        · simp [hx]
        · simp [hx]
      rw [hfil, List.append_assoc C [i] rest] at r1
      refine ⟨r1, List.Pairwise.cons ?_ ?_⟩
      · intro c _ hcC hcP ⟨ki, hki, v, hv, hvc⟩
        have := (h.readLogged i hiA ki hki v hv).1
        rw [hvc] at this
        rcases List.mem_append.mp this with h1 | h1
        · exact hcC h1
        · exact hcP h1
      · apply List.Pairwise.imp_of_mem _ r2
        intro a c _ hc hac hcC hcP
        apply hac
        · intro hm
          rcases List.mem_append.mp hm with hm | hm
          · exact hcC hm
          · simp only [List.mem_cons, List.not_mem_nil, or_false] at hm; exact hne c hc hm
        · intro hm; exact hcP ((hmemP' c).mp hm).1
    · have hp' : isPool i = false := by simpa using hp
      have hiP : i ∉ P := fun hh => hp ((hpool i List.mem_cons_self).mpr hh)
      have hnot : i ∉ C ++ P := by
        intro hm
        rcases List.mem_append.mp hm with hm | hm
        · exact hnewC i List.mem_cons_self hm
        · exact hiP hm
      have hnp : ∀ p ∈ P, ¬ citesK e i p := by
        intro p hpP hc
        rcases List.mem_cons.mp (hparents i List.mem_cons_self p hpP hc) with h1 | h1
        · exact hiP (h1 ▸ hpP)
        · exact hord.1 p h1 hpP hc
      simp only [hp, Bool.false_eq_true, ↓reduceIte] at hrun
      obtain ⟨_, _, hread, hwr⟩ := XV.C03.admit_sound s lh (e.tx i) hrun.1
      have hadd := LedK_add e s (C ++ P) i h hnot (hid i List.mem_cons_self) (hkw i List.mem_cons_self hp') hread hwr
      obtain ⟨z1, z2, _⟩ := payFee_frame (e.tx i) prop (e.tx i).outs 0 (applyTx s (e.tx i))
      obtain ⟨_, _, hoX⟩ := List.pairwise_append.mp hadd.orderK
      have hstep : LedK e (payFee (e.tx i) prop (e.tx i).outs 0 (applyTx s (e.tx i))) ((C ++ [i]) ++ P) := by
        apply LedK.congr _ z1 z2
        apply LedK_reorder e _ ((C ++ P) ++ [i]) _ hadd (new_mem C P i) (new_nodup C P i h.nodupA hnot)
        apply pairwise_move _ C P i hoC hoP
        · intro c hc; exact hoX c (List.mem_append_left _ hc) i List.mem_cons_self
        · exact hoCP
        · exact hnp
      obtain ⟨r1, r2⟩ := ih _ (C ++ [i]) P hrun.2 hstep hnd.2 hid'
        (fun j hj => hpool j (List.mem_cons_of_mem _ hj))
        hnewC'
        (fun j hj => hkw j (List.mem_cons_of_mem _ hj))
        (fun j hj p hpP hc => by
          rcases List.mem_cons.mp (hparents j (List.mem_cons_of_mem _ hj) p hpP hc) with h3 | h3
          · exact absurd (h3 ▸ hpP) hiP
          · exact h3)
        hord.2
      have hfil : P.filter (fun x => !rest.contains x) = P.filter (fun x => !(i :: rest).contains x) := by
        apply List.filter_congr
        intro x hx
        have : x ≠ i := fun e2 => hiP (e2 ▸ hx)
        simp [this]
      rw [hfil, List.append_assoc C [i] rest] at r1
      refine ⟨r1, List.Pairwise.cons ?_ ?_⟩
      · intro c _ hcC hcP ⟨ki, hki, v, hv, hvc⟩
        have hcv := hread ki hki
        rw [hv] at hcv
        have := (h.curLogged ki.key v hcv).1
        rw [hvc] at this
        rcases List.mem_append.mp this with h1 | h1
        · exact hcC h1
        · exact hcP h1
      · apply List.Pairwise.imp_of_mem _ r2
        intro a c _ hc hac hcC hcP
        apply hac _ hcP
        intro hm
        rcases List.mem_append.mp hm with hm | hm
        · exact hcC hm
        · simp only [List.mem_cons, List.not_mem_nil, or_false] at hm; exact hne c hc hm

-- ---------------------------------------------------------------- undoing the transactions of a block

/-- undoing the confirmed transactions `rtxs` (newest first, each followed by its fee) that end the log -/
theorem undoConfFold_LedK (e : Env) (rtxs : List Nat) (s : St) (C0 : List Nat)
    (h : LedK e s (C0 ++ rtxs.reverse)) :
    LedK e (rtxs.foldl (fun st i => let t := e.tx i; undoPayFee t t.outs 0 (undoTx e st t)) s) C0 := by
  induction rtxs generalizing s with
  | nil => simpa using h
  | cons t rest ih =>
    simp only [List.foldl_cons]
    apply ih
    have hC : C0 ++ (t :: rest).reverse = (C0 ++ rest.reverse) ++ [t] := by
      rw [List.reverse_cons, List.append_assoc]
    rw [hC] at h
    have htA : t ∈ (C0 ++ rest.reverse) ++ [t] := by simp
    have htX : t ∉ C0 ++ rest.reverse := fun hm => (List.nodup_append.mp h.nodupA).2.2 t hm t (by simp) rfl
    have hnc : ∀ j ∈ (C0 ++ rest.reverse) ++ [t], ¬ citesK e j t := by
      intro j hj
      rcases List.mem_append.mp hj with hj' | hj'
      · exact (List.pairwise_append.mp h.orderK).2.2 j hj' t (by simp)
      · simp only [List.mem_cons, List.not_mem_nil, or_false] at hj'
        rw [hj']; exact h.noSelfK t htA
    have hstep := LedK_undo e s _ t h htA hnc
    have hfil : ((C0 ++ rest.reverse) ++ [t]).filter (fun x => x != t) = C0 ++ rest.reverse := by
      rw [List.filter_append]
      have h1 : (C0 ++ rest.reverse).filter (fun x => x != t) = C0 ++ rest.reverse := by
        apply List.filter_eq_self.mpr
        intro a ha
        simp only [bne_iff_ne, ne_eq]
        intro e2; exact htX (e2 ▸ ha)
      rw [h1]
      simp
    rw [hfil] at hstep
    obtain ⟨z1, z2, _⟩ := undoPayFee_frame (e.tx t) (e.tx t).outs 0 (undoTx e s (e.tx t))
    exact LedK.congr hstep z1 z2

-- ---------------------------------------------------------------- `play`

/-- **`play` keeps the key ledger invariant** (log = confirmed transactions, then the pool); when the block is accepted its
transactions join the confirmed log, and no transaction of the block read a key version written by a later transaction of
the block. Hypotheses: block ids pairwise distinct, `e.tx i` has id `i`, none already confirmed, one write per key. No
block-validity hypothesis: whoever read a version of an evicted transaction is evicted with it (`playEvict_cited_ver`),
the block brings the pending writers of what it reads, in order (`parentMissing`). -/
theorem play_LedK (e : Env) (s : St) (lh : Int) (b : Block) (C : List Nat) (h : LedK e s (C ++ s.pool))
    (hnd : b.txs.Nodup) (hid : ∀ i ∈ b.txs, (e.tx i).id = i) (hnewC : ∀ i ∈ b.txs, i ∉ C)
    (hkw : ∀ i ∈ b.txs, ((e.tx i).kout.map (·.key)).Nodup) :
    LedK e (play e s lh b).1 ((if (play e s lh b).2 = .ok then C ++ b.txs else C) ++ (play e s lh b).1.pool) ∧
    ((play e s lh b).2 = .ok → b.txs.Pairwise (fun a c => ¬ citesK e a c)) := by
  by_cases hok : (play e s lh b).2 = .ok
  · rw [if_pos hok]
    obtain ⟨s2, happ, hshape⟩ := play_ok_raw e s lh b hok
    rw [hshape]
    have hrefs := play_refs_in_block e s lh b hok
    have hordP := play_order_pending_kin e s lh b hok hnd
    obtain ⟨_, hndP, hCP⟩ := List.nodup_append.mp h.nodupA
    obtain ⟨_, hoP, hoCP⟩ := List.pairwise_append.mp h.orderK
    have hndr : s.pool.reverse.Nodup := by
      unfold List.Nodup
      rw [List.pairwise_reverse]
      exact List.Pairwise.imp (fun h => fun e2 => h e2.symm) hndP
    have hevmem : ∀ x, x ∈ s.pool.reverse.filter (fun i => (playEvict e s b).contains i) ↔
        x ∈ s.pool ∧ x ∈ playEvict e s b := by
      intro x; simp only [List.mem_filter, List.mem_reverse, List.contains_eq_mem, decide_eq_true_eq]
    have hL0 := undoFold_LedK e (s.pool.reverse.filter (fun i => (playEvict e s b).contains i)) s (C ++ s.pool) h
      (List.Nodup.sublist List.filter_sublist hndr)
      (fun t ht => List.mem_append_right _ ((hevmem t).mp ht).1)
      (List.Pairwise.filter _ (by rw [List.pairwise_reverse]; exact hoP))
      (fun t ht j hj hc => by
        obtain ⟨htp, hte⟩ := (hevmem t).mp ht
        rcases List.mem_append.mp hj with hjC | hjP
        · exact absurd hc (hoCP j hjC t htp)
        · obtain ⟨ki, hki, v, hv, hvt⟩ := hc
          have hjt : j ≠ t := by
            intro e2
            rw [e2] at hki
            exact h.noSelfK t (List.mem_append_right _ htp) ⟨ki, hki, v, hv, hvt⟩
          exact (hevmem j).mpr ⟨hjP, playEvict_cited_ver e s b t hte j hjP hjt ki hki v hv hvt⟩)
    have hL1mem : ∀ x, x ∈ s.pool.filter
        (fun x => !(s.pool.reverse.filter (fun i => (playEvict e s b).contains i)).contains x) ↔
        x ∈ s.pool ∧ x ∉ playEvict e s b := by
      intro x
      simp only [List.mem_filter, List.contains_eq_mem, List.mem_reverse, decide_eq_true_eq,
        Bool.not_eq_eq_eq_not, Bool.not_true, decide_eq_false_iff_not, not_and]
      constructor
      · intro ⟨h1, h2⟩; exact ⟨h1, h2 h1⟩
      · intro ⟨h1, h2⟩; exact ⟨h1, fun _ => h2⟩
    have hfilA : (C ++ s.pool).filter
        (fun x => !(s.pool.reverse.filter (fun i => (playEvict e s b).contains i)).contains x) =
        C ++ s.pool.filter
          (fun x => !(s.pool.reverse.filter (fun i => (playEvict e s b).contains i)).contains x) := by
      rw [List.filter_append]
      congr 1
      apply List.filter_eq_self.mpr
      intro a ha
      have hap : a ∉ s.pool := fun hm => hCP a ha a hm rfl
      simp [hap]
    rw [hfilA] at hL0
    have hisPool : ∀ i, ((s.pool.filter (fun i => b.txs.contains i)).filter
        (fun i => !(playEvict e s b).contains i)).contains i = true ↔
        (i ∈ s.pool ∧ i ∈ b.txs) ∧ i ∉ playEvict e s b := by
      intro i
      simp only [List.contains_eq_mem, List.mem_filter, decide_eq_true_eq, Bool.not_eq_eq_eq_not, Bool.not_true,
        decide_eq_false_iff_not]
    have hrun := applyBlockTxs_run e lh b.prop _ b.txs _ s2 happ
    obtain ⟨r1, r2⟩ := blockRun_LedK e lh b.prop _ b.txs (playUndone e s b) s2 C _ hrun hL0 hnd hid
      (fun i hi => by
        rw [hL1mem, hisPool]
        exact ⟨fun hh => ⟨hh.1.1, hh.2⟩, fun hh => ⟨⟨hh.1, hi⟩, hh.2⟩⟩)
      hnewC
      (fun i hi _ => hkw i hi)
      (fun i hi p hpL hc => by
        obtain ⟨ki, hki, v, hv, hvp⟩ := hc
        exact hrefs i hi p (hvp ▸ mem_refTxs_kin _ ki hki v hv) ((hL1mem p).mp hpL).1)
      (by
        apply List.Pairwise.imp _ hordP
        intro a c hac hcL hc
        obtain ⟨ki, hki, v, hv, hvc⟩ := hc
        exact hac ((hL1mem c).mp hcL).1 ki hki v hv hvc)
    have hpool : s.pool.filter (fun i => !b.txs.contains i && !(playEvict e s b).contains i) =
        (s.pool.filter (fun x => !(s.pool.reverse.filter (fun i => (playEvict e s b).contains i)).contains x)).filter
          (fun x => !b.txs.contains x) := by
      rw [List.filter_filter]
      apply List.filter_congr
      intro x hx
      have : (s.pool.reverse.filter (fun i => (playEvict e s b).contains i)).contains x =
          (playEvict e s b).contains x := by
        by_cases hxe : x ∈ playEvict e s b
        · simp [hxe, hx]
        · simp [hxe]
      rw [this]
    refine ⟨?_, fun _ => ?_⟩
    · simp only
      rw [hpool]
      exact LedK.congr r1 rfl rfl
    · have hboth := List.Pairwise.and hordP r2
      apply List.Pairwise.imp_of_mem _ hboth
      intro a c _ hc hac hcite
      by_cases hcp : c ∈ s.pool
      · obtain ⟨ki, hki, v, hv, hvc⟩ := hcite
        exact hac.1 hcp ki hki v hv hvc
      · exact hac.2 (hnewC c hc) (fun hm => hcp ((hL1mem c).mp hm).1) hcite
  · rw [if_neg hok, XV.C05.play_fail_noop e s lh b hok]
    exact ⟨h, fun h' => absurd h' hok⟩

end XV.Chain
