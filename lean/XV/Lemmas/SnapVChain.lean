import XV.Lemmas.SnapRun
/-!
The version-chain invariant `VChain`.

For every key, the chain obtained from the current version by iterating `prevOf` (each writer's own cited input
version) is a finite list `l` (`Links`): every link is a real write of that key (`Wrote`: output `v.2` of
transaction `v.1` writes the key), and the list of writers, newest first, is `Ordered`: no writer twice; first
pending transactions in reverse pool order (a sublist of `pool.reverse`), then confirmed transactions (not pending,
known to `confH`) with non-increasing confirmation height.

It holds in the empty state and is kept by the application of an admitted transaction — pending (`doTx`) or
confirmed in a block applied on an empty pool (`todoBlock`) — and by `undoTx` of the newest writer, pending or
confirmed.
-/
namespace XV.Snapshot
open XV.Chain

/-- version `v` is a write of `key`: output `v.2` of transaction `v.1` writes it -/
def Wrote (e : Env) (v : Ver) (key : String) : Prop :=
  ∃ ko, (e.tx v.1).kout[v.2]? = some ko ∧ ko.key = key

instance (e : Env) (v : Ver) (key : String) : Decidable (Wrote e v key) :=
  match h : (e.tx v.1).kout[v.2]? with
  | none => isFalse (fun ⟨_, h1, _⟩ => by rw [h] at h1; cases h1)
  | some ko =>
    if hk : ko.key = key then isTrue ⟨ko, h, hk⟩
    else isFalse (fun ⟨ko', h1, h2⟩ => by rw [h] at h1; cases h1; exact hk h2)

/-- the version chain of `key` from `top` downwards: each link is a write of the key and hands over to the version
its writer cited; the chain ends at "never written" -/
inductive Links (e : Env) (key : String) : Option Ver → List Ver → Prop
  | nil : Links e key none []
  | cons (v : Ver) (l : List Ver) : Wrote e v key → Links e key (prevOf e v key) l → Links e key (some v) (v :: l)

theorem Links.wrote {e : Env} {key : String} {top : Option Ver} {l : List Ver} (h : Links e key top l) :
    ∀ v ∈ l, Wrote e v key := by
  induction h with
  | nil => intro v hv; cases hv
  | cons v l hw _ ih =>
    intro w hw'
    rcases List.mem_cons.mp hw' with rfl | hm
    · exact hw
    · exact ih w hm

theorem Links.head {e : Env} {key : String} {v : Ver} {l : List Ver} (h : Links e key (some v) l) :
    ∃ l', l = v :: l' ∧ Wrote e v key ∧ Links e key (prevOf e v key) l' := by
  cases h with
  | cons _ l' hw hl => exact ⟨l', rfl, hw, hl⟩

theorem Links.of_none {e : Env} {key : String} {l : List Ver} (h : Links e key none l) : l = [] := by
  cases h; rfl

/-- the chain of a version is a function of the environment: it is unique -/
theorem Links.unique {e : Env} {key : String} {top : Option Ver} {l1 l2 : List Ver}
    (h1 : Links e key top l1) (h2 : Links e key top l2) : l1 = l2 := by
  induction h1 generalizing l2 with
  | nil => exact h2.of_none.symm
  | cons v l _ _ ih =>
    obtain ⟨l', rfl, _, hl'⟩ := h2.head
    rw [ih hl']

/-- confirmation heights do not increase from newer to older writers -/
def ConfDesc (confH : Nat → Option Nat) (C : List Nat) : Prop :=
  C.Pairwise (fun a b => ∀ ha hb, confH a = some ha → confH b = some hb → hb ≤ ha)

/-- the writers of a key, newest first: distinct; pending ones first, in reverse pool order; then confirmed ones
(not pending, known to the ledger) with non-increasing confirmation height -/
structure Ordered (pool : List Nat) (confH : Nat → Option Nat) (ws : List Nat) : Prop where
  nodup : ws.Nodup
  split : ∃ P C, ws = P ++ C ∧ P.Sublist pool.reverse ∧ (∀ i ∈ C, i ∉ pool ∧ ∃ bh, confH i = some bh) ∧
    ConfDesc confH C

theorem Ordered.nil (pool : List Nat) (confH : Nat → Option Nat) : Ordered pool confH [] :=
  ⟨List.nodup_nil, [], [], rfl, List.nil_sublist _, (fun _ h => by cases h), List.Pairwise.nil⟩

/-- every writer is pending or confirmed -/
theorem Ordered.mem_cases {pool : List Nat} {confH : Nat → Option Nat} {ws : List Nat} (h : Ordered pool confH ws) :
    ∀ i ∈ ws, i ∈ pool ∨ ∃ bh, confH i = some bh := by
  obtain ⟨P, C, rfl, hP, hC, _⟩ := h.split
  intro i hi
  rcases List.mem_append.mp hi with hi | hi
  · left; exact List.mem_reverse.mp (hP.subset hi)
  · right; exact (hC i hi).2

theorem Ordered.fresh_notin {pool : List Nat} {confH : Nat → Option Nat} {ws : List Nat} (h : Ordered pool confH ws)
    (i : Nat) (hi : i ∉ pool) (hc : confH i = none) : i ∉ ws := by
  intro hm
  rcases h.mem_cases i hm with h1 | ⟨bh, h1⟩
  · exact hi h1
  · rw [hc] at h1; cases h1

/-- a new pending writer goes in front -/
theorem Ordered.push_pending {pool : List Nat} {confH : Nat → Option Nat} {ws : List Nat} (h : Ordered pool confH ws)
    (i : Nat) (hi : i ∉ pool) (hc : confH i = none) : Ordered (pool ++ [i]) confH (i :: ws) := by
  refine ⟨List.nodup_cons.mpr ⟨h.fresh_notin i hi hc, h.nodup⟩, ?_⟩
  obtain ⟨P, C, rfl, hP, hC, hD⟩ := h.split
  refine ⟨i :: P, C, rfl, ?_, ?_, hD⟩
  · rw [List.reverse_append]
    exact List.cons_sublist_cons.mpr hP
  · intro j hj
    obtain ⟨h1, bh, h2⟩ := hC j hj
    refine ⟨?_, bh, h2⟩
    intro hm
    rcases List.mem_append.mp hm with hm | hm
    · exact h1 hm
    · have : j = i := by simpa using hm
      rw [this, hc] at h2; cases h2

/-- a new pending transaction that does not write the key leaves its writers ordered -/
theorem Ordered.keep_pending {pool : List Nat} {confH : Nat → Option Nat} {ws : List Nat} (h : Ordered pool confH ws)
    (i : Nat) (hc : confH i = none) : Ordered (pool ++ [i]) confH ws := by
  refine ⟨h.nodup, ?_⟩
  obtain ⟨P, C, rfl, hP, hC, hD⟩ := h.split
  refine ⟨P, C, rfl, ?_, ?_, hD⟩
  · rw [List.reverse_append]
    exact List.Sublist.cons _ hP
  · intro j hj
    obtain ⟨h1, bh, h2⟩ := hC j hj
    refine ⟨?_, bh, h2⟩
    intro hm
    rcases List.mem_append.mp hm with hm | hm
    · exact h1 hm
    · have : j = i := by simpa using hm
      rw [this, hc] at h2; cases h2

/-- only the heights of the writers matter -/
theorem Ordered.congr {pool : List Nat} {confH confH' : Nat → Option Nat} {ws : List Nat} (h : Ordered pool confH ws)
    (hc : ∀ i ∈ ws, confH' i = confH i) : Ordered pool confH' ws := by
  refine ⟨h.nodup, ?_⟩
  obtain ⟨P, C, rfl, hP, hC, hD⟩ := h.split
  have hcC : ∀ i ∈ C, confH' i = confH i := fun i hi => hc i (List.mem_append_right _ hi)
  refine ⟨P, C, rfl, hP, ?_, ?_⟩
  · intro j hj
    obtain ⟨h1, bh, h2⟩ := hC j hj
    exact ⟨h1, bh, by rw [hcC j hj]; exact h2⟩
  · unfold ConfDesc at hD ⊢
    refine List.Pairwise.imp_of_mem ?_ hD
    intro a b ha hb hR x y hx hy
    rw [hcC a ha] at hx
    rw [hcC b hb] at hy
    exact hR x y hx hy

/-- with an empty pool all writers are confirmed -/
theorem Ordered.all_conf {confH : Nat → Option Nat} {ws : List Nat} (h : Ordered [] confH ws) :
    (∀ i ∈ ws, ∃ bh, confH i = some bh) ∧ ConfDesc confH ws := by
  obtain ⟨P, C, rfl, hP, hC, hD⟩ := h.split
  have : P = [] := by simpa using hP
  subst this
  exact ⟨fun i hi => (hC i (by simpa using hi)).2, by simpa using hD⟩

theorem Ordered.of_conf {confH : Nat → Option Nat} {ws : List Nat} (hnd : ws.Nodup)
    (h1 : ∀ i ∈ ws, ∃ bh, confH i = some bh) (h2 : ConfDesc confH ws) : Ordered [] confH ws :=
  ⟨hnd, [], ws, rfl, List.nil_sublist _, fun i hi => ⟨by simp, h1 i hi⟩, h2⟩

/-- a new confirmed writer, at a height no lower than every known one, goes in front (empty pool) -/
theorem Ordered.push_conf {confH : Nat → Option Nat} {ws : List Nat} (h : Ordered [] confH ws)
    (i hb : Nat) (hc : confH i = none) (htop : ∀ j bh, confH j = some bh → bh ≤ hb) :
    Ordered [] (fun j => if j = i then some hb else confH j) (i :: ws) := by
  have hni : i ∉ ws := h.fresh_notin i (by simp) hc
  have h' : Ordered [] (fun j => if j = i then some hb else confH j) ws :=
    h.congr (fun j hj => by
      have : j ≠ i := fun e => hni (e ▸ hj)
      simp [this])
  obtain ⟨a1, a2⟩ := h'.all_conf
  apply Ordered.of_conf (List.nodup_cons.mpr ⟨hni, h.nodup⟩)
  · intro j hj
    rcases List.mem_cons.mp hj with rfl | hj
    · exact ⟨hb, by simp⟩
    · exact a1 j hj
  · unfold ConfDesc at a2 ⊢
    refine List.pairwise_cons.mpr ⟨?_, a2⟩
    intro j hj x y hx hy
    have hji : j ≠ i := fun e => hni (e ▸ hj)
    simp only [↓reduceIte, Option.some.injEq] at hx
    simp only [hji, ↓reduceIte] at hy
    rw [← hx]
    exact htop j y hy

/-- undoing the newest pending writer -/
theorem Ordered.pop_pending {pool0 : List Nat} {confH : Nat → Option Nat} {ws : List Nat} {i : Nat}
    (h : Ordered (pool0 ++ [i]) confH (i :: ws)) : Ordered pool0 confH ws := by
  refine ⟨(List.nodup_cons.mp h.nodup).2, ?_⟩
  obtain ⟨P, C, heq, hP, hC, hD⟩ := h.split
  cases P with
  | nil =>
    exfalso
    simp only [List.nil_append] at heq
    have : i ∈ C := by rw [← heq]; exact List.mem_cons_self
    exact (hC i this).1 (by simp)
  | cons p P' =>
    simp only [List.cons_append, List.cons.injEq] at heq
    obtain ⟨rfl, rfl⟩ := heq
    refine ⟨P', C, rfl, ?_, ?_, hD⟩
    · rw [List.reverse_append] at hP
      exact List.cons_sublist_cons.mp hP
    · intro j hj
      obtain ⟨h1, h2⟩ := hC j hj
      exact ⟨fun hm => h1 (List.mem_append_left _ hm), h2⟩

/-- undoing the newest pending transaction, for a key it did not write -/
theorem Ordered.drop_pending {pool0 : List Nat} {confH : Nat → Option Nat} {ws : List Nat} {i : Nat}
    (h : Ordered (pool0 ++ [i]) confH ws) (hi : i ∉ ws) : Ordered pool0 confH ws := by
  refine ⟨h.nodup, ?_⟩
  obtain ⟨P, C, rfl, hP, hC, hD⟩ := h.split
  refine ⟨P, C, rfl, ?_, ?_, hD⟩
  · rw [List.reverse_append] at hP
    rcases List.sublist_cons_iff.mp hP with h1 | ⟨r, h1, _⟩
    · exact h1
    · exfalso; apply hi; rw [h1]; simp
  · intro j hj
    obtain ⟨h1, h2⟩ := hC j hj
    exact ⟨fun hm => h1 (List.mem_append_left _ hm), h2⟩

/-- undoing the newest confirmed writer (empty pool) -/
theorem Ordered.pop_conf {confH : Nat → Option Nat} {ws : List Nat} {i : Nat} (h : Ordered [] confH (i :: ws)) :
    Ordered [] (fun j => if j = i then none else confH j) ws := by
  obtain ⟨a1, a2⟩ := h.all_conf
  obtain ⟨hni, hnd⟩ := List.nodup_cons.mp h.nodup
  have h0 : Ordered [] confH ws :=
    Ordered.of_conf hnd (fun j hj => a1 j (List.mem_cons_of_mem _ hj)) (List.Pairwise.of_cons a2)
  exact h0.congr (fun j hj => by
    have : j ≠ i := fun e => hni (e ▸ hj)
    simp [this])

-- ------------------------------------------------------------------ the invariant on views

/-- **the version-chain invariant**, on a view: every key's chain is finite, made of real writes, and ordered -/
def VChainV (e : Env) (f : View) (pool : List Nat) (confH : Nat → Option Nat) : Prop :=
  ∀ key, ∃ l, Links e key (f key) l ∧ Ordered pool confH (l.map (·.1))

theorem vchainV_empty (e : Env) (pool : List Nat) (confH : Nat → Option Nat) :
    VChainV e (fun _ => none) pool confH :=
  fun _ => ⟨[], Links.nil, Ordered.nil pool confH⟩

/-- the new top link of a key written by an admitted transaction -/
theorem links_push (e : Env) (t : Tx) (f : View) (key : String) (o : Nat) (l : List Ver) (hself : e.tx t.id = t)
    (hadm : AdmV f t) (hw : writeOff t.kout 0 key = some o) (hl : Links e key (f key) l) :
    Links e key (some (t.id, o)) ((t.id, o) :: l) := by
  obtain ⟨_, ko, h2, h3⟩ := writeOff_spec t.kout 0 key o hw
  refine Links.cons _ _ ⟨ko, ?_, h3⟩ ?_
  · show (e.tx t.id).kout[o]? = some ko
    rw [hself]; simpa using h2
  · rw [prevOf_written e t f key o hself hadm hw]
    exact hl

/-- a pending transaction of the pool list that changes no view (it writes no key, or was refused) -/
theorem vchainV_pool_snoc (e : Env) (f : View) (pool : List Nat) (confH : Nat → Option Nat) (i : Nat)
    (h : VChainV e f pool confH) (hfresh : confH i = none) : VChainV e f (pool ++ [i]) confH := by
  intro key
  obtain ⟨l, hl, ho⟩ := h key
  exact ⟨l, hl, ho.keep_pending i hfresh⟩

/-- **kept by the application of an admitted transaction that becomes pending** -/
theorem vchainV_step_pending (e : Env) (f : View) (pool : List Nat) (confH : Nat → Option Nat) (t : Tx)
    (h : VChainV e f pool confH) (hself : e.tx t.id = t) (hadm : AdmV f t) (hnew : t.id ∉ pool)
    (hfresh : confH t.id = none) : VChainV e (stepV t f) (pool ++ [t.id]) confH := by
  intro key
  obtain ⟨l, hl, ho⟩ := h key
  unfold stepV
  cases hw : writeOff t.kout 0 key with
  | none => exact ⟨l, hl, ho.keep_pending t.id hfresh⟩
  | some o =>
    exact ⟨(t.id, o) :: l, links_push e t f key o l hself hadm hw hl, ho.push_pending t.id hnew hfresh⟩

/-- a transaction that becomes confirmed without touching the view -/
theorem vchainV_conf_fresh (e : Env) (f : View) (confH : Nat → Option Nat) (i hb : Nat)
    (h : VChainV e f [] confH) (hfresh : confH i = none) :
    VChainV e f [] (fun j => if j = i then some hb else confH j) := by
  intro key
  obtain ⟨l, hl, ho⟩ := h key
  refine ⟨l, hl, ho.congr (fun j hj => ?_)⟩
  have : j ≠ i := fun e => ho.fresh_notin i (by simp) hfresh (e ▸ hj)
  simp [this]

/-- **kept by the application of an admitted transaction confirmed in the tip block** (empty pool; `hb` = the height
of the block, at least every height the ledger knows) -/
theorem vchainV_step_conf (e : Env) (f : View) (confH : Nat → Option Nat) (t : Tx) (hb : Nat)
    (h : VChainV e f [] confH) (hself : e.tx t.id = t) (hadm : AdmV f t) (hfresh : confH t.id = none)
    (htop : ∀ j bh, confH j = some bh → bh ≤ hb) :
    VChainV e (stepV t f) [] (fun j => if j = t.id then some hb else confH j) := by
  intro key
  obtain ⟨l, hl, ho⟩ := h key
  unfold stepV
  cases hw : writeOff t.kout 0 key with
  | none => exact vchainV_conf_fresh e f confH t.id hb h hfresh key
  | some o =>
    exact ⟨(t.id, o) :: l, links_push e t f key o l hself hadm hw hl, ho.push_conf t.id hb hfresh htop⟩

/-- the same for any transaction the environment returns (known under its id, or the empty default) -/
theorem vchainV_step_conf' (e : Env) (hids : EnvIds e) (f : View) (confH : Nat → Option Nat) (i hb : Nat)
    (h : VChainV e f [] confH) (hadm : AdmV f (e.tx i)) (hfresh : confH i = none)
    (htop : ∀ j bh, confH j = some bh → bh ≤ hb) :
    VChainV e (stepV (e.tx i) f) [] (fun j => if j = i then some hb else confH j) := by
  rcases envIds_tx e hids i with hid | hd
  · have := vchainV_step_conf e f confH (e.tx i) hb h (by rw [hid]) hadm (by rw [hid]; exact hfresh) htop
    rw [hid] at this
    exact this
  · rw [hd, stepV_default]
    exact vchainV_conf_fresh e f confH i hb h hfresh

/-- **kept by a whole block** applied on an empty pool: all its transactions get the height of the block -/
theorem vchainV_run_conf (e : Env) (hids : EnvIds e) (hb : Nat) (l : List Nat) :
    ∀ (f : View) (confH : Nat → Option Nat), VChainV e f [] confH → RunV e l f → l.Nodup →
      (∀ i ∈ l, confH i = none) → (∀ j bh, confH j = some bh → bh ≤ hb) →
      VChainV e (runV e l f) [] (fun j => if j ∈ l then some hb else confH j) := by
  induction l with
  | nil =>
    intro f confH h _ _ _ _
    have : (fun j => if j ∈ ([] : List Nat) then some hb else confH j) = confH := by funext j; simp
    rw [this]
    exact h
  | cons i rest ih =>
    intro f confH h hrun hnd hfresh htop
    obtain ⟨hni, hnd'⟩ := List.nodup_cons.mp hnd
    have h1 := vchainV_step_conf' e hids f confH i hb h hrun.1 (hfresh i List.mem_cons_self) htop
    have h2 := ih _ _ h1 hrun.2 hnd'
      (fun j hj => by
        have : j ≠ i := fun e => hni (e ▸ hj)
        simp only [this, ↓reduceIte]
        exact hfresh j (List.mem_cons_of_mem _ hj))
      (fun j bh hj => by
        by_cases hji : j = i
        · simp only [hji, ↓reduceIte, Option.some.injEq] at hj; omega
        · simp only [hji, ↓reduceIte] at hj; exact htop j bh hj)
    rw [runV_cons]
    have hfun : (fun j => if j ∈ i :: rest then some hb else confH j) =
        (fun j => if j ∈ rest then some hb else if j = i then some hb else confH j) := by
      funext j
      by_cases h1 : j ∈ rest
      · simp [h1]
      · by_cases h2 : j = i <;> simp [h1, h2]
    rw [hfun]
    exact h2

-- ------------------------------------------------------------------ the invariant on states

/-- **the version-chain invariant** of a node state, `confH` being the ledger's transaction → block height table -/
def VChain (e : Env) (s : St) (confH : Nat → Option Nat) : Prop := VChainV e (curVer s) s.pool confH

/-- it holds in a state with empty key tables -/
theorem vchain_of_empty (e : Env) (s : St) (confH : Nat → Option Nat) (h1 : s.ZU = []) (h2 : s.ZD = []) :
    VChain e s confH := by
  have : curVer s = fun _ => none := by
    funext key; unfold curVer; rw [h1, h2]; rfl
  unfold VChain
  rw [this]
  exact vchainV_empty e s.pool confH

/-- kept by `applyTx` of an admitted transaction recorded at the end of the pool (what `doTx` does) -/
theorem vchain_apply_pending (e : Env) (s : St) (confH : Nat → Option Nat) (t : Tx) (h : VChain e s confH)
    (hself : e.tx t.id = t) (hadm : AdmV (curVer s) t) (hnew : t.id ∉ s.pool) (hfresh : confH t.id = none) :
    VChain e { applyTx s t with pool := s.pool ++ [t.id] } confH := by
  have hv : curVer ({ applyTx s t with pool := s.pool ++ [t.id] } : St) = stepV t (curVer s) :=
    funext (applyTx_view s t)
  unfold VChain
  rw [hv]
  exact vchainV_step_pending e (curVer s) s.pool confH t h hself hadm hnew hfresh

/-- kept by `applyTx` of an admitted transaction confirmed at height `hb` (empty pool) -/
theorem vchain_apply_confirmed (e : Env) (s : St) (confH : Nat → Option Nat) (t : Tx) (hb : Nat)
    (h : VChain e s confH) (hp : s.pool = []) (hself : e.tx t.id = t) (hadm : AdmV (curVer s) t)
    (hfresh : confH t.id = none) (htop : ∀ j bh, confH j = some bh → bh ≤ hb) :
    VChain e (applyTx s t) (fun j => if j = t.id then some hb else confH j) := by
  have hv : curVer (applyTx s t) = stepV t (curVer s) := funext (applyTx_view s t)
  unfold VChain at h ⊢
  rw [hv, (applyTx_frame s t).2.2, hp]
  rw [hp] at h
  exact vchainV_step_conf e (curVer s) confH t hb h hself hadm hfresh htop

/-- kept by `doTx` (admitted or refused), for a transaction the ledger does not know -/
theorem vchain_doTx' (e : Env) (hids : EnvIds e) (s : St) (confH : Nat → Option Nat) (lh : Int) (i : Nat)
    (h : VChain e s confH) (hfresh : confH i = none) : VChain e (doTx e s lh i).1 confH := by
  rcases doTx_cases e s lh i with hc | ⟨hni, hadm, hc⟩
  · rw [hc]; exact h
  · rw [hc]
    rcases envIds_tx e hids i with hid | hd
    · have := vchain_apply_pending e s confH (e.tx i) h (by rw [hid]) (admV_of_ok s lh _ hadm)
        (by rw [hid]; exact hni) (by rw [hid]; exact hfresh)
      rw [hid] at this
      exact this
    · have hv : curVer ({ applyTx s (e.tx i) with pool := s.pool ++ [i] } : St) = curVer s := by
        funext key
        show curVer (applyTx s (e.tx i)) key = curVer s key
        rw [applyTx_view, hd, stepV_default]
      unfold VChain
      rw [hv]
      exact vchainV_pool_snoc e (curVer s) s.pool confH i h hfresh

/-- kept by any sequence of submissions of transactions the ledger does not know -/
theorem vchain_pends (e : Env) (hids : EnvIds e) (s s' : St) (confH : Nat → Option Nat) (hp : Pends e s s')
    (hfresh : ∀ i ∈ s'.pool, i ∉ s.pool → confH i = none)
    (h : VChain e s confH) : VChain e s' confH := by
  induction hp with
  | refl => exact h
  | @step s1 lh i hp1 ih =>
    rcases doTx_cases e s1 lh i with hc | ⟨hni, hadm, hc⟩
    · rw [hc] at hfresh ⊢; exact ih hfresh
    · have hpool : (doTx e s1 lh i).1.pool = s1.pool ++ [i] := by rw [hc]
      obtain ⟨l, hl, _, _⟩ := hp1.run
      have hi : confH i = none := by
        apply hfresh i
        · rw [hpool]; simp
        · intro hm; exact hni (by rw [hl]; exact List.mem_append_left _ hm)
      have h1 : VChain e s1 confH := ih (fun j hm hj => hfresh j (by rw [hpool]; exact List.mem_append_left _ hm) hj)
      exact vchain_doTx' e hids s1 confH lh i h1 hi

/-- kept by a block applied on an empty pool (`todoBlock`): its transactions are recorded at the block's height -/
theorem vchain_todoBlock' (e : Env) (hids : EnvIds e) (s s' : St) (confH : Nat → Option Nat) (lh : Int) (b : Block)
    (h : VChain e s confH) (hp : s.pool = []) (ht : todoBlock e s lh b = some s') (hnd : b.txs.Nodup)
    (hfresh : ∀ i ∈ b.txs, confH i = none) (htop : ∀ j bh, confH j = some bh → bh ≤ b.height) :
    VChain e s' (fun j => if j ∈ b.txs then some b.height else confH j) := by
  obtain ⟨t1, t2, t3⟩ := todoBlock_run e s s' lh b ht
  unfold VChain at h ⊢
  rw [t2, t3, hp]
  rw [hp] at h
  exact vchainV_run_conf e hids b.height b.txs _ _ h t1 hnd hfresh htop

-- ------------------------------------------------------------------ undo of the newest writer

/-- after `undoTx` a written key reads at the version the transaction cited (one write per key; `UndoSafe`: the only
raw read of the recycle table, see Lemmas/UndoObs.lean) -/
theorem undoTx_curVer_cited (e : Env) (s : St) (t : Tx) (hnd : (t.kout.map (·.key)).Nodup) (hsafe : UndoSafe s t)
    (ko : KOut) (hko : ko ∈ t.kout) : curVer (undoTx e s t) ko.key = citedVer t ko.key := by
  rw [undoTx_curVer_written e s t hnd ko hko]
  cases hc : citedVer t ko.key with
  | none =>
    by_cases hd : ko.del = true
    · simp [undoZU, undoZD, hd]
    · have hd' : ko.del = false := by simpa using hd
      simp [undoZU, undoZD, hd', hsafe ko hko hc hd']
  | some pv =>
    by_cases hm : verIsDel e pv = true
    · simp [undoZU, undoZD, hm]
    · simp [undoZU, hm]

/-- a transaction that does not write `key` is not among the writers of its chain -/
theorem links_not_writer (e : Env) (t : Tx) (key : String) (top : Option Ver) (l : List Ver) (hself : e.tx t.id = t)
    (hl : Links e key top l) (hk : key ∉ t.kout.map (·.key)) : t.id ∉ l.map (·.1) := by
  intro hm
  obtain ⟨v, hv, hvi⟩ := List.mem_map.mp hm
  obtain ⟨ko, h1, h2⟩ := hl.wrote v hv
  rw [hvi, hself] at h1
  exact hk (List.mem_map.mpr ⟨ko, List.mem_of_getElem? h1, h2⟩)

/-- the view after undoing the newest writer `t`: every key it wrote is back at the version below `t`'s link -/
theorem undo_links (e : Env) (s : St) (t : Tx) (hself : e.tx t.id = t) (hnd : (t.kout.map (·.key)).Nodup)
    (hsafe : UndoSafe s t) (hnewest : ∀ ko ∈ t.kout, ∃ o, curVer s ko.key = some (t.id, o))
    (key : String) (l : List Ver) (hl : Links e key (curVer s key) l) :
    (key ∈ t.kout.map (·.key) → ∃ o l', l = (t.id, o) :: l' ∧ Links e key (curVer (undoTx e s t) key) l') ∧
    (key ∉ t.kout.map (·.key) → Links e key (curVer (undoTx e s t) key) l ∧ t.id ∉ l.map (·.1)) := by
  constructor
  · intro hk
    obtain ⟨ko, hko, rfl⟩ := List.mem_map.mp hk
    obtain ⟨o, ho⟩ := hnewest ko hko
    rw [ho] at hl
    obtain ⟨l', rfl, _, hl'⟩ := hl.head
    refine ⟨o, l', rfl, ?_⟩
    rw [undoTx_curVer_cited e s t hnd hsafe ko hko]
    have : prevOf e (t.id, o) ko.key = citedVer t ko.key := by
      unfold prevOf citedVer
      simp only [hself]
    rw [← this]
    exact hl'
  · intro hk
    rw [undoTx_curVer_other e s t key hk]
    exact ⟨hl, links_not_writer e t key _ l hself hl hk⟩

/-- **kept by `undoTx` of the newest writer, pending**: `t` is the last transaction of the pool and holds the
current version of every key it writes -/
theorem vchain_undo_pending (e : Env) (s : St) (confH : Nat → Option Nat) (t : Tx) (pool0 : List Nat)
    (h : VChain e s confH) (hpool : s.pool = pool0 ++ [t.id]) (hself : e.tx t.id = t)
    (hnd : (t.kout.map (·.key)).Nodup) (hsafe : UndoSafe s t)
    (hnewest : ∀ ko ∈ t.kout, ∃ o, curVer s ko.key = some (t.id, o)) :
    VChain e { undoTx e s t with pool := pool0 } confH := by
  intro key
  obtain ⟨l, hl, ho⟩ := h key
  rw [hpool] at ho
  obtain ⟨u1, u2⟩ := undo_links e s t hself hnd hsafe hnewest key l hl
  by_cases hk : key ∈ t.kout.map (·.key)
  · obtain ⟨o, l', rfl, hl'⟩ := u1 hk
    exact ⟨l', hl', Ordered.pop_pending (i := t.id) (by simpa using ho)⟩
  · obtain ⟨hl', hni⟩ := u2 hk
    exact ⟨l, hl', ho.drop_pending hni⟩

/-- **kept by `undoTx` of the newest writer, confirmed** (empty pool: a block being undone, newest transaction
first): the ledger forgets the transaction -/
theorem vchain_undo_confirmed (e : Env) (s : St) (confH : Nat → Option Nat) (t : Tx)
    (h : VChain e s confH) (hpool : s.pool = []) (hself : e.tx t.id = t)
    (hnd : (t.kout.map (·.key)).Nodup) (hsafe : UndoSafe s t)
    (hnewest : ∀ ko ∈ t.kout, ∃ o, curVer s ko.key = some (t.id, o)) :
    VChain e (undoTx e s t) (fun j => if j = t.id then none else confH j) := by
  intro key
  obtain ⟨l, hl, ho⟩ := h key
  rw [hpool] at ho
  rw [(undoTx_frame e s t).2.2, hpool]
  obtain ⟨u1, u2⟩ := undo_links e s t hself hnd hsafe hnewest key l hl
  by_cases hk : key ∈ t.kout.map (·.key)
  · obtain ⟨o, l', rfl, hl'⟩ := u1 hk
    exact ⟨l', hl', Ordered.pop_conf (i := t.id) (by simpa using ho)⟩
  · obtain ⟨hl', hni⟩ := u2 hk
    refine ⟨l, hl', ho.congr (fun j hj => ?_)⟩
    have : j ≠ t.id := fun e => hni (e ▸ hj)
    simp [this]

-- ------------------------------------------------------------------ what the invariant gives the snapshot

/-- on a state with an empty pool whose ledger knows no height above `hB`, every version shown is confirmed at or
below `hB` — the hypothesis of the snapshot theorems -/
theorem vchain_confirmed_le (e : Env) (s : St) (confH : Nat → Option Nat) (hB : Nat) (h : VChain e s confH)
    (hp : s.pool = []) (htop : ∀ i bh, confH i = some bh → bh ≤ hB) :
    ∀ key v, curVer s key = some v → ∃ bh, confH v.1 = some bh ∧ bh ≤ hB := by
  intro key v hv
  obtain ⟨l, hl, ho⟩ := h key
  rw [hv] at hl
  obtain ⟨l', rfl, _, _⟩ := hl.head
  rw [hp] at ho
  rcases ho.mem_cases v.1 (by simp) with h1 | ⟨bh, h1⟩
  · cases h1
  · exact ⟨bh, h1, htop _ _ h1⟩

/-- the walk along a finite chain whose writers are all pending or known to the ledger never runs out of fuel
`length + 1`, and answers the first link that is not pending and confirmed at or below the snapshot height -/
theorem walkBack_links (e : Env) (pool : List Nat) (confH : Nat → Option Nat) (h : Nat) (key : String)
    (top : Option Ver) (l : List Ver) (hl : Links e key top l)
    (hknown : ∀ v ∈ l, v.1 ∈ pool ∨ ∃ bh, confH v.1 = some bh) (fuel : Nat) (hfuel : l.length + 1 ≤ fuel) :
    walkBack e pool confH h key fuel top =
      l.find? (fun v => !pool.contains v.1 && confLe confH h v.1) := by
  induction hl generalizing fuel with
  | nil =>
    obtain ⟨n, rfl⟩ : ∃ n, fuel = n + 1 := ⟨fuel - 1, by omega⟩
    rfl
  | cons v l _ _ ih =>
    obtain ⟨n, rfl⟩ : ∃ n, fuel = n + 1 := ⟨fuel - 1, by omega⟩
    have ih' := ih (fun w hw => hknown w (List.mem_cons_of_mem _ hw)) n (by simp at hfuel; omega)
    rw [walkBack_succ_some, List.find?_cons]
    by_cases hp : v.1 ∈ pool
    · simp [hp, ih']
    · rcases hknown v List.mem_cons_self with h1 | ⟨bh, h1⟩
      · exact absurd h1 hp
      · by_cases hle : bh ≤ h
        · simp [hp, h1, hle, confLe]
        · simp [hp, h1, hle, confLe, ih']

end XV.Snapshot

-- ------------------------------------------------------------------ no transaction writes a key twice in a history

namespace XV.Snapshot
open XV.Chain

/-- the chain of a key only grows along a run of admitted transactions: the old chain is a suffix of the new one -/
theorem links_run (e : Env) (hids : EnvIds e) (key : String) (l : List Nat) :
    ∀ (f : View) (l0 : List Ver), RunV e l f → Links e key (f key) l0 →
      ∃ x, Links e key (runV e l f key) (x ++ l0) := by
  induction l with
  | nil => intro f l0 _ h; exact ⟨[], h⟩
  | cons i rest ih =>
    intro f l0 hrun h
    rw [runV_cons]
    cases hw : writeOff (e.tx i).kout 0 key with
    | none =>
      have hs : stepV (e.tx i) f key = f key := by unfold stepV; rw [hw]
      exact ih _ l0 hrun.2 (by rw [hs]; exact h)
    | some o =>
      have hid : (e.tx i).id = i := by
        rcases envIds_tx e hids i with h2 | h2
        · exact h2
        · rw [h2, default_kout] at hw; simp [writeOff] at hw
      have h1 := links_push e (e.tx i) f key o l0 (by rw [hid]) hrun.1 hw h
      have hs : stepV (e.tx i) f key = some ((e.tx i).id, o) := by unfold stepV; rw [hw]
      obtain ⟨x, hx⟩ := ih _ _ hrun.2 (by rw [hs]; exact h1)
      exact ⟨x ++ [((e.tx i).id, o)], by rw [List.append_assoc]; exact hx⟩

/-- **the writer of the current version of a key is never admitted again** (its chain would have to shrink back to
what it was before that write, and chains only grow): along any run on top of a view whose version `v` of `key` has a
finite chain, transaction `v.1` does not occur -/
theorem no_rewrite (e : Env) (hids : EnvIds e) (key : String) (v : Ver) (l' : List Ver) (f : View) (l : List Nat)
    (hf : f key = some v) (hl : Links e key (some v) (v :: l')) (hrun : RunV e l f) : v.1 ∉ l := by
  intro hm
  obtain ⟨M, N, rfl⟩ := List.append_of_mem hm
  obtain ⟨r1, r2⟩ := (RunV_append e M (v.1 :: N) f).mp hrun
  have hadm : AdmV (runV e M f) (e.tx v.1) := r2.1
  obtain ⟨x, hx⟩ := links_run e hids key M f (v :: l') r1 (by rw [hf]; exact hl)
  cases hl with
  | cons _ _ hw hl' =>
    obtain ⟨ko, h1, h2⟩ := hw
    have hmem : key ∈ (e.tx v.1).kout.map (·.key) := List.mem_map.mpr ⟨ko, List.mem_of_getElem? h1, h2⟩
    have hc : citedVer (e.tx v.1) key = runV e M f key := citedVer_view _ _ hadm key hmem
    have hp : prevOf e v key = citedVer (e.tx v.1) key := rfl
    rw [hp, hc] at hl'
    have := congrArg List.length (Links.unique hx hl')
    simp at this
    omega

/-- **a transaction that writes a key occurs only once in a run** that starts from a view with a finite chain of
the key (in particular: from a state without keys) -/
theorem writer_once (e : Env) (hids : EnvIds e) (key : String) (f0 : View) (l0 : List Ver)
    (h0 : Links e key (f0 key) l0) (A B : List Nat) (i : Nat) (hrun : RunV e (A ++ i :: B) f0)
    (hw : writesKey e key i = true) : i ∉ B := by
  obtain ⟨r1, r2⟩ := (RunV_append e A (i :: B) f0).mp hrun
  unfold writesKey at hw
  cases hwo : writeOff (e.tx i).kout 0 key with
  | none => rw [hwo] at hw; cases hw
  | some o =>
    have hid : (e.tx i).id = i := by
      rcases envIds_tx e hids i with h2 | h2
      · exact h2
      · rw [h2, default_kout] at hwo; simp [writeOff] at hwo
    obtain ⟨x, hx⟩ := links_run e hids key A f0 l0 r1 h0
    have h1 := links_push e (e.tx i) (runV e A f0) key o (x ++ l0) (by rw [hid]) r2.1 hwo hx
    have hs : stepV (e.tx i) (runV e A f0) key = some ((e.tx i).id, o) := by unfold stepV; rw [hwo]
    have := no_rewrite e hids key ((e.tx i).id, o) (x ++ l0) _ B hs h1 r2.2
    rw [hid] at this
    exact this

/-- the same for an occurrence in a first part `L1` of the run and any later part -/
theorem writer_once_split (e : Env) (hids : EnvIds e) (key : String) (f0 : View) (l0 : List Ver)
    (h0 : Links e key (f0 key) l0) (L1 L2 : List Nat) (i : Nat) (hrun : RunV e (L1 ++ L2) f0)
    (hw : writesKey e key i = true) (h1 : i ∈ L1) : i ∉ L2 := by
  obtain ⟨A, B, rfl⟩ := List.append_of_mem h1
  rw [List.append_assoc, List.cons_append] at hrun
  have := writer_once e hids key f0 l0 h0 A (B ++ L2) i hrun hw
  exact fun hm => this (List.mem_append_right _ hm)

end XV.Snapshot
