import XV.Lemmas.CrashTrace
import XV.Props.C17
/-!
The irreversible height along the trace of a consensus (non-pruning) walk: it never decreases from one batch to the
next, so the value a crash leaves behind lies between the value before the walk and the value after it.
-/
namespace XV.Crash
open XV.Chain XV.C17

/-- the irreversible height does not decrease along the list -/
def IrrevSorted (l : List St) : Prop := l.Pairwise (fun a b => a.irrev ≤ b.irrev)

theorem undoSteps_irrev (e : Env) (l : List Nat) : ∀ st x, x ∈ undoSteps e false l st → x.irrev = st.irrev := by
  induction l with
  | nil => intro st x hx; simp [undoSteps] at hx
  | cons bi rest ih =>
    intro st x hx
    unfold undoSteps at hx
    simp only at hx
    split at hx
    · simp at hx
    · rcases List.mem_cons.mp hx with rfl | hx
      · exact undoBlock_irrev e st (e.block bi)
      · rw [ih _ x hx]; exact undoBlock_irrev e st (e.block bi)

theorem undoAll_irrev' (e : Env) (l : List Nat) : ∀ st, (walk.undoAll e false l st).1.irrev = st.irrev := by
  induction l with
  | nil => intro st; rfl
  | cons bi rest ih =>
    intro st
    rw [undoAll_cons]
    split
    · rfl
    · rw [ih]; exact undoBlock_irrev e st (e.block bi)

theorem todoAll_irrev_le (e : Env) (lh : Int) (l : List Nat) : ∀ st, st.irrev ≤ (walk.todoAll e lh l st).1.irrev := by
  induction l with
  | nil => intro st; exact Int.le_refl _
  | cons bi rest ih =>
    intro st
    rw [todoAll_cons]
    cases hb : todoBlock e st lh (e.block bi) with
    | none => exact Int.le_refl _
    | some st' =>
      simp only
      have h1 := todoBlock_irrev e st st' lh (e.block bi) hb
      have h2 := nextIrrev_mono e.window st.irrev (e.block bi).height
      have h3 := ih st'
      omega

theorem todoSteps_irrev (e : Env) (lh : Int) (l : List Nat) : ∀ st,
    IrrevSorted (todoSteps e lh l st) ∧
    ∀ x ∈ todoSteps e lh l st, st.irrev ≤ x.irrev ∧ x.irrev ≤ (walk.todoAll e lh l st).1.irrev := by
  induction l with
  | nil => intro st; exact ⟨List.Pairwise.nil, fun x hx => by simp [todoSteps] at hx⟩
  | cons bi rest ih =>
    intro st
    unfold todoSteps
    rw [todoAll_cons]
    cases hb : todoBlock e st lh (e.block bi) with
    | none => exact ⟨List.Pairwise.nil, fun x hx => by simp at hx⟩
    | some st' =>
      simp only
      obtain ⟨i1, i2⟩ := ih st'
      have h1 := todoBlock_irrev e st st' lh (e.block bi) hb
      have h2 := nextIrrev_mono e.window st.irrev (e.block bi).height
      refine ⟨List.pairwise_cons.mpr ⟨fun x hx => (i2 x hx).1, i1⟩, ?_⟩
      intro x hx
      rcases List.mem_cons.mp hx with rfl | hx
      · exact ⟨by omega, todoAll_irrev_le e lh rest x⟩
      · obtain ⟨a, b⟩ := i2 x hx
        exact ⟨by omega, b⟩

theorem repostSteps_irrev (e : Env) (lh : Int) (l : List Nat) : ∀ st x, x ∈ repostSteps e lh l st →
    x.irrev = st.irrev := by
  induction l with
  | nil => intro st x hx; simp [repostSteps] at hx
  | cons i rest ih =>
    intro st x hx
    unfold repostSteps at hx
    split at hx
    · rcases List.mem_cons.mp hx with rfl | hx
      · exact doTx_irrev e st lh i
      · rw [ih _ x hx]; exact doTx_irrev e st lh i
    · rw [ih _ x hx]; exact doTx_irrev e st lh i

theorem foldl_doTx_irrev' (e : Env) (lh : Int) (l : List Nat) (s : St) :
    (l.foldl (fun st i => (doTx e st lh i).1) s).irrev = s.irrev := by
  induction l generalizing s with
  | nil => rfl
  | cons i rest ih => simp only [List.foldl_cons]; rw [ih, doTx_irrev]

theorem rolledBack_irrev (e : Env) (s : St) : (rolledBack e s).irrev = s.irrev := by
  have : ∀ (l : List Nat) (st : St), (l.foldl (fun st i => undoTx e st (e.tx i)) st).irrev = st.irrev := by
    intro l
    induction l with
    | nil => intro st; rfl
    | cons i rest ih => intro st; simp only [List.foldl_cons]; rw [ih, (undoTx_frame _ _ _).2.1]
  exact this s.pool.reverse s

theorem irrevSorted_const (l : List St) (c : Int) (h : ∀ x ∈ l, x.irrev = c) : IrrevSorted l := by
  unfold IrrevSorted
  induction l with
  | nil => exact List.Pairwise.nil
  | cons a r ih =>
    refine List.pairwise_cons.mpr ⟨fun x hx => ?_, ih (fun x hx => h x (List.mem_cons_of_mem _ hx))⟩
    rw [h a List.mem_cons_self, h x (List.mem_cons_of_mem _ hx)]
    exact Int.le_refl _

/-- **along a consensus walk the irreversible height never decreases from batch to batch**, starting from the value
before the walk; in particular the value in any crash state lies between the value before and the value after the
walk (the last element of the trace is the result of the walk, `walkTrace_getLast`) -/
theorem walkTrace_irrev_sorted (e : Env) (s : St) (lh : Int) (dest : Nat) :
    IrrevSorted (s :: walkTrace e s lh dest false) ∧
    ∀ x ∈ walkTrace e s lh dest false, x.irrev ≤ (walk e s lh dest false).1.irrev := by
  -- values on the three parts
  have hs0 := rolledBack_irrev e s
  have hU : ∀ x ∈ undoSteps e false (undoTodo e s.pointer dest).1 (rolledBack e s), x.irrev = s.irrev :=
    fun x hx => (undoSteps_irrev e _ _ x hx).trans hs0
  have hs1 : (walk.undoAll e false (undoTodo e s.pointer dest).1 (rolledBack e s)).1.irrev = s.irrev :=
    (undoAll_irrev' e _ _).trans hs0
  obtain ⟨hT1, hT2⟩ := todoSteps_irrev e lh (undoTodo e s.pointer dest).2
    (walk.undoAll e false (undoTodo e s.pointer dest).1 (rolledBack e s)).1
  rw [hs1] at hT2
  -- the result of the walk
  have hfin : (walk e s lh dest false).1.irrev = (walkCore e s lh dest false).1.irrev := by
    rw [walk_eq_core]
    split
    · exact foldl_doTx_irrev' e lh (repostList e s) _
    · rfl
  have hcore : s.irrev ≤ (walkCore e s lh dest false).1.irrev := by
    unfold walkCore
    simp only
    split
    · rw [hs1]; exact Int.le_refl _
    · have := todoAll_irrev_le e lh (undoTodo e s.pointer dest).2
        (walk.undoAll e false (undoTodo e s.pointer dest).1 (rolledBack e s)).1
      rw [hs1] at this
      exact this
  have hR : ∀ x ∈ walkRepost e s lh dest false, x.irrev = (walkCore e s lh dest false).1.irrev := by
    intro x hx
    obtain ⟨_, A, B, _, _, hxe⟩ := mem_walkRepost e s lh dest false x hx
    rw [hxe]; exact foldl_doTx_irrev' e lh A _
  -- the block-boundary part
  have hM : ∀ x ∈ walkMid e s lh dest false, s.irrev ≤ x.irrev ∧ x.irrev ≤ (walkCore e s lh dest false).1.irrev := by
    intro x hx
    unfold walkMid at hx
    simp only at hx
    rcases List.mem_cons.mp hx with rfl | hx
    · rw [hs0]; exact ⟨Int.le_refl _, hcore⟩
    · rcases List.mem_append.mp hx with hx | hx
      · rw [hU x hx]; exact ⟨Int.le_refl _, hcore⟩
      · cases h1 : (walk.undoAll e false (undoTodo e s.pointer dest).1 (rolledBack e s)).2 with
        | false => rw [h1] at hx; simp at hx
        | true =>
          rw [h1] at hx
          simp only [↓reduceIte] at hx
          obtain ⟨a, b⟩ := hT2 x hx
          refine ⟨a, ?_⟩
          unfold walkCore
          simp only [h1, Bool.not_true, Bool.false_eq_true, ↓reduceIte]
          exact b
  have hMs : IrrevSorted (walkMid e s lh dest false) := by
    unfold walkMid IrrevSorted
    simp only
    refine List.pairwise_cons.mpr ⟨?_, List.pairwise_append.mpr ⟨irrevSorted_const _ _ hU, ?_, ?_⟩⟩
    · intro x hx
      rw [hs0]
      exact (hM x (by unfold walkMid; exact List.mem_cons_of_mem _ hx)).1
    · split
      · exact hT1
      · exact List.Pairwise.nil
    · intro a ha b hb
      rw [hU a ha]
      exact (hM b (by
        unfold walkMid
        exact List.mem_cons_of_mem _ (List.mem_append_right _ hb))).1
  constructor
  · unfold IrrevSorted walkTrace
    refine List.pairwise_cons.mpr ⟨?_, List.pairwise_append.mpr ⟨hMs, irrevSorted_const _ _ hR, ?_⟩⟩
    · intro x hx
      rcases List.mem_append.mp hx with hx | hx
      · exact (hM x hx).1
      · rw [hR x hx]; exact hcore
    · intro a ha b hb
      rw [hR b hb]
      exact (hM a ha).2
  · intro x hx
    unfold walkTrace at hx
    rw [hfin]
    rcases List.mem_append.mp hx with hx | hx
    · exact (hM x hx).2
    · rw [hR x hx]; exact Int.le_refl _

end XV.Crash
