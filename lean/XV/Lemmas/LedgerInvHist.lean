import XV.Lemmas.LedgerInvFork
/-!
Ledger main-chain invariant, part 13: histories of `confirm` operations from genesis — heights never exceed the
trunk height and, among the highest blocks, the tip is the one confirmed first. No hypothesis on the operations.
-/
namespace XV.Ledger
open XV.Chain (lookup put del lookup_put lookup_del lookup_put_same lookup_cons lookup_nil)

/-- height of a stored block -/
def hmap (l : L) (x : Nat) : Option Nat := (lookup l.B x).map (·.height)

theorem hmap_saveBlock (l : L) (id : Nat) (h : Hdr) (x : Nat) :
    hmap (saveBlock l id h) x = if id = x then some h.height else hmap l x := by
  unfold hmap
  rw [saveBlock_B]
  by_cases e : id = x <;> simp [e]

theorem handleFork_heights (l0 : L) (fuel p q : Nat) (nh : Option Nat) (l l' : L) (sh : Nat)
    (h : handleFork l0 fuel p q nh l = some (l', sh)) (hl : ∀ x, hmap l x = hmap l0 x) : ∀ x, hmap l' x = hmap l0 x := by
  induction fuel generalizing p q nh l with
  | zero => simp [handleFork] at h
  | succ n ih =>
    by_cases e : p = q
    · subst e
      cases sq : lookup l0.B p with
      | none => simp [handleFork, sq] at h
      | some sb =>
        rw [handleFork_same l0 n p nh l sb sq] at h
        simp only [Option.some.injEq, Prod.mk.injEq] at h
        obtain ⟨h1, _⟩ := h
        subst h1
        intro x
        rw [hmap_saveBlock]
        by_cases ex : p = x
        · subst ex; simp [hmap, sq]
        · rw [if_neg ex]; exact hl x
    · cases sp : lookup l0.B p with
      | none => simp [handleFork, e, sp] at h
      | some pb =>
        cases sq : lookup l0.B q with
        | none => simp [handleFork, e, sp, sq] at h
        | some qb =>
          cases e1 : pb.pre with
          | none => simp [handleFork, e, sp, sq, e1] at h
          | some pp =>
            cases e2 : qb.pre with
            | none => simp [handleFork, e, sp, sq, e1, e2] at h
            | some qp =>
              rw [handleFork_step l0 n p q pp qp nh l pb qb e sp sq e1 e2] at h
              refine ih _ _ _ _ h ?_
              intro x
              rw [hmap_saveBlock, hmap_saveBlock]
              by_cases ex : q = x
              · subst ex; simp [hmap, sq]
              · rw [if_neg ex]
                by_cases ex2 : p = x
                · subst ex2; simp [hmap, sp]
                · rw [if_neg ex2]; exact hl x

/-- heights, tip and trunk height after a successful `confirm` -/
theorem confirm_heights (l : L) (id pre : Nat) (txs : List (Nat × Bool)) (hs : (confirm l id pre txs).2 ≠ .fail) :
    ∃ pb, lookup l.B id = none ∧ lookup l.B pre = some pb ∧
      (∀ x, hmap (confirm l id pre txs).1 x = if id = x then some (pb.height + 1) else hmap l x) ∧
      ((pre = l.tip ∧ (confirm l id pre txs).1.tip = id ∧ (confirm l id pre txs).1.trunkHeight = l.trunkHeight + 1) ∨
       ((confirm l id pre txs).1.tip = id ∧ (confirm l id pre txs).1.trunkHeight = pb.height + 1 ∧
          l.trunkHeight < pb.height + 1) ∨
       ((confirm l id pre txs).1.tip = l.tip ∧ (confirm l id pre txs).1.trunkHeight = l.trunkHeight ∧
          pb.height + 1 ≤ l.trunkHeight)) := by
  have hnew : ∀ (l1 l4 : L) (it : Bool) (sh cb : Nat) (pb : Hdr),
      confirmTxs l id it sh txs cb (withNew l1 id pre (pb.height + 1) it (txs.map (·.1))) = some l4 →
      (∀ x, hmap l1 x = hmap l x) → ∀ x, hmap l4 x = if id = x then some (pb.height + 1) else hmap l x := by
    intro l1 l4 it sh cb pb hc h1 x
    obtain ⟨fB, _⟩ := cTxs_frame _ _ _ _ _ _ _ _ hc
    unfold hmap
    rw [fB, withNew_B]
    by_cases e : id = x
    · simp [e]
    · rw [if_neg e, if_neg e]; exact h1 x
  rcases confirm_cases' l id pre txs with e | ⟨pb, h1, h2, h⟩
  · rw [e] at hs; exact absurd rfl hs
  · refine ⟨pb, h1, h2, ?_⟩
    rcases h with ⟨a, l4, hc, e⟩ | ⟨a, a', l1, sh, l4, hf, hc, e⟩ | ⟨a, a', l4, hc, e⟩
    · rw [e]
      refine ⟨?_, Or.inl ⟨a, rfl, rfl⟩⟩
      refine hnew _ l4 true _ 0 pb hc ?_
      intro x
      rw [hmap_saveBlock]
      by_cases ex : pre = x
      · subst ex; simp [hmap, h2]
      · rw [if_neg ex]
    · rw [e]
      refine ⟨?_, Or.inr (Or.inl ⟨rfl, rfl, a'⟩)⟩
      exact hnew l1 l4 true sh 0 pb hc (handleFork_heights l _ _ _ _ l l1 sh hf (fun _ => rfl))
    · rw [e]
      obtain ⟨_, _, _, ftip, fth, _⟩ := cTxs_frame _ _ _ _ _ _ _ _ hc
      refine ⟨hnew l l4 false _ 0 pb hc (fun _ => rfl), Or.inr (Or.inr ⟨?_, ?_, by omega⟩)⟩
      · rw [ftip]; rfl
      · rw [fth]; rfl

/-- `log` lists the stored blocks in confirmation order; the tip is the first confirmed among the highest blocks -/
structure HInv (l : L) (log : List Nat) : Prop where
  dom : ∀ b, b ∈ log ↔ (hmap l b).isSome = true
  tipH : hmap l l.tip = some l.trunkHeight
  le : ∀ b k, hmap l b = some k → k ≤ l.trunkHeight
  first : ∀ b, hmap l b = some l.trunkHeight → b ≠ l.tip → ∃ l1 l2 l3, log = l1 ++ l.tip :: l2 ++ b :: l3
  nodup : log.Nodup

theorem genesis_hinv (g : Nat) (gtxs : List Nat) : HInv (genesis g gtxs) [g] := by
  have hm : ∀ x, hmap (genesis g gtxs) x = if g = x then some 0 else none := by
    intro x
    unfold hmap
    rw [genesis_B]
    by_cases e : g = x <;> simp [e]
  refine ⟨?_, ?_, ?_, ?_, by simp⟩
  · intro b
    rw [hm]
    by_cases e : g = b
    · simp [e]
    · have : ¬ b = g := fun h => e h.symm
      simp [e, this]
  · rw [hm]; simp [genesis]
  · intro b k hk
    rw [hm] at hk
    by_cases e : g = b
    · rw [if_pos e] at hk; cases hk; exact Nat.le_refl _
    · rw [if_neg e] at hk; cases hk
  · intro b hb hne
    rw [hm] at hb
    by_cases e : g = b
    · exact absurd e.symm hne
    · rw [if_neg e] at hb; cases hb

theorem confirm_hinv {l : L} {log : List Nat} (H : HInv l log) (id pre : Nat) (txs : List (Nat × Bool))
    (hs : (confirm l id pre txs).2 ≠ .fail) : HInv (confirm l id pre txs).1 (log ++ [id]) := by
  obtain ⟨pb, hid, hp, hm, hcase⟩ := confirm_heights l id pre txs hs
  have hidm : hmap l id = none := by simp [hmap, hid]
  have hpm : hmap l pre = some pb.height := by simp [hmap, hp]
  have idlog : id ∉ log := by
    intro h
    have := (H.dom id).1 h
    rw [hidm] at this; cases this
  have tiplog : l.tip ∈ log := (H.dom l.tip).2 (by rw [H.tipH]; rfl)
  have tipne : l.tip ≠ id := fun e => idlog (e ▸ tiplog)
  have hdom : ∀ b, b ∈ log ++ [id] ↔ (hmap (confirm l id pre txs).1 b).isSome = true := by
    intro b
    rw [hm, List.mem_append, List.mem_singleton]
    by_cases e : id = b
    · simp [e]
    · have : ¬ b = id := fun h => e h.symm
      simp [e, this, H.dom b]
  have hnd : (log ++ [id]).Nodup := by
    simp only [List.nodup_append, H.nodup, List.nodup_cons, List.not_mem_nil, not_false_eq_true, List.nodup_nil,
      and_self, List.mem_cons, or_false, ne_eq, forall_eq, true_and]
    intro a ha e
    exact idlog (e ▸ ha)
  have newTip : ∀ k, (confirm l id pre txs).1.tip = id → (confirm l id pre txs).1.trunkHeight = k → k = pb.height + 1 →
      l.trunkHeight < k → HInv (confirm l id pre txs).1 (log ++ [id]) := by
    intro k h1 h2 h3 h4
    refine ⟨hdom, ?_, ?_, ?_, hnd⟩
    · rw [h1, h2, hm, if_pos rfl, h3]
    · intro b j hb
      rw [hm] at hb
      rw [h2]
      by_cases e : id = b
      · rw [if_pos e] at hb; cases hb; omega
      · rw [if_neg e] at hb
        have := H.le b j hb
        omega
    · intro b hb hne
      rw [hm, h2] at hb
      rw [h1] at hne
      rw [if_neg (fun e => hne e.symm)] at hb
      have := H.le b k hb
      omega
  rcases hcase with ⟨a, h1, h2⟩ | ⟨h1, h2, h3⟩ | ⟨h1, h2, h3⟩
  · have : pb.height = l.trunkHeight := by
      have := H.tipH
      rw [← a, hpm] at this
      simp only [Option.some.injEq] at this
      exact this
    exact newTip _ h1 h2 (by omega) (by omega)
  · exact newTip _ h1 h2 rfl h3
  · refine ⟨hdom, ?_, ?_, ?_, hnd⟩
    · rw [h1, h2, hm, if_neg (fun e => tipne e.symm)]
      exact H.tipH
    · intro b j hb
      rw [hm] at hb
      rw [h2]
      by_cases e : id = b
      · rw [if_pos e] at hb; cases hb; omega
      · rw [if_neg e] at hb
        exact H.le b j hb
    · intro b hb hne
      rw [hm, h2] at hb
      rw [h1] at hne ⊢
      by_cases e : id = b
      · subst e
        obtain ⟨s, t, est⟩ := List.append_of_mem tiplog
        exact ⟨s, t, [], by rw [est]⟩
      · rw [if_neg e] at hb
        obtain ⟨l1, l2, l3, e3⟩ := H.first b hb hne
        exact ⟨l1, l2, l3 ++ [id], by rw [e3]; simp⟩

/-- run a list of `confirm` operations `(id, pre, txs)`, logging the ids of the blocks confirmed (oldest first) -/
def runOps : L × List Nat → List (Nat × Nat × List (Nat × Bool)) → L × List Nat
  | s, [] => s
  | s, op :: rest =>
    runOps (if (confirm s.1 op.1 op.2.1 op.2.2).2 = .fail then s
            else ((confirm s.1 op.1 op.2.1 op.2.2).1, s.2 ++ [op.1])) rest

theorem runOps_hinv (s : L × List Nat) (ops : List (Nat × Nat × List (Nat × Bool))) (H : HInv s.1 s.2) :
    HInv (runOps s ops).1 (runOps s ops).2 := by
  induction ops generalizing s with
  | nil => exact H
  | cons op rest ih =>
    unfold runOps
    apply ih
    by_cases hf : (confirm s.1 op.1 op.2.1 op.2.2).2 = .fail
    · rw [if_pos hf]; exact H
    · rw [if_neg hf]
      exact confirm_hinv H _ _ _ hf

end XV.Ledger
