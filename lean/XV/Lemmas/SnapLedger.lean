import XV.Lemmas.SnapChain
import XV.Props.C04
/-!
The height table that `xModSnapshot.Get` really consults: the ledger's confirmed table `C` (transaction → the
`Blockid` stored with it) composed with the block table `B` (block → height), as modelled in Model/Ledger.lean.
Under the ledger invariant of C04 (`LedgerInv`, item (h) `c_trunk`: a transaction of a main-chain block is mapped to
THAT block, also after a trunk switch — `correctTxsBlockid` — and whatever side branches hold the same transaction)
this table gives every transaction of the main chain the height of its main-chain block, which is the hypothesis the
snapshot theorems need.
-/
namespace XV.Snapshot
open XV.Chain

/-- transaction → height of the block the ledger's confirmed table names for it -/
def ledgerConfH (l : XV.Ledger.L) (i : Nat) : Option Nat :=
  (lookup l.C i).bind (fun b => (lookup l.B b).map (·.height))

/-- the blocks of `chain` (ids of the chain model's environment) are stored in the ledger as main-chain blocks with
the same transactions and heights -/
def LedgerMatches (l : XV.Ledger.L) (e : Env) (chain : List Nat) : Prop :=
  ∀ b ∈ chain, ∃ h, lookup l.B b = some h ∧ h.inTrunk = true ∧ h.txs = (e.block b).txs ∧
    h.height = (e.block b).height

/-- **the ledger's table reports main-chain heights** -/
theorem ledgerConfH_main (l : XV.Ledger.L) (e : Env) (chain : List Nat) (I : XV.Ledger.LedgerInv l)
    (hm : LedgerMatches l e chain) :
    ∀ b ∈ chain, ∀ i ∈ (e.block b).txs, ledgerConfH l i = some (e.block b).height := by
  intro b hb i hi
  obtain ⟨h, hs, ht, htx, hh⟩ := hm b hb
  have hon := (I.trunk b h hs).1 ht
  have hc := I.c_trunk b h i hs hon (by rw [htx]; exact hi)
  unfold ledgerConfH
  rw [hc]
  simp [hs, hh]

end XV.Snapshot
