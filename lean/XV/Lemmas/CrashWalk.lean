import XV.Lemmas.CrashTrace
import XV.Lemmas.CrashTree
/-!
The intermediate states of a walk: where each of them stands in the block tree (`walkMid_position`), that it is the
canonical state of the block its pointer names with an empty pool (`walkMid_boundary`), and that a walk started from it
towards the same destination is the rest of the interrupted walk (`walk_resume`).
-/
namespace XV.Crash
open XV.Chain XV.C01

theorem exists_snoc_of_ne_nil {α : Type} (A : List α) (h : A ≠ []) : ∃ A' u, A = A' ++ [u] := by
  rcases List.eq_nil_or_concat A with h0 | ⟨A', u, h1⟩
  · exact absurd h0 h
  · exact ⟨A', u, by rw [h1, List.concat_eq_append]⟩

/-- side conditions on the block tree for analysing a walk from `cur` to `dest`: parent links go down in height, the
two blocks have a common ancestor (they descend from one genesis block), and the environment knows the blocks to
apply and the destination under their own ids -/
structure WalkTree (e : Env) (cur dest : Nat) : Prop where
  lower : ParentLower e
  common : ∃ c, c ∈ ancestors e (e.blocks.length + 1) cur ∧ c ∈ ancestors e (e.blocks.length + 1) dest
  ids : ∀ bi ∈ (undoTodo e cur dest).2, (e.block bi).id = bi
  destId : (e.block dest).id = dest

/-- where an intermediate state of a walk stands: in the undo phase after a (possibly empty) prefix `A` of the blocks
to undo, or in the apply phase after a non-empty prefix `A` of the blocks to apply -/
inductive Position (e : Env) (s : St) (lh : Int) (dest : Nat) (prune : Bool) (lca : Nat) (r : List Nat) (x : St) : Prop
  | undo (A B : List Nat)
      (split : (undoTodo e s.pointer dest).1 = A ++ B)
      (run : walk.undoAll e prune A (rolledBack e s) = (x, true))
      (anc : ancestors e (e.blocks.length + 1) x.pointer = B ++ lca :: r)
      (rest : undoTodo e x.pointer dest = (B, (undoTodo e s.pointer dest).2)) : Position e s lh dest prune lca r x
  | todo (s1 : St) (A B : List Nat)
      (undone : walk.undoAll e prune (undoTodo e s.pointer dest).1 (rolledBack e s) = (s1, true))
      (split : (undoTodo e s.pointer dest).2 = A ++ B)
      (ne : A ≠ [])
      (run : walk.todoAll e lh A s1 = (x, true))
      (anc : ancestors e (e.blocks.length + 1) x.pointer = A.reverse ++ lca :: r)
      (rest : undoTodo e x.pointer dest = ([], B)) : Position e s lh dest prune lca r x

theorem todoAll_pool (e : Env) (lh : Int) (l : List Nat) (st x : St) (h : walk.todoAll e lh l st = (x, true)) :
    x.pool = st.pool := by
  have := todoAll_eq e lh l st (by rw [h])
  rw [h] at this
  simp only at this
  rw [this, replayChain_pool]

/-- **every intermediate state of a walk stands on a block of one of the two branches**, with an empty pool, and
`undoTodo` from there returns the rest of the two lists -/
theorem walkMid_position (e : Env) (s : St) (lh : Int) (dest : Nat) (prune : Bool) (W : WalkTree e s.pointer dest) :
    ∃ lca r,
      ancestors e (e.blocks.length + 1) s.pointer = (undoTodo e s.pointer dest).1 ++ lca :: r ∧
      ancestors e (e.blocks.length + 1) dest = (undoTodo e s.pointer dest).2.reverse ++ lca :: r ∧
      ∀ x ∈ walkMid e s lh dest prune, x.pool = [] ∧ Position e s lh dest prune lca r x := by
  obtain ⟨lca, r, h1, h2, hu, ht⟩ := undoTodo_common e s.pointer dest W.lower W.common
  refine ⟨lca, r, h1, h2, ?_⟩
  -- the undo phase, for any split of the undo list (A may be empty)
  have undoCase : ∀ (A B : List Nat) (x : St), (undoTodo e s.pointer dest).1 = A ++ B →
      walk.undoAll e prune A (rolledBack e s) = (x, true) →
      x.pool = [] ∧ Position e s lh dest prune lca r x := by
    intro A B x hsplit hrun
    have hpool : x.pool = [] := by
      have := undoAll_pool e prune A (rolledBack e s)
      rw [hrun] at this
      exact this
    refine ⟨hpool, ?_⟩
    have hptr := undoAll_pointer' e prune A (rolledBack e s) (by rw [hrun])
    rw [hrun] at hptr
    simp only at hptr
    -- the block the state stands on is the head of `B ++ lca :: r`
    obtain ⟨p, tl, hp⟩ : ∃ p tl, B ++ lca :: r = p :: tl := by
      cases B with
      | nil => exact ⟨lca, r, rfl⟩
      | cons b B' => exact ⟨b, B' ++ lca :: r, rfl⟩
    have h1' : ancestors e (e.blocks.length + 1) s.pointer = A ++ B ++ lca :: r := by rw [h1, hsplit]
    have hxp : x.pointer = p := by
      by_cases hA : A = []
      · subst hA
        simp only [List.getLast?_nil] at hptr
        rw [hptr, rolledBack_pointer]
        have hh := ancestors_self_mem e s.pointer
        have : ancestors e (e.blocks.length + 1) s.pointer = p :: tl := by
          rw [h1', List.nil_append, hp]
        rw [ancestors_succ] at this
        exact (List.cons.inj this).1
      · obtain ⟨A', u, hAu⟩ := exists_snoc_of_ne_nil A hA
        have hl : A.getLast? = some u := by rw [hAu]; simp
        rw [hl] at hptr
        simp only at hptr
        have hc : ancestors e (e.blocks.length + 1) s.pointer = A' ++ u :: p :: tl := by
          rw [h1', hAu, List.append_assoc, hp]; simp
        rw [hptr, ancestors_pre e s.pointer A' u p tl hc]
        rfl
    obtain ⟨a1, a2⟩ := undoTodo_after_undo e s.pointer dest W.lower A B (undoTodo e s.pointer dest).2 lca r tl p h1' h2
      (by rw [← hsplit]; exact hu) ht hp
    exact Position.undo A B hsplit hrun (by rw [hxp]; exact a1) (by rw [hxp]; exact a2)
  intro x hx
  rcases mem_walkMid e s lh dest prune x hx with rfl | ⟨A, B, hsplit, _, hrun⟩ | ⟨s1, A, B, hund, hsplit, hne, hrun⟩
  · exact undoCase [] _ _ rfl rfl
  · exact undoCase A B x hsplit hrun
  · obtain ⟨hp1, _⟩ := undoCase (undoTodo e s.pointer dest).1 [] s1 (by simp) hund
    have hpool : x.pool = [] := by rw [todoAll_pool e lh A s1 x hrun, hp1]
    refine ⟨hpool, ?_⟩
    obtain ⟨A', p, hAp⟩ := exists_snoc_of_ne_nil A hne
    have hptr := todoAll_pointer e lh A s1 (by rw [hrun])
    rw [hrun] at hptr
    have hl : A.getLast? = some p := by rw [hAp]; simp
    rw [hl] at hptr
    simp only at hptr
    have hpm : p ∈ (undoTodo e s.pointer dest).2 := by rw [hsplit, hAp]; simp
    have hxp : x.pointer = p := by rw [hptr, W.ids p hpm]
    have h2' : ancestors e (e.blocks.length + 1) dest = ((A' ++ [p]) ++ B).reverse ++ lca :: r := by
      rw [h2, hsplit, hAp]
    obtain ⟨a1, a2⟩ := undoTodo_after_todo e dest W.lower A' B lca r p h2'
    exact Position.todo s1 A B hund hsplit hne hrun (by rw [hxp, hAp]; exact a1) (by rw [hxp]; exact a2)

/-- the block an intermediate state stands on belongs to one of the two branches -/
theorem walkMid_pointer_mem (e : Env) (s : St) (lh : Int) (dest : Nat) (prune : Bool) (W : WalkTree e s.pointer dest)
    (x : St) (hx : x ∈ walkMid e s lh dest prune) :
    x.pointer ∈ ancestors e (e.blocks.length + 1) s.pointer ∨ x.pointer ∈ ancestors e (e.blocks.length + 1) dest := by
  obtain ⟨lca, r, h1, h2, hall⟩ := walkMid_position e s lh dest prune W
  obtain ⟨_, hpos⟩ := hall x hx
  have hself := ancestors_self_mem e x.pointer
  cases hpos with
  | undo A B split run anc rest =>
    left
    rw [anc] at hself
    rw [h1, split, List.append_assoc]
    exact List.mem_append_right _ hself
  | todo s1 A B undone split ne run anc rest =>
    right
    rw [anc] at hself
    rw [h2, split, List.reverse_append, List.append_assoc]
    exact List.mem_append_right _ hself

/-- **an interrupted walk can be resumed**: from every intermediate state `x` of a walk (after the roll-back, after
any undone block, after any applied block) the walk to the same destination — same ledger height, same prune flag —
performs exactly the remaining batches of the interrupted walk and ends in the state the interrupted walk would have
reached before re-admitting its pool, with the same verdict. -/
theorem walk_resume (e : Env) (s : St) (lh : Int) (dest : Nat) (prune : Bool) (W : WalkTree e s.pointer dest)
    (x : St) (hx : x ∈ walkMid e s lh dest prune) :
    walk e x lh dest prune = walkCore e s lh dest prune := by
  obtain ⟨lca, r, _, _, hall⟩ := walkMid_position e s lh dest prune W
  obtain ⟨hpool, hpos⟩ := hall x hx
  rw [walk_eq_core_of_pool_nil e x lh dest prune hpool]
  unfold walkCore
  simp only
  rw [rolledBack_of_pool_nil e x hpool]
  cases hpos with
  | undo A B split run anc rest =>
    rw [rest, split, undoAll_append, run]
    simp only [↓reduceIte]
  | todo s1 A B undone split ne run anc rest =>
    rw [rest, undone, split, undoAll_nil]
    simp only [Bool.not_true, Bool.false_eq_true, ↓reduceIte]
    rw [todoAll_append, run]
    simp only [↓reduceIte]

/-- **every intermediate state of a walk is at a block boundary**: its pool is empty and its tables are those of the
canonical state of the block its pointer names. Hypotheses as for `walk_canonical` (C01): the state refines the
canonical state of its tip with the pool applied, the pool and the chain of the tip satisfy the side conditions of the
transaction / block theorems. -/
theorem walkMid_boundary (e : Env) (s : St) (lh : Int) (dest : Nat) (prune : Bool) (g : St)
    (W : WalkTree e s.pointer dest) (hinv : KVInv e g)
    (hchain : ChainValid e (ancestors e (e.blocks.length + 1) s.pointer).reverse g)
    (hpool : PoolValid e s.pool (canon e g s.pointer))
    (hs : TRefines s (applyPool e s.pool (canon e g s.pointer)))
    (x : St) (hx : x ∈ walkMid e s lh dest prune) :
    x.pool = [] ∧ TRefines x (canon e g x.pointer) := by
  obtain ⟨lca, r, h1, h2, hall⟩ := walkMid_position e s lh dest prune W
  have hpl := W.lower
  -- the roll-back batch
  have hKc : KVInv e (canon e g s.pointer) := replayChain_KVInv e _ g hchain hinv
  have h0 : TRefines (rolledBack e s) (canon e g s.pointer) :=
    (rollback_applyPool e s.pool _ hpool hKc s hs).of_tables ⟨rfl, rfl, rfl, rfl⟩ ⟨rfl, rfl, rfl, rfl⟩
  -- the undo phase, for any split
  have undoCase : ∀ (A B : List Nat) (x : St), (undoTodo e s.pointer dest).1 = A ++ B →
      walk.undoAll e prune A (rolledBack e s) = (x, true) →
      ancestors e (e.blocks.length + 1) x.pointer = B ++ lca :: r → TRefines x (canon e g x.pointer) := by
    intro A B x hsplit hrun hanc
    have hca : ancestors e (e.blocks.length + 1) s.pointer = A ++ (B ++ lca :: r) := by
      rw [h1, hsplit, List.append_assoc]
    have hcx : canon e g x.pointer = replayChain e (B ++ lca :: r).reverse g := by
      unfold canon; rw [hanc]
    have hcs : canon e g s.pointer = replayChain e A.reverse (canon e g x.pointer) := by
      rw [hcx]
      unfold canon
      rw [hca, List.reverse_append, replayChain_append]
    rw [hca, List.reverse_append] at hchain
    obtain ⟨c1, c2⟩ := chainValid_append e _ _ g hchain
    rw [← hcx] at c2
    have hK : KVInv e (canon e g x.pointer) := by
      rw [hcx]; exact replayChain_KVInv e _ g c1 hinv
    have := undoAll_replayChain e prune A (canon e g x.pointer) (rolledBack e s) c2 hK (by rw [← hcs]; exact h0)
      (by rw [hrun])
    rw [hrun] at this
    exact this
  obtain ⟨hp, hpos⟩ := hall x hx
  refine ⟨hp, ?_⟩
  cases hpos with
  | undo A B split run anc rest => exact undoCase A B x split run anc
  | todo s1 A B undone split ne run anc rest =>
    -- the state after the whole undo phase stands on the lowest common ancestor
    have hanc1 : ancestors e (e.blocks.length + 1) s1.pointer = [] ++ lca :: r := by
      have hptr := undoAll_pointer' e prune (undoTodo e s.pointer dest).1 (rolledBack e s) (by rw [undone])
      rw [undone] at hptr
      simp only at hptr
      by_cases hU : (undoTodo e s.pointer dest).1 = []
      · rw [hU] at hptr h1
        simp only [List.getLast?_nil] at hptr
        rw [hptr, rolledBack_pointer, h1]
      · obtain ⟨U', u, hUu⟩ := exists_snoc_of_ne_nil _ hU
        have hl : (undoTodo e s.pointer dest).1.getLast? = some u := by rw [hUu]; simp
        rw [hl] at hptr
        simp only at hptr
        have hc : ancestors e (e.blocks.length + 1) s.pointer = U' ++ u :: lca :: r := by
          rw [h1, hUu]; simp
        rw [hptr, ancestors_pre e s.pointer U' u lca r hc]
        simp only [Option.getD_some, List.nil_append]
        exact (ancestors_tail_eq e hpl s.pointer lca (U' ++ [u]) r (by rw [hc]; simp)).symm
    have hT1 := undoCase (undoTodo e s.pointer dest).1 [] s1 (by simp) undone hanc1
    rw [List.nil_append] at hanc1
    have hx' : x = replayChain e A s1 := by
      have := todoAll_eq e lh A s1 (by rw [run])
      rw [run] at this
      exact this
    have hc1 : canon e g s1.pointer = replayChain e (lca :: r).reverse g := by
      unfold canon; rw [hanc1]
    have hcx : canon e g x.pointer = replayChain e A (canon e g s1.pointer) := by
      rw [hc1]
      unfold canon
      rw [anc, List.reverse_append, List.reverse_reverse, replayChain_append]
    rw [hcx, hx']
    exact replayChain_trefines e A s1 _ hT1

theorem undoTodo_self (e : Env) (b : Nat) : undoTodo e b b = ([], []) := by
  have hfst : (undoTodo e b b).1 = [] := by
    rw [undoTodo_fst, ancestors_succ, List.takeWhile_cons]
    simp
  have hsnd : (undoTodo e b b).2 = [] := by
    rw [undoTodo_snd, ancestors_succ, List.takeWhile_cons]
    simp
  exact Prod.ext hfst hsnd

/-- a walk from a block-boundary state to the block it already stands on changes nothing -/
theorem walk_self (e : Env) (x : St) (lh : Int) (prune : Bool) (hp : x.pool = []) :
    walk e x lh x.pointer prune = (x, true) := by
  rw [walk_eq_core_of_pool_nil e x lh x.pointer prune hp]
  unfold walkCore
  simp only
  rw [rolledBack_of_pool_nil e x hp, undoTodo_self, undoAll_nil]
  rfl

end XV.Crash
