import XV.Lemmas.InvBlock
import XV.Lemmas.InvList
/-!
The *live* invariant of the chain model: a table-level description of a list `L` of transactions whose effects are
present in the table `U` (the pool, or what is left of it while evicted transactions are being undone).
It is strong enough to undo any transaction of `L` that no other live transaction cites, which is what pool eviction
(`play`) and the pool roll-back (`walk`) do, newest first. No sums here (they are in `XV.Props.C02`).
-/
namespace XV.Chain

/-- amount of output number `idx` -/
def slotAmt (t : Tx) (idx : Nat) : Nat :=
  match t.outs[idx]? with
  | some o => o.amt
  | none => 0

theorem matSlot_get (t : Tx) (idx : Nat) (h : matSlot t idx = true) :
    ∃ o, t.outs[idx]? = some o ∧ (o.addr == "$" || o.amt == 0) = false ∧ slotAmt t idx = o.amt := by
  unfold matSlot at h
  unfold slotAmt
  split at h
  · rename_i o ho
    exact ⟨o, ho, by simpa using h, by simp [ho]⟩
  · cases h

theorem matSlot_of_get (t : Tx) (idx : Nat) (o : Out) (ho : t.outs[idx]? = some o)
    (hm : (o.addr == "$" || o.amt == 0) = false) : matSlot t idx = true ∧ slotAmt t idx = o.amt := by
  unfold matSlot slotAmt
  simp [ho, hm]

theorem applyTx_lookup_mat (s : St) (t : Tx) (idx : Nat) (hself : ∀ r ∈ t.ins, r.tx ≠ t.id)
    (h : matSlot t idx = true) :
    ∃ u, lookup (applyTx s t).U (t.id, idx) = some u ∧ u.amt = slotAmt t idx := by
  obtain ⟨o, ho, hm, ha⟩ := matSlot_get t idx h
  rw [applyTx_lookup_idx s t idx hself, ho]
  simp only [hm, Bool.false_eq_true, ↓reduceIte]
  exact ⟨_, rfl, ha.symm⟩

theorem applyTx_lookup_nonmat (s : St) (t : Tx) (idx : Nat) (hself : ∀ r ∈ t.ins, r.tx ≠ t.id)
    (h : matSlot t idx = false) :
    lookup (applyTx s t).U (t.id, idx) = lookup s.U (t.id, idx) := by
  rw [applyTx_lookup_idx s t idx hself]
  unfold matSlot at h
  split
  · rename_i o ho
    simp only [ho, Bool.not_eq_eq_eq_not, Bool.not_false] at h
    simp [h]
  · rfl

theorem undoTx_lookup_mat (e : Env) (s : St) (t : Tx) (idx : Nat) (hself : ∀ r ∈ t.ins, r.tx ≠ t.id)
    (h : matSlot t idx = true) : lookup (undoTx e s t).U (t.id, idx) = none := by
  obtain ⟨o, ho, hm, _⟩ := matSlot_get t idx h
  rw [undoTx_lookup_idx e s t idx hself, ho]
  simp [hm]

theorem undoTx_lookup_nonmat (e : Env) (s : St) (t : Tx) (idx : Nat) (hself : ∀ r ∈ t.ins, r.tx ≠ t.id)
    (h : matSlot t idx = false) : lookup (undoTx e s t).U (t.id, idx) = lookup s.U (t.id, idx) := by
  rw [undoTx_lookup_idx e s t idx hself]
  unfold matSlot at h
  split
  · rename_i o ho
    simp only [ho, Bool.not_eq_eq_eq_not, Bool.not_false] at h
    simp [h]
  · rfl

/-- the live invariant (table level) -/
structure Live (e : Env) (U : List (Ver × UItem)) (L : List Nat) : Prop where
  nodupL : L.Nodup
  idEq : ∀ i ∈ L, (e.tx i).id = i
  nonCoinbase : ∀ i ∈ L, (e.tx i).coinbase = false
  insNodup : ∀ i ∈ L, ((e.tx i).ins.map (fun r => (r.tx, r.off))).Nodup
  noSelf : ∀ i ∈ L, ∀ r ∈ (e.tx i).ins, r.tx ≠ i
  /-- the cited input amounts add up to the outputs, fee included -/
  balanced : ∀ i ∈ L, (((e.tx i).ins.map (fun r => (r.amt : Int))).sum) = (outSum (e.tx i).outs : Int)
  /-- admission order: no transaction cites one that comes later -/
  order : L.Pairwise (fun a b => ∀ r ∈ (e.tx a).ins, r.tx ≠ b)
  /-- every materialised output of a live transaction is a row with its amount, or was spent by a live transaction -/
  outs : ∀ i ∈ L, ∀ idx, matSlot (e.tx i) idx = true →
    (∃ u, lookup U (i, idx) = some u ∧ u.amt = slotAmt (e.tx i) idx) ∨
    (∃ j ∈ L, ∃ r ∈ (e.tx j).ins, r.tx = i ∧ r.off = idx)
  insSpent : ∀ i ∈ L, ∀ r ∈ (e.tx i).ins, lookup U (r.tx, r.off) = none
  disjoint : ∀ i ∈ L, ∀ j ∈ L, i ≠ j →
    ∀ r ∈ (e.tx i).ins, ∀ r' ∈ (e.tx j).ins, (r.tx, r.off) ≠ (r'.tx, r'.off)
  /-- an input citing a live transaction cites a materialised output of it, with its amount -/
  cites : ∀ j ∈ L, ∀ r ∈ (e.tx j).ins, r.tx ∈ L →
    matSlot (e.tx r.tx) r.off = true ∧ slotAmt (e.tx r.tx) r.off = r.amt
  /-- the rows carrying the id of a live transaction are materialised outputs of it (fee slots are not rows) -/
  rows : ∀ i ∈ L, ∀ idx u, lookup U (i, idx) = some u → matSlot (e.tx i) idx = true

theorem Live_nil (e : Env) (U : List (Ver × UItem)) : Live e U [] := by
  refine ⟨List.nodup_nil, ?_, ?_, ?_, ?_, ?_, List.Pairwise.nil, ?_, ?_, ?_, ?_, ?_⟩ <;>
    (intro i hi; cases hi)

/-- **undoing a live transaction that no live transaction cites keeps the invariant** for the remaining ones -/
theorem undo_Live (e : Env) (s : St) (L : List Nat) (t : Nat) (hl : Live e s.U L) (ht : t ∈ L)
    (hnc : ∀ j ∈ L, ∀ r ∈ (e.tx j).ins, r.tx ≠ t) :
    Live e (undoTx e s (e.tx t)).U (L.filter (fun x => x != t)) := by
  have hidt := hl.idEq t ht
  have hselft : ∀ r ∈ (e.tx t).ins, r.tx ≠ (e.tx t).id := by rw [hidt]; exact hl.noSelf t ht
  have hndt := hl.insNodup t ht
  have hmem : ∀ x, x ∈ L.filter (fun x => x != t) ↔ x ∈ L ∧ x ≠ t := by
    intro x; simp only [List.mem_filter, bne_iff_ne, ne_eq]
  refine ⟨List.Nodup.sublist List.filter_sublist hl.nodupL, ?_, ?_, ?_, ?_, ?_,
    List.Pairwise.sublist List.filter_sublist hl.order, ?_, ?_, ?_, ?_, ?_⟩
  · intro i hi; exact hl.idEq i ((hmem i).mp hi).1
  · intro i hi; exact hl.nonCoinbase i ((hmem i).mp hi).1
  · intro i hi; exact hl.insNodup i ((hmem i).mp hi).1
  · intro i hi; exact hl.noSelf i ((hmem i).mp hi).1
  · intro i hi; exact hl.balanced i ((hmem i).mp hi).1
  · -- outs
    intro i hi idx hm
    obtain ⟨hiL, hit⟩ := (hmem i).mp hi
    rcases hl.outs i hiL idx hm with ⟨u, hu, ha⟩ | ⟨j, hj, r, hr, hrt, hro⟩
    · left
      refine ⟨u, ?_, ha⟩
      rw [undoTx_lookup_otherid e s (e.tx t) (i, idx) (by rw [hidt]; exact hit)]
      · exact hu
      · intro hmm
        obtain ⟨r, hr, he⟩ := List.mem_map.mp hmm
        have := hl.insSpent t ht r hr
        rw [he, hu] at this
        cases this
    · by_cases hjt : j = t
      · left
        subst hjt
        have := undoTx_lookup_in e s (e.tx j) hndt hselft r hr
        rw [hrt, hro] at this
        refine ⟨_, this, ?_⟩
        have hc := (hl.cites j hj r hr (by rw [hrt]; exact hiL)).2
        rw [hrt, hro] at hc
        exact hc.symm
      · right
        exact ⟨j, (hmem j).mpr ⟨hj, hjt⟩, r, hr, hrt, hro⟩
  · -- insSpent
    intro i hi r hr
    obtain ⟨hiL, hit⟩ := (hmem i).mp hi
    rw [undoTx_lookup_otherid e s (e.tx t) (r.tx, r.off) (by rw [hidt]; exact hnc i hiL r hr)]
    · exact hl.insSpent i hiL r hr
    · intro hmm
      obtain ⟨r', hr', he⟩ := List.mem_map.mp hmm
      exact hl.disjoint t ht i hiL (fun e2 => hit e2.symm) r' hr' r hr he
  · intro i hi j hj hij
    exact hl.disjoint i ((hmem i).mp hi).1 j ((hmem j).mp hj).1 hij
  · intro j hj r hr hrL
    exact hl.cites j ((hmem j).mp hj).1 r hr ((hmem r.tx).mp hrL).1
  · -- rows
    intro i hi idx u hu
    obtain ⟨hiL, hit⟩ := (hmem i).mp hi
    by_cases hin : (i, idx) ∈ (e.tx t).ins.map (fun r => (r.tx, r.off))
    · obtain ⟨r, hr, he⟩ := List.mem_map.mp hin
      injection he with e1 e2
      have := (hl.cites t ht r hr (by rw [e1]; exact hiL)).1
      rw [e1, e2] at this
      exact this
    · rw [undoTx_lookup_otherid e s (e.tx t) (i, idx) (by rw [hidt]; exact hit) hin] at hu
      exact hl.rows i hiL idx u hu

/-- after the undo no row carries the id of the undone transaction -/
theorem undo_Live_gone (e : Env) (s : St) (L : List Nat) (t : Nat) (hl : Live e s.U L) (ht : t ∈ L) :
    ∀ idx, lookup (undoTx e s (e.tx t)).U (t, idx) = none := by
  intro idx
  have hidt := hl.idEq t ht
  have hselft : ∀ r ∈ (e.tx t).ins, r.tx ≠ (e.tx t).id := by rw [hidt]; exact hl.noSelf t ht
  have hk : (t, idx) = ((e.tx t).id, idx) := by rw [hidt]
  rw [hk]
  cases hm : matSlot (e.tx t) idx
  · rw [undoTx_lookup_nonmat e s (e.tx t) idx hselft hm, ← hk]
    cases hlk : lookup s.U (t, idx) with
    | none => rfl
    | some u => rw [hl.rows t ht idx u hlk] at hm; cases hm
  · exact undoTx_lookup_mat e s (e.tx t) idx hselft hm

/-- **applying an admitted, hash-causal transaction extends the invariant** (admission facts as hypotheses: inputs
distinct and present with the cited amounts, cited amounts balanced; causality: `e.tx i` has id `i`, no row carries
that id, no live transaction cites it, it does not cite itself) -/
theorem applyTx_Live (e : Env) (s : St) (L : List Nat) (i : Nat) (hl : Live e s.U L) (hnot : i ∉ L)
    (hid : (e.tx i).id = i) (hcb : (e.tx i).coinbase = false)
    (hnd : ((e.tx i).ins.map (fun r => (r.tx, r.off))).Nodup)
    (hcur : ∀ r ∈ (e.tx i).ins, ∃ u, lookup s.U (r.tx, r.off) = some u ∧ u.amt = r.amt)
    (hbal : (((e.tx i).ins.map (fun r => (r.amt : Int))).sum) = (outSum (e.tx i).outs : Int))
    (hfresh : ∀ o, lookup s.U (i, o) = none)
    (hcited : ∀ j ∈ L, ∀ r ∈ (e.tx j).ins, r.tx ≠ i)
    (hself : ∀ r ∈ (e.tx i).ins, r.tx ≠ i) :
    Live e (applyTx s (e.tx i)).U (L ++ [i]) := by
  have hself' : ∀ r ∈ (e.tx i).ins, r.tx ≠ (e.tx i).id := by rw [hid]; exact hself
  have hmem : ∀ x, x ∈ L ++ [i] ↔ x ∈ L ∨ x = i := by
    intro x; simp only [List.mem_append, List.mem_cons, List.not_mem_nil, or_false]
  have hneL : ∀ j ∈ L, j ≠ i := fun j hj e2 => hnot (e2 ▸ hj)
  have hnew : ∀ a ∈ L, ∀ r ∈ (e.tx a).ins, ∀ r' ∈ (e.tx i).ins, (r.tx, r.off) ≠ (r'.tx, r'.off) := by
    intro a ha r hr r' hr' heq
    obtain ⟨u, hu, _⟩ := hcur r' hr'
    rw [← heq, hl.insSpent a ha r hr] at hu
    cases hu
  refine ⟨?_, ?_, ?_, ?_, ?_, ?_, ?_, ?_, ?_, ?_, ?_, ?_⟩
  · apply List.nodup_append.mpr
    refine ⟨hl.nodupL, by simp, ?_⟩
    intro a ha b hb
    simp only [List.mem_cons, List.not_mem_nil, or_false] at hb
    rw [hb]; exact hneL a ha
  · intro j hj
    rcases (hmem j).mp hj with h | h
    · exact hl.idEq j h
    · rw [h]; exact hid
  · intro j hj
    rcases (hmem j).mp hj with h | h
    · exact hl.nonCoinbase j h
    · rw [h]; exact hcb
  · intro j hj
    rcases (hmem j).mp hj with h | h
    · exact hl.insNodup j h
    · rw [h]; exact hnd
  · intro j hj
    rcases (hmem j).mp hj with h | h
    · exact hl.noSelf j h
    · rw [h]; exact hself
  · intro j hj
    rcases (hmem j).mp hj with h | h
    · exact hl.balanced j h
    · rw [h]; exact hbal
  · apply List.pairwise_append.mpr
    refine ⟨hl.order, by simp, ?_⟩
    intro a ha b hb
    simp only [List.mem_cons, List.not_mem_nil, or_false] at hb
    rw [hb]; exact hcited a ha
  · -- outs
    intro j hj idx hm
    rcases (hmem j).mp hj with hjL | hji
    · rcases hl.outs j hjL idx hm with ⟨u, hu, ha⟩ | ⟨j', hj', r, hr, hrt, hro⟩
      · by_cases hin : (j, idx) ∈ (e.tx i).ins.map (fun r => (r.tx, r.off))
        · right
          obtain ⟨r, hr, he⟩ := List.mem_map.mp hin
          injection he with e1 e2
          exact ⟨i, (hmem i).mpr (Or.inr rfl), r, hr, e1, e2⟩
        · left
          refine ⟨u, ?_, ha⟩
          rw [applyTx_lookup_otherid s (e.tx i) (j, idx) (by rw [hid]; exact hneL j hjL)]
          simp only [hin, ↓reduceIte]
          exact hu
      · right
        exact ⟨j', (hmem j').mpr (Or.inl hj'), r, hr, hrt, hro⟩
    · left
      subst hji
      have := applyTx_lookup_mat s (e.tx j) idx hself' hm
      rw [hid] at this
      exact this
  · -- insSpent
    intro j hj r hr
    rcases (hmem j).mp hj with hjL | hji
    · rw [applyTx_lookup_otherid s (e.tx i) (r.tx, r.off) (by rw [hid]; exact hcited j hjL r hr)]
      split
      · rfl
      · exact hl.insSpent j hjL r hr
    · subst hji
      rw [applyTx_lookup_otherid s (e.tx j) (r.tx, r.off) (hself' r hr)]
      have : (r.tx, r.off) ∈ (e.tx j).ins.map (fun r => (r.tx, r.off)) := List.mem_map.mpr ⟨r, hr, rfl⟩
      simp only [this, ↓reduceIte]
  · -- disjoint
    intro a ha b hb hab r hr r' hr'
    rcases (hmem a).mp ha with haL | hai
    · rcases (hmem b).mp hb with hbL | hbi
      · exact hl.disjoint a haL b hbL hab r hr r' hr'
      · rw [hbi] at hr'
        exact hnew a haL r hr r' hr'
    · rcases (hmem b).mp hb with hbL | hbi
      · rw [hai] at hr
        exact fun heq => hnew b hbL r' hr' r hr heq.symm
      · exact absurd (hai.trans hbi.symm) hab
  · -- cites
    intro j hj r hr hrm
    rcases (hmem j).mp hj with hjL | hji
    · rcases (hmem r.tx).mp hrm with hrL | hri
      · exact hl.cites j hjL r hr hrL
      · exact absurd hri (hcited j hjL r hr)
    · rw [hji] at hr
      rcases (hmem r.tx).mp hrm with hrL | hri
      · obtain ⟨u, hu, hamt⟩ := hcur r hr
        have hmat := hl.rows r.tx hrL r.off u hu
        refine ⟨hmat, ?_⟩
        rcases hl.outs r.tx hrL r.off hmat with ⟨u', hu', ha'⟩ | ⟨j', hj', r', hr', e1, e2⟩
        · rw [hu] at hu'
          injection hu' with hu'
          rw [← ha', ← hu', hamt]
        · have := hl.insSpent j' hj' r' hr'
          rw [e1, e2, hu] at this
          cases this
      · exact absurd hri (hself r hr)
  · -- rows
    intro j hj idx u hu
    rcases (hmem j).mp hj with hjL | hji
    · rw [applyTx_lookup_otherid s (e.tx i) (j, idx) (by rw [hid]; exact hneL j hjL)] at hu
      split at hu
      · cases hu
      · exact hl.rows j hjL idx u hu
    · subst hji
      cases hm : matSlot (e.tx j) idx
      · have := applyTx_lookup_nonmat s (e.tx j) idx hself' hm
        rw [hid] at this
        rw [this, hfresh idx] at hu
        cases hu
      · rfl

/-- `undoTx` creates no row except the inputs it restores -/
theorem undoTx_lookup_none (e : Env) (s : St) (t : Tx) (k : Ver)
    (hk : k ∉ t.ins.map (fun r => (r.tx, r.off))) (h : lookup s.U k = none) :
    lookup (undoTx e s t).U k = none := by
  unfold undoTx
  apply undoOuts_lookup_none
  simp only
  rw [restoreU_lookup_other _ _ _ hk, (undoKOut_frame e t t.kout s).1]
  exact h

/-- a row survives a block unless a new transaction of the block spends it (rows with the id of a block transaction aside) -/
theorem blockRun_lookup_some (e : Env) (lh : Int) (prop : String) (isPool : Nat → Bool) (txs : List Nat) (s s2 : St)
    (h : blockRun e lh prop isPool txs s s2) (hid : ∀ i ∈ txs, (e.tx i).id = i) (k : Ver) (u : UItem)
    (hk : k.1 ∉ txs)
    (hns : ∀ i ∈ txs, isPool i = false → ∀ r ∈ (e.tx i).ins, (r.tx, r.off) ≠ k)
    (hsome : lookup s.U k = some u) : lookup s2.U k = some u := by
  induction txs generalizing s with
  | nil => simp only [blockRun] at h; subst h; exact hsome
  | cons i rest ih =>
    have hid' : ∀ j ∈ rest, (e.tx j).id = j := fun j hj => hid j (List.mem_cons_of_mem _ hj)
    have hk' : k.1 ∉ rest := fun hm => hk (List.mem_cons_of_mem _ hm)
    have hns' : ∀ j ∈ rest, isPool j = false → ∀ r ∈ (e.tx j).ins, (r.tx, r.off) ≠ k :=
      fun j hj => hns j (List.mem_cons_of_mem _ hj)
    have hne : k.1 ≠ (e.tx i).id := by
      rw [hid i List.mem_cons_self]; intro e2; exact hk (e2 ▸ List.mem_cons_self)
    unfold blockRun at h
    split at h
    · apply ih _ h hid' hk' hns'
      rw [payFee_lookup_otherid _ _ _ _ _ _ hne]; exact hsome
    · rename_i hp
      have hp' : isPool i = false := by simpa using hp
      apply ih _ h.2 hid' hk' hns'
      rw [payFee_lookup_otherid _ _ _ _ _ _ hne, applyTx_lookup_otherid _ _ _ hne]
      have : k ∉ (e.tx i).ins.map (fun r => (r.tx, r.off)) := by
        intro hm
        obtain ⟨r, hr, he⟩ := List.mem_map.mp hm
        exact hns i List.mem_cons_self hp' r hr he
      simp only [this, ↓reduceIte]
      exact hsome

/-- **the transactions of a block keep the live invariant** for the pending transactions that stay pending. The block
confirms live transactions (`isPool`) and applies new ones; no live transaction cites a new one (fresh ids), and the
block contains, with each of its transactions, the live transactions it cites (a block is valid on the chain alone). -/
theorem blockRun_Live (e : Env) (lh : Int) (prop : String) (isPool : Nat → Bool) (txs : List Nat) (s s2 : St)
    (L : List Nat) (h : blockRun e lh prop isPool txs s s2) (hl : Live e s.U L)
    (hid : ∀ i ∈ txs, (e.tx i).id = i)
    (hpool : ∀ i ∈ txs, (isPool i = true ↔ i ∈ L))
    (hnewcited : ∀ i ∈ txs, isPool i = false → ∀ j ∈ L, ∀ r ∈ (e.tx j).ins, r.tx ≠ i)
    (hparents : ∀ i ∈ txs, ∀ r ∈ (e.tx i).ins, r.tx ∈ L → r.tx ∈ txs) :
    Live e s2.U (L.filter (fun x => !txs.contains x)) := by
  have hmem : ∀ x, x ∈ L.filter (fun x => !txs.contains x) ↔ x ∈ L ∧ x ∉ txs := by
    intro x; simp only [List.mem_filter, List.contains_eq_mem, Bool.not_eq_eq_eq_not, Bool.not_true,
      decide_eq_false_iff_not]
  refine ⟨List.Nodup.sublist List.filter_sublist hl.nodupL, ?_, ?_, ?_, ?_, ?_,
    List.Pairwise.sublist List.filter_sublist hl.order, ?_, ?_, ?_, ?_, ?_⟩
  · intro i hi; exact hl.idEq i ((hmem i).mp hi).1
  · intro i hi; exact hl.nonCoinbase i ((hmem i).mp hi).1
  · intro i hi; exact hl.insNodup i ((hmem i).mp hi).1
  · intro i hi; exact hl.noSelf i ((hmem i).mp hi).1
  · intro i hi; exact hl.balanced i ((hmem i).mp hi).1
  · -- outs
    intro i hi idx hm
    obtain ⟨hiL, hit⟩ := (hmem i).mp hi
    rcases hl.outs i hiL idx hm with ⟨u, hu, ha⟩ | ⟨j, hj, r, hr, hrt, hro⟩
    · left
      refine ⟨u, ?_, ha⟩
      apply blockRun_lookup_some _ _ _ _ _ _ _ h hid (i, idx) u hit _ hu
      intro b hb _ r hr he
      injection he with e1 _
      exact hit (e1 ▸ hparents b hb r hr (by rw [e1]; exact hiL))
    · right
      refine ⟨j, (hmem j).mpr ⟨hj, ?_⟩, r, hr, hrt, hro⟩
      intro hjt
      exact hit (hrt ▸ hparents j hjt r hr (by rw [hrt]; exact hiL))
  · -- insSpent
    intro i hi r hr
    obtain ⟨hiL, hit⟩ := (hmem i).mp hi
    apply blockRun_lookup_none _ _ _ _ _ _ _ h hid (r.tx, r.off) _ (hl.insSpent i hiL r hr)
    intro hm
    simp only at hm ⊢
    have hp : isPool r.tx = true := by
      cases hpp : isPool r.tx
      · exact absurd rfl (hnewcited r.tx hm hpp i hiL r hr)
      · rfl
    exact ⟨hp, feeSlot_matSlot _ _ (hl.cites i hiL r hr ((hpool r.tx hm).mp hp)).1⟩
  · intro i hi j hj hij
    exact hl.disjoint i ((hmem i).mp hi).1 j ((hmem j).mp hj).1 hij
  · intro j hj r hr hrL
    exact hl.cites j ((hmem j).mp hj).1 r hr ((hmem r.tx).mp hrL).1
  · -- rows
    intro i hi idx u hu
    obtain ⟨hiL, hit⟩ := (hmem i).mp hi
    cases hlk : lookup s.U (i, idx) with
    | none =>
      have := blockRun_lookup_none _ _ _ _ _ _ _ h hid (i, idx) (fun hm => absurd hm hit) hlk
      rw [this] at hu; cases hu
    | some u' => exact hl.rows i hiL idx u' hlk

/-- the fee slots of a live transaction are free -/
theorem Live.feeFree {e : Env} {U : List (Ver × UItem)} {L : List Nat} (hl : Live e U L) (i : Nat) (hi : i ∈ L)
    (idx : Nat) (hf : feeSlot (e.tx i) idx = true) : lookup U (i, idx) = none := by
  cases hlk : lookup U (i, idx) with
  | none => rfl
  | some u =>
    have := feeSlot_matSlot _ _ (hl.rows i hi idx u hlk)
    rw [this] at hf; cases hf

-- ---------------------------------------------------------------- the dependents closure of `play`

theorem filter_length_lt {α : Type} (l : List α) (p q : α → Bool) (himp : ∀ x, q x = true → p x = true)
    (hx : ∃ x ∈ l, p x = true ∧ q x = false) : (l.filter q).length < (l.filter p).length := by
  induction l with
  | nil => obtain ⟨x, hx, _⟩ := hx; cases hx
  | cons a r ih =>
    have hle : (r.filter q).length ≤ (r.filter p).length := by
      clear ih hx
      induction r with
      | nil => simp
      | cons b t iht =>
        simp only [List.filter_cons]
        cases hq : q b
        · cases hp : p b
          · simpa using iht
          · simp only [Bool.false_eq_true, ↓reduceIte, List.length_cons]; omega
        · simp only [himp b hq, ↓reduceIte, List.length_cons]; omega
    obtain ⟨x, hxm, hpx, hqx⟩ := hx
    simp only [List.filter_cons]
    rcases List.mem_cons.mp hxm with rfl | hxr
    · simp only [hpx, hqx, ↓reduceIte, Bool.false_eq_true, List.length_cons]; omega
    · have := ih ⟨x, hxr, hpx, hqx⟩
      cases hq : q a
      · cases hp : p a
        · simpa using this
        · simp only [Bool.false_eq_true, ↓reduceIte, List.length_cons]; omega
      · simp only [himp a hq, ↓reduceIte, List.length_cons]; omega

/-- one round of the closure: the pending transactions outside `set` that depend on a member of `set` -/
def closureMore (e : Env) (pool : List Nat) (set : List Nat) : List Nat :=
  pool.filter (fun c => !set.contains c && set.any (fun p => dependsOn e pool c p))

theorem closure_succ (e : Env) (pool : List Nat) (fuel : Nat) (set : List Nat) :
    closure e pool (fuel + 1) set =
      if (closureMore e pool set).isEmpty then set else closure e pool fuel (set ++ closureMore e pool set) := rfl

/-- a property that holds for the seeds and is inherited by dependents holds for the whole closure -/
theorem closure_induct (e : Env) (pool : List Nat) (P : Nat → Prop) (fuel : Nat) (set : List Nat)
    (hset : ∀ x ∈ set, P x)
    (hstep : ∀ c ∈ pool, ∀ p, P p → dependsOn e pool c p = true → P c) :
    ∀ x ∈ closure e pool fuel set, P x := by
  induction fuel generalizing set with
  | zero => exact hset
  | succ n ih =>
    rw [closure_succ]
    split
    · exact hset
    · apply ih
      intro x hx
      rcases List.mem_append.mp hx with h | h
      · exact hset x h
      · unfold closureMore at h
        simp only [List.mem_filter, Bool.and_eq_true, List.any_eq_true] at h
        obtain ⟨hxp, _, p, hp, hd⟩ := h
        exact hstep x hxp p (hset p hp) hd

theorem closure_mono (e : Env) (pool : List Nat) (fuel : Nat) (set : List Nat) :
    ∀ x ∈ set, x ∈ closure e pool fuel set := by
  induction fuel generalizing set with
  | zero => intro x hx; exact hx
  | succ n ih =>
    intro x hx
    rw [closure_succ]
    split
    · exact hx
    · exact ih _ x (List.mem_append_left _ hx)

/-- **the closure is closed** when the fuel covers the pending transactions still outside the set (fuel = pool size
always does): every pending dependent of a member is a member -/
theorem closure_closed (e : Env) (pool : List Nat) (fuel : Nat) (set : List Nat)
    (hfuel : (pool.filter (fun c => !set.contains c)).length ≤ fuel) :
    ∀ p ∈ closure e pool fuel set, ∀ c ∈ pool, dependsOn e pool c p = true → c ∈ closure e pool fuel set := by
  induction fuel generalizing set with
  | zero =>
    intro p _ c hc _
    have hnil : pool.filter (fun c => !set.contains c) = [] := by
      apply List.eq_nil_of_length_eq_zero; omega
    have := List.filter_eq_nil_iff.mp hnil c hc
    show c ∈ set
    simpa using this
  | succ n ih =>
    rw [closure_succ]
    split
    · rename_i hemp
      intro p hp c hc hd
      by_cases hcs : c ∈ set
      · exact hcs
      · exfalso
        have : c ∈ closureMore e pool set := by
          unfold closureMore
          simp only [List.mem_filter, Bool.and_eq_true, List.any_eq_true]
          exact ⟨hc, by simpa using hcs, p, hp, hd⟩
        have hnil : closureMore e pool set = [] := by simpa using hemp
        rw [hnil] at this
        cases this
    · rename_i hemp
      apply ih
      have hne : closureMore e pool set ≠ [] := by simpa using hemp
      obtain ⟨x, hx⟩ := List.exists_mem_of_ne_nil _ hne
      have hx' := hx
      unfold closureMore at hx'
      simp only [List.mem_filter, Bool.and_eq_true] at hx'
      have hlt := filter_length_lt pool (fun c => !set.contains c) (fun c => !(set ++ closureMore e pool set).contains c)
        (fun y hy => by
          simp only [List.contains_eq_mem, List.mem_append, Bool.not_eq_eq_eq_not, Bool.not_true,
            decide_eq_false_iff_not, not_or] at hy ⊢
          exact hy.1)
        ⟨x, hx'.1, hx'.2.1, by
          simp only [List.contains_eq_mem, List.mem_append, Bool.not_eq_eq_eq_not, Bool.not_false,
            decide_eq_true_eq]
          exact Or.inr hx⟩
      omega

-- ---------------------------------------------------------------- the shape of a successful `play`

/-- the transactions `play` evicts from the pool -/
def playEvict (e : Env) (s : St) (b : Block) : List Nat :=
  closure e s.pool s.pool.length
    ((s.pool.filter (fun i => !b.txs.contains i)).filter (fun i => conflicts e s.pool b.txs i))

/-- the state after the eviction (evicted transactions undone, newest first) -/
def playUndone (e : Env) (s : St) (b : Block) : St :=
  (s.pool.reverse.filter (fun i => (playEvict e s b).contains i)).foldl (fun st i => undoTx e st (e.tx i)) s

/-- shape of an accepted `play`: the block's pending transactions that were not rolled back with an evicted one are
skipped, the others applied -/
theorem play_ok_raw (e : Env) (s : St) (lh : Int) (b : Block) (h : (play e s lh b).2 = .ok) :
    ∃ s2, applyBlockTxs e lh b.prop
        ((s.pool.filter (fun i => b.txs.contains i)).filter (fun i => !(playEvict e s b).contains i))
        b.txs (playUndone e s b) = some (s2, .ok) ∧
      (play e s lh b).1 =
        { s2 with pointer := b.id, irrev := nextIrrev e.window s.irrev b.height,
                  pool := s.pool.filter (fun i => !b.txs.contains i && !(playEvict e s b).contains i) } := by
  unfold play at h ⊢
  by_cases h1 : b.pre ≠ some s.pointer
  · rw [if_pos h1] at h; cases h
  · rw [if_neg h1] at h ⊢
    by_cases h2 : blockHasDupInput e b.txs = true
    · rw [if_pos h2] at h; cases h
    · rw [if_neg h2] at h ⊢
      by_cases h3 : parentMissing e s.pool [] b.txs = true
      · rw [if_pos h3] at h; cases h
      · rw [if_neg h3] at h ⊢
        by_cases h4 : staleMember e s.pool [] b.txs = true
        · rw [if_pos h4] at h; cases h
        · rw [if_neg h4] at h ⊢
          simp only at h ⊢
          unfold playUndone playEvict
          generalize applyBlockTxs e lh b.prop _ b.txs _ = res at h ⊢
          rcases res with _ | ⟨s2, r⟩
          · cases h
          · cases r <;> first | exact ⟨s2, rfl, rfl⟩ | cases h

/-- when no evicted transaction is in the block (the block brings the pending transactions its pending members depend
on), every pending transaction of the block is skipped -/
theorem play_ok (e : Env) (s : St) (lh : Int) (b : Block) (h : (play e s lh b).2 = .ok)
    (hev : ∀ x ∈ playEvict e s b, x ∉ b.txs) :
    ∃ s2, applyBlockTxs e lh b.prop (s.pool.filter (fun i => b.txs.contains i)) b.txs (playUndone e s b)
        = some (s2, .ok) ∧
      (play e s lh b).1 =
        { s2 with pointer := b.id, irrev := nextIrrev e.window s.irrev b.height,
                  pool := s.pool.filter (fun i => !b.txs.contains i && !(playEvict e s b).contains i) } := by
  obtain ⟨s2, h1, h2⟩ := play_ok_raw e s lh b h
  refine ⟨s2, ?_, h2⟩
  have hf : (s.pool.filter (fun i => b.txs.contains i)).filter (fun i => !(playEvict e s b).contains i)
      = s.pool.filter (fun i => b.txs.contains i) := by
    apply List.filter_eq_self.mpr
    intro x hx
    have hxb : x ∈ b.txs := by simpa using (List.mem_filter.mp hx).2
    have : x ∉ playEvict e s b := fun hxe => hev x hxe hxb
    simpa using this
  rw [hf] at h1
  exact h1

/-- an accepted block brings every pending transaction its transactions depend on, before them (repaired
`processUnconfirmTxs`) -/
theorem play_ok_parents (e : Env) (s : St) (lh : Int) (b : Block) (h : (play e s lh b).2 = .ok) :
    parentMissing e s.pool [] b.txs = false := by
  unfold play at h
  by_cases h1 : b.pre ≠ some s.pointer
  · rw [if_pos h1] at h; cases h
  · rw [if_neg h1] at h
    by_cases h2 : blockHasDupInput e b.txs = true
    · rw [if_pos h2] at h; cases h
    · rw [if_neg h2] at h
      by_cases h3 : parentMissing e s.pool [] b.txs = true
      · rw [if_pos h3] at h; cases h
      · simpa using h3

/-- an accepted block has no pending member that read a version an earlier transaction of the block overwrote (repaired
`processUnconfirmTxs`, second pass) -/
theorem play_ok_noStale (e : Env) (s : St) (lh : Int) (b : Block) (h : (play e s lh b).2 = .ok) :
    staleMember e s.pool [] b.txs = false := by
  unfold play at h
  by_cases h1 : b.pre ≠ some s.pointer
  · rw [if_pos h1] at h; cases h
  · rw [if_neg h1] at h
    by_cases h2 : blockHasDupInput e b.txs = true
    · rw [if_pos h2] at h; cases h
    · rw [if_neg h2] at h
      by_cases h3 : parentMissing e s.pool [] b.txs = true
      · rw [if_pos h3] at h; cases h
      · rw [if_neg h3] at h
        by_cases h4 : staleMember e s.pool [] b.txs = true
        · rw [if_pos h4] at h; cases h
        · simpa using h4

/-- what `parentMissing = false` says: a cited pending transaction stands earlier in the block -/
theorem parentMissing_false (e : Env) (pool : List Nat) (before txs : List Nat)
    (h : parentMissing e pool before txs = false) :
    ∀ pre i post, txs = pre ++ i :: post → ∀ p ∈ refTxs (e.tx i), p ∈ pool → p ∈ before ++ pre := by
  induction txs generalizing before with
  | nil => intro pre i post hsplit; cases pre <;> simp at hsplit
  | cons a rest ih =>
    intro pre i post hsplit p hp hpool
    unfold parentMissing at h
    simp only [Bool.or_eq_false_iff] at h
    cases pre with
    | nil =>
      simp only [List.nil_append, List.cons.injEq] at hsplit
      obtain ⟨rfl, _⟩ := hsplit
      have := h.1
      simp only [List.any_eq_false, Bool.and_eq_true, Bool.not_eq_true', not_and, Bool.not_eq_false,
        List.contains_eq_mem, decide_eq_true_eq, decide_eq_false_iff_not, Decidable.not_not] at this
      simpa using this p hp hpool
    | cons a' pre' =>
      simp only [List.cons_append, List.cons.injEq] at hsplit
      obtain ⟨rfl, hrest⟩ := hsplit
      have := ih (before ++ [a]) h.2 pre' i post hrest p hp hpool
      simpa [List.append_assoc] using this

theorem undoFold_lookup_none (e : Env) (ev : List Nat) (s : St) (k : Ver)
    (hk : ∀ t ∈ ev, ∀ r ∈ (e.tx t).ins, (r.tx, r.off) ≠ k) (h : lookup s.U k = none) :
    lookup (ev.foldl (fun st i => undoTx e st (e.tx i)) s).U k = none := by
  induction ev generalizing s with
  | nil => exact h
  | cons t rest ih =>
    simp only [List.foldl_cons]
    apply ih _ (fun t' ht' => hk t' (List.mem_cons_of_mem _ ht'))
    apply undoTx_lookup_none _ _ _ _ _ h
    intro hm
    obtain ⟨r, hr, he⟩ := List.mem_map.mp hm
    exact hk t List.mem_cons_self r hr he

theorem undoFold_frame (e : Env) (ev : List Nat) (s : St) :
    (ev.foldl (fun st i => undoTx e st (e.tx i)) s).pointer = s.pointer ∧
    (ev.foldl (fun st i => undoTx e st (e.tx i)) s).irrev = s.irrev ∧
    (ev.foldl (fun st i => undoTx e st (e.tx i)) s).pool = s.pool := by
  induction ev generalizing s with
  | nil => exact ⟨rfl, rfl, rfl⟩
  | cons t rest ih =>
    simp only [List.foldl_cons]
    obtain ⟨a1, a2, a3⟩ := ih (undoTx e s (e.tx t))
    obtain ⟨u1, u2, u3⟩ := undoTx_frame e s (e.tx t)
    exact ⟨a1.trans u1, a2.trans u2, a3.trans u3⟩

theorem dependsOn_parent_mem (e : Env) (pool : List Nat) (c p : Nat) (h : dependsOn e pool c p = true) : p ∈ pool := by
  unfold dependsOn at h
  simp only [Bool.and_eq_true, List.contains_eq_mem, decide_eq_true_eq] at h
  exact h.1.2

/-- if the block brings every pending transaction its pending members depend on, nothing of the block is evicted -/
theorem playEvict_outside (e : Env) (s : St) (b : Block)
    (hdeps : ∀ c ∈ b.txs, c ∈ s.pool → ∀ p ∈ s.pool, dependsOn e s.pool c p = true → p ∈ b.txs) :
    ∀ x ∈ playEvict e s b, x ∈ s.pool ∧ x ∉ b.txs := by
  apply closure_induct e s.pool (fun x => x ∈ s.pool ∧ x ∉ b.txs)
  · intro x hx
    have h1 := (List.mem_filter.mp hx).1
    have h2 := List.mem_filter.mp h1
    exact ⟨h2.1, by simpa using h2.2⟩
  · intro c hc p hp hd
    exact ⟨hc, fun hct => hp.2 (hdeps c hct hc p (dependsOn_parent_mem e s.pool c p hd) hd)⟩

end XV.Chain
