import XV.Lemmas.UndoBlock
import XV.Lemmas.UndoObs
import XV.Lemmas.InvTable
import XV.Lemmas.InvKeys
import XV.Lemmas.InvBlock
import XV.Lemmas.RefinePerm
/-!
The table operations of the chain model as a swap system (`XV.Refine.SwapSys`): operations `app i` (apply transaction
`i`) and `fee i prop` (pay the fee of transaction `i` to the proposer); states compared row by row (`TabEq`); an
operation `app i` is valid where `i` passes admission. Two adjacent applications commute — validity included — when the
second does not depend on the first (`depB`, the dependents relation of `SortUnconfirmedTx` without the pool test) and
the first does not spend an output of the second (`swap_app_app`); an application commutes with a later fee payment
when it does not spend a fee row (`swap_app_fee`).
-/
namespace XV.Chain

-- ------------------------------------------------------------------ row-by-row equality of the four tables

structure TabEq (s s' : St) : Prop where
  U : ∀ k, lookup s.U k = lookup s'.U k
  ZU : ∀ k, lookup s.ZU k = lookup s'.ZU k
  ZD : ∀ k, lookup s.ZD k = lookup s'.ZD k
  total : s.total = s'.total

theorem TabEq.refl (s : St) : TabEq s s := ⟨fun _ => rfl, fun _ => rfl, fun _ => rfl, rfl⟩

theorem TabEq.symm {s s' : St} (h : TabEq s s') : TabEq s' s :=
  ⟨fun k => (h.U k).symm, fun k => (h.ZU k).symm, fun k => (h.ZD k).symm, h.total.symm⟩

theorem TabEq.trans {a b c : St} (h1 : TabEq a b) (h2 : TabEq b c) : TabEq a c :=
  ⟨fun k => (h1.U k).trans (h2.U k), fun k => (h1.ZU k).trans (h2.ZU k), fun k => (h1.ZD k).trans (h2.ZD k),
   h1.total.trans h2.total⟩

theorem TabEq.curVer {s s' : St} (h : TabEq s s') (key : String) : curVer s key = curVer s' key :=
  curVer_congr_tables s s' key (h.ZU key) (h.ZD key)

theorem TabEq.obsT {s s' : St} (h : TabEq s s') : ObsT s s' := ⟨h.U, h.curVer, h.total⟩

theorem TabEq.trefines {s s' : St} (h : TabEq s s') : TRefines s s' :=
  ⟨h.obsT, h.ZU, fun k m hm => by rw [← h.ZD k]; exact hm⟩

theorem TabEq.of_tables {x x' : St} (h : x'.U = x.U ∧ x'.ZU = x.ZU ∧ x'.ZD = x.ZD ∧ x'.total = x.total) :
    TabEq x' x := by
  obtain ⟨h1, h2, h3, h4⟩ := h
  exact ⟨fun _ => by rw [h1], fun _ => by rw [h2], fun _ => by rw [h3], h4⟩

theorem opt_eq_of_imp {β : Type} (a b : Option β) (h1 : ∀ m, a = some m → b = some m)
    (h2 : ∀ m, b = some m → a = some m) : a = b := by
  cases ha : a with
  | some m => exact (h1 m ha).symm
  | none =>
    cases hb : b with
    | none => rfl
    | some m => rw [h2 m hb] at ha; cases ha

theorem applyTx_tabEq (s s' : St) (t : Tx) (h : TabEq s s') : TabEq (applyTx s t) (applyTx s' t) := by
  refine ⟨fun k => applyTx_U_congr s s' t k (h.U k), fun k => ?_, fun k => ?_, applyTx_total_congr s s' t h.total⟩
  · rw [applyTx_ZU, applyTx_ZU]
    exact applyKOut_ZU_congr t t.kout 0 s s' k (h.ZU k)
  · rw [applyTx_ZD, applyTx_ZD]
    apply opt_eq_of_imp
    · exact applyKOut_ZD_mono t t.kout 0 s s' k (fun m hm => by rw [← h.ZD k]; exact hm)
    · exact applyKOut_ZD_mono t t.kout 0 s' s k (fun m hm => by rw [h.ZD k]; exact hm)

theorem payFee_tabEq (t : Tx) (prop : String) (s s' : St) (h : TabEq s s') :
    TabEq (payFee t prop t.outs 0 s) (payFee t prop t.outs 0 s') := by
  obtain ⟨a1, a2, a3, _⟩ := payFee_frame t prop t.outs 0 s
  obtain ⟨b1, b2, b3, _⟩ := payFee_frame t prop t.outs 0 s'
  exact ⟨fun k => payFee_U_congr t prop t.outs 0 s s' k (h.U k), by rw [a1, b1]; exact h.ZU,
    by rw [a2, b2]; exact h.ZD, by rw [a3, b3]; exact h.total⟩

theorem adm_tabEq (s s' : St) (lh : Int) (t : Tx) (h : TabEq s s') : admitTx s lh t = admitTx s' lh t :=
  admission_congrT s s' lh t h.obsT

-- ------------------------------------------------------------------ static well-formedness, dependence

/-- the environment knows transaction `i` under its id, no input cites the transaction itself, one write per key -/
structure WF (e : Env) (i : Nat) : Prop where
  id : (e.tx i).id = i
  self : ∀ r ∈ (e.tx i).ins, r.tx ≠ i
  kout : ((e.tx i).kout.map (·.key)).Nodup

/-- `dependsOn` without the tests "different" and "parent is pending" -/
def depB (e : Env) (child parent : Nat) : Bool :=
  let c := e.tx child
  let p := e.tx parent
  c.ins.any (fun r => r.tx == parent) ||
  c.kin.any (fun ki => match ki.ver with | some v => v.1 == parent | none => false) ||
  p.kin.any (fun pk => !(p.kout.any (fun ko => ko.key == pk.key)) &&
    c.kin.any (fun ck => ck.key == pk.key && ck.ver == pk.ver && c.kout.any (fun ko => ko.key == ck.key)))

theorem dependsOn_eq (e : Env) (pool : List Nat) (c p : Nat) :
    dependsOn e pool c p = (decide (c ≠ p) && pool.contains p && depB e c p) := rfl

theorem dependsOn_of_depB (e : Env) (pool : List Nat) (c p : Nat) (hne : c ≠ p) (hp : p ∈ pool)
    (h : depB e c p = true) : dependsOn e pool c p = true := by
  rw [dependsOn_eq, h]
  simp [hne, hp]

/-- no input of the child cites the parent -/
theorem depB_false_ins (e : Env) (c p : Nat) (h : depB e c p = false) : ∀ r ∈ (e.tx c).ins, r.tx ≠ p := by
  intro r hr hrp
  have : depB e c p = true := by
    unfold depB
    simp only [Bool.or_eq_true, List.any_eq_true, beq_iff_eq]
    exact Or.inl (Or.inl ⟨r, hr, hrp⟩)
  rw [h] at this; cases this

/-- no read of the child cites a version written by the parent -/
theorem depB_false_ver (e : Env) (c p : Nat) (h : depB e c p = false) :
    ∀ ki ∈ (e.tx c).kin, ∀ o, ki.ver ≠ some (p, o) := by
  intro ki hki o hv
  have : depB e c p = true := by
    unfold depB
    simp only [Bool.or_eq_true, List.any_eq_true]
    refine Or.inl (Or.inr ⟨ki, hki, ?_⟩)
    rw [hv]; simp
  rw [h] at this; cases this

/-- the child overwrites no key version that the parent only reads -/
theorem depB_false_over (e : Env) (c p : Nat) (h : depB e c p = false) :
    ∀ pk ∈ (e.tx p).kin, (∀ ko ∈ (e.tx p).kout, ko.key ≠ pk.key) →
      ∀ ck ∈ (e.tx c).kin, ck.key = pk.key → ck.ver = pk.ver → ∀ ko ∈ (e.tx c).kout, ko.key ≠ ck.key := by
  intro pk hpk hnw ck hck hk hv ko hko hkk
  have : depB e c p = true := by
    unfold depB
    simp only [Bool.or_eq_true, List.any_eq_true, Bool.and_eq_true, Bool.not_eq_true', List.any_eq_false,
      beq_iff_eq]
    refine Or.inr ⟨pk, hpk, ?_, ck, hck, ⟨hk, hv⟩, ko, hko, hkk⟩
    intro ko' hko' he
    exact hnw ko' hko' he
  rw [h] at this; cases this

-- ------------------------------------------------------------------ total supply

def outsDelta (t : Tx) : List Out → Int
  | [] => 0
  | o :: r => (if (o.addr == "$" || o.amt == 0) = true then 0 else if t.coinbase then (o.amt : Int) else 0) +
      outsDelta t r

theorem applyOuts_total_delta (t : Tx) (l : List Out) (off : Nat) (s : St) :
    (applyOuts t l off s).total = s.total + outsDelta t l := by
  induction l generalizing off s with
  | nil => simp [applyOuts, outsDelta]
  | cons o r ih =>
    unfold applyOuts outsDelta
    rw [ih]
    by_cases hz : (o.addr == "$" || o.amt == 0) = true
    · simp only [hz, ↓reduceIte]; omega
    · simp only [hz, Bool.false_eq_true, ↓reduceIte]
      by_cases hc : t.coinbase = true
      · simp only [hc, ↓reduceIte]; omega
      · simp only [hc, Bool.false_eq_true, ↓reduceIte]; omega

theorem applyTx_total_delta (s : St) (t : Tx) : (applyTx s t).total = s.total + outsDelta t t.outs := by
  unfold applyTx
  rw [applyOuts_total_delta]
  simp only
  rw [(applyKOut_frame t t.kout 0 s).2.1]

-- ------------------------------------------------------------------ independent applications commute

theorem applyTx_ZUZD_other (s : St) (t : Tx) (key : String) (hk : key ∉ t.kout.map (·.key)) :
    lookup (applyTx s t).ZU key = lookup s.ZU key ∧ lookup (applyTx s t).ZD key = lookup s.ZD key := by
  rw [applyTx_ZU, applyTx_ZD]
  exact applyKOut_other t t.kout 0 s key hk

theorem applyTx_ZUZD_written (s : St) (t : Tx) (hnd : (t.kout.map (·.key)).Nodup) (i : Nat) (ko : KOut)
    (hi : t.kout[i]? = some ko) :
    lookup (applyTx s t).ZU ko.key = (if ko.del then none else some (t.id, i)) ∧
    lookup (applyTx s t).ZD ko.key = (if ko.del then some (t.id, i) else lookup s.ZD ko.key) := by
  rw [applyTx_ZU, applyTx_ZD]
  have := applyKOut_written t t.kout 0 s i ko hnd hi
  rw [Nat.zero_add] at this
  exact this

/-- two applications commute, row by row: different ids, neither spends an output of the other (nor of itself), no key
written by both -/
theorem applyTx_comm' (s : St) (a b : Tx) (hid : a.id ≠ b.id)
    (hsa : ∀ r ∈ a.ins, r.tx ≠ a.id) (hsb : ∀ r ∈ b.ins, r.tx ≠ b.id)
    (hab : ∀ r ∈ a.ins, r.tx ≠ b.id) (hba : ∀ r ∈ b.ins, r.tx ≠ a.id)
    (hkeys : ∀ k1 ∈ a.kout, ∀ k2 ∈ b.kout, k1.key ≠ k2.key)
    (hnda : (a.kout.map (·.key)).Nodup) (hndb : (b.kout.map (·.key)).Nodup) :
    TabEq (applyTx (applyTx s a) b) (applyTx (applyTx s b) a) := by
  have notin : ∀ (t : Tx) (i : Nat) (k : Ver), (∀ r ∈ t.ins, r.tx ≠ i) → k.1 = i →
      k ∉ t.ins.map (fun r => (r.tx, r.off)) := by
    intro t i k h hk hm
    obtain ⟨r, hr, he⟩ := List.mem_map.mp hm
    exact h r hr (by rw [← hk, ← he])
  refine ⟨fun k => ?_, fun key => ?_, fun key => ?_, ?_⟩
  · by_cases ka : k.1 = a.id
    · have kb : k.1 ≠ b.id := fun h => hid (ka.symm.trans h)
      have n1 := notin b a.id k hba ka
      obtain ⟨k1, k2⟩ := k
      simp only at ka
      subst ka
      rw [applyTx_lookup_otherid (applyTx s a) b _ kb, if_neg n1, applyTx_lookup_idx s a k2 hsa,
        applyTx_lookup_idx (applyTx s b) a k2 hsa, applyTx_lookup_otherid s b _ kb, if_neg n1]
    · by_cases kb : k.1 = b.id
      · have n1 := notin a b.id k hab kb
        obtain ⟨k1, k2⟩ := k
        simp only at kb
        subst kb
        rw [applyTx_lookup_otherid (applyTx s b) a _ ka, if_neg n1, applyTx_lookup_idx s b k2 hsb,
          applyTx_lookup_idx (applyTx s a) b k2 hsb, applyTx_lookup_otherid s a _ ka, if_neg n1]
      · rw [applyTx_lookup_otherid _ b k kb, applyTx_lookup_otherid s a k ka, applyTx_lookup_otherid _ a k ka,
          applyTx_lookup_otherid s b k kb]
        by_cases b1 : k ∈ a.ins.map (fun r => (r.tx, r.off)) <;>
          by_cases b2 : k ∈ b.ins.map (fun r => (r.tx, r.off)) <;> simp only [b1, b2, ↓reduceIte]
  · by_cases w1 : key ∈ a.kout.map (·.key)
    · obtain ⟨k1, hk1, rfl⟩ := List.mem_map.mp w1
      obtain ⟨i, hi1⟩ := List.mem_iff_getElem?.mp hk1
      have w2 : k1.key ∉ b.kout.map (·.key) := by
        intro hm
        obtain ⟨k2, hk2, he⟩ := List.mem_map.mp hm
        exact hkeys k1 hk1 k2 hk2 he.symm
      rw [(applyTx_ZUZD_other (applyTx s a) b _ w2).1, (applyTx_ZUZD_written s a hnda i k1 hi1).1,
        (applyTx_ZUZD_written (applyTx s b) a hnda i k1 hi1).1]
    · by_cases w2 : key ∈ b.kout.map (·.key)
      · obtain ⟨k2, hk2, rfl⟩ := List.mem_map.mp w2
        obtain ⟨i, hi2⟩ := List.mem_iff_getElem?.mp hk2
        rw [(applyTx_ZUZD_written (applyTx s a) b hndb i k2 hi2).1, (applyTx_ZUZD_other (applyTx s b) a _ w1).1,
          (applyTx_ZUZD_written s b hndb i k2 hi2).1]
      · rw [(applyTx_ZUZD_other (applyTx s a) b _ w2).1, (applyTx_ZUZD_other s a _ w1).1,
          (applyTx_ZUZD_other (applyTx s b) a _ w1).1, (applyTx_ZUZD_other s b _ w2).1]
  · by_cases w1 : key ∈ a.kout.map (·.key)
    · obtain ⟨k1, hk1, rfl⟩ := List.mem_map.mp w1
      obtain ⟨i, hi1⟩ := List.mem_iff_getElem?.mp hk1
      have w2 : k1.key ∉ b.kout.map (·.key) := by
        intro hm
        obtain ⟨k2, hk2, he⟩ := List.mem_map.mp hm
        exact hkeys k1 hk1 k2 hk2 he.symm
      rw [(applyTx_ZUZD_other (applyTx s a) b _ w2).2, (applyTx_ZUZD_written s a hnda i k1 hi1).2,
        (applyTx_ZUZD_written (applyTx s b) a hnda i k1 hi1).2, (applyTx_ZUZD_other s b _ w2).2]
    · by_cases w2 : key ∈ b.kout.map (·.key)
      · obtain ⟨k2, hk2, rfl⟩ := List.mem_map.mp w2
        obtain ⟨i, hi2⟩ := List.mem_iff_getElem?.mp hk2
        rw [(applyTx_ZUZD_written (applyTx s a) b hndb i k2 hi2).2, (applyTx_ZUZD_other s a _ w1).2,
          (applyTx_ZUZD_other (applyTx s b) a _ w1).2, (applyTx_ZUZD_written s b hndb i k2 hi2).2]
      · rw [(applyTx_ZUZD_other (applyTx s a) b _ w2).2, (applyTx_ZUZD_other s a _ w1).2,
          (applyTx_ZUZD_other (applyTx s b) a _ w1).2, (applyTx_ZUZD_other s b _ w2).2]
  · rw [applyTx_total_delta, applyTx_total_delta, applyTx_total_delta, applyTx_total_delta]
    omega

-- ------------------------------------------------------------------ admission is local

/-- checking the inputs reads only the rows of the inputs -/
theorem checkInputs_local' (s s' : St) (lh : Int) (ins : List InRef) (seen : List Ver) (acc : Nat)
    (h : ∀ r ∈ ins, lookup s.U (r.tx, r.off) = lookup s'.U (r.tx, r.off)) :
    checkInputs s lh ins seen acc = checkInputs s' lh ins seen acc := by
  induction ins generalizing seen acc with
  | nil => rfl
  | cons r rest ih =>
    unfold checkInputs
    rw [h r List.mem_cons_self]
    have ih' := fun seen acc => ih seen acc (fun x hx => h x (List.mem_cons_of_mem _ hx))
    split
    · rfl
    · split
      · rfl
      · split
        · rfl
        · split
          · rfl
          · split
            · rfl
            · exact ih' _ _

/-- admission reads the rows of the inputs and the current versions of the keys read -/
theorem adm_local (s s' : St) (lh : Int) (t : Tx)
    (hU : ∀ r ∈ t.ins, lookup s.U (r.tx, r.off) = lookup s'.U (r.tx, r.off))
    (hK : ∀ ki ∈ t.kin, curVer s ki.key = curVer s' ki.key) : admitTx s lh t = admitTx s' lh t := by
  unfold admitTx checkInputEqualOutput
  have h2 : verifyRW s t = verifyRW s' t := by
    unfold verifyRW
    have : ∀ l : List KIn, (∀ ki ∈ l, curVer s ki.key = curVer s' ki.key) →
        l.all (fun ki => curVer s ki.key == ki.ver) = l.all (fun ki => curVer s' ki.key == ki.ver) := by
      intro l
      induction l with
      | nil => intro _; rfl
      | cons ki rest ih =>
        intro hl
        simp only [List.all_cons]
        rw [ih (fun x hx => hl x (List.mem_cons_of_mem _ hx)), hl ki List.mem_cons_self]
    rw [this t.kin hK]
  rw [checkInputs_local' s s' lh t.ins [] 0 hU, h2]

/-- admission of `t2` is not affected by applying `t1` first when `t1` neither creates nor spends an input of `t2`
and writes no key that `t2` reads -/
theorem adm_stable (s : St) (lh : Int) (t1 t2 : Tx)
    (hcite : ∀ r ∈ t2.ins, r.tx ≠ t1.id)
    (hins : ∀ r ∈ t2.ins, (r.tx, r.off) ∉ t1.ins.map (fun x => (x.tx, x.off)))
    (hkeys : ∀ ki ∈ t2.kin, ki.key ∉ t1.kout.map (·.key)) :
    admitTx (applyTx s t1) lh t2 = admitTx s lh t2 := by
  apply adm_local
  · intro r hr
    rw [applyTx_lookup_otherid s t1 _ (hcite r hr), if_neg (hins r hr)]
  · intro ki hki
    apply applyTx_curVer_other
    intro ko hko he
    exact hkeys ki hki (List.mem_map.mpr ⟨ko, hko, he⟩)

-- ------------------------------------------------------------------ the two swaps

/-- **adjacent applications swap**: `a` then `b` are admitted in this order, `b` does not depend on `a`, `a` does not
spend an output of `b` — then `b` then `a` are admitted in that order and the tables agree row by row -/
theorem swap_app_app (e : Env) (x : St) (a b : Nat) (wa : WF e a) (wb : WF e b) (hne : a ≠ b)
    (va : ∃ lh, admitTx x lh (e.tx a) = .ok) (vb : ∃ lh, admitTx (applyTx x (e.tx a)) lh (e.tx b) = .ok)
    (hdep : depB e b a = false) (hcite : ∀ r ∈ (e.tx a).ins, r.tx ≠ b) :
    (∃ lh, admitTx x lh (e.tx b) = .ok) ∧ (∃ lh, admitTx (applyTx x (e.tx b)) lh (e.tx a) = .ok) ∧
    TabEq (applyTx (applyTx x (e.tx a)) (e.tx b)) (applyTx (applyTx x (e.tx b)) (e.tx a)) := by
  obtain ⟨lha, hadma⟩ := va
  obtain ⟨lhb, hadmb⟩ := vb
  obtain ⟨ca, _, reada, _⟩ := XV.C03.admit_sound x lha (e.tx a) hadma
  obtain ⟨cb, _, readb, wrb⟩ := XV.C03.admit_sound _ lhb (e.tx b) hadmb
  have d1 := depB_false_ins e b a hdep
  have d2 := depB_false_ver e b a hdep
  have d3 := depB_false_over e b a hdep
  have sa : ∀ r ∈ (e.tx a).ins, r.tx ≠ (e.tx a).id := by rw [wa.id]; exact wa.self
  have sb : ∀ r ∈ (e.tx b).ins, r.tx ≠ (e.tx b).id := by rw [wb.id]; exact wb.self
  -- the inputs of `b` are not inputs of `a`
  have hins : ∀ r ∈ (e.tx b).ins, (r.tx, r.off) ∉ (e.tx a).ins.map (fun x => (x.tx, x.off)) := by
    intro r hr hm
    obtain ⟨u, hu, _⟩ := cb r hr
    obtain ⟨r', hr', he⟩ := List.mem_map.mp hm
    have hk : (r.tx, r.off).1 ≠ (e.tx a).id := by
      rw [← he]; exact sa r' hr'
    rw [applyTx_lookup_otherid x (e.tx a) _ hk, if_pos hm] at hu
    cases hu
  have hins' : ∀ r ∈ (e.tx a).ins, (r.tx, r.off) ∉ (e.tx b).ins.map (fun x => (x.tx, x.off)) := by
    intro r hr hm
    obtain ⟨r', hr', he⟩ := List.mem_map.mp hm
    exact hins r' hr' (List.mem_map.mpr ⟨r, hr, he.symm⟩)
  -- `b` reads no key that `a` writes
  have hkb : ∀ ki ∈ (e.tx b).kin, ki.key ∉ (e.tx a).kout.map (·.key) := by
    intro ki hki hm
    obtain ⟨ko, hko, he⟩ := List.mem_map.mp hm
    obtain ⟨o, ho⟩ := applyTx_curVer_written x (e.tx a) ki.key ⟨ko, hko, he⟩
    rw [readb ki hki, wa.id] at ho
    exact d2 ki hki o ho
  -- `a` reads no key that `b` writes
  have hka : ∀ ki ∈ (e.tx a).kin, ki.key ∉ (e.tx b).kout.map (·.key) := by
    intro ki hki hm
    obtain ⟨ko, hko, he⟩ := List.mem_map.mp hm
    obtain ⟨ck, hck, hckk⟩ := wrb ko hko
    by_cases hw : ∃ ko' ∈ (e.tx a).kout, ko'.key = ki.key
    · obtain ⟨ko', hko', he'⟩ := hw
      exact hkb ck hck (List.mem_map.mpr ⟨ko', hko', by rw [he', hckk, he]⟩)
    · have hnw : ∀ ko' ∈ (e.tx a).kout, ko'.key ≠ ki.key := fun ko' hko' he' => hw ⟨ko', hko', he'⟩
      have hcv := applyTx_curVer_other x (e.tx a) ki.key hnw
      have hkk : ck.key = ki.key := by rw [hckk, he]
      have h1 : ck.ver = ki.ver := by
        rw [← readb ck hck, hkk, hcv, reada ki hki]
      exact d3 ki hki hnw ck hck hkk h1 ko hko hckk.symm
  have hkeys : ∀ k1 ∈ (e.tx a).kout, ∀ k2 ∈ (e.tx b).kout, k1.key ≠ k2.key := by
    intro k1 hk1 k2 hk2 he
    obtain ⟨ck, hck, hckk⟩ := wrb k2 hk2
    exact hkb ck hck (List.mem_map.mpr ⟨k1, hk1, by rw [he, hckk]⟩)
  refine ⟨⟨lhb, ?_⟩, ⟨lha, ?_⟩, ?_⟩
  · rw [← adm_stable x lhb (e.tx a) (e.tx b) (by rw [wa.id]; exact d1) hins hkb]
    exact hadmb
  · rw [adm_stable x lha (e.tx b) (e.tx a) (by rw [wb.id]; exact hcite) hins' hka]
    exact hadma
  · exact applyTx_comm' x (e.tx a) (e.tx b) (by rw [wa.id, wb.id]; exact hne) sa sb
      (by rw [wb.id]; exact hcite) (by rw [wa.id]; exact d1) hkeys wa.kout wb.kout

/-- **an application and a later fee payment swap**: `a` is admitted, it is not the transaction whose fee is paid and
spends none of its fee rows — then `a` is admitted after the payment too, and the tables agree row by row -/
theorem swap_app_fee (e : Env) (x : St) (a i : Nat) (prop : String) (wa : WF e a) (hidi : (e.tx i).id = i)
    (hne : a ≠ i) (va : ∃ lh, admitTx x lh (e.tx a) = .ok)
    (hfee : ∀ r ∈ (e.tx a).ins, r.tx = i → feeSlot (e.tx i) r.off = false) :
    (∃ lh, admitTx (payFee (e.tx i) prop (e.tx i).outs 0 x) lh (e.tx a) = .ok) ∧
    TabEq (payFee (e.tx i) prop (e.tx i).outs 0 (applyTx x (e.tx a)))
      (applyTx (payFee (e.tx i) prop (e.tx i).outs 0 x) (e.tx a)) := by
  obtain ⟨lha, hadma⟩ := va
  have hia : (e.tx i).id ≠ (e.tx a).id := by rw [hidi, wa.id]; exact fun h => hne h.symm
  -- rows that are not fee rows of `i` are untouched by the payment
  have hrow : ∀ (y : St) (k : Ver), (k.1 = i → feeSlot (e.tx i) k.2 = false) →
      lookup (payFee (e.tx i) prop (e.tx i).outs 0 y).U k = lookup y.U k := by
    intro y k hk
    by_cases hki : k.1 = i
    · obtain ⟨k1, k2⟩ := k
      simp only at hki
      subst hki
      have hf := hk rfl
      have := payFee_lookup_idx0 (e.tx k1) prop y k2
      rw [hidi] at this
      rw [this]
      unfold feeSlot at hf
      split
      · rename_i o ho
        simp only [ho] at hf
        simp [hf]
      · rfl
    · exact payFee_lookup_otherid _ _ _ _ _ _ (by rw [hidi]; exact hki)
  constructor
  · refine ⟨lha, ?_⟩
    rw [← hadma]
    apply adm_local
    · intro r hr
      exact hrow x (r.tx, r.off) (hfee r hr)
    · intro ki _
      exact payFee_curVer _ _ _ _ _ _
  · obtain ⟨f1, f2, f3, _⟩ := payFee_frame (e.tx i) prop (e.tx i).outs 0 (applyTx x (e.tx a))
    obtain ⟨g1, g2, g3, _⟩ := payFee_frame (e.tx i) prop (e.tx i).outs 0 x
    refine ⟨fun k => ?_, fun k => ?_, fun k => ?_, ?_⟩
    · by_cases hki : k.1 = i
      · obtain ⟨k1, k2⟩ := k
        simp only at hki
        subst hki
        have hka : (k1, k2).1 ≠ (e.tx a).id := by rw [wa.id]; exact fun h => hne h.symm
        have h1 := payFee_lookup_idx0 (e.tx k1) prop (applyTx x (e.tx a)) k2
        have h2 := payFee_lookup_idx0 (e.tx k1) prop x k2
        rw [hidi] at h1 h2
        rw [h1, applyTx_lookup_otherid x (e.tx a) _ hka,
          applyTx_lookup_otherid (payFee (e.tx k1) prop (e.tx k1).outs 0 x) (e.tx a) _ hka, h2]
        cases ho : (e.tx k1).outs[k2]? with
        | none => rfl
        | some o =>
          simp only
          by_cases hd : (o.addr == "$") = true
          · have hnin : (k1, k2) ∉ (e.tx a).ins.map (fun r => (r.tx, r.off)) := by
              intro hm
              obtain ⟨r, hr, he⟩ := List.mem_map.mp hm
              injection he with e1 e2
              have := hfee r hr e1
              rw [e2] at this
              unfold feeSlot at this
              rw [ho] at this
              simp only [hd] at this
              cases this
            simp only [hd, ↓reduceIte, hnin]
          · simp only [hd, Bool.false_eq_true, ↓reduceIte]
      · have hk' : k.1 ≠ (e.tx i).id := by rw [hidi]; exact hki
        rw [payFee_lookup_otherid _ _ _ _ _ _ hk']
        exact applyTx_U_congr _ _ _ k (payFee_lookup_otherid _ _ _ _ _ _ hk').symm
    · rw [f1, applyTx_ZU, applyTx_ZU]
      exact applyKOut_ZU_congr _ _ 0 _ _ k (by rw [g1])
    · rw [f2, applyTx_ZD, applyTx_ZD]
      apply opt_eq_of_imp
      · exact applyKOut_ZD_mono _ _ 0 _ _ k (fun m hm => by rw [g2]; exact hm)
      · exact applyKOut_ZD_mono _ _ 0 _ _ k (fun m hm => by rw [g2] at hm; exact hm)
    · rw [f3]
      exact applyTx_total_congr _ _ _ g3.symm

-- ------------------------------------------------------------------ the swap system

inductive POp where
  | app (i : Nat)
  | fee (i : Nat) (prop : String)
deriving DecidableEq, Repr

def pstep (e : Env) (s : St) : POp → St
  | .app i => applyTx s (e.tx i)
  | .fee i prop => payFee (e.tx i) prop (e.tx i).outs 0 s

def pV (e : Env) (s : St) : POp → Prop
  | .app i => ∃ lh, admitTx s lh (e.tx i) = .ok
  | .fee _ _ => True

def pInd (e : Env) : POp → POp → Prop
  | .app a, .app b => WF e a ∧ WF e b ∧ a ≠ b ∧ depB e b a = false ∧ ∀ r ∈ (e.tx a).ins, r.tx ≠ b
  | .app a, .fee i _ => WF e a ∧ (e.tx i).id = i ∧ a ≠ i ∧
      ∀ r ∈ (e.tx a).ins, r.tx = i → feeSlot (e.tx i) r.off = false
  | .fee _ _, _ => False

theorem pstep_tabEq (e : Env) (x y : St) (a : POp) (h : TabEq x y) : TabEq (pstep e x a) (pstep e y a) := by
  cases a with
  | app i => exact applyTx_tabEq x y _ h
  | fee i prop => exact payFee_tabEq _ _ x y h

/-- the chain model's table operations as a swap system -/
def chainSys (e : Env) : XV.Refine.SwapSys St POp where
  step := pstep e
  E := TabEq
  V := pV e
  Ind := pInd e
  E_refl := TabEq.refl
  E_trans := fun _ _ _ h1 h2 => h1.trans h2
  step_congr := pstep_tabEq e
  V_congr := by
    intro x y a h hv
    cases a with
    | app i =>
      obtain ⟨lh, hl⟩ := hv
      exact ⟨lh, by rw [← adm_tabEq x y lh _ h]; exact hl⟩
    | fee i prop => trivial
  swap := by
    intro x a b va vb hind
    cases a with
    | app a =>
      cases b with
      | app b =>
        obtain ⟨wa, wb, hne, hdep, hcite⟩ := hind
        exact swap_app_app e x a b wa wb hne va vb hdep hcite
      | fee i prop =>
        obtain ⟨wa, hidi, hne, hfee⟩ := hind
        obtain ⟨h1, h2⟩ := swap_app_fee e x a i prop wa hidi hne va hfee
        exact ⟨trivial, h1, h2⟩
    | fee i prop => exact absurd hind (by cases b <;> exact fun h => h)

/-- run a list of operations -/
def prun (e : Env) (l : List POp) (s : St) : St := (chainSys e).run l s

/-- every application in the list passes admission at its point -/
def pValid (e : Env) (l : List POp) (s : St) : Prop := (chainSys e).Valid l s

theorem prun_nil (e : Env) (s : St) : prun e [] s = s := rfl
theorem prun_cons (e : Env) (a : POp) (l : List POp) (s : St) : prun e (a :: l) s = prun e l (pstep e s a) := rfl
theorem prun_append (e : Env) (l1 l2 : List POp) (s : St) : prun e (l1 ++ l2) s = prun e l2 (prun e l1 s) :=
  (chainSys e).run_append l1 l2 s

theorem pValid_nil (e : Env) (s : St) : pValid e [] s := trivial
theorem pValid_cons (e : Env) (a : POp) (l : List POp) (s : St) :
    pValid e (a :: l) s ↔ pV e s a ∧ pValid e l (pstep e s a) := Iff.rfl
theorem pValid_append (e : Env) (l1 l2 : List POp) (s : St) :
    pValid e (l1 ++ l2) s ↔ pValid e l1 s ∧ pValid e l2 (prun e l1 s) := (chainSys e).valid_append l1 l2 s

/-- the pool as a list of operations -/
theorem prun_apps (e : Env) (l : List Nat) (s : St) : prun e (l.map POp.app) s = applyPool e l s := by
  induction l generalizing s with
  | nil => rfl
  | cons i rest ih => rw [List.map_cons, prun_cons, ih]; rfl

/-- the operations of a block replayed on a fresh node -/
def blockOps (prop : String) (l : List Nat) : List POp := l.flatMap (fun i => [POp.app i, POp.fee i prop])

theorem blockOps_cons (prop : String) (i : Nat) (l : List Nat) :
    blockOps prop (i :: l) = POp.app i :: POp.fee i prop :: blockOps prop l := by
  unfold blockOps; simp

theorem prun_blockOps (e : Env) (prop : String) (l : List Nat) (s : St) :
    prun e (blockOps prop l) s = replayTxs e prop l s := by
  induction l generalizing s with
  | nil => rfl
  | cons i rest ih => rw [blockOps_cons, prun_cons, prun_cons, ih]; rfl

/-- the operations of a block on a node that has some of its transactions applied already (they only get their fee) -/
def skipOps (prop : String) (already : Nat → Bool) (l : List Nat) : List POp :=
  l.flatMap (fun i => if already i then [POp.fee i prop] else [POp.app i, POp.fee i prop])

theorem skipOps_cons (prop : String) (already : Nat → Bool) (i : Nat) (l : List Nat) :
    skipOps prop already (i :: l) =
      (if already i then [POp.fee i prop] else [POp.app i, POp.fee i prop]) ++ skipOps prop already l := by
  unfold skipOps; simp

end XV.Chain
