import XV.Lemmas.RefineClosed
/-!
Two reorderings of the operations of a node, both instances of `XV.Refine.SwapSys.reorder` / `bubble`:

* `evict_reorder`: in a valid pool, a set of transactions that is closed under dependents can be moved to the end
  (so that undoing them newest first is the roll-back of a suffix);
* `absorb`: the pool followed by the operations of a block in which the pending members only get their fee is
  equivalent to the block replayed as on a fresh node followed by the pending transactions that are not in the block,
  provided no block transaction depends on a pending transaction that is not before it in the block (`H1`) and no
  pending transaction spends a fee row of the block (`H2`).

`blockRun_refines`: what the block loop of a node computes, in terms of the operations.
-/
namespace XV.Chain

theorem nodup_map_app (l : List Nat) (h : l.Nodup) : (l.map POp.app).Nodup := by
  unfold List.Nodup at *
  rw [List.pairwise_map]
  exact h.imp (fun hne he => hne (POp.app.inj he))

theorem pair_sublist_map_app (a b : POp) (l : List Nat) (h : [a, b].Sublist (l.map POp.app)) :
    ∃ x y, a = POp.app x ∧ b = POp.app y ∧ [x, y].Sublist l := by
  obtain ⟨l', hl', he⟩ := List.sublist_map_iff.mp h
  match l', he with
  | [x, y], he =>
    simp only [List.map_cons, List.map_nil, List.cons.injEq, and_true] at he
    exact ⟨x, y, he.1, he.2, hl'⟩
  | [], he => simp at he
  | [_], he => simp at he
  | _ :: _ :: _ :: _, he => simp at he

theorem pbubble (e : Env) (pre post : List POp) (b : POp) (X : St) (hv : pValid e (pre ++ b :: post) X)
    (hind : ∀ a ∈ pre, pInd e a b) :
    pValid e (b :: (pre ++ post)) X ∧ TabEq (prun e (pre ++ b :: post) X) (prun e (b :: (pre ++ post)) X) :=
  (chainSys e).bubble pre post b X hv hind

theorem preorder (e : Env) (l1 l2 : List POp) (X : St) (hp : l1.Perm l2) (hnd : l1.Nodup)
    (hind : ∀ a b, [a, b].Sublist l1 → [b, a].Sublist l2 → pInd e a b) (hv : pValid e l1 X) :
    pValid e l2 X ∧ TabEq (prun e l1 X) (prun e l2 X) :=
  (chainSys e).reorder l2 l1 X hp hnd hind hv

theorem sublist_pair_cons_ne {α : Type} {a i j : α} {T : List α} (h : [a, j].Sublist (i :: T)) (hne : a ≠ i) :
    [a, j].Sublist T := by
  cases h with
  | cons _ h' => exact h'
  | cons_cons _ _ => exact absurd rfl hne

/-- **a dependents-closed set of pending transactions can be applied last** -/
theorem evict_reorder (e : Env) (P : List Nat) (X : St) (E : Nat → Bool)
    (hnd : P.Nodup) (hwf : ∀ i ∈ P, WF e i) (hbase : ∀ i ∈ P, ∀ o, lookup X.U (i, o) = none)
    (hv : pValid e (P.map POp.app) X)
    (hclosed : ∀ p ∈ P, E p = true → ∀ c ∈ P, c ≠ p → depB e c p = true → E c = true) :
    pValid e ((P.filter (fun i => !E i) ++ P.filter E).map POp.app) X ∧
    TabEq (prun e (P.map POp.app) X) (prun e ((P.filter (fun i => !E i) ++ P.filter E).map POp.app) X) := by
  have hperm : (P.map POp.app).Perm ((P.filter (fun i => !E i) ++ P.filter E).map POp.app) := by
    apply List.Perm.map
    have h1 := List.filter_append_perm (fun i => !E i) P
    have h2 : P.filter (fun x => !(fun i => !E i) x) = P.filter E := by
      apply List.filter_congr; intro x _; simp
    rw [h2] at h1
    exact h1.symm
  apply preorder e (P.map POp.app) _ X hperm (nodup_map_app P hnd) _ hv
  intro a b h1 h2
  obtain ⟨x, y, rfl, rfl, hxy⟩ := pair_sublist_map_app a b P h1
  obtain ⟨y', x', ey, ex, hyx⟩ := pair_sublist_map_app _ _ _ h2
  have ey' : y' = y := (POp.app.inj ey).symm
  have ex' : x' = x := (POp.app.inj ex).symm
  subst ey' ex'
  -- y' is kept, x' is evicted
  obtain ⟨l1, l2, hsplit, hl1, hl2⟩ := List.sublist_append_iff.mp hyx
  have hK : (P.filter (fun i => !E i)).Sublist P := List.filter_sublist
  have hE : (P.filter E).Sublist P := List.filter_sublist
  have hkeep : y' ∈ P.filter (fun i => !E i) ∧ x' ∈ P.filter E := by
    match l1, l2, hsplit with
    | [], _, hs =>
      simp only [List.nil_append] at hs
      subst hs
      exact absurd (hl2.trans hE) (fun h => nodup_pair_order P x' y' hnd hxy h)
    | [a1], [b1], hs =>
      simp only [List.cons_append, List.nil_append, List.cons.injEq, and_true] at hs
      obtain ⟨rfl, rfl⟩ := hs
      exact ⟨List.singleton_sublist.mp hl1, List.singleton_sublist.mp hl2⟩
    | [a1, b1], [], hs =>
      simp only [List.cons_append, List.nil_append, List.append_nil, List.cons.injEq, and_true] at hs
      obtain ⟨rfl, rfl⟩ := hs
      exact absurd (hl1.trans hK) (fun h => nodup_pair_order P x' y' hnd hxy h)
    | [_], [], hs => simp at hs
    | [_], _ :: _ :: _, hs => simp at hs
    | [_, _], _ :: _, hs => simp at hs
    | _ :: _ :: _ :: _, _, hs => simp at hs
  obtain ⟨hyK, hxE⟩ := hkeep
  have hyP : y' ∈ P := (List.mem_filter.mp hyK).1
  have hxP : x' ∈ P := (List.mem_filter.mp hxE).1
  have hyk : E y' = false := by simpa using (List.mem_filter.mp hyK).2
  have hxe : E x' = true := (List.mem_filter.mp hxE).2
  have hne : x' ≠ y' := by
    intro h; rw [h, hyk] at hxe; cases hxe
  refine ⟨hwf x' hxP, hwf y' hyP, hne, ?_, ?_⟩
  · cases hd : depB e y' x' with
    | false => rfl
    | true =>
      have := hclosed x' hxP hxe y' hyP (fun h => hne h.symm) hd
      rw [hyk] at this; cases this
  · -- x' is admitted before y' is applied: it cannot spend an output of y'
    intro r hr hry
    obtain ⟨p, q, t, hP⟩ := XV.Refine.sublist_pair_split x' y' P hxy
    have hv' := hv
    rw [hP] at hv'
    simp only [List.map_append, List.map_cons, List.append_assoc, List.cons_append] at hv'
    obtain ⟨_, hv2⟩ := (pValid_append e _ _ X).mp hv'
    obtain ⟨⟨lh, hadm⟩, _⟩ := (pValid_cons e _ _ _).mp hv2
    obtain ⟨hcur, _⟩ := XV.C03.admit_sound _ lh _ hadm
    obtain ⟨u, hu, _⟩ := hcur r hr
    rw [hry] at hu
    have hyp : y' ∉ p := by
      intro hm
      rw [hP] at hnd
      have := (List.nodup_append.mp ((List.append_assoc _ _ _) ▸ hnd)).2.2
      simp only [List.append_assoc, List.cons_append] at hnd
      have h3 := (List.nodup_append.mp hnd).2.2 y' hm y' (by simp)
      exact h3 rfl
    have := prun_row_other e (p.map POp.app) X y' r.off u
      (fun op hop => by
        obtain ⟨j, hj, rfl⟩ := List.mem_map.mp hop
        exact (hwf j (by rw [hP]; simp [hj])).id)
      (fun op hop => by
        obtain ⟨j, hj, rfl⟩ := List.mem_map.mp hop
        intro h; simp only [opId] at h; exact hyp (h ▸ hj))
      hu
    rw [hbase y' hyP r.off] at this
    cases this

/-- what the block loop of a node computes (`blockRun`: pending members only get their fee), on a state that refines
`Y`: a state that refines the run of the corresponding operations on `Y`, which are valid there -/
theorem blockRun_refines (e : Env) (lh : Int) (prop : String) (isPool : Nat → Bool) (txs : List Nat) (s s2 Y : St)
    (h : blockRun e lh prop isPool txs s s2) (hs : TRefines s Y) :
    TRefines s2 (prun e (skipOps prop isPool txs) Y) ∧ pValid e (skipOps prop isPool txs) Y := by
  induction txs generalizing s Y with
  | nil =>
    simp only [blockRun] at h
    subst h
    exact ⟨hs, trivial⟩
  | cons i rest ih =>
    unfold blockRun at h
    rw [skipOps_cons]
    by_cases hp : isPool i = true
    · simp only [hp, ↓reduceIte] at h ⊢
      obtain ⟨i1, i2⟩ := ih _ _ h (payFee_trefines (e.tx i) prop (e.tx i).outs 0 s Y hs)
      exact ⟨i1, (pValid_cons e _ _ Y).mpr ⟨trivial, i2⟩⟩
    · simp only [hp, Bool.false_eq_true, ↓reduceIte] at h ⊢
      obtain ⟨hadm, hrest⟩ := h
      obtain ⟨i1, i2⟩ := ih _ _ hrest
        (payFee_trefines (e.tx i) prop (e.tx i).outs 0 _ _ (applyTx_trefines s Y (e.tx i) hs))
      refine ⟨i1, ?_⟩
      apply (pValid_cons e _ _ Y).mpr
      refine ⟨⟨lh, by rw [← admission_congrT s Y lh (e.tx i) hs.obs]; exact hadm⟩, ?_⟩
      exact (pValid_cons e _ _ _).mpr ⟨trivial, i2⟩

/-- **the block is absorbed into the canonical prefix.** `Q`: the pending transactions applied on the node (pool order),
`T`: the transactions of the block; on the node the pending members of the block only get their fee. -/
theorem absorb (e : Env) (prop : String) : ∀ (T Q : List Nat) (X : St), T.Nodup → Q.Nodup →
    (∀ i ∈ T, WF e i) → (∀ i ∈ Q, WF e i) →
    pValid e (Q.map POp.app ++ skipOps prop (fun i => decide (i ∈ Q)) T) X →
    (∀ i ∈ T, ∀ a ∈ Q, a ≠ i → ¬ [a, i].Sublist T → (i ∈ Q → [a, i].Sublist Q) →
      depB e i a = false ∧ ∀ r ∈ (e.tx a).ins, r.tx ≠ i) →
    (∀ i ∈ T, ∀ a ∈ Q, a ≠ i → ∀ r ∈ (e.tx a).ins, r.tx = i → feeSlot (e.tx i) r.off = false) →
    pValid e (blockOps prop T ++ (Q.filter (fun i => decide (i ∉ T))).map POp.app) X ∧
    TabEq (prun e (Q.map POp.app ++ skipOps prop (fun i => decide (i ∈ Q)) T) X)
      (prun e (blockOps prop T ++ (Q.filter (fun i => decide (i ∉ T))).map POp.app) X) := by
  intro T
  induction T with
  | nil =>
    intro Q X _ _ _ _ hv _ _
    have hf : Q.filter (fun i => decide (i ∉ ([] : List Nat))) = Q := by
      apply List.filter_eq_self.mpr; intro a _; simp
    rw [hf]
    simp only [skipOps, List.flatMap_nil, List.append_nil, blockOps, List.nil_append] at hv ⊢
    exact ⟨hv, TabEq.refl _⟩
  | cons i T' ih =>
    intro Q X hndT hndQ hwT hwQ hv H1 H2
    simp only [List.nodup_cons] at hndT
    have wi := hwT i List.mem_cons_self
    have hnotT : ∀ a, a ≠ i → ¬ [a, i].Sublist (i :: T') := by
      intro a hai h
      exact hndT.1 ((sublist_pair_cons_ne h hai).subset (by simp))
    rw [skipOps_cons] at hv ⊢
    rw [blockOps_cons]
    by_cases hiQ : i ∈ Q
    · obtain ⟨Q1, Q2, rfl⟩ := List.append_of_mem hiQ
      have hndQ' := hndQ
      have hnq : i ∉ Q1 ∧ i ∉ Q2 := by
        have h1 := List.nodup_append.mp hndQ
        constructor
        · intro hm; exact h1.2.2 i hm i (by simp) rfl
        · intro hm; exact (List.nodup_cons.mp h1.2.1).1 hm
      have hnd12 : (Q1 ++ Q2).Nodup := by
        have := (List.perm_middle (a := i) (l₁ := Q1) (l₂ := Q2)).nodup_iff.mp hndQ
        exact (List.nodup_cons.mp this).2
      simp only [hiQ, decide_true, ↓reduceIte] at hv ⊢
      have hskip : skipOps prop (fun j => decide (j ∈ Q1 ++ i :: Q2)) T' =
          skipOps prop (fun j => decide (j ∈ Q1 ++ Q2)) T' := by
        apply skipOps_congr
        intro j hj
        have hji : j ≠ i := fun h => hndT.1 (h ▸ hj)
        simp [hji]
      rw [hskip] at hv ⊢
      -- step A: `app i` first
      have hA : Q1.map POp.app ++ POp.app i :: (Q2.map POp.app ++ (POp.fee i prop ::
            skipOps prop (fun j => decide (j ∈ Q1 ++ Q2)) T')) =
          (Q1 ++ i :: Q2).map POp.app ++ ([POp.fee i prop] ++ skipOps prop (fun j => decide (j ∈ Q1 ++ Q2)) T') := by
        simp
      rw [← hA] at hv ⊢
      obtain ⟨vA, eA⟩ := pbubble e (Q1.map POp.app) _ (POp.app i) X hv (by
        intro op hop
        obtain ⟨a, ha, rfl⟩ := List.mem_map.mp hop
        have hai : a ≠ i := fun h => hnq.1 (h ▸ ha)
        have haQ : a ∈ Q1 ++ i :: Q2 := List.mem_append_left _ ha
        obtain ⟨d1, d2⟩ := H1 i List.mem_cons_self a haQ hai (hnotT a hai)
          (fun _ => List.Sublist.append (List.singleton_sublist.mpr ha)
            (List.singleton_sublist.mpr List.mem_cons_self))
        exact ⟨hwQ a haQ, wi, hai, d1, d2⟩)
      obtain ⟨vi, vA'⟩ := (pValid_cons e _ _ X).mp vA
      -- step B: `fee i` second
      have hB : Q1.map POp.app ++ (Q2.map POp.app ++ (POp.fee i prop ::
            skipOps prop (fun j => decide (j ∈ Q1 ++ Q2)) T')) =
          (Q1 ++ Q2).map POp.app ++ POp.fee i prop :: skipOps prop (fun j => decide (j ∈ Q1 ++ Q2)) T' := by
        simp
      rw [hB] at vA' eA
      obtain ⟨vB, eB⟩ := pbubble e ((Q1 ++ Q2).map POp.app) _ (POp.fee i prop) _ vA' (by
        intro op hop
        obtain ⟨a, ha, rfl⟩ := List.mem_map.mp hop
        have hai : a ≠ i := by
          intro h; subst h
          rcases List.mem_append.mp ha with h | h
          · exact hnq.1 h
          · exact hnq.2 h
        have haQ : a ∈ Q1 ++ i :: Q2 := by
          rcases List.mem_append.mp ha with h | h
          · exact List.mem_append_left _ h
          · exact List.mem_append_right _ (List.mem_cons_of_mem _ h)
        exact ⟨hwQ a haQ, wi.id, hai, H2 i List.mem_cons_self a haQ hai⟩)
      obtain ⟨_, vB'⟩ := (pValid_cons e _ _ _).mp vB
      -- step C: the rest of the block
      have hmem12 : ∀ a, a ∈ Q1 ++ Q2 → a ∈ Q1 ++ i :: Q2 ∧ a ≠ i := by
        intro a ha
        rcases List.mem_append.mp ha with h | h
        · exact ⟨List.mem_append_left _ h, fun e2 => hnq.1 (e2 ▸ h)⟩
        · exact ⟨List.mem_append_right _ (List.mem_cons_of_mem _ h), fun e2 => hnq.2 (e2 ▸ h)⟩
      obtain ⟨vC, eC⟩ := ih (Q1 ++ Q2) _ hndT.2 hnd12 (fun j hj => hwT j (List.mem_cons_of_mem _ hj))
        (fun a ha => hwQ a (hmem12 a ha).1) vB'
        (by
          intro j hj a ha haj hns hord
          have hji : j ≠ i := fun h => hndT.1 (h ▸ hj)
          apply H1 j (List.mem_cons_of_mem _ hj) a (hmem12 a ha).1 haj
          · intro h
            exact hns (sublist_pair_cons_ne h (hmem12 a ha).2)
          · intro hjQ
            have hj12 : j ∈ Q1 ++ Q2 := by
              rcases List.mem_append.mp hjQ with h | h
              · exact List.mem_append_left _ h
              · rcases List.mem_cons.mp h with h | h
                · exact absurd h hji
                · exact List.mem_append_right _ h
            exact (hord hj12).trans (List.Sublist.append (List.Sublist.refl Q1) (List.sublist_cons_self i Q2)))
        (fun j hj a ha haj => H2 j (List.mem_cons_of_mem _ hj) a (hmem12 a ha).1 haj)
      have hfil : (Q1 ++ i :: Q2).filter (fun j => decide (j ∉ i :: T')) =
          (Q1 ++ Q2).filter (fun j => decide (j ∉ T')) := by
        rw [List.filter_append, List.filter_append, List.filter_cons]
        simp only [List.mem_cons, true_or, not_true_eq_false, decide_false, Bool.false_eq_true, ↓reduceIte]
        congr 1
        · apply List.filter_congr
          intro a ha
          have : a ≠ i := fun e2 => hnq.1 (e2 ▸ ha)
          simp [this]
        · apply List.filter_congr
          intro a ha
          have : a ≠ i := fun e2 => hnq.2 (e2 ▸ ha)
          simp [this]
      rw [hfil]
      constructor
      · simp only [List.cons_append]
        exact (pValid_cons e _ _ X).mpr ⟨vi, (pValid_cons e _ _ _).mpr ⟨trivial, vC⟩⟩
      · simp only [List.cons_append]
        rw [prun_cons] at eA
        rw [prun_cons] at eB
        rw [prun_cons, prun_cons]
        exact eA.trans (eB.trans eC)
    · simp only [hiQ, decide_false, Bool.false_eq_true, ↓reduceIte] at hv ⊢
      have hA : Q.map POp.app ++ POp.app i :: (POp.fee i prop :: skipOps prop (fun j => decide (j ∈ Q)) T') =
          Q.map POp.app ++ ([POp.app i, POp.fee i prop] ++ skipOps prop (fun j => decide (j ∈ Q)) T') := by
        simp
      rw [← hA] at hv ⊢
      have hneQ : ∀ a ∈ Q, a ≠ i := fun a ha h => hiQ (h ▸ ha)
      obtain ⟨vA, eA⟩ := pbubble e (Q.map POp.app) _ (POp.app i) X hv (by
        intro op hop
        obtain ⟨a, ha, rfl⟩ := List.mem_map.mp hop
        obtain ⟨d1, d2⟩ := H1 i List.mem_cons_self a ha (hneQ a ha) (hnotT a (hneQ a ha))
          (fun h => absurd h hiQ)
        exact ⟨hwQ a ha, wi, hneQ a ha, d1, d2⟩)
      obtain ⟨vi, vA'⟩ := (pValid_cons e _ _ X).mp vA
      obtain ⟨vB, eB⟩ := pbubble e (Q.map POp.app) _ (POp.fee i prop) _ vA' (by
        intro op hop
        obtain ⟨a, ha, rfl⟩ := List.mem_map.mp hop
        exact ⟨hwQ a ha, wi.id, hneQ a ha, H2 i List.mem_cons_self a ha (hneQ a ha)⟩)
      obtain ⟨_, vB'⟩ := (pValid_cons e _ _ _).mp vB
      obtain ⟨vC, eC⟩ := ih Q _ hndT.2 hndQ (fun j hj => hwT j (List.mem_cons_of_mem _ hj)) hwQ vB'
        (by
          intro j hj a ha haj hns hord
          apply H1 j (List.mem_cons_of_mem _ hj) a ha haj _ hord
          intro h
          exact hns (sublist_pair_cons_ne h (hneQ a ha)))
        (fun j hj a ha haj => H2 j (List.mem_cons_of_mem _ hj) a ha haj)
      have hfil : Q.filter (fun j => decide (j ∉ i :: T')) = Q.filter (fun j => decide (j ∉ T')) := by
        apply List.filter_congr
        intro a ha
        simp [hneQ a ha]
      rw [hfil]
      constructor
      · simp only [List.cons_append]
        exact (pValid_cons e _ _ X).mpr ⟨vi, (pValid_cons e _ _ _).mpr ⟨trivial, vC⟩⟩
      · simp only [List.cons_append]
        rw [prun_cons] at eA
        rw [prun_cons] at eB
        rw [prun_cons, prun_cons]
        exact eA.trans (eB.trans eC)

end XV.Chain
