import XV.Model.Acl
/-!
Helper lemmas for C11 (`XV/Props/C11.lean`): list facts about the trie view of the permission tree, the
validators on a child list, the induction `child_counts_iff` (a child counts for its parent iff the
specification says its name is verified), sufficiency of the nesting bound, and properties of `Sat` / `verified`.
-/
namespace XV.C11
open XV.Acl

/-! ## lists -/

theorem mem_dedup (x : Name) (l : List Name) : x ∈ dedup l ↔ x ∈ l := by
  induction l with
  | nil => simp [dedup]
  | cons y ys ih =>
    simp only [dedup, List.mem_cons, List.mem_filter, ih, decide_eq_true_eq]
    by_cases h : x = y
    · simp [h]
    · simp [h]

theorem nodup_dedup (l : List Name) : (dedup l).Nodup := by
  induction l with
  | nil => simp [dedup]
  | cons y ys ih =>
    simp only [dedup, List.nodup_cons, List.mem_filter, decide_eq_true_eq]
    exact ⟨fun h => h.2 rfl, ih.sublist List.filter_sublist⟩

theorem mem_childNames (c : Name) (below : List URI) : c ∈ childNames below ↔ ∃ t, c :: t ∈ below := by
  unfold childNames
  rw [mem_dedup, List.mem_filterMap]
  constructor
  · rintro ⟨p, hp, hh⟩
    cases p with
    | nil => simp at hh
    | cons h t =>
      simp at hh
      exact ⟨t, hh ▸ hp⟩
  · rintro ⟨t, ht⟩
    exact ⟨c :: t, ht, rfl⟩

theorem nodup_childNames (below : List URI) : (childNames below).Nodup := nodup_dedup _

theorem mem_under (c : Name) (t : URI) (below : List URI) : t ∈ under c below ↔ c :: t ∈ below := by
  unfold under
  rw [List.mem_filterMap]
  constructor
  · rintro ⟨p, hp, hh⟩
    cases p with
    | nil => simp at hh
    | cons h t' =>
      by_cases e : h = c
      · simp [e] at hh
        subst e; subst hh; exact hp
      · simp [e] at hh
  · intro h
    exact ⟨c :: t, h, by simp⟩

theorem under_ne_nil (c : Name) (below : List URI) : under c below ≠ [] ↔ c ∈ childNames below := by
  rw [mem_childNames]
  constructor
  · intro h
    obtain ⟨t, ht⟩ := List.exists_mem_of_ne_nil _ h
    exact ⟨t, (mem_under c t below).1 ht⟩
  · rintro ⟨t, ht⟩
    exact List.ne_nil_of_mem ((mem_under c t below).2 ht)

theorem mem_belowRoot (root : Name) (t : URI) (us : List URI) :
    t ∈ belowRoot root us ↔ t ≠ [] ∧ root :: t ∈ us := by
  unfold belowRoot
  rw [List.mem_filterMap]
  constructor
  · rintro ⟨p, hp, hh⟩
    cases p with
    | nil => simp at hh
    | cons h t' =>
      by_cases e : h = root ∧ t' ≠ []
      · simp [e] at hh
        obtain ⟨e1, e2⟩ := e
        subst e1; subst hh; exact ⟨e2, hp⟩
      · simp [e] at hh
  · rintro ⟨h1, h2⟩
    exact ⟨root :: t, h2, by simp [h1]⟩

/-! ## the validators on a child list of the form `l.map (c ↦ (c, f c))` -/

theorem okNames_map (l : List Name) (f : Name → Bool) :
    okNames (l.map (fun c => (c, f c))) = l.filter f := by
  induction l with
  | nil => rfl
  | cons x xs ih =>
    unfold okNames at ih ⊢
    by_cases h : f x = true
    · simp [h, ih]
    · simp [h, ih]

theorem findKid_map (n : Name) (l : List Name) (f : Name → Bool) :
    findKid n (l.map (fun c => (c, f c))) = if n ∈ l then some (f n) else none := by
  induction l with
  | nil => simp [findKid]
  | cons x xs ih =>
    simp only [List.map_cons, findKid, List.mem_cons]
    by_cases h : x = n
    · simp [h]
    · have h' : ¬ n = x := fun e => h e.symm
      simp [h, h', ih]

theorem sumW_nil (cs : List Name) : sumW [] cs = 0 := by
  induction cs with
  | nil => rfl
  | cons c cs ih => simp [sumW, weightOf, ih]

theorem weightOf_not_mem (ms : List (Name × Int)) (m : Name) (h : m ∉ ms.map Prod.fst) : weightOf ms m = 0 := by
  induction ms with
  | nil => rfl
  | cons p ps ih =>
    obtain ⟨m', w⟩ := p
    simp only [List.map_cons, List.mem_cons, not_or] at h
    simp [weightOf, h.1, ih h.2]

theorem sumW_cons (ms : List (Name × Int)) (m : Name) (w : Int) (h0 : weightOf ms m = 0) (cs : List Name)
    (hcs : cs.Nodup) :
    sumW ((m, w) :: ms) cs = (if m ∈ cs then w else 0) + sumW ms cs := by
  induction cs with
  | nil => simp [sumW]
  | cons c cs ih =>
    rw [List.nodup_cons] at hcs
    have ih' := ih hcs.2
    simp only [sumW, weightOf, List.mem_cons]
    rw [ih']
    by_cases e : c = m
    · subst e
      have : c ∉ cs := hcs.1
      simp [this, h0]
    · have e' : ¬ m = c := fun x => e x.symm
      simp only [e, e', if_false, false_or]
      by_cases hm : m ∈ cs
      · simp only [hm, if_true]; omega
      · simp only [hm, if_false]; omega

/-- the sum of the code (over the distinct successful children) is the sum of the property (over the members) -/
theorem sumW_eq_memberSum (ms : List (Name × Int)) (cs : List Name) (hcs : cs.Nodup)
    (hms : (ms.map Prod.fst).Nodup) : sumW ms cs = memberSum ms (fun m => decide (m ∈ cs)) := by
  induction ms with
  | nil => simp [sumW_nil, memberSum]
  | cons p ps ih =>
    obtain ⟨m, w⟩ := p
    simp only [List.map_cons, List.nodup_cons] at hms
    rw [sumW_cons ps m w (weightOf_not_mem ps m hms.1) cs hcs, ih hms.2]
    simp [memberSum]

/-- member names of a rule are pairwise distinct (`AksWeight` is a Go map) -/
def RuleWF (r : Option Rule) : Prop := ∀ ms theta, r = some (.thr ms theta) → (ms.map Prod.fst).Nodup

def EnvWF (env : Env) : Prop := ∀ n, RuleWF (env n)

theorem ruleOk_iff_Sat (r : Option Rule) (l : List Name) (f : Name → Bool) (hl : l.Nodup) (hr : RuleWF r) :
    ruleOk r (l.map (fun c => (c, f c))) = true ↔ Sat r (fun m => decide (m ∈ l) && f m) := by
  cases r with
  | none => simp [ruleOk, Sat]
  | some r =>
    cases r with
    | thr ms theta =>
      have hnd : (l.filter f).Nodup := hl.sublist List.filter_sublist
      have hfun : (fun m => decide (m ∈ l.filter f)) = (fun m => decide (m ∈ l) && f m) := by
        funext m
        simp [List.mem_filter]
      simp only [ruleOk, thresholdOk, Sat, okNames_map, decide_eq_true_eq]
      rw [sumW_eq_memberSum ms _ hnd (hr ms theta rfl), hfun]
    | sets ss =>
      simp only [ruleOk, setsOk, Sat, List.any_eq_true]
      constructor
      · rintro ⟨set, hset, hok⟩
        refine ⟨set, hset, ?_, ?_⟩
        · intro e; simp [setOk, e] at hok
        · intro k hk
          simp only [setOk, Bool.and_eq_true, List.all_eq_true] at hok
          have := hok.2 k hk
          rw [findKid_map] at this
          by_cases hkl : k ∈ l
          · simp [hkl] at this; simp [hkl, this]
          · simp [hkl] at this
      · rintro ⟨set, hset, hne, hall⟩
        refine ⟨set, hset, ?_⟩
        simp only [setOk, Bool.and_eq_true, List.all_eq_true]
        have hall' : ∀ k ∈ set, k ∈ l ∧ f k = true := by
          intro k hk
          have := hall k hk
          simpa using this
        refine ⟨⟨?_, ?_⟩, ?_⟩
        · cases set with
          | nil => exact absurd rfl hne
          | cons _ _ => rfl
        · cases set with
          | nil => exact absurd rfl hne
          | cons k _ =>
            have := (hall' k (List.mem_cons_self)).1
            cases l with
            | nil => simp at this
            | cons _ _ => rfl
        · intro k hk
          rw [findKid_map]
          simp [(hall' k hk).1, (hall' k hk).2]

/-! ## the evaluation equals the specification -/

theorem kids_eq (env : Env) (d : Nat) (below : List URI) :
    kids env d below = (childNames below).map (fun c => (c, nodeStatus env d c (under c below))) := rfl

/-- a child counts for its parent iff the specification says its name is verified at that level -/
theorem child_counts_iff (env : Env) (hwf : EnvWF env) :
    ∀ (d : Nat) (below : List URI) (c : Name),
      (decide (c ∈ childNames below) && nodeStatus env d c (under c below)) = verified env d below c := by
  intro d
  induction d with
  | zero =>
    intro below c
    cases c with
    | key k =>
      rw [Bool.eq_iff_iff]
      simp only [nodeStatus, verified, Bool.and_eq_true, decide_eq_true_eq, mem_under, mem_childNames]
      constructor
      · rintro ⟨_, h⟩; exact h
      · intro h; exact ⟨⟨[], h⟩, h⟩
    | acct a => simp [nodeStatus, verified]
  | succ d ih =>
    intro below c
    cases c with
    | key k =>
      rw [Bool.eq_iff_iff]
      simp only [nodeStatus, verified, Bool.and_eq_true, decide_eq_true_eq, mem_under, mem_childNames]
      constructor
      · rintro ⟨_, h⟩; exact h
      · intro h; exact ⟨⟨[], h⟩, h⟩
    | acct a =>
      have hfun : (fun m => decide (m ∈ childNames (under (.acct a) below))
            && nodeStatus env d m (under m (under (.acct a) below)))
          = verified env d (under (.acct a) below) := by
        funext m
        exact ih (under (.acct a) below) m
      rw [Bool.eq_iff_iff]
      simp only [nodeStatus, verified, Bool.and_eq_true, decide_eq_true_eq]
      rw [ruleOk_iff_Sat _ _ _ (nodup_childNames _) (hwf _), hfun, under_ne_nil]

/-- `eval_eq_spec` for an explicit nesting bound -/
theorem identifyAccountD_iff_spec (env : Env) (hwf : EnvWF env) (d : Nat) (root : Name) (us : List URI) :
    identifyAccountD env d root us = true ↔ SpecAccount env d root us := by
  cases root with
  | key k => simp [identifyAccountD, SpecAccount]
  | acct a =>
    have hfun : (fun m => decide (m ∈ childNames (belowRoot (.acct a) us))
          && nodeStatus env d m (under m (belowRoot (.acct a) us)))
        = verified env d (belowRoot (.acct a) us) := by
      funext m
      exact child_counts_iff env hwf d _ m
    simp only [identifyAccountD, SpecAccount, kids_eq]
    rw [ruleOk_iff_Sat _ _ _ (nodup_childNames _) (hwf _), hfun]

theorem checkMethodPermD_iff_spec (env : Env) (hwf : EnvWF env) (d : Nat) (rule : Option Rule)
    (hr : RuleWF rule) (us : List URI) :
    checkMethodPermD env d rule us = true ↔ SpecMethod env d rule us := by
  have hfun : (fun m => decide (m ∈ childNames us) && nodeStatus env d m (under m us))
      = verified env d us := by
    funext m
    exact child_counts_iff env hwf d _ m
  simp only [checkMethodPermD, SpecMethod, kids_eq]
  rw [ruleOk_iff_Sat _ _ _ (nodup_childNames _) hr, hfun]

/-! ## the nesting bound `fuelFor` is sufficient -/

theorem length_le_maxLen (u : URI) (us : List URI) (h : u ∈ us) : u.length ≤ maxLen us := by
  induction us with
  | nil => simp at h
  | cons v vs ih =>
    simp only [maxLen]
    rcases List.mem_cons.1 h with e | e
    · subst e; omega
    · have := ih e; omega

theorem maxLen_lt (us : List URI) (n : Nat) (hn : 0 < n) (h : ∀ u ∈ us, u.length < n) : maxLen us < n := by
  induction us with
  | nil => simpa [maxLen] using hn
  | cons v vs ih =>
    simp only [maxLen]
    have h1 := h v (List.mem_cons_self)
    have h2 := ih (fun u hu => h u (List.mem_cons_of_mem _ hu))
    omega

theorem maxLen_under_lt (c : Name) (below : List URI) (hc : c ∈ childNames below) :
    maxLen (under c below) < maxLen below := by
  obtain ⟨t, ht⟩ := (mem_childNames c below).1 hc
  have h0 : 0 < maxLen below := by
    have := length_le_maxLen _ _ ht
    simp at this; omega
  apply maxLen_lt _ _ h0
  intro u hu
  have := length_le_maxLen _ _ ((mem_under c u below).1 hu)
  simp at this; omega

theorem maxLen_belowRoot_le (root : Name) (us : List URI) : maxLen (belowRoot root us) ≤ maxLen us := by
  by_cases h0 : 0 < maxLen us
  · have : maxLen (belowRoot root us) < maxLen us := by
      apply maxLen_lt _ _ h0
      intro u hu
      have := length_le_maxLen _ _ ((mem_belowRoot root u us).1 hu).2
      simp at this; omega
    omega
  · have : belowRoot root us = [] := by
      apply List.eq_nil_iff_forall_not_mem.2
      intro u hu
      have := length_le_maxLen _ _ ((mem_belowRoot root u us).1 hu).2
      simp at this; omega
    simp [this, maxLen]

theorem map_congr_mem {α β : Type} (l : List α) (f g : α → β) (h : ∀ x ∈ l, f x = g x) : l.map f = l.map g :=
  List.map_congr_left h

/-- the status of a node does not depend on the bound once it exceeds the longest suffix below it -/
theorem nodeStatus_fuel (env : Env) :
    ∀ (d d' : Nat) (c : Name) (below : List URI), maxLen below < d → maxLen below < d' →
      nodeStatus env d c below = nodeStatus env d' c below := by
  intro d
  induction d with
  | zero => intro d' c below h; omega
  | succ d ih =>
    intro d' c below h h'
    cases d' with
    | zero => omega
    | succ d' =>
      cases c with
      | key k => simp [nodeStatus]
      | acct a =>
        simp only [nodeStatus]
        congr 1
        apply map_congr_mem
        intro x hx
        have := maxLen_under_lt x below hx
        rw [ih d' x (under x below) (by omega) (by omega)]

theorem kids_fuel (env : Env) (d d' : Nat) (below : List URI) (h : maxLen below ≤ d) (h' : maxLen below ≤ d') :
    kids env d below = kids env d' below := by
  simp only [kids_eq]
  apply map_congr_mem
  intro x hx
  have := maxLen_under_lt x below hx
  rw [nodeStatus_fuel env d d' x (under x below) (by omega) (by omega)]

theorem identifyAccount_eq_D (env : Env) (root : Name) (us : List URI) (d : Nat) (h : maxLen us ≤ d) :
    identifyAccount env root us = identifyAccountD env d root us := by
  unfold identifyAccount identifyAccountD fuelFor
  cases root with
  | key k => rfl
  | acct a =>
    have := maxLen_belowRoot_le (.acct a) us
    simp only
    rw [kids_fuel env (maxLen us) d _ (by omega) (by omega)]

theorem checkMethodPerm_eq_D (env : Env) (rule : Option Rule) (us : List URI) (d : Nat) (h : maxLen us ≤ d) :
    checkMethodPerm env rule us = checkMethodPermD env d rule us := by
  unfold checkMethodPerm checkMethodPermD fuelFor
  rw [kids_fuel env (maxLen us) d _ (by omega) (by omega)]

/-! ## properties of the specification -/

theorem memberSum_mono (ms : List (Name × Int)) (S S' : Name → Bool) (hw : ∀ p ∈ ms, 0 ≤ p.2)
    (h : ∀ m, S m = true → S' m = true) : memberSum ms S ≤ memberSum ms S' := by
  induction ms with
  | nil => simp [memberSum]
  | cons p ps ih =>
    obtain ⟨m, w⟩ := p
    have hw0 : 0 ≤ w := hw (m, w) (List.mem_cons_self)
    have ih' := ih (fun q hq => hw q (List.mem_cons_of_mem _ hq))
    simp only [memberSum]
    cases hs : S m with
    | false =>
      cases hs' : S' m with
      | false => simp; exact ih'
      | true => simp; omega
    | true =>
      have := h m hs
      simp [this]; exact ih'

/-- all weights of a rule are non-negative -/
def NonNeg (r : Option Rule) : Prop := ∀ ms theta, r = some (.thr ms theta) → ∀ p ∈ ms, 0 ≤ p.2

def EnvNonNeg (env : Env) : Prop := ∀ n, NonNeg (env n)

theorem Sat_mono (r : Option Rule) (hr : NonNeg r) (S S' : Name → Bool) (h : ∀ m, S m = true → S' m = true) :
    Sat r S → Sat r S' := by
  cases r with
  | none => simp [Sat]
  | some r =>
    cases r with
    | thr ms theta =>
      simp only [Sat]
      intro hs
      have := memberSum_mono ms S S' (hr ms theta rfl) h
      omega
    | sets ss =>
      simp only [Sat]
      rintro ⟨set, h1, h2, h3⟩
      exact ⟨set, h1, h2, fun k hk => h k (h3 k hk)⟩

/-- the names a rule mentions -/
def membersOf : Option Rule → List Name
  | none => []
  | some (.thr ms _) => ms.map Prod.fst
  | some (.sets ss) => ss.flatten

theorem memberSum_congr (ms : List (Name × Int)) (S S' : Name → Bool)
    (h : ∀ m ∈ ms.map Prod.fst, S m = S' m) : memberSum ms S = memberSum ms S' := by
  induction ms with
  | nil => rfl
  | cons p ps ih =>
    obtain ⟨m, w⟩ := p
    simp only [memberSum]
    rw [h m (by simp), ih (fun q hq => h q (by simp [List.mem_map] at hq ⊢; exact Or.inr hq))]

/-- `Sat` looks at `S` only on the names the rule mentions: everybody else contributes nothing -/
theorem Sat_congr (r : Option Rule) (S S' : Name → Bool) (h : ∀ m ∈ membersOf r, S m = S' m) :
    Sat r S ↔ Sat r S' := by
  cases r with
  | none => simp [Sat]
  | some r =>
    cases r with
    | thr ms theta =>
      simp only [Sat]
      rw [memberSum_congr ms S S' h]
    | sets ss =>
      simp only [Sat]
      constructor
      · rintro ⟨set, h1, h2, h3⟩
        refine ⟨set, h1, h2, fun k hk => ?_⟩
        rw [← h k (List.mem_flatten.2 ⟨set, h1, hk⟩)]
        exact h3 k hk
      · rintro ⟨set, h1, h2, h3⟩
        refine ⟨set, h1, h2, fun k hk => ?_⟩
        rw [h k (List.mem_flatten.2 ⟨set, h1, hk⟩)]
        exact h3 k hk

theorem under_subset (c : Name) (ps ps' : List URI) (h : ∀ u, u ∈ ps → u ∈ ps') :
    ∀ t, t ∈ under c ps → t ∈ under c ps' := by
  intro t ht
  exact (mem_under c t ps').2 (h _ ((mem_under c t ps).1 ht))

theorem belowRoot_subset (root : Name) (us us' : List URI) (h : ∀ u, u ∈ us → u ∈ us') :
    ∀ t, t ∈ belowRoot root us → t ∈ belowRoot root us' := by
  intro t ht
  have := (mem_belowRoot root t us).1 ht
  exact (mem_belowRoot root t us').2 ⟨this.1, h _ this.2⟩

/-- more URIs never remove a verified name (non-negative weights) -/
theorem verified_mono (env : Env) (hnn : EnvNonNeg env) :
    ∀ (d : Nat) (ps ps' : List URI), (∀ u, u ∈ ps → u ∈ ps') →
      ∀ c, verified env d ps c = true → verified env d ps' c = true := by
  intro d
  induction d with
  | zero =>
    intro ps ps' h c
    cases c with
    | key k => simp only [verified, decide_eq_true_eq]; exact h _
    | acct a => simp [verified]
  | succ d ih =>
    intro ps ps' h c
    cases c with
    | key k => simp only [verified, decide_eq_true_eq]; exact h _
    | acct a =>
      simp only [verified, Bool.and_eq_true, decide_eq_true_eq]
      rintro ⟨h1, h2⟩
      have hsub := under_subset (.acct a) ps ps' h
      refine ⟨?_, ?_⟩
      · obtain ⟨t, ht⟩ := List.exists_mem_of_ne_nil _ h1
        exact List.ne_nil_of_mem (hsub t ht)
      · exact Sat_mono _ (hnn _) _ _ (ih _ _ hsub) h2

/-- the verified names depend only on the SET of URIs (not on order or repetitions) -/
theorem verified_congr (env : Env) :
    ∀ (d : Nat) (ps ps' : List URI), (∀ u, u ∈ ps ↔ u ∈ ps') → verified env d ps = verified env d ps' := by
  intro d
  induction d with
  | zero =>
    intro ps ps' h
    funext c
    cases c with
    | key k => simp [verified, h]
    | acct a => simp [verified]
  | succ d ih =>
    intro ps ps' h
    funext c
    cases c with
    | key k => simp [verified, h]
    | acct a =>
      have hu : ∀ t, t ∈ under (.acct a) ps ↔ t ∈ under (.acct a) ps' := by
        intro t; rw [mem_under, mem_under]; exact h _
      have hne : under (.acct a) ps ≠ [] ↔ under (.acct a) ps' ≠ [] := by
        constructor
        · intro h1
          obtain ⟨t, ht⟩ := List.exists_mem_of_ne_nil _ h1
          exact List.ne_nil_of_mem ((hu t).1 ht)
        · intro h1
          obtain ⟨t, ht⟩ := List.exists_mem_of_ne_nil _ h1
          exact List.ne_nil_of_mem ((hu t).2 ht)
      simp only [verified]
      rw [ih _ _ hu]
      simp only [hne]

theorem maxLen_le_max_left (a b : Nat) : a ≤ max a b := by omega

theorem maxLen_le_max_right (a b : Nat) : b ≤ max a b := by omega

theorem verified_key (env : Env) (d : Nat) (below : List URI) (k : Nat) :
    verified env d below (.key k) = decide ([Name.key k] ∈ below) := by
  cases d <;> simp [verified]

/-- what `verifyRWSetPermission` must have established for one element of the write set -/
def WriteAuthorised (ch : Chain) (auth : List URI) : Write → Prop
  | .account a => identifyAccount ch.env a auth = true
  | .method c => ∃ o, ch.owner c = some o ∧ identifyAccount ch.env o auth = true
  | .methodBadKey => False
  | .c2a none => False
  | .c2a (some a) => identifyAccount ch.env a auth = true
  | .other => True

theorem verifyWrites_sound (ch : Chain) (auth : List URI) :
    ∀ (ws : List Write) (ver : List Name), (∀ a ∈ ver, identifyAccount ch.env a auth = true) →
      verifyWrites ch auth ws ver = true → ∀ w ∈ ws, WriteAuthorised ch auth w := by
  intro ws
  induction ws with
  | nil => intro ver _ _ w hw; simp at hw
  | cons x xs ih =>
    intro ver hver hacc w hw
    have step : ∀ (a : Name),
        (if a ∈ ver then verifyWrites ch auth xs ver
          else if identifyAccount ch.env a auth then verifyWrites ch auth xs (a :: ver) else false) = true →
        identifyAccount ch.env a auth = true ∧ ∀ w ∈ xs, WriteAuthorised ch auth w := by
      intro a h
      by_cases hin : a ∈ ver
      · simp only [hin, if_true] at h
        exact ⟨hver a hin, ih ver hver h⟩
      · simp only [hin, if_false] at h
        by_cases hid : identifyAccount ch.env a auth = true
        · simp only [hid, if_true] at h
          refine ⟨hid, ih (a :: ver) ?_ h⟩
          intro b hb
          rcases List.mem_cons.1 hb with e | e
          · exact e ▸ hid
          · exact hver b e
        · simp [hid] at h
    rcases List.mem_cons.1 hw with e | e
    · subst e
      cases w with
      | account a => exact (step a (by simpa [verifyWrites] using hacc)).1
      | method c =>
        simp only [verifyWrites] at hacc
        cases ho : ch.owner c with
        | none => simp [ho] at hacc
        | some o =>
          simp only [ho] at hacc
          exact ⟨o, ho, (step o hacc).1⟩
      | methodBadKey => simp [verifyWrites] at hacc
      | c2a a =>
        cases a with
        | none => simp [verifyWrites] at hacc
        | some a => exact (step a (by simpa [verifyWrites] using hacc)).1
      | other => trivial
    · cases x with
      | account a => exact (step a (by simpa [verifyWrites] using hacc)).2 w e
      | method c =>
        simp only [verifyWrites] at hacc
        cases ho : ch.owner c with
        | none => simp [ho] at hacc
        | some o =>
          simp only [ho] at hacc
          exact (step o hacc).2 w e
      | methodBadKey => simp [verifyWrites] at hacc
      | c2a a =>
        cases a with
        | none => simp [verifyWrites] at hacc
        | some a => exact (step a (by simpa [verifyWrites] using hacc)).2 w e
      | other => exact ih ver hver (by simpa [verifyWrites] using hacc) w e

end XV.C11
