import XV.Lemmas.SnapLedger
import XV.Lemmas.WalkSkip
import XV.Lemmas.CrashTree
import XV.Drv.Chain
/-!
The skip list of a walk, as the LEDGER supplies it (repaired `recoverUnconfirmedTx`, `isConfirmedOnCurrentChain`): the
pending transactions whose recorded block (table "C") and the destination are both main-chain blocks, the former not
higher. `ledgerSkip` is literally the filter of the driver's `walkEnv` (tie by `rfl` below), i.e. what the differential
harness compares with the Go code on every walk. Under the ledger invariant of C04 it is COMPLETE: it names every pending
transaction that a block of the chain walked to contains — the hypothesis `SkipsConfirmed` of the walk theorems.
-/
namespace XV.Chain
open XV.Snapshot

/-- the pending transactions the ledger records as confirmed on the chain of `dest` -/
def ledgerSkip (l : XV.Ledger.L) (pool : List Nat) (dest : Nat) : List Nat :=
  pool.filter (fun i =>
    match lookup l.C i, lookup l.B dest with
    | some b, some hd =>
      (match lookup l.B b with
       | some hb => hb.inTrunk && hd.inTrunk && hb.height ≤ hd.height
       | none => false)
    | _, _ => false)

/-- the driver's environment of a walk is the verification environment with `ledgerSkip` of its ledger model -/
theorem walkEnv_eq (d : XV.Drv.Chain.DS) (dest : Nat) :
    XV.Drv.Chain.walkEnv d dest = (XV.Drv.Chain.verifyEnv d).withSkip (ledgerSkip d.l d.s.pool dest) := rfl

/-- **the ledger's skip list is complete**: if the blocks of `chain` are stored as main-chain blocks with the transactions
and heights of the environment (`LedgerMatches`), `dest` is one of them and none is higher, then every pending transaction
that a block of `chain` contains is in `ledgerSkip` — by the ledger invariant `c_trunk`: a transaction of a main-chain block
is recorded with THAT block, whatever side branches hold it too -/
theorem ledgerSkip_complete (l : XV.Ledger.L) (e : Env) (chain : List Nat) (I : XV.Ledger.LedgerInv l)
    (hm : LedgerMatches l e chain) (dest : Nat) (hdest : dest ∈ chain)
    (hh : ∀ b ∈ chain, (e.block b).height ≤ (e.block dest).height) (pool : List Nat) :
    ∀ i ∈ pool, i ∈ chain.flatMap (fun b => (e.block b).txs) → i ∈ ledgerSkip l pool dest := by
  intro i hi hc
  obtain ⟨b, hb, hib⟩ := List.mem_flatMap.mp hc
  obtain ⟨h, hs, ht, htx, hhb⟩ := hm b hb
  obtain ⟨hd, hsd, htd, _, hhd⟩ := hm dest hdest
  have hon := (I.trunk b h hs).1 ht
  have hcb := I.c_trunk b h i hs hon (by rw [htx]; exact hib)
  unfold ledgerSkip
  apply List.mem_filter.mpr
  refine ⟨hi, ?_⟩
  simp only [hcb, hsd, hs, ht, htd, Bool.and_self, Bool.true_and, decide_eq_true_eq]
  rw [hhb, hhd]
  exact hh b hb

/-- the same for the chain of `dest` in a block tree with parent links strictly down in height, as the hypothesis of the
walk theorems: the environment of the walk is `e` with the ledger's list -/
theorem ledgerSkip_skipsConfirmed (l : XV.Ledger.L) (e : Env) (s : St) (dest : Nat) (hpl : ParentLower e)
    (I : XV.Ledger.LedgerInv l) (hm : LedgerMatches l e (ancestors e (e.blocks.length + 1) dest)) :
    ∀ i ∈ s.pool, i ∈ (ancestors e (e.blocks.length + 1) dest).reverse.flatMap (fun b => (e.block b).txs) →
      i ∈ ledgerSkip l s.pool dest := by
  intro i hi hc
  apply ledgerSkip_complete l e _ I hm dest (XV.Crash.ancestors_self_mem e dest)
    (ancestors_height_le e hpl _ dest) s.pool i hi
  obtain ⟨b, hb, hib⟩ := List.mem_flatMap.mp hc
  exact List.mem_flatMap.mpr ⟨b, List.mem_reverse.mp hb, hib⟩

/-- **soundness of the ledger's skip list, as far as the ledger alone tells**: a skipped transaction is recorded in a stored
main-chain block that contains it and is not higher than the destination, itself a main-chain block — so (the main chain
being one path, `LedgerInv.path_unique`) in a block of the chain of `dest` -/
theorem ledgerSkip_sound (l : XV.Ledger.L) (I : XV.Ledger.LedgerInv l) (pool : List Nat) (dest : Nat) :
    ∀ i ∈ ledgerSkip l pool dest, i ∈ pool ∧ ∃ b hb hd, lookup l.C i = some b ∧ lookup l.B b = some hb ∧
      lookup l.B dest = some hd ∧ hb.inTrunk = true ∧ hd.inTrunk = true ∧ hb.height ≤ hd.height ∧ i ∈ hb.txs := by
  intro i hi
  unfold ledgerSkip at hi
  obtain ⟨hp, hf⟩ := List.mem_filter.mp hi
  refine ⟨hp, ?_⟩
  cases hc : lookup l.C i with
  | none => simp [hc] at hf
  | some b =>
    cases hd : lookup l.B dest with
    | none => simp [hc, hd] at hf
    | some hdd =>
      cases hb : lookup l.B b with
      | none => simp [hc, hd, hb] at hf
      | some hbb =>
        simp only [hc, hd, hb, Bool.and_eq_true, decide_eq_true_eq] at hf
        exact ⟨b, hbb, hdd, rfl, hb, rfl, hf.1.1, hf.1.2, hf.2, I.c_sound i b hbb hc hb⟩

end XV.Chain
