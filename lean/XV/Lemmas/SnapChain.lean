import XV.Lemmas.SnapVChain
/-!
Snapshots on a replayed chain of blocks, and after a walk (reorganisation).

`confOf e chain` is the ledger's transaction → block height table restricted to a chain of blocks: the height of the
block of `chain` that contains the transaction. `snapshot_chain_core`: on the replay of `l1 ++ l2` from a base state
without keys, with any run of pending transactions on top, the snapshot at a height separating `l1` from `l2`
reads every key as the replay of `l1` alone does — for every split of the chain, i.e. for every block up to the tip.
-/
namespace XV.Snapshot
open XV.Chain

/-- height of the block of `chain` that contains transaction `i` -/
def confOf (e : Env) (chain : List Nat) (i : Nat) : Option Nat :=
  (chain.find? (fun bi => (e.block bi).txs.contains i)).map (fun bi => (e.block bi).height)

/-- no transaction sits in two blocks of the chain (the ledger refuses a block with a transaction it already
holds on the same branch) -/
def TxOnce (e : Env) (chain : List Nat) : Prop :=
  ∀ b1 ∈ chain, ∀ b2 ∈ chain, ∀ i ∈ (e.block b1).txs, i ∈ (e.block b2).txs → b1 = b2

instance (e : Env) (chain : List Nat) : Decidable (TxOnce e chain) := by unfold TxOnce; exact inferInstance

theorem confOf_eq (e : Env) (chain : List Nat) (h : TxOnce e chain) (b : Nat) (hb : b ∈ chain) (i : Nat)
    (hi : i ∈ (e.block b).txs) : confOf e chain i = some (e.block b).height := by
  unfold confOf
  cases hf : chain.find? (fun bi => (e.block bi).txs.contains i) with
  | none =>
    have := List.find?_eq_none.mp hf b hb
    simp [hi] at this
  | some x =>
    have hx : x ∈ chain := List.mem_of_find?_eq_some hf
    have hxi : i ∈ (e.block x).txs := by simpa using List.find?_some hf
    rw [h x hx b hb i hxi hi]
    rfl

theorem confOf_none (e : Env) (chain : List Nat) (i : Nat) (h : i ∉ chainTxs e chain) : confOf e chain i = none := by
  unfold confOf
  cases hf : chain.find? (fun bi => (e.block bi).txs.contains i) with
  | none => rfl
  | some x =>
    exfalso
    apply h
    have hx : x ∈ chain := List.mem_of_find?_eq_some hf
    have hxi : i ∈ (e.block x).txs := by simpa using List.find?_some hf
    exact (mem_chainTxs e chain i).mpr ⟨x, hx, hxi⟩

/-- **the snapshot at any block of a replayed chain.** `g`: a base state without keys; the chain `l1 ++ l2` (block
ids, oldest first) replays as a run of admitted transactions; `confH` confirms every writer of `key` in `l1` at or
below `hB` and every writer of `key` in `l2` above `hB`; on top, ANY run `pend` of pending transactions (a writer of the
key confirmed in `l1` cannot be among them: `writer_once`). Then the snapshot at `hB` on any state `S` showing that
view, with that pool, reads `key` as the replay of `l1` alone does. -/
theorem snapshot_chain_writers (e : Env) (hids : EnvIds e) (g : St) (l1 l2 : List Nat) (confH : Nat → Option Nat)
    (hB : Nat) (pend : List Nat) (S : St) (key : String)
    (hg : ∀ key, curVer g key = none)
    (hvalid : RunV e (chainTxs e (l1 ++ l2)) (curVer g))
    (hlowH : ∀ i ∈ chainTxs e l1, writesKey e key i = true → ∃ bh, confH i = some bh ∧ bh ≤ hB)
    (hhighH : ∀ i ∈ chainTxs e l2, writesKey e key i = true → ∃ bh, confH i = some bh ∧ hB < bh)
    (hpool : S.pool = pend)
    (hrun : RunV e pend (curVer (replayChain e (l1 ++ l2) g)))
    (hview : curVer S = runV e pend (curVer (replayChain e (l1 ++ l2) g)))
    (fuel : Nat) (hfuel : nWrites e (chainTxs e l2 ++ pend) key + 1 ≤ fuel) :
    snapshotGet e S confH hB key fuel = curVer (replayChain e l1 g) key := by
  have hall : RunV e (chainTxs e l1 ++ (chainTxs e l2 ++ pend)) (curVer g) := by
    rw [← List.append_assoc, ← chainTxs_append]
    refine (RunV_append e _ _ _).mpr ⟨hvalid, ?_⟩
    rw [← replayChain_view]
    exact hrun
  rw [chainTxs_append, RunV_append] at hvalid
  obtain ⟨v1, v2⟩ := hvalid
  have hsplit : curVer (replayChain e (l1 ++ l2) g) = runV e (chainTxs e l2) (curVer (replayChain e l1 g)) := by
    rw [replayChain_view, chainTxs_append, runV_append, ← replayChain_view]
  rw [← replayChain_view] at v2
  rw [hsplit] at hrun hview
  unfold snapshotGet
  rw [hview, ← runV_append, hpool]
  apply walkBack_run e hids pend confH hB key (curVer (replayChain e l1 g)) (chainTxs e l2 ++ pend) _
    ((RunV_append e _ _ _).mpr ⟨v2, hrun⟩) _ fuel hfuel
  · intro v hv
    rw [replayChain_view] at hv
    rcases runV_origin e hids _ _ key v hv with h0 | ⟨h1, hw⟩
    · rw [hg key] at h0; cases h0
    · refine ⟨fun hm => ?_, hlowH _ h1 hw⟩
      have h0 : Links e key (curVer g key) [] := by rw [hg key]; exact Links.nil
      exact writer_once_split e hids key (curVer g) [] h0 _ _ v.1 hall hw h1 (List.mem_append_right _ hm)
  · intro i hi hw
    rcases List.mem_append.mp hi with hi | hi
    · exact Or.inr (hhighH i hi hw)
    · exact Or.inl hi

/-- the same with a height table that gives every transaction of the chain the height of its block -/
theorem snapshot_chain_core (e : Env) (hids : EnvIds e) (g : St) (l1 l2 : List Nat) (confH : Nat → Option Nat)
    (hB : Nat) (pend : List Nat) (S : St)
    (hg : ∀ key, curVer g key = none)
    (hvalid : RunV e (chainTxs e (l1 ++ l2)) (curVer g))
    (hconfH : ∀ b ∈ l1 ++ l2, ∀ i ∈ (e.block b).txs, confH i = some (e.block b).height)
    (hlow : ∀ b ∈ l1, (e.block b).height ≤ hB) (hhigh : ∀ b ∈ l2, hB < (e.block b).height)
    (hpool : S.pool = pend)
    (hrun : RunV e pend (curVer (replayChain e (l1 ++ l2) g)))
    (hview : curVer S = runV e pend (curVer (replayChain e (l1 ++ l2) g)))
    (key : String) (fuel : Nat) (hfuel : nWrites e (chainTxs e l2 ++ pend) key + 1 ≤ fuel) :
    snapshotGet e S confH hB key fuel = curVer (replayChain e l1 g) key := by
  apply snapshot_chain_writers e hids g l1 l2 confH hB pend S key hg hvalid _ _ hpool hrun hview fuel hfuel
  · intro i hi _
    obtain ⟨b, hb, hib⟩ := (mem_chainTxs e l1 i).mp hi
    exact ⟨_, hconfH b (List.mem_append_left _ hb) _ hib, hlow b hb⟩
  · intro i hi _
    obtain ⟨b, hb, hib⟩ := (mem_chainTxs e l2 i).mp hi
    exact ⟨_, hconfH b (List.mem_append_right _ hb) _ hib, hhigh b hb⟩

/-- a transaction of `l1` is confirmed by `confOf (l1 ++ l2)` in a block of `l1` -/
theorem confOf_low (e : Env) (l1 l2 : List Nat) (hB : Nat) (hlow : ∀ b ∈ l1, (e.block b).height ≤ hB) (i : Nat)
    (hi : i ∈ chainTxs e l1) : ∃ bh, confOf e (l1 ++ l2) i = some bh ∧ bh ≤ hB := by
  obtain ⟨b, hb, hib⟩ := (mem_chainTxs e l1 i).mp hi
  unfold confOf
  rw [List.find?_append]
  cases hf : l1.find? (fun bi => (e.block bi).txs.contains i) with
  | none =>
    have := List.find?_eq_none.mp hf b hb
    simp [hib] at this
  | some x => exact ⟨_, rfl, hlow x (List.mem_of_find?_eq_some hf)⟩

/-- a transaction of `l2` that is not in `l1` is confirmed by `confOf (l1 ++ l2)` in a block of `l2` -/
theorem confOf_high (e : Env) (l1 l2 : List Nat) (hB : Nat) (hhigh : ∀ b ∈ l2, hB < (e.block b).height) (i : Nat)
    (hn : i ∉ chainTxs e l1) (hi : i ∈ chainTxs e l2) : ∃ bh, confOf e (l1 ++ l2) i = some bh ∧ hB < bh := by
  obtain ⟨b, hb, hib⟩ := (mem_chainTxs e l2 i).mp hi
  unfold confOf
  rw [List.find?_append]
  cases hf1 : l1.find? (fun bi => (e.block bi).txs.contains i) with
  | some x =>
    exfalso; apply hn
    exact (mem_chainTxs e l1 i).mpr ⟨x, List.mem_of_find?_eq_some hf1, by simpa using List.find?_some hf1⟩
  | none =>
    cases hf : l2.find? (fun bi => (e.block bi).txs.contains i) with
    | none =>
      have := List.find?_eq_none.mp hf b hb
      simp [hib] at this
    | some x => exact ⟨_, rfl, hhigh x (List.mem_of_find?_eq_some hf)⟩

/-- **for every block up to the tip, with the ledger's own height table `confOf` of the chain** — nothing is assumed
about repeated transactions or about what is pending: a writer of the key sits only once in the whole history -/
theorem snapshot_chain_confOf (e : Env) (hids : EnvIds e) (g : St) (l1 l2 : List Nat) (hB : Nat) (pend : List Nat)
    (S : St) (key : String)
    (hg : ∀ key, curVer g key = none)
    (hvalid : RunV e (chainTxs e (l1 ++ l2)) (curVer g))
    (hlow : ∀ b ∈ l1, (e.block b).height ≤ hB) (hhigh : ∀ b ∈ l2, hB < (e.block b).height)
    (hpool : S.pool = pend)
    (hrun : RunV e pend (curVer (replayChain e (l1 ++ l2) g)))
    (hview : curVer S = runV e pend (curVer (replayChain e (l1 ++ l2) g)))
    (fuel : Nat) (hfuel : nWrites e (chainTxs e l2 ++ pend) key + 1 ≤ fuel) :
    snapshotGet e S (confOf e (l1 ++ l2)) hB key fuel = curVer (replayChain e l1 g) key := by
  apply snapshot_chain_writers e hids g l1 l2 _ hB pend S key hg hvalid _ _ hpool hrun hview fuel hfuel
  · intro i hi _
    exact confOf_low e l1 l2 hB hlow i hi
  · intro i hi hw
    apply confOf_high e l1 l2 hB hhigh i _ hi
    intro h1
    have h0 : Links e key (curVer g key) [] := by rw [hg key]; exact Links.nil
    rw [chainTxs_append] at hvalid
    exact writer_once_split e hids key (curVer g) [] h0 _ _ i hvalid hw h1 hi

/-- `confOf` on a chain without repeated transactions gives every transaction the height of its block -/
theorem confOf_chain (e : Env) (chain chain' : List Nat) (h : TxOnce e chain) (hperm : ∀ b, b ∈ chain' → b ∈ chain) :
    ∀ b ∈ chain', ∀ i ∈ (e.block b).txs, confOf e chain i = some (e.block b).height :=
  fun b hb i hi => confOf_eq e chain h b (hperm b hb) i hi

/-- a chain whose blocks are all at or below `hB` confirms nothing above `hB` -/
theorem confOf_le (e : Env) (chain : List Nat) (hB : Nat) (h : ∀ b ∈ chain, (e.block b).height ≤ hB) (i bh : Nat)
    (hi : confOf e chain i = some bh) : bh ≤ hB := by
  unfold confOf at hi
  cases hf : chain.find? (fun bi => (e.block bi).txs.contains i) with
  | none => rw [hf] at hi; cases hi
  | some x =>
    rw [hf] at hi
    simp only [Option.map_some, Option.some.injEq] at hi
    rw [← hi]
    exact h x (List.mem_of_find?_eq_some hf)

/-- the height table of a chain extends that of every prefix -/
theorem confOf_prefix (e : Env) (l1 l2 : List Nat) (i bh : Nat) (h : confOf e l1 i = some bh) :
    confOf e (l1 ++ l2) i = some bh := by
  unfold confOf at h ⊢
  rw [List.find?_append]
  cases hf : l1.find? (fun bi => (e.block bi).txs.contains i) with
  | none => rw [hf] at h; cases h
  | some x => rw [hf] at h; exact h

-- ------------------------------------------------------------------ the invariant along a chain

theorem confOf_snoc (e : Env) (l : List Nat) (b : Nat) (h : TxOnce e (l ++ [b])) (_hb : b ∉ l) :
    confOf e (l ++ [b]) = fun j => if j ∈ (e.block b).txs then some (e.block b).height else confOf e l j := by
  funext j
  by_cases hj : j ∈ (e.block b).txs
  · simp only [hj, ↓reduceIte]
    exact confOf_eq e _ h b (by simp) j hj
  · simp only [hj, ↓reduceIte]
    unfold confOf
    rw [List.find?_append]
    cases hf : l.find? (fun bi => (e.block bi).txs.contains j) with
    | some x => rfl
    | none => simp [hj]

/-- **the version-chain invariant holds on every replayed chain** from a base state without keys: blocks with strictly
increasing heights, no transaction twice (in a block or on the chain), every block a run of admitted transactions;
`confOf` of the chain is the height table -/
theorem vchain_replayChain (e : Env) (hids : EnvIds e) (g : St) (hg : ∀ key, curVer g key = none) (hgp : g.pool = [])
    (lr : List Nat) :
    RunV e (chainTxs e lr.reverse) (curVer g) → TxOnce e lr.reverse →
    (∀ b ∈ lr, (e.block b).txs.Nodup) →
    lr.Pairwise (fun x y => (e.block y).height < (e.block x).height) →
    VChain e (replayChain e lr.reverse g) (confOf e lr.reverse) ∧
      ∀ i bh, confOf e lr.reverse i = some bh → ∀ b ∈ lr.head?, bh ≤ (e.block b).height := by
  induction lr with
  | nil =>
    intro _ _ _ _
    refine ⟨?_, fun i bh h => by simp [confOf] at h⟩
    have : curVer g = fun _ => none := funext hg
    show VChainV e (curVer g) g.pool _
    rw [this]
    exact vchainV_empty e _ _
  | cons b rest ih =>
    intro hrun honce htx hpw
    rw [List.reverse_cons] at hrun honce ⊢
    obtain ⟨hpb, hpw'⟩ := List.pairwise_cons.mp hpw
    have hnb : b ∉ rest := fun hm => by have := hpb b hm; omega
    rw [chainTxs_append, RunV_append] at hrun
    obtain ⟨r1, r2⟩ := hrun
    have honce' : TxOnce e rest.reverse :=
      fun b1 h1 b2 h2 i hi1 hi2 => honce b1 (List.mem_append_left _ h1) b2 (List.mem_append_left _ h2) i hi1 hi2
    obtain ⟨i1, i2⟩ := ih r1 honce' (fun x hx => htx x (List.mem_cons_of_mem _ hx)) hpw'
    have hb' : b ∉ rest.reverse := fun h => hnb (List.mem_reverse.mp h)
    rw [confOf_snoc e rest.reverse b honce hb']
    have hfresh : ∀ i ∈ (e.block b).txs, confOf e rest.reverse i = none := by
      intro i hi
      apply confOf_none
      intro hm
      obtain ⟨x, hx, hix⟩ := (mem_chainTxs e _ i).mp hm
      have := honce x (List.mem_append_left _ hx) b (by simp) i hix hi
      exact hb' (this ▸ hx)
    have htop : ∀ j bh, confOf e rest.reverse j = some bh → bh ≤ (e.block b).height := by
      intro j bh hj
      cases hr : rest with
      | nil => rw [hr] at hj; simp [confOf] at hj
      | cons x r' =>
        have h1 := i2 j bh hj x (by rw [hr]; simp)
        have h2 := hpb x (by rw [hr]; simp)
        omega
    constructor
    · have hv : curVer (replayChain e (rest.reverse ++ [b]) g) =
          runV e (chainTxs e [b]) (curVer (replayChain e rest.reverse g)) := by
        rw [replayChain_view, chainTxs_append, runV_append, ← replayChain_view]
      have hp : (replayChain e (rest.reverse ++ [b]) g).pool = [] := by
        rw [XV.C01.replayChain_pool, hgp]
      have hp' : (replayChain e rest.reverse g).pool = [] := by
        rw [XV.C01.replayChain_pool, hgp]
      unfold VChain at i1 ⊢
      rw [hv, hp]
      rw [hp'] at i1
      rw [← replayChain_view] at r2
      have hone : chainTxs e [b] = (e.block b).txs := by simp [chainTxs]
      rw [hone] at r2 ⊢
      exact vchainV_run_conf e hids (e.block b).height (e.block b).txs _ _ i1 r2 (htx b List.mem_cons_self) hfresh htop
    · intro i bh hi x hx
      simp only [List.head?_cons, Option.mem_def, Option.some.injEq] at hx
      subst hx
      by_cases hj : i ∈ (e.block b).txs
      · simp only [hj, ↓reduceIte, Option.some.injEq] at hi; omega
      · simp only [hj, ↓reduceIte] at hi; exact htop i bh hi

end XV.Snapshot
