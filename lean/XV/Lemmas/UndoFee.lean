import XV.Lemmas.UndoObs
/-!
Fee rows: `payFee` writes one row (t.id, offset) per output to the placeholder "$", `undoPayFee` deletes the same
rows. Row-by-row characterisation and the cancellation `undoPayFee ∘ payFee`.
-/
namespace XV.Chain

/-- `k` is the row of a fee output of `t` (outputs `outs`, numbered from `off`) -/
def isFeeKey (t : Tx) (outs : List Out) (off : Nat) (k : Ver) : Prop :=
  ∃ i o, outs[i]? = some o ∧ (o.addr == "$") = true ∧ k = (t.id, off + i)

theorem isFeeKey_tail (t : Tx) (o : Out) (rest : List Out) (off : Nat) (k : Ver)
    (h : isFeeKey t rest (off + 1) k) : isFeeKey t (o :: rest) off k := by
  obtain ⟨i, x, h1, h2, h3⟩ := h
  exact ⟨i + 1, x, by simpa using h1, h2, by rw [h3]; congr 1; omega⟩

theorem isFeeKey_head (t : Tx) (o : Out) (rest : List Out) (off : Nat) (h : (o.addr == "$") = true) :
    isFeeKey t (o :: rest) off (t.id, off) :=
  ⟨0, o, by simp, h, rfl⟩

theorem isFeeKey_cons (t : Tx) (o : Out) (rest : List Out) (off : Nat) (k : Ver)
    (h : isFeeKey t (o :: rest) off k) :
    ((o.addr == "$") = true ∧ k = (t.id, off)) ∨ isFeeKey t rest (off + 1) k := by
  obtain ⟨i, x, h1, h2, h3⟩ := h
  cases i with
  | zero =>
    simp only [List.getElem?_cons_zero, Option.some.injEq] at h1
    subst h1
    left; exact ⟨h2, by simpa using h3⟩
  | succ j =>
    right
    exact ⟨j, x, by simpa using h1, h2, by rw [h3]; congr 1; omega⟩

theorem isFeeKey_id (t : Tx) (outs : List Out) (off : Nat) (k : Ver) (h : isFeeKey t outs off k) : k.1 = t.id := by
  obtain ⟨_, _, _, _, h3⟩ := h
  rw [h3]

theorem payFee_nofee (t : Tx) (prop : String) (outs : List Out) (off : Nat) (s : St) (k : Ver)
    (h : ¬ isFeeKey t outs off k) : lookup (payFee t prop outs off s).U k = lookup s.U k := by
  induction outs generalizing off s with
  | nil => rfl
  | cons o rest ih =>
    rw [payFee_cons, ih (off + 1) _ (fun hh => h (isFeeKey_tail t o rest off k hh))]
    unfold feeStep
    split
    · rename_i hf
      have : ¬ (t.id, off) = k := fun e => h (e ▸ isFeeKey_head t o rest off hf)
      simp only [lookup_put, this, ↓reduceIte]
    · rfl

theorem undoPayFee_nofee (t : Tx) (outs : List Out) (off : Nat) (s : St) (k : Ver)
    (h : ¬ isFeeKey t outs off k) : lookup (undoPayFee t outs off s).U k = lookup s.U k := by
  induction outs generalizing off s with
  | nil => rfl
  | cons o rest ih =>
    rw [undoPayFee_cons, ih (off + 1) _ (fun hh => h (isFeeKey_tail t o rest off k hh))]
    unfold undoFeeStep
    split
    · rename_i hf
      have : ¬ (t.id, off) = k := fun e => h (e ▸ isFeeKey_head t o rest off hf)
      simp only [lookup_del, this, ↓reduceIte]
    · rfl

theorem undoPayFee_none (t : Tx) (outs : List Out) (off : Nat) (s : St) (k : Ver) (h : lookup s.U k = none) :
    lookup (undoPayFee t outs off s).U k = none := by
  induction outs generalizing off s with
  | nil => exact h
  | cons o rest ih =>
    rw [undoPayFee_cons]
    apply ih
    unfold undoFeeStep
    split
    · simp only [lookup_del, h, ite_self]
    · exact h

/-- a fee row is gone after `undoPayFee`, whatever the state -/
theorem undoPayFee_fee (t : Tx) (outs : List Out) (off : Nat) (s : St) (k : Ver)
    (h : isFeeKey t outs off k) : lookup (undoPayFee t outs off s).U k = none := by
  induction outs generalizing off s with
  | nil => obtain ⟨i, o, h1, _⟩ := h; simp at h1
  | cons o rest ih =>
    rw [undoPayFee_cons]
    rcases isFeeKey_cons t o rest off k h with ⟨hf, hk⟩ | hr
    · apply undoPayFee_none
      unfold undoFeeStep
      simp only [hf, ↓reduceIte, hk, lookup_del_same]
    · exact ih (off + 1) _ hr

/-- a fee row holds the fee, owned by the proposer, after `payFee` (offsets are distinct: later rows do not
overwrite it) -/
theorem payFee_fee (t : Tx) (prop : String) (outs : List Out) (off : Nat) (s : St) (i : Nat) (o : Out)
    (hi : outs[i]? = some o) (hf : (o.addr == "$") = true) :
    lookup (payFee t prop outs off s).U (t.id, off + i) = some ⟨prop, o.amt, 0⟩ := by
  induction outs generalizing off s i with
  | nil => simp at hi
  | cons o0 rest ih =>
    rw [payFee_cons]
    cases i with
    | zero =>
      simp only [List.getElem?_cons_zero, Option.some.injEq] at hi
      subst hi
      rw [payFee_nofee]
      · unfold feeStep
        simp only [hf, ↓reduceIte, Nat.add_zero, lookup_put_same]
      · rintro ⟨j, x, _, _, h3⟩
        simp only [Nat.add_zero, Prod.mk.injEq, true_and] at h3
        omega
    | succ j =>
      simp only [List.getElem?_cons_succ] at hi
      have := ih (off + 1) (feeStep t prop o0 off s) j hi
      have ho : off + 1 + j = off + (j + 1) := by omega
      rw [ho] at this; exact this

/-- **`undoPayFee` after `payFee` restores every row of the UTXO table**, provided the fee rows (t.id, offset of a
"$" output) were absent before (they are: transaction ids are fresh and a "$" output never materialises) -/
theorem undoPayFee_payFee' (t : Tx) (prop : String) (outs : List Out) (off : Nat) (s : St)
    (habs : ∀ i o, outs[i]? = some o → (o.addr == "$") = true → lookup s.U (t.id, off + i) = none) (k : Ver) :
    lookup (undoPayFee t outs off (payFee t prop outs off s)).U k = lookup s.U k := by
  by_cases hk : isFeeKey t outs off k
  · rw [undoPayFee_fee t outs off _ k hk]
    obtain ⟨i, o, h1, h2, h3⟩ := hk
    rw [h3, habs i o h1 h2]
  · rw [undoPayFee_nofee t outs off _ k hk, payFee_nofee t prop outs off s k hk]

end XV.Chain
