import XV.Lemmas.Sandbox
import XV.Lemmas.SandboxXfer
import XV.Model.Contract
/-! helper lemmas for `Props/C09.lean`: bucket frame of the sandbox calls, invariants of `exec`,
the simulation behind re-execution, the committed state -/
namespace XV.Contract
open XV.Sandbox

/-! ### a sandbox call on bucket `b` leaves the read set of every other bucket alone -/

def Only (b : Bucket) (s s' : State) : Prop := ∀ b', b' ≠ b → s'.inputs b' = s.inputs b'

theorem Only.refl (b : Bucket) (s : State) : Only b s s := fun _ _ => rfl

theorem Only.trans {b : Bucket} {s1 s2 s3 : State} (h12 : Only b s1 s2) (h23 : Only b s2 s3) : Only b s1 s3 :=
  fun b' hb => (h23 b' hb).trans (h12 b' hb)

theorem get_only (r : Reader) (s : State) (b : Bucket) (k : Key) : Only b s (Sandbox.get r s b k).1 := by
  intro b' hb
  unfold Sandbox.get
  cases s.outputs.get b k with
  | some d => by_cases h : d.isDel <;> simp [h]
  | none =>
    cases s.inputs.get b k with
    | some d => rfl
    | none =>
      cases r.get b k with
      | none => rfl
      | some d => exact Store.put_other_bucket _ _ _ _ _ hb

theorem put_only (r : Reader) (s : State) (b : Bucket) (k : Key) (v : Nat) : Only b s (Sandbox.put r s b k v) := by
  intro b' hb
  rw [put_inputs_eq_get]
  by_cases h : b = transient
  · simp [h]
  · simp only [h, if_false]; exact get_only r s b k b' hb

theorem backNext_only (c : Cfg) (r : Reader) (b : Bucket) :
    ∀ (l : KV) (s : State), Only b s (backNext c r b s l).1 := by
  intro l
  induction l with
  | nil => intro s; exact Only.refl b s
  | cons e rest ih =>
    intro s
    unfold backNext
    simp only
    split
    · exact (get_only r s b e.1).trans (ih _)
    · exact get_only r s b e.1

theorem innerNext_only (c : Cfg) (r : Reader) (b : Bucket) (s : State) (sc : Scan) :
    Only b s (innerNext c r b s sc).1 := by
  unfold innerNext
  generalize pick sc.fi.head? sc.bp = pk
  obtain ⟨y, af, ab⟩ := pk
  simp only
  split
  · have h := backNext_only c r b sc.br s
    generalize backNext c r b s sc.br = res at h
    obtain ⟨s', bp', br'⟩ := res
    exact h
  · exact Only.refl b s

theorem outerNext_only (c : Cfg) (r : Reader) (b : Bucket) (s : State) (sc : Scan) :
    Only b s (outerNext c r b s sc).1 := by
  unfold outerNext
  generalize pick sc.o.head? sc.ip = pk
  obtain ⟨y, af, ab⟩ := pk
  simp only
  split
  · have h := innerNext_only c r b s sc
    generalize innerNext c r b s sc = res at h
    obtain ⟨s', sc', ip'⟩ := res
    exact h
  · exact Only.refl b s

theorem scanNext_only (c : Cfg) (r : Reader) (b : Bucket) :
    ∀ (fuel : Nat) (s : State) (sc : Scan), Only b s (scanNext c r b fuel s sc).1 := by
  intro fuel
  induction fuel with
  | zero => intro s sc; exact Only.refl b s
  | succ n ih =>
    intro s sc
    unfold scanNext
    have h := outerNext_only c r b s sc
    generalize outerNext c r b s sc = res at h
    obtain ⟨s', sc', y⟩ := res
    cases y with
    | none => exact h
    | some e =>
      simp only
      split
      · exact h.trans (ih s' sc')
      · exact h

theorem scanTake_only (c : Cfg) (r : Reader) (b : Bucket) :
    ∀ (n : Nat) (s : State) (sc : Scan), Only b s (scanTake c r b n s sc).1 := by
  intro n
  induction n with
  | zero => intro s sc; exact Only.refl b s
  | succ n ih =>
    intro s sc
    unfold scanTake
    have h := scanNext_only c r b (sc.size + 1) s sc
    generalize scanNext c r b (sc.size + 1) s sc = res at h
    obtain ⟨s', sc', y⟩ := res
    cases y with
    | none => exact h
    | some e =>
      simp only
      have h2 := ih s' sc'
      generalize scanTake c r b n s' sc' = res2 at h2
      obtain ⟨s'', l⟩ := res2
      exact h.trans h2

theorem openScan_only (c : Cfg) (r : Reader) (s : State) (b : Bucket) (lo : Nat) (hi : Option Nat) :
    Only b s (openScan c r s b lo hi).1 := by
  unfold openScan
  simp only
  have h := backNext_only c r b (rangeOf (r.sel b) lo hi) s
  generalize backNext c r b s (rangeOf (r.sel b) lo hi) = res at h
  obtain ⟨s1, bp, br⟩ := res
  simp only
  have h2 := innerNext_only c r b s1
    { o := rangeOf (s.outputs b) lo hi, fi := (rangeOf (s.inputs b) lo hi).filter (fun e => !c.inner e.2),
      bp := bp, br := br, ip := none }
  generalize innerNext c r b s1 _ = res2 at h2
  obtain ⟨s2, sc, ip⟩ := res2
  exact h.trans h2

theorem select_only (c : Cfg) (r : Reader) (s : State) (b : Bucket) (lo : Nat) (hi : Option Nat) (n : Nat) :
    Only b s (select c r s b lo hi n).1 := by
  unfold select
  split
  · exact Only.refl b s
  · have h := openScan_only c r s b lo hi
    generalize openScan c r s b lo hi = res at h
    obtain ⟨s1, sc⟩ := res
    simp only
    have h2 := scanTake_only c r b n s1 sc
    generalize scanTake c r b n s1 sc = res2 at h2
    obtain ⟨s2, l⟩ := res2
    exact h.trans h2

theorem stepOp_only (r : Reader) (s : State) (o : Op) : Only (opBucket o) s (stepOp fixed r s o).1 := by
  cases o with
  | get b k => exact get_only r s b k
  | put b k v => exact put_only r s b k v
  | del b k => exact put_only r s b k 0
  | sel b lo hi n => exact select_only fixed r s b lo hi n

/-! ### written keys have been looked up -/

/-- outside the transient bucket every key of the write set is in the read set -/
def WR (s : State) : Prop := ∀ b k, b ≠ transient → s.outputs.get b k ≠ none → s.inputs.get b k ≠ none

theorem WR.init : WR State.init := by
  intro b k _ h
  simp [State.init, Store.empty, Store.get, find] at h

theorem step_wr {r : Reader} (hr : r.WF) (htotal : ∀ b k, r.get b k ≠ none) {s : State} (hi : Inv r s)
    (h : WR s) (op : Op) : WR (stepOp fixed r s op).1 := by
  intro b k hb hw1
  have keep : s.inputs.get b k ≠ none → (stepOp fixed r s op).1.inputs.get b k ≠ none := by
    intro h1
    cases hd : s.inputs.get b k with
    | none => exact absurd hd h1
    | some d => rw [step_mono fixed hr hi op b k d hd]; simp
  rw [step_outputs fixed hr hi op b k] at hw1
  cases hwo : writeOf b k op with
  | none => rw [hwo] at hw1; exact keep (h b k hb hw1)
  | some v =>
    have hput : ∀ v', (Sandbox.put r s b k v').inputs.get b k ≠ none := by
      intro v'
      rw [put_inputs_eq_get]
      simp only [hb, if_false]
      rcases get_records r s b k with g | g | g
      · exact g
      · have g' := h b k hb g
        cases hd : s.inputs.get b k with
        | none => exact absurd hd g'
        | some d => rw [(get_reach r s b k).mono b k d hd]; simp
      · exact absurd g (htotal b k)
    cases op with
    | get b' k' => simp [writeOf] at hwo
    | sel b' lo hiB n => simp [writeOf] at hwo
    | put b' k' v' =>
      simp only [writeOf] at hwo
      by_cases hbk : b' = b ∧ k' = k
      · obtain ⟨rfl, rfl⟩ := hbk; exact hput v'
      · simp [hbk] at hwo
    | del b' k' =>
      simp only [writeOf] at hwo
      by_cases hbk : b' = b ∧ k' = k
      · obtain ⟨rfl, rfl⟩ := hbk; exact hput 0
      · simp [hbk] at hwo

/-! ### `exec` -/

theorem exec_zero (bks : List Bucket) (r : Reader) (R : UReader σ) (p : Prog) (x : Ctx σ) :
    exec bks r R p 0 x = (x, .error) := rfl

theorem exec_none {bks : List Bucket} {r : Reader} {R : UReader σ} {p : Prog} {x : Ctx σ} (fuel : Nat)
    (h : p x.m.res = none) : exec bks r R p (fuel + 1) x = (x, .ok) := by
  simp [exec, h]

theorem exec_fail {bks : List Bucket} {r : Reader} {R : UReader σ} {p : Prog} {x : Ctx σ} (fuel : Nat)
    (h : p x.m.res = some .fail) : exec bks r R p (fuel + 1) x = (x, .failed) := by
  simp [exec, h]

theorem exec_err {bks : List Bucket} {r : Reader} {R : UReader σ} {p : Prog} {x : Ctx σ} (fuel : Nat)
    (h : p x.m.res = some .err) : exec bks r R p (fuel + 1) x = (x, .error) := by
  simp [exec, h]

theorem exec_act {bks : List Bucket} {r : Reader} {R : UReader σ} {p : Prog} {x : Ctx σ} (fuel : Nat) {a : Act}
    (h : p x.m.res = some a) (h1 : a ≠ .fail) (h2 : a ≠ .err) :
    exec bks r R p (fuel + 1) x =
      match act bks r R x a with
      | none => (x, .error)
      | some x' => exec bks r R p fuel x' := by
  cases a with
  | fail => exact absurd rfl h1
  | err => exact absurd rfl h2
  | op o => simp [exec, h]; rfl
  | transfer a to amt => simp [exec, h]; rfl
  | event e => simp [exec, h]; rfl
  | burn n => simp [exec, h]; rfl
  | subuse n => simp [exec, h]; rfl

/-- the two ways a transfer action can go: the call errors, or the reader hands out inputs `l` worth `t`
and the inputs, the payment and (iff `amt < t`) the change are recorded -/
theorem act_transfer_cases (bks : List Bucket) (r : Reader) (R : UReader σ) (x : Ctx σ) (a to amt : Nat) :
    act bks r R x (.transfer a to amt) = none ∨
    (0 < amt ∧ ∃ l t st', R.select x.tok.rd a amt = (some (l, t), st') ∧
      act bks r R x (.transfer a to amt) =
        some ⟨x.sb, x.m.push .done,
          ⟨st', x.tok.uin ++ l, x.tok.uout ++ [⟨to, amt⟩] ++ (if amt < t then [⟨a, t - amt⟩] else [])⟩⟩) := by
  simp only [act, transfer]
  by_cases h0 : amt = 0
  · left; simp [h0]
  · have hp : 0 < amt := by omega
    simp only [h0, if_false]
    rcases hsel : R.select x.tok.rd a amt with ⟨_ | ⟨l, t⟩, st'⟩
    · left; rfl
    · right; exact ⟨hp, l, t, st', rfl, rfl⟩

/-- what an action does to the sandbox: nothing, or one sandbox call on a bucket of `bks` -/
theorem act_sb {bks : List Bucket} {r : Reader} {R : UReader σ} {x x' : Ctx σ} {a : Act}
    (h : act bks r R x a = some x') :
    (x'.sb = x.sb ∧ ∀ o, a ≠ .op o) ∨
    ∃ o, a = .op o ∧ opBucket o ∈ bks ∧ x'.sb = (stepOp fixed r x.sb o).1 ∧
      x'.m = x.m.push (stepOp fixed r x.sb o).2 ∧ x'.tok = x.tok := by
  cases a with
  | op o =>
    right
    simp only [act] at h
    by_cases hb : opBucket o ∈ bks
    · simp only [hb, if_true, Option.some.injEq] at h
      exact ⟨o, rfl, hb, by rw [← h], by rw [← h], by rw [← h]⟩
    · simp [hb] at h
  | transfer a to amt =>
    left
    rcases act_transfer_cases bks r R x a to amt with hn | ⟨_, l, t, st', _, hs⟩
    · rw [hn] at h; simp at h
    · rw [hs] at h
      simp only [Option.some.injEq] at h
      exact ⟨by rw [← h], fun o ho => by cases ho⟩
  | event e => left; simp only [act, Option.some.injEq] at h; exact ⟨by rw [← h], fun o ho => by cases ho⟩
  | burn n => left; simp only [act, Option.some.injEq] at h; exact ⟨by rw [← h], fun o ho => by cases ho⟩
  | subuse n => left; simp only [act, Option.some.injEq] at h; exact ⟨by rw [← h], fun o ho => by cases ho⟩
  | fail => simp [act] at h
  | err => simp [act] at h

/-- an action only ever appends to the recorded token inputs -/
theorem act_uin {bks : List Bucket} {r : Reader} {R : UReader σ} {x x' : Ctx σ} {a : Act}
    (h : act bks r R x a = some x') : ∃ l, x'.tok.uin = x.tok.uin ++ l := by
  cases a with
  | op o =>
    simp only [act] at h
    by_cases hb : opBucket o ∈ bks
    · simp only [hb, if_true, Option.some.injEq] at h
      exact ⟨[], by rw [← h]; simp⟩
    · simp [hb] at h
  | transfer a to amt =>
    rcases act_transfer_cases bks r R x a to amt with hn | ⟨_, l, t, st', _, hs⟩
    · rw [hn] at h; simp at h
    · rw [hs] at h
      simp only [Option.some.injEq] at h
      exact ⟨l, by rw [← h]⟩
  | event e => simp only [act, Option.some.injEq] at h; exact ⟨[], by rw [← h]; simp⟩
  | burn n => simp only [act, Option.some.injEq] at h; exact ⟨[], by rw [← h]; simp⟩
  | subuse n => simp only [act, Option.some.injEq] at h; exact ⟨[], by rw [← h]; simp⟩
  | fail => simp [act] at h
  | err => simp [act] at h

/-- a property of the sandbox kept by every sandbox call on a bucket of `bks` is kept by `exec` -/
theorem exec_preserves (bks : List Bucket) (r : Reader) (R : UReader σ) (p : Prog) (P : State → Prop)
    (hstep : ∀ s o, P s → opBucket o ∈ bks → P (stepOp fixed r s o).1) :
    ∀ (fuel : Nat) (x : Ctx σ), P x.sb → P (exec bks r R p fuel x).1.sb := by
  intro fuel
  induction fuel with
  | zero => intro x h; exact h
  | succ n ih =>
    intro x h
    cases hp : p x.m.res with
    | none => rw [exec_none n hp]; exact h
    | some a =>
      by_cases h1 : a = .fail
      · subst h1; rw [exec_fail n hp]; exact h
      · by_cases h2 : a = .err
        · subst h2; rw [exec_err n hp]; exact h
        · rw [exec_act n hp h1 h2]
          cases ha : act bks r R x a with
          | none => exact h
          | some x' =>
            simp only
            apply ih
            rcases act_sb ha with ⟨e, _⟩ | ⟨o, _, hb, e, _⟩
            · rw [e]; exact h
            · rw [e]; exact hstep _ o h hb

theorem exec_inv (bks : List Bucket) {r : Reader} (hr : r.WF) (R : UReader σ) (p : Prog) (fuel : Nat) (x : Ctx σ)
    (h : Inv r x.sb) : Inv r (exec bks r R p fuel x).1.sb :=
  exec_preserves bks r R p (Inv r) (fun _ o hs _ => step_inv fixed hr hs o) fuel x h

theorem exec_mono (bks : List Bucket) {r : Reader} (hr : r.WF) (R : UReader σ) (p : Prog) (fuel : Nat) (x : Ctx σ)
    (h : Inv r x.sb) :
    ∀ b k d, x.sb.inputs.get b k = some d → (exec bks r R p fuel x).1.sb.inputs.get b k = some d := by
  have := exec_preserves bks r R p
    (fun s => Inv r s ∧ ∀ b k d, x.sb.inputs.get b k = some d → s.inputs.get b k = some d)
    (fun s o hs _ => ⟨step_inv fixed hr hs.1 o, fun b k d hd => step_mono fixed hr hs.1 o b k d (hs.2 b k d hd)⟩)
    fuel x ⟨h, fun _ _ _ hd => hd⟩
  exact this.2

theorem exec_wr (bks : List Bucket) {r : Reader} (hr : r.WF) (htotal : ∀ b k, r.get b k ≠ none) (R : UReader σ)
    (p : Prog) (fuel : Nat) (x : Ctx σ) (h : Inv r x.sb) (hw : WR x.sb) : WR (exec bks r R p fuel x).1.sb := by
  have := exec_preserves bks r R p (fun s => Inv r s ∧ WR s)
    (fun s o hs _ => ⟨step_inv fixed hr hs.1 o, step_wr hr htotal hs.1 hs.2 o⟩) fuel x ⟨h, hw⟩
  exact this.2

/-- buckets outside `bks` are never read -/
theorem exec_confined (bks : List Bucket) (r : Reader) (R : UReader σ) (p : Prog) (fuel : Nat) (x : Ctx σ)
    (h : ∀ b, b ∉ bks → x.sb.inputs b = []) : ∀ b, b ∉ bks → (exec bks r R p fuel x).1.sb.inputs b = [] :=
  exec_preserves bks r R p (fun s => ∀ b, b ∉ bks → s.inputs b = [])
    (fun s o hs hb b hn => by
      rw [stepOp_only r s o b (fun e => hn (e ▸ hb))]; exact hs b hn) fuel x h

/-- the recorded token inputs only grow -/
theorem exec_uin (bks : List Bucket) (r : Reader) (R : UReader σ) (p : Prog) :
    ∀ (fuel : Nat) (x : Ctx σ), ∃ l, (exec bks r R p fuel x).1.tok.uin = x.tok.uin ++ l := by
  intro fuel
  induction fuel with
  | zero => intro x; exact ⟨[], by simp [exec_zero]⟩
  | succ n ih =>
    intro x
    cases hp : p x.m.res with
    | none => rw [exec_none n hp]; exact ⟨[], by simp⟩
    | some a =>
      by_cases h1 : a = .fail
      · subst h1; rw [exec_fail n hp]; exact ⟨[], by simp⟩
      · by_cases h2 : a = .err
        · subst h2; rw [exec_err n hp]; exact ⟨[], by simp⟩
        · rw [exec_act n hp h1 h2]
          cases ha : act bks r R x a with
          | none => exact ⟨[], by simp⟩
          | some x' =>
            simp only
            obtain ⟨l1, e1⟩ := act_uin ha
            obtain ⟨l2, e2⟩ := ih x'
            exact ⟨l1 ++ l2, by rw [e2, e1, List.append_assoc]⟩

/-- The simulation behind re-execution.  `RS` holds (at least) the read set of the first run, with the
reader's entries, and the replay reader holds the token inputs the first run will still record, followed
by any `T`; the first run (over a utxo reader meeting the `SelectUtxos` contract) does not end with an
error.  Then the second run over `memReader RS` and `replayReader` takes the same actions, gets the same
results and ends with the same outcome, recorded token inputs and outputs, events, resource use and
write set, leaving exactly `T` unconsumed. -/
theorem exec_replay (bks : List Bucket) {r : Reader} (hr : r.WF) (RS : Store) (hRS : ∀ b, Sorted (RS b))
    (hfaith : ∀ b k d, find k (RS b) = some d → r.get b k = some d)
    {R : UReader σ} {cap : σ → Addr → Nat} (hR : R.Spec cap) (p : Prog) (T : List TxIn) :
    ∀ (fuel : Nat) (x : Ctx σ) (y : Ctx (List TxIn)), Inv r x.sb → Inv (memReader RS) y.sb →
      y.sb.outputs = x.sb.outputs → y.m = x.m → y.tok.uin = x.tok.uin → y.tok.uout = x.tok.uout →
      (exec bks r R p fuel x).2 ≠ .error →
      (∀ b k d, (exec bks r R p fuel x).1.sb.inputs.get b k = some d → find k (RS b) = some d) →
      (exec bks r R p fuel x).1.tok.uin ++ T = x.tok.uin ++ y.tok.rd →
      (exec bks (memReader RS) replayReader p fuel y).2 = (exec bks r R p fuel x).2 ∧
      (exec bks (memReader RS) replayReader p fuel y).1.m = (exec bks r R p fuel x).1.m ∧
      (exec bks (memReader RS) replayReader p fuel y).1.sb.outputs = (exec bks r R p fuel x).1.sb.outputs ∧
      (exec bks (memReader RS) replayReader p fuel y).1.tok.uin = (exec bks r R p fuel x).1.tok.uin ∧
      (exec bks (memReader RS) replayReader p fuel y).1.tok.uout = (exec bks r R p fuel x).1.tok.uout ∧
      (exec bks (memReader RS) replayReader p fuel y).1.tok.rd = T := by
  intro fuel
  induction fuel with
  | zero => intro x y _ _ _ _ _ _ hne _ _; exact absurd rfl hne
  | succ n ih =>
    intro x y hx hy hout hm hui huo hne hsub htok
    have hres : y.m.res = x.m.res := by rw [hm]
    have stop : ∀ o, exec bks r R p (n + 1) x = (x, o) → exec bks (memReader RS) replayReader p (n + 1) y = (y, o) →
        (exec bks (memReader RS) replayReader p (n + 1) y).2 = (exec bks r R p (n + 1) x).2 ∧
        (exec bks (memReader RS) replayReader p (n + 1) y).1.m = (exec bks r R p (n + 1) x).1.m ∧
        (exec bks (memReader RS) replayReader p (n + 1) y).1.sb.outputs = (exec bks r R p (n + 1) x).1.sb.outputs ∧
        (exec bks (memReader RS) replayReader p (n + 1) y).1.tok.uin = (exec bks r R p (n + 1) x).1.tok.uin ∧
        (exec bks (memReader RS) replayReader p (n + 1) y).1.tok.uout = (exec bks r R p (n + 1) x).1.tok.uout ∧
        (exec bks (memReader RS) replayReader p (n + 1) y).1.tok.rd = T := by
      intro o ex ey
      rw [ex] at htok
      rw [ex, ey]
      exact ⟨rfl, hm, hout, hui, huo, (List.append_cancel_left htok).symm⟩
    cases hp : p x.m.res with
    | none => exact stop .ok (exec_none n hp) (exec_none n (by rw [hres]; exact hp))
    | some a =>
      have hp' : p y.m.res = some a := by rw [hres]; exact hp
      by_cases h1 : a = .fail
      · subst h1; exact stop .failed (exec_fail n hp) (exec_fail n hp')
      · by_cases h2 : a = .err
        · subst h2; rw [exec_err n hp] at hne; exact absurd rfl hne
        · rw [exec_act n hp h1 h2] at hsub htok hne ⊢
          rw [exec_act n hp' h1 h2]
          cases a with
          | fail => exact absurd rfl h1
          | err => exact absurd rfl h2
          | op o =>
            by_cases hb : opBucket o ∈ bks
            · have ex : act bks r R x (.op o) =
                  some ⟨(stepOp fixed r x.sb o).1, x.m.push (stepOp fixed r x.sb o).2, x.tok⟩ := by
                simp [act, hb]
              have ey : act bks (memReader RS) replayReader y (.op o) =
                  some ⟨(stepOp fixed (memReader RS) y.sb o).1, y.m.push (stepOp fixed (memReader RS) y.sb o).2, y.tok⟩ := by
                simp [act, hb]
              rw [ex] at hsub htok hne ⊢
              rw [ey]
              simp only at hsub htok hne ⊢
              have hx1 : Inv r (stepOp fixed r x.sb o).1 := step_inv fixed hr hx o
              have hsub1 : ∀ b k d, (stepOp fixed r x.sb o).1.inputs.get b k = some d → find k (RS b) = some d :=
                fun b k d h => hsub b k d (exec_mono bks hr R p n ⟨_, _, _⟩ hx1 b k d h)
              obtain ⟨e1, e2⟩ := replay_step hr RS hRS hfaith x.sb y.sb hx hy hout o hsub1
              exact ih ⟨_, _, _⟩ ⟨_, _, _⟩ hx1 (step_inv_mem RS hRS y.sb hy o) e2 (by simp only; rw [hm, e1])
                hui huo hne hsub htok
            · have ex : act bks r R x (.op o) = none := by simp [act, hb]
              rw [ex] at hne; exact absurd rfl hne
          | transfer a to amt =>
            rcases act_transfer_cases bks r R x a to amt with hn | ⟨hpos, l, t, st', hsel, hs⟩
            · rw [hn] at hne; exact absurd rfl hne
            · rw [hs] at hsub htok hne ⊢
              simp only at hsub htok hne ⊢
              obtain ⟨o1, o2, o3, o4, _, _⟩ := hR.ok x.tok.rd a amt l t st' hpos hsel
              -- what the first run will still record after this call
              obtain ⟨ext, hext⟩ := exec_uin bks r R p n
                ⟨x.sb, x.m.push .done,
                  ⟨st', x.tok.uin ++ l, x.tok.uout ++ [⟨to, amt⟩] ++ (if amt < t then [⟨a, t - amt⟩] else [])⟩⟩
              simp only at hext
              have hq : y.tok.rd = l ++ (ext ++ T) := by
                rw [hext] at htok
                have : x.tok.uin ++ (l ++ (ext ++ T)) = x.tok.uin ++ y.tok.rd := by
                  rw [← htok]; simp [List.append_assoc]
                exact (List.append_cancel_left this).symm
              have hsy : replayReader.select y.tok.rd a amt = (some (l, sumIn l), ext ++ T) := by
                rw [hq]; exact replay_accepts a amt l (ext ++ T) hpos o1 (by omega) o4
              have ey : act bks (memReader RS) replayReader y (.transfer a to amt) =
                  some ⟨y.sb, y.m.push .done,
                    ⟨ext ++ T, y.tok.uin ++ l,
                      y.tok.uout ++ [⟨to, amt⟩] ++ (if amt < t then [⟨a, t - amt⟩] else [])⟩⟩ := by
                have h0 : amt ≠ 0 := by omega
                simp only [act, transfer, h0, if_false, hsy, o2]
              rw [ey]
              simp only
              refine ih ⟨_, _, _⟩ ⟨_, _, _⟩ hx hy hout (by simp only; rw [hm]) (by simp only; rw [hui])
                (by simp only; rw [huo]) hne hsub ?_
              simp only
              rw [htok, hq]
              simp [List.append_assoc]
          | event e =>
            have ex : act bks r R x (.event e) = some ⟨x.sb, x.m.addEv e, x.tok⟩ := rfl
            have ey : act bks (memReader RS) replayReader y (.event e) = some ⟨y.sb, y.m.addEv e, y.tok⟩ := rfl
            rw [ex] at hsub htok hne ⊢
            rw [ey]
            exact ih ⟨_, _, _⟩ ⟨_, _, _⟩ hx hy hout (by show y.m.addEv e = x.m.addEv e; rw [hm]) hui huo hne hsub htok
          | burn k =>
            have ex : act bks r R x (.burn k) = some ⟨x.sb, x.m.burn k, x.tok⟩ := rfl
            have ey : act bks (memReader RS) replayReader y (.burn k) = some ⟨y.sb, y.m.burn k, y.tok⟩ := rfl
            rw [ex] at hsub htok hne ⊢
            rw [ey]
            exact ih ⟨_, _, _⟩ ⟨_, _, _⟩ hx hy hout (by show y.m.burn k = x.m.burn k; rw [hm]) hui huo hne hsub htok
          | subuse k =>
            have ex : act bks r R x (.subuse k) = some ⟨x.sb, x.m.subuse k, x.tok⟩ := rfl
            have ey : act bks (memReader RS) replayReader y (.subuse k) = some ⟨y.sb, y.m.subuse k, y.tok⟩ := rfl
            rw [ex] at hsub htok hne ⊢
            rw [ey]
            exact ih ⟨_, _, _⟩ ⟨_, _, _⟩ hx hy hout (by show y.m.subuse k = x.m.subuse k; rw [hm]) hui huo hne hsub htok

/-- resource bookkeeping: the peak is at least what the contract itself used -/
theorem exec_used_le_peak (bks : List Bucket) (r : Reader) (R : UReader σ) (p : Prog) :
    ∀ (fuel : Nat) (x : Ctx σ), x.m.used ≤ x.m.peak →
      (exec bks r R p fuel x).1.m.used ≤ (exec bks r R p fuel x).1.m.peak := by
  intro fuel
  induction fuel with
  | zero => intro x h; exact h
  | succ n ih =>
    intro x h
    cases hp : p x.m.res with
    | none => rw [exec_none n hp]; exact h
    | some a =>
      by_cases h1 : a = .fail
      · subst h1; rw [exec_fail n hp]; exact h
      · by_cases h2 : a = .err
        · subst h2; rw [exec_err n hp]; exact h
        · rw [exec_act n hp h1 h2]
          cases ha : act bks r R x a with
          | none => exact h
          | some x' =>
            simp only
            apply ih
            cases a with
            | fail => exact absurd rfl h1
            | err => exact absurd rfl h2
            | op o =>
              simp only [act] at ha
              by_cases hb : opBucket o ∈ bks
              · simp only [hb, if_true, Option.some.injEq] at ha; rw [← ha]; exact h
              · simp [hb] at ha
            | transfer a to amt =>
              rcases act_transfer_cases bks r R x a to amt with hn | ⟨_, l, t, st', _, hs⟩
              · rw [hn] at ha; simp at ha
              · rw [hs] at ha
                simp only [Option.some.injEq] at ha
                rw [← ha]; exact h
            | event e => simp only [act, Option.some.injEq] at ha; rw [← ha]; exact h
            | burn k =>
              simp only [act, Option.some.injEq] at ha; rw [← ha]; simp only [Meta.burn, Meta.push]; omega
            | subuse k =>
              simp only [act, Option.some.injEq] at ha; rw [← ha]; simp only [Meta.subuse, Meta.push]; omega

/-! ### the committed state -/

structure DB.WF (db : DB) : Prop where
  liveSorted : ∀ b, Sorted (db.live b)
  deadDel : ∀ b k d, find k (db.dead b) = some d → d.isDel = true

theorem DB.empty_wf : DB.empty.WF :=
  ⟨fun _ => by simp [DB.empty, Store.empty, Sorted], fun _ _ _ h => by simp [DB.empty, Store.empty, find] at h⟩

theorem reader_get (db : DB) (b : Bucket) (k : Key) : db.reader.get b k = some (db.cur b k) := by
  simp only [DB.reader, xmodelReader, DB.cur]
  cases find k (db.live b) with
  | some d => rfl
  | none =>
    simp only
    cases find k (db.dead b) with
    | some d => rfl
    | none => rfl

theorem reader_total (db : DB) (b : Bucket) (k : Key) : db.reader.get b k ≠ none := by
  rw [reader_get]; simp

theorem reader_wf {db : DB} (h : db.WF) : db.reader.WF := by
  refine ⟨h.liveSorted, fun b k d hm => ?_, fun b k d hg => ?_⟩
  · simp only [DB.reader, xmodelReader]
    show (match find k (db.live b) with | some d => some d | none => _) = some d
    rw [mem_find_of_sorted (h.liveSorted b) hm]
  · simp only [DB.reader, xmodelReader] at hg ⊢
    cases hl : find k (db.live b) with
    | some d' =>
      rw [hl] at hg
      simp only [Option.some.injEq] at hg
      subst hg
      exact Or.inl (find_some_mem hl)
    | none =>
      rw [hl] at hg
      simp only at hg
      cases hd : find k (db.dead b) with
      | some d' =>
        rw [hd] at hg
        simp only [Option.some.injEq] at hg
        subst hg
        exact Or.inr (Or.inl (h.deadDel b k d' hd))
      | none =>
        rw [hd] at hg
        simp only [Option.some.injEq] at hg
        subst hg
        exact Or.inr (Or.inr rfl)

theorem store_put_sorted {m : Store} (hs : ∀ b, Sorted (m b)) (b : Bucket) (k : Key) (v : VData) :
    ∀ b', Sorted ((m.put b k v) b') := by
  intro b'
  by_cases hb : b' = b
  · subst hb; rw [Store.put_same_bucket]; exact sorted_ins _ _ _ (hs _)
  · rw [Store.put_other_bucket _ _ _ _ _ hb]; exact hs b'

theorem rsOf_sorted (db : DB) (kin : List REntry) : ∀ b, Sorted (rsOf db kin b) := by
  induction kin with
  | nil => intro b; simp [rsOf, Store.empty, Sorted]
  | cons e rest ih => exact store_put_sorted ih _ _ _

theorem rsOf_faith (db : DB) (kin : List REntry) (b : Bucket) (k : Key) (d : VData)
    (h : find k (rsOf db kin b) = some d) : d = db.cur b k := by
  induction kin with
  | nil => simp [rsOf, Store.empty, find] at h
  | cons e rest ih =>
    simp only [rsOf] at h
    by_cases hbk : b = e.1 ∧ k = e.2.1
    · obtain ⟨rfl, rfl⟩ := hbk
      have := Store.get_put_same (rsOf db rest) e.1 e.2.1 (db.cur e.1 e.2.1)
      simp only [Store.get] at this
      rw [this] at h
      exact (Option.some.inj h).symm
    · have := Store.get_put_other (rsOf db rest) e.1 b e.2.1 k (db.cur e.1 e.2.1) hbk
      simp only [Store.get] at this
      rw [this] at h
      exact ih h

theorem rsOf_mem (db : DB) (kin : List REntry) (b : Bucket) (k : Key)
    (h : ∃ v, (b, k, v) ∈ kin) : find k (rsOf db kin b) = some (db.cur b k) := by
  induction kin with
  | nil => obtain ⟨v, hv⟩ := h; simp at hv
  | cons e rest ih =>
    simp only [rsOf]
    by_cases hbk : b = e.1 ∧ k = e.2.1
    · obtain ⟨rfl, rfl⟩ := hbk
      have := Store.get_put_same (rsOf db rest) e.1 e.2.1 (db.cur e.1 e.2.1)
      simp only [Store.get] at this
      exact this
    · have := Store.get_put_other (rsOf db rest) e.1 b e.2.1 k (db.cur e.1 e.2.1) hbk
      simp only [Store.get] at this
      rw [this]
      apply ih
      obtain ⟨v, hv⟩ := h
      rcases List.mem_cons.mp hv with hv | hv
      · exact absurd ⟨by rw [← hv], by rw [← hv]⟩ hbk
      · exact ⟨v, hv⟩

theorem mem_rsetOf {bks : List Bucket} {s : State} {b : Bucket} {k : Key} {v : Nat} :
    (b, k, v) ∈ rsetOf bks s ↔ b ∈ bks ∧ ∃ d, (k, d) ∈ s.inputs b ∧ d.ver = v := by
  simp only [rsetOf, listOf, List.mem_map, List.mem_flatMap, Prod.mk.injEq, Prod.exists]
  constructor
  · rintro ⟨b', k', d', ⟨b'', hb'', k'', d'', hm, rfl, rfl, rfl⟩, rfl, rfl, rfl⟩
    exact ⟨hb'', d'', hm, rfl⟩
  · rintro ⟨hb, d, hm, rfl⟩
    exact ⟨b, k, d, ⟨b, hb, k, d, hm, rfl, rfl, rfl⟩, rfl, rfl, rfl⟩

theorem mem_wsetOf {bks : List Bucket} {s : State} {b : Bucket} {k : Key} {v : Nat} :
    (b, k, v) ∈ wsetOf bks s ↔ b ∈ bks ∧ ∃ d, (k, d) ∈ s.outputs b ∧ d.val = v := by
  simp only [wsetOf, listOf, List.mem_map, List.mem_flatMap, Prod.mk.injEq, Prod.exists]
  constructor
  · rintro ⟨b', k', d', ⟨b'', hb'', k'', d'', hm, rfl, rfl, rfl⟩, rfl, rfl, rfl⟩
    exact ⟨hb'', d'', hm, rfl⟩
  · rintro ⟨hb, d, hm, rfl⟩
    exact ⟨b, k, d, ⟨b, hb, k, d, hm, rfl, rfl, rfl⟩, rfl, rfl, rfl⟩

/-! ### commit -/

theorem find_eraseK_same (k : Key) (l : KV) : find k (eraseK k l) = none := by
  induction l with
  | nil => rfl
  | cons e rest ih =>
    unfold eraseK at ih ⊢
    by_cases h : e.1 = k
    · simp [List.filter_cons, h, ih]
    · have h' : k ≠ e.1 := fun x => h x.symm
      simp [List.filter_cons, h, find, h', ih]

theorem find_eraseK_other (k k' : Key) (l : KV) (hk : k' ≠ k) : find k' (eraseK k l) = find k' l := by
  induction l with
  | nil => rfl
  | cons e rest ih =>
    unfold eraseK at ih ⊢
    rw [List.filter_cons]
    by_cases h : e.1 = k
    · have h' : k' ≠ e.1 := fun x => hk (x.trans h)
      have hb : (e.1 != k) = false := by simp [h]
      rw [hb]
      simp only [Bool.false_eq_true, if_false]
      rw [ih]
      simp only [find, h', if_false]
    · have hb : (e.1 != k) = true := by simp [h]
      rw [hb]
      simp only [if_true, find]
      rw [ih]

/-- the latest entry of a declared write set for key `k` of bucket `b`: (offset, value) -/
def lastW (b : Bucket) (k : Key) : List WEntry → Nat → Option (Nat × Nat)
  | [], _ => none
  | e :: rest, off =>
    match lastW b k rest (off + 1) with
    | some x => some x
    | none => if e.1 = b ∧ e.2.1 = k then some (off, e.2.2) else none

/-- one write of `updateExtUtxo` -/
def write1 (id : Nat) (db : DB) (e : WEntry) (off : Nat) : DB :=
  if e.2.2 = 0 then ⟨Store.erase db.live e.1 e.2.1, db.dead.put e.1 e.2.1 ⟨mkVer id off, 0⟩⟩
  else ⟨db.live.put e.1 e.2.1 ⟨mkVer id off, e.2.2⟩, db.dead⟩

theorem applyKOut_cons (id : Nat) (e : WEntry) (rest : List WEntry) (off : Nat) (db : DB) :
    applyKOut id (e :: rest) off db = applyKOut id rest (off + 1) (write1 id db e off) := by
  obtain ⟨b, k, v⟩ := e
  simp only [applyKOut, write1]

theorem write1_cur_same (id : Nat) (db : DB) (e : WEntry) (off : Nat) :
    (write1 id db e off).cur e.1 e.2.1 = ⟨mkVer id off, e.2.2⟩ := by
  unfold write1
  by_cases hv : e.2.2 = 0
  · simp only [hv, if_true, DB.cur, Store.erase, find_eraseK_same]
    have := Store.get_put_same db.dead e.1 e.2.1 ⟨mkVer id off, 0⟩
    simp only [Store.get] at this
    rw [this]
  · simp only [hv, if_false, DB.cur]
    have := Store.get_put_same db.live e.1 e.2.1 ⟨mkVer id off, e.2.2⟩
    simp only [Store.get] at this
    rw [this]

theorem write1_cur_other (id : Nat) (db : DB) (e : WEntry) (off : Nat) (b : Bucket) (k : Key)
    (h : ¬ (e.1 = b ∧ e.2.1 = k)) : (write1 id db e off).cur b k = db.cur b k := by
  have h' : ¬ (b = e.1 ∧ k = e.2.1) := fun x => h ⟨x.1.symm, x.2.symm⟩
  unfold write1
  by_cases hv : e.2.2 = 0
  · simp only [hv, if_true, DB.cur]
    have h1 : find k (Store.erase db.live e.1 e.2.1 b) = find k (db.live b) := by
      unfold Store.erase
      by_cases hb : b = e.1
      · have hk : k ≠ e.2.1 := fun x => h' ⟨hb, x⟩
        simp only [hb, if_true]; exact find_eraseK_other _ _ _ hk
      · simp [hb]
    have h2 := Store.get_put_other db.dead e.1 b e.2.1 k ⟨mkVer id off, 0⟩ h'
    simp only [Store.get] at h2
    rw [h1, h2]
  · simp only [hv, if_false, DB.cur]
    have h2 := Store.get_put_other db.live e.1 b e.2.1 k ⟨mkVer id off, e.2.2⟩ h'
    simp only [Store.get] at h2
    rw [h2]

theorem applyKOut_cur (id : Nat) (b : Bucket) (k : Key) :
    ∀ (l : List WEntry) (off : Nat) (db : DB),
      (applyKOut id l off db).cur b k =
        match lastW b k l off with
        | some (o, v) => ⟨mkVer id o, v⟩
        | none => db.cur b k := by
  intro l
  induction l with
  | nil => intro off db; rfl
  | cons e rest ih =>
    intro off db
    rw [applyKOut_cons, ih]
    simp only [lastW]
    cases lastW b k rest (off + 1) with
    | some x => rfl
    | none =>
      simp only
      by_cases h : e.1 = b ∧ e.2.1 = k
      · simp only [h, and_self, if_true]
        obtain ⟨rfl, rfl⟩ := h
        exact write1_cur_same id db e off
      · simp only [h, if_false]
        exact write1_cur_other id db e off b k h

theorem write1_live_same (id : Nat) (db : DB) (e : WEntry) (off : Nat) :
    find e.2.1 ((write1 id db e off).live e.1) = if e.2.2 = 0 then none else some ⟨mkVer id off, e.2.2⟩ := by
  unfold write1
  by_cases hv : e.2.2 = 0
  · simp only [hv, if_true, Store.erase, find_eraseK_same]
  · simp only [hv, if_false]
    have := Store.get_put_same db.live e.1 e.2.1 ⟨mkVer id off, e.2.2⟩
    simp only [Store.get] at this
    exact this

theorem write1_live_other (id : Nat) (db : DB) (e : WEntry) (off : Nat) (b : Bucket) (k : Key)
    (h : ¬ (e.1 = b ∧ e.2.1 = k)) : find k ((write1 id db e off).live b) = find k (db.live b) := by
  have h' : ¬ (b = e.1 ∧ k = e.2.1) := fun x => h ⟨x.1.symm, x.2.symm⟩
  unfold write1
  by_cases hv : e.2.2 = 0
  · simp only [hv, if_true]
    unfold Store.erase
    by_cases hb : b = e.1
    · have hk : k ≠ e.2.1 := fun x => h' ⟨hb, x⟩
      simp only [hb, if_true]; exact find_eraseK_other _ _ _ hk
    · simp [hb]
  · simp only [hv, if_false]
    have h2 := Store.get_put_other db.live e.1 b e.2.1 k ⟨mkVer id off, e.2.2⟩ h'
    simp only [Store.get] at h2
    exact h2

theorem applyKOut_live (id : Nat) (b : Bucket) (k : Key) :
    ∀ (l : List WEntry) (off : Nat) (db : DB),
      find k ((applyKOut id l off db).live b) =
        match lastW b k l off with
        | some (o, v) => if v = 0 then none else some ⟨mkVer id o, v⟩
        | none => find k (db.live b) := by
  intro l
  induction l with
  | nil => intro off db; rfl
  | cons e rest ih =>
    intro off db
    rw [applyKOut_cons, ih]
    simp only [lastW]
    cases lastW b k rest (off + 1) with
    | some x => rfl
    | none =>
      simp only
      by_cases h : e.1 = b ∧ e.2.1 = k
      · simp only [h, and_self, if_true]
        obtain ⟨rfl, rfl⟩ := h
        exact write1_live_same id db e off
      · simp only [h, if_false]
        exact write1_live_other id db e off b k h

theorem write1_wf (id : Nat) {db : DB} (h : db.WF) (e : WEntry) (off : Nat) : (write1 id db e off).WF := by
  unfold write1
  by_cases hv : e.2.2 = 0
  · simp only [hv, if_true]
    refine ⟨fun b => ?_, fun b k d hd => ?_⟩
    · simp only [Store.erase]
      by_cases hb : b = e.1
      · simp only [hb, if_true]; exact sorted_filter _ (h.liveSorted _)
      · simp only [hb, if_false]; exact h.liveSorted b
    · by_cases hbk : b = e.1 ∧ k = e.2.1
      · obtain ⟨rfl, rfl⟩ := hbk
        have := Store.get_put_same db.dead e.1 e.2.1 ⟨mkVer id off, 0⟩
        simp only [Store.get] at this
        simp only at hd
        rw [this] at hd
        rw [← Option.some.inj hd]; rfl
      · have := Store.get_put_other db.dead e.1 b e.2.1 k ⟨mkVer id off, 0⟩ hbk
        simp only [Store.get] at this
        simp only at hd
        rw [this] at hd
        exact h.deadDel b k d hd
  · simp only [hv, if_false]
    exact ⟨store_put_sorted h.liveSorted _ _ _, h.deadDel⟩

theorem applyKOut_wf (id : Nat) : ∀ (l : List WEntry) (off : Nat) (db : DB), db.WF → (applyKOut id l off db).WF := by
  intro l
  induction l with
  | nil => intro off db h; exact h
  | cons e rest ih => intro off db h; rw [applyKOut_cons]; exact ih _ _ (write1_wf id h e off)

/-! ### small list facts -/

theorem subMulti_refl (l : List TxOut) : subMulti l l = true := by
  induction l with
  | nil => rfl
  | cons a rest ih => simp [subMulti, ih]

/-- `isSubOutputs` is multiset inclusion: every output occurs among the real outputs at least as often as
it is declared -/
theorem subMulti_iff_count : ∀ (a b : List TxOut), subMulti a b = true ↔ ∀ o, a.count o ≤ b.count o := by
  intro a
  induction a with
  | nil => intro b; simp [subMulti]
  | cons x rest ih =>
    intro b
    simp only [subMulti, Bool.and_eq_true, List.contains_iff_mem, ih]
    constructor
    · rintro ⟨hx, h⟩ o
      have := h o
      by_cases ho : o = x
      · subst ho
        rw [List.count_cons_self]
        rw [List.count_erase_self] at this
        have hpos : 0 < b.count o := List.count_pos_iff.mpr hx
        omega
      · rw [List.count_cons_of_ne (fun e => ho e.symm)]
        rw [List.count_erase_of_ne ho] at this
        exact this
    · intro h
      have hx : x ∈ b := by
        have := h x
        rw [List.count_cons_self] at this
        exact List.count_pos_iff.mp (by omega)
      refine ⟨hx, fun o => ?_⟩
      have := h o
      by_cases ho : o = x
      · subst ho
        rw [List.count_cons_self] at this
        rw [List.count_erase_self]
        omega
      · rw [List.count_cons_of_ne (fun e => ho e.symm)] at this
        rw [List.count_erase_of_ne ho]
        exact this

/-- replacing one element by a different one loses one occurrence of it -/
theorem count_set_ne : ∀ (l : List TxOut) (i : Nat) (hi : i < l.length) (o' : TxOut), o' ≠ l[i] →
    (l.set i o').count l[i] + 1 = l.count l[i] := by
  intro l
  induction l with
  | nil => intro i hi; simp at hi
  | cons x rest ih =>
    intro i hi o' hne
    cases i with
    | zero =>
      simp only [List.set_cons_zero, List.getElem_cons_zero] at hne ⊢
      rw [List.count_cons_of_ne hne, List.count_cons_self]
    | succ j =>
      simp only [List.set_cons_succ, List.getElem_cons_succ] at hne ⊢
      have hj : j < rest.length := by simpa using hi
      have := ih j hj o' hne
      by_cases hx : x = rest[j]
      · rw [hx, List.count_cons_self, List.count_cons_self]; omega
      · rw [List.count_cons_of_ne hx, List.count_cons_of_ne hx]; exact this

/-! ### the transient entries determine inputs, outputs and events -/

def tIn : List TEntry → List TxIn
  | [] => []
  | .inputs l :: _ => l
  | _ :: rest => tIn rest

def tOut : List TEntry → List TxOut
  | [] => []
  | .outputs l :: _ => l
  | _ :: rest => tOut rest

def tEv : List TEntry → List Event
  | [] => []
  | .events l :: _ => l
  | _ :: rest => tEv rest

theorem flushEntries_tIn (a : List TxIn) (b : List TxOut) (c : List Event) : tIn (flushEntries a b c) = a := by
  cases a <;> cases b <;> cases c <;> simp [flushEntries, tIn]

theorem flushEntries_tOut (a : List TxIn) (b : List TxOut) (c : List Event) : tOut (flushEntries a b c) = b := by
  cases a <;> cases b <;> cases c <;> simp [flushEntries, tOut]

theorem flushEntries_tEv (a : List TxIn) (b : List TxOut) (c : List Event) : tEv (flushEntries a b c) = c := by
  cases a <;> cases b <;> cases c <;> simp [flushEntries, tEv]

theorem evOf_inj : ∀ (l l' : List Nat), evOf l = evOf l' → l = l' := by
  intro l
  induction l with
  | nil => intro l' h; cases l' with
    | nil => rfl
    | cons _ _ => simp [evOf] at h
  | cons e rest ih =>
    intro l' h
    cases l' with
    | nil => simp [evOf] at h
    | cons e' rest' =>
      simp only [evOf, List.map_cons, List.cons.injEq, Event.mk.injEq] at h
      rw [h.1.1, ih rest' h.2]

/-- two write sets have the same transient entries iff they declare the same contract inputs, contract
outputs and events -/
theorem transientOf_inj {a a' : List TxIn} {b b' : List TxOut} {c c' : List Nat} :
    transientOf a b c = transientOf a' b' c' ↔ a = a' ∧ b = b' ∧ c = c' := by
  constructor
  · intro h
    simp only [transientOf] at h
    refine ⟨?_, ?_, ?_⟩
    · have := congrArg tIn h; rwa [flushEntries_tIn, flushEntries_tIn] at this
    · have := congrArg tOut h; rwa [flushEntries_tOut, flushEntries_tOut] at this
    · have := congrArg tEv h; rw [flushEntries_tEv, flushEntries_tEv] at this; exact evOf_inj _ _ this
  · rintro ⟨rfl, rfl, rfl⟩; rfl

theorem sameSet_refl (l : List WEntry) : sameSet l l = true := by
  simp only [sameSet, beq_self_eq_true, Bool.true_and, List.all_eq_true]
  intro e he
  simpa using he

/-! ### `preexec`, `lastW` -/

/-- what `preexec` returns, in terms of the final context of the run over the live readers -/
theorem preexec_eq {bks : List Bucket} {fuel : Nat} {db : DB} {R : UReader σ} {st : σ} {p : Prog} {pre : Pre}
    (h : preexec bks fuel db R st p = some pre) :
    ∃ x, exec bks db.reader R p fuel (Ctx.init st) = (x, pre.outcome) ∧ pre.outcome ≠ .error ∧
      pre.kin = rsetOf bks x.sb ∧ pre.kout = wsetOf bks x.sb ∧ pre.cin = x.tok.uin ∧ pre.cx = x.tok.uout ∧
      pre.ev = x.m.ev ∧ pre.used = x.m.used ∧ pre.peak = x.m.peak := by
  unfold preexec at h
  generalize hx : exec bks db.reader R p fuel (Ctx.init st) = res at h
  obtain ⟨x, o⟩ := res
  cases o with
  | error => simp at h
  | ok =>
    simp only [Option.some.injEq] at h
    subst h
    exact ⟨x, rfl, by simp, rfl, rfl, rfl, rfl, rfl, rfl, rfl⟩
  | failed =>
    simp only [Option.some.injEq] at h
    subst h
    exact ⟨x, rfl, by simp, rfl, rfl, rfl, rfl, rfl, rfl, rfl⟩


theorem lastW_none (b : Bucket) (k : Key) : ∀ (l : List WEntry) (off : Nat),
    (∀ w ∈ l, ¬ (w.1 = b ∧ w.2.1 = k)) → lastW b k l off = none := by
  intro l
  induction l with
  | nil => intro _ _; rfl
  | cons e rest ih =>
    intro off h
    simp only [lastW]
    rw [ih (off + 1) (fun w hw => h w (List.mem_cons_of_mem _ hw))]
    simp [h e (List.mem_cons_self ..)]

theorem lastW_some (b : Bucket) (k : Key) : ∀ (l : List WEntry) (off : Nat),
    (∃ w ∈ l, w.1 = b ∧ w.2.1 = k) → ∃ o v, lastW b k l off = some (o, v) ∧ off ≤ o := by
  intro l
  induction l with
  | nil => intro _ h; obtain ⟨w, hw, _⟩ := h; simp at hw
  | cons e rest ih =>
    intro off h
    simp only [lastW]
    cases hl : lastW b k rest (off + 1) with
    | some x =>
      by_cases hr : ∃ w ∈ rest, w.1 = b ∧ w.2.1 = k
      · obtain ⟨o, v, e1, e2⟩ := ih (off + 1) hr
        rw [hl] at e1
        exact ⟨o, v, by rw [← Option.some.inj e1], by omega⟩
      · have := lastW_none b k rest (off + 1) (fun w hw hc => hr ⟨w, hw, hc⟩)
        rw [this] at hl; simp at hl
    | none =>
      obtain ⟨w, hw, hc⟩ := h
      rcases List.mem_cons.mp hw with rfl | hw
      · exact ⟨off, w.2.2, by simp [hc], Nat.le_refl _⟩
      · obtain ⟨o, v, e1, _⟩ := ih (off + 1) ⟨w, hw, hc⟩
        rw [hl] at e1; simp at e1


end XV.Contract
