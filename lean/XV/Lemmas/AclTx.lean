import XV.Model.AclTx
import XV.Lemmas.Acl
/-!
Helper lemmas for the end-to-end part of C11 (`XV/Props/C11.lean`): the evaluation reads the rule environment only at
the names it looks up (congruence), the loops of `verifySignatures`, `verifyUTXOPermission` and
`verifyRWSetPermission`, and the transfer of an acceptance under read faults to every fault-free completion.
-/
namespace XV.C11
open XV.Acl

/-! ## the evaluation reads the environment only at the names it looks up -/

theorem mem_flatten_of_mem {u : URI} {l : List URI} {n : Name} (hu : u ∈ l) (hn : n ∈ u) : n ∈ l.flatten :=
  List.mem_flatten.2 ⟨u, hu, hn⟩

theorem nodeStatus_congr (env env' : Env) :
    ∀ (fuel : Nat) (c : Name) (below : List URI), env c = env' c → (∀ n ∈ below.flatten, env n = env' n) →
      nodeStatus env fuel c below = nodeStatus env' fuel c below := by
  intro fuel
  induction fuel with
  | zero =>
    intro c below _ _
    cases c with
    | key k => simp [nodeStatus]
    | acct a => simp [nodeStatus]
  | succ d ih =>
    intro c below hc hb
    cases c with
    | key k => simp [nodeStatus]
    | acct a =>
      simp only [nodeStatus]
      rw [hc]
      congr 1
      apply map_congr_mem
      intro x hx
      obtain ⟨t, ht⟩ := (mem_childNames x below).1 hx
      have hx' : env x = env' x := hb x (mem_flatten_of_mem ht (by simp))
      have hsub : ∀ n ∈ (under x below).flatten, env n = env' n := by
        intro n hn
        obtain ⟨t', ht', hnt'⟩ := List.mem_flatten.1 hn
        exact hb n (mem_flatten_of_mem ((mem_under x t' below).1 ht') (by simp [hnt']))
      rw [ih x (under x below) hx' hsub]

theorem kids_congr (env env' : Env) (d : Nat) (below : List URI) (hb : ∀ n ∈ below.flatten, env n = env' n) :
    kids env d below = kids env' d below := by
  simp only [kids_eq]
  apply map_congr_mem
  intro x hx
  obtain ⟨t, ht⟩ := (mem_childNames x below).1 hx
  have hx' : env x = env' x := hb x (mem_flatten_of_mem ht (by simp))
  have hsub : ∀ n ∈ (under x below).flatten, env n = env' n := by
    intro n hn
    obtain ⟨t', ht', hnt'⟩ := List.mem_flatten.1 hn
    exact hb n (mem_flatten_of_mem ((mem_under x t' below).1 ht') (by simp [hnt']))
  rw [nodeStatus_congr env env' d x (under x below) hx' hsub]

theorem identifyAccount_congr (env env' : Env) (root : Name) (us : List URI)
    (h : ∀ n ∈ lookupsAcc root us, env n = env' n) : identifyAccount env root us = identifyAccount env' root us := by
  unfold identifyAccount identifyAccountD
  cases root with
  | key k => rfl
  | acct a =>
    simp only
    rw [h (.acct a) (by simp [lookupsAcc])]
    rw [kids_congr env env' _ _ (fun n hn => h n (by simp [lookupsAcc, hn]))]

theorem checkMethodPerm_congr (env env' : Env) (rule : Option Rule) (us : List URI)
    (h : ∀ n ∈ lookupsMeth us, env n = env' n) : checkMethodPerm env rule us = checkMethodPerm env' rule us := by
  unfold checkMethodPerm checkMethodPermD
  rw [kids_congr env env' _ _ (fun n hn => h n (by simpa [lookupsMeth] using hn))]

/-! ## read faults -/

theorem any_false_iff (bad : Name → Bool) (l : List Name) : l.any bad = false ↔ ∀ n ∈ l, bad n = false := by
  induction l with
  | nil => simp
  | cons x xs ih => simp [List.any_cons, ih]

theorem identifyAccountF_iff (bad : Name → Bool) (env : Env) (root : Name) (us : List URI) :
    identifyAccountF bad env root us = true ↔
      (∀ n ∈ lookupsAcc root us, bad n = false) ∧ identifyAccount env root us = true := by
  unfold identifyAccountF
  rw [Bool.and_eq_true, Bool.not_eq_true', any_false_iff]

theorem checkMethodPermF_iff (bad : Name → Bool) (badRule : Bool) (env : Env) (rule : Option Rule) (us : List URI) :
    checkMethodPermF bad badRule env rule us = true ↔
      badRule = false ∧ (∀ n ∈ lookupsMeth us, bad n = false) ∧ checkMethodPerm env rule us = true := by
  unfold checkMethodPermF
  rw [Bool.and_eq_true, Bool.and_eq_true, Bool.not_eq_true', Bool.not_eq_true', any_false_iff, and_assoc]

theorem identifyAccountF_clean (env : Env) (root : Name) (us : List URI) :
    identifyAccountF (fun _ => false) env root us = identifyAccount env root us := by
  unfold identifyAccountF
  have : (lookupsAcc root us).any (fun _ => false) = false := (any_false_iff _ _).2 (fun _ _ => rfl)
  simp [this]

/-- an acceptance under read faults carries over to every environment that agrees on the readable names -/
theorem identifyAccountF_transfer (bad : Name → Bool) (env env' : Env) (hag : ∀ n, bad n = false → env' n = env n)
    (root : Name) (us : List URI) (h : identifyAccountF bad env root us = true) :
    identifyAccountF (fun _ => false) env' root us = true := by
  rw [identifyAccountF_clean]
  obtain ⟨hb, hid⟩ := (identifyAccountF_iff bad env root us).1 h
  rw [← hid]
  exact identifyAccount_congr env' env root us (fun n hn => hag n (hb n hn))

/-! ## the loops -/

/-- what `verifyRWSetPermission` demands of one write, for an arbitrary notion `P` of "this name is identified" -/
def WriteAuthG (P : Name → Prop) (own : Nat → Option Name) : Write → Prop
  | .account a => P a
  | .method c => ∃ o, own c = some o ∧ P o
  | .methodBadKey => False
  | .c2a none => False
  | .c2a (some a) => P a
  | .other => True

theorem verifyWritesG_sound (ident : Name → Bool) (own : Nat → Option Name) (P : Name → Prop)
    (hid : ∀ a, ident a = true → P a) :
    ∀ (ws : List Write) (ver : List Name), (∀ a ∈ ver, P a) →
      verifyWritesG ident own ws ver = true → ∀ w ∈ ws, WriteAuthG P own w := by
  intro ws
  induction ws with
  | nil => intro ver _ _ w hw; simp at hw
  | cons x xs ih =>
    intro ver hver hacc w hw
    have step : ∀ (a : Name),
        (if a ∈ ver then verifyWritesG ident own xs ver
          else if ident a then verifyWritesG ident own xs (a :: ver) else false) = true →
        P a ∧ ∀ w ∈ xs, WriteAuthG P own w := by
      intro a h
      by_cases hin : a ∈ ver
      · simp only [hin, if_true] at h
        exact ⟨hver a hin, ih ver hver h⟩
      · simp only [hin, if_false] at h
        by_cases hia : ident a = true
        · simp only [hia, if_true] at h
          refine ⟨hid a hia, ih (a :: ver) ?_ h⟩
          intro b hb
          rcases List.mem_cons.1 hb with e | e
          · exact e ▸ hid a hia
          · exact hver b e
        · simp [hia] at h
    cases x with
    | account a =>
      have := step a (by simpa [verifyWritesG] using hacc)
      rcases List.mem_cons.1 hw with e | e
      · subst e; exact this.1
      · exact this.2 w e
    | method c =>
      simp only [verifyWritesG] at hacc
      cases ho : own c with
      | none => simp [ho] at hacc
      | some o =>
        simp only [ho] at hacc
        have := step o hacc
        rcases List.mem_cons.1 hw with e | e
        · subst e; exact ⟨o, ho, this.1⟩
        · exact this.2 w e
    | methodBadKey => simp [verifyWritesG] at hacc
    | c2a a =>
      cases a with
      | none => simp [verifyWritesG] at hacc
      | some a =>
        have := step a (by simpa [verifyWritesG] using hacc)
        rcases List.mem_cons.1 hw with e | e
        · subst e; exact this.1
        · exact this.2 w e
    | other =>
      simp only [verifyWritesG] at hacc
      rcases List.mem_cons.1 hw with e | e
      · subst e; trivial
      · exact ih ver hver hacc w e

theorem verifyWritesG_mono (ident ident' : Name → Bool) (own : Nat → Option Name)
    (h : ∀ a, ident a = true → ident' a = true) :
    ∀ (ws : List Write) (ver : List Name), verifyWritesG ident own ws ver = true →
      verifyWritesG ident' own ws ver = true := by
  intro ws
  induction ws with
  | nil => intro ver _; simp [verifyWritesG]
  | cons x xs ih =>
    intro ver hacc
    have step : ∀ (a : Name),
        (if a ∈ ver then verifyWritesG ident own xs ver
          else if ident a then verifyWritesG ident own xs (a :: ver) else false) = true →
        (if a ∈ ver then verifyWritesG ident' own xs ver
          else if ident' a then verifyWritesG ident' own xs (a :: ver) else false) = true := by
      intro a hh
      by_cases hin : a ∈ ver
      · simp only [hin, if_true] at hh ⊢
        exact ih ver hh
      · simp only [hin, if_false] at hh ⊢
        by_cases hia : ident a = true
        · simp only [hia, if_true] at hh
          simp only [h a hia, if_true]
          exact ih (a :: ver) hh
        · simp [hia] at hh
    cases x with
    | account a => simpa [verifyWritesG] using step a (by simpa [verifyWritesG] using hacc)
    | method c =>
      simp only [verifyWritesG] at hacc ⊢
      cases ho : own c with
      | none => simp [ho] at hacc
      | some o =>
        simp only [ho] at hacc ⊢
        exact step o hacc
    | methodBadKey => simp [verifyWritesG] at hacc
    | c2a a =>
      cases a with
      | none => simp [verifyWritesG] at hacc
      | some a => simpa [verifyWritesG] using step a (by simpa [verifyWritesG] using hacc)
    | other =>
      simp only [verifyWritesG] at hacc ⊢
      exact ih ver hacc

/-- the loop of the model `verifyWrites` (the one `acl_change_needs_owner` is about) is the instance of the general loop -/
theorem verifyWrites_eq_G (ch : Chain) (auth : List URI) :
    ∀ (ws : List Write) (ver : List Name),
      verifyWrites ch auth ws ver = verifyWritesG (fun a => identifyAccount ch.env a auth) ch.owner ws ver := by
  intro ws
  induction ws with
  | nil => intro ver; simp [verifyWrites, verifyWritesG]
  | cons x xs ih =>
    intro ver
    cases x with
    | account a => simp only [verifyWrites, verifyWritesG, ih]
    | method c =>
      simp only [verifyWrites, verifyWritesG]
      cases ch.owner c with
      | none => rfl
      | some o => simp only [ih]
    | methodBadKey => simp [verifyWrites, verifyWritesG]
    | c2a a =>
      cases a with
      | none => simp [verifyWrites, verifyWritesG]
      | some a => simp only [verifyWrites, verifyWritesG, ih]
    | other => simp only [verifyWrites, verifyWritesG, ih]

/-- an owner of a token input is authorised: it is already verified, or it is an account whose stored rule can be read,
exists, and is satisfied by AuthRequire -/
def InputAuthorised (ch : TxChain) (auth : List URI) (ver : List Name) (o : Name) : Prop :=
  o ∈ ver ∨ ((∃ a, o = .acct a) ∧ ch.bad o = false ∧ ch.env o ≠ none ∧ identifyAccountF ch.bad ch.env o auth = true)

theorem InputAuthorised_cons (ch : TxChain) (auth : List URI) (ver : List Name) (o o' : Name)
    (ho : InputAuthorised ch auth ver o) : InputAuthorised ch auth (o :: ver) o' ↔ InputAuthorised ch auth ver o' := by
  unfold InputAuthorised at *
  constructor
  · rintro (h | h)
    · rcases List.mem_cons.1 h with e | e
      · subst e; exact ho
      · exact Or.inl e
    · exact Or.inr h
  · rintro (h | h)
    · exact Or.inl (List.mem_cons_of_mem _ h)
    · exact Or.inr h

theorem verifyUtxo_isSome_iff (ch : TxChain) (auth : List URI) :
    ∀ (ins ver : List Name), (verifyUtxo ch auth ins ver).isSome = true ↔ ∀ o ∈ ins, InputAuthorised ch auth ver o := by
  intro ins
  induction ins with
  | nil => intro ver; simp [verifyUtxo]
  | cons o rest ih =>
    intro ver
    by_cases hin : o ∈ ver
    · simp only [verifyUtxo, hin, if_true, List.mem_cons, forall_eq_or_imp]
      rw [ih ver]
      constructor
      · intro h; exact ⟨Or.inl hin, h⟩
      · intro h; exact h.2
    · cases o with
      | key k =>
        simp only [verifyUtxo, hin, if_false, List.mem_cons, forall_eq_or_imp]
        constructor
        · intro h; simp at h
        · rintro ⟨h | ⟨⟨a, ha⟩, _⟩, _⟩
          · exact absurd h hin
          · cases ha
      | acct a =>
        simp only [verifyUtxo, hin, if_false, List.mem_cons, forall_eq_or_imp]
        by_cases hbad : ch.bad (.acct a) = true
        · simp only [hbad, if_true]
          constructor
          · intro h; simp at h
          · rintro ⟨h | ⟨_, hb, _⟩, _⟩
            · exact absurd h hin
            · rw [hbad] at hb; cases hb
        · have hbad' : ch.bad (.acct a) = false := by simpa using hbad
          simp only [hbad', Bool.false_eq_true, if_false]
          by_cases hnone : (ch.env (.acct a)).isNone = true
          · simp only [hnone, if_true]
            constructor
            · intro h; simp at h
            · rintro ⟨h | ⟨_, _, hne, _⟩, _⟩
              · exact absurd h hin
              · exact absurd (Option.isNone_iff_eq_none.1 hnone) hne
          · have hne : ch.env (.acct a) ≠ none := fun e => hnone (Option.isNone_iff_eq_none.2 e)
            simp only [hnone, Bool.false_eq_true, if_false]
            by_cases hid : identifyAccountF ch.bad ch.env (.acct a) auth = true
            · have hauth : InputAuthorised ch auth ver (.acct a) := Or.inr ⟨⟨a, rfl⟩, hbad', hne, hid⟩
              simp only [hid, if_true]
              rw [ih (.acct a :: ver)]
              constructor
              · intro h
                exact ⟨hauth, fun o' ho' => (InputAuthorised_cons ch auth ver _ o' hauth).1 (h o' ho')⟩
              · intro h o' ho'
                exact (InputAuthorised_cons ch auth ver _ o' hauth).2 (h.2 o' ho')
            · simp only [hid]
              constructor
              · intro h; simp at h
              · rintro ⟨h | ⟨_, _, _, hi⟩, _⟩
                · exact absurd h hin
                · exact absurd hi hid

/-- the verified set only grows, and every name added by `verifyUTXOPermission` is an identified account -/
theorem verifyUtxo_ver (ch : TxChain) (auth : List URI) :
    ∀ (ins ver ver' : List Name), verifyUtxo ch auth ins ver = some ver' →
      (∀ n ∈ ver, n ∈ ver') ∧
      ∀ n ∈ ver', n ∈ ver ∨ ((∃ a, n = .acct a) ∧ identifyAccountF ch.bad ch.env n auth = true) := by
  intro ins
  induction ins with
  | nil =>
    intro ver ver' h
    simp only [verifyUtxo, Option.some.injEq] at h
    subst h
    exact ⟨fun _ h => h, fun _ h => Or.inl h⟩
  | cons o rest ih =>
    intro ver ver' h
    by_cases hin : o ∈ ver
    · simp only [verifyUtxo, hin, if_true] at h
      exact ih ver ver' h
    · cases o with
      | key k => simp [verifyUtxo, hin] at h
      | acct a =>
        simp only [verifyUtxo, hin, if_false] at h
        by_cases hbad : ch.bad (.acct a) = true
        · simp [hbad] at h
        · have hbad' : ch.bad (.acct a) = false := by simpa using hbad
          simp only [hbad', Bool.false_eq_true, if_false] at h
          by_cases hnone : (ch.env (.acct a)).isNone = true
          · simp [hnone] at h
          · simp only [hnone, Bool.false_eq_true, if_false] at h
            by_cases hid : identifyAccountF ch.bad ch.env (.acct a) auth = true
            · simp only [hid, if_true] at h
              obtain ⟨h1, h2⟩ := ih (.acct a :: ver) ver' h
              refine ⟨fun n hn => h1 n (List.mem_cons_of_mem _ hn), fun n hn => ?_⟩
              rcases h2 n hn with h3 | h3
              · rcases List.mem_cons.1 h3 with e | e
                · subst e; exact Or.inr ⟨⟨a, rfl⟩, hid⟩
                · exact Or.inl e
              · exact Or.inr h3
            · simp [hid] at h

/-- `verifyUTXOPermission` under read faults ⇒ the same result without faults on every agreeing environment -/
theorem verifyUtxo_transfer (ch ch' : TxChain) (hag : ∀ n, ch.bad n = false → ch'.env n = ch.env n)
    (hb' : ∀ n, ch'.bad n = false) (auth : List URI) :
    ∀ (ins ver ver' : List Name), verifyUtxo ch auth ins ver = some ver' → verifyUtxo ch' auth ins ver = some ver' := by
  have hbf : ch'.bad = fun _ => false := funext hb'
  intro ins
  induction ins with
  | nil => intro ver ver' h; simpa [verifyUtxo] using h
  | cons o rest ih =>
    intro ver ver' h
    by_cases hin : o ∈ ver
    · simp only [verifyUtxo, hin, if_true] at h ⊢
      exact ih ver ver' h
    · cases o with
      | key k => simp [verifyUtxo, hin] at h
      | acct a =>
        simp only [verifyUtxo, hin, if_false] at h ⊢
        by_cases hbad : ch.bad (.acct a) = true
        · simp [hbad] at h
        · have hbad' : ch.bad (.acct a) = false := by simpa using hbad
          simp only [hbad', Bool.false_eq_true, if_false] at h
          by_cases hnone : (ch.env (.acct a)).isNone = true
          · simp [hnone] at h
          · simp only [hnone, Bool.false_eq_true, if_false] at h
            by_cases hid : identifyAccountF ch.bad ch.env (.acct a) auth = true
            · simp only [hid, if_true] at h
              have hid' := identifyAccountF_transfer ch.bad ch.env ch'.env hag (.acct a) auth hid
              rw [← hbf] at hid'
              simp only [hb' (.acct a), Bool.false_eq_true, if_false, hag _ hbad', hnone, hid', if_true]
              exact ih _ ver' h
            · simp [hid] at h

/-- the AuthRequire loop of `verifySignatures`: every uri ends in a verified name, and every name it adds is a key
whose own valid signature accompanies a uri that ends with it -/
theorem sigAuth_sound :
    ∀ (l : List (URI × Option Name)) (ver ver' : List Name), sigAuth l ver = some ver' →
      (∀ n ∈ ver, n ∈ ver') ∧
      (∀ p ∈ l, ∃ n, p.1.getLast? = some n ∧ n ∈ ver') ∧
      (∀ n ∈ ver', n ∈ ver ∨ ∃ p ∈ l, p.1.getLast? = some n ∧ lastSigned p.1 p.2 = true) := by
  intro l
  induction l with
  | nil =>
    intro ver ver' h
    simp only [sigAuth, Option.some.injEq] at h
    subst h
    exact ⟨fun _ h => h, fun _ h => by simp at h, fun _ h => Or.inl h⟩
  | cons p rest ih =>
    intro ver ver' h
    obtain ⟨u, s⟩ := p
    simp only [sigAuth] at h
    cases hl : u.getLast? with
    | none => simp [hl] at h
    | some last =>
      simp only [hl] at h
      by_cases hin : last ∈ ver
      · simp only [hin, if_true] at h
        obtain ⟨h1, h2, h3⟩ := ih ver ver' h
        refine ⟨h1, ?_, ?_⟩
        · intro q hq
          rcases List.mem_cons.1 hq with e | e
          · subst e; exact ⟨last, hl, h1 _ hin⟩
          · exact h2 q e
        · intro n hn
          rcases h3 n hn with h4 | ⟨q, hq, h5⟩
          · exact Or.inl h4
          · exact Or.inr ⟨q, List.mem_cons_of_mem _ hq, h5⟩
      · simp only [hin, if_false] at h
        by_cases hs : lastSigned u s = true
        · simp only [hs, if_true] at h
          obtain ⟨h1, h2, h3⟩ := ih (last :: ver) ver' h
          refine ⟨fun n hn => h1 n (List.mem_cons_of_mem _ hn), ?_, ?_⟩
          · intro q hq
            rcases List.mem_cons.1 hq with e | e
            · subst e; exact ⟨last, hl, h1 _ (List.mem_cons_self)⟩
            · exact h2 q e
          · intro n hn
            rcases h3 n hn with h4 | ⟨q, hq, h5⟩
            · rcases List.mem_cons.1 h4 with e | e
              · subst e; exact Or.inr ⟨(u, s), List.mem_cons_self, hl, hs⟩
              · exact Or.inl e
            · exact Or.inr ⟨q, List.mem_cons_of_mem _ hq, h5⟩
        · simp [hs] at h

theorem lastSigned_key (u : URI) (s : Option Name) (n : Name) (hl : u.getLast? = some n) (h : lastSigned u s = true) :
    (∃ k, n = .key k) ∧ s = some n := by
  unfold lastSigned at h
  rw [hl] at h
  cases n with
  | acct a => simp at h
  | key k =>
    cases s with
    | none => simp at h
    | some j =>
      cases j with
      | acct b => simp at h
      | key j =>
        simp only [beq_iff_eq] at h
        subst h
        exact ⟨⟨k, rfl⟩, rfl⟩

theorem allSigned_keys : ∀ (l : List (Option Name)) (ks : List Name), allSigned l = some ks →
    l = ks.map some ∧ ∀ n ∈ ks, ∃ k, n = .key k := by
  intro l
  induction l with
  | nil => intro ks h; simp only [allSigned, Option.some.injEq] at h; subst h; simp
  | cons x xs ih =>
    intro ks h
    cases x with
    | none => simp [allSigned] at h
    | some n =>
      cases n with
      | acct a => simp [allSigned] at h
      | key k =>
        simp only [allSigned, Option.map_eq_some_iff] at h
        obtain ⟨ks', hk, rfl⟩ := h
        obtain ⟨h1, h2⟩ := ih ks' hk
        refine ⟨by simp [h1], ?_⟩
        intro n hn
        rcases List.mem_cons.1 hn with e | e
        · exact ⟨k, e⟩
        · exact h2 n e

end XV.C11
