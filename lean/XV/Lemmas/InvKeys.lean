import XV.Lemmas.Assoc
import XV.Lemmas.ChainFrame
/-!
What `applyTx` does to the current version of a key (`curVer`): a key the transaction does not write keeps its
version; a key it writes is afterwards at a version created by this transaction.
-/
namespace XV.Chain

theorem applyKOut_curVer (t : Tx) (l : List KOut) (off : Nat) (s : St) (k : String) :
    (k ∉ l.map (·.key) → curVer (applyKOut t l off s) k = curVer s k) ∧
    (k ∈ l.map (·.key) → ∃ o, curVer (applyKOut t l off s) k = some (t.id, o)) := by
  induction l generalizing off s with
  | nil => simp [applyKOut]
  | cons ko rest ih =>
    unfold applyKOut
    simp only
    generalize hs' : (if ko.del = true then { s with ZU := del s.ZU ko.key, ZD := put s.ZD ko.key (t.id, off) }
      else { s with ZU := put s.ZU ko.key (t.id, off) }) = s'
    have hsame : ko.key ≠ k → curVer s' k = curVer s k := by
      intro hne
      subst hs'
      by_cases hd : ko.del = true
      · simp [hd, curVer, lookup_del, lookup_put, hne]
      · simp [hd, curVer, lookup_put, hne]
    have hkey : ko.key = k → curVer s' k = some (t.id, off) := by
      intro he
      subst hs'
      by_cases hd : ko.del = true
      · simp [hd, curVer, lookup_del, lookup_put, he]
      · simp [hd, curVer, lookup_put, he]
    obtain ⟨ih1, ih2⟩ := ih (off + 1) s'
    constructor
    · intro hk
      simp only [List.map_cons, List.mem_cons, not_or] at hk
      rw [ih1 hk.2]
      exact hsame (fun e => hk.1 e.symm)
    · intro hk
      by_cases hr : k ∈ rest.map (·.key)
      · exact ih2 hr
      · simp only [List.map_cons, List.mem_cons] at hk
        rcases hk with hk | hk
        · rw [ih1 hr]; exact ⟨off, hkey hk.symm⟩
        · exact absurd hk hr

theorem applyTx_curVer (s : St) (t : Tx) (k : String) :
    curVer (applyTx s t) k = curVer (applyKOut t t.kout 0 s) k := by
  unfold applyTx
  obtain ⟨h1, h2, _⟩ := applyOuts_frame t t.outs 0
    { applyKOut t t.kout 0 s with U := t.ins.foldl (fun u r => del u (r.tx, r.off)) (applyKOut t t.kout 0 s).U }
  unfold curVer
  rw [h1, h2]

/-- a key not written by `t` keeps its current version -/
theorem applyTx_curVer_other (s : St) (t : Tx) (k : String) (hk : ∀ ko ∈ t.kout, ko.key ≠ k) :
    curVer (applyTx s t) k = curVer s k := by
  rw [applyTx_curVer]
  apply (applyKOut_curVer t t.kout 0 s k).1
  intro hm
  obtain ⟨ko, hko, he⟩ := List.mem_map.mp hm
  exact hk ko hko he

/-- a key written by `t` is afterwards at a version created by `t` -/
theorem applyTx_curVer_written (s : St) (t : Tx) (k : String) (hk : ∃ ko ∈ t.kout, ko.key = k) :
    ∃ o, curVer (applyTx s t) k = some (t.id, o) := by
  rw [applyTx_curVer]
  apply (applyKOut_curVer t t.kout 0 s k).2
  obtain ⟨ko, hko, he⟩ := hk
  exact List.mem_map.mpr ⟨ko, hko, he⟩

end XV.Chain
