import XV.Model.GovToken
/-! helper lemmas about the `gov` model (C19): buckets, primitive calls, invariants -/
namespace XV.GovToken

/-! ### buckets -/

theorem aget_aput {κ ν : Type} [DecidableEq κ] (l : List (κ × ν)) (a x : κ) (b : ν) :
    aget (aput l a b) x = if x = a then some b else aget l x := by
  induction l with
  | nil =>
    by_cases h : x = a
    · simp [aput, aget, h]
    · have h' : ¬ a = x := fun e => h e.symm
      simp [aput, aget, h, h']
  | cons hd r ih =>
    obtain ⟨k, v⟩ := hd
    by_cases hk : k = a
    · by_cases h : x = a
      · simp [aput, aget, hk, h]
      · have h' : ¬ a = x := fun e => h e.symm
        simp [aput, aget, hk, h, h']
    · by_cases h : x = a
      · subst h
        simp [aput, aget, hk] at ih ⊢
        exact ih
      · simp [aput, aget, hk, ih, h]

/-- the record `balanceOf` returns for an account (a fresh `NewGovernTokenBalance` if absent) -/
def recOf (l : List (Acct × Bal)) (a : Acct) : Bal := (aget l a).getD Bal.zero

theorem recOf_aput (l : List (Acct × Bal)) (a x : Acct) (b : Bal) :
    recOf (aput l a b) x = if x = a then b else recOf l x := by
  unfold recOf
  rw [aget_aput]
  split <;> simp

theorem sumTot_aput (l : List (Acct × Bal)) (a : Acct) (b : Bal) :
    sumTot (aput l a b) = sumTot l - (recOf l a).total + b.total := by
  induction l with
  | nil => simp [aput, sumTot, recOf, aget, Bal.zero]
  | cons hd r ih =>
    obtain ⟨k, v⟩ := hd
    by_cases hk : k = a
    · simp [aput, sumTot, recOf, aget, hk]; omega
    · have : recOf ((k, v) :: r) a = recOf r a := by simp [recOf, aget, hk]
      rw [this]
      simp [aput, sumTot, hk, ih]; omega

/-! ### what a successful primitive call did -/

def Bal.addTotal (b : Bal) (d : Int) : Bal := { b with total := b.total + d }

/-- the two writes of a transfer: debit and write the sender, then read, credit and write the receiver -/
def xferBal (l : List (Acct × Bal)) (s t : Acct) (sb : Bal) (n : Int) : List (Acct × Bal) :=
  let l1 := aput l s (sb.addTotal (-n))
  aput l1 t ((recOf l1 t).addTotal n)

theorem transfer_some {g g' : Gov} {s t : Acct} {n : Int} (h : transfer g s t n = some g') :
    ∃ sb, aget g.bal s = some sb ∧ 0 ≤ n ∧ n ≤ sb.total - sb.ord ∧ n ≤ sb.total - sb.tdp ∧
      g' = { g with bal := xferBal g.bal s t sb n } := by
  unfold transfer at h
  split at h
  · contradiction
  · split at h
    · contradiction
    · rename_i sb hsb
      split at h
      · contradiction
      · rename_i hn hc
        refine ⟨sb, hsb, by omega, by omega, by omega, ?_⟩
        simp only [Option.some.injEq] at h
        rw [← h]
        simp [xferBal, Bal.addTotal, recOf, Int.sub_eq_add_neg]

theorem lock_some {g g' : Gov} {c : Caller} {a : Acct} {n : Int} {τ : Option LockType}
    (h : lock g c a n τ = some g') :
    ∃ ty b, τ = some ty ∧ c.mayLock = true ∧ aget g.bal a = some b ∧ 0 ≤ n ∧ n ≤ b.total - b.locked ty ∧
      g' = { g with bal := aput g.bal a (b.addLocked ty n) } := by
  unfold lock at h
  split at h
  · contradiction
  · rename_i hc
    split at h
    · contradiction
    · rename_i ty
      split at h
      · contradiction
      · rename_i b hb
        split at h
        · contradiction
        · split at h
          · contradiction
          · simp only [Option.some.injEq] at h
            refine ⟨ty, b, rfl, by simpa using hc, hb, by omega, by omega, h.symm⟩

theorem unlock_some {g g' : Gov} {c : Caller} {a : Acct} {n : Int} {τ : Option LockType}
    (h : unlock g c a n τ = some g') :
    ∃ ty b, τ = some ty ∧ c.mayLock = true ∧ aget g.bal a = some b ∧ 0 ≤ n ∧ n ≤ b.locked ty ∧
      g' = { g with bal := aput g.bal a (b.addLocked ty (-n)) } := by
  unfold unlock at h
  split at h
  · contradiction
  · rename_i hc
    split at h
    · contradiction
    · rename_i b hb
      split at h
      · contradiction
      · split at h
        · contradiction
        · rename_i ty
          split at h
          · contradiction
          · simp only [Option.some.injEq] at h
            refine ⟨ty, b, rfl, by simpa using hc, hb, by omega, by omega, h.symm⟩

theorem init_some {pre : List (Acct × Int)} {g g' : Gov} (h : init pre g = some g') :
    g.distributed = false ∧ ∃ bal sup, initLoop g.bal 0 pre = some (bal, sup) ∧
      g' = { bal := bal, supply := some sup, distributed := true } := by
  unfold init at h
  split at h
  · contradiction
  · rename_i hd
    split at h
    · contradiction
    · rename_i bal sup hl
      simp only [Option.some.injEq] at h
      exact ⟨by simpa using hd, bal, sup, hl, h.symm⟩

/-! ### effect of the writes on records and on the sum -/

theorem recOf_of_aget {l : List (Acct × Bal)} {a : Acct} {b : Bal} (h : aget l a = some b) : recOf l a = b := by
  simp [recOf, h]

theorem xferBal_total {l : List (Acct × Bal)} {s t : Acct} {sb : Bal} {n : Int} (hs : aget l s = some sb) (x : Acct) :
    (recOf (xferBal l s t sb n) x).total
      = (recOf l x).total + (if x = t then n else 0) - (if x = s then n else 0) := by
  have hsb := recOf_of_aget hs
  unfold xferBal
  simp only [recOf_aput]
  by_cases hxt : x = t <;> by_cases hxs : x = s
  · subst hxt; subst hxs; simp [Bal.addTotal, hsb]; omega
  · subst hxt; simp [Bal.addTotal, hxs]
  · subst hxs; simp [Bal.addTotal, hxt, hsb]; omega
  · simp [hxt, hxs]

theorem xferBal_locked {l : List (Acct × Bal)} {s t : Acct} {sb : Bal} {n : Int} (hs : aget l s = some sb) (x : Acct)
    (τ : LockType) : (recOf (xferBal l s t sb n) x).locked τ = (recOf l x).locked τ := by
  have hsb := recOf_of_aget hs
  unfold xferBal
  simp only [recOf_aput]
  by_cases hxt : x = t <;> by_cases hxs : x = s
  · subst hxt; subst hxs; cases τ <;> simp [Bal.addTotal, Bal.locked, hsb]
  · subst hxt; cases τ <;> simp [Bal.addTotal, Bal.locked, hxs]
  · subst hxs; cases τ <;> simp [Bal.addTotal, Bal.locked, hxt, hsb]
  · simp [hxt, hxs]

theorem xferBal_sum {l : List (Acct × Bal)} {s t : Acct} {sb : Bal} {n : Int} (hs : aget l s = some sb) :
    sumTot (xferBal l s t sb n) = sumTot l := by
  have hsb := recOf_of_aget hs
  unfold xferBal
  simp only [sumTot_aput, hsb, Bal.addTotal]
  omega

theorem addLocked_total (b : Bal) (τ : LockType) (d : Int) : (b.addLocked τ d).total = b.total := by
  cases τ <;> rfl

theorem addLocked_locked (b : Bal) (τ σ : LockType) (d : Int) :
    (b.addLocked τ d).locked σ = if σ = τ then b.locked τ + d else b.locked σ := by
  cases τ <;> cases σ <;> simp [Bal.addLocked, Bal.locked]

theorem sumTot_aput_addLocked {l : List (Acct × Bal)} {a : Acct} {b : Bal} (h : aget l a = some b) (τ : LockType)
    (d : Int) : sumTot (aput l a (b.addLocked τ d)) = sumTot l := by
  rw [sumTot_aput, recOf_of_aget h, addLocked_total]; omega

/-! ### invariants -/

def quotaSum : List (Acct × Int) → Int
  | [] => 0
  | (_, q) :: r => q + quotaSum r

/-- a record is sane: every locked amount lies between 0 and the total balance -/
def RecOK (b : Bal) : Prop := 0 ≤ b.ord ∧ b.ord ≤ b.total ∧ 0 ≤ b.tdp ∧ b.tdp ≤ b.total

def LocksOK (l : List (Acct × Bal)) : Prop := ∀ a, RecOK (recOf l a)

theorem recOK_zero : RecOK Bal.zero := by simp [RecOK, Bal.zero]

theorem locksOK_nil : LocksOK [] := by
  intro a; simp [recOf, aget]; exact recOK_zero

theorem locksOK_aput {l : List (Acct × Bal)} (h : LocksOK l) (a : Acct) {b : Bal} (hb : RecOK b) :
    LocksOK (aput l a b) := by
  intro x
  rw [recOf_aput]
  split
  · exact hb
  · exact h x

theorem initLoop_spec {pre : List (Acct × Int)} : ∀ {bal : List (Acct × Bal)} {sup : Int} {bal' : List (Acct × Bal)}
    {sup' : Int}, initLoop bal sup pre = some (bal', sup') →
      sup' - sumTot bal' = sup - sumTot bal ∧ sup' = sup + quotaSum pre ∧ (LocksOK bal → LocksOK bal') ∧
        ∀ a τ, (recOf bal' a).locked τ = (recOf bal a).locked τ := by
  induction pre with
  | nil =>
    intro bal sup bal' sup' h
    simp only [initLoop, Option.some.injEq, Prod.mk.injEq] at h
    obtain ⟨h1, h2⟩ := h
    subst h1; subst h2
    simp [quotaSum]
  | cons hd r ih =>
    intro bal sup bal' sup' h
    obtain ⟨a, q⟩ := hd
    unfold initLoop at h
    split at h
    · contradiction
    · rename_i hq
      obtain ⟨h1, h2, h3, h4⟩ := ih h
      refine ⟨?_, ?_, ?_, ?_⟩
      · rw [h1, sumTot_aput]
        show _ = sup - sumTot bal
        have : ((aget bal a).getD Bal.zero) = recOf bal a := rfl
        simp only [this]
        omega
      · rw [h2]; simp [quotaSum]; omega
      · intro hl
        apply h3
        apply locksOK_aput hl
        have := hl a
        simp only [RecOK, recOf] at this ⊢
        omega
      · intro x τ
        rw [h4, recOf_aput]
        split
        · rename_i hx
          subst hx
          cases τ <;> simp [Bal.locked, recOf]
        · rfl

structure Good (pre : List (Acct × Int)) (g : Gov) : Prop where
  /-- after initialisation the recorded total supply is the sum of all balances -/
  sum : g.distributed = true → g.supply = some (sumTot g.bal)
  /-- before initialisation there are no balances -/
  empty : g.distributed = false → g.bal = []
  /-- the total supply is the sum of the genesis quotas, fixed at initialisation -/
  genesis : g.distributed = true → g.supply = some (quotaSum pre)
  locks : LocksOK g.bal

theorem good_new (pre : List (Acct × Int)) : Good pre {} :=
  ⟨by simp, by simp, by simp, locksOK_nil⟩

theorem good_init {pre : List (Acct × Int)} {g g' : Gov} (hg : Good pre g) (h : init pre g = some g') : Good pre g' := by
  obtain ⟨hd, bal, sup, hl, rfl⟩ := init_some h
  obtain ⟨h1, h2, h3, _⟩ := initLoop_spec hl
  have he := hg.empty hd
  rw [he] at h1 h3
  simp only [sumTot] at h1
  refine ⟨fun _ => ?_, by simp, fun _ => ?_, h3 locksOK_nil⟩
  · show some sup = some (sumTot bal)
    congr 1; omega
  · show some sup = some (quotaSum pre)
    congr 1; omega

theorem good_transfer {pre : List (Acct × Int)} {g g' : Gov} {s t : Acct} {n : Int} (hg : Good pre g)
    (h : transfer g s t n = some g') : Good pre g' := by
  obtain ⟨sb, hs, hn, ho, ht, rfl⟩ := transfer_some h
  refine ⟨fun hd => ?_, fun hd => ?_, fun hd => hg.genesis hd, ?_⟩
  · show g.supply = some (sumTot (xferBal g.bal s t sb n))
    rw [xferBal_sum hs]; exact hg.sum hd
  · have := hg.empty hd
    rw [this] at hs; simp [aget] at hs
  · intro x
    have hx := hg.locks x
    have hsb := recOf_of_aget hs
    have htot := xferBal_total (t := t) (n := n) hs x
    have ho' := xferBal_locked (t := t) (n := n) hs x .ordinary
    have ht' := xferBal_locked (t := t) (n := n) hs x .tdpos
    simp only [Bal.locked] at ho' ht'
    simp only [RecOK] at hx ⊢
    by_cases hxs : x = s
    · have e : recOf g.bal x = sb := hxs ▸ hsb
      rw [if_pos hxs, e] at htot
      rw [e] at ho' ht' hx
      split at htot <;> omega
    · rw [if_neg hxs] at htot
      split at htot <;> omega

theorem good_lock {pre : List (Acct × Int)} {g g' : Gov} {c : Caller} {a : Acct} {n : Int} {τ : Option LockType}
    (hg : Good pre g) (h : lock g c a n τ = some g') : Good pre g' := by
  obtain ⟨ty, b, _, _, hb, hn, hle, rfl⟩ := lock_some h
  refine ⟨fun hd => ?_, fun hd => ?_, fun hd => hg.genesis hd, ?_⟩
  · show g.supply = some (sumTot (aput g.bal a (b.addLocked ty n)))
    rw [sumTot_aput_addLocked hb]; exact hg.sum hd
  · have := hg.empty hd
    rw [this] at hb; simp [aget] at hb
  · apply locksOK_aput hg.locks
    have := hg.locks a
    rw [recOf_of_aget hb] at this
    cases ty <;> simp only [RecOK, Bal.addLocked, Bal.locked] at this hle ⊢ <;> omega

theorem good_unlock {pre : List (Acct × Int)} {g g' : Gov} {c : Caller} {a : Acct} {n : Int} {τ : Option LockType}
    (hg : Good pre g) (h : unlock g c a n τ = some g') : Good pre g' := by
  obtain ⟨ty, b, _, _, hb, hn, hle, rfl⟩ := unlock_some h
  refine ⟨fun hd => ?_, fun hd => ?_, fun hd => hg.genesis hd, ?_⟩
  · show g.supply = some (sumTot (aput g.bal a (b.addLocked ty (-n))))
    rw [sumTot_aput_addLocked hb]; exact hg.sum hd
  · have := hg.empty hd
    rw [this] at hb; simp [aget] at hb
  · apply locksOK_aput hg.locks
    have := hg.locks a
    rw [recOf_of_aget hb] at this
    cases ty <;> simp only [RecOK, Bal.addLocked, Bal.locked] at this hle ⊢ <;> omega

/-! ### locked amounts and totals across primitive calls -/

theorem lockedOf_eq (g : Gov) (a : Acct) (τ : LockType) : lockedOf g a τ = (recOf g.bal a).locked τ := rfl

theorem totalOf_eq (g : Gov) (a : Acct) : totalOf g a = (recOf g.bal a).total := rfl

theorem transfer_lockedOf {g g' : Gov} {s t : Acct} {n : Int} (h : transfer g s t n = some g') (x : Acct) (σ : LockType) :
    lockedOf g' x σ = lockedOf g x σ := by
  obtain ⟨sb, hs, _, _, _, rfl⟩ := transfer_some h
  exact xferBal_locked hs x σ

theorem transfer_totalOf {g g' : Gov} {s t : Acct} {n : Int} (h : transfer g s t n = some g') (x : Acct) :
    totalOf g' x = totalOf g x + (if x = t then n else 0) - (if x = s then n else 0) := by
  obtain ⟨sb, hs, _, _, _, rfl⟩ := transfer_some h
  exact xferBal_total hs x

theorem init_lockedOf {pre : List (Acct × Int)} {g g' : Gov} (h : init pre g = some g') (x : Acct) (σ : LockType) :
    lockedOf g' x σ = lockedOf g x σ := by
  obtain ⟨_, bal, sup, hl, rfl⟩ := init_some h
  exact (initLoop_spec hl).2.2.2 x σ

theorem lock_lockedOf {g g' : Gov} {c : Caller} {a : Acct} {n : Int} {τ : Option LockType}
    (h : lock g c a n τ = some g') (x : Acct) (σ : LockType) :
    lockedOf g' x σ = if x = a ∧ τ = some σ then lockedOf g x σ + n else lockedOf g x σ := by
  obtain ⟨ty, b, rfl, _, hb, _, _, rfl⟩ := lock_some h
  simp only [lockedOf_eq, recOf_aput]
  by_cases hx : x = a
  · subst hx
    rw [if_pos rfl, addLocked_locked, recOf_of_aget hb]
    by_cases hσ : σ = ty
    · subst hσ; simp
    · have : ¬ ty = σ := fun e => hσ e.symm
      simp [hσ, this]
  · simp [hx]

theorem unlock_lockedOf {g g' : Gov} {c : Caller} {a : Acct} {n : Int} {τ : Option LockType}
    (h : unlock g c a n τ = some g') (x : Acct) (σ : LockType) :
    lockedOf g' x σ = if x = a ∧ τ = some σ then lockedOf g x σ - n else lockedOf g x σ := by
  obtain ⟨ty, b, rfl, _, hb, _, _, rfl⟩ := unlock_some h
  simp only [lockedOf_eq, recOf_aput]
  by_cases hx : x = a
  · subst hx
    rw [if_pos rfl, addLocked_locked, recOf_of_aget hb]
    by_cases hσ : σ = ty
    · subst hσ; simp; omega
    · have : ¬ ty = σ := fun e => hσ e.symm
      simp [hσ, this]
  · simp [hx]

theorem lock_totalOf {g g' : Gov} {c : Caller} {a : Acct} {n : Int} {τ : Option LockType}
    (h : lock g c a n τ = some g') (x : Acct) : totalOf g' x = totalOf g x := by
  obtain ⟨ty, b, rfl, _, hb, _, _, rfl⟩ := lock_some h
  simp only [totalOf_eq, recOf_aput]
  split
  · rename_i hx; subst hx; rw [addLocked_total, recOf_of_aget hb]
  · rfl

theorem unlock_totalOf {g g' : Gov} {c : Caller} {a : Acct} {n : Int} {τ : Option LockType}
    (h : unlock g c a n τ = some g') (x : Acct) : totalOf g' x = totalOf g x := by
  obtain ⟨ty, b, rfl, _, hb, _, _, rfl⟩ := unlock_some h
  simp only [totalOf_eq, recOf_aput]
  split
  · rename_i hx; subst hx; rw [addLocked_total, recOf_of_aget hb]
  · rfl

/-! ### `unlockGovernTokensForProposal` -/

theorem good_unlockAll {pre : List (Acct × Int)} (pid : Nat) (l : List ((Nat × Acct) × Int)) :
    ∀ {g : Gov}, Good pre g → Good pre (unlockAll g pid l) := by
  induction l with
  | nil => intro g hg; exact hg
  | cons hd r ih =>
    intro g hg
    obtain ⟨⟨p, a⟩, amt⟩ := hd
    unfold unlockAll
    split
    · apply ih
      cases hu : unlock g .proposal a amt (some .ordinary) with
      | none => exact hg
      | some g' => exact good_unlock hg hu
    · exact ih hg

theorem unlockAll_fields (pid : Nat) (l : List ((Nat × Acct) × Int)) :
    ∀ (g : Gov), (unlockAll g pid l).supply = g.supply ∧ (unlockAll g pid l).distributed = g.distributed := by
  induction l with
  | nil => intro g; exact ⟨rfl, rfl⟩
  | cons hd r ih =>
    intro g
    obtain ⟨⟨p, a⟩, amt⟩ := hd
    unfold unlockAll
    split
    · cases hu : unlock g .proposal a amt (some .ordinary) with
      | none => exact ih g
      | some g' =>
        obtain ⟨ty, b, _, _, _, _, _, rfl⟩ := unlock_some hu
        exact ih _
    · exact ih g

theorem unlockAll_totalOf (pid : Nat) (l : List ((Nat × Acct) × Int)) (x : Acct) :
    ∀ (g : Gov), totalOf (unlockAll g pid l) x = totalOf g x := by
  induction l with
  | nil => intro g; rfl
  | cons hd r ih =>
    intro g
    obtain ⟨⟨p, a⟩, amt⟩ := hd
    unfold unlockAll
    split
    · cases hu : unlock g .proposal a amt (some .ordinary) with
      | none => exact ih g
      | some g' => rw [Option.getD_some, ih g', unlock_totalOf hu]
    · exact ih g

/-- a release changes only ordinary locks, only downwards, and only of accounts that have a lock record of
that proposal -/
theorem unlockAll_lockedOf (pid : Nat) (l : List ((Nat × Acct) × Int)) (x : Acct) (σ : LockType) :
    ∀ (g : Gov), lockedOf (unlockAll g pid l) x σ ≤ lockedOf g x σ ∧
      (lockedOf (unlockAll g pid l) x σ ≠ lockedOf g x σ →
        σ = .ordinary ∧ lockScanCovers x = true ∧ ∃ amt, ((pid, x), amt) ∈ l) := by
  induction l with
  | nil => intro g; exact ⟨Int.le_refl _, fun h => absurd rfl h⟩
  | cons hd r ih =>
    intro g
    obtain ⟨⟨p, a⟩, amt⟩ := hd
    unfold unlockAll
    split
    · rename_i hc
      cases hu : unlock g .proposal a amt (some .ordinary) with
      | none =>
        obtain ⟨h1, h2⟩ := ih g
        refine ⟨h1, fun hne => ?_⟩
        obtain ⟨e, hsc, amt', hm⟩ := h2 hne
        exact ⟨e, hsc, amt', List.mem_cons_of_mem _ hm⟩
      | some g' =>
        rw [Option.getD_some]
        obtain ⟨h1, h2⟩ := ih g'
        have hstep := unlock_lockedOf hu x σ
        obtain ⟨ty, b, _, _, _, hn, _, _⟩ := unlock_some hu
        by_cases hx : x = a ∧ some LockType.ordinary = some σ
        · rw [if_pos hx] at hstep
          refine ⟨by omega, fun _ => ?_⟩
          obtain ⟨hxa, hσ⟩ := hx
          simp only [Option.some.injEq] at hσ
          refine ⟨hσ.symm, hxa ▸ hc.2, amt, ?_⟩
          rw [hxa, ← hc.1]
          exact List.mem_cons_self
        · rw [if_neg hx] at hstep
          refine ⟨by omega, fun hne => ?_⟩
          have : lockedOf (unlockAll g' pid r) x σ ≠ lockedOf g' x σ := by rw [hstep]; exact hne
          obtain ⟨e, hsc, amt', hm⟩ := h2 this
          exact ⟨e, hsc, amt', List.mem_cons_of_mem _ hm⟩
    · obtain ⟨h1, h2⟩ := ih g
      refine ⟨h1, fun hne => ?_⟩
      obtain ⟨e, hsc, amt', hm⟩ := h2 hne
      exact ⟨e, hsc, amt', List.mem_cons_of_mem _ hm⟩

/-! ### the timer callbacks only release proposal locks -/

/-- `w'` results from `w` by releasing (unlocking) recorded proposal locks and nothing else on the token bucket -/
structure Releases (w w' : World) : Prop where
  pre : w'.pre = w.pre
  locks : w'.locks = w.locks
  good : Good w.pre w.gov → Good w.pre w'.gov
  total : ∀ x, totalOf w'.gov x = totalOf w.gov x
  le : ∀ x σ, lockedOf w'.gov x σ ≤ lockedOf w.gov x σ
  only : ∀ x σ, lockedOf w'.gov x σ ≠ lockedOf w.gov x σ →
    σ = .ordinary ∧ lockScanCovers x = true ∧ ∃ pid amt, ((pid, x), amt) ∈ w.locks

theorem Releases.refl (w : World) : Releases w w :=
  ⟨rfl, rfl, id, fun _ => rfl, fun _ _ => Int.le_refl _, fun _ _ h => absurd rfl h⟩

theorem Releases.trans {w w' w'' : World} (h1 : Releases w w') (h2 : Releases w' w'') : Releases w w'' := by
  refine ⟨h2.pre.trans h1.pre, h2.locks.trans h1.locks, fun hg => ?_, fun x => (h2.total x).trans (h1.total x),
    fun x σ => Int.le_trans (h2.le x σ) (h1.le x σ), fun x σ hne => ?_⟩
  · have := h2.good (h1.pre ▸ h1.good hg)
    rw [h1.pre] at this
    exact this
  · by_cases h : lockedOf w''.gov x σ = lockedOf w'.gov x σ
    · exact h1.only x σ (by rw [← h]; exact hne)
    · have := h2.only x σ h
      rw [h1.locks] at this
      exact this

theorem releases_unlockAll (w : World) (pid : Nat) (props : List (Nat × Proposal)) :
    Releases w { w with gov := unlockAll w.gov pid w.locks, props := props } := by
  refine ⟨rfl, rfl, fun hg => good_unlockAll pid w.locks hg, fun x => unlockAll_totalOf pid w.locks x w.gov,
    fun x σ => (unlockAll_lockedOf pid w.locks x σ w.gov).1, fun x σ hne => ?_⟩
  obtain ⟨e, hsc, amt, hm⟩ := (unlockAll_lockedOf pid w.locks x σ w.gov).2 hne
  exact ⟨e, hsc, pid, amt, hm⟩

theorem releases_sameGov {w w' : World} (hp : w'.pre = w.pre) (hl : w'.locks = w.locks) (hg : w'.gov = w.gov) :
    Releases w w' := by
  refine ⟨hp, hl, fun h => hg ▸ h, fun x => by rw [hg], fun x σ => by rw [hg]; exact Int.le_refl _,
    fun x σ hne => absurd (by rw [hg]) hne⟩

theorem releases_checkVote (w : World) (pid : Nat) : Releases w (checkVote w pid) := by
  unfold checkVote
  split
  · exact Releases.refl w
  · split
    · exact Releases.refl w
    · split
      · exact Releases.refl w
      · split
        · exact releases_unlockAll w pid _
        · exact releases_sameGov rfl rfl rfl

theorem releases_trigger (w : World) (pid : Nat) : Releases w (trigger w pid) := by
  unfold trigger
  split
  · exact Releases.refl w
  · split
    · exact Releases.refl w
    · exact releases_unlockAll w pid _

theorem releases_runTask (w : World) (t : Task) : Releases w (runTask w t) := by
  unfold runTask
  split
  · exact releases_checkVote w t.pid
  · exact releases_trigger w t.pid

theorem releases_foldl (ts : List Task) : ∀ (w : World), Releases w (ts.foldl runTask w) := by
  induction ts with
  | nil => intro w; exact Releases.refl w
  | cons t r ih => intro w; exact (releases_runTask w t).trans (ih _)

theorem releases_timerDo (w : World) (h : Int) : Releases w (timerDo w h) :=
  releases_foldl _ w

/-! ### Propose / Vote / Thaw reach the token bucket through exactly one Lock / UnLock by `$proposal` -/

theorem propose_some {w w' : World} {a : Acct} {pct stop trig : Int} {ok : Bool} {pid : Nat}
    (h : propose w a pct stop trig ok = some (w', pid)) :
    ∃ g, lock w.gov .proposal a 1000 (some .ordinary) = some g ∧ w'.gov = g ∧ w'.pre = w.pre := by
  unfold propose at h
  simp only at h
  split at h
  · contradiction
  · split at h
    · contradiction
    · split at h
      · contradiction
      · rename_i g hg
        simp only [Option.some.injEq, Prod.mk.injEq] at h
        obtain ⟨h, _⟩ := h
        subst h
        exact ⟨g, hg, rfl, rfl⟩

theorem vote_some {w w' : World} {a : Acct} {pid : Nat} {n : Int} (h : vote w a pid n = some w') :
    ∃ g, lock w.gov .proposal a n (some .ordinary) = some g ∧ w'.gov = g ∧ w'.pre = w.pre := by
  unfold vote at h
  split at h
  · contradiction
  · split at h
    · contradiction
    · split at h
      · contradiction
      · split at h
        · contradiction
        · rename_i g hg
          simp only [Option.some.injEq] at h
          subst h
          exact ⟨g, hg, rfl, rfl⟩

theorem thaw_some {w w' : World} {a : Acct} {pid : Nat} (h : thaw w a pid = some w') :
    ∃ amt g, aget w.locks (pid, a) = some amt ∧ unlock w.gov .proposal a amt (some .ordinary) = some g ∧
      w'.gov = g ∧ w'.pre = w.pre := by
  unfold thaw at h
  split at h
  · contradiction
  · split at h
    · contradiction
    · split at h
      · contradiction
      · split at h
        · contradiction
        · split at h
          · contradiction
          · rename_i amt hamt
            split at h
            · contradiction
            · rename_i g hg
              simp only [Option.some.injEq] at h
              subst h
              exact ⟨amt, g, hamt, hg, rfl, rfl⟩

/-! ### the `$tdpos` methods reach the token bucket through exactly one Lock / UnLock by `$tdpos` on the INITIATOR -/

theorem nominate_some {w w' : World} {i c : Acct} {n : Int} {auth : Bool} {h : Int}
    (hh : nominate w i c n auth h = some w') :
    ∃ s g, tdSnapAt w h = some s ∧ 0 < n ∧ tdAuth i c auth = true ∧
      lock w.gov .tdpos i n (some .tdpos) = some g ∧ aget s.nom c = none ∧
      w' = { w with gov := g, td := { w.td with nom := aput s.nom c (i, n) } } := by
  unfold nominate at hh
  split at hh
  · contradiction
  · rename_i s hs
    split at hh
    · contradiction
    · rename_i hn
      split at hh
      · contradiction
      · rename_i ha
        split at hh
        · contradiction
        · rename_i g hg
          split at hh
          · contradiction
          · rename_i hc
            simp only [Option.some.injEq] at hh
            exact ⟨s, g, hs, by omega, by simpa using ha, hg, hc, hh.symm⟩

theorem revokeNominate_some {w w' : World} {i c : Acct} {h : Int} (hh : revokeNominate w i c h = some w') :
    ∃ s ballot g, tdSnapAt w h = some s ∧ aget s.nom c = some (i, ballot) ∧
      unlock w.gov .tdpos i ballot (some .tdpos) = some g ∧
      w' = { w with gov := g, td := { w.td with nom := aerase s.nom c } } := by
  unfold revokeNominate at hh
  split at hh
  · contradiction
  · rename_i s hs
    split at hh
    · contradiction
    · rename_i nominator ballot hc
      split at hh
      · contradiction
      · rename_i hi
        split at hh
        · contradiction
        · rename_i g hg
          simp only [Option.some.injEq] at hh
          have hi' : nominator = i := by
            apply Classical.byContradiction
            intro hne
            exact hi hne
          subst hi'
          exact ⟨s, ballot, g, hs, hc, hg, hh.symm⟩

theorem tdVote_some {w w' : World} {i c : Acct} {n : Int} {h : Int} (hh : tdVote w i c n h = some w') :
    ∃ s g, tdSnapAt w h = some s ∧ 0 < n ∧ lock w.gov .tdpos i n (some .tdpos) = some g ∧
      (aget s.nom c).isSome = true ∧
      w' = { w with
              gov := g
              td := { w.td with
                        votes := aput w.td.votes c
                          (aput ((aget s.votes c).getD []) i ((aget ((aget s.votes c).getD []) i).getD 0 + n)) } } := by
  unfold tdVote at hh
  split at hh
  · contradiction
  · rename_i s hs
    split at hh
    · contradiction
    · rename_i hn
      split at hh
      · contradiction
      · rename_i g hg
        split at hh
        · contradiction
        · rename_i r hc
          simp only [Option.some.injEq] at hh
          exact ⟨s, g, hs, by omega, hg, by simp [hc], hh.symm⟩

theorem tdRevokeVote_some {w w' : World} {i c : Acct} {n : Int} {h : Int} (hh : tdRevokeVote w i c n h = some w') :
    ∃ s g vm v, tdSnapAt w h = some s ∧ 0 < n ∧ unlock w.gov .tdpos i n (some .tdpos) = some g ∧
      aget s.votes c = some vm ∧ aget vm i = some v ∧ n ≤ v ∧
      w' = { w with gov := g, td := { w.td with votes := aput w.td.votes c (aput vm i (v - n)) } } := by
  unfold tdRevokeVote at hh
  split at hh
  · contradiction
  · rename_i s hs
    split at hh
    · contradiction
    · rename_i hn
      split at hh
      · contradiction
      · rename_i g hg
        split at hh
        · contradiction
        · rename_i vm hvm
          split at hh
          · contradiction
          · rename_i v hv
            split at hh
            · contradiction
            · rename_i hle
              simp only [Option.some.injEq] at hh
              exact ⟨s, g, vm, v, hs, by omega, hg, hvm, hv, by omega, hh.symm⟩

/-- every call keeps the genesis configuration and the invariant -/
theorem step?_good {w w' : World} {c : Call} (h : step? w c = some w') (hg : Good w.pre w.gov) :
    w'.pre = w.pre ∧ Good w.pre w'.gov := by
  cases c with
  | init =>
    simp only [step?, Option.map_eq_some_iff] at h
    obtain ⟨g, hi, rfl⟩ := h
    exact ⟨rfl, good_init hg hi⟩
  | transfer s t n =>
    simp only [step?, Option.map_eq_some_iff] at h
    obtain ⟨g, hi, rfl⟩ := h
    exact ⟨rfl, good_transfer hg hi⟩
  | lock c a n τ =>
    simp only [step?, Option.map_eq_some_iff] at h
    obtain ⟨g, hi, rfl⟩ := h
    exact ⟨rfl, good_lock hg hi⟩
  | unlock c a n τ =>
    simp only [step?, Option.map_eq_some_iff] at h
    obtain ⟨g, hi, rfl⟩ := h
    exact ⟨rfl, good_unlock hg hi⟩
  | propose a pct stop trig ok =>
    simp only [step?, Option.map_eq_some_iff] at h
    obtain ⟨⟨w1, pid⟩, hi, rfl⟩ := h
    obtain ⟨g, hl, hgov, hpre⟩ := propose_some hi
    exact ⟨hpre, hgov ▸ good_lock hg hl⟩
  | vote a pid n =>
    simp only [step?] at h
    obtain ⟨g, hl, hgov, hpre⟩ := vote_some h
    exact ⟨hpre, hgov ▸ good_lock hg hl⟩
  | thaw a pid =>
    simp only [step?] at h
    obtain ⟨amt, g, _, hl, hgov, hpre⟩ := thaw_some h
    exact ⟨hpre, hgov ▸ good_unlock hg hl⟩
  | timer hgt =>
    simp only [step?, Option.some.injEq] at h
    subst h
    exact ⟨(releases_timerDo w hgt).pre, (releases_timerDo w hgt).good hg⟩
  | checkVote c pid =>
    simp only [step?] at h
    split at h
    · simp only [Option.some.injEq] at h
      subst h
      exact ⟨(releases_checkVote w pid).pre, (releases_checkVote w pid).good hg⟩
    · contradiction
  | trigger c pid =>
    simp only [step?] at h
    split at h
    · simp only [Option.some.injEq] at h
      subst h
      exact ⟨(releases_trigger w pid).pre, (releases_trigger w pid).good hg⟩
    · contradiction
  | newBlock =>
    simp only [step?, Option.some.injEq] at h
    subst h
    exact ⟨rfl, hg⟩
  | nominate i c n auth hgt =>
    simp only [step?] at h
    obtain ⟨s, g, _, _, _, hl, _, rfl⟩ := nominate_some h
    exact ⟨rfl, good_lock hg hl⟩
  | revokeNominate i c hgt =>
    simp only [step?] at h
    obtain ⟨s, ballot, g, _, _, hl, rfl⟩ := revokeNominate_some h
    exact ⟨rfl, good_unlock hg hl⟩
  | tdVote i c n hgt =>
    simp only [step?] at h
    obtain ⟨s, g, _, _, hl, _, rfl⟩ := tdVote_some h
    exact ⟨rfl, good_lock hg hl⟩
  | tdRevokeVote i c n hgt =>
    simp only [step?] at h
    obtain ⟨s, g, vm, v, _, _, hl, _, _, _, rfl⟩ := tdRevokeVote_some h
    exact ⟨rfl, good_unlock hg hl⟩

theorem step_good (w : World) (c : Call) (hg : Good w.pre w.gov) :
    (step w c).pre = w.pre ∧ Good w.pre (step w c).gov := by
  unfold step
  cases h : step? w c with
  | none => exact ⟨rfl, hg⟩
  | some w' => exact step?_good h hg

theorem run_good (cs : List Call) : ∀ (w : World), Good w.pre w.gov →
    (run w cs).pre = w.pre ∧ Good w.pre (run w cs).gov := by
  induction cs with
  | nil => intro w hg; exact ⟨rfl, hg⟩
  | cons c r ih =>
    intro w hg
    obtain ⟨hp, hg'⟩ := step_good w c hg
    have := ih (step w c) (hp ▸ hg')
    rw [hp] at this
    exact this

end XV.GovToken
