import XV.Props.C01
import XV.Props.C05
import XV.Props.C17
import XV.Lemmas.CrashIrrev
import XV.Lemmas.CrashTree
import XV.Lemmas.PlayWalk
import XV.Lemmas.WalkSkip
/-!
Operation-level facts for the history statements of C17 (`XV/Props/C17Hist.lean`).

* `todoApplied` / `walkApplied` / `opApplied`: the blocks one operation APPLIES (executable): an accepted `play` /
  `playForMiner` its block, a walk the blocks its apply loop got through (also when the walk fails later, or is a
  pruning walk), a submission none.
* `hstep_irrev`: a non-pruning operation moves the irreversible height by `nextIrrev` over the heights of exactly those
  blocks, in order.
* `undoAll_chain`, `todoAll_pointer_applied`, `walkCore_chain`: the pointer's chain after a non-pruning walk — in EVERY
  outcome — is `T ++ K` where the old chain is `U ++ K`, every block of `U` (the blocks really undone) lies strictly above
  the irreversible height, and (when `K` is not empty, i.e. the two chains meet) `T` is the list of applied blocks, newest
  first. Needs only the block-tree conditions `TreeOK` (parents strictly lower, registered blocks known under their ids).
* `hstep_keeps_irreversible`: a block on the pointer's chain at or below the irreversible height is still there after any
  non-pruning operation.
-/
namespace XV.C17
open XV.Chain XV.C01 XV.Crash

-- ------------------------------------------------------------------ chains and the block-tree conditions

/-- the chain of block `p`: `p` first, then its ancestors down to the root (`ancestors` with the fuel `walk` uses) -/
def chainOf (e : Env) (p : Nat) : List Nat := ancestors e (e.blocks.length + 1) p

theorem chainOf_eq (e : Env) (p : Nat) : chainOf e p = ancestors e (e.blocks.length + 1) p := rfl

/-- **what is asked of the block tree** — two static, decidable conditions, both maintained by the C01 framework
(`EnvOK.lower`, `EnvOK.blockId`): the parent of a registered block is strictly lower than the block, and a registered block
is known under its own id. Nothing is asked of the state, of the transactions, or of the destinations of walks. (The first
condition is what makes the tree acyclic, so that the fuel of `ancestors` reaches the root and two chains have ONE lowest
common block; in the implementation the height of a block is the height of its parent plus one.) -/
def TreeOK (e : Env) : Prop :=
  (∀ bi ∈ e.blocks.map (·.1), ∀ q, (e.block bi).pre = some q → (e.block q).height < (e.block bi).height) ∧
  (∀ bi ∈ e.blocks.map (·.1), (e.block bi).id = bi)

instance (e : Env) : Decidable (TreeOK e) := by unfold TreeOK; exact inferInstance

theorem TreeOK.lower {e : Env} (h : TreeOK e) : ParentLower e := by
  intro b p hb
  exact h.1 b (block_known_of_pre e b (by rw [hb]; simp)) p hb

theorem TreeOK.blockId {e : Env} (h : TreeOK e) : ∀ bi ∈ e.blocks.map (·.1), (e.block bi).id = bi := h.2

theorem treeOK_iff (e : Env) :
    TreeOK e ↔ ParentLower e ∧ ∀ bi ∈ e.blocks.map (·.1), (e.block bi).id = bi :=
  ⟨fun h => ⟨h.lower, h.2⟩, fun h => ⟨fun bi _ q hq => h.1 bi q hq, h.2⟩⟩

/-- the environment conditions of the C01 closing induction contain `TreeOK` -/
theorem treeOK_of_envOK (e : Env) (g : St) (he : EnvOK e g) : TreeOK e :=
  (treeOK_iff e).mpr ⟨he.lower, he.blockId⟩

theorem treeOK_withSkip (e : Env) (l : List Nat) (h : TreeOK e) : TreeOK (e.withSkip l) := h

-- ------------------------------------------------------------------ the blocks an operation applies

/-- the blocks the apply loop of `walk` gets through (it stops at the first block that is refused) -/
def todoApplied (e : Env) (lh : Int) : List Nat → St → List Nat
  | [], _ => []
  | bi :: rest, st =>
    match todoBlock e st lh (e.block bi) with
    | some st' => bi :: todoApplied e lh rest st'
    | none => []

/-- the blocks a walk applies, oldest first: none if its undo loop is refused, else what its apply loop gets through -/
def walkApplied (e : Env) (s : St) (lh : Int) (dest : Nat) (prune : Bool) : List Nat :=
  if (walk.undoAll e prune (undoTodo e s.pointer dest).1 (rolledBack e s)).2 then
    todoApplied e lh (undoTodo e s.pointer dest).2
      (walk.undoAll e prune (undoTodo e s.pointer dest).1 (rolledBack e s)).1
  else []

/-- the blocks one operation of a history applies in state `s` -/
def opApplied (e : Env) (s : St) : HOp → List Nat
  | .submit _ _ => []
  | .play lh bi => if (play e s lh (e.block bi)).2 = .ok then [bi] else []
  | .playMiner lh bi => if (playForMiner e s lh (e.block bi)).2 = .ok then [bi] else []
  | .walk lh dest prune _ => walkApplied e s lh dest prune

/-- a pruning walk (`Walk` with the prune flag: the administrator's truncation, not consensus) -/
def isPrune : HOp → Bool
  | .walk _ _ prune _ => prune
  | _ => false

theorem opApplied_submit (e : Env) (s : St) (lh : Int) (i : Nat) : opApplied e s (.submit lh i) = [] := rfl

theorem opApplied_play (e : Env) (s : St) (lh : Int) (bi : Nat) :
    opApplied e s (.play lh bi) = if (play e s lh (e.block bi)).2 = .ok then [bi] else [] := rfl

theorem opApplied_playMiner (e : Env) (s : St) (lh : Int) (bi : Nat) :
    opApplied e s (.playMiner lh bi) = if (playForMiner e s lh (e.block bi)).2 = .ok then [bi] else [] := rfl

theorem opApplied_walk (e : Env) (s : St) (lh : Int) (dest : Nat) (prune : Bool) (skip : List Nat) :
    opApplied e s (.walk lh dest prune skip) = walkApplied e s lh dest prune := rfl

/-- heights as the irreversible-height rule reads them -/
def heightsOf (e : Env) (l : List Nat) : List Int := l.map (fun bi => ((e.block bi).height : Int))

theorem heightsOf_nil (e : Env) : heightsOf e [] = [] := rfl

theorem heightsOf_cons (e : Env) (b : Nat) (l : List Nat) :
    heightsOf e (b :: l) = ((e.block b).height : Int) :: heightsOf e l := rfl

theorem heightsOf_append (e : Env) (l1 l2 : List Nat) : heightsOf e (l1 ++ l2) = heightsOf e l1 ++ heightsOf e l2 := by
  unfold heightsOf; rw [List.map_append]

-- ------------------------------------------------------------------ the apply loop, in terms of `todoApplied`

theorem todoApplied_nil (e : Env) (lh : Int) (st : St) : todoApplied e lh [] st = [] := rfl

theorem todoApplied_cons_some (e : Env) (lh : Int) (bi : Nat) (rest : List Nat) (st st' : St)
    (h : todoBlock e st lh (e.block bi) = some st') :
    todoApplied e lh (bi :: rest) st = bi :: todoApplied e lh rest st' := by
  rw [todoApplied, h]

theorem todoApplied_cons_none (e : Env) (lh : Int) (bi : Nat) (rest : List Nat) (st : St)
    (h : todoBlock e st lh (e.block bi) = none) : todoApplied e lh (bi :: rest) st = [] := by
  rw [todoApplied, h]

/-- the applied blocks are a prefix of the list, the whole list when the loop completes -/
theorem todoApplied_prefix (e : Env) (lh : Int) (T : List Nat) : ∀ st,
    ∃ T2, T = todoApplied e lh T st ++ T2 ∧ ((walk.todoAll e lh T st).2 = true → T2 = []) := by
  induction T with
  | nil => intro st; exact ⟨[], rfl, fun _ => rfl⟩
  | cons bi rest ih =>
    intro st
    rw [todoAll_cons]
    cases hb : todoBlock e st lh (e.block bi) with
    | none =>
      rw [todoApplied_cons_none e lh bi rest st hb]
      exact ⟨bi :: rest, rfl, fun h => by simp at h⟩
    | some st' =>
      rw [todoApplied_cons_some e lh bi rest st st' hb]
      obtain ⟨T2, h1, h2⟩ := ih st'
      exact ⟨T2, by rw [List.cons_append, ← h1], h2⟩

/-- where the apply loop leaves the pointer — in every outcome: at the last block it applied -/
theorem todoAll_pointer_applied (e : Env) (lh : Int) (T : List Nat) : ∀ st,
    (walk.todoAll e lh T st).1.pointer =
      match (todoApplied e lh T st).getLast? with
      | none => st.pointer
      | some bi => (e.block bi).id := by
  induction T with
  | nil => intro st; rfl
  | cons bi rest ih =>
    intro st
    rw [todoAll_cons]
    cases hb : todoBlock e st lh (e.block bi) with
    | none =>
      rw [todoApplied_cons_none e lh bi rest st hb]
      rfl
    | some st' =>
      rw [todoApplied_cons_some e lh bi rest st st' hb]
      simp only
      rw [ih st', List.getLast?_cons]
      cases (todoApplied e lh rest st').getLast? with
      | none => exact todoBlock_pointer e st st' lh (e.block bi) hb
      | some x => rfl

/-- the irreversible height after the apply loop — in every outcome: `nextIrrev` over the heights of the applied blocks -/
theorem todoAll_irrev_applied (e : Env) (lh : Int) (T : List Nat) : ∀ st,
    (walk.todoAll e lh T st).1.irrev =
      (heightsOf e (todoApplied e lh T st)).foldl (nextIrrev e.window) st.irrev := by
  induction T with
  | nil => intro st; rfl
  | cons bi rest ih =>
    intro st
    rw [todoAll_cons]
    cases hb : todoBlock e st lh (e.block bi) with
    | none =>
      rw [todoApplied_cons_none e lh bi rest st hb]
      rfl
    | some st' =>
      rw [todoApplied_cons_some e lh bi rest st st' hb]
      simp only
      rw [ih st', heightsOf_cons, List.foldl_cons, todoBlock_irrev e st st' lh (e.block bi) hb]

-- ------------------------------------------------------------------ the irreversible height, operation by operation

theorem walkCore_irrev (e : Env) (s : St) (lh : Int) (dest : Nat) :
    (walkCore e s lh dest false).1.irrev =
      (heightsOf e (walkApplied e s lh dest false)).foldl (nextIrrev e.window) s.irrev := by
  have hs1 : (walk.undoAll e false (undoTodo e s.pointer dest).1 (rolledBack e s)).1.irrev = s.irrev :=
    (undoAll_irrev' e _ _).trans (rolledBack_irrev e s)
  unfold walkCore walkApplied
  simp only
  cases h1 : (walk.undoAll e false (undoTodo e s.pointer dest).1 (rolledBack e s)).2 with
  | false =>
    simp only [Bool.not_false, ↓reduceIte, Bool.false_eq_true]
    rw [hs1]; rfl
  | true =>
    simp only [Bool.not_true, Bool.false_eq_true, ↓reduceIte]
    rw [todoAll_irrev_applied, hs1]

/-- the state a walk of a history leaves, up to the pending pool: pointer and irreversible height are those of the block
part of the walk (the re-submissions touch neither) -/
theorem walk_withSkip_pointer_irrev (e : Env) (l : List Nat) (s : St) (lh : Int) (dest : Nat) (prune : Bool) :
    (walk (e.withSkip l) s lh dest prune).1.pointer = (walkCore e s lh dest prune).1.pointer ∧
    (walk (e.withSkip l) s lh dest prune).1.irrev = (walkCore e s lh dest prune).1.irrev := by
  rw [walk_withSkip]
  split
  · exact ⟨foldl_doTx_pointer e lh _ _, foldl_doTx_irrev' e lh _ _⟩
  · exact ⟨rfl, rfl⟩

/-- **one operation, exactly**: a non-pruning operation moves the irreversible height by the update rule over the heights
of the blocks it applies, in order -/
theorem hstep_irrev (e : Env) (s : St) (op : HOp) (hnp : isPrune op = false) :
    (hstep e s op).irrev = (heightsOf e (opApplied e s op)).foldl (nextIrrev e.window) s.irrev := by
  cases op with
  | submit lh i => exact doTx_irrev e s lh i
  | play lh bi =>
    show (play e s lh (e.block bi)).1.irrev = _
    rw [opApplied_play]
    by_cases hok : (play e s lh (e.block bi)).2 = .ok
    · rw [if_pos hok]
      exact (play_irrev e s lh (e.block bi)).2 hok
    · rw [if_neg hok, XV.C05.play_fail_noop e s lh (e.block bi) hok]
      rfl
  | playMiner lh bi =>
    show (playForMiner e s lh (e.block bi)).1.irrev = _
    rw [opApplied_playMiner]
    by_cases hok : (playForMiner e s lh (e.block bi)).2 = .ok
    · rw [if_pos hok]
      exact (playForMiner_irrev e s lh (e.block bi)).2 hok
    · rw [if_neg hok, XV.C05.playForMiner_fail_noop e s lh (e.block bi) hok]
      rfl
  | walk lh dest prune skip =>
    have hp : prune = false := hnp
    subst hp
    show (walk (e.withSkip skip) s lh dest false).1.irrev = _
    rw [(walk_withSkip_pointer_irrev e skip s lh dest false).2]
    exact walkCore_irrev e s lh dest

/-- the update rule never lowers the height, over any list of heights -/
theorem foldl_nextIrrev_mono (w : Int) (hs : List Int) : ∀ cur, cur ≤ hs.foldl (nextIrrev w) cur := by
  induction hs with
  | nil => intro cur; exact Int.le_refl _
  | cons h rest ih =>
    intro cur
    simp only [List.foldl_cons]
    exact Int.le_trans (nextIrrev_mono w cur h) (ih _)

/-- with window 0 (or below) the update rule never moves the height -/
theorem foldl_nextIrrev_window_le_zero (w : Int) (hw : w ≤ 0) (hs : List Int) : ∀ cur, hs.foldl (nextIrrev w) cur = cur := by
  induction hs with
  | nil => intro cur; rfl
  | cons h rest ih =>
    intro cur
    simp only [List.foldl_cons]
    rw [ih]
    unfold nextIrrev
    rw [if_pos hw]

/-- no non-pruning operation lowers the irreversible height -/
theorem hstep_irrev_mono (e : Env) (s : St) (op : HOp) (hnp : isPrune op = false) : s.irrev ≤ (hstep e s op).irrev := by
  rw [hstep_irrev e s op hnp]
  exact foldl_nextIrrev_mono _ _ _

-- ------------------------------------------------------------------ pruning walks with window 0

theorem undoAll_irrev_window_le_zero (e : Env) (hw : e.window ≤ 0) (prune : Bool) (l : List Nat) : ∀ st,
    (walk.undoAll e prune l st).1.irrev = st.irrev := by
  induction l with
  | nil => intro st; rfl
  | cons bi rest ih =>
    intro st
    rw [undoAll_cons]
    split
    · rfl
    · rw [ih]
      unfold undoBlock
      simp only
      split
      · unfold nextIrrevPrune
        rw [if_pos hw]
      · rfl

/-- with window 0 (or below) NO operation — a pruning walk included — moves the irreversible height -/
theorem hstep_irrev_window_le_zero (e : Env) (hw : e.window ≤ 0) (s : St) (op : HOp) : (hstep e s op).irrev = s.irrev := by
  cases hp : isPrune op with
  | false =>
    rw [hstep_irrev e s op hp]
    exact foldl_nextIrrev_window_le_zero _ hw _ _
  | true =>
    cases op with
    | submit lh i => cases hp
    | play lh bi => cases hp
    | playMiner lh bi => cases hp
    | walk lh dest prune skip =>
      show (walk (e.withSkip skip) s lh dest prune).1.irrev = _
      rw [(walk_withSkip_pointer_irrev e skip s lh dest prune).2]
      have hs1 : (walk.undoAll e prune (undoTodo e s.pointer dest).1 (rolledBack e s)).1.irrev = s.irrev :=
        (undoAll_irrev_window_le_zero e hw prune _ _).trans (rolledBack_irrev e s)
      unfold walkCore
      simp only
      split
      · exact hs1
      · rw [todoAll_irrev_applied, hs1]
        exact foldl_nextIrrev_window_le_zero _ hw _ _

-- ------------------------------------------------------------------ the pointer's chain along the undo loop

/-- **the undo loop of a non-pruning walk along the pointer's chain.** If the pointer's chain is `A ++ R` and the loop is
run on `A`, then `A = A1 ++ A2` where `A1` are the blocks really undone — every one of them strictly above the
irreversible height — the loop completes exactly when `A2` is empty, a refusal happens in front of a block at or below
the irreversible height, and the pointer's chain afterwards is `A2 ++ R` (the pointer names the last block NOT undone).
The irreversible height is untouched. (`A ++ R = []` is allowed: nothing is claimed about chains then; this is the state
after undoing a root block.) -/
theorem undoAll_chain (e : Env) (hpl : ParentLower e) (A : List Nat) : ∀ (R : List Nat) (st : St),
    (A ++ R ≠ [] → ancestors e (e.blocks.length + 1) st.pointer = A ++ R) →
    ∃ A1 A2, A = A1 ++ A2 ∧ (∀ x ∈ A1, st.irrev < ((e.block x).height : Int)) ∧
      ((walk.undoAll e false A st).2 = true → A2 = []) ∧
      ((walk.undoAll e false A st).2 = false → ∃ x r, A2 = x :: r ∧ ((e.block x).height : Int) ≤ st.irrev) ∧
      (A2 ++ R ≠ [] → ancestors e (e.blocks.length + 1) (walk.undoAll e false A st).1.pointer = A2 ++ R) := by
  induction A with
  | nil =>
    intro R st h
    refine ⟨[], [], rfl, (fun x hx => by cases hx), fun _ => rfl, (fun hf => by simp [undoAll_nil] at hf), ?_⟩
    intro hne
    exact h hne
  | cons a A' ih =>
    intro R st h
    have hc : ancestors e (e.blocks.length + 1) st.pointer = a :: (A' ++ R) := h (by simp)
    rw [undoAll_cons]
    by_cases hle : ((e.block a).height : Int) ≤ st.irrev
    · have hcond : (!false && decide (((e.block a).height : Int) ≤ st.irrev)) = true := by simp [hle]
      rw [if_pos hcond]
      exact ⟨[], a :: A', rfl, (fun x hx => by cases hx), (fun hf => by simp at hf), fun _ => ⟨a, A', rfl, hle⟩,
        fun _ => hc⟩
    · have hcond : ¬ (!false && decide (((e.block a).height : Int) ≤ st.irrev)) = true := by simp [hle]
      rw [if_neg hcond]
      have hirr : (undoBlock e st (e.block a) false).irrev = st.irrev := undoBlock_irrev e st (e.block a)
      have hptr : (undoBlock e st (e.block a) false).pointer = (e.block a).pre.getD 0 := rfl
      have h' : A' ++ R ≠ [] →
          ancestors e (e.blocks.length + 1) (undoBlock e st (e.block a) false).pointer = A' ++ R := by
        intro hne
        obtain ⟨p, tl, hp⟩ := List.exists_cons_of_ne_nil hne
        have hc' : ancestors e (e.blocks.length + 1) st.pointer = [] ++ a :: p :: tl := by rw [hc, hp]; rfl
        have hpre := ancestors_pre e st.pointer [] a p tl hc'
        have ht := ancestors_tail_eq e hpl st.pointer p [a] tl (by rw [hc, hp]; rfl)
        rw [hptr, hpre, hp]
        exact ht.symm
      obtain ⟨A1, A2, e1, e2, e3, e4, e5⟩ := ih R _ h'
      refine ⟨a :: A1, A2, by rw [e1]; rfl, ?_, e3, ?_, e5⟩
      · intro x hx
        rcases List.mem_cons.mp hx with rfl | hx
        · omega
        · have := e2 x hx
          rw [hirr] at this
          exact this
      · intro hf
        obtain ⟨x, r, h1, h2⟩ := e4 hf
        exact ⟨x, r, h1, by rw [← hirr]; exact h2⟩

-- ------------------------------------------------------------------ the pointer's chain after a walk

/-- a block of an ancestor list that is not its last element has a parent, hence is registered -/
theorem known_of_not_last (e : Env) (dest : Nat) (P : List Nat) (x y : Nat) (Q : List Nat)
    (h : ancestors e (e.blocks.length + 1) dest = P ++ x :: y :: Q) : x ∈ e.blocks.map (·.1) := by
  have := ancestors_pre e dest P x y Q h
  exact block_known_of_pre e x (by rw [this]; simp)

/-- **the pointer's chain along the apply loop.** The loop is run on a prefix `L` of the blocks that lead from `lca` up to
`dest`, from a state standing on `lca`: in every outcome the pointer's chain is the applied blocks, newest first, on top of
the chain of `lca`. -/
theorem todoAll_chain (e : Env) (ht : TreeOK e) (lh : Int) (dest lca : Nat) (r L B : List Nat) (st : St)
    (hda : ancestors e (e.blocks.length + 1) dest = (L ++ B).reverse ++ lca :: r)
    (hst : ancestors e (e.blocks.length + 1) st.pointer = lca :: r) :
    ancestors e (e.blocks.length + 1) (walk.todoAll e lh L st).1.pointer =
      (todoApplied e lh L st).reverse ++ lca :: r := by
  rw [todoAll_pointer_applied]
  obtain ⟨T2, hT, _⟩ := todoApplied_prefix e lh L st
  generalize todoApplied e lh L st = T1 at hT ⊢
  rcases List.eq_nil_or_concat T1 with hnil | ⟨T1', bi, hcat⟩
  · subst hnil
    simp only [List.getLast?_nil, List.reverse_nil, List.nil_append]
    exact hst
  · rw [List.concat_eq_append] at hcat
    subst hcat
    have hl : (T1' ++ [bi]).getLast? = some bi := by simp
    rw [hl]
    simp only
    -- the chain of the destination, split at the last applied block
    have hda' : ancestors e (e.blocks.length + 1) dest =
        (T2 ++ B).reverse ++ bi :: (T1'.reverse ++ lca :: r) := by
      rw [hda, hT]; simp
    obtain ⟨y, Q, hyQ⟩ : ∃ y Q, T1'.reverse ++ lca :: r = y :: Q :=
      List.exists_cons_of_ne_nil (by simp)
    have hknown : bi ∈ e.blocks.map (·.1) :=
      known_of_not_last e dest (T2 ++ B).reverse bi y Q (by rw [hda', hyQ])
    rw [ht.blockId bi hknown]
    have := ancestors_tail_eq e ht.lower dest bi (T2 ++ B).reverse _ hda'
    rw [← this]
    simp

/-- how the old chain splits at the undo list: `R` is the kept tail below it — empty when the two chains do not meet, else
the chain of the lowest common ancestor, on which the chain of the destination stands too -/
theorem undoTodo_kept (e : Env) (hpl : ParentLower e) (cur dest : Nat) :
    ∃ R, ancestors e (e.blocks.length + 1) cur = (undoTodo e cur dest).1 ++ R ∧
      (R = [] ∨ ∃ lca r, R = lca :: r ∧
        ancestors e (e.blocks.length + 1) dest = (undoTodo e cur dest).2.reverse ++ lca :: r) := by
  obtain ⟨_, _, hsplit⟩ := undoTodo_split e cur dest hpl
  rcases hsplit with ⟨h1, _, _⟩ | ⟨lca, r1, r2, h1, h2, _⟩
  · exact ⟨[], by rw [List.append_nil]; exact h1, Or.inl rfl⟩
  · have a1 := ancestors_tail_eq e hpl dest lca _ r2 h2
    have a2 := ancestors_tail_eq e hpl cur lca _ r1 h1
    have hr : r2 = r1 := (List.cons.inj (a1.trans a2.symm)).2
    subst hr
    exact ⟨lca :: r2, h1, Or.inr ⟨lca, r2, rfl, h2⟩⟩

/-- **the pointer's chain after the block part of a non-pruning walk, in EVERY outcome** (completed, undo refused at the
irreversible height after any number of undone blocks, a block refused after any number of applied blocks): the old chain is
`U ++ K`, the new chain is `T ++ K`; `U` — the blocks really undone — lies strictly above the irreversible height the walk
started with; and when the kept part `K` is not empty, `T` is the list of the blocks the walk applied, newest first. -/
theorem walkCore_chain (e : Env) (ht : TreeOK e) (s : St) (lh : Int) (dest : Nat) :
    ∃ U T K, chainOf e s.pointer = U ++ K ∧
      chainOf e (walkCore e s lh dest false).1.pointer = T ++ K ∧
      (∀ x ∈ U, s.irrev < ((e.block x).height : Int)) ∧
      (K ≠ [] → T = (walkApplied e s lh dest false).reverse) := by
  have hpl := ht.lower
  unfold chainOf
  have hp0 : (rolledBack e s).pointer = s.pointer := rolledBack_pointer e s
  have hi0 : (rolledBack e s).irrev = s.irrev := rolledBack_irrev e s
  obtain ⟨R, hR, hRcase⟩ := undoTodo_kept e hpl s.pointer dest
  obtain ⟨A1, A2, e1, e2, e3, e4, e5⟩ := undoAll_chain e hpl (undoTodo e s.pointer dest).1 R (rolledBack e s)
    (fun _ => by rw [hp0]; exact hR)
  rw [hi0] at e2
  have hold : ancestors e (e.blocks.length + 1) s.pointer = A1 ++ (A2 ++ R) := by
    rw [hR, e1, List.append_assoc]
  unfold walkCore walkApplied
  simp only
  cases h1 : (walk.undoAll e false (undoTodo e s.pointer dest).1 (rolledBack e s)).2 with
  | false =>
    -- the undo loop was refused: the pointer names the block it was refused at
    simp only [Bool.not_false, ↓reduceIte, Bool.false_eq_true]
    obtain ⟨x, r, hx, _⟩ := e4 h1
    refine ⟨A1, [], A2 ++ R, hold, ?_, e2, fun _ => rfl⟩
    rw [List.nil_append]
    exact e5 (by rw [hx]; simp)
  | true =>
    simp only [Bool.not_true, Bool.false_eq_true, ↓reduceIte]
    have hA2 : A2 = [] := e3 h1
    subst hA2
    rw [List.nil_append] at e5 hold
    rcases hRcase with hRn | ⟨lca, r, hRl, hda⟩
    · -- the chains do not meet: everything was undone, nothing is kept
      subst hRn
      exact ⟨A1, _, [], hold, by rw [List.append_nil], e2, fun h => absurd rfl h⟩
    · subst hRl
      refine ⟨A1, _, lca :: r, hold, ?_, e2, fun _ => rfl⟩
      exact todoAll_chain e ht lh dest lca r _ [] _ (by rw [List.append_nil]; exact hda) (e5 (by simp))

/-- the same for the walk of a history (with the skip list supplied for it): the re-submissions do not move the pointer -/
theorem walk_chain (e : Env) (ht : TreeOK e) (s : St) (lh : Int) (dest : Nat) (skip : List Nat) :
    ∃ U T K, chainOf e s.pointer = U ++ K ∧
      chainOf e (walk (e.withSkip skip) s lh dest false).1.pointer = T ++ K ∧
      (∀ x ∈ U, s.irrev < ((e.block x).height : Int)) ∧
      (K ≠ [] → T = (walkApplied e s lh dest false).reverse) := by
  rw [(walk_withSkip_pointer_irrev e skip s lh dest false).1]
  exact walkCore_chain e ht s lh dest

/-- an accepted block puts the pointer's chain one block further -/
theorem play_ok_chain (e : Env) (ht : TreeOK e) (s : St) (lh : Int) (bi : Nat)
    (hok : (play e s lh (e.block bi)).2 = .ok) :
    chainOf e (play e s lh (e.block bi)).1.pointer = bi :: chainOf e s.pointer := by
  obtain ⟨hpre, hptr⟩ := play_ok_pointer e s lh (e.block bi) hok
  have hk := block_known_of_pre e bi (by rw [hpre]; simp)
  rw [hptr, ht.blockId bi hk]
  exact ancestors_child e ht.lower bi s.pointer hpre

theorem playForMiner_ok_chain (e : Env) (ht : TreeOK e) (s : St) (lh : Int) (bi : Nat)
    (hok : (playForMiner e s lh (e.block bi)).2 = .ok) :
    chainOf e (playForMiner e s lh (e.block bi)).1.pointer = bi :: chainOf e s.pointer := by
  obtain ⟨hpre, hptr⟩ := playForMiner_ok_pointer e s lh (e.block bi) hok
  have hk := block_known_of_pre e bi (by rw [hpre]; simp)
  rw [hptr, ht.blockId bi hk]
  exact ancestors_child e ht.lower bi s.pointer hpre

/-- the block part of a non-pruning walk keeps every irreversible block on the pointer's chain, in every outcome -/
theorem walkCore_keeps_irreversible (e : Env) (ht : TreeOK e) (s : St) (lh : Int) (dest : Nat) (b : Nat)
    (hb : b ∈ chainOf e s.pointer) (hh : ((e.block b).height : Int) ≤ s.irrev) :
    b ∈ chainOf e (walkCore e s lh dest false).1.pointer := by
  obtain ⟨U, T, K, h1, h2, h3, _⟩ := walkCore_chain e ht s lh dest
  rw [h2]
  rw [h1] at hb
  rcases List.mem_append.mp hb with hU | hK
  · have := h3 b hU
    omega
  · exact List.mem_append_right _ hK

/-- **every write group of a non-pruning walk keeps every irreversible block on the pointer's chain**: whatever batch of
the walk is the last one on disk when the process dies (after the roll-back of the pool, after any undone block, after any
applied block, after any re-submission), the persisted pointer names a block whose chain contains every block of the old
chain at or below the irreversible height the walk started with -/
theorem walkTrace_keeps_irreversible (e : Env) (ht : TreeOK e) (s : St) (lh : Int) (dest : Nat) (b : Nat)
    (hb : b ∈ chainOf e s.pointer) (hh : ((e.block b).height : Int) ≤ s.irrev)
    (x : St) (hx : x ∈ walkTrace e s lh dest false) : b ∈ chainOf e x.pointer := by
  have hpl := ht.lower
  have hp0 : (rolledBack e s).pointer = s.pointer := rolledBack_pointer e s
  have hi0 : (rolledBack e s).irrev = s.irrev := rolledBack_irrev e s
  unfold walkTrace at hx
  rcases List.mem_append.mp hx with hmid | hre
  · obtain ⟨R, hR, hRcase⟩ := undoTodo_kept e hpl s.pointer dest
    unfold chainOf at hb ⊢
    rcases mem_walkMid e s lh dest false x hmid with rfl | ⟨A, B, hsplit, _, hrun⟩ | ⟨s1, A, B, hund, hsplit, _, hrun⟩
    · rw [hp0]; exact hb
    · -- after a completed prefix `A` of the undo loop
      have hca : ancestors e (e.blocks.length + 1) s.pointer = A ++ (B ++ R) := by
        rw [hR, hsplit, List.append_assoc]
      obtain ⟨A1, A2, e1, e2, e3, _, e5⟩ := undoAll_chain e hpl A (B ++ R) (rolledBack e s)
        (fun _ => by rw [hp0]; exact hca)
      rw [hrun] at e3 e5
      simp only at e3 e5
      have hA2 : A2 = [] := e3 trivial
      subst hA2
      rw [List.append_nil] at e1
      subst e1
      rw [List.nil_append] at e5
      rw [hi0] at e2
      rw [hca] at hb
      rcases List.mem_append.mp hb with hA | hBR
      · have := e2 b hA
        omega
      · rw [e5 (List.ne_nil_of_mem hBR)]
        exact hBR
    · -- after a completed prefix `A` of the apply loop
      obtain ⟨A1, A2, e1, e2, e3, _, e5⟩ := undoAll_chain e hpl (undoTodo e s.pointer dest).1 R (rolledBack e s)
        (fun _ => by rw [hp0]; exact hR)
      rw [hund] at e3 e5
      simp only at e3 e5
      have hA2 : A2 = [] := e3 trivial
      subst hA2
      rw [List.append_nil] at e1
      rw [List.nil_append] at e5
      rw [hi0, ← e1] at e2
      rw [hR] at hb
      rcases List.mem_append.mp hb with hU | hRm
      · have := e2 b hU
        omega
      · rcases hRcase with hRn | ⟨lca, r, hRl, hda⟩
        · rw [hRn] at hRm; cases hRm
        · subst hRl
          have hx' : x = (walk.todoAll e lh A s1).1 := by rw [hrun]
          rw [hx', todoAll_chain e ht lh dest lca r A B s1 (by rw [← hsplit]; exact hda) (e5 (by simp))]
          exact List.mem_append_right _ hRm
  · obtain ⟨_, A, B, _, _, hxe⟩ := mem_walkRepost e s lh dest false x hre
    rw [hxe]
    unfold chainOf
    rw [foldl_doTx_pointer]
    exact walkCore_keeps_irreversible e ht s lh dest b hb hh

/-- **one operation keeps every irreversible block on the pointer's chain**: a block that is on the chain of the pointer
with a height at or below the irreversible height is on the chain of the pointer after any non-pruning operation -/
theorem hstep_keeps_irreversible (e : Env) (ht : TreeOK e) (s : St) (op : HOp) (hnp : isPrune op = false) (b : Nat)
    (hb : b ∈ chainOf e s.pointer) (hh : ((e.block b).height : Int) ≤ s.irrev) :
    b ∈ chainOf e (hstep e s op).pointer := by
  cases op with
  | submit lh i =>
    show b ∈ chainOf e (doTx e s lh i).1.pointer
    rw [doTx_pointer]; exact hb
  | play lh bi =>
    show b ∈ chainOf e (play e s lh (e.block bi)).1.pointer
    by_cases hok : (play e s lh (e.block bi)).2 = .ok
    · rw [play_ok_chain e ht s lh bi hok]
      exact List.mem_cons_of_mem _ hb
    · rw [XV.C05.play_fail_noop e s lh (e.block bi) hok]; exact hb
  | playMiner lh bi =>
    show b ∈ chainOf e (playForMiner e s lh (e.block bi)).1.pointer
    by_cases hok : (playForMiner e s lh (e.block bi)).2 = .ok
    · rw [playForMiner_ok_chain e ht s lh bi hok]
      exact List.mem_cons_of_mem _ hb
    · rw [XV.C05.playForMiner_fail_noop e s lh (e.block bi) hok]; exact hb
  | walk lh dest prune skip =>
    have hp : prune = false := hnp
    subst hp
    show b ∈ chainOf e (walk (e.withSkip skip) s lh dest false).1.pointer
    obtain ⟨U, T, K, h1, h2, h3, _⟩ := walk_chain e ht s lh dest skip
    rw [h2]
    rw [h1] at hb
    rcases List.mem_append.mp hb with hU | hK
    · have := h3 b hU
      omega
    · exact List.mem_append_right _ hK

end XV.C17
