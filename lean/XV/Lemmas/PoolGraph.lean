import XV.Model.Pool
import XV.Lemmas.Assoc
/-! which edges the model of `SortUnconfirmedTx` contains (membership lemmas for `depEdges`, `writers`, `readers`, `antiEdges`) -/
namespace XV.Pool
open XV.Chain

theorem inPool_iff (pool : List Tx) (i : Nat) : inPool pool i = true ↔ ∃ t ∈ pool, t.id = i := by
  unfold inPool
  simp only [List.any_eq_true, beq_iff_eq]

theorem mem_depEdges (pool : List Tx) (a b : Nat) :
    (a, b) ∈ depEdges pool ↔
      ∃ v ∈ pool, v.id = b ∧ inPool pool a = true ∧
        ((∃ r ∈ v.ins, r.tx = a) ∨ (∃ ki ∈ v.kin, ∃ w, ki.ver = some w ∧ w.1 = a)) := by
  unfold depEdges
  simp only [List.mem_flatMap, List.mem_append, List.mem_filterMap]
  constructor
  · rintro ⟨v, hv, h | h⟩
    · obtain ⟨r, hr, hx⟩ := h
      by_cases hp : inPool pool r.tx = true
      · simp only [hp, ↓reduceIte, Option.some.injEq, Prod.mk.injEq] at hx
        exact ⟨v, hv, hx.2, hx.1 ▸ hp, Or.inl ⟨r, hr, hx.1⟩⟩
      · simp [hp] at hx
    · obtain ⟨ki, hki, hx⟩ := h
      cases hver : ki.ver with
      | none => simp [hver] at hx
      | some w =>
        simp only [hver] at hx
        by_cases hp : inPool pool w.1 = true
        · simp only [hp, ↓reduceIte, Option.some.injEq, Prod.mk.injEq] at hx
          exact ⟨v, hv, hx.2, hx.1 ▸ hp, Or.inr ⟨ki, hki, w, hver, hx.1⟩⟩
        · simp [hp] at hx
  · rintro ⟨v, hv, rfl, hp, h | h⟩
    · obtain ⟨r, hr, rfl⟩ := h
      exact ⟨v, hv, Or.inl ⟨r, hr, by simp [hp]⟩⟩
    · obtain ⟨ki, hki, w, hver, rfl⟩ := h
      exact ⟨v, hv, Or.inr ⟨ki, hki, by simp [hver, hp]⟩⟩

theorem lookup_mem {κ ν : Type} [DecidableEq κ] (m : List (κ × ν)) (k : κ) (v : ν) (h : lookup m k = some v) :
    (k, v) ∈ m := by
  induction m with
  | nil => simp at h
  | cons p m ih =>
    obtain ⟨a, b⟩ := p
    rw [lookup_cons] at h
    by_cases hk : a = k
    · simp only [hk, ↓reduceIte, Option.some.injEq] at h
      rw [hk, h]; exact List.mem_cons_self
    · simp only [hk, ↓reduceIte] at h
      exact List.mem_cons_of_mem _ (ih h)

theorem mem_put {κ ν : Type} [DecidableEq κ] (m : List (κ × ν)) (k : κ) (v : ν) (p : κ × ν) (h : p ∈ put m k v) :
    p = (k, v) ∨ p ∈ m := by
  unfold put del at h
  rcases List.mem_cons.mp h with h | h
  · exact Or.inl h
  · exact Or.inr (List.mem_filter.mp h).1

/-- `t` overwrites the version `vk` -/
def overwrites (t : Tx) (vk : VerKey) : Prop := ∃ k ∈ t.kin, (k.key, k.ver) = vk ∧ writesKey t k.key = true

def wstep (t : Tx) (m : List (VerKey × Nat)) (ki : KIn) : List (VerKey × Nat) :=
  if writesKey t ki.key then put m (ki.key, ki.ver) t.id else m

theorem writers_eq (pool : List Tx) : writers pool = pool.foldl (fun m t => t.kin.foldl (wstep t) m) [] := rfl

/-- every entry of the `writers` map names a pool transaction that overwrites that version -/
theorem mem_writers (pool : List Tx) : ∀ p ∈ writers pool, ∃ t ∈ pool, t.id = p.2 ∧ overwrites t p.1 := by
  rw [writers_eq]
  have inner : ∀ (t : Tx) (kin : List KIn) (m : List (VerKey × Nat)) (P : VerKey × Nat → Prop),
      (∀ k ∈ kin, writesKey t k.key = true → P ((k.key, k.ver), t.id)) → (∀ p ∈ m, P p) →
      ∀ p ∈ kin.foldl (wstep t) m, P p := by
    intro t kin
    induction kin with
    | nil => intro m P _ hm; exact hm
    | cons k kin ih =>
      intro m P hk hm
      simp only [List.foldl_cons]
      apply ih _ P (fun k' hk' => hk k' (List.mem_cons_of_mem _ hk'))
      intro p hp
      unfold wstep at hp
      by_cases hw : writesKey t k.key = true
      · simp only [hw, ↓reduceIte] at hp
        rcases mem_put _ _ _ _ hp with rfl | hp
        · exact hk k List.mem_cons_self hw
        · exact hm p hp
      · simp only [hw, Bool.false_eq_true, ↓reduceIte] at hp
        exact hm p hp
  have outer : ∀ (l : List Tx) (m : List (VerKey × Nat)), (∀ t ∈ l, t ∈ pool) →
      (∀ p ∈ m, ∃ t ∈ pool, t.id = p.2 ∧ overwrites t p.1) →
      ∀ p ∈ l.foldl (fun m t => t.kin.foldl (wstep t) m) m, ∃ t ∈ pool, t.id = p.2 ∧ overwrites t p.1 := by
    intro l
    induction l with
    | nil => intro m _ hm; exact hm
    | cons t l ih =>
      intro m hl hm
      simp only [List.foldl_cons]
      apply ih _ (fun x hx => hl x (List.mem_cons_of_mem _ hx))
      apply inner t t.kin m _ _ hm
      intro k hk hw
      exact ⟨t, hl t List.mem_cons_self, rfl, k, hk, rfl, hw⟩
  exact outer pool [] (fun _ h => h) (by simp)

/-- if every pool transaction that overwrites `vk` has id `w` and one exists, the `writers` map holds `vk ↦ w` -/
theorem writers_complete (pool : List Tx) (vk : VerKey) (w : Nat)
    (huniq : ∀ t ∈ pool, overwrites t vk → t.id = w) (hex : ∃ t ∈ pool, overwrites t vk) :
    (vk, w) ∈ writers pool := by
  rw [writers_eq]
  apply lookup_mem
  have inner : ∀ (t : Tx) (kin : List KIn) (m : List (VerKey × Nat)),
      (∀ k ∈ kin, (k.key, k.ver) = vk → writesKey t k.key = true → t.id = w) →
      (lookup m vk = none ∨ lookup m vk = some w) →
      (lookup (kin.foldl (wstep t) m) vk = none ∨ lookup (kin.foldl (wstep t) m) vk = some w) ∧
      ((lookup m vk = some w ∨ ∃ k ∈ kin, (k.key, k.ver) = vk ∧ writesKey t k.key = true) →
        lookup (kin.foldl (wstep t) m) vk = some w) := by
    intro t kin
    induction kin with
    | nil =>
      intro m _ hm
      refine ⟨hm, ?_⟩
      rintro (h | ⟨k, hk, _⟩)
      · exact h
      · simp at hk
    | cons k kin ih =>
      intro m hk hm
      simp only [List.foldl_cons]
      have hstep : (lookup (wstep t m k) vk = none ∨ lookup (wstep t m k) vk = some w) ∧
          ((lookup m vk = some w ∨ ((k.key, k.ver) = vk ∧ writesKey t k.key = true)) →
            lookup (wstep t m k) vk = some w) := by
        unfold wstep
        by_cases hw : writesKey t k.key = true
        · simp only [hw, ↓reduceIte]
          rw [lookup_put]
          by_cases he : (k.key, k.ver) = vk
          · have := hk k List.mem_cons_self he hw
            simp [he, this]
          · simp only [he, ↓reduceIte]
            refine ⟨hm, ?_⟩
            rintro (h | ⟨h, _⟩)
            · exact h
            · exact h.elim
        · simp only [hw, Bool.false_eq_true, ↓reduceIte]
          refine ⟨hm, ?_⟩
          rintro (h | ⟨_, h⟩)
          · exact h
          · exact h.elim
      obtain ⟨p1, q1⟩ := ih (wstep t m k) (fun k' hk' => hk k' (List.mem_cons_of_mem _ hk')) hstep.1
      refine ⟨p1, ?_⟩
      rintro (h | ⟨k', hk', he, hw⟩)
      · exact q1 (Or.inl (hstep.2 (Or.inl h)))
      · rcases List.mem_cons.mp hk' with rfl | hk'
        · exact q1 (Or.inl (hstep.2 (Or.inr ⟨he, hw⟩)))
        · exact q1 (Or.inr ⟨k', hk', he, hw⟩)
  have outer : ∀ (l : List Tx) (m : List (VerKey × Nat)), (∀ t ∈ l, overwrites t vk → t.id = w) →
      (lookup m vk = none ∨ lookup m vk = some w) →
      (lookup m vk = some w ∨ ∃ t ∈ l, overwrites t vk) →
      lookup (l.foldl (fun m t => t.kin.foldl (wstep t) m) m) vk = some w := by
    intro l
    induction l with
    | nil =>
      intro m _ _ h
      rcases h with h | ⟨t, ht, _⟩
      · exact h
      · simp at ht
    | cons t l ih =>
      intro m hu hm h
      simp only [List.foldl_cons]
      obtain ⟨p1, q1⟩ := inner t t.kin m
        (fun k hk he hw => hu t List.mem_cons_self ⟨k, hk, he, hw⟩) hm
      apply ih _ (fun x hx => hu x (List.mem_cons_of_mem _ hx)) p1
      rcases h with h | ⟨t', ht', ho⟩
      · exact Or.inl (q1 (Or.inl h))
      · rcases List.mem_cons.mp ht' with rfl | ht'
        · obtain ⟨k, hk, he, hw⟩ := ho
          exact Or.inl (q1 (Or.inr ⟨k, hk, he, hw⟩))
        · exact Or.inr ⟨t', ht', ho⟩
  exact outer pool [] huniq (Or.inl rfl) (Or.inr hex)

theorem mem_readers (pool : List Tx) (vk : VerKey) (r : Nat) :
    r ∈ readers pool vk ↔ ∃ t ∈ pool, t.id = r ∧ ∃ ki ∈ t.kin, (ki.key, ki.ver) = vk ∧ writesKey t ki.key = false := by
  unfold readers
  simp only [List.mem_flatMap, List.mem_filterMap]
  constructor
  · rintro ⟨t, ht, ki, hki, hx⟩
    by_cases hc : (ki.key, ki.ver) = vk ∧ writesKey t ki.key = false
    · simp only [hc, and_self, ↓reduceIte, Option.some.injEq] at hx
      exact ⟨t, ht, hx, ki, hki, hc.1, hc.2⟩
    · simp [hc] at hx
  · rintro ⟨t, ht, rfl, ki, hki, h1, h2⟩
    exact ⟨t, ht, ki, hki, by simp [h1, h2]⟩

theorem mem_antiEdges (pool : List Tx) (r w : Nat) :
    (r, w) ∈ antiEdges pool ↔ ∃ vk, (vk, w) ∈ writers pool ∧ r ∈ readers pool vk ∧ r ≠ w := by
  unfold antiEdges
  simp only [List.mem_flatMap, List.mem_filterMap]
  constructor
  · rintro ⟨p, hp, x, hx, hxe⟩
    by_cases hne : x ≠ p.2
    · simp only [hne, ↓reduceIte, ne_eq, not_false_eq_true, Option.some.injEq, Prod.mk.injEq] at hxe
      obtain ⟨rfl, rfl⟩ := hxe
      exact ⟨p.1, hp, hx, hne⟩
    · simp [hne] at hxe
  · rintro ⟨vk, hw, hr, hne⟩
    exact ⟨(vk, w), hw, r, hr, by simp [hne]⟩

end XV.Pool
