import XV.Lemmas.LedgerInvDef
/-!
Ledger main-chain invariant, part 3: attaching a new leaf to the stored tree (what every successful `confirm`
does to the tree shape, whatever it does to flags and links): tree invariant, ancestor relation, branch tips,
no-repeat property.
-/
namespace XV.Ledger
open XV.Chain (lookup put del lookup_put lookup_del lookup_put_same lookup_cons lookup_nil)

/-- the shape-relevant part of a header -/
def skel (h : Hdr) : Option Nat × Nat × List Nat := (h.pre, h.height, h.txs)

theorem skel_eq {h h' : Hdr} (e : skel h' = skel h) : h'.pre = h.pre ∧ h'.height = h.height ∧ h'.txs = h.txs := by
  simp only [skel, Prod.mk.injEq] at e
  exact e

/-- `l'` stores the blocks of `l` with unchanged `pre`/`height`/`txs`, plus the new block `id` below `pre` -/
structure AddLeaf (l l' : L) (id pre ph : Nat) (txids : List Nat) : Prop where
  fresh : lookup l.B id = none
  pre_stored : ∃ pb, lookup l.B pre = some pb ∧ pb.height = ph
  root : l'.root = l.root
  new : ∃ nb, lookup l'.B id = some nb ∧ nb.pre = some pre ∧ nb.height = ph + 1 ∧ nb.txs = txids
  old : ∀ x, x ≠ id → (lookup l'.B x).map skel = (lookup l.B x).map skel

namespace AddLeaf
variable {l l' : L} {id pre ph : Nat} {txids : List Nat}

theorem ne_of_stored (A : AddLeaf l l' id pre ph txids) {x : Nat} {h : Hdr} (hx : lookup l.B x = some h) : x ≠ id := by
  intro e; subst e
  rw [A.fresh] at hx; cases hx

theorem fwd (A : AddLeaf l l' id pre ph txids) {x : Nat} {h : Hdr} (hx : lookup l.B x = some h) :
    ∃ h', lookup l'.B x = some h' ∧ h'.pre = h.pre ∧ h'.height = h.height ∧ h'.txs = h.txs := by
  have e := A.old x (A.ne_of_stored hx)
  rw [hx] at e
  cases hx' : lookup l'.B x with
  | none => simp [hx'] at e
  | some h' =>
    rw [hx'] at e
    simp only [Option.map_some, Option.some.injEq] at e
    exact ⟨h', rfl, skel_eq e⟩

theorem bwd (A : AddLeaf l l' id pre ph txids) {x : Nat} {h' : Hdr} (hne : x ≠ id) (hx : lookup l'.B x = some h') :
    ∃ h, lookup l.B x = some h ∧ h'.pre = h.pre ∧ h'.height = h.height ∧ h'.txs = h.txs := by
  have e := A.old x hne
  rw [hx] at e
  cases hx' : lookup l.B x with
  | none => simp [hx'] at e
  | some h =>
    rw [hx'] at e
    simp only [Option.map_some, Option.some.injEq] at e
    exact ⟨h, rfl, skel_eq e⟩

theorem par_old (A : AddLeaf l l' id pre ph txids) {x : Nat} (hne : x ≠ id) : par l' x = par l x := by
  have e := A.old x hne
  unfold par
  cases h1 : lookup l'.B x with
  | none =>
    cases h2 : lookup l.B x with
    | none => rfl
    | some b => simp [h1, h2] at e
  | some a =>
    cases h2 : lookup l.B x with
    | none => simp [h1, h2] at e
    | some b =>
      simp only [h1, h2, Option.map_some, Option.some.injEq] at e
      simp only [Option.bind_some]
      exact (skel_eq e).1

theorem par_new (A : AddLeaf l l' id pre ph txids) : par l' id = some pre := by
  obtain ⟨nb, h1, h2, _⟩ := A.new
  rw [par_of_lookup h1, h2]

theorem par_id (A : AddLeaf l l' id pre ph txids) : par l id = none := by
  simp [par, A.fresh]

theorem pre_ne (A : AddLeaf l l' id pre ph txids) : pre ≠ id := by
  obtain ⟨pb, h, _⟩ := A.pre_stored
  exact A.ne_of_stored h

/-- no old block points at the new block -/
theorem par_ne_id (A : AddLeaf l l' id pre ph txids) (T : TreeInv l) (x : Nat) : par l x ≠ some id := by
  intro h
  obtain ⟨_, ph', _, _, e, _⟩ := T.par_stored h
  rw [A.fresh] at e; cases e

theorem anc_mono (A : AddLeaf l l' id pre ph txids) {a b : Nat} (h : Anc l a b) : Anc l' a b := by
  induction h with
  | refl => exact Anc.refl _
  | step hp _ ih =>
    obtain ⟨hb, h1, _⟩ := par_some hp
    exact Anc.step ((A.par_old (A.ne_of_stored h1)).trans hp) ih

theorem anc_old (A : AddLeaf l l' id pre ph txids) (T : TreeInv l) {a b : Nat} (hne : b ≠ id) (h : Anc l' a b) :
    Anc l a b := by
  induction h with
  | refl => exact Anc.refl _
  | step hp hap ih =>
    rename_i b p
    rw [A.par_old hne] at hp
    have : p ≠ id := fun e => A.par_ne_id T b (by rw [hp, e])
    exact Anc.step hp (ih this)

theorem anc_old_iff (A : AddLeaf l l' id pre ph txids) (T : TreeInv l) {a b : Nat} (hne : b ≠ id) :
    Anc l' a b ↔ Anc l a b := ⟨A.anc_old T hne, A.anc_mono⟩

theorem anc_new_iff (A : AddLeaf l l' id pre ph txids) (T : TreeInv l) {a : Nat} :
    Anc l' a id ↔ a = id ∨ Anc l a pre := by
  constructor
  · intro h
    rcases anc_inv h with e | ⟨p, hp, hap⟩
    · exact Or.inl e
    · rw [A.par_new] at hp; cases hp
      exact Or.inr (A.anc_old T A.pre_ne hap)
  · rintro (e | h)
    · subst e; exact Anc.refl _
    · exact Anc.step A.par_new (A.anc_mono h)

/-- the new block is an ancestor of itself only -/
theorem anc_id_left (A : AddLeaf l l' id pre ph txids) (T : TreeInv l) {b : Nat} (h : Anc l' id b) : b = id := by
  by_cases e : b = id
  · exact e
  · have h' := A.anc_old T e h
    -- in `l`, `id` is unstored, so by height / storedness it cannot be a proper ancestor
    rcases anc_inv h' with e' | ⟨p, hp, _⟩
    · exact e'.symm
    · obtain ⟨_, _, sb, _, _, _⟩ := T.par_stored hp
      obtain ⟨ha, sa⟩ := T.anc_stored h' sb
      rw [A.fresh] at sa; cases sa

theorem tree (A : AddLeaf l l' id pre ph txids) (T : TreeInv l) : TreeInv l' := by
  constructor
  · obtain ⟨h, h1, h2, h3⟩ := T.root
    obtain ⟨h', e1, e2, e3, _⟩ := A.fwd h1
    exact ⟨h', by rw [A.root]; exact e1, by rw [e2, h2], by rw [e3, h3]⟩
  · intro b h hb hne
    rw [A.root] at hne
    by_cases e : b = id
    · subst e
      obtain ⟨nb, n1, n2, n3, _⟩ := A.new
      rw [hb] at n1; cases n1
      obtain ⟨pb, p1, p2⟩ := A.pre_stored
      obtain ⟨pb', q1, _, q3, _⟩ := A.fwd p1
      exact ⟨pre, pb', n2, q1, by rw [n3, q3, p2]⟩
    · obtain ⟨h0, s0, e1, e2, _⟩ := A.bwd e hb
      obtain ⟨p, ph0, f1, f2, f3⟩ := T.parent b h0 s0 hne
      obtain ⟨ph', g1, _, g3, _⟩ := A.fwd f2
      exact ⟨p, ph', by rw [e1, f1], g1, by rw [e2, f3, g3]⟩

/-- leaves after attaching `id` below `pre` -/
theorem leaf_iff (A : AddLeaf l l' id pre ph txids) (T : TreeInv l) (b : Nat) :
    (∀ c, par l' c ≠ some b) ↔ b ≠ pre ∧ (b = id ∨ ∀ c, par l c ≠ some b) := by
  constructor
  · intro h
    refine ⟨fun e => h id (by rw [A.par_new, e]), ?_⟩
    by_cases e : b = id
    · exact Or.inl e
    · right
      intro c hc
      obtain ⟨_, sc, _⟩ := par_some hc
      exact h c (by rw [A.par_old (A.ne_of_stored sc)]; exact hc)
  · rintro ⟨h1, h2⟩ c hc
    by_cases e : c = id
    · subst e
      rw [A.par_new] at hc; cases hc
      exact h1 rfl
    · rw [A.par_old e] at hc
      rcases h2 with h2 | h2
      · subst h2; exact A.par_ne_id T c hc
      · exact h2 c hc

/-- (g) the branch-tip table after `ZI := put (del ZI pre) id height` -/
theorem zi (A : AddLeaf l l' id pre ph txids) (T : TreeInv l)
    (Z : ∀ b k, lookup l.ZI b = some k ↔ ∃ h, lookup l.B b = some h ∧ h.height = k ∧ ∀ c, par l c ≠ some b)
    (hZI : l'.ZI = put (del l.ZI pre) id (ph + 1)) (b k : Nat) :
    lookup l'.ZI b = some k ↔ ∃ h, lookup l'.B b = some h ∧ h.height = k ∧ ∀ c, par l' c ≠ some b := by
  rw [hZI, lookup_put, lookup_del]
  obtain ⟨nb, n1, n2, n3, n4⟩ := A.new
  by_cases e1 : id = b
  · subst e1
    simp only [↓reduceIte, Option.some.injEq]
    constructor
    · intro e
      refine ⟨nb, n1, by omega, ?_⟩
      rw [A.leaf_iff T]
      exact ⟨fun e => A.pre_ne e.symm, Or.inl rfl⟩
    · rintro ⟨h, hs, e, _⟩
      rw [n1] at hs; cases hs; omega
  · simp only [e1, ↓reduceIte]
    by_cases e2 : pre = b
    · subst e2
      simp only [↓reduceIte]
      constructor
      · intro h; cases h
      · rintro ⟨_, _, _, hl⟩
        exact absurd A.par_new (hl id)
    · simp only [e2, ↓reduceIte]
      rw [Z]
      have hb : b ≠ id := fun e => e1 e.symm
      have hb2 : b ≠ pre := fun e => e2 e.symm
      constructor
      · rintro ⟨h, hs, e, hl⟩
        obtain ⟨h', f1, _, f3, _⟩ := A.fwd hs
        refine ⟨h', f1, by omega, ?_⟩
        rw [A.leaf_iff T]
        exact ⟨hb2, Or.inr hl⟩
      · rintro ⟨h', hs, e, hl⟩
        obtain ⟨h, f1, _, f3, _⟩ := A.bwd hb hs
        refine ⟨h, f1, by omega, ?_⟩
        rw [A.leaf_iff T] at hl
        rcases hl.2 with h | h
        · exact absurd h hb
        · exact h

theorem norepeat (A : AddLeaf l l' id pre ph txids) (T : TreeInv l) (N : NoRepeatOnBranch l)
    (hfresh : ∀ a ha, Anc l a pre → lookup l.B a = some ha → ∀ t, t ∈ txids → t ∉ ha.txs) :
    NoRepeatOnBranch l' := by
  intro a b ha hb sa sb hab hne t ht
  obtain ⟨nb, n1, n2, n3, n4⟩ := A.new
  by_cases e : b = id
  · subst e
    rw [sb] at n1; cases n1
    have ha' : a ≠ b := hne
    rcases (A.anc_new_iff T).1 hab with e | hap
    · exact absurd e ha'
    · obtain ⟨ha0, s0, _, _, f3⟩ := A.bwd ha' sa
      rw [f3]
      exact hfresh a ha0 hap s0 t (n4 ▸ ht)
  · have hab' := A.anc_old T e hab
    have ha' : a ≠ id := by
      intro e'; subst e'
      exact e (A.anc_id_left T hab)
    obtain ⟨ha0, s0, _, _, f3⟩ := A.bwd ha' sa
    obtain ⟨hb0, s1, _, _, g3⟩ := A.bwd e sb
    rw [f3]
    exact N a b ha0 hb0 s0 s1 hab' hne t (g3 ▸ ht)

theorem c_total (A : AddLeaf l l' id pre ph txids)
    (CT : ∀ b h t, lookup l.B b = some h → t ∈ h.txs → ∃ c, lookup l.C t = some c)
    (h1 : ∀ t c, lookup l.C t = some c → ∃ c', lookup l'.C t = some c')
    (h2 : ∀ t, t ∈ txids → ∃ c, lookup l'.C t = some c) :
    ∀ b h t, lookup l'.B b = some h → t ∈ h.txs → ∃ c, lookup l'.C t = some c := by
  intro b h t hb ht
  by_cases e : b = id
  · subst e
    obtain ⟨nb, n1, _, _, n4⟩ := A.new
    rw [hb] at n1; cases n1
    exact h2 t (n4 ▸ ht)
  · obtain ⟨h0, s0, _, _, f3⟩ := A.bwd e hb
    obtain ⟨c, hc⟩ := CT b h0 t s0 (f3 ▸ ht)
    exact h1 t c hc

end AddLeaf

/-! ### keys of association lists -/

theorem keys_del (m : List (Nat × Nat)) (k : Nat) : (del m k).map (·.1) = (m.map (·.1)).filter (fun x => x ≠ k) := by
  unfold del
  rw [List.filter_map]
  rfl

theorem nodup_keys_del (m : List (Nat × Nat)) (k : Nat) (h : (m.map (·.1)).Nodup) : ((del m k).map (·.1)).Nodup := by
  rw [keys_del]
  exact h.sublist List.filter_sublist

theorem not_mem_keys_del (m : List (Nat × Nat)) (k : Nat) : k ∉ (del m k).map (·.1) := by
  rw [keys_del]
  simp

theorem nodup_keys_put (m : List (Nat × Nat)) (k v : Nat) (h : (m.map (·.1)).Nodup) : ((put m k v).map (·.1)).Nodup := by
  unfold put
  simp only [List.map_cons, List.nodup_cons]
  exact ⟨not_mem_keys_del m k, nodup_keys_del m k h⟩

end XV.Ledger
