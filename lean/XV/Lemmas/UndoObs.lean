import XV.Lemmas.UndoKeys
/-!
Observational equivalence of states (`Obs`, notation `≈`): what the readers of the state DB can see — every row
of the UTXO table, the current version of every key, total, pointer, irreversible height, pool. The raw recycle
table ZD is *not* part of it (apply-then-undo can drop a stale marker hidden behind a live row).

`Refines s r` is the finer, one-directional relation that apply-then-undo actually establishes: `s ≈ r`, the same
live table ZU row by row, and every ZD row of `s` is a ZD row of `r`. It is what lets undo steps be chained.

Congruence: `admitTx`, `applyTx`, `payFee`, `undoPayFee` respect `≈` unconditionally; `undoTx` respects it when in
both states the one raw ZD read of `undoKOut` (a non-delete write of a key cited as never written leaves ZD as it
is) finds no marker — `UndoSafe`. All of them are monotone for `Refines`.
-/
namespace XV.Chain

-- ------------------------------------------------------------------ steps of the output recursions

def outStep (t : Tx) (o : Out) (off : Nat) (s : St) : St :=
  if o.addr == "$" || o.amt == 0 then s
  else { s with U := put s.U (t.id, off) ⟨o.addr, o.amt, o.frozen⟩,
                total := if t.coinbase then s.total + o.amt else s.total }

theorem applyOuts_cons (t : Tx) (o : Out) (rest : List Out) (off : Nat) (s : St) :
    applyOuts t (o :: rest) off s = applyOuts t rest (off + 1) (outStep t o off s) := rfl

def undoOutStep (t : Tx) (o : Out) (off : Nat) (s : St) : St :=
  if o.addr == "$" || o.amt == 0 then s
  else { s with U := del s.U (t.id, off), total := if t.coinbase then s.total - o.amt else s.total }

theorem undoOuts_cons (t : Tx) (o : Out) (rest : List Out) (off : Nat) (s : St) :
    undoOuts t (o :: rest) off s = undoOuts t rest (off + 1) (undoOutStep t o off s) := rfl

def feeStep (t : Tx) (prop : String) (o : Out) (off : Nat) (s : St) : St :=
  if o.addr == "$" then { s with U := put s.U (t.id, off) ⟨prop, o.amt, 0⟩ } else s

theorem payFee_cons (t : Tx) (prop : String) (o : Out) (rest : List Out) (off : Nat) (s : St) :
    payFee t prop (o :: rest) off s = payFee t prop rest (off + 1) (feeStep t prop o off s) := rfl

def undoFeeStep (t : Tx) (o : Out) (off : Nat) (s : St) : St :=
  if o.addr == "$" then { s with U := del s.U (t.id, off) } else s

theorem undoPayFee_cons (t : Tx) (o : Out) (rest : List Out) (off : Nat) (s : St) :
    undoPayFee t (o :: rest) off s = undoPayFee t rest (off + 1) (undoFeeStep t o off s) := rfl

-- ------------------------------------------------------------------ the UTXO table is handled row by row

theorem applyOuts_U_congr (t : Tx) (l : List Out) (off : Nat) (s s' : St) (k : Ver)
    (h : lookup s.U k = lookup s'.U k) :
    lookup (applyOuts t l off s).U k = lookup (applyOuts t l off s').U k := by
  induction l generalizing off s s' with
  | nil => exact h
  | cons o rest ih =>
    rw [applyOuts_cons, applyOuts_cons]
    apply ih
    unfold outStep
    split
    · exact h
    · simp only [lookup_put, h]

theorem applyOuts_total_congr (t : Tx) (l : List Out) (off : Nat) (s s' : St) (h : s.total = s'.total) :
    (applyOuts t l off s).total = (applyOuts t l off s').total := by
  induction l generalizing off s s' with
  | nil => exact h
  | cons o rest ih =>
    rw [applyOuts_cons, applyOuts_cons]
    apply ih
    unfold outStep
    split
    · exact h
    · simp only [h]

theorem undoOuts_U_congr (t : Tx) (l : List Out) (off : Nat) (s s' : St) (k : Ver)
    (h : lookup s.U k = lookup s'.U k) :
    lookup (undoOuts t l off s).U k = lookup (undoOuts t l off s').U k := by
  induction l generalizing off s s' with
  | nil => exact h
  | cons o rest ih =>
    rw [undoOuts_cons, undoOuts_cons]
    apply ih
    unfold undoOutStep
    split
    · exact h
    · simp only [lookup_del, h]

theorem undoOuts_total_congr (t : Tx) (l : List Out) (off : Nat) (s s' : St) (h : s.total = s'.total) :
    (undoOuts t l off s).total = (undoOuts t l off s').total := by
  induction l generalizing off s s' with
  | nil => exact h
  | cons o rest ih =>
    rw [undoOuts_cons, undoOuts_cons]
    apply ih
    unfold undoOutStep
    split
    · exact h
    · simp only [h]

theorem payFee_U_congr (t : Tx) (prop : String) (l : List Out) (off : Nat) (s s' : St) (k : Ver)
    (h : lookup s.U k = lookup s'.U k) :
    lookup (payFee t prop l off s).U k = lookup (payFee t prop l off s').U k := by
  induction l generalizing off s s' with
  | nil => exact h
  | cons o rest ih =>
    rw [payFee_cons, payFee_cons]
    apply ih
    unfold feeStep
    split
    · simp only [lookup_put, h]
    · exact h

theorem undoPayFee_U_congr (t : Tx) (l : List Out) (off : Nat) (s s' : St) (k : Ver)
    (h : lookup s.U k = lookup s'.U k) :
    lookup (undoPayFee t l off s).U k = lookup (undoPayFee t l off s').U k := by
  induction l generalizing off s s' with
  | nil => exact h
  | cons o rest ih =>
    rw [undoPayFee_cons, undoPayFee_cons]
    apply ih
    unfold undoFeeStep
    split
    · simp only [lookup_del, h]
    · exact h

theorem spend_U_congr (ins : List InRef) (u u' : List (Ver × UItem)) (k : Ver) (h : lookup u k = lookup u' k) :
    lookup (ins.foldl (fun u r => del u (r.tx, r.off)) u) k =
      lookup (ins.foldl (fun u r => del u (r.tx, r.off)) u') k := by
  induction ins generalizing u u' with
  | nil => exact h
  | cons r rest ih =>
    simp only [List.foldl_cons]
    apply ih
    simp only [lookup_del, h]

theorem restore_U_congr (ins : List InRef) (u u' : List (Ver × UItem)) (k : Ver) (h : lookup u k = lookup u' k) :
    lookup (ins.foldl (fun u r => put u (r.tx, r.off) ⟨r.addr, r.amt, r.frozen⟩) u) k =
      lookup (ins.foldl (fun u r => put u (r.tx, r.off) ⟨r.addr, r.amt, r.frozen⟩) u') k := by
  induction ins generalizing u u' with
  | nil => exact h
  | cons r rest ih =>
    simp only [List.foldl_cons]
    apply ih
    simp only [lookup_put, h]

/-- a row of the UTXO table after `applyTx` depends only on the same row before -/
theorem applyTx_U_congr (s s' : St) (t : Tx) (k : Ver) (h : lookup s.U k = lookup s'.U k) :
    lookup (applyTx s t).U k = lookup (applyTx s' t).U k := by
  unfold applyTx
  apply applyOuts_U_congr
  simp only
  apply spend_U_congr
  rw [(applyKOut_frame t t.kout 0 s).1, (applyKOut_frame t t.kout 0 s').1]
  exact h

theorem applyTx_total_congr (s s' : St) (t : Tx) (h : s.total = s'.total) :
    (applyTx s t).total = (applyTx s' t).total := by
  unfold applyTx
  apply applyOuts_total_congr
  simp only
  rw [(applyKOut_frame t t.kout 0 s).2.1, (applyKOut_frame t t.kout 0 s').2.1]
  exact h

/-- a row of the UTXO table after `undoTx` depends only on the same row before -/
theorem undoTx_U_congr (e : Env) (s s' : St) (t : Tx) (k : Ver) (h : lookup s.U k = lookup s'.U k) :
    lookup (undoTx e s t).U k = lookup (undoTx e s' t).U k := by
  unfold undoTx
  apply undoOuts_U_congr
  simp only
  apply restore_U_congr
  rw [(undoKOut_frame e t t.kout s).1, (undoKOut_frame e t t.kout s').1]
  exact h

theorem undoTx_total_congr (e : Env) (s s' : St) (t : Tx) (h : s.total = s'.total) :
    (undoTx e s t).total = (undoTx e s' t).total := by
  unfold undoTx
  apply undoOuts_total_congr
  simp only
  rw [(undoKOut_frame e t t.kout s).2.1, (undoKOut_frame e t t.kout s').2.1]
  exact h

-- ------------------------------------------------------------------ key tables, congruence

theorem applyKOut_curVer_congr (t : Tx) (l : List KOut) (off : Nat) (s s' : St) (key : String)
    (h : curVer s key = curVer s' key) :
    curVer (applyKOut t l off s) key = curVer (applyKOut t l off s') key := by
  induction l generalizing off s s' with
  | nil => exact h
  | cons ko rest ih =>
    rw [applyKOut_cons, applyKOut_cons]
    apply ih
    rw [applyStep_curVer, applyStep_curVer, h]

theorem applyKOut_ZU_congr (t : Tx) (l : List KOut) (off : Nat) (s s' : St) (key : String)
    (h : lookup s.ZU key = lookup s'.ZU key) :
    lookup (applyKOut t l off s).ZU key = lookup (applyKOut t l off s').ZU key := by
  induction l generalizing off s s' with
  | nil => exact h
  | cons ko rest ih =>
    rw [applyKOut_cons, applyKOut_cons]
    apply ih
    rw [applyStep_ZU, applyStep_ZU, h]

theorem applyKOut_ZD_mono (t : Tx) (l : List KOut) (off : Nat) (s s' : St) (key : String)
    (h : ∀ m, lookup s.ZD key = some m → lookup s'.ZD key = some m) :
    ∀ m, lookup (applyKOut t l off s).ZD key = some m → lookup (applyKOut t l off s').ZD key = some m := by
  induction l generalizing off s s' with
  | nil => exact h
  | cons ko rest ih =>
    rw [applyKOut_cons, applyKOut_cons]
    apply ih
    intro m
    rw [applyStep_ZD, applyStep_ZD]
    split
    · exact fun x => x
    · exact h m

theorem applyTx_curVer_congr (s s' : St) (t : Tx) (key : String) (h : curVer s key = curVer s' key) :
    curVer (applyTx s t) key = curVer (applyTx s' t) key := by
  have a : ∀ x : St, curVer (applyTx x t) key = curVer (applyKOut t t.kout 0 x) key := fun x =>
    curVer_congr_tables _ _ _ (by rw [applyTx_ZU]) (by rw [applyTx_ZD])
  rw [a, a]
  exact applyKOut_curVer_congr t t.kout 0 s s' key h

theorem payFee_curVer (t : Tx) (prop : String) (l : List Out) (off : Nat) (s : St) (key : String) :
    curVer (payFee t prop l off s) key = curVer s key := by
  obtain ⟨h1, h2, _⟩ := payFee_frame t prop l off s
  exact curVer_congr_tables _ _ _ (by rw [h1]) (by rw [h2])

theorem undoPayFee_curVer (t : Tx) (l : List Out) (off : Nat) (s : St) (key : String) :
    curVer (undoPayFee t l off s) key = curVer s key := by
  obtain ⟨h1, h2, _⟩ := undoPayFee_frame t l off s
  exact curVer_congr_tables _ _ _ (by rw [h1]) (by rw [h2])

/-- the one place where `undoKOut` reads the raw recycle table: a non-delete write of a key that `t` cites as
never written deletes the live row and leaves ZD as it is. `UndoSafe s t`: in `s` there is no marker there. -/
def UndoSafe (s : St) (t : Tx) : Prop :=
  ∀ ko ∈ t.kout, citedVer t ko.key = none → ko.del = false → lookup s.ZD ko.key = none

/-- current version of a written key after `undoTx` -/
theorem undoTx_curVer_written (e : Env) (s : St) (t : Tx) (hnd : (t.kout.map (·.key)).Nodup)
    (ko : KOut) (hko : ko ∈ t.kout) :
    curVer (undoTx e s t) ko.key =
      (match undoZU e (citedVer t ko.key) with
       | some v => some v
       | none => undoZD e (citedVer t ko.key) ko.del (lookup s.ZD ko.key)) := by
  obtain ⟨u1, u2⟩ := undoKOut_written e t t.kout s ko hnd hko
  unfold curVer
  rw [undoTx_ZU, undoTx_ZD, u1, u2]
  cases undoZU e (citedVer t ko.key) <;> rfl

theorem undoTx_curVer_other (e : Env) (s : St) (t : Tx) (key : String) (hk : key ∉ t.kout.map (·.key)) :
    curVer (undoTx e s t) key = curVer s key := by
  obtain ⟨u1, u2⟩ := undoKOut_other e t t.kout s key hk
  exact curVer_congr_tables _ _ _ (by rw [undoTx_ZU, u1]) (by rw [undoTx_ZD, u2])

theorem undoTx_curVer_congr (e : Env) (s s' : St) (t : Tx) (hnd : (t.kout.map (·.key)).Nodup)
    (h1 : UndoSafe s t) (h2 : UndoSafe s' t) (key : String) (h : curVer s key = curVer s' key) :
    curVer (undoTx e s t) key = curVer (undoTx e s' t) key := by
  by_cases hk : key ∈ t.kout.map (·.key)
  · obtain ⟨ko, hko, rfl⟩ := List.mem_map.mp hk
    rw [undoTx_curVer_written e s t hnd ko hko, undoTx_curVer_written e s' t hnd ko hko]
    cases hc : citedVer t ko.key with
    | none =>
      by_cases hd : ko.del = true
      · simp [undoZU, undoZD, hd]
      · have hd' : ko.del = false := by simpa using hd
        rw [h1 ko hko hc hd', h2 ko hko hc hd']
    | some pv =>
      by_cases hm : verIsDel e pv = true
      · simp [undoZU, undoZD, hm]
      · simp [undoZU, hm]
  · rw [undoTx_curVer_other e s t key hk, undoTx_curVer_other e s' t key hk]
    exact h

-- ------------------------------------------------------------------ observational equivalence

/-- the table part of an observation: UTXO rows, key versions, total (no pointer, irreversible height, pool:
the three fields no transaction-level operation touches) -/
structure ObsT (s s' : St) : Prop where
  U : ∀ k, lookup s.U k = lookup s'.U k
  ver : ∀ key, curVer s key = curVer s' key
  total : s.total = s'.total

/-- what a reader of the state DB can observe -/
structure Obs (s s' : St) : Prop where
  U : ∀ k, lookup s.U k = lookup s'.U k
  ver : ∀ key, curVer s key = curVer s' key
  total : s.total = s'.total
  pointer : s.pointer = s'.pointer
  irrev : s.irrev = s'.irrev
  pool : s.pool = s'.pool

theorem Obs.toT {s s' : St} (h : Obs s s') : ObsT s s' := ⟨h.U, h.ver, h.total⟩

theorem Obs.ofT {s s' : St} (h : ObsT s s') (hp : s.pointer = s'.pointer) (hi : s.irrev = s'.irrev)
    (hq : s.pool = s'.pool) : Obs s s' :=
  ⟨h.U, h.ver, h.total, hp, hi, hq⟩

theorem ObsT.refl (s : St) : ObsT s s := ⟨fun _ => rfl, fun _ => rfl, rfl⟩

theorem ObsT.symm {s s' : St} (h : ObsT s s') : ObsT s' s :=
  ⟨fun k => (h.U k).symm, fun k => (h.ver k).symm, h.total.symm⟩

theorem ObsT.trans {a b c : St} (h1 : ObsT a b) (h2 : ObsT b c) : ObsT a c :=
  ⟨fun k => (h1.U k).trans (h2.U k), fun k => (h1.ver k).trans (h2.ver k), h1.total.trans h2.total⟩

theorem Obs.refl (s : St) : Obs s s := ⟨fun _ => rfl, fun _ => rfl, rfl, rfl, rfl, rfl⟩

theorem Obs.symm {s s' : St} (h : Obs s s') : Obs s' s :=
  ⟨fun k => (h.U k).symm, fun k => (h.ver k).symm, h.total.symm, h.pointer.symm, h.irrev.symm, h.pool.symm⟩

theorem Obs.trans {a b c : St} (h1 : Obs a b) (h2 : Obs b c) : Obs a c :=
  ⟨fun k => (h1.U k).trans (h2.U k), fun k => (h1.ver k).trans (h2.ver k), h1.total.trans h2.total,
   h1.pointer.trans h2.pointer, h1.irrev.trans h2.irrev, h1.pool.trans h2.pool⟩

/-- `Obs` is an equivalence relation -/
theorem obs_equivalence : Equivalence Obs := ⟨Obs.refl, Obs.symm, Obs.trans⟩

/-- `s ≈ s'` is `Obs s s'` -/
instance obsSetoid : Setoid St := ⟨Obs, obs_equivalence⟩

theorem equiv_iff_obs (s s' : St) : s ≈ s' ↔ Obs s s' := Iff.rfl

/-- admission cannot tell equivalent states apart -/
theorem checkInputs_congr (s s' : St) (lh : Int) (ins : List InRef) (seen : List Ver) (acc : Nat)
    (h : ∀ k, lookup s.U k = lookup s'.U k) :
    checkInputs s lh ins seen acc = checkInputs s' lh ins seen acc := by
  induction ins generalizing seen acc with
  | nil => rfl
  | cons r rest ih =>
    unfold checkInputs
    rw [h]
    split
    · rfl
    · split
      · rfl
      · split
        · rfl
        · split
          · rfl
          · split
            · rfl
            · exact ih _ _

theorem verifyRW_congr (s s' : St) (t : Tx) (h : ∀ key, curVer s key = curVer s' key) :
    verifyRW s t = verifyRW s' t := by
  unfold verifyRW
  have : (fun ki : KIn => curVer s ki.key == ki.ver) = (fun ki : KIn => curVer s' ki.key == ki.ver) := by
    funext ki; rw [h]
  rw [this]

theorem admission_congrT (s s' : St) (lh : Int) (t : Tx) (h : ObsT s s') : admitTx s lh t = admitTx s' lh t := by
  unfold admitTx checkInputEqualOutput
  rw [checkInputs_congr s s' lh t.ins [] 0 h.U, verifyRW_congr s s' t h.ver]

theorem applyTx_congrT (s s' : St) (t : Tx) (h : ObsT s s') : ObsT (applyTx s t) (applyTx s' t) := by
  exact ⟨fun k => applyTx_U_congr s s' t k (h.U k), fun key => applyTx_curVer_congr s s' t key (h.ver key),
    applyTx_total_congr s s' t h.total⟩

theorem undoTx_congrT (e : Env) (s s' : St) (t : Tx) (hnd : (t.kout.map (·.key)).Nodup)
    (h1 : UndoSafe s t) (h2 : UndoSafe s' t) (h : ObsT s s') : ObsT (undoTx e s t) (undoTx e s' t) := by
  exact ⟨fun k => undoTx_U_congr e s s' t k (h.U k),
    fun key => undoTx_curVer_congr e s s' t hnd h1 h2 key (h.ver key),
    undoTx_total_congr e s s' t h.total⟩

theorem payFee_congrT (t : Tx) (prop : String) (l : List Out) (off : Nat) (s s' : St) (h : ObsT s s') :
    ObsT (payFee t prop l off s) (payFee t prop l off s') := by
  obtain ⟨_, _, a0, _⟩ := payFee_frame t prop l off s
  obtain ⟨_, _, b0, _⟩ := payFee_frame t prop l off s'
  exact ⟨fun k => payFee_U_congr t prop l off s s' k (h.U k),
    fun key => by rw [payFee_curVer, payFee_curVer, h.ver],
    by rw [a0, b0, h.total]⟩

theorem undoPayFee_congrT (t : Tx) (l : List Out) (off : Nat) (s s' : St) (h : ObsT s s') :
    ObsT (undoPayFee t l off s) (undoPayFee t l off s') := by
  obtain ⟨_, _, a0, _⟩ := undoPayFee_frame t l off s
  obtain ⟨_, _, b0, _⟩ := undoPayFee_frame t l off s'
  exact ⟨fun k => undoPayFee_U_congr t l off s s' k (h.U k),
    fun key => by rw [undoPayFee_curVer, undoPayFee_curVer, h.ver],
    by rw [a0, b0, h.total]⟩

theorem admission_congr' (s s' : St) (lh : Int) (t : Tx) (h : Obs s s') : admitTx s lh t = admitTx s' lh t :=
  admission_congrT s s' lh t h.toT

theorem applyTx_congr' (s s' : St) (t : Tx) (h : Obs s s') : Obs (applyTx s t) (applyTx s' t) := by
  obtain ⟨a1, a2, a3⟩ := applyTx_frame s t
  obtain ⟨b1, b2, b3⟩ := applyTx_frame s' t
  exact Obs.ofT (applyTx_congrT s s' t h.toT) (by rw [a1, b1, h.pointer]) (by rw [a2, b2, h.irrev])
    (by rw [a3, b3, h.pool])

theorem undoTx_congr' (e : Env) (s s' : St) (t : Tx) (hnd : (t.kout.map (·.key)).Nodup)
    (h1 : UndoSafe s t) (h2 : UndoSafe s' t) (h : Obs s s') : Obs (undoTx e s t) (undoTx e s' t) := by
  obtain ⟨a1, a2, a3⟩ := undoTx_frame e s t
  obtain ⟨b1, b2, b3⟩ := undoTx_frame e s' t
  exact Obs.ofT (undoTx_congrT e s s' t hnd h1 h2 h.toT) (by rw [a1, b1, h.pointer]) (by rw [a2, b2, h.irrev])
    (by rw [a3, b3, h.pool])

theorem payFee_congr' (t : Tx) (prop : String) (l : List Out) (off : Nat) (s s' : St) (h : Obs s s') :
    Obs (payFee t prop l off s) (payFee t prop l off s') := by
  obtain ⟨_, _, _, a1, a2, a3⟩ := payFee_frame t prop l off s
  obtain ⟨_, _, _, b1, b2, b3⟩ := payFee_frame t prop l off s'
  exact Obs.ofT (payFee_congrT t prop l off s s' h.toT) (by rw [a1, b1, h.pointer]) (by rw [a2, b2, h.irrev])
    (by rw [a3, b3, h.pool])

theorem undoPayFee_congr' (t : Tx) (l : List Out) (off : Nat) (s s' : St) (h : Obs s s') :
    Obs (undoPayFee t l off s) (undoPayFee t l off s') := by
  obtain ⟨_, _, _, a1, a2, a3⟩ := undoPayFee_frame t l off s
  obtain ⟨_, _, _, b1, b2, b3⟩ := undoPayFee_frame t l off s'
  exact Obs.ofT (undoPayFee_congrT t l off s s' h.toT) (by rw [a1, b1, h.pointer]) (by rw [a2, b2, h.irrev])
    (by rw [a3, b3, h.pool])

-- ------------------------------------------------------------------ refinement

/-- table part of the refinement: `s` shows the tables of `r`, has the live table of `r` row by row, and no
marker row that `r` does not have (pointer, irreversible height and pool are not compared) -/
structure TRefines (s r : St) : Prop where
  obs : ObsT s r
  ZU : ∀ k, lookup s.ZU k = lookup r.ZU k
  ZD : ∀ k m, lookup s.ZD k = some m → lookup r.ZD k = some m

/-- `s` is observationally `r`, has the live table of `r`, and no marker row that `r` does not have -/
structure Refines (s r : St) : Prop where
  obs : Obs s r
  ZU : ∀ k, lookup s.ZU k = lookup r.ZU k
  ZD : ∀ k m, lookup s.ZD k = some m → lookup r.ZD k = some m

theorem Refines.toT {s r : St} (h : Refines s r) : TRefines s r := ⟨h.obs.toT, h.ZU, h.ZD⟩

theorem Refines.ofT {s r : St} (h : TRefines s r) (hp : s.pointer = r.pointer) (hi : s.irrev = r.irrev)
    (hq : s.pool = r.pool) : Refines s r := ⟨Obs.ofT h.obs hp hi hq, h.ZU, h.ZD⟩

theorem TRefines.refl (s : St) : TRefines s s := ⟨ObsT.refl s, fun _ => rfl, fun _ _ h => h⟩

theorem TRefines.trans {a b c : St} (h1 : TRefines a b) (h2 : TRefines b c) : TRefines a c :=
  ⟨h1.obs.trans h2.obs, fun k => (h1.ZU k).trans (h2.ZU k), fun k m h => h2.ZD k m (h1.ZD k m h)⟩

theorem Refines.refl (s : St) : Refines s s := ⟨Obs.refl s, fun _ => rfl, fun _ _ h => h⟩

theorem Refines.trans {a b c : St} (h1 : Refines a b) (h2 : Refines b c) : Refines a c :=
  ⟨h1.obs.trans h2.obs, fun k => (h1.ZU k).trans (h2.ZU k), fun k m h => h2.ZD k m (h1.ZD k m h)⟩

/-- well-formedness is inherited by a refining state -/
theorem TRefines.KVInv {e : Env} {s r : St} (h : TRefines s r) (hinv : KVInv e r) : KVInv e s := by
  intro k v
  rw [h.ZU k]
  exact ⟨(hinv k v).1, fun hn hz => (hinv k v).2 hn (h.ZD k v hz)⟩

theorem Refines.KVInv {e : Env} {s r : St} (h : Refines s r) (hinv : KVInv e r) : KVInv e s :=
  h.toT.KVInv hinv

theorem TRefines.undoSafe {s r : St} {t : Tx} (h : TRefines s r) (hs : UndoSafe r t) : UndoSafe s t := by
  intro ko hko hc hd
  have := hs ko hko hc hd
  cases hz : lookup s.ZD ko.key with
  | none => rfl
  | some m => rw [h.ZD _ m hz] at this; cases this

theorem Refines.undoSafe {s r : St} {t : Tx} (h : Refines s r) (hs : UndoSafe r t) : UndoSafe s t :=
  h.toT.undoSafe hs

theorem applyTx_trefines (s r : St) (t : Tx) (h : TRefines s r) : TRefines (applyTx s t) (applyTx r t) := by
  refine ⟨applyTx_congrT s r t h.obs, fun k => ?_, fun k => ?_⟩
  · rw [applyTx_ZU, applyTx_ZU]
    exact applyKOut_ZU_congr t t.kout 0 s r k (h.ZU k)
  · rw [applyTx_ZD, applyTx_ZD]
    exact applyKOut_ZD_mono t t.kout 0 s r k (h.ZD k)

theorem undoTx_trefines (e : Env) (s r : St) (t : Tx) (hnd : (t.kout.map (·.key)).Nodup)
    (hs : UndoSafe r t) (h : TRefines s r) : TRefines (undoTx e s t) (undoTx e r t) := by
  refine ⟨undoTx_congrT e s r t hnd (h.undoSafe hs) hs h.obs, fun k => ?_, fun k m => ?_⟩
  · rw [undoTx_ZU, undoTx_ZU]
    by_cases hk : k ∈ t.kout.map (·.key)
    · obtain ⟨ko, hko, rfl⟩ := List.mem_map.mp hk
      rw [(undoKOut_written e t t.kout s ko hnd hko).1, (undoKOut_written e t t.kout r ko hnd hko).1]
    · rw [(undoKOut_other e t t.kout s k hk).1, (undoKOut_other e t t.kout r k hk).1]
      exact h.ZU k
  · rw [undoTx_ZD, undoTx_ZD]
    by_cases hk : k ∈ t.kout.map (·.key)
    · obtain ⟨ko, hko, rfl⟩ := List.mem_map.mp hk
      rw [(undoKOut_written e t t.kout s ko hnd hko).2, (undoKOut_written e t t.kout r ko hnd hko).2]
      unfold undoZD
      cases citedVer t ko.key with
      | none =>
        simp only
        split
        · exact fun x => x
        · exact h.ZD ko.key m
      | some pv =>
        simp only
        split
        · exact fun x => x
        · split
          · exact fun x => x
          · exact h.ZD ko.key m
    · rw [(undoKOut_other e t t.kout s k hk).2, (undoKOut_other e t t.kout r k hk).2]
      exact h.ZD k m

theorem payFee_trefines (t : Tx) (prop : String) (l : List Out) (off : Nat) (s r : St) (h : TRefines s r) :
    TRefines (payFee t prop l off s) (payFee t prop l off r) := by
  obtain ⟨a1, a2, _⟩ := payFee_frame t prop l off s
  obtain ⟨b1, b2, _⟩ := payFee_frame t prop l off r
  exact ⟨payFee_congrT t prop l off s r h.obs, by rw [a1, b1]; exact h.ZU, by rw [a2, b2]; exact h.ZD⟩

theorem undoPayFee_trefines (t : Tx) (l : List Out) (off : Nat) (s r : St) (h : TRefines s r) :
    TRefines (undoPayFee t l off s) (undoPayFee t l off r) := by
  obtain ⟨a1, a2, _⟩ := undoPayFee_frame t l off s
  obtain ⟨b1, b2, _⟩ := undoPayFee_frame t l off r
  exact ⟨undoPayFee_congrT t l off s r h.obs, by rw [a1, b1]; exact h.ZU, by rw [a2, b2]; exact h.ZD⟩

theorem applyTx_refines (s r : St) (t : Tx) (h : Refines s r) : Refines (applyTx s t) (applyTx r t) := by
  obtain ⟨a1, a2, a3⟩ := applyTx_frame s t
  obtain ⟨b1, b2, b3⟩ := applyTx_frame r t
  exact Refines.ofT (applyTx_trefines s r t h.toT) (by rw [a1, b1, h.obs.pointer]) (by rw [a2, b2, h.obs.irrev])
    (by rw [a3, b3, h.obs.pool])

theorem undoTx_refines (e : Env) (s r : St) (t : Tx) (hnd : (t.kout.map (·.key)).Nodup)
    (hs : UndoSafe r t) (h : Refines s r) : Refines (undoTx e s t) (undoTx e r t) := by
  obtain ⟨a1, a2, a3⟩ := undoTx_frame e s t
  obtain ⟨b1, b2, b3⟩ := undoTx_frame e r t
  exact Refines.ofT (undoTx_trefines e s r t hnd hs h.toT) (by rw [a1, b1, h.obs.pointer])
    (by rw [a2, b2, h.obs.irrev]) (by rw [a3, b3, h.obs.pool])

theorem payFee_refines (t : Tx) (prop : String) (l : List Out) (off : Nat) (s r : St) (h : Refines s r) :
    Refines (payFee t prop l off s) (payFee t prop l off r) := by
  obtain ⟨_, _, _, a1, a2, a3⟩ := payFee_frame t prop l off s
  obtain ⟨_, _, _, b1, b2, b3⟩ := payFee_frame t prop l off r
  exact Refines.ofT (payFee_trefines t prop l off s r h.toT) (by rw [a1, b1, h.obs.pointer])
    (by rw [a2, b2, h.obs.irrev]) (by rw [a3, b3, h.obs.pool])

theorem undoPayFee_refines (t : Tx) (l : List Out) (off : Nat) (s r : St) (h : Refines s r) :
    Refines (undoPayFee t l off s) (undoPayFee t l off r) := by
  obtain ⟨_, _, _, a1, a2, a3⟩ := undoPayFee_frame t l off s
  obtain ⟨_, _, _, b1, b2, b3⟩ := undoPayFee_frame t l off r
  exact Refines.ofT (undoPayFee_trefines t l off s r h.toT) (by rw [a1, b1, h.obs.pointer])
    (by rw [a2, b2, h.obs.irrev]) (by rw [a3, b3, h.obs.pool])

/-- right after `applyTx` of a transaction whose reads were current, undo is safe: the key cited as never written
had no marker, and a non-delete write does not create one -/
theorem undoSafe_applyTx (s : St) (t : Tx) (hread : ∀ ki ∈ t.kin, curVer s ki.key = ki.ver)
    (hwr : ∀ ko ∈ t.kout, ∃ ki ∈ t.kin, ki.key = ko.key) (hnd : (t.kout.map (·.key)).Nodup) :
    UndoSafe (applyTx s t) t := by
  intro ko hko hc hd
  obtain ⟨i, hi⟩ := List.mem_iff_getElem?.mp hko
  obtain ⟨_, a2⟩ := applyKOut_written t t.kout 0 s i ko hnd hi
  rw [applyTx_ZD, a2]
  have hcv := citedVer_current s t hread hwr ko hko
  rw [hc] at hcv
  simp only [hd, Bool.false_eq_true, ↓reduceIte]
  exact (curVer_none s ko.key hcv.symm).2

theorem undoSafe_of_ZD (s s' : St) (t : Tx) (h : s'.ZD = s.ZD) (hs : UndoSafe s t) : UndoSafe s' t := by
  intro ko hko hc hd; rw [h]; exact hs ko hko hc hd

/-- `undoKOut` reads and writes only the two key tables -/
theorem undoKOut_tables (e : Env) (t : Tx) (l : List KOut) (s s' : St) (h1 : s.ZU = s'.ZU) (h2 : s.ZD = s'.ZD) :
    (undoKOut e t l s).ZU = (undoKOut e t l s').ZU ∧ (undoKOut e t l s).ZD = (undoKOut e t l s').ZD := by
  induction l generalizing s s' with
  | nil => exact ⟨h1, h2⟩
  | cons ko rest ih =>
    rw [undoKOut_cons, undoKOut_cons]
    apply ih
    · unfold undoStep
      cases citedVer t ko.key with
      | none => simp only [h1]
      | some pv => simp only; split <;> simp only [h1]
    · unfold undoStep
      cases citedVer t ko.key with
      | none => simp only [h2]
      | some pv => simp only; split <;> simp only [h2]

theorem undoTx_tables (e : Env) (t : Tx) (s s' : St) (h1 : s.ZU = s'.ZU) (h2 : s.ZD = s'.ZD) :
    (undoTx e s t).ZU = (undoTx e s' t).ZU ∧ (undoTx e s t).ZD = (undoTx e s' t).ZD := by
  rw [undoTx_ZU, undoTx_ZU, undoTx_ZD, undoTx_ZD]
  exact undoKOut_tables e t t.kout s s' h1 h2

end XV.Chain
