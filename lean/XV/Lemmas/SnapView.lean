import XV.Lemmas.InvKeys
import XV.Lemmas.UndoKeys
import XV.Model.Snapshot
/-!
Snapshot reads against runs of admitted transactions, at the level of *key views*.

A view is what the live reader shows: `curVer s : String → Option Ver`. Everything the snapshot walk looks at is
the view, the pool and the confirmation heights; admission (its key half) and `applyTx` act on the view only:
`curVer (applyTx s t) = stepV t (curVer s)` (`applyTx_view`), where the version a transaction leaves on a key is
(t.id, offset of its LAST write of the key) — no "one write per key" assumption. A run is a list of transaction
ids, each admitted (`AdmV`: every read cites the current version, every written key is read) on the view the
transactions before it produced.

`walkBack_run` is the closing induction: on top of a view `f` whose version of `key` is confirmed at or below the
snapshot height, after any run of transactions each of which is pending or confirmed above the snapshot height,
the walk started at the newest version returns exactly `f key` — with fuel ≥ (number of transactions of the run
that write the key) + 1.
-/
namespace XV.Snapshot
open XV.Chain

/-- what the live reader shows for every key -/
abbrev View := String → Option Ver

/-- the transaction table knows every transaction under its own id (ids are hashes of the content) -/
def EnvIds (e : Env) : Prop := ∀ p ∈ e.txs, p.2.id = p.1

instance (e : Env) : Decidable (EnvIds e) := by unfold EnvIds; exact inferInstance

theorem default_kout : (default : Tx).kout = [] := rfl

/-- a transaction the environment returns is known under its id, or is the (empty) default transaction -/
theorem envIds_tx (e : Env) (h : EnvIds e) (i : Nat) : (e.tx i).id = i ∨ e.tx i = default := by
  unfold Env.tx
  cases hl : lookup e.txs i with
  | none => right; rfl
  | some t =>
    left
    have := h (i, t) (lookup_mem _ _ _ hl)
    simpa using this

-- ------------------------------------------------------------------ the last write of a key

/-- offset of the last write of `key` in a write list whose head has offset `off` -/
def writeOff : List KOut → Nat → String → Option Nat
  | [], _, _ => none
  | ko :: rest, off, key =>
    match writeOff rest (off + 1) key with
    | some o => some o
    | none => if ko.key = key then some off else none

theorem writeOff_cons (ko : KOut) (rest : List KOut) (off : Nat) (key : String) :
    writeOff (ko :: rest) off key =
      match writeOff rest (off + 1) key with
      | some o => some o
      | none => if ko.key = key then some off else none := rfl

/-- the version of a key after the key writes of a transaction: its last write of the key, else unchanged -/
theorem applyKOut_view (t : Tx) (l : List KOut) (off : Nat) (s : St) (key : String) :
    curVer (applyKOut t l off s) key =
      match writeOff l off key with
      | some o => some (t.id, o)
      | none => curVer s key := by
  induction l generalizing off s with
  | nil => rfl
  | cons ko rest ih =>
    rw [applyKOut_cons, ih, writeOff_cons]
    cases writeOff rest (off + 1) key with
    | some o => rfl
    | none =>
      simp only
      rw [applyStep_curVer]
      by_cases hk : ko.key = key <;> simp [hk]

/-- the offset found is the index of a write of that key -/
theorem writeOff_spec (l : List KOut) (off : Nat) (key : String) (o : Nat) (h : writeOff l off key = some o) :
    off ≤ o ∧ ∃ ko, l[o - off]? = some ko ∧ ko.key = key := by
  induction l generalizing off with
  | nil => simp [writeOff] at h
  | cons k0 rest ih =>
    rw [writeOff_cons] at h
    cases hr : writeOff rest (off + 1) key with
    | some o' =>
      simp only [hr, Option.some.injEq] at h
      subst h
      obtain ⟨h1, ko, h2, h3⟩ := ih (off + 1) hr
      refine ⟨by omega, ko, ?_, h3⟩
      have : o' - off = (o' - (off + 1)) + 1 := by omega
      rw [this, List.getElem?_cons_succ]
      exact h2
    | none =>
      simp only [hr] at h
      by_cases hk : k0.key = key
      · simp only [hk, ↓reduceIte, Option.some.injEq] at h
        subst h
        exact ⟨Nat.le_refl _, k0, by simp, hk⟩
      · simp [hk] at h

theorem writeOff_none (l : List KOut) (off : Nat) (key : String) :
    writeOff l off key = none ↔ key ∉ l.map (·.key) := by
  induction l generalizing off with
  | nil => simp [writeOff]
  | cons k0 rest ih =>
    rw [writeOff_cons]
    cases hr : writeOff rest (off + 1) key with
    | some o' =>
      have : ¬ key ∉ rest.map (·.key) := fun hn => by
        have := (ih (off + 1)).mpr hn
        rw [hr] at this; cases this
      simp only [List.map_cons, List.mem_cons, not_or, reduceCtorEq, false_iff, not_and]
      intro _; exact this
    | none =>
      have hn := (ih (off + 1)).mp hr
      by_cases hk : k0.key = key
      · simp [hk]
      · have : ¬ key = k0.key := fun h => hk h.symm
        simp [hk, hn, this]

-- ------------------------------------------------------------------ one transaction on a view

/-- the view after `t` -/
def stepV (t : Tx) (f : View) : View := fun key =>
  match writeOff t.kout 0 key with
  | some o => some (t.id, o)
  | none => f key

/-- **`applyTx` acts on the view** -/
theorem applyTx_view (s : St) (t : Tx) (key : String) : curVer (applyTx s t) key = stepV t (curVer s) key := by
  rw [applyTx_curVer, applyKOut_view]
  rfl

/-- the key half of admission (`verifyRW`): every read cites the version the view shows, every written key is read -/
def AdmV (f : View) (t : Tx) : Prop :=
  (∀ ki ∈ t.kin, f ki.key = ki.ver) ∧ (∀ ko ∈ t.kout, ∃ ki ∈ t.kin, ki.key = ko.key)

instance (f : View) (t : Tx) : Decidable (AdmV f t) := by unfold AdmV; exact inferInstance

theorem stepV_default (f : View) : stepV default f = f := by
  funext key
  unfold stepV
  rw [default_kout]
  rfl

/-- an admitted writer cites, for every key it writes, the version that was current -/
theorem citedVer_view (f : View) (t : Tx) (hadm : AdmV f t) (key : String) (hk : key ∈ t.kout.map (·.key)) :
    citedVer t key = f key := by
  obtain ⟨ko, hko, rfl⟩ := List.mem_map.mp hk
  unfold citedVer
  obtain ⟨ki, hki, hkk⟩ := hadm.2 ko hko
  cases hf : t.kin.find? (fun ki => ki.key == ko.key) with
  | none =>
    have := List.find?_eq_none.mp hf ki hki
    simp [hkk] at this
  | some k1 =>
    have h1 : k1.key = ko.key := by simpa using List.find?_some hf
    have h2 := hadm.1 k1 (List.mem_of_find?_eq_some hf)
    simp only [Option.bind_some]
    rw [← h2, h1]

/-- **each link cites exactly the version that was current when it was applied** -/
theorem prevOf_written (e : Env) (t : Tx) (f : View) (key : String) (o : Nat) (hself : e.tx t.id = t)
    (hadm : AdmV f t) (hw : writeOff t.kout 0 key = some o) : prevOf e (t.id, o) key = f key := by
  have hk : key ∈ t.kout.map (·.key) := by
    cases hm : decide (key ∈ t.kout.map (·.key)) with
    | true => exact of_decide_eq_true hm
    | false =>
      have := (writeOff_none t.kout 0 key).mpr (of_decide_eq_false hm)
      rw [hw] at this; cases this
  have : prevOf e (t.id, o) key = citedVer t key := by
    unfold prevOf citedVer
    simp only [hself]
  rw [this]
  exact citedVer_view f t hadm key hk

-- ------------------------------------------------------------------ runs

/-- a run of admitted transactions (ids, oldest first) on a view -/
def RunV (e : Env) : List Nat → View → Prop
  | [], _ => True
  | i :: rest, f => AdmV f (e.tx i) ∧ RunV e rest (stepV (e.tx i) f)

instance decRunV (e : Env) : (l : List Nat) → (f : View) → Decidable (RunV e l f)
  | [], _ => isTrue trivial
  | i :: rest, f =>
    have := decRunV e rest (stepV (e.tx i) f)
    by unfold RunV; exact inferInstance

/-- the view after a run -/
def runV (e : Env) (l : List Nat) (f : View) : View := l.foldl (fun g i => stepV (e.tx i) g) f

theorem runV_nil (e : Env) (f : View) : runV e [] f = f := rfl

theorem runV_cons (e : Env) (i : Nat) (rest : List Nat) (f : View) :
    runV e (i :: rest) f = runV e rest (stepV (e.tx i) f) := rfl

theorem runV_append (e : Env) (l1 l2 : List Nat) (f : View) :
    runV e (l1 ++ l2) f = runV e l2 (runV e l1 f) := by
  unfold runV; rw [List.foldl_append]

theorem runV_snoc (e : Env) (l : List Nat) (i : Nat) (f : View) :
    runV e (l ++ [i]) f = stepV (e.tx i) (runV e l f) := by
  rw [runV_append]; rfl

theorem RunV_append (e : Env) (l1 l2 : List Nat) (f : View) :
    RunV e (l1 ++ l2) f ↔ RunV e l1 f ∧ RunV e l2 (runV e l1 f) := by
  induction l1 generalizing f with
  | nil => simp [RunV, runV_nil]
  | cons i rest ih =>
    simp only [List.cons_append, RunV, runV_cons]
    rw [ih]
    exact and_assoc.symm

theorem RunV_snoc (e : Env) (l : List Nat) (i : Nat) (f : View) :
    RunV e (l ++ [i]) f ↔ RunV e l f ∧ AdmV (runV e l f) (e.tx i) := by
  rw [RunV_append]
  simp [RunV]

/-- does transaction `i` write `key` -/
def writesKey (e : Env) (key : String) (i : Nat) : Bool := (writeOff (e.tx i).kout 0 key).isSome

/-- number of transactions of the run that write `key` -/
def nWrites (e : Env) (l : List Nat) (key : String) : Nat := l.countP (writesKey e key)

theorem nWrites_le (e : Env) (l : List Nat) (key : String) : nWrites e l key ≤ l.length :=
  List.countP_le_length

theorem nWrites_append (e : Env) (l1 l2 : List Nat) (key : String) :
    nWrites e (l1 ++ l2) key = nWrites e l1 key + nWrites e l2 key := by
  unfold nWrites; rw [List.countP_append]

/-- a version the view shows after a run was there before, or was written by a transaction of the run -/
theorem runV_origin (e : Env) (hids : EnvIds e) (l : List Nat) (f : View) (key : String) (v : Ver)
    (h : runV e l f key = some v) : f key = some v ∨ (v.1 ∈ l ∧ writesKey e key v.1 = true) := by
  induction l generalizing f with
  | nil => left; exact h
  | cons i rest ih =>
    rw [runV_cons] at h
    rcases ih _ h with h1 | h1
    · unfold stepV at h1
      cases hw : writeOff (e.tx i).kout 0 key with
      | none => simp only [hw] at h1; left; exact h1
      | some o =>
        simp only [hw, Option.some.injEq] at h1
        right
        have hid : (e.tx i).id = i := by
          rcases envIds_tx e hids i with h2 | h2
          · exact h2
          · rw [h2, default_kout] at hw; simp [writeOff] at hw
        have : v.1 = i := by rw [← h1]; exact hid
        rw [this]
        exact ⟨List.mem_cons_self, by unfold writesKey; rw [hw]; rfl⟩
    · right; exact ⟨List.mem_cons_of_mem _ h1.1, h1.2⟩

-- ------------------------------------------------------------------ the walk

theorem walkBack_succ_some (e : Env) (pool : List Nat) (confH : Nat → Option Nat) (h : Nat) (key : String)
    (fuel : Nat) (v : Ver) :
    walkBack e pool confH h key (fuel + 1) (some v) =
      (if pool.contains v.1 then walkBack e pool confH h key fuel (prevOf e v key)
       else match confH v.1 with
         | some bh => if bh ≤ h then some v else walkBack e pool confH h key fuel (prevOf e v key)
         | none => none) := rfl

/-- a writer that is pending, or confirmed above the snapshot height, hands the walk to the version it cited -/
theorem walkBack_pass (e : Env) (pool : List Nat) (confH : Nat → Option Nat) (h : Nat) (key : String)
    (fuel : Nat) (v : Ver) (hskip : v.1 ∈ pool ∨ ∃ bh, confH v.1 = some bh ∧ h < bh) :
    walkBack e pool confH h key (fuel + 1) (some v) = walkBack e pool confH h key fuel (prevOf e v key) := by
  rw [walkBack_succ_some]
  rcases hskip with hp | ⟨bh, hb, hlt⟩
  · simp [hp]
  · by_cases hp : v.1 ∈ pool
    · simp [hp]
    · have : ¬ bh ≤ h := by omega
      simp [hp, hb, this]

/-- the walk stops at once on "never written" and on a version confirmed at or below the snapshot height -/
theorem walkBack_stop (e : Env) (pool : List Nat) (confH : Nat → Option Nat) (h : Nat) (key : String)
    (fuel : Nat) (start : Option Ver) (hfuel : 1 ≤ fuel)
    (hbase : ∀ v, start = some v → v.1 ∉ pool ∧ ∃ bh, confH v.1 = some bh ∧ bh ≤ h) :
    walkBack e pool confH h key fuel start = start := by
  obtain ⟨n, rfl⟩ : ∃ n, fuel = n + 1 := ⟨fuel - 1, by omega⟩
  cases start with
  | none => rfl
  | some v =>
    obtain ⟨hp, bh, hb, hle⟩ := hbase v rfl
    rw [walkBack_succ_some]
    simp [hp, hb, hle]

/-- the closing induction, newest transaction first -/
theorem walkBack_run_rev (e : Env) (hids : EnvIds e) (pool : List Nat) (confH : Nat → Option Nat) (h : Nat)
    (key : String) (f : View)
    (hbase : ∀ v, f key = some v → v.1 ∉ pool ∧ ∃ bh, confH v.1 = some bh ∧ bh ≤ h) (lr : List Nat) :
    RunV e lr.reverse f →
    (∀ i ∈ lr, writesKey e key i = true → (i ∈ pool ∨ ∃ bh, confH i = some bh ∧ h < bh)) →
    ∀ fuel, nWrites e lr.reverse key + 1 ≤ fuel →
      walkBack e pool confH h key fuel (runV e lr.reverse f key) = f key := by
  induction lr with
  | nil =>
    intro _ _ fuel hfuel
    exact walkBack_stop e pool confH h key fuel _ (by simp [nWrites] at hfuel; omega) hbase
  | cons i rest ih =>
    intro hrun hskip fuel hfuel
    rw [List.reverse_cons] at hrun hfuel ⊢
    obtain ⟨hrun1, hadm⟩ := (RunV_snoc e rest.reverse i f).mp hrun
    have hskip1 : ∀ j ∈ rest, writesKey e key j = true → (j ∈ pool ∨ ∃ bh, confH j = some bh ∧ h < bh) :=
      fun j hj => hskip j (List.mem_cons_of_mem _ hj)
    rw [runV_snoc]
    rw [nWrites_append] at hfuel
    unfold stepV
    cases hw : writeOff (e.tx i).kout 0 key with
    | none =>
      simp only
      apply ih hrun1 hskip1
      omega
    | some o =>
      simp only
      have hwk : writesKey e key i = true := by unfold writesKey; rw [hw]; rfl
      have hid : (e.tx i).id = i := by
        rcases envIds_tx e hids i with h2 | h2
        · exact h2
        · rw [h2, default_kout] at hw; simp [writeOff] at hw
      have hone : nWrites e [i] key = 1 := by simp [nWrites, hwk]
      obtain ⟨n, rfl⟩ : ∃ n, fuel = n + 1 := ⟨fuel - 1, by omega⟩
      rw [walkBack_pass e pool confH h key n _ (by simpa [hid] using hskip i List.mem_cons_self hwk)]
      rw [prevOf_written e (e.tx i) (runV e rest.reverse f) key o (by rw [hid]) hadm hw]
      apply ih hrun1 hskip1
      omega

/-- **the closing induction.** On top of a view `f` whose version of `key` is absent or confirmed at or below the
snapshot height `h` (and not pending), after any run `l` of admitted transactions each of whose writers of `key` is
pending or confirmed above `h`, the snapshot walk started from the newest version answers `f key` — for every fuel
≥ (number of transactions of the run that write `key`) + 1 -/
theorem walkBack_run (e : Env) (hids : EnvIds e) (pool : List Nat) (confH : Nat → Option Nat) (h : Nat)
    (key : String) (f : View) (l : List Nat)
    (hbase : ∀ v, f key = some v → v.1 ∉ pool ∧ ∃ bh, confH v.1 = some bh ∧ bh ≤ h)
    (hrun : RunV e l f)
    (hskip : ∀ i ∈ l, writesKey e key i = true → (i ∈ pool ∨ ∃ bh, confH i = some bh ∧ h < bh))
    (fuel : Nat) (hfuel : nWrites e l key + 1 ≤ fuel) :
    walkBack e pool confH h key fuel (runV e l f key) = f key := by
  have := walkBack_run_rev e hids pool confH h key f hbase l.reverse
  rw [List.reverse_reverse] at this
  exact this hrun (fun i hi => hskip i (List.mem_reverse.mp hi)) fuel hfuel

end XV.Snapshot
