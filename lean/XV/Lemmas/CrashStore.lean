import XV.Lemmas.LedgerInvMain
import XV.Props.C05
/-!
Which blocks a truncation keeps, and where `play` / `playForMiner` leave the pointer — for "the block the state's
pointer names is stored in the ledger" along a history.
-/
namespace XV.Ledger
open XV.Chain (lookup put del lookup_put lookup_del lookup_put_same lookup_del_same lookup_cons lookup_nil)

/-- **`truncate` keeps every stored block that is not higher than the target** (it removes exactly the blocks above
the target's height, on every branch) -/
theorem truncate_keeps_low {l : L} (I : LedgerInv l) (target : Nat) {th xb : Hdr} {x : Nat}
    (st : lookup l.B target = some th) (sx : lookup l.B x = some xb) (hle : xb.height ≤ th.height) :
    (lookup (truncate l target).1.B x).isSome = true := by
  have T := I.tree
  rw [truncate_eq st]
  have hps : ∀ p, p ∈ l.ZI.filter (fun p => p.1 ≠ target && p.2 > th.height) ↔
      p ∈ l.ZI ∧ p.1 ≠ target ∧ th.height < p.2 := by
    intro p
    rw [List.mem_filter]
    simp
  generalize hpsdef : l.ZI.filter (fun p => p.1 ≠ target && p.2 > th.height) = ps at hps
  have V : ∀ p, p ∈ ps → ∃ pb, lookup l.B p.1 = some pb ∧ th.height < pb.height := by
    intro p hp
    obtain ⟨h1, _, h3⟩ := (hps p).1 hp
    have := lookup_of_mem_nodup I.zi_nodup (k := p.1) (v := p.2) h1
    obtain ⟨pb, s1, e, _⟩ := (I.zi p.1 p.2).1 this
    exact ⟨pb, s1, by omega⟩
  have F := truncFold_spec T target th.height ps l V
  generalize ps.foldl (truncStep l target th.height) l = f at F
  have hfx : lookup f.B x = some xb := by
    rw [F.B2 x (fun xb' sx' => by rw [sx] at sx'; cases sx'; exact hle)]
    exact sx
  show (lookup (if th.next.isSome then saveBlock f target { th with next := none } else f).B x).isSome = true
  by_cases hn : th.next.isSome = true
  · rw [if_pos hn, saveBlock_B']
    split
    · rfl
    · rw [hfx]; rfl
  · rw [if_neg hn, hfx]; rfl

end XV.Ledger

namespace XV.Crash
open XV.Chain

/-- `play` either refuses (nothing changes) or leaves the pointer on the block -/
theorem play_pointer (e : Env) (s : St) (lh : Int) (b : Block) :
    (play e s lh b).1 = s ∨ (play e s lh b).1.pointer = b.id := by
  unfold play
  by_cases h1 : b.pre ≠ some s.pointer
  · left; simp [h1]
  · simp only [h1]
    by_cases h2 : blockHasDupInput e b.txs = true
    · left; simp [h2]
    · simp only [h2]
      by_cases h3 : parentMissing e s.pool [] b.txs = true
      · left; simp [h3]
      · simp only [h3]
        by_cases h4 : staleMember e s.pool [] b.txs = true
        · left; simp [h4]
        · simp only [h4]
          generalize applyBlockTxs e lh b.prop _ b.txs _ = res
          rcases res with _ | ⟨s2, r⟩
          · left; simp
          · cases r <;> simp

theorem playForMiner_pointer (e : Env) (s : St) (lh : Int) (b : Block) :
    (playForMiner e s lh b).1 = s ∨ (playForMiner e s lh b).1.pointer = b.id := by
  unfold playForMiner
  split
  · left; rfl
  · split
    · right; rfl
    · left; rfl

end XV.Crash
