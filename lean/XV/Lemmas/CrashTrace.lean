import XV.Model.Crash
import XV.Lemmas.UndoWalk
import XV.Lemmas.UndoBlock
/-!
Structure of `walkTrace`: every element of the undo / apply / re-admission part is the result of the corresponding
loop of `walk` run on a non-empty *prefix* of its list, and the loop on the whole list is the loop on the rest of the
list continued from that element (so an interrupted walk can be resumed).
-/
namespace XV.Crash
open XV.Chain

-- ------------------------------------------------------------------ the loops of `walk` over an appended list

theorem undoAll_nil (e : Env) (prune : Bool) (st : St) : walk.undoAll e prune [] st = (st, true) := rfl

theorem undoAll_cons (e : Env) (prune : Bool) (bi : Nat) (rest : List Nat) (st : St) :
    walk.undoAll e prune (bi :: rest) st =
      if (!prune && decide (((e.block bi).height : Int) ≤ st.irrev)) = true then (st, false)
      else walk.undoAll e prune rest (undoBlock e st (e.block bi) prune) := by
  rw [walk.undoAll]

theorem undoAll_append (e : Env) (prune : Bool) (A B : List Nat) :
    ∀ st, walk.undoAll e prune (A ++ B) st =
      if (walk.undoAll e prune A st).2 = true then walk.undoAll e prune B (walk.undoAll e prune A st).1
      else walk.undoAll e prune A st := by
  induction A with
  | nil => intro st; simp [undoAll_nil]
  | cons bi rest ih =>
    intro st
    rw [List.cons_append, undoAll_cons, undoAll_cons]
    by_cases hc : (!prune && decide (((e.block bi).height : Int) ≤ st.irrev)) = true
    · simp only [if_pos hc, Bool.false_eq_true, ↓reduceIte]
    · simp only [if_neg hc]; exact ih _

theorem todoAll_nil (e : Env) (lh : Int) (st : St) : walk.todoAll e lh [] st = (st, true) := rfl

theorem todoAll_cons (e : Env) (lh : Int) (bi : Nat) (rest : List Nat) (st : St) :
    walk.todoAll e lh (bi :: rest) st =
      match todoBlock e st lh (e.block bi) with
      | some st' => walk.todoAll e lh rest st'
      | none => (st, false) := by
  rfl

theorem todoAll_append (e : Env) (lh : Int) (A B : List Nat) :
    ∀ st, walk.todoAll e lh (A ++ B) st =
      if (walk.todoAll e lh A st).2 = true then walk.todoAll e lh B (walk.todoAll e lh A st).1
      else walk.todoAll e lh A st := by
  induction A with
  | nil => intro st; simp [todoAll_nil]
  | cons bi rest ih =>
    intro st
    rw [List.cons_append, todoAll_cons, todoAll_cons]
    cases todoBlock e st lh (e.block bi) with
    | none => simp
    | some st' => exact ih st'

-- ------------------------------------------------------------------ what the elements of the step lists are

/-- an element of the undo part of the trace is the completed undo loop over a non-empty prefix of the list -/
theorem mem_undoSteps (e : Env) (prune : Bool) (l : List Nat) :
    ∀ st x, x ∈ undoSteps e prune l st →
      ∃ A B, l = A ++ B ∧ A ≠ [] ∧ walk.undoAll e prune A st = (x, true) := by
  induction l with
  | nil => intro st x hx; simp [undoSteps] at hx
  | cons bi rest ih =>
    intro st x hx
    unfold undoSteps at hx
    simp only at hx
    by_cases hc : (!prune && decide (((e.block bi).height : Int) ≤ st.irrev)) = true
    · rw [if_pos hc] at hx; simp at hx
    · rw [if_neg hc] at hx
      rcases List.mem_cons.mp hx with rfl | hx
      · refine ⟨[bi], rest, rfl, by simp, ?_⟩
        rw [undoAll_cons, if_neg hc, undoAll_nil]
      · obtain ⟨A, B, h1, _, h3⟩ := ih _ x hx
        refine ⟨bi :: A, B, by rw [h1]; rfl, by simp, ?_⟩
        rw [undoAll_cons, if_neg hc, h3]

/-- conversely: every completed non-empty prefix of the undo loop is in the trace -/
theorem undoSteps_complete (e : Env) (prune : Bool) (A B : List Nat) :
    ∀ st x, A ≠ [] → walk.undoAll e prune A st = (x, true) → x ∈ undoSteps e prune (A ++ B) st := by
  induction A with
  | nil => intro st x h; exact absurd rfl h
  | cons bi rest ih =>
    intro st x _ h
    rw [undoAll_cons] at h
    rw [List.cons_append]
    unfold undoSteps
    simp only
    by_cases hc : (!prune && decide (((e.block bi).height : Int) ≤ st.irrev)) = true
    · rw [if_pos hc] at h; cases h
    · rw [if_neg hc] at h ⊢
      cases rest with
      | nil =>
        rw [undoAll_nil] at h
        cases h
        exact List.mem_cons_self
      | cons b2 r2 => exact List.mem_cons_of_mem _ (ih _ x (by simp) h)

theorem mem_todoSteps (e : Env) (lh : Int) (l : List Nat) :
    ∀ st x, x ∈ todoSteps e lh l st →
      ∃ A B, l = A ++ B ∧ A ≠ [] ∧ walk.todoAll e lh A st = (x, true) := by
  induction l with
  | nil => intro st x hx; simp [todoSteps] at hx
  | cons bi rest ih =>
    intro st x hx
    unfold todoSteps at hx
    cases hb : todoBlock e st lh (e.block bi) with
    | none => rw [hb] at hx; simp at hx
    | some st' =>
      rw [hb] at hx
      simp only at hx
      rcases List.mem_cons.mp hx with rfl | hx
      · refine ⟨[bi], rest, rfl, by simp, ?_⟩
        rw [todoAll_cons, hb]
        rfl
      · obtain ⟨A, B, h1, _, h3⟩ := ih _ x hx
        refine ⟨bi :: A, B, by rw [h1]; rfl, by simp, ?_⟩
        rw [todoAll_cons, hb]
        exact h3

theorem todoSteps_complete (e : Env) (lh : Int) (A B : List Nat) :
    ∀ st x, A ≠ [] → walk.todoAll e lh A st = (x, true) → x ∈ todoSteps e lh (A ++ B) st := by
  induction A with
  | nil => intro st x h; exact absurd rfl h
  | cons bi rest ih =>
    intro st x _ h
    rw [todoAll_cons] at h
    rw [List.cons_append]
    unfold todoSteps
    cases hb : todoBlock e st lh (e.block bi) with
    | none => rw [hb] at h; cases h
    | some st' =>
      rw [hb] at h
      simp only at h ⊢
      cases rest with
      | nil =>
        rw [todoAll_nil] at h
        cases h
        exact List.mem_cons_self
      | cons b2 r2 => exact List.mem_cons_of_mem _ (ih _ x (by simp) h)

/-- an element of the re-admission part is the re-admission loop over a non-empty prefix of the old pool -/
theorem mem_repostSteps (e : Env) (lh : Int) (l : List Nat) :
    ∀ st x, x ∈ repostSteps e lh l st →
      ∃ A B, l = A ++ B ∧ A ≠ [] ∧ x = A.foldl (fun st i => (doTx e st lh i).1) st := by
  induction l with
  | nil => intro st x hx; simp [repostSteps] at hx
  | cons i rest ih =>
    intro st x hx
    unfold repostSteps at hx
    by_cases hc : (doTx e st lh i).2 = .ok
    · rw [if_pos hc] at hx
      rcases List.mem_cons.mp hx with rfl | hx
      · exact ⟨[i], rest, rfl, by simp, rfl⟩
      · obtain ⟨A, B, h1, _, h3⟩ := ih _ x hx
        exact ⟨i :: A, B, by rw [h1]; rfl, by simp, by rw [h3]; rfl⟩
    · rw [if_neg hc] at hx
      obtain ⟨A, B, h1, _, h3⟩ := ih _ x hx
      exact ⟨i :: A, B, by rw [h1]; rfl, by simp, by rw [h3]; rfl⟩

-- ------------------------------------------------------------------ `walk` without its re-admission

/-- `walk` up to (not including) the re-admission of the old pool -/
def walkCore (e : Env) (s : St) (lh : Int) (dest : Nat) (prune : Bool) : St × Bool :=
  let s0 := rolledBack e s
  let ut := undoTodo e s.pointer dest
  let r1 := walk.undoAll e prune ut.1 s0
  if !r1.2 then (r1.1, false) else walk.todoAll e lh ut.2 r1.1

/-- `walk` = `walkCore`, then (on success) the re-admission of the old pool (`repostList e s`: the rolled-back pending
transactions except those the ledger records as confirmed on the chain walked to) -/
theorem walk_eq_core (e : Env) (s : St) (lh : Int) (dest : Nat) (prune : Bool) :
    walk e s lh dest prune =
      if (walkCore e s lh dest prune).2 = true then
        ((repostList e s).foldl (fun st i => (doTx e st lh i).1) (walkCore e s lh dest prune).1, true)
      else ((walkCore e s lh dest prune).1, false) := by
  rw [walk_eq]
  unfold walkCore
  simp only
  cases h1 : (walk.undoAll e prune (undoTodo e s.pointer dest).1 (rolledBack e s)).2 with
  | false => simp
  | true =>
    simp only [Bool.not_true, Bool.false_eq_true, ↓reduceIte]
    cases h2 : (walk.todoAll e lh (undoTodo e s.pointer dest).2
        (walk.undoAll e prune (undoTodo e s.pointer dest).1 (rolledBack e s)).1).2 with
    | false =>
      simp only [Bool.not_false, ↓reduceIte, Bool.false_eq_true]
    | true => simp

theorem walk_ok_iff_core (e : Env) (s : St) (lh : Int) (dest : Nat) (prune : Bool) :
    (walk e s lh dest prune).2 = (walkCore e s lh dest prune).2 := by
  rw [walk_eq_core]
  cases h : (walkCore e s lh dest prune).2 <;> simp

/-- with an empty pool there is nothing to put back -/
theorem walk_eq_core_of_pool_nil (e : Env) (s : St) (lh : Int) (dest : Nat) (prune : Bool) (hp : s.pool = []) :
    walk e s lh dest prune = walkCore e s lh dest prune := by
  have hr : repostList e s = [] := by unfold repostList; rw [hp]; rfl
  rw [walk_eq_core, hr]
  cases h : (walkCore e s lh dest prune).2 with
  | false =>
    simp only [Bool.false_eq_true, ↓reduceIte]
    rw [← h]
  | true =>
    simp only [↓reduceIte, List.foldl_nil]
    rw [← h]

theorem rolledBack_of_pool_nil (e : Env) (x : St) (hp : x.pool = []) : rolledBack e x = x := by
  cases x
  simp only at hp
  subst hp
  rfl

theorem rolledBack_pointer (e : Env) (s : St) : (rolledBack e s).pointer = s.pointer :=
  foldl_undoTx_pointer e s.pool.reverse s

theorem rolledBack_pool (e : Env) (s : St) : (rolledBack e s).pool = [] := rfl

/-- the elements of the block-boundary part of the trace, by phase -/
theorem mem_walkMid (e : Env) (s : St) (lh : Int) (dest : Nat) (prune : Bool) (x : St)
    (hx : x ∈ walkMid e s lh dest prune) :
    x = rolledBack e s ∨
    (∃ A B, (undoTodo e s.pointer dest).1 = A ++ B ∧ A ≠ [] ∧ walk.undoAll e prune A (rolledBack e s) = (x, true)) ∨
    (∃ s1 A B, walk.undoAll e prune (undoTodo e s.pointer dest).1 (rolledBack e s) = (s1, true) ∧
      (undoTodo e s.pointer dest).2 = A ++ B ∧ A ≠ [] ∧ walk.todoAll e lh A s1 = (x, true)) := by
  unfold walkMid at hx
  simp only at hx
  rcases List.mem_cons.mp hx with rfl | hx
  · left; rfl
  · rcases List.mem_append.mp hx with hx | hx
    · right; left
      exact mem_undoSteps e prune _ _ x hx
    · right; right
      cases h1 : (walk.undoAll e prune (undoTodo e s.pointer dest).1 (rolledBack e s)).2 with
      | false => rw [h1] at hx; simp at hx
      | true =>
        rw [h1] at hx
        simp only [↓reduceIte] at hx
        obtain ⟨A, B, a1, a2, a3⟩ := mem_todoSteps e lh _ _ x hx
        exact ⟨_, A, B, by rw [← h1], a1, a2, a3⟩

/-- the elements of the re-admission part of the trace -/
theorem mem_walkRepost (e : Env) (s : St) (lh : Int) (dest : Nat) (prune : Bool) (x : St)
    (hx : x ∈ walkRepost e s lh dest prune) :
    (walkCore e s lh dest prune).2 = true ∧
    ∃ A B, repostList e s = A ++ B ∧ A ≠ [] ∧ x = A.foldl (fun st i => (doTx e st lh i).1) (walkCore e s lh dest prune).1 := by
  unfold walkRepost at hx
  unfold walkCore
  simp only at hx ⊢
  cases h1 : (walk.undoAll e prune (undoTodo e s.pointer dest).1 (rolledBack e s)).2 with
  | false => rw [h1] at hx; simp at hx
  | true =>
    rw [h1] at hx
    simp only [Bool.true_and] at hx
    simp only [Bool.not_true, Bool.false_eq_true, ↓reduceIte]
    cases h2 : (walk.todoAll e lh (undoTodo e s.pointer dest).2
        (walk.undoAll e prune (undoTodo e s.pointer dest).1 (rolledBack e s)).1).2 with
    | false => rw [h2] at hx; simp at hx
    | true =>
      rw [h2] at hx
      simp only [↓reduceIte] at hx
      exact ⟨rfl, mem_repostSteps e lh _ _ x hx⟩

end XV.Crash
