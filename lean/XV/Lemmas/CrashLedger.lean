import XV.Lemmas.CrashTrace
import XV.Props.C02
/-!
The C02 reachable-state invariant `Ledger e s C` (ghost log `C` of confirmed transactions) on every element of
`walkTrace`: whatever batch of a walk was the last one written, the state is explained by a confirmed log and its pool.
-/
namespace XV.Crash
open XV.Chain XV.C02

theorem blockTxs_append (e : Env) (l1 l2 : List Nat) : blockTxs e (l1 ++ l2) = blockTxs e l1 ++ blockTxs e l2 := by
  unfold blockTxs; rw [List.flatMap_append]

/-- **every element of the trace of a walk satisfies the ledger invariant of C02** for a suitable ghost log — hence
(`Ledger.toPoolInv`, `Ledger.invariants`) one row per key, conservation, supply, and *every input of every pending
transaction is spent*: the pool contains only transactions whose effects are present. Hypotheses: those of
`walk_Ledger` (C02), which is the same statement for the last element only (after the repair of `recoverUnconfirmedTx`:
`hskip` — the ledger's skip list names every pending transaction the chain walked to confirms — instead of the former
dynamic hypothesis `hre`; the re-admission batches run over `repostList e s`). -/
theorem walkTrace_Ledger (e : Env) (s : St) (lh : Int) (dest : Nat) (prune : Bool) (C C0 : List Nat) (h : Ledger e s C)
    (hundo : C = C0 ++ blockTxs e (undoTodo e s.pointer dest).1.reverse)
    (hnd : (C0 ++ blockTxs e (undoTodo e s.pointer dest).2).Nodup)
    (hblk : ∀ bi ∈ (undoTodo e s.pointer dest).2, (∀ i ∈ (e.block bi).txs, (e.tx i).id = i) ∧
      (∀ i ∈ (e.block bi).txs, (e.tx i).coinbase = true → (e.tx i).ins = [] ∧ feeOf (e.tx i).outs = 0))
    (hskip : SkipsConfirmed e s (C0 ++ blockTxs e (undoTodo e s.pointer dest).2))
    (x : St) (hx : x ∈ walkTrace e s lh dest prune) : ∃ C', Ledger e x C' := by
  -- batch 1: the pool rolled back (as in `walk_Ledger`)
  have hl := h.led
  obtain ⟨_, hndP, _⟩ := List.nodup_append.mp hl.nodupA
  obtain ⟨_, hoP, _⟩ := List.pairwise_append.mp hl.order
  have hndr : s.pool.reverse.Nodup := by
    unfold List.Nodup
    rw [List.pairwise_reverse]
    exact List.Pairwise.imp (fun h => fun e2 => h e2.symm) hndP
  have hfold := undoFold_LedSum e s.pool.reverse s C s.pool h hndr (fun t ht => List.mem_reverse.mp ht)
    (by rw [List.pairwise_reverse]; exact hoP) (fun t _ j hj _ => List.mem_reverse.mpr hj)
  have hnil : s.pool.filter (fun x => !s.pool.reverse.contains x) = [] := by
    apply List.filter_eq_nil_iff.mpr; intro a ha; simp [ha]
  rw [hnil] at hfold
  have h0 : Ledger e (rolledBack e s) (C0 ++ blockTxs e (undoTodo e s.pointer dest).1.reverse) := by
    rw [← hundo]; exact LedSum.congr hfold rfl rfl
  have hp0 : (rolledBack e s).pool = [] := rfl
  -- the undo phase over any prefix
  have undoCase : ∀ (A B : List Nat) (y : St), (undoTodo e s.pointer dest).1 = A ++ B →
      walk.undoAll e prune A (rolledBack e s) = (y, true) →
      Ledger e y (C0 ++ blockTxs e B.reverse) ∧ y.pool = [] := by
    intro A B y hsplit hrun
    rw [hsplit, List.reverse_append, blockTxs_append, ← List.append_assoc] at h0
    obtain ⟨C1, u1, u2, u3⟩ := undoAll_Ledger e prune A (rolledBack e s) _ h0 hp0
    rw [hrun] at u1 u2 u3
    rw [u3 rfl] at u1
    exact ⟨u1, u2⟩
  unfold walkTrace at hx
  rcases List.mem_append.mp hx with hx | hx
  · rcases mem_walkMid e s lh dest prune x hx with rfl | ⟨A, B, hsplit, _, hrun⟩ | ⟨s1, A, B, hund, hsplit, hne, hrun⟩
    · exact ⟨_, h0⟩
    · exact ⟨_, (undoCase A B x hsplit hrun).1⟩
    · obtain ⟨u1, u2⟩ := undoCase (undoTodo e s.pointer dest).1 [] s1 (by simp) hund
      simp only [List.reverse_nil, blockTxs, List.flatMap_nil, List.append_nil] at u1
      rw [hsplit, blockTxs_append, ← List.append_assoc] at hnd
      obtain ⟨C2, t1, _, _⟩ := todoAll_Ledger e lh A s1 C0 u1 u2 (List.nodup_append.mp hnd).1
        (fun bi hbi => hblk bi (by rw [hsplit]; exact List.mem_append_left _ hbi))
      rw [hrun] at t1
      exact ⟨C2, t1⟩
  · obtain ⟨hok, A, B, hsplit, _, hxe⟩ := mem_walkRepost e s lh dest prune x hx
    -- the state before the re-admissions
    have hcore : Ledger e (walkCore e s lh dest prune).1 (C0 ++ blockTxs e (undoTodo e s.pointer dest).2) := by
      unfold walkCore at hok ⊢
      simp only at hok ⊢
      cases h1 : (walk.undoAll e prune (undoTodo e s.pointer dest).1 (rolledBack e s)).2 with
      | false => rw [h1] at hok; simp at hok
      | true =>
        rw [h1] at hok
        simp only [Bool.not_true, Bool.false_eq_true, ↓reduceIte] at hok ⊢
        obtain ⟨u1, u2⟩ := undoCase (undoTodo e s.pointer dest).1 []
          (walk.undoAll e prune (undoTodo e s.pointer dest).1 (rolledBack e s)).1 (by simp) (by rw [← h1])
        simp only [List.reverse_nil, blockTxs, List.flatMap_nil, List.append_nil] at u1
        obtain ⟨C2, t1, _, t3⟩ := todoAll_Ledger e lh (undoTodo e s.pointer dest).2 _ C0 u1 u2 hnd hblk
        rw [t3 hok] at t1
        exact t1
    refine ⟨C0 ++ blockTxs e (undoTodo e s.pointer dest).2, ?_⟩
    rw [hxe]
    apply readmit_Ledger e lh A _ _ hcore
    intro i hi
    have hir : i ∈ repostList e s := by rw [hsplit]; exact List.mem_append_left _ hi
    have hip : i ∈ s.pool := repostList_subset e s i hir
    exact ⟨hl.idEq i (List.mem_append_right _ hip), h.poolNonCoinbase i hip,
      fun hc => absurd hc (hskip.not_confirmed i hir)⟩

end XV.Crash
