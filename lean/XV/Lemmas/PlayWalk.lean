import XV.Lemmas.UndoWalk
/-!
The two ancestor paths that `undoTodo` compares, as lists from the root: both are one common prefix followed by the
blocks to undo (oldest first) / the blocks to apply. Used to tie the ghost log of confirmed transactions to the path
root..pointer (`ChainLog`, Props/C01.lean). Also: the path of a child is the path of its parent plus the child, and an
accepted `play` / `playForMiner` extends the pointer.
-/
namespace XV.Chain

/-- **the two paths from the root split at one point**: with `(undo, todo) = undoTodo e cur dest`, the path
root..cur is `pre ++ undo.reverse` and the path root..dest is `pre ++ todo`, for one and the same `pre` (the path
root..lowest common ancestor, or `[]` when the two chains have no block in common) -/
theorem undoTodo_paths (e : Env) (cur dest : Nat) (hpl : ParentLower e) :
    ∃ pre, (ancestors e (e.blocks.length + 1) cur).reverse = pre ++ (undoTodo e cur dest).1.reverse ∧
      (ancestors e (e.blocks.length + 1) dest).reverse = pre ++ (undoTodo e cur dest).2 := by
  obtain ⟨_, _, hsplit⟩ := undoTodo_split e cur dest hpl
  rcases hsplit with ⟨h1, h2, _⟩ | ⟨lca, r1, r2, h1, h2, _⟩
  · refine ⟨[], by rw [← h1]; rfl, ?_⟩
    rw [h2, List.reverse_reverse]; rfl
  · have e1 := ancestors_tail_eq e hpl cur lca _ r1 h1
    have e2 := ancestors_tail_eq e hpl dest lca _ r2 h2
    have hr : r1 = r2 := by
      have := e1.trans e2.symm
      simpa using this
    subst hr
    refine ⟨(lca :: r1).reverse, ?_, ?_⟩
    · rw [h1, List.reverse_append]
    · rw [h2, List.reverse_append, List.reverse_reverse]

/-- the path of a child is the child in front of the (complete) path of its parent -/
theorem ancestors_child (e : Env) (hpl : ParentLower e) (bi cur : Nat) (hpre : (e.block bi).pre = some cur) :
    ancestors e (e.blocks.length + 1) bi = bi :: ancestors e (e.blocks.length + 1) cur := by
  have hk := block_known_of_pre e bi (by rw [hpre]; simp)
  obtain ⟨m, hm⟩ : ∃ m, e.blocks.length = m + 1 := by
    cases hb : e.blocks with
    | nil => rw [hb] at hk; simp at hk
    | cons x r => exact ⟨r.length, by simp⟩
  obtain ⟨r, hr⟩ := ancestors_head e m cur
  have h1 : ancestors e (e.blocks.length + 1) bi = [bi] ++ cur :: r := by
    rw [ancestors_succ_some e _ bi cur hpre, hm, hr]; rfl
  have h2 := ancestors_tail_eq e hpl bi cur [bi] r h1
  rw [h1, ← h2]; rfl

/-- an accepted block extends the pointer: its parent is the tip, and the tip moves to it -/
theorem play_ok_pointer (e : Env) (s : St) (lh : Int) (b : Block) (h : (play e s lh b).2 = .ok) :
    b.pre = some s.pointer ∧ (play e s lh b).1.pointer = b.id := by
  unfold play at h ⊢
  by_cases h1 : b.pre ≠ some s.pointer
  · rw [if_pos h1] at h; cases h
  · have hpre : b.pre = some s.pointer := by simpa using h1
    refine ⟨hpre, ?_⟩
    rw [if_neg h1] at h ⊢
    by_cases h2 : blockHasDupInput e b.txs = true
    · rw [if_pos h2] at h; cases h
    · rw [if_neg h2] at h ⊢
      by_cases h3 : parentMissing e s.pool [] b.txs = true
      · rw [if_pos h3] at h; cases h
      · rw [if_neg h3] at h ⊢
        by_cases h4 : staleMember e s.pool [] b.txs = true
        · rw [if_pos h4] at h; cases h
        · rw [if_neg h4] at h ⊢
          revert h
          dsimp only
          split
          · intro _; rfl
          · rename_i hne _
            intro h
            exact absurd h hne
          · intro h; cases h

/-- the same for the miner's own block -/
theorem playForMiner_ok_pointer (e : Env) (s : St) (lh : Int) (b : Block) (h : (playForMiner e s lh b).2 = .ok) :
    b.pre = some s.pointer ∧ (playForMiner e s lh b).1.pointer = b.id := by
  unfold playForMiner at h ⊢
  by_cases h1 : b.pre ≠ some s.pointer
  · rw [if_pos h1] at h; cases h
  · have hpre : b.pre = some s.pointer := by simpa using h1
    refine ⟨hpre, ?_⟩
    rw [if_neg h1] at h ⊢
    revert h
    generalize playForMiner.go e lh b b.txs s = res
    rcases res with _ | s2
    · intro h; cases h
    · intro _; rfl

-- ------------------------------------------------------------------ the paths at the intermediate blocks of a walk

/-- `todoBlock` moves the pointer to the block it applied -/
theorem todoBlock_pointer (e : Env) (s s' : St) (lh : Int) (b : Block) (h : todoBlock e s lh b = some s') :
    s'.pointer = b.id := by
  unfold todoBlock at h
  split at h
  · cases h
  · split at h
    · simp only [Option.some.injEq] at h
      rw [← h]
    · cases h

/-- a non-empty prefix of the ancestor list of `p` starts with `p`, and the rest of it is a prefix of the ancestor list of
the block the undo of `p` moves the pointer to (the parent; `0` for a root, and then the rest is empty) -/
theorem ancestors_prefix_step (e : Env) (hpl : ParentLower e) (p bi : Nat) (rest tl : List Nat)
    (h : ancestors e (e.blocks.length + 1) p = (bi :: rest) ++ tl) :
    bi = p ∧ ∃ tl', ancestors e (e.blocks.length + 1) ((e.block p).pre.getD 0) = rest ++ tl' := by
  cases hp : (e.block p).pre with
  | none =>
    rw [ancestors_succ_none e _ p hp] at h
    simp only [List.cons_append, List.cons.injEq] at h
    obtain ⟨h1, h2⟩ := h
    have hr : rest = [] := by
      cases rest with
      | nil => rfl
      | cons x r => simp at h2
    exact ⟨h1.symm, _, by rw [hr]; rfl⟩
  | some q =>
    rw [ancestors_child e hpl p q hp] at h
    simp only [List.cons_append, List.cons.injEq] at h
    exact ⟨h.1.symm, tl, h.2⟩

/-- every block on the path root..dest has, as its own path, the part of that path up to itself -/
theorem path_prefix (e : Env) (hpl : ParentLower e) (dest c : Nat) (l1 l2 : List Nat)
    (h : (ancestors e (e.blocks.length + 1) dest).reverse = l1 ++ c :: l2) :
    (ancestors e (e.blocks.length + 1) c).reverse = l1 ++ [c] := by
  have h' : ancestors e (e.blocks.length + 1) dest = l2.reverse ++ c :: l1.reverse := by
    have := congrArg List.reverse h
    rw [List.reverse_reverse] at this
    rw [this]; simp
  have := ancestors_tail_eq e hpl dest c _ _ h'
  rw [← this]; simp

end XV.Chain
