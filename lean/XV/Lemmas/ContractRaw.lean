import XV.Lemmas.Contract
/-! helper lemmas for the raw level of `Props/C09.lean`: the declared write set as the list `TxOutputsExt`
(`WX`, `RawTx`), its split into stored and transient entries, the parse loops, `xmodel.Equal` as a
permutation, repeated entries, the commit in any order -/
namespace XV.Contract
open XV.Sandbox

/-! ### stored and transient entries of a declared write set -/

theorem kvOf_append (a b : List WX) : kvOf (a ++ b) = kvOf a ++ kvOf b := by
  induction a with
  | nil => rfl
  | cons e r ih => cases e <;> simp [kvOf, ih]

theorem trOf_append (a b : List WX) : trOf (a ++ b) = trOf a ++ trOf b := by
  induction a with
  | nil => rfl
  | cons e r ih => cases e <;> simp [trOf, ih]

theorem kvOf_map_tr (l : List TEntry) : kvOf (l.map .tr) = [] := by
  induction l with
  | nil => rfl
  | cons e r ih => simp [kvOf, ih]

theorem kvOf_map_kv (l : List WEntry) : kvOf (l.map .kv) = l := by
  induction l with
  | nil => rfl
  | cons e r ih => simp [kvOf, ih]

theorem trOf_map_tr (l : List TEntry) : trOf (l.map .tr) = l := by
  induction l with
  | nil => rfl
  | cons e r ih => simp [trOf, ih]

theorem trOf_map_kv (l : List WEntry) : trOf (l.map .kv) = [] := by
  induction l with
  | nil => rfl
  | cons e r ih => simp [trOf, ih]

theorem kvOf_encodeW (a : List TxIn) (b : List TxOut) (c : List Nat) (k : List WEntry) :
    kvOf (encodeW a b c k) = k := by
  simp [encodeW, kvOf_append, kvOf_map_tr, kvOf_map_kv]

theorem trOf_encodeW (a : List TxIn) (b : List TxOut) (c : List Nat) (k : List WEntry) :
    trOf (encodeW a b c k) = transientOf a b c := by
  simp [encodeW, trOf_append, trOf_map_tr, trOf_map_kv]

def kvSel : WX → Option WEntry
  | .kv w => some w
  | .tr _ => none

def trSel : WX → Option TEntry
  | .tr e => some e
  | .kv _ => none

theorem kvOf_eq_filterMap (l : List WX) : kvOf l = l.filterMap kvSel := by
  induction l with
  | nil => rfl
  | cons e r ih => cases e <;> simp [kvOf, kvSel, ih, List.filterMap_cons]

theorem trOf_eq_filterMap (l : List WX) : trOf l = l.filterMap trSel := by
  induction l with
  | nil => rfl
  | cons e r ih => cases e <;> simp [trOf, trSel, ih, List.filterMap_cons]

theorem perm_kvOf {l l' : List WX} (h : l.Perm l') : (kvOf l).Perm (kvOf l') := by
  rw [kvOf_eq_filterMap, kvOf_eq_filterMap]; exact h.filterMap _

theorem perm_trOf {l l' : List WX} (h : l.Perm l') : (trOf l).Perm (trOf l') := by
  rw [trOf_eq_filterMap, trOf_eq_filterMap]; exact h.filterMap _

theorem mem_kvOf {l : List WX} {w : WEntry} : w ∈ kvOf l ↔ WX.kv w ∈ l := by
  induction l with
  | nil => simp [kvOf]
  | cons e r ih => cases e <;> simp [kvOf, ih]

theorem mem_trOf {l : List WX} {e : TEntry} : e ∈ trOf l ↔ WX.tr e ∈ l := by
  induction l with
  | nil => simp [trOf]
  | cons x r ih => cases x <;> simp [trOf, ih]

/-! ### the parse loops -/

theorem foldl_pick_none {α : Type} (sel : TEntry → Option (List α)) :
    ∀ (l : List TEntry) (acc : List α), (∀ e ∈ l, sel e = none) →
      l.foldl (pickStep sel) acc = acc := by
  intro l
  induction l with
  | nil => intro acc _; rfl
  | cons e r ih =>
    intro acc h
    simp only [List.foldl_cons, pickStep]
    rw [h e (List.mem_cons_self ..)]
    exact ih acc (fun e' he' => h e' (List.mem_cons_of_mem _ he'))

theorem foldl_pick_unique {α : Type} (sel : TEntry → Option (List α)) (x : List α) :
    ∀ (l : List TEntry) (acc : List α), (∃ e ∈ l, sel e = some x) → (∀ e ∈ l, ∀ y, sel e = some y → y = x) →
      l.foldl (pickStep sel) acc = x := by
  intro l
  induction l with
  | nil => intro acc h _; obtain ⟨e, he, _⟩ := h; simp at he
  | cons e r ih =>
    intro acc hex huniq
    simp only [List.foldl_cons]
    by_cases hr : ∃ e' ∈ r, sel e' = some x
    · exact ih _ hr (fun e' he' => huniq e' (List.mem_cons_of_mem _ he'))
    · -- the entry is the head, and no later entry is of the wanted kind
      have hnone : ∀ e' ∈ r, sel e' = none := by
        intro e' he'
        cases hs : sel e' with
        | none => rfl
        | some y =>
          have := huniq e' (List.mem_cons_of_mem _ he') y hs
          exact absurd ⟨e', he', by rw [hs, this]⟩ hr
      obtain ⟨e0, he0, hs0⟩ := hex
      rcases List.mem_cons.mp he0 with rfl | he0
      · simp only [pickStep, hs0]; exact foldl_pick_none sel r x hnone
      · exact absurd ⟨e0, he0, hs0⟩ hr

theorem sel_flush_in (a : List TxIn) (b : List TxOut) (c : List Event) :
    (∀ e ∈ flushEntries a b c, ∀ y, selIn e = some y → y = a) ∧
    (a ≠ [] → ∃ e ∈ flushEntries a b c, selIn e = some a) ∧
    (a = [] → ∀ e ∈ flushEntries a b c, selIn e = none) := by
  cases a <;> cases b <;> cases c <;> simp [flushEntries, selIn]

theorem sel_flush_out (a : List TxIn) (b : List TxOut) (c : List Event) :
    (∀ e ∈ flushEntries a b c, ∀ y, selOut e = some y → y = b) ∧
    (b ≠ [] → ∃ e ∈ flushEntries a b c, selOut e = some b) ∧
    (b = [] → ∀ e ∈ flushEntries a b c, selOut e = none) := by
  cases a <;> cases b <;> cases c <;> simp [flushEntries, selOut]

theorem sel_flush_ev (a : List TxIn) (b : List TxOut) (c : List Event) :
    (∀ e ∈ flushEntries a b c, ∀ y, selEv e = some y → y = c) ∧
    (c ≠ [] → ∃ e ∈ flushEntries a b c, selEv e = some c) ∧
    (c = [] → ∀ e ∈ flushEntries a b c, selEv e = none) := by
  cases a <;> cases b <;> cases c <;> simp [flushEntries, selEv]

/-- a list of transient entries that is a permutation of what `Flush` writes parses to what was flushed -/
theorem pickLast_of_perm {α : Type} (sel : TEntry → Option (List α)) (F : List TEntry) (x : List α)
    (h1 : ∀ e ∈ F, ∀ y, sel e = some y → y = x) (h2 : x ≠ [] → ∃ e ∈ F, sel e = some x)
    (h3 : x = [] → ∀ e ∈ F, sel e = none) {l : List TEntry} (hp : l.Perm F) : pickLast sel l = x := by
  unfold pickLast
  by_cases hx : x = []
  · rw [foldl_pick_none sel l [] (fun e he => h3 hx e (hp.mem_iff.mp he))]
    exact hx.symm
  · obtain ⟨e, he, hs⟩ := h2 hx
    exact foldl_pick_unique sel x l [] ⟨e, hp.mem_iff.mpr he, hs⟩ (fun e' he' y hy => h1 e' (hp.mem_iff.mp he') y hy)

theorem parseIn_of_perm {a : List TxIn} {b : List TxOut} {c : List Event} {l : List TEntry}
    (hp : l.Perm (flushEntries a b c)) : parseIn l = a :=
  pickLast_of_perm selIn _ a (sel_flush_in a b c).1 (sel_flush_in a b c).2.1 (sel_flush_in a b c).2.2 hp

theorem parseOut_of_perm {a : List TxIn} {b : List TxOut} {c : List Event} {l : List TEntry}
    (hp : l.Perm (flushEntries a b c)) : parseOut l = b :=
  pickLast_of_perm selOut _ b (sel_flush_out a b c).1 (sel_flush_out a b c).2.1 (sel_flush_out a b c).2.2 hp

theorem evOf_names (c : List Nat) : (evOf c).map (·.name) = c := by
  induction c with
  | nil => rfl
  | cons e r ih =>
    simp only [evOf, List.map_cons, List.map_map] at ih ⊢
    rw [ih]

theorem parseEv_of_perm {a : List TxIn} {b : List TxOut} {c : List Nat} {l : List TEntry}
    (hp : l.Perm (transientOf a b c)) : parseEv l = c := by
  unfold parseEv
  rw [pickLast_of_perm selEv _ (evOf c) (sel_flush_ev a b (evOf c)).1 (sel_flush_ev a b (evOf c)).2.1
    (sel_flush_ev a b (evOf c)).2.2 hp]
  exact evOf_names c

/-! ### a finished execution never lists an entry twice -/

theorem flushEntries_nodup (a : List TxIn) (b : List TxOut) (c : List Event) : (flushEntries a b c).Nodup := by
  cases a <;> cases b <;> cases c <;> simp [flushEntries]

theorem nodup_map_of_injective {α β : Type} (f : α → β) (hf : ∀ a b, f a = f b → a = b) {l : List α}
    (h : l.Nodup) : (l.map f).Nodup := by
  rw [List.nodup_iff_pairwise_ne] at h ⊢
  rw [List.pairwise_map]
  exact h.imp (fun hne he => hne (hf _ _ he))

theorem nodup_of_map_nodup {α β : Type} (f : α → β) {l : List α} (h : (l.map f).Nodup) : l.Nodup := by
  rw [List.nodup_iff_pairwise_ne] at h ⊢
  rw [List.pairwise_map] at h
  exact h.imp (fun hne he => hne (by rw [he]))

theorem sorted_nodup {l : KV} (h : Sorted l) : l.Nodup := by
  apply nodup_of_map_nodup (fun e => e.1)
  rw [List.nodup_iff_pairwise_ne, List.pairwise_map]
  exact h.imp (fun hlt => Nat.ne_of_lt hlt)

theorem wsetOf_cons (b : Bucket) (bks : List Bucket) (s : State) :
    wsetOf (b :: bks) s = (s.outputs b).map (fun e => (b, e.1, e.2.val)) ++ wsetOf bks s := by
  simp [wsetOf, listOf, List.map_map, Function.comp_def]

/-- `RWSet().WSet` walks the output trees bucket by bucket, each in key order: no (bucket, key) twice -/
theorem wsetOf_nodup {bks : List Bucket} (hb : bks.Nodup) {s : State} (hs : ∀ b, Sorted (s.outputs b)) :
    (wsetOf bks s).Nodup := by
  induction bks with
  | nil => simp [wsetOf, listOf]
  | cons b rest ih =>
    rw [wsetOf_cons, List.nodup_append]
    obtain ⟨hnb, hrest⟩ := List.nodup_cons.mp hb
    refine ⟨?_, ih hrest, ?_⟩
    · apply nodup_of_map_nodup (fun w : WEntry => w.2.1)
      rw [List.map_map]
      have : ((fun w : WEntry => w.2.1) ∘ fun e : Elem => (b, e.1, e.2.val)) = fun e => e.1 := rfl
      rw [this, List.nodup_iff_pairwise_ne, List.pairwise_map]
      exact (hs b).imp (fun hlt => Nat.ne_of_lt hlt)
    · rintro ⟨b1, k1, v1⟩ h1 ⟨b2, k2, v2⟩ h2 he
      simp only [List.mem_map] at h1
      obtain ⟨e, _, he1⟩ := h1
      have hb1 : b1 = b := by simp only [Prod.mk.injEq] at he1; exact he1.1.symm
      have hb2 : b2 ∈ rest := (mem_wsetOf.mp h2).1
      simp only [Prod.mk.injEq] at he
      rw [← he.1, hb1] at hb2
      exact hnb hb2

theorem encodeW_nodup {a : List TxIn} {b : List TxOut} {c : List Nat} {k : List WEntry} (hk : k.Nodup) :
    (encodeW a b c k).Nodup := by
  unfold encodeW
  rw [List.nodup_append]
  refine ⟨nodup_map_of_injective _ (fun x y h => by injection h) (flushEntries_nodup _ _ _),
    nodup_map_of_injective _ (fun x y h => by injection h) hk, ?_⟩
  intro x hx y hy he
  simp only [List.mem_map] at hx hy
  obtain ⟨_, _, rfl⟩ := hx
  obtain ⟨_, _, rfl⟩ := hy
  cases he

/-! ### lists that hold an entry twice -/

theorem set_copy_not_nodup {α : Type} (w : List α) (i j : Nat) (hi : i < w.length) (hj : j < w.length) (hne : i ≠ j) :
    ¬ (w.set i w[j]).Nodup := by
  intro h
  have hi' : i < (w.set i w[j]).length := by simpa using hi
  have := (List.getElem?_inj hi' h (j := j)).mp (by
    rw [List.getElem?_set_self hi, List.getElem?_set_ne hne, List.getElem?_eq_getElem hj])
  exact hne this

theorem append_copy_not_nodup {α : Type} (w : List α) (j : Nat) (hj : j < w.length) : ¬ (w ++ [w[j]]).Nodup := by
  intro h
  rw [List.nodup_append] at h
  exact h.2.2 w[j] (List.getElem_mem hj) w[j] (by simp) rfl

theorem drop_copy_not_nodup {α : Type} (w : List α) (i j : Nat) (hj : j < w.length) (hne : i ≠ j) :
    ¬ (w.eraseIdx i ++ [w[j]]).Nodup := by
  intro h
  rw [List.nodup_append] at h
  refine h.2.2 w[j] ?_ w[j] (by simp) rfl
  rw [List.mem_eraseIdx_iff_getElem]
  exact ⟨j, hj, fun e => hne e.symm, rfl⟩

/-! ### the commit of a declared write set in any order -/

/-- the latest stored entry for key `k` of bucket `b` in a declared write set: (offset in the list, value) -/
def lastWX (b : Bucket) (k : Key) : List WX → Nat → Option (Nat × Nat)
  | [], _ => none
  | .tr _ :: rest, off => lastWX b k rest (off + 1)
  | .kv e :: rest, off =>
    match lastWX b k rest (off + 1) with
    | some x => some x
    | none => if e.1 = b ∧ e.2.1 = k then some (off, e.2.2) else none

theorem applyW_kv (id : Nat) (e : WEntry) (rest : List WX) (off : Nat) (db : DB) :
    applyW id (.kv e :: rest) off db = applyW id rest (off + 1) (write1 id db e off) := by
  obtain ⟨b, k, v⟩ := e
  simp only [applyW, write1]

theorem applyW_cur (id : Nat) (b : Bucket) (k : Key) :
    ∀ (l : List WX) (off : Nat) (db : DB),
      (applyW id l off db).cur b k =
        match lastWX b k l off with
        | some (o, v) => ⟨mkVer id o, v⟩
        | none => db.cur b k := by
  intro l
  induction l with
  | nil => intro off db; rfl
  | cons x rest ih =>
    intro off db
    cases x with
    | tr t => simp only [applyW, lastWX]; exact ih _ _
    | kv e =>
      rw [applyW_kv, ih]
      simp only [lastWX]
      cases lastWX b k rest (off + 1) with
      | some x => rfl
      | none =>
        simp only
        by_cases h : e.1 = b ∧ e.2.1 = k
        · simp only [h, and_self, if_true]
          obtain ⟨rfl, rfl⟩ := h
          exact write1_cur_same id db e off
        · simp only [h, if_false]
          exact write1_cur_other id db e off b k h

theorem applyW_live (id : Nat) (b : Bucket) (k : Key) :
    ∀ (l : List WX) (off : Nat) (db : DB),
      find k ((applyW id l off db).live b) =
        match lastWX b k l off with
        | some (o, v) => if v = 0 then none else some ⟨mkVer id o, v⟩
        | none => find k (db.live b) := by
  intro l
  induction l with
  | nil => intro off db; rfl
  | cons x rest ih =>
    intro off db
    cases x with
    | tr t => simp only [applyW, lastWX]; exact ih _ _
    | kv e =>
      rw [applyW_kv, ih]
      simp only [lastWX]
      cases lastWX b k rest (off + 1) with
      | some x => rfl
      | none =>
        simp only
        by_cases h : e.1 = b ∧ e.2.1 = k
        · simp only [h, and_self, if_true]
          obtain ⟨rfl, rfl⟩ := h
          exact write1_live_same id db e off
        · simp only [h, if_false]
          exact write1_live_other id db e off b k h

theorem applyW_wf (id : Nat) : ∀ (l : List WX) (off : Nat) (db : DB), db.WF → (applyW id l off db).WF := by
  intro l
  induction l with
  | nil => intro off db h; exact h
  | cons x rest ih =>
    intro off db h
    cases x with
    | tr t => simp only [applyW]; exact ih _ _ h
    | kv e => rw [applyW_kv]; exact ih _ _ (write1_wf id h e off)

/-- the canonical encoding commits as the decoded transaction does -/
theorem applyW_encode (id : Nat) (T : List TEntry) (k : List WEntry) :
    ∀ (off : Nat) (db : DB), applyW id (T.map .tr ++ k.map .kv) off db = applyKOut id k (off + T.length) db := by
  induction T with
  | nil =>
    intro off db
    simp only [List.map_nil, List.nil_append, List.length_nil, Nat.add_zero]
    induction k generalizing off db with
    | nil => rfl
    | cons e r ih => rw [List.map_cons, applyW_kv, applyKOut_cons, ih]
  | cons t r ih =>
    intro off db
    simp only [List.map_cons, List.cons_append, applyW, List.length_cons]
    rw [ih]
    congr 1
    omega

theorem lastWX_none (b : Bucket) (k : Key) : ∀ (l : List WX) (off : Nat),
    (∀ w ∈ kvOf l, ¬ (w.1 = b ∧ w.2.1 = k)) → lastWX b k l off = none := by
  intro l
  induction l with
  | nil => intro _ _; rfl
  | cons x rest ih =>
    intro off h
    cases x with
    | tr t => simp only [lastWX]; exact ih _ (by simpa [kvOf] using h)
    | kv e =>
      simp only [lastWX]
      rw [ih (off + 1) (fun w hw => h w (by simp [kvOf, hw]))]
      simp [h e (by simp [kvOf])]

/-! ### lists that differ from the one they were copied from -/

theorem set_copy_ne {α : Type} (l : List α) (i j : Nat) (hi : i < l.length) (hj : j < l.length) (h : l[i] ≠ l[j]) :
    l.set i l[j] ≠ l := by
  intro he
  have : (l.set i l[j])[i]'(by simpa using hi) = l[i] := by simp only [he]
  rw [List.getElem_set_self] at this
  exact h this.symm

theorem set_swap_ne {α : Type} (l : List α) (i j : Nat) (hi : i < l.length) (hj : j < l.length) (h : l[i] ≠ l[j]) :
    (l.set i l[j]).set j l[i] ≠ l := by
  intro he
  have hij : i ≠ j := fun e => h (by subst e; rfl)
  have : ((l.set i l[j]).set j l[i])[i]'(by simpa using hi) = l[i] := by simp only [he]
  rw [List.getElem_set_ne (fun e => hij e.symm), List.getElem_set_self] at this
  exact h this.symm

/-! ### the reader built from a declared read set depends on the SET of declared keys only -/

theorem sorted_ext : ∀ {l l' : KV}, Sorted l → Sorted l' → (∀ e, e ∈ l ↔ e ∈ l') → l = l' := by
  intro l
  induction l with
  | nil =>
    intro l' _ _ hm
    cases l' with
    | nil => rfl
    | cons a r => exact absurd ((hm a).mpr (List.mem_cons_self ..)) (by simp)
  | cons a r ih =>
    intro l' hs hs' hm
    cases l' with
    | nil => exact absurd ((hm a).mp (List.mem_cons_self ..)) (by simp)
    | cons a' r' =>
      obtain ⟨h1, h2⟩ := sorted_cons_iff.mp hs
      obtain ⟨h1', h2'⟩ := sorted_cons_iff.mp hs'
      have haa : a = a' := by
        rcases List.mem_cons.mp ((hm a).mp (List.mem_cons_self ..)) with e | hin
        · exact e
        · rcases List.mem_cons.mp ((hm a').mpr (List.mem_cons_self ..)) with e | hin'
          · exact e.symm
          · have x1 := h1' _ (mem_keys_of_mem hin)
            have x2 := h1 _ (mem_keys_of_mem hin')
            omega
      subst haa
      congr 1
      apply ih h2 h2'
      intro e
      constructor
      · intro he
        rcases List.mem_cons.mp ((hm e).mp (List.mem_cons_of_mem _ he)) with e1 | hin
        · subst e1
          have := h1 _ (mem_keys_of_mem he)
          omega
        · exact hin
      · intro he
        rcases List.mem_cons.mp ((hm e).mpr (List.mem_cons_of_mem _ he)) with e1 | hin
        · subst e1
          have := h1' _ (mem_keys_of_mem he)
          omega
        · exact hin

theorem rsOf_declared (db : DB) (kin : List REntry) (b : Bucket) (k : Key) (d : VData)
    (h : find k (rsOf db kin b) = some d) : ∃ v, (b, k, v) ∈ kin := by
  induction kin with
  | nil => simp [rsOf, Store.empty, find] at h
  | cons e rest ih =>
    simp only [rsOf] at h
    by_cases hbk : b = e.1 ∧ k = e.2.1
    · obtain ⟨rfl, rfl⟩ := hbk
      exact ⟨e.2.2, List.mem_cons_self ..⟩
    · have := Store.get_put_other (rsOf db rest) e.1 b e.2.1 k (db.cur e.1 e.2.1) hbk
      simp only [Store.get] at this
      rw [this] at h
      obtain ⟨v, hv⟩ := ih h
      exact ⟨v, List.mem_cons_of_mem _ hv⟩

theorem mem_rsOf (db : DB) (kin : List REntry) (b : Bucket) (k : Key) (d : VData) :
    (k, d) ∈ rsOf db kin b ↔ (∃ v, (b, k, v) ∈ kin) ∧ d = db.cur b k := by
  constructor
  · intro hm
    have hf := mem_find_of_sorted (rsOf_sorted db kin b) hm
    exact ⟨rsOf_declared db kin b k d hf, rsOf_faith db kin b k d hf⟩
  · rintro ⟨hv, rfl⟩
    exact find_some_mem (rsOf_mem db kin b k hv)

theorem rsOf_congr (db : DB) (kin kin' : List REntry)
    (h : ∀ b k, (∃ v, (b, k, v) ∈ kin) ↔ (∃ v, (b, k, v) ∈ kin')) : rsOf db kin = rsOf db kin' := by
  funext b
  apply sorted_ext (rsOf_sorted db kin b) (rsOf_sorted db kin' b)
  rintro ⟨k, d⟩
  rw [mem_rsOf, mem_rsOf, h b k]

end XV.Contract
