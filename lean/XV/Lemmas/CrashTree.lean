import XV.Props.C01
/-!
The block tree along an interrupted walk: from any block the walk passes through, `undoTodo` towards the same
destination returns exactly the *rest* of the two lists (so the walk can be resumed), and the canonical state of such
a block is the replay of the corresponding part of the chain.
-/
namespace XV.Crash
open XV.Chain XV.C01

/-- `takeWhile` over a list whose prefix passes the test and whose next element fails it -/
theorem takeWhile_append_stop {α : Type} (p : α → Bool) (A : List α) (a : α) (r : List α)
    (hA : ∀ x ∈ A, p x = true) (ha : p a = false) : (A ++ a :: r).takeWhile p = A := by
  induction A with
  | nil => simp [List.takeWhile_cons, ha]
  | cons x rest ih =>
    rw [List.cons_append, List.takeWhile_cons, hA x List.mem_cons_self]
    simp only [↓reduceIte]
    rw [ih (fun y hy => hA y (List.mem_cons_of_mem _ hy))]

theorem ancestors_nodup (e : Env) (hpl : ParentLower e) (fuel b : Nat) : (ancestors e fuel b).Nodup := by
  rw [List.nodup_iff_pairwise_ne]
  apply List.Pairwise.imp _ (ancestors_pairwise e hpl fuel b)
  intro x y hxy hne
  rw [hne] at hxy
  omega

theorem ancestors_self_mem (e : Env) (b : Nat) : b ∈ ancestors e (e.blocks.length + 1) b := by
  rw [ancestors_succ]
  exact List.mem_cons_self

/-- with a common ancestor, both chains split at the lowest common ancestor and share the tail below it -/
theorem undoTodo_common (e : Env) (cur dest : Nat) (hpl : ParentLower e)
    (hc : ∃ c, c ∈ ancestors e (e.blocks.length + 1) cur ∧ c ∈ ancestors e (e.blocks.length + 1) dest) :
    ∃ lca r,
      ancestors e (e.blocks.length + 1) cur = (undoTodo e cur dest).1 ++ lca :: r ∧
      ancestors e (e.blocks.length + 1) dest = (undoTodo e cur dest).2.reverse ++ lca :: r ∧
      (∀ x ∈ (undoTodo e cur dest).1, x ∉ ancestors e (e.blocks.length + 1) dest) ∧
      (∀ x ∈ (undoTodo e cur dest).2, x ∉ ancestors e (e.blocks.length + 1) cur) := by
  obtain ⟨hu, ht, hsplit⟩ := undoTodo_split e cur dest hpl
  rcases hsplit with ⟨_, _, hdisj⟩ | ⟨lca, r1, r2, h1, h2, _⟩
  · obtain ⟨c, c1, c2⟩ := hc
    exact absurd c2 (hdisj c c1)
  · have e1 := ancestors_tail_eq e hpl cur lca _ r1 h1
    have e2 := ancestors_tail_eq e hpl dest lca _ r2 h2
    have hr : r1 = r2 := by
      have := e1.trans e2.symm
      simpa using this
    subst hr
    exact ⟨lca, r1, h1, h2, hu, ht⟩

/-- **resuming in the undo phase**: if the chain of the tip is `A ++ B ++ lca :: r` with `A ++ B` the blocks to undo,
then from the block `p` the walk stands on after undoing `A` (the head of `B ++ lca :: r`), the blocks to undo are `B`
and the blocks to apply are unchanged -/
theorem undoTodo_after_undo (e : Env) (cur dest : Nat) (hpl : ParentLower e) (A B todo : List Nat) (lca : Nat)
    (r tl : List Nat) (p : Nat)
    (h1 : ancestors e (e.blocks.length + 1) cur = A ++ B ++ lca :: r)
    (h2 : ancestors e (e.blocks.length + 1) dest = todo.reverse ++ lca :: r)
    (hu : ∀ x ∈ A ++ B, x ∉ ancestors e (e.blocks.length + 1) dest)
    (ht : ∀ x ∈ todo, x ∉ ancestors e (e.blocks.length + 1) cur)
    (hp : B ++ lca :: r = p :: tl) :
    ancestors e (e.blocks.length + 1) p = B ++ lca :: r ∧ undoTodo e p dest = (B, todo) := by
  have h1' : ancestors e (e.blocks.length + 1) cur = A ++ p :: tl := by
    rw [h1, List.append_assoc, hp]
  have hanc : ancestors e (e.blocks.length + 1) p = B ++ lca :: r := by
    rw [hp]; exact (ancestors_tail_eq e hpl cur p A tl h1').symm
  refine ⟨hanc, ?_⟩
  have hlca : lca ∈ ancestors e (e.blocks.length + 1) dest := by rw [h2]; simp
  have hfst : (undoTodo e p dest).1 = B := by
    rw [undoTodo_fst, hanc]
    apply takeWhile_append_stop
    · intro x hx
      have := hu x (List.mem_append_right _ hx)
      simpa using this
    · simpa using hlca
  have hsnd : (undoTodo e p dest).2 = todo := by
    rw [undoTodo_snd, hanc, h2, takeWhile_append_stop, List.reverse_reverse]
    · intro x hx
      have hx' := ht x (List.mem_reverse.mp hx)
      have : x ∉ B ++ lca :: r := by
        intro hm
        apply hx'
        rw [h1, List.append_assoc]
        exact List.mem_append_right _ hm
      simpa using this
    · simp
  exact Prod.ext hfst hsnd

/-- **resuming in the apply phase**: if the chain of the destination is `(A ++ B).reverse ++ lca :: r` with `A ++ B`
the blocks to apply, then from the last block `p` of a non-empty `A` nothing is left to undo and `B` is left to apply -/
theorem undoTodo_after_todo (e : Env) (dest : Nat) (hpl : ParentLower e) (A' B : List Nat) (lca : Nat) (r : List Nat)
    (p : Nat) (h2 : ancestors e (e.blocks.length + 1) dest = ((A' ++ [p]) ++ B).reverse ++ lca :: r) :
    ancestors e (e.blocks.length + 1) p = (A' ++ [p]).reverse ++ lca :: r ∧ undoTodo e p dest = ([], B) := by
  have h2' : ancestors e (e.blocks.length + 1) dest = B.reverse ++ p :: (A'.reverse ++ lca :: r) := by
    rw [h2]; simp
  have hanc : ancestors e (e.blocks.length + 1) p = p :: (A'.reverse ++ lca :: r) :=
    (ancestors_tail_eq e hpl dest p B.reverse _ h2').symm
  have hanc' : ancestors e (e.blocks.length + 1) p = (A' ++ [p]).reverse ++ lca :: r := by
    rw [hanc]; simp
  refine ⟨hanc', ?_⟩
  have hpd : p ∈ ancestors e (e.blocks.length + 1) dest := by rw [h2']; simp
  have hfst : (undoTodo e p dest).1 = [] := by
    rw [undoTodo_fst, hanc, List.takeWhile_cons]
    have : (!(ancestors e (e.blocks.length + 1) dest).contains p) = false := by simpa using hpd
    rw [this]
    rfl
  have hnd := ancestors_nodup e hpl (e.blocks.length + 1) dest
  have hsnd : (undoTodo e p dest).2 = B := by
    rw [undoTodo_snd, h2', takeWhile_append_stop, List.reverse_reverse]
    · intro x hx
      have : x ∉ ancestors e (e.blocks.length + 1) p := by
        intro hm
        rw [hanc] at hm
        rw [h2'] at hnd
        exact (List.nodup_append.mp hnd).2.2 x hx x hm rfl
      simpa using this
    · have : p ∈ ancestors e (e.blocks.length + 1) p := ancestors_self_mem e p
      simpa using this
  exact Prod.ext hfst hsnd

/-- in the chain of `cur`, the element in front of `p` has `p` as its parent -/
theorem ancestors_pre (e : Env) (cur : Nat) (A' : List Nat) (u p : Nat) (tl : List Nat)
    (h : ancestors e (e.blocks.length + 1) cur = A' ++ u :: p :: tl) : (e.block u).pre = some p := by
  have := ancestors_linked e (e.blocks.length + 1) cur
  rw [h] at this
  exact linked_last_pre e A' u p tl this

/-- the canonical state of a block on the chain of `b` is the replay of its tail of that chain -/
theorem canon_of_suffix (e : Env) (g : St) (hpl : ParentLower e) (b c : Nat) (A r : List Nat)
    (h : ancestors e (e.blocks.length + 1) b = A ++ c :: r) :
    canon e g c = replayChain e (c :: r).reverse g ∧ canon e g b = replayChain e A.reverse (canon e g c) := by
  have h1 := ancestors_tail_eq e hpl b c A r h
  constructor
  · unfold canon; rw [← h1]
  · unfold canon
    rw [← h1, h, List.reverse_append, replayChain_append]

end XV.Crash
