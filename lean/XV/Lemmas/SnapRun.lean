import XV.Lemmas.SnapView
import XV.Props.C01
/-!
The node's operations as runs on the key view (Lemmas/SnapView.lean): a block applied by `todoBlock` / `play` with
an empty pool, a replayed chain, an admission through `doTx`.

`Extends e s bs s1`: `s1` is reached from `s` by applying the blocks `bs` one after the other (`todoBlock`, or
`play` on an empty pool). `Pends e s1 s'`: `s'` is reached from `s1` by any number of `doTx` calls (admitted or
refused). Both are runs: `Extends.run`, `Pends.run`.
-/
namespace XV.Snapshot
open XV.Chain

theorem admV_of_ok (s : St) (lh : Int) (t : Tx) (h : admitTx s lh t = .ok) : AdmV (curVer s) t := by
  obtain ⟨_, _, hread, hwr⟩ := XV.C03.admit_sound s lh t h
  exact ⟨hread, hwr⟩

theorem blockStep_view (e : Env) (prop : String) (i : Nat) (s : St) :
    curVer (blockStep e prop i s) = stepV (e.tx i) (curVer s) := by
  funext key
  unfold blockStep
  rw [payFee_curVer, applyTx_view]

theorem replayTxs_view (e : Env) (prop : String) (l : List Nat) (s : St) :
    curVer (replayTxs e prop l s) = runV e l (curVer s) := by
  induction l generalizing s with
  | nil => rfl
  | cons i rest ih => rw [replayTxs_cons, ih, blockStep_view, runV_cons]

/-- a successful forward run of a block is a run of admitted transactions -/
theorem applyBlockTxs_runV (e : Env) (lh : Int) (prop : String) (l : List Nat) (s s2 : St)
    (h : applyBlockTxs e lh prop [] l s = some (s2, .ok)) : RunV e l (curVer s) := by
  induction l generalizing s with
  | nil => trivial
  | cons i rest ih =>
    obtain ⟨hadm, hrest⟩ := applyBlockTxs_cons_ok e lh prop i rest s s2 h
    refine ⟨admV_of_ok s lh _ hadm, ?_⟩
    rw [← blockStep_view e prop i s]
    exact ih _ hrest

theorem replayBlock_view (e : Env) (s : St) (b : Block) :
    curVer (replayBlock e s b) = runV e b.txs (curVer s) := by
  have : curVer (replayBlock e s b) = curVer (replayTxs e b.prop b.txs s) := rfl
  rw [this, replayTxs_view]

/-- the transactions of a chain of blocks (ids, oldest block first), in block order -/
def chainTxs (e : Env) (l : List Nat) : List Nat := l.flatMap (fun bi => (e.block bi).txs)

theorem chainTxs_cons (e : Env) (bi : Nat) (rest : List Nat) :
    chainTxs e (bi :: rest) = (e.block bi).txs ++ chainTxs e rest := rfl

theorem chainTxs_append (e : Env) (l1 l2 : List Nat) : chainTxs e (l1 ++ l2) = chainTxs e l1 ++ chainTxs e l2 := by
  unfold chainTxs; rw [List.flatMap_append]

theorem mem_chainTxs (e : Env) (l : List Nat) (i : Nat) :
    i ∈ chainTxs e l ↔ ∃ bi ∈ l, i ∈ (e.block bi).txs := by
  unfold chainTxs; rw [List.mem_flatMap]

theorem replayChain_view (e : Env) (l : List Nat) (s : St) :
    curVer (replayChain e l s) = runV e (chainTxs e l) (curVer s) := by
  induction l generalizing s with
  | nil => rfl
  | cons bi rest ih => rw [replayChain_cons, ih, replayBlock_view, chainTxs_cons, runV_append]

/-- a valid chain (C01 `ChainValid`: every block's forward run succeeds on the replay of the blocks before it) is a
run of admitted transactions -/
theorem chainValid_run (e : Env) (l : List Nat) (g : St) (h : XV.C01.ChainValid e l g) :
    RunV e (chainTxs e l) (curVer g) := by
  induction l generalizing g with
  | nil => trivial
  | cons bi rest ih =>
    obtain ⟨hb, hrest⟩ := h
    obtain ⟨lh, s2, hfwd⟩ := hb.fwd
    rw [chainTxs_cons]
    refine (RunV_append e _ _ _).mpr ⟨applyBlockTxs_runV e lh _ _ g s2 hfwd, ?_⟩
    rw [← replayBlock_view]
    exact ih _ hrest

theorem applyPool_view (e : Env) (l : List Nat) (s : St) : curVer (applyPool e l s) = runV e l (curVer s) := by
  induction l generalizing s with
  | nil => rfl
  | cons i rest ih =>
    rw [applyPool_cons, ih, runV_cons]
    congr 1
    exact funext (applyTx_view s (e.tx i))

-- ------------------------------------------------------------------ blocks on top of a state

/-- the transactions of a list of blocks, in order -/
def blocksTxs (bs : List Block) : List Nat := bs.flatMap (·.txs)

theorem blocksTxs_snoc (bs : List Block) (b : Block) : blocksTxs (bs ++ [b]) = blocksTxs bs ++ b.txs := by
  unfold blocksTxs; rw [List.flatMap_append, List.flatMap_singleton]

theorem mem_blocksTxs (bs : List Block) (i : Nat) : i ∈ blocksTxs bs ↔ ∃ b ∈ bs, i ∈ b.txs := by
  unfold blocksTxs; rw [List.mem_flatMap]

/-- `s1` is `s` with the blocks `bs` applied one after the other: by `todoBlock` (a walk's apply step), or by `play`
(`PlayAndRepost`) on an empty pool -/
inductive Extends (e : Env) : St → List Block → St → Prop
  | refl (s : St) : Extends e s [] s
  | todo {s s1 s2 : St} {bs : List Block} (lh : Int) (b : Block) :
      Extends e s bs s1 → todoBlock e s1 lh b = some s2 → Extends e s (bs ++ [b]) s2
  | play {s s1 : St} {bs : List Block} (lh : Int) (b : Block) :
      Extends e s bs s1 → s1.pool = [] → (play e s1 lh b).2 = .ok → Extends e s (bs ++ [b]) (play e s1 lh b).1

theorem todoBlock_run (e : Env) (s s' : St) (lh : Int) (b : Block) (h : todoBlock e s lh b = some s') :
    RunV e b.txs (curVer s) ∧ curVer s' = runV e b.txs (curVer s) ∧ s'.pool = s.pool := by
  obtain ⟨h1, s2, h2⟩ := todoBlock_eq e s s' lh b h
  refine ⟨applyBlockTxs_runV e lh b.prop b.txs s s2 h2, ?_, ?_⟩
  · rw [h1, replayBlock_view]
  · rw [h1]; exact (replayTxs_frame e b.prop b.txs s).2.2

/-- blocks applied on top of `s` are a run of admitted transactions on its view; the pool is untouched -/
theorem Extends.run {e : Env} {s s1 : St} {bs : List Block} (h : Extends e s bs s1) :
    RunV e (blocksTxs bs) (curVer s) ∧ curVer s1 = runV e (blocksTxs bs) (curVer s) ∧ s1.pool = s.pool := by
  induction h with
  | refl => exact ⟨trivial, rfl, rfl⟩
  | todo lh b _ htodo ih =>
    obtain ⟨i1, i2, i3⟩ := ih
    obtain ⟨t1, t2, t3⟩ := todoBlock_run e _ _ lh b htodo
    rw [blocksTxs_snoc]
    refine ⟨(RunV_append e _ _ _).mpr ⟨i1, by rw [← i2]; exact t1⟩, ?_, t3.trans i3⟩
    rw [t2, i2, runV_append]
  | play lh b _ hp hok ih =>
    obtain ⟨i1, i2, i3⟩ := ih
    obtain ⟨htodo, _⟩ := XV.C01.play_eq_todoBlock e _ lh b hp hok
    obtain ⟨t1, t2, t3⟩ := todoBlock_run e _ _ lh b htodo
    rw [blocksTxs_snoc]
    refine ⟨(RunV_append e _ _ _).mpr ⟨i1, by rw [← i2]; exact t1⟩, ?_, t3.trans i3⟩
    rw [t2, i2, runV_append]

-- ------------------------------------------------------------------ pending transactions on top of a state

/-- `doTx` either leaves the state alone (already pending, or refused) or applies the admitted transaction and
records it at the end of the pool -/
theorem doTx_cases (e : Env) (s : St) (lh : Int) (i : Nat) :
    (doTx e s lh i).1 = s ∨
    (i ∉ s.pool ∧ admitTx s lh (e.tx i) = .ok ∧
      (doTx e s lh i).1 = { applyTx s (e.tx i) with pool := s.pool ++ [i] }) := by
  unfold doTx
  by_cases hc : s.pool.contains i = true
  · left; rw [if_pos hc]
  · rw [if_neg hc]
    dsimp only
    cases hadm : admitTx s lh (e.tx i) with
    | ok => right; exact ⟨by simpa using hc, rfl, rfl⟩
    | _ => left; rfl

/-- `s'` is `s` after any number of `doTx` calls (each admitted or refused) -/
inductive Pends (e : Env) : St → St → Prop
  | refl (s : St) : Pends e s s
  | step {s s1 : St} (lh : Int) (i : Nat) : Pends e s s1 → Pends e s (doTx e s1 lh i).1

theorem Pends.head {e : Env} {s s' : St} (lh : Int) (i : Nat) (h : Pends e (doTx e s lh i).1 s') : Pends e s s' := by
  induction h with
  | refl => exact Pends.step lh i (Pends.refl s)
  | step lh' j _ ih => exact Pends.step lh' j ih

/-- the re-admission loop of `walk` (and any sequence of submissions) is a `Pends` -/
theorem pends_foldl (e : Env) (lh : Int) (l : List Nat) (s : St) :
    Pends e s (l.foldl (fun st i => (doTx e st lh i).1) s) := by
  induction l generalizing s with
  | nil => exact Pends.refl s
  | cons i rest ih => exact Pends.head lh i (ih _)

/-- pending transactions on top of `s`: the pool grows by a run of admitted transactions on the view of `s` -/
theorem Pends.run {e : Env} {s s' : St} (h : Pends e s s') :
    ∃ l, s'.pool = s.pool ++ l ∧ RunV e l (curVer s) ∧ curVer s' = runV e l (curVer s) := by
  induction h with
  | refl => exact ⟨[], by simp, trivial, rfl⟩
  | @step s1 lh i _ ih =>
    obtain ⟨l, h1, h2, h3⟩ := ih
    rcases doTx_cases e s1 lh i with hc | ⟨_, hadm, hc⟩
    · rw [hc]; exact ⟨l, h1, h2, h3⟩
    · rw [hc]
      refine ⟨l ++ [i], ?_, ?_, ?_⟩
      · show s1.pool ++ [i] = s.pool ++ (l ++ [i])
        rw [h1, List.append_assoc]
      · exact (RunV_snoc e l i _).mpr ⟨h2, by rw [← h3]; exact admV_of_ok s1 lh _ hadm⟩
      · have : curVer ({ applyTx s1 (e.tx i) with pool := s1.pool ++ [i] } : St) = curVer (applyTx s1 (e.tx i)) := rfl
        rw [this, runV_snoc, ← h3]
        exact funext (applyTx_view s1 (e.tx i))

end XV.Snapshot

namespace XV.Snapshot
open XV.Chain

/-- checkable form of the `todo` step (states have no decidable equality: the result is named through `getD`) -/
theorem Extends.todo' {e : Env} {s s1 : St} {bs : List Block} (lh : Int) (b : Block) (h : Extends e s bs s1)
    (hs : (todoBlock e s1 lh b).isSome = true) :
    Extends e s (bs ++ [b]) ((todoBlock e s1 lh b).getD default) := by
  cases ht : todoBlock e s1 lh b with
  | none => rw [ht] at hs; cases hs
  | some s2 => exact Extends.todo lh b h ht

/-- "confirmed at or below `hB`", as a Boolean -/
def confLe (confH : Nat → Option Nat) (hB : Nat) (i : Nat) : Bool :=
  match confH i with
  | some bh => decide (bh ≤ hB)
  | none => false

theorem confLe_spec (confH : Nat → Option Nat) (hB i : Nat) (h : confLe confH hB i = true) :
    ∃ bh, confH i = some bh ∧ bh ≤ hB := by
  unfold confLe at h
  cases hc : confH i with
  | none => simp [hc] at h
  | some bh => exact ⟨bh, rfl, by simpa [hc] using h⟩

/-- checkable form (row by row) of "every version the state shows was confirmed at or below `hB`" -/
theorem confirmed_of_rows (s : St) (confH : Nat → Option Nat) (hB : Nat)
    (h : ∀ p ∈ s.ZU ++ s.ZD, confLe confH hB p.2.1 = true) :
    ∀ key v, curVer s key = some v → ∃ bh, confH v.1 = some bh ∧ bh ≤ hB := by
  intro key v hv
  apply confLe_spec
  unfold curVer at hv
  cases hz : lookup s.ZU key with
  | some w =>
    simp only [hz, Option.some.injEq] at hv
    subst hv
    exact h (key, w) (List.mem_append_left _ (lookup_mem _ _ _ hz))
  | none =>
    simp only [hz] at hv
    exact h (key, v) (List.mem_append_right _ (lookup_mem _ _ _ hv))

end XV.Snapshot
