import XV.Lemmas.CrashWalk
/-!
The C01 state invariant ("the state refines the canonical state of the block its pointer names, with the pool applied
in admission order") on every element of `walkTrace`, and recovery from any state that satisfies it.
-/
namespace XV.Crash
open XV.Chain XV.C01

/-- the C01 invariant of a state over the base state `g`: its tables are those of the canonical state of the block
its pointer names with the pool applied in admission order, and the pool satisfies the side conditions of the
transaction theorems at each point of application -/
structure SInv (e : Env) (g : St) (s : St) : Prop where
  tables : TRefines s (applyPool e s.pool (canon e g s.pointer))
  pool : PoolValid e s.pool (canon e g s.pointer)

/-- every block's chain replays validly from the base state (a property of the environment alone) -/
def TreeValid (e : Env) (g : St) : Prop :=
  ∀ b, ChainValid e (ancestors e (e.blocks.length + 1) b).reverse g

theorem SInv.of_boundary {e : Env} {g x : St} (hp : x.pool = []) (ht : TRefines x (canon e g x.pointer)) :
    SInv e g x := by
  refine ⟨?_, ?_⟩
  · rw [hp]; exact ht
  · rw [hp]; trivial

theorem walkMid_getLast (e : Env) (s : St) (lh : Int) (dest : Nat) (prune : Bool) :
    (walkMid e s lh dest prune).getLast? = some (walkCore e s lh dest prune).1 := by
  unfold walkMid walkCore
  simp only
  rw [getLast?_cons_lastD, lastD_append, undoSteps_last]
  cases h1 : (walk.undoAll e prune (undoTodo e s.pointer dest).1 (rolledBack e s)).2 with
  | false => simp [lastD_nil]
  | true =>
    simp only [↓reduceIte, Bool.not_true, Bool.false_eq_true]
    rw [todoSteps_last]

/-- the state before the re-admissions is itself an element of the block-boundary part of the trace -/
theorem walkCore_mem_walkMid (e : Env) (s : St) (lh : Int) (dest : Nat) (prune : Bool) :
    (walkCore e s lh dest prune).1 ∈ walkMid e s lh dest prune :=
  List.mem_of_getLast? (walkMid_getLast e s lh dest prune)

theorem doTx_pool_grows (e : Env) (s : St) (lh : Int) (i : Nat) : ∃ ext, (doTx e s lh i).1.pool = s.pool ++ ext := by
  unfold doTx
  by_cases hc : s.pool.contains i = true
  · rw [if_pos hc]; exact ⟨[], by simp⟩
  · rw [if_neg hc]
    dsimp only
    cases admitTx s lh (e.tx i) with
    | ok => exact ⟨[i], rfl⟩
    | _ => exact ⟨[], by simp⟩

theorem foldl_doTx_pool_grows (e : Env) (lh : Int) (l : List Nat) (s : St) :
    ∃ ext, (l.foldl (fun st i => (doTx e st lh i).1) s).pool = s.pool ++ ext := by
  induction l generalizing s with
  | nil => exact ⟨[], by simp⟩
  | cons i rest ih =>
    simp only [List.foldl_cons]
    obtain ⟨e1, h1⟩ := doTx_pool_grows e s lh i
    obtain ⟨e2, h2⟩ := ih (doTx e s lh i).1
    exact ⟨e1 ++ e2, by rw [h2, h1, List.append_assoc]⟩

theorem poolValid_prefix (e : Env) (l1 l2 : List Nat) (s : St) (h : PoolValid e (l1 ++ l2) s) : PoolValid e l1 s := by
  induction l1 generalizing s with
  | nil => trivial
  | cons i rest ih =>
    obtain ⟨a, b, c, d, hrest⟩ := h
    exact ⟨a, b, c, d, ih _ hrest⟩

/-- where the state before the re-admissions stands when the walk succeeds: at the destination -/
theorem walkCore_pointer (e : Env) (s : St) (lh : Int) (dest : Nat) (prune : Bool) (W : WalkTree e s.pointer dest)
    (hok : (walkCore e s lh dest prune).2 = true) : (walkCore e s lh dest prune).1.pointer = dest := by
  have h := walk_reaches_any e s lh dest prune W.lower W.destId (by rw [walk_ok_iff_core]; exact hok)
  rw [walk_eq_core, if_pos hok] at h
  simp only at h
  rw [foldl_doTx_pointer] at h
  exact h

/-- **every element of the trace of a walk satisfies the C01 state invariant.** `hfinal` is the one thing taken from
the uninterrupted run: the pool the successful walk ends with satisfies `PoolValid` (C01 proves the table half of the
invariant for that state, `walk_invariant`; the side conditions of the re-admitted transactions — fresh output rows,
cited frozen heights — are hypotheses of every C01 theorem and are asked here once, for the final pool). -/
theorem walkTrace_SInv (e : Env) (s : St) (lh : Int) (dest : Nat) (prune : Bool) (g : St)
    (W : WalkTree e s.pointer dest) (hinv : KVInv e g)
    (hchain : ChainValid e (ancestors e (e.blocks.length + 1) s.pointer).reverse g)
    (hs : SInv e g s)
    (hfinal : (walk e s lh dest prune).2 = true → PoolValid e (walk e s lh dest prune).1.pool (canon e g dest))
    (x : St) (hx : x ∈ walkTrace e s lh dest prune) : SInv e g x := by
  unfold walkTrace at hx
  rcases List.mem_append.mp hx with hx | hx
  · obtain ⟨hp, ht⟩ := walkMid_boundary e s lh dest prune g W hinv hchain hs.pool hs.tables x hx
    exact SInv.of_boundary hp ht
  · obtain ⟨hok, A, B, hsplit, _, hxe⟩ := mem_walkRepost e s lh dest prune x hx
    obtain ⟨hp2, ht2⟩ := walkMid_boundary e s lh dest prune g W hinv hchain hs.pool hs.tables _
      (walkCore_mem_walkMid e s lh dest prune)
    have hptr := walkCore_pointer e s lh dest prune W hok
    rw [hptr] at ht2
    have hxp : x.pointer = dest := by rw [hxe, foldl_doTx_pointer, hptr]
    have hform : TRefines x (applyPool e x.pool (canon e g dest)) := by
      rw [hxe]
      apply foldl_doTx_keeps_pool_form
      rw [hp2]
      exact ht2
    refine ⟨by rw [hxp]; exact hform, ?_⟩
    rw [hxp]
    have hwok : (walk e s lh dest prune).2 = true := by rw [walk_ok_iff_core]; exact hok
    have hfin := hfinal hwok
    have hw : (walk e s lh dest prune).1 = B.foldl (fun st i => (doTx e st lh i).1) x := by
      rw [walk_eq_core, if_pos hok, hsplit, List.foldl_append, hxe]
    rw [hw] at hfin
    obtain ⟨ext, hext⟩ := foldl_doTx_pool_grows e lh B x
    rw [hext] at hfin
    exact poolValid_prefix e _ _ _ hfin

/-- **recovery from any state that satisfies the invariant lands on the canonical state of the destination**: a
successful walk (pruning or not, any ledger height) from `x` to `dest'` ends at `dest'` with the tables of the
canonical state of `dest'` plus the pool it re-admitted — nothing of where `x` came from is left (C01 `walk_invariant`) -/
theorem SInv.recover {e : Env} {g x : St} (hx : SInv e g x) (hpl : ParentLower e) (hinv : KVInv e g)
    (hchain : ChainValid e (ancestors e (e.blocks.length + 1) x.pointer).reverse g)
    (lh' : Int) (dest' : Nat) (prune' : Bool) (hid : (e.block dest').id = dest')
    (hok : (walk e x lh' dest' prune').2 = true) :
    (walk e x lh' dest' prune').1.pointer = dest' ∧
    TRefines (walk e x lh' dest' prune').1
      (applyPool e (walk e x lh' dest' prune').1.pool (canon e g dest')) :=
  walk_invariant e x lh' dest' prune' g hpl hid hok hinv hchain hx.pool hx.tables

/-- two states that satisfy the invariant with empty pools — e.g. a state a crash inside a walk left behind and the
state of the uninterrupted run — reach the same tables at any common destination (C01 `walk_confluent`) -/
theorem SInv.confluent {e : Env} {g x y : St} (hx : SInv e g x) (hy : SInv e g y) (hpx : x.pool = []) (hpy : y.pool = [])
    (hpl : ParentLower e) (hinv : KVInv e g)
    (hcx : ChainValid e (ancestors e (e.blocks.length + 1) x.pointer).reverse g)
    (hcy : ChainValid e (ancestors e (e.blocks.length + 1) y.pointer).reverse g)
    (lh lh' : Int) (dest' : Nat) (prune prune' : Bool)
    (hokx : (walk e x lh dest' prune).2 = true) (hoky : (walk e y lh' dest' prune').2 = true) :
    ObsT (walk e x lh dest' prune).1 (walk e y lh' dest' prune').1 := by
  have tx := hx.tables
  have ty := hy.tables
  rw [hpx] at tx
  rw [hpy] at ty
  exact walk_confluent e x y lh lh' dest' prune prune' g hpl hinv hokx hoky hpx hpy hcx hcy tx ty

/-- the block any element of the trace stands on belongs to one of the two branches -/
theorem walkTrace_pointer_mem (e : Env) (s : St) (lh : Int) (dest : Nat) (prune : Bool) (W : WalkTree e s.pointer dest)
    (x : St) (hx : x ∈ walkTrace e s lh dest prune) :
    x.pointer ∈ ancestors e (e.blocks.length + 1) s.pointer ∨ x.pointer ∈ ancestors e (e.blocks.length + 1) dest := by
  unfold walkTrace at hx
  rcases List.mem_append.mp hx with hx | hx
  · exact walkMid_pointer_mem e s lh dest prune W x hx
  · obtain ⟨hok, A, B, _, _, hxe⟩ := mem_walkRepost e s lh dest prune x hx
    right
    rw [hxe, foldl_doTx_pointer, walkCore_pointer e s lh dest prune W hok]
    exact ancestors_self_mem e dest

end XV.Crash
