import XV.Lemmas.Sandbox
/-! helper lemmas for the token side of `Props/C10.lean` (`Transfer`, the two utxo readers, `Flush`) -/
namespace XV.Sandbox

/-! ### sums -/

theorem sumIn_nil : sumIn [] = 0 := rfl
theorem sumIn_cons (u : TxIn) (l : List TxIn) : sumIn (u :: l) = u.amt + sumIn l := by
  simp [sumIn]
theorem sumIn_append (l1 l2 : List TxIn) : sumIn (l1 ++ l2) = sumIn l1 + sumIn l2 := by
  simp [sumIn]
theorem sumOut_nil : sumOut [] = 0 := rfl
theorem sumOut_cons (u : TxOut) (l : List TxOut) : sumOut (u :: l) = u.amt + sumOut l := by
  simp [sumOut]
theorem sumOut_append (l1 l2 : List TxOut) : sumOut (l1 ++ l2) = sumOut l1 + sumOut l2 := by
  simp [sumOut]

/-- what the outputs in `l` owned by `a` are worth -/
def ownSum (a : Addr) (l : List TxIn) : Nat := sumIn (l.filter (fun u => u.owner = a))

theorem ownSum_nil (a : Addr) : ownSum a [] = 0 := rfl
theorem ownSum_cons (a : Addr) (u : TxIn) (l : List TxIn) :
    ownSum a (u :: l) = (if u.owner = a then u.amt else 0) + ownSum a l := by
  unfold ownSum
  by_cases h : u.owner = a
  · simp [h, sumIn_cons]
  · simp [h]
theorem ownSum_append (a : Addr) (l1 l2 : List TxIn) : ownSum a (l1 ++ l2) = ownSum a l1 + ownSum a l2 := by
  simp [ownSum, sumIn_append]
theorem ownSum_all {a : Addr} {l : List TxIn} (h : ∀ u ∈ l, u.owner = a) : ownSum a l = sumIn l := by
  unfold ownSum
  rw [List.filter_eq_self.mpr]
  intro u hu
  simp [h u hu]
theorem ownSum_other {a b : Addr} {l : List TxIn} (h : ∀ u ∈ l, u.owner = a) (hb : b ≠ a) : ownSum b l = 0 := by
  unfold ownSum
  rw [List.filter_eq_nil_iff.mpr]
  · rfl
  · intro u hu
    have := h u hu
    simp only [decide_eq_true_eq]
    omega

/-! ### what a first-run reader has to guarantee -/

/-- The contract of `UtxoVM.SelectUtxos` the sandbox relies on, for a request of a positive amount
`n` on behalf of `a`.  `cap st a` is what `a` can still spend in reader state `st`.
On success: the inputs belong to `a`, the reported total is their sum and covers `n`, **no proper
prefix of the inputs already covers `n`** (the selection stops at the first output that completes
the amount), and what was handed out is gone from `a`'s spendable amount (it is locked).
On failure: `a`'s spendable amount is below `n`.  Nobody's spendable amount ever grows (the backing
state does not change during one execution). -/
structure UReader.Spec (R : UReader σ) (cap : σ → Addr → Nat) : Prop where
  ok : ∀ st a n l t st', 0 < n → R.select st a n = (some (l, t), st') →
    (∀ u ∈ l, u.owner = a) ∧ t = sumIn l ∧ n ≤ t ∧ (∀ k, k < l.length → sumIn (l.take k) < n) ∧
    cap st' a + t ≤ cap st a ∧ ∀ b, cap st' b ≤ cap st b
  fail : ∀ st a n st', 0 < n → R.select st a n = (none, st') →
    cap st a < n ∧ ∀ b, cap st' b ≤ cap st b

def UReader.Lawful (R : UReader σ) : Prop := ∃ cap, R.Spec cap

/-- The reader locks what it hands out: with `free st` the references it may still hand out in state
`st` (`good` is an invariant of its states), a selection hands out distinct references that were
free and are not free afterwards, and nothing becomes free again. -/
def UReader.Locks (R : UReader σ) (st0 : σ) : Prop :=
  ∃ (free : σ → List Nat) (good : σ → Prop), good st0 ∧
    ∀ st a n, good st →
      good (R.select st a n).2 ∧ (∀ x, x ∈ free (R.select st a n).2 → x ∈ free st) ∧
      ∀ l t, (R.select st a n).1 = some (l, t) →
        (l.map (·.ref)).Nodup ∧ ∀ u ∈ l, u.ref ∈ free st ∧ u.ref ∉ free (R.select st a n).2

/-! ### `pickUtxo` / `listReader` -/

theorem pickUtxo_spec (a : Addr) : ∀ (st : List TxIn) (need : Nat), 0 < need →
    match pickUtxo a need st with
    | none => ownSum a st < need
    | some (t, l) =>
      (∀ u ∈ t, u.owner = a) ∧ need ≤ sumIn t ∧ (∀ k, k < t.length → sumIn (t.take k) < need) ∧
      (∀ b, ownSum b l + ownSum b t = ownSum b st) ∧ List.Perm (t ++ l) st := by
  intro st
  induction st with
  | nil => intro need h; simpa [pickUtxo, ownSum_nil] using h
  | cons u rest ih =>
    intro need hneed
    unfold pickUtxo
    by_cases ho : u.owner = a
    · simp only [ho, if_true]
      by_cases hc : need ≤ u.amt
      · simp only [hc, if_true]
        refine ⟨?_, ?_, ?_, ?_, ?_⟩
        · intro x hx; simp at hx; subst hx; exact ho
        · simp [sumIn_cons, sumIn_nil]; exact hc
        · intro k hk
          have : k = 0 := by simp at hk; omega
          subst this; simpa [sumIn_nil] using hneed
        · intro b; rw [ownSum_cons b u rest, ownSum_cons b u [], ownSum_nil]; omega
        · simp
      · simp only [hc, if_false]
        have ih' := ih (need - u.amt) (by omega)
        cases hp : pickUtxo a (need - u.amt) rest with
        | none =>
          rw [hp] at ih'
          simp only at ih' ⊢
          rw [ownSum_cons]; simp only [ho, if_true]; omega
        | some p =>
          obtain ⟨t, l⟩ := p
          rw [hp] at ih'
          simp only at ih' ⊢
          obtain ⟨h1, h2, h3, h4, h5⟩ := ih'
          refine ⟨?_, ?_, ?_, ?_, ?_⟩
          · intro x hx
            rcases List.mem_cons.mp hx with hx | hx
            · subst hx; exact ho
            · exact h1 x hx
          · rw [sumIn_cons]; omega
          · intro k hk
            cases k with
            | zero => simpa [sumIn_nil] using hneed
            | succ k =>
              simp only [List.take_succ_cons, sumIn_cons]
              have := h3 k (by simpa using hk)
              omega
          · intro b
            have := h4 b
            rw [ownSum_cons b u t, ownSum_cons b u rest]; omega
          · simpa using h5
    · simp only [ho, if_false]
      have ih' := ih need hneed
      cases hp : pickUtxo a need rest with
      | none =>
        rw [hp] at ih'
        simp only at ih' ⊢
        rw [ownSum_cons]; simp only [ho, if_false]; omega
      | some p =>
        obtain ⟨t, l⟩ := p
        rw [hp] at ih'
        simp only at ih' ⊢
        obtain ⟨h1, h2, h3, h4, h5⟩ := ih'
        refine ⟨h1, h2, h3, ?_, ?_⟩
        · intro b
          have := h4 b
          rw [ownSum_cons b u l, ownSum_cons b u rest]; omega
        · exact (List.perm_middle).trans (List.Perm.cons u h5)

/-- the first-run reader of the model (and of the harness) meets the contract -/
theorem listReader_spec : listReader.Spec (fun st a => ownSum a st) := by
  constructor
  · intro st a n l t st' hn h
    have hn0 : n ≠ 0 := by omega
    simp only [listReader, hn0, if_false] at h
    have hs := pickUtxo_spec a st n hn
    cases hp : pickUtxo a n st with
    | none => rw [hp] at h; simp at h
    | some p =>
      obtain ⟨t', l'⟩ := p
      rw [hp] at h hs
      simp only [Prod.mk.injEq, Option.some.injEq] at h
      obtain ⟨⟨rfl, rfl⟩, rfl⟩ := h
      simp only at hs
      obtain ⟨h1, h2, h3, h4, _⟩ := hs
      refine ⟨h1, rfl, h2, h3, ?_, ?_⟩
      · have := h4 a; rw [ownSum_all h1] at this; omega
      · intro b; have := h4 b; omega
  · intro st a n st' hn h
    have hn0 : n ≠ 0 := by omega
    simp only [listReader, hn0, if_false] at h
    have hs := pickUtxo_spec a st n hn
    cases hp : pickUtxo a n st with
    | none =>
      rw [hp] at h hs
      simp only [Prod.mk.injEq] at h
      obtain ⟨_, rfl⟩ := h
      exact ⟨hs, fun _ => Nat.le_refl _⟩
    | some p => obtain ⟨t', l'⟩ := p; rw [hp] at h; simp at h

theorem listReader_lawful : listReader.Lawful := ⟨_, listReader_spec⟩

theorem pickUtxo_perm (a : Addr) (st : List TxIn) (need : Nat) (t l : List TxIn)
    (h : pickUtxo a need st = some (t, l)) : List.Perm (t ++ l) st := by
  induction st generalizing need t l with
  | nil => simp [pickUtxo] at h
  | cons u rest ih =>
    unfold pickUtxo at h
    by_cases ho : u.owner = a
    · simp only [ho, if_true] at h
      by_cases hc : need ≤ u.amt
      · simp only [hc, if_true, Option.some.injEq, Prod.mk.injEq] at h
        obtain ⟨rfl, rfl⟩ := h; simp
      · simp only [hc, if_false] at h
        cases hp : pickUtxo a (need - u.amt) rest with
        | none => rw [hp] at h; simp at h
        | some p =>
          obtain ⟨t', l'⟩ := p
          rw [hp] at h
          simp only [Option.some.injEq, Prod.mk.injEq] at h
          obtain ⟨rfl, rfl⟩ := h
          simpa using ih _ _ _ hp
    · simp only [ho, if_false] at h
      cases hp : pickUtxo a need rest with
      | none => rw [hp] at h; simp at h
      | some p =>
        obtain ⟨t', l'⟩ := p
        rw [hp] at h
        simp only [Option.some.injEq, Prod.mk.injEq] at h
        obtain ⟨rfl, rfl⟩ := h
        exact (List.perm_middle).trans (List.Perm.cons u (ih _ _ _ hp))

/-- over a list of outputs with distinct references the first-run reader never hands one out twice -/
theorem listReader_locks (st0 : List TxIn) (h0 : (st0.map (·.ref)).Nodup) : listReader.Locks st0 := by
  refine ⟨fun st => st.map (·.ref), fun st => (st.map (·.ref)).Nodup, h0, ?_⟩
  intro st a n hg
  by_cases hn0 : n = 0
  · simp only [listReader, hn0, if_true]
    refine ⟨hg, fun _ h => h, ?_⟩
    intro l t h
    simp only [Option.some.injEq, Prod.mk.injEq] at h
    obtain ⟨rfl, _⟩ := h
    simp
  · simp only [listReader, hn0, if_false]
    cases hp : pickUtxo a n st with
    | none =>
      simp only
      exact ⟨hg, fun _ h => h, fun l t h => by simp at h⟩
    | some p =>
      obtain ⟨t', l'⟩ := p
      simp only
      have hperm := pickUtxo_perm a st n t' l' hp
      have hnd : ((t' ++ l').map (·.ref)).Nodup := (hperm.map _).nodup_iff.mpr hg
      rw [List.map_append, List.nodup_append] at hnd
      obtain ⟨ht, hl, hdis⟩ := hnd
      refine ⟨hl, ?_, ?_⟩
      · intro x hx
        obtain ⟨u, hu, rfl⟩ := List.mem_map.mp hx
        exact List.mem_map.mpr ⟨u, hperm.subset (List.mem_append_right _ hu), rfl⟩
      · intro l t h
        simp only [Option.some.injEq, Prod.mk.injEq] at h
        obtain ⟨rfl, _⟩ := h
        refine ⟨ht, ?_⟩
        intro u hu
        refine ⟨List.mem_map.mpr ⟨u, hperm.subset (List.mem_append_left _ hu), rfl⟩, ?_⟩
        intro hx
        exact hdis _ (List.mem_map.mpr ⟨u, hu, rfl⟩) _ hx rfl

/-! ### `replayLoop` / `replayReader` -/

/-- the loop never counts more than the leading outputs of `a` are worth -/
theorem replayLoop_le (a : Addr) (need : Nat) : ∀ (q : List TxIn) (n s n' s' : Nat),
    replayLoop a need q n s = some (n', s') → s' ≤ s + ownSum a q := by
  intro q
  induction q with
  | nil => intro n s n' s' h; simp [replayLoop] at h; omega
  | cons u rest ih =>
    intro n s n' s' h
    unfold replayLoop at h
    by_cases ho : u.owner = a
    · simp only [ho, ne_eq, not_true_eq_false, if_false] at h
      rw [ownSum_cons]; simp only [ho, if_true]
      by_cases hc : need ≤ s + u.amt
      · simp only [hc, if_true, Option.some.injEq, Prod.mk.injEq] at h; omega
      · simp only [hc, if_false] at h
        have := ih _ _ _ _ h; omega
    · simp [ho] at h

/-- a request the remaining inputs of `a` cannot cover is refused and nothing is consumed -/
theorem replay_refuses (a : Addr) (need : Nat) (q : List TxIn) (h : ownSum a q < need) :
    replayReader.select q a need = (none, q) := by
  simp only [replayReader]
  cases hl : replayLoop a need q 0 0 with
  | none => rfl
  | some p =>
    obtain ⟨n', s'⟩ := p
    have := replayLoop_le a need q 0 0 n' s' hl
    have hlt : s' < need := by omega
    simp [hlt]

/-- over `l ++ z`, where `l` belongs to `a`, covers what is still needed and no proper prefix of it
does, the loop stops exactly at the end of `l` -/
theorem replayLoop_exact (a : Addr) (need : Nat) (z : List TxIn) : ∀ (l : List TxIn) (n s : Nat),
    s < need → (∀ u ∈ l, u.owner = a) → need ≤ s + sumIn l →
    (∀ k, k < l.length → s + sumIn (l.take k) < need) →
    replayLoop a need (l ++ z) n s = some (n + l.length, s + sumIn l) := by
  intro l
  induction l with
  | nil => intro n s hs _ hc _; simp [sumIn_nil] at hc; omega
  | cons u l ih =>
    intro n s hs ho hc hm
    have hou : u.owner = a := ho u (by simp)
    simp only [List.cons_append, replayLoop, hou, ne_eq, not_true_eq_false, if_false]
    by_cases hcu : need ≤ s + u.amt
    · simp only [hcu, if_true]
      have hl : l = [] := by
        cases l with
        | nil => rfl
        | cons v l' =>
          have := hm 1 (by simp)
          simp [sumIn_cons, sumIn_nil] at this
          omega
      subst hl
      simp [sumIn_cons, sumIn_nil]
    · simp only [hcu, if_false]
      rw [ih (n + 1) (s + u.amt) (by omega) (fun x hx => ho x (List.mem_cons_of_mem _ hx))
        (by rw [sumIn_cons] at hc; omega)
        (by
          intro k hk
          have := hm (k + 1) (by simpa using hk)
          simp only [List.take_succ_cons, sumIn_cons] at this
          omega)]
      simp only [List.length_cons, sumIn_cons, Option.some.injEq, Prod.mk.injEq]
      omega

theorem replay_accepts (a : Addr) (need : Nat) (l z : List TxIn) (hn : 0 < need)
    (ho : ∀ u ∈ l, u.owner = a) (hc : need ≤ sumIn l) (hm : ∀ k, k < l.length → sumIn (l.take k) < need) :
    replayReader.select (l ++ z) a need = (some (l, sumIn l), z) := by
  simp only [replayReader]
  rw [replayLoop_exact a need z l 0 0 hn ho (by omega) (by intro k hk; have := hm k hk; omega)]
  have : ¬ (sumIn l < need) := by omega
  simp [this]

/-! ### the token side alone -/

/-- a `Transfer` call: from, to, amount -/
abbrev Xfer := Addr × Addr × Nat

def tokRun (R : UReader σ) : UState σ → List Xfer → UState σ × List Bool
  | u, [] => (u, [])
  | u, x :: xs =>
    match transfer R u x.1 x.2.1 x.2.2 with
    | (u1, ok) =>
      match tokRun R u1 xs with
      | (u2, oks) => (u2, ok :: oks)

theorem tokRun_cons (R : UReader σ) (u : UState σ) (x : Xfer) (xs : List Xfer) :
    tokRun R u (x :: xs) =
      ((tokRun R (transfer R u x.1 x.2.1 x.2.2).1 xs).1,
       (transfer R u x.1 x.2.1 x.2.2).2 :: (tokRun R (transfer R u x.1 x.2.1 x.2.2).1 xs).2) := by
  simp only [tokRun]

/-- what one `Transfer` appends to the two caches (a function of the reader state only) -/
theorem transfer_frame (R : UReader σ) (st : σ) (P : List TxIn) (O : List TxOut) (a to : Addr) (amt : Nat) :
    transfer R ⟨st, P, O⟩ a to amt =
      (⟨(transfer R ⟨st, [], []⟩ a to amt).1.rd, P ++ (transfer R ⟨st, [], []⟩ a to amt).1.uin,
        O ++ (transfer R ⟨st, [], []⟩ a to amt).1.uout⟩, (transfer R ⟨st, [], []⟩ a to amt).2) := by
  unfold transfer
  by_cases h0 : amt = 0
  · simp [h0]
  · simp only [h0, if_false]
    rcases hsel : R.select st a amt with ⟨_ | ⟨l, t⟩, st'⟩
    · simp
    · simp [List.append_assoc]

/-- the caches only grow, by an amount that depends on the reader state alone -/
theorem tokRun_frame (R : UReader σ) : ∀ (xs : List Xfer) (st : σ) (P : List TxIn) (O : List TxOut),
    tokRun R ⟨st, P, O⟩ xs =
      (⟨(tokRun R ⟨st, [], []⟩ xs).1.rd, P ++ (tokRun R ⟨st, [], []⟩ xs).1.uin,
        O ++ (tokRun R ⟨st, [], []⟩ xs).1.uout⟩, (tokRun R ⟨st, [], []⟩ xs).2) := by
  intro xs
  induction xs with
  | nil => intro st P O; simp [tokRun]
  | cons x xs ih =>
    intro st P O
    rw [tokRun_cons, tokRun_cons, transfer_frame R st P O]
    generalize transfer R ⟨st, [], []⟩ x.1 x.2.1 x.2.2 = q
    obtain ⟨⟨st1, P1, O1⟩, ok⟩ := q
    simp only
    rw [ih st1 (P ++ P1) (O ++ O1), ih st1 P1 O1]
    simp [List.append_assoc]

/-- the three ways a `Transfer` can go -/
theorem transfer_cases (R : UReader σ) (st : σ) (a to : Addr) (amt : Nat) :
    (amt = 0 ∧ transfer R ⟨st, [], []⟩ a to amt = (⟨st, [], []⟩, false)) ∨
    (0 < amt ∧ ∃ st', R.select st a amt = (none, st') ∧
      transfer R ⟨st, [], []⟩ a to amt = (⟨st', [], []⟩, false)) ∨
    (0 < amt ∧ ∃ l t st', R.select st a amt = (some (l, t), st') ∧
      transfer R ⟨st, [], []⟩ a to amt =
        (⟨st', l, [⟨to, amt⟩] ++ (if amt < t then [⟨a, t - amt⟩] else [])⟩, true)) := by
  unfold transfer
  by_cases h0 : amt = 0
  · left; simp [h0]
  · right
    have hp : 0 < amt := by omega
    simp only [h0, if_false]
    rcases hsel : R.select st a amt with ⟨_ | ⟨l, t⟩, st'⟩
    · left; exact ⟨hp, st', rfl, rfl⟩
    · right; exact ⟨hp, l, t, st', rfl, by simp⟩

/-- **Replay of the token side.**  Let a first-run reader meeting the contract run the transfers
`xs` from state `st`, recording the inputs `I`.  The replay reader over `I ++ T` (`T`: inputs of later
calls, worth no more for any address than the first-run reader could still spend) gives every
transfer the same verdict, records the same inputs and outputs and is left with `T`. -/
theorem tok_replay {R : UReader σ} {cap : σ → Addr → Nat} (hR : R.Spec cap) :
    ∀ (xs : List Xfer) (st : σ) (T : List TxIn),
      (∀ a, ownSum a T ≤ cap (tokRun R ⟨st, [], []⟩ xs).1.rd a) →
      tokRun replayReader ⟨(tokRun R ⟨st, [], []⟩ xs).1.uin ++ T, [], []⟩ xs =
        (⟨T, (tokRun R ⟨st, [], []⟩ xs).1.uin, (tokRun R ⟨st, [], []⟩ xs).1.uout⟩,
         (tokRun R ⟨st, [], []⟩ xs).2) ∧
      ∀ a, ownSum a ((tokRun R ⟨st, [], []⟩ xs).1.uin ++ T) ≤ cap st a := by
  intro xs
  induction xs with
  | nil => intro st T hT; simpa [tokRun] using hT
  | cons x xs ih =>
    intro st T hT
    obtain ⟨a, to, amt⟩ := x
    rw [tokRun_cons R ⟨st, [], []⟩ (a, to, amt) xs] at hT ⊢
    simp only at hT ⊢
    rcases transfer_cases R st a to amt with ⟨h0, ht⟩ | ⟨hp, st', hsel, ht⟩ | ⟨hp, l, t, st', hsel, ht⟩
    · -- amount zero: refused before the reader is asked, on both sides
      rw [ht] at hT ⊢
      simp only at hT ⊢
      obtain ⟨i1, i2⟩ := ih st T hT
      refine ⟨?_, i2⟩
      rw [tokRun_cons]
      have : transfer replayReader ⟨(tokRun R ⟨st, [], []⟩ xs).1.uin ++ T, [], []⟩ a to amt =
          (⟨(tokRun R ⟨st, [], []⟩ xs).1.uin ++ T, [], []⟩, false) := by
        simp [transfer, h0]
      rw [this]
      simp only
      rw [i1]
    · -- the first-run reader refuses: what is left for `a` is below the amount
      rw [ht] at hT ⊢
      simp only at hT ⊢
      obtain ⟨i1, i2⟩ := ih st' T hT
      obtain ⟨f1, f2⟩ := hR.fail st a amt st' hp hsel
      refine ⟨?_, fun b => Nat.le_trans (i2 b) (f2 b)⟩
      rw [tokRun_cons]
      have hlt : ownSum a ((tokRun R ⟨st', [], []⟩ xs).1.uin ++ T) < amt :=
        Nat.lt_of_le_of_lt (Nat.le_trans (i2 a) (f2 a)) f1
      have : transfer replayReader ⟨(tokRun R ⟨st', [], []⟩ xs).1.uin ++ T, [], []⟩ a to amt =
          (⟨(tokRun R ⟨st', [], []⟩ xs).1.uin ++ T, [], []⟩, false) := by
        have h0 : amt ≠ 0 := by omega
        simp only [transfer, h0, if_false, replay_refuses a amt _ hlt]
      rw [this]
      simp only
      rw [i1]
    · -- the first-run reader hands out `l`: the replay reader stops exactly at the end of `l`
      rw [ht] at hT ⊢
      simp only at hT ⊢
      obtain ⟨o1, o2, o3, o4, o5, o6⟩ := hR.ok st a amt l t st' hp hsel
      rw [tokRun_frame R xs st' l] at hT ⊢
      simp only at hT ⊢
      obtain ⟨i1, i2⟩ := ih st' T hT
      constructor
      · rw [tokRun_cons]
        have : transfer replayReader ⟨l ++ (tokRun R ⟨st', [], []⟩ xs).1.uin ++ T, [], []⟩ a to amt =
            (⟨(tokRun R ⟨st', [], []⟩ xs).1.uin ++ T, l,
              [⟨to, amt⟩] ++ (if amt < t then [⟨a, t - amt⟩] else [])⟩, true) := by
          have h0 : amt ≠ 0 := by omega
          rw [List.append_assoc]
          simp only [transfer, h0, if_false, replay_accepts a amt l _ hp o1 (by omega) o4, o2]
          simp
        rw [this]
        simp only
        rw [tokRun_frame replayReader xs _ l, i1]
      · intro b
        rw [List.append_assoc, ownSum_append]
        have := i2 b
        by_cases hb : b = a
        · subst hb; rw [ownSum_all o1]; omega
        · rw [ownSum_other o1 hb]; have := o6 b; omega

/-- what goes in comes out: the recorded inputs are worth what the recorded outputs are worth -/
theorem tok_conserved {R : UReader σ} {cap : σ → Addr → Nat} (hR : R.Spec cap) :
    ∀ (xs : List Xfer) (st : σ),
      sumIn (tokRun R ⟨st, [], []⟩ xs).1.uin = sumOut (tokRun R ⟨st, [], []⟩ xs).1.uout := by
  intro xs
  induction xs with
  | nil => intro st; simp [tokRun, sumIn_nil, sumOut_nil]
  | cons x xs ih =>
    intro st
    obtain ⟨a, to, amt⟩ := x
    rw [tokRun_cons R ⟨st, [], []⟩ (a, to, amt) xs]
    simp only
    rcases transfer_cases R st a to amt with ⟨_, ht⟩ | ⟨_, st', _, ht⟩ | ⟨hp, l, t, st', hsel, ht⟩
    · rw [ht]; exact ih st
    · rw [ht]; exact ih st'
    · rw [ht]
      simp only
      obtain ⟨_, o2, o3, _⟩ := hR.ok st a amt l t st' hp hsel
      rw [tokRun_frame R xs st' l]
      simp only
      rw [sumIn_append, sumOut_append, ih st']
      by_cases hlt : amt < t
      · simp [hlt, sumOut_cons, sumOut_nil]; omega
      · simp [hlt, sumOut_cons, sumOut_nil]; omega

/-- the recorded inputs split into one chunk per `Transfer` call (empty for a failed one); a chunk
belongs to the `from` of its call and covers the amount of its call -/
def Chunks : List Xfer → List Bool → List (List TxIn) → Prop
  | [], [], [] => True
  | x :: xs, ok :: oks, ch :: chs =>
    (∀ u ∈ ch, u.owner = x.1) ∧ (if ok then x.2.2 ≤ sumIn ch else ch = []) ∧ Chunks xs oks chs
  | _, _, _ => False

theorem tok_chunks {R : UReader σ} {cap : σ → Addr → Nat} (hR : R.Spec cap) :
    ∀ (xs : List Xfer) (st : σ), ∃ chunks,
      (tokRun R ⟨st, [], []⟩ xs).1.uin = chunks.flatten ∧ Chunks xs (tokRun R ⟨st, [], []⟩ xs).2 chunks := by
  intro xs
  induction xs with
  | nil => intro st; exact ⟨[], by simp [tokRun], by simp [Chunks, tokRun]⟩
  | cons x xs ih =>
    intro st
    obtain ⟨a, to, amt⟩ := x
    rw [tokRun_cons R ⟨st, [], []⟩ (a, to, amt) xs]
    simp only
    rcases transfer_cases R st a to amt with ⟨_, ht⟩ | ⟨_, st', _, ht⟩ | ⟨hp, l, t, st', hsel, ht⟩
    · rw [ht]
      obtain ⟨ch, h1, h2⟩ := ih st
      exact ⟨[] :: ch, by simpa using h1, by simpa [Chunks] using h2⟩
    · rw [ht]
      obtain ⟨ch, h1, h2⟩ := ih st'
      exact ⟨[] :: ch, by simpa using h1, by simpa [Chunks] using h2⟩
    · rw [ht]
      simp only
      obtain ⟨o1, o2, o3, _⟩ := hR.ok st a amt l t st' hp hsel
      rw [tokRun_frame R xs st' l]
      simp only
      obtain ⟨ch, h1, h2⟩ := ih st'
      refine ⟨l :: ch, by simp [h1], ?_⟩
      simp only [Chunks]
      exact ⟨o1, by simp; omega, h2⟩

/-- a reader that locks what it hands out never lets one output be recorded twice -/
theorem tok_nodup {R : UReader σ} (free : σ → List Nat) (good : σ → Prop)
    (hL : ∀ st a n, good st →
      good (R.select st a n).2 ∧ (∀ x, x ∈ free (R.select st a n).2 → x ∈ free st) ∧
      ∀ l t, (R.select st a n).1 = some (l, t) →
        (l.map (·.ref)).Nodup ∧ ∀ u ∈ l, u.ref ∈ free st ∧ u.ref ∉ free (R.select st a n).2) :
    ∀ (xs : List Xfer) (st : σ), good st →
      ((tokRun R ⟨st, [], []⟩ xs).1.uin.map (·.ref)).Nodup ∧
      (∀ u ∈ (tokRun R ⟨st, [], []⟩ xs).1.uin, u.ref ∈ free st) := by
  intro xs
  induction xs with
  | nil => intro st _; simp [tokRun]
  | cons x xs ih =>
    intro st hg
    obtain ⟨a, to, amt⟩ := x
    rw [tokRun_cons R ⟨st, [], []⟩ (a, to, amt) xs]
    simp only
    rcases transfer_cases R st a to amt with ⟨_, ht⟩ | ⟨_, st', hsel, ht⟩ | ⟨hp, l, t, st', hsel, ht⟩
    · rw [ht]; exact ih st hg
    · rw [ht]
      obtain ⟨g1, g2, _⟩ := hL st a amt hg
      rw [hsel] at g1 g2
      obtain ⟨i1, i2⟩ := ih st' g1
      exact ⟨i1, fun u hu => g2 _ (i2 u hu)⟩
    · rw [ht]
      simp only
      obtain ⟨g1, g2, g3⟩ := hL st a amt hg
      rw [hsel] at g1 g2 g3
      obtain ⟨n1, n2⟩ := g3 l t rfl
      rw [tokRun_frame R xs st' l]
      simp only
      obtain ⟨i1, i2⟩ := ih st' g1
      constructor
      · rw [List.map_append, List.nodup_append]
        refine ⟨n1, i1, ?_⟩
        intro x hx y hy hxy
        obtain ⟨u, hu, rfl⟩ := List.mem_map.mp hx
        obtain ⟨v, hv, rfl⟩ := List.mem_map.mp hy
        exact (n2 u hu).2 (hxy ▸ i2 v hv)
      · intro u hu
        rcases List.mem_append.mp hu with hu | hu
        · exact (n2 u hu).1
        · exact g2 _ (i2 u hu)

/-! ### the whole sandbox splits into its three sides -/

def kvOps : List XOp → List Op
  | [] => []
  | .kv op :: ops => op :: kvOps ops
  | _ :: ops => kvOps ops

def xfers : List XOp → List Xfer
  | [] => []
  | .xfer a to amt :: ops => (a, to, amt) :: xfers ops
  | _ :: ops => xfers ops

def evOps : List XOp → List Event
  | [] => []
  | .event n b :: ops => ⟨n, b⟩ :: evOps ops
  | _ :: ops => evOps ops

/-- hand the results of the two sides back to the calls in program order -/
def weave : List XOp → List Res → List Bool → List XRes
  | [], _, _ => []
  | .kv _ :: ops, [], bs => weave ops [] bs
  | .kv _ :: ops, y :: ys, bs => .kv y :: weave ops ys bs
  | .xfer .. :: ops, ys, [] => weave ops ys []
  | .xfer .. :: ops, ys, b :: bs => .xfer b :: weave ops ys bs
  | .event .. :: ops, ys, bs => .event :: weave ops ys bs

theorem xrun_cons (c : Cfg) (r : Reader) (R : UReader σ) (x : XState σ) (op : XOp) (ops : List XOp) :
    xrun c r R x (op :: ops) =
      ((xrun c r R (xstep c r R x op).1 ops).1,
       (xstep c r R x op).2 :: (xrun c r R (xstep c r R x op).1 ops).2) := by
  simp only [xrun]

/-- key/value calls, transfers and events do not see each other -/
theorem xrun_split (c : Cfg) (r : Reader) (R : UReader σ) : ∀ (ops : List XOp) (x : XState σ),
    xrun c r R x ops =
      (⟨(run c r x.kv (kvOps ops)).1, (tokRun R x.tok (xfers ops)).1, x.events ++ evOps ops⟩,
       weave ops (run c r x.kv (kvOps ops)).2 (tokRun R x.tok (xfers ops)).2) := by
  intro ops
  induction ops with
  | nil => intro x; simp [xrun, kvOps, xfers, evOps, run, tokRun, weave]
  | cons op ops ih =>
    intro x
    rw [xrun_cons, ih]
    cases op with
    | kv o => simp only [xstep, kvOps, xfers, evOps, run_cons, weave]
    | xfer a to amt => simp only [xstep, kvOps, xfers, evOps, tokRun_cons, weave]
    | event n b => simp only [xstep, kvOps, xfers, evOps, weave, List.append_assoc, List.singleton_append]

/-- the verdicts of the `Transfer` calls among the results of a program -/
def xferOks : List XRes → List Bool
  | [] => []
  | .xfer b :: ys => b :: xferOks ys
  | _ :: ys => xferOks ys

theorem run_results_length (c : Cfg) (r : Reader) : ∀ (ops : List Op) (s : State),
    (run c r s ops).2.length = ops.length := by
  intro ops
  induction ops with
  | nil => intro s; rfl
  | cons op ops ih => intro s; rw [run_cons]; simp [ih]

theorem tokRun_results_length {σ : Type} (R : UReader σ) : ∀ (xs : List Xfer) (u : UState σ),
    (tokRun R u xs).2.length = xs.length := by
  intro xs
  induction xs with
  | nil => intro u; rfl
  | cons x xs ih => intro u; rw [tokRun_cons]; simp [ih]

theorem xferOks_weave : ∀ (ops : List XOp) (ys : List Res) (bs : List Bool),
    ys.length = (kvOps ops).length → bs.length = (xfers ops).length → xferOks (weave ops ys bs) = bs := by
  intro ops
  induction ops with
  | nil => intro ys bs _ hb; simp [xfers] at hb; simp [weave, xferOks, hb]
  | cons op ops ih =>
    intro ys bs hy hb
    cases op with
    | kv o =>
      cases ys with
      | nil => simp [kvOps] at hy
      | cons y ys => simp only [weave, xferOks]; exact ih ys bs (by simpa [kvOps] using hy) (by simpa [xfers] using hb)
    | xfer a to amt =>
      cases bs with
      | nil => simp [xfers] at hb
      | cons b bs =>
        simp only [weave, xferOks]
        rw [ih ys bs (by simpa [kvOps] using hy) (by simpa [xfers] using hb)]
    | event n b => simp only [weave, xferOks]; exact ih ys bs (by simpa [kvOps] using hy) (by simpa [xfers] using hb)

end XV.Sandbox
