import XV.Lemmas.ChainFrame
import XV.Lemmas.Assoc
/-!
The block tree as `walk` sees it: `ancestors` is a parent-linked chain, `undoTodo` splits the two ancestor chains at
their lowest common element, and the pointer bookkeeping of the undo / apply loops of `walk`.
-/
namespace XV.Chain

-- ------------------------------------------------------------------ generic list facts

theorem takeWhile_all {α : Type} (p : α → Bool) (l : List α) : ∀ x ∈ l.takeWhile p, p x = true := by
  intro x hx
  have := List.all_takeWhile (p := p) (l := l)
  exact List.all_eq_true.mp this x hx

/-- `takeWhile` either takes the whole list, or stops in front of a first element that fails the test -/
theorem takeWhile_split {α : Type} (p : α → Bool) (l : List α) :
    (l.takeWhile p = l ∧ ∀ x ∈ l, p x = true) ∨ ∃ a r, l = l.takeWhile p ++ a :: r ∧ p a = false := by
  induction l with
  | nil => left; exact ⟨rfl, by simp⟩
  | cons x rest ih =>
    rw [List.takeWhile_cons]
    by_cases hx : p x = true
    · simp only [hx, ↓reduceIte]
      rcases ih with ⟨h1, h2⟩ | ⟨a, r, h1, h2⟩
      · left
        refine ⟨by rw [h1], ?_⟩
        intro y hy
        rcases List.mem_cons.mp hy with rfl | hy
        · exact hx
        · exact h2 y hy
      · right
        exact ⟨a, r, by rw [List.cons_append, ← h1], h2⟩
    · right
      simp only [hx, Bool.false_eq_true, ↓reduceIte]
      exact ⟨x, rest, rfl, by simpa using hx⟩

/-- two lists with strictly decreasing rank: the first element of each that also occurs in the other is the same -/
theorem first_common_eq {α : Type} (rank : α → Nat) (A B A1 A2 B1 B2 : List α) (a b : α)
    (hA : A.Pairwise (fun x y => rank y < rank x)) (hB : B.Pairwise (fun x y => rank y < rank x))
    (hAs : A = A1 ++ a :: A2) (hA1 : ∀ x ∈ A1, x ∉ B) (ha : a ∈ B)
    (hBs : B = B1 ++ b :: B2) (hB1 : ∀ x ∈ B1, x ∉ A) (hb : b ∈ A) : a = b := by
  have haA : a ∈ A := by rw [hAs]; simp
  have hbB : b ∈ B := by rw [hBs]; simp
  have h1 : a = b ∨ a ∈ B2 := by
    rw [hBs] at ha
    rcases List.mem_append.mp ha with h | h
    · exact absurd haA (hB1 a h)
    · rcases List.mem_cons.mp h with h | h
      · left; exact h
      · right; exact h
  have h2 : b = a ∨ b ∈ A2 := by
    rw [hAs] at hb
    rcases List.mem_append.mp hb with h | h
    · exact absurd hbB (hA1 b h)
    · rcases List.mem_cons.mp h with h | h
      · left; exact h
      · right; exact h
  rcases h1 with h1 | h1
  · exact h1
  · rcases h2 with h2 | h2
    · exact h2.symm
    · rw [hAs] at hA
      rw [hBs] at hB
      have r1 := (List.pairwise_cons.mp (List.pairwise_append.mp hA).2.1).1 b h2
      have r2 := (List.pairwise_cons.mp (List.pairwise_append.mp hB).2.1).1 a h1
      omega

-- ------------------------------------------------------------------ ancestors

/-- consecutive elements are linked by the parent pointer -/
def Linked (e : Env) : List Nat → Prop
  | [] => True
  | [_] => True
  | x :: y :: r => (e.block x).pre = some y ∧ Linked e (y :: r)

theorem ancestors_zero (e : Env) (b : Nat) : ancestors e 0 b = [] := rfl

theorem ancestors_succ (e : Env) (fuel b : Nat) :
    ancestors e (fuel + 1) b =
      b :: (match (e.block b).pre with | some p => ancestors e fuel p | none => []) := rfl

theorem ancestors_succ_none (e : Env) (fuel b : Nat) (h : (e.block b).pre = none) :
    ancestors e (fuel + 1) b = [b] := by rw [ancestors_succ, h]

theorem ancestors_succ_some (e : Env) (fuel b p : Nat) (h : (e.block b).pre = some p) :
    ancestors e (fuel + 1) b = b :: ancestors e fuel p := by rw [ancestors_succ, h]

/-- the block itself is the head of its ancestor list -/
theorem ancestors_head (e : Env) (fuel b : Nat) : ∃ r, ancestors e (fuel + 1) b = b :: r :=
  ⟨_, ancestors_succ e fuel b⟩

/-- **`ancestors` is a parent-linked chain** -/
theorem ancestors_linked (e : Env) (fuel b : Nat) : Linked e (ancestors e fuel b) := by
  induction fuel generalizing b with
  | zero => trivial
  | succ n ih =>
    cases hp : (e.block b).pre with
    | none => rw [ancestors_succ_none e n b hp]; trivial
    | some p =>
      rw [ancestors_succ_some e n b p hp]
      cases n with
      | zero => trivial
      | succ m =>
        obtain ⟨r, hr⟩ := ancestors_head e m p
        have := ih p
        rw [hr] at this ⊢
        exact ⟨hp, this⟩

/-- in a linked list the element in front of `c` has `c` as its parent -/
theorem linked_last_pre (e : Env) (A1 : List Nat) (u c : Nat) (A2 : List Nat)
    (h : Linked e (A1 ++ u :: c :: A2)) : (e.block u).pre = some c := by
  induction A1 with
  | nil => exact h.1
  | cons x rest ih =>
    cases rest with
    | nil => exact ih h.2
    | cons y r2 => exact ih h.2

/-- the block tree is well-founded: a parent is strictly lower than its child (heights along `pre`) -/
def ParentLower (e : Env) : Prop :=
  ∀ b p, (e.block b).pre = some p → (e.block p).height < (e.block b).height

theorem ancestors_height_le (e : Env) (hpl : ParentLower e) (fuel b : Nat) :
    ∀ y ∈ ancestors e fuel b, (e.block y).height ≤ (e.block b).height := by
  induction fuel generalizing b with
  | zero => intro y hy; simp [ancestors_zero] at hy
  | succ n ih =>
    intro y hy
    cases hp : (e.block b).pre with
    | none =>
      rw [ancestors_succ_none e n b hp] at hy
      simp only [List.mem_cons, List.not_mem_nil, or_false] at hy
      rw [hy]; exact Nat.le_refl _
    | some p =>
      rw [ancestors_succ_some e n b p hp] at hy
      rcases List.mem_cons.mp hy with rfl | hy
      · exact Nat.le_refl _
      · have := ih p y hy
        have := hpl b p hp
        omega

/-- heights strictly decrease along `ancestors` -/
theorem ancestors_pairwise (e : Env) (hpl : ParentLower e) (fuel b : Nat) :
    (ancestors e fuel b).Pairwise (fun x y => (e.block y).height < (e.block x).height) := by
  induction fuel generalizing b with
  | zero => rw [ancestors_zero]; exact List.Pairwise.nil
  | succ n ih =>
    cases hp : (e.block b).pre with
    | none => rw [ancestors_succ_none e n b hp]; simp
    | some p =>
      rw [ancestors_succ_some e n b p hp]
      refine List.pairwise_cons.mpr ⟨?_, ih p⟩
      intro y hy
      have := ancestors_height_le e hpl n p y hy
      have := hpl b p hp
      omega

-- ------------------------------------------------------------------ undoTodo

theorem undoTodo_fst (e : Env) (cur dest : Nat) :
    (undoTodo e cur dest).1 = (ancestors e (e.blocks.length + 1) cur).takeWhile
      (fun b => !(ancestors e (e.blocks.length + 1) dest).contains b) := rfl

theorem undoTodo_snd (e : Env) (cur dest : Nat) :
    (undoTodo e cur dest).2 = ((ancestors e (e.blocks.length + 1) dest).takeWhile
      (fun b => !(ancestors e (e.blocks.length + 1) cur).contains b)).reverse := rfl

/-- what `undoTodo` returns, relative to the two ancestor chains `ca` (of the current tip) and `da` (of the
destination): nothing in `undo` is an ancestor of the destination, nothing in `todo` an ancestor of the tip, and
either the chains are disjoint (then everything is undone / applied), or both split at the same block `lca` —
the lowest common ancestor: `ca = undo ++ lca :: _` (newest first), `da = todo.reverse ++ lca :: _`
(so `todo` is oldest first), and every common ancestor is at most as high as `lca`. -/
theorem undoTodo_split (e : Env) (cur dest : Nat) (hpl : ParentLower e) :
    (∀ x ∈ (undoTodo e cur dest).1, x ∉ ancestors e (e.blocks.length + 1) dest) ∧
    (∀ x ∈ (undoTodo e cur dest).2, x ∉ ancestors e (e.blocks.length + 1) cur) ∧
    ((ancestors e (e.blocks.length + 1) cur = (undoTodo e cur dest).1 ∧
      ancestors e (e.blocks.length + 1) dest = (undoTodo e cur dest).2.reverse ∧
      ∀ x ∈ ancestors e (e.blocks.length + 1) cur, x ∉ ancestors e (e.blocks.length + 1) dest) ∨
     ∃ lca r1 r2,
      ancestors e (e.blocks.length + 1) cur = (undoTodo e cur dest).1 ++ lca :: r1 ∧
      ancestors e (e.blocks.length + 1) dest = (undoTodo e cur dest).2.reverse ++ lca :: r2 ∧
      ∀ x, x ∈ ancestors e (e.blocks.length + 1) cur → x ∈ ancestors e (e.blocks.length + 1) dest →
        (e.block x).height ≤ (e.block lca).height) := by
  rw [undoTodo_fst, undoTodo_snd, List.reverse_reverse]
  generalize hca : ancestors e (e.blocks.length + 1) cur = ca
  generalize hda : ancestors e (e.blocks.length + 1) dest = da
  have pca : ca.Pairwise (fun x y => (e.block y).height < (e.block x).height) := by
    rw [← hca]; exact ancestors_pairwise e hpl _ _
  have pda : da.Pairwise (fun x y => (e.block y).height < (e.block x).height) := by
    rw [← hda]; exact ancestors_pairwise e hpl _ _
  have hu : ∀ x ∈ ca.takeWhile (fun b => !da.contains b), x ∉ da := by
    intro x hx
    have := takeWhile_all _ _ x hx
    simpa using this
  have ht : ∀ x ∈ da.takeWhile (fun b => !ca.contains b), x ∉ ca := by
    intro x hx
    have := takeWhile_all _ _ x hx
    simpa using this
  refine ⟨hu, fun x hx => ht x (List.mem_reverse.mp hx), ?_⟩
  rcases takeWhile_split (fun b => !da.contains b) ca with ⟨c1, c2⟩ | ⟨a, r1, c1, c2⟩
  · have hdisj : ∀ x ∈ ca, x ∉ da := fun x hx => by simpa using c2 x hx
    left
    refine ⟨c1.symm, ?_, hdisj⟩
    rcases takeWhile_split (fun b => !ca.contains b) da with ⟨d1, _⟩ | ⟨b, r2, d1, d2⟩
    · exact d1.symm
    · have hb : b ∈ ca := by simpa using d2
      have : b ∈ da := by rw [d1]; simp
      exact absurd this (hdisj b hb)
  · have ha : a ∈ da := by simpa using c2
    have haA : a ∈ ca := by rw [c1]; simp
    right
    rcases takeWhile_split (fun b => !ca.contains b) da with ⟨_, d2⟩ | ⟨b, r2, d1, d2⟩
    · have := d2 a ha
      simp [haA] at this
    · have hb : b ∈ ca := by simpa using d2
      have hab : a = b := first_common_eq (fun x => (e.block x).height) ca da _ r1 _ r2 a b pca pda c1 hu ha d1 ht hb
      refine ⟨a, r1, r2, c1, by rw [hab]; exact d1, ?_⟩
      intro x hx hxd
      rw [c1] at hx
      rcases List.mem_append.mp hx with h | h
      · exact absurd hxd (hu x h)
      · rcases List.mem_cons.mp h with h | h
        · rw [h]; exact Nat.le_refl _
        · rw [c1] at pca
          have := (List.pairwise_cons.mp (List.pairwise_append.mp pca).2.1).1 x h
          omega

-- ------------------------------------------------------------------ the pointer along the loops of `walk`

/-- where a completed non-pruning undo loop leaves the pointer: at the parent of the last block undone -/
theorem undoAll_pointer (e : Env) (l : List Nat) : ∀ (st : St), (walk.undoAll e false l st).2 = true →
    (walk.undoAll e false l st).1.pointer =
      match l.getLast? with
      | none => st.pointer
      | some bi => (e.block bi).pre.getD 0 := by
  induction l with
  | nil => intro st _; rfl
  | cons bi rest ih =>
    intro st h
    have hdef : walk.undoAll e false (bi :: rest) st =
        if (!false && decide (((e.block bi).height : Int) ≤ st.irrev)) = true then (st, false)
        else walk.undoAll e false rest (undoBlock e st (e.block bi) false) := by
      rw [walk.undoAll]
    rw [hdef] at h ⊢
    by_cases hc : ((e.block bi).height : Int) ≤ st.irrev
    · simp [hc] at h
    · simp only [Bool.not_false, Bool.true_and, hc, decide_false, Bool.false_eq_true, ↓reduceIte] at h ⊢
      rw [ih _ h, List.getLast?_cons]
      cases rest.getLast? with
      | none => rfl
      | some x => rfl

/-- where a completed apply loop leaves the pointer: at the id of the last block applied -/
theorem todoAll_pointer (e : Env) (lh : Int) (l : List Nat) (st : St) (h : (walk.todoAll e lh l st).2 = true) :
    (walk.todoAll e lh l st).1.pointer =
      match l.getLast? with
      | none => st.pointer
      | some bi => (e.block bi).id := by
  induction l generalizing st with
  | nil => rfl
  | cons bi rest ih =>
    unfold walk.todoAll at h ⊢
    split
    · rename_i st' heq
      simp only [heq] at h
      rw [ih st' h, List.getLast?_cons]
      cases rest.getLast? with
      | none =>
        simp only [Option.getD_none]
        unfold todoBlock at heq
        split at heq
        · cases heq
        · split at heq
          · simp only [Option.some.injEq] at heq; rw [← heq]
          · cases heq
      | some x => rfl
    · rename_i heq
      simp [heq] at h

theorem doTx_pointer (e : Env) (s : St) (lh : Int) (i : Nat) : (doTx e s lh i).1.pointer = s.pointer := by
  unfold doTx
  split
  · rfl
  · dsimp only
    split
    · simp [(applyTx_frame s (e.tx i)).1]
    · rfl

theorem foldl_doTx_pointer (e : Env) (lh : Int) (l : List Nat) (s : St) :
    (l.foldl (fun st i => (doTx e st lh i).1) s).pointer = s.pointer := by
  induction l generalizing s with
  | nil => rfl
  | cons i rest ih => simp only [List.foldl_cons]; rw [ih, doTx_pointer]

theorem foldl_undoTx_pointer (e : Env) (l : List Nat) (s : St) :
    (l.foldl (fun st i => undoTx e st (e.tx i)) s).pointer = s.pointer := by
  induction l generalizing s with
  | nil => rfl
  | cons i rest ih => simp only [List.foldl_cons]; rw [ih, (undoTx_frame _ _ _).1]

-- ------------------------------------------------------------------ where the two lists of `undoTodo` end

/-- the last block to apply is the destination; if there is nothing to apply, the last block to undo is a child of
the destination; if there is nothing to undo either, the tip already is the destination -/
theorem undoTodo_target (e : Env) (cur dest : Nat) (hpl : ParentLower e) :
    match (undoTodo e cur dest).2.getLast? with
    | some bi => bi = dest
    | none =>
      match (undoTodo e cur dest).1.getLast? with
      | some u => (e.block u).pre = some dest
      | none => cur = dest := by
  obtain ⟨rc, hca⟩ := ancestors_head e e.blocks.length cur
  obtain ⟨rd, hda⟩ := ancestors_head e e.blocks.length dest
  have hlink := ancestors_linked e (e.blocks.length + 1) cur
  obtain ⟨_, _, hsplit⟩ := undoTodo_split e cur dest hpl
  have hlast : (undoTodo e cur dest).2.getLast? =
      if dest ∈ ancestors e (e.blocks.length + 1) cur then none else some dest := by
    rw [undoTodo_snd, List.getLast?_reverse, List.head?_takeWhile, hda, List.head?_cons]
    by_cases hm : dest ∈ ancestors e (e.blocks.length + 1) cur
    · simp [Option.filter, hm]
    · simp [Option.filter, hm]
  by_cases hm : dest ∈ ancestors e (e.blocks.length + 1) cur
  · rw [hlast]
    simp only [hm, ↓reduceIte]
    have htodo : (undoTodo e cur dest).2 = [] := by
      have := hlast
      simp only [hm, ↓reduceIte] at this
      exact List.getLast?_eq_none_iff.mp this
    have hdd : dest ∈ ancestors e (e.blocks.length + 1) dest := by rw [hda]; simp
    rcases hsplit with ⟨_, _, hdisj⟩ | ⟨lca, r1, r2, h1, h2, _⟩
    · exact absurd hdd (hdisj dest hm)
    · rw [htodo, hda] at h2
      simp only [List.reverse_nil, List.nil_append, List.cons.injEq] at h2
      have hl : lca = dest := h2.1.symm
      rw [hl] at h1
      cases hg : (undoTodo e cur dest).1.getLast? with
      | none =>
        simp only
        have hnil := List.getLast?_eq_none_iff.mp hg
        rw [hnil, hca] at h1
        simp only [List.nil_append, List.cons.injEq] at h1
        exact h1.1
      | some u =>
        simp only
        obtain ⟨ys, hys⟩ := List.getLast?_eq_some_iff.mp hg
        rw [hys, List.append_assoc] at h1
        rw [h1] at hlink
        exact linked_last_pre e ys u dest r1 hlink
  · rw [hlast]
    simp only [hm, ↓reduceIte]

-- ------------------------------------------------------------------ the fuel of `ancestors` is enough

/-- the list ends at a block without parent -/
def EndsAtRoot (e : Env) (l : List Nat) : Prop := ∃ x, l.getLast? = some x ∧ (e.block x).pre = none

/-- more fuel does not change an ancestor list that already ends at a root -/
theorem ancestors_stable (e : Env) (m : Nat) : ∀ (b : Nat), EndsAtRoot e (ancestors e m b) →
    ∀ k, ancestors e (m + k) b = ancestors e m b := by
  induction m with
  | zero =>
    intro b h
    obtain ⟨x, hx, _⟩ := h
    simp [ancestors_zero] at hx
  | succ n ih =>
    intro b h k
    have hk : n + 1 + k = (n + k) + 1 := by omega
    rw [hk]
    cases hp : (e.block b).pre with
    | none => rw [ancestors_succ_none e _ b hp, ancestors_succ_none e _ b hp]
    | some p =>
      rw [ancestors_succ_some e _ b p hp, ancestors_succ_some e _ b p hp]
      rw [ancestors_succ_some e n b p hp] at h
      obtain ⟨x, hx, hr⟩ := h
      rw [List.getLast?_cons] at hx
      cases hl : (ancestors e n p).getLast? with
      | none =>
        simp only [hl, Option.getD_none, Option.some.injEq] at hx
        rw [← hx, hp] at hr; cases hr
      | some y =>
        simp only [hl, Option.getD_some, Option.some.injEq] at hx
        rw [ih p ⟨y, hl, by rw [hx]; exact hr⟩ k]

/-- a tail of an ancestor list is the ancestor list of its head, with the remaining fuel -/
theorem ancestors_suffix (e : Env) (A : List Nat) : ∀ (m b c : Nat) (r : List Nat),
    ancestors e m b = A ++ c :: r → c :: r = ancestors e (m - A.length) c := by
  induction A with
  | nil =>
    intro m b c r h
    cases m with
    | zero => simp [ancestors_zero] at h
    | succ n =>
      rw [ancestors_succ] at h
      simp only [List.nil_append, List.cons.injEq] at h
      obtain ⟨hb, hr⟩ := h
      subst hb
      simp only [List.length_nil, Nat.sub_zero]
      rw [ancestors_succ, hr]
  | cons a A' ih =>
    intro m b c r h
    cases m with
    | zero => simp [ancestors_zero] at h
    | succ n =>
      cases hp : (e.block b).pre with
      | none =>
        rw [ancestors_succ_none e n b hp] at h
        simp at h
      | some p =>
        rw [ancestors_succ_some e n b p hp] at h
        simp only [List.cons_append, List.cons.injEq] at h
        have := ih n p c r h.2
        have hl : n + 1 - (a :: A').length = n - A'.length := by simp
        rw [hl]; exact this

/-- either the ancestor list ends at a root, or it used all its fuel on blocks that have a parent -/
theorem ancestors_root_or_full (e : Env) (m : Nat) : ∀ (b : Nat), EndsAtRoot e (ancestors e m b) ∨
    ((ancestors e m b).length = m ∧ ∀ x ∈ ancestors e m b, (e.block x).pre ≠ none) := by
  induction m with
  | zero => intro b; right; simp [ancestors_zero]
  | succ n ih =>
    intro b
    cases hp : (e.block b).pre with
    | none =>
      left
      rw [ancestors_succ_none e n b hp]
      exact ⟨b, rfl, hp⟩
    | some p =>
      rw [ancestors_succ_some e n b p hp]
      rcases ih p with ⟨x, hx, hr⟩ | ⟨h1, h2⟩
      · left
        refine ⟨x, ?_, hr⟩
        rw [List.getLast?_cons, hx]; rfl
      · right
        refine ⟨by simp [h1], ?_⟩
        intro x hx
        rcases List.mem_cons.mp hx with rfl | hx
        · rw [hp]; simp
        · exact h2 x hx

theorem block_known_of_pre (e : Env) (x : Nat) (h : (e.block x).pre ≠ none) : x ∈ e.blocks.map (·.1) := by
  unfold Env.block at h
  cases hl : lookup e.blocks x with
  | none => simp [hl] at h; exact absurd rfl h
  | some v =>
    have : ∀ (m : List (Nat × Block)), lookup m x = some v → x ∈ m.map (·.1) := by
      intro m
      induction m with
      | nil => intro h; simp at h
      | cons q r ih =>
        obtain ⟨a, c⟩ := q
        rw [lookup_cons]
        by_cases ha : a = x
        · intro _; simp [ha]
        · simp only [ha, ↓reduceIte]
          intro h; exact List.mem_cons_of_mem _ (ih h)
    exact this _ hl

/-- **the fuel `blocks.length + 1` always reaches a root** in a tree whose parent links go down in height
(pigeonhole: the blocks on the way are distinct and, having a parent, known to the environment) -/
theorem ancestors_complete (e : Env) (hpl : ParentLower e) (b : Nat) :
    EndsAtRoot e (ancestors e (e.blocks.length + 1) b) := by
  rcases ancestors_root_or_full e (e.blocks.length + 1) b with h | ⟨h1, h2⟩
  · exact h
  · exfalso
    have hnd : (ancestors e (e.blocks.length + 1) b).Nodup := by
      rw [List.nodup_iff_pairwise_ne]
      apply List.Pairwise.imp _ (ancestors_pairwise e hpl _ b)
      intro x y hxy hne
      rw [hne] at hxy; omega
    have hsub : ancestors e (e.blocks.length + 1) b ⊆ e.blocks.map (·.1) :=
      fun x hx => block_known_of_pre e x (h2 x hx)
    have := List.Nodup.length_le_of_subset hnd hsub
    rw [h1, List.length_map] at this
    omega

/-- in the common-ancestor case of `undoTodo_split` both tails below the lowest common ancestor are its own,
complete, ancestor list -/
theorem ancestors_tail_eq (e : Env) (hpl : ParentLower e) (b c : Nat) (A r : List Nat)
    (h : ancestors e (e.blocks.length + 1) b = A ++ c :: r) :
    c :: r = ancestors e (e.blocks.length + 1) c := by
  have hs := ancestors_suffix e A _ b c r h
  have hroot : EndsAtRoot e (ancestors e (e.blocks.length + 1 - A.length) c) := by
    rw [← hs]
    obtain ⟨x, hx, hr⟩ := ancestors_complete e hpl b
    rw [h, List.getLast?_append] at hx
    refine ⟨x, ?_, hr⟩
    cases hl : (c :: r).getLast? with
    | none => simp at hl
    | some y => simp only [hl, Option.some_or] at hx; exact hx
  have hlen : A.length < e.blocks.length + 1 := by
    have : (ancestors e (e.blocks.length + 1) b).length ≤ e.blocks.length + 1 := by
      have hfl : ∀ m b', (ancestors e m b').length ≤ m := by
        intro m
        induction m with
        | zero => intro b'; simp [ancestors_zero]
        | succ n ih =>
          intro b'
          cases hp : (e.block b').pre with
          | none => rw [ancestors_succ_none e n b' hp]; simp
          | some p => rw [ancestors_succ_some e n b' p hp]; simp; exact ih p
      exact hfl _ _
    rw [h] at this
    simp at this
    omega
  have := ancestors_stable e _ c hroot A.length
  have he : e.blocks.length + 1 - A.length + A.length = e.blocks.length + 1 := by omega
  rw [he] at this
  rw [this]; exact hs

/-- checkable form of `ParentLower`: one test per registered block -/
theorem parentLower_of_blocks (e : Env)
    (h : ∀ p ∈ e.blocks, ∀ q, p.2.pre = some q → (e.block q).height < p.2.height) : ParentLower e := by
  intro b q hb
  unfold Env.block at hb
  cases hl : lookup e.blocks b with
  | none => simp [hl] at hb; cases hb
  | some blk =>
    have hmem : ∀ (m : List (Nat × Block)), lookup m b = some blk → (b, blk) ∈ m := by
      intro m
      induction m with
      | nil => intro h; simp at h
      | cons x r ih =>
        obtain ⟨a, c⟩ := x
        rw [lookup_cons]
        by_cases ha : a = b
        · simp only [ha, ↓reduceIte, Option.some.injEq]
          intro hc; simp [hc]
        · simp only [ha, ↓reduceIte]
          intro h; exact List.mem_cons_of_mem _ (ih h)
    have := h (b, blk) (hmem _ hl) q (by simpa [hl] using hb)
    have he : e.block b = blk := by unfold Env.block; rw [hl]; rfl
    rw [he]; exact this

/-- `undoAll_pointer` for both values of the prune flag -/
theorem undoAll_pointer' (e : Env) (prune : Bool) (l : List Nat) : ∀ (st : St),
    (walk.undoAll e prune l st).2 = true →
    (walk.undoAll e prune l st).1.pointer =
      match l.getLast? with
      | none => st.pointer
      | some bi => (e.block bi).pre.getD 0 := by
  induction l with
  | nil => intro st _; rfl
  | cons bi rest ih =>
    intro st h
    have hdef : walk.undoAll e prune (bi :: rest) st =
        if (!prune && decide (((e.block bi).height : Int) ≤ st.irrev)) = true then (st, false)
        else walk.undoAll e prune rest (undoBlock e st (e.block bi) prune) := by
      rw [walk.undoAll]
    rw [hdef] at h ⊢
    by_cases hc : (!prune && decide (((e.block bi).height : Int) ≤ st.irrev)) = true
    · rw [if_pos hc] at h; cases h
    · rw [if_neg hc] at h ⊢
      rw [ih _ h, List.getLast?_cons]
      cases rest.getLast? with
      | none => rfl
      | some x => rfl

end XV.Chain
