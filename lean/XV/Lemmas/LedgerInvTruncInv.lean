import XV.Lemmas.LedgerInvTrunc
/-!
Ledger main-chain invariant, part 12: `truncate` to a block of the main chain preserves the invariant.
-/
namespace XV.Ledger
open XV.Chain (lookup put del lookup_put lookup_del lookup_put_same lookup_del_same lookup_cons lookup_nil)

theorem lookup_of_mem_nodup {m : List (Nat × Nat)} (hnd : (m.map (·.1)).Nodup) {k v : Nat} (h : (k, v) ∈ m) :
    lookup m k = some v := by
  induction m with
  | nil => cases h
  | cons p m ih =>
    obtain ⟨a, b⟩ := p
    simp only [List.map_cons, List.nodup_cons] at hnd
    rw [lookup_cons]
    rcases List.mem_cons.1 h with e | h
    · cases e; simp
    · have : a ≠ k := by
        intro e; subst e
        exact hnd.1 (List.mem_map.2 ⟨(a, v), h, rfl⟩)
      rw [if_neg this]
      exact ih hnd.2 h

theorem saveBlock_B' (l : L) (id : Nat) (h : Hdr) (x : Nat) :
    lookup (saveBlock l id h).B x = if id = x then some h else lookup l.B x := by
  simp [saveBlock, lookup_put]

/-- every stored block has a leaf among its descendants -/
theorem LedgerInv.exists_leaf_desc {l : L} (I : LedgerInv l) {x : Nat} {xb : Hdr} (sx : lookup l.B x = some xb) :
    ∃ p pb, lookup l.B p = some pb ∧ Anc l x p ∧ ∀ c, par l c ≠ some p := by
  generalize hn : l.trunkHeight - xb.height = n
  induction n generalizing x xb with
  | zero =>
    refine ⟨x, xb, sx, Anc.refl _, ?_⟩
    intro c hc
    obtain ⟨cb, _, sc, _, sx', hh⟩ := I.tree.par_stored hc
    rw [sx] at sx'; cases sx'
    have := I.height_le c cb sc
    have := I.height_le x xb sx
    omega
  | succ n ih =>
    by_cases hl : ∀ c, par l c ≠ some x
    · exact ⟨x, xb, sx, Anc.refl _, hl⟩
    · obtain ⟨c, hc⟩ := Classical.not_forall.1 hl
      have hc : par l c = some x := Classical.not_not.1 hc
      obtain ⟨cb, _, sc, _, sx', hh⟩ := I.tree.par_stored hc
      rw [sx] at sx'; cases sx'
      obtain ⟨p, pb, h1, h2, h3⟩ := ih sc (by omega)
      exact ⟨p, pb, h1, (anc_of_par hc).trans h2, h3⟩

theorem truncate_eq {l : L} {target : Nat} {th : Hdr} (ht : lookup l.B target = some th) :
    (truncate l target).1 =
      { (if th.next.isSome then
          saveBlock ((l.ZI.filter (fun p => p.1 ≠ target && p.2 > th.height)).foldl (truncStep l target th.height) l)
            target { th with next := none }
         else (l.ZI.filter (fun p => p.1 ≠ target && p.2 > th.height)).foldl (truncStep l target th.height) l) with
        tip := target, trunkHeight := th.height } := by
  simp only [truncate, ht]
  rfl

/-- the invariant after cutting every branch down to the height `K` of a main-chain block `target`
(tables described in closed form) -/
theorem trunc_inv {l l' : L} {target : Nat} {th : Hdr} (I : LedgerInv l) (st : lookup l.B target = some th)
    (hon : OnPath l target)
    (hBt : lookup l'.B target = some { th with next := none })
    (hBk : ∀ x xb, x ≠ target → lookup l.B x = some xb → xb.height ≤ th.height → lookup l'.B x = some xb)
    (hBg : ∀ x xb, lookup l.B x = some xb → th.height < xb.height → lookup l'.B x = none)
    (hBu : ∀ x, lookup l.B x = none → lookup l'.B x = none)
    (hZk : ∀ k, k ≤ th.height → lookup l'.ZH k = lookup l.ZH k)
    (hZg : ∀ k, th.height < k → lookup l'.ZH k = none)
    (hIu : ∀ x, lookup l.B x = none → lookup l'.ZI x = none)
    (hIg : ∀ x xb, lookup l.B x = some xb → th.height < xb.height → lookup l'.ZI x = none)
    (hIe : ∀ x xb, lookup l.B x = some xb → xb.height = th.height → lookup l'.ZI x = some th.height)
    (hIl : ∀ x xb, lookup l.B x = some xb → xb.height < th.height → lookup l'.ZI x = lookup l.ZI x)
    (hInd : (l'.ZI.map (·.1)).Nodup)
    (hC : l'.C = l.C) (hroot : l'.root = l.root) (htip : l'.tip = target) (hth : l'.trunkHeight = th.height) :
    LedgerInv l' := by
  have T := I.tree
  -- stored blocks of `l'`
  have back : ∀ {x : Nat} {h' : Hdr}, lookup l'.B x = some h' → ∃ xb, lookup l.B x = some xb ∧ xb.height ≤ th.height ∧
      h'.pre = xb.pre ∧ h'.height = xb.height ∧ h'.txs = xb.txs ∧ h'.inTrunk = xb.inTrunk ∧
      (x ≠ target → h'.next = xb.next) ∧ (x = target → h'.next = none) := by
    intro x h' hx
    cases sx : lookup l.B x with
    | none => rw [hBu x sx] at hx; cases hx
    | some xb =>
      by_cases hle : xb.height ≤ th.height
      · by_cases e : x = target
        · subst e
          rw [st] at sx; cases sx
          rw [hBt] at hx; cases hx
          exact ⟨th, rfl, hle, rfl, rfl, rfl, rfl, fun h => absurd rfl h, fun _ => rfl⟩
        · rw [hBk x xb e sx hle] at hx; cases hx
          exact ⟨h', rfl, hle, rfl, rfl, rfl, rfl, fun _ => rfl, fun h => absurd h e⟩
      · rw [hBg x xb sx (by omega)] at hx; cases hx
  have fwd : ∀ {x : Nat} {xb : Hdr}, lookup l.B x = some xb → xb.height ≤ th.height → ∃ h', lookup l'.B x = some h' ∧
      h'.pre = xb.pre ∧ h'.height = xb.height ∧ h'.txs = xb.txs ∧ h'.inTrunk = xb.inTrunk := by
    intro x xb sx hle
    by_cases e : x = target
    · subst e
      rw [st] at sx; cases sx
      exact ⟨_, hBt, rfl, rfl, rfl, rfl⟩
    · exact ⟨xb, hBk x xb e sx hle, rfl, rfl, rfl, rfl⟩
  have par_le : ∀ {x p : Nat}, par l' x = some p → par l x = some p ∧ ∃ xb, lookup l.B x = some xb ∧ xb.height ≤ th.height := by
    intro x p hp
    obtain ⟨h', s', e'⟩ := par_some hp
    obtain ⟨xb, sx, hle, e1, _⟩ := back s'
    exact ⟨by rw [par_of_lookup sx, ← e1, e'], xb, sx, hle⟩
  have par_ge : ∀ {x : Nat} {xb : Hdr}, lookup l.B x = some xb → xb.height ≤ th.height → par l' x = par l x := by
    intro x xb sx hle
    obtain ⟨h', s', e1, _⟩ := fwd sx hle
    rw [par_of_lookup s', par_of_lookup sx, e1]
  have anc_fwd : ∀ {a b : Nat}, Anc l' a b → Anc l a b := by
    intro a b h
    induction h with
    | refl => exact Anc.refl _
    | step hp _ ih => exact Anc.step (par_le hp).1 ih
  have anc_bwd : ∀ {a b : Nat}, Anc l a b → ∀ {bb : Hdr}, lookup l.B b = some bb → bb.height ≤ th.height → Anc l' a b := by
    intro a b h
    induction h with
    | refl => intro _ _ _; exact Anc.refl _
    | step hp _ ih =>
      intro bb sb hle
      obtain ⟨_, pb, sb', _, sp, hh⟩ := T.par_stored hp
      rw [sb] at sb'; cases sb'
      exact Anc.step ((par_ge sb hle).trans hp) (ih sp (by omega))
  have onp : ∀ {x : Nat} {xb : Hdr}, lookup l.B x = some xb → xb.height ≤ th.height → (OnPath l' x ↔ OnPath l x) := by
    intro x xb sx hle
    unfold OnPath
    rw [htip]
    constructor
    · intro h; exact (anc_fwd h).trans hon
    · intro h
      exact anc_bwd (T.anc_linear hon h sx st hle) st (Nat.le_refl _)
  refine
    { tree := ⟨?_, ?_⟩, tip := ⟨_, by rw [htip]; exact hBt, by rw [hth]⟩, trunk := ?_,
      zh_sound := ?_, zh_complete := ?_, next_path := ?_, next_none := ?_, height_le := ?_,
      zi := ?_, zi_nodup := hInd,
      c_sound := ?_, c_total := ?_, c_trunk := ?_, norepeat := ?_ }
  · -- root
    obtain ⟨rb, r1, r2, r3⟩ := T.root
    obtain ⟨h', s', e1, e2, _⟩ := fwd r1 (by omega)
    exact ⟨h', by rw [hroot]; exact s', by rw [e1, r2], by rw [e2, r3]⟩
  · -- parent
    intro b h' hb hne
    rw [hroot] at hne
    obtain ⟨xb, sx, hle, e1, e2, _⟩ := back hb
    obtain ⟨p, pb, f1, f2, f3⟩ := T.parent b xb sx hne
    obtain ⟨ph', g1, _, g3, _⟩ := fwd f2 (by omega)
    exact ⟨p, ph', by rw [e1, f1], g1, by rw [e2, f3, g3]⟩
  · -- trunk
    intro b h' hb
    obtain ⟨xb, sx, hle, _, _, _, e4, _⟩ := back hb
    rw [e4, onp sx hle]
    exact I.trunk b xb sx
  · -- zh_sound
    intro k b hz
    by_cases hk : k ≤ th.height
    · rw [hZk k hk] at hz
      obtain ⟨hb, sb, e, hp⟩ := I.zh_sound k b hz
      obtain ⟨h', s', _, e2, _⟩ := fwd sb (by omega)
      exact ⟨h', s', by omega, (onp sb (by omega)).2 hp⟩
    · rw [hZg k (by omega)] at hz; cases hz
  · -- zh_complete
    intro b h' hb hp
    obtain ⟨xb, sx, hle, _, e2, _⟩ := back hb
    rw [e2, hZk _ hle]
    exact I.zh_complete b xb sx ((onp sx hle).1 hp)
  · -- next_path
    intro b h' c hb hc hpar
    obtain ⟨hpar', cb, sc, hcle⟩ := par_le hpar
    obtain ⟨xb, sx, hle, _, _, _, _, e5, _⟩ := back hb
    obtain ⟨_, _, sc', _, sx', hh⟩ := T.par_stored hpar'
    rw [sc] at sc'; cases sc'
    rw [sx] at sx'; cases sx'
    have hne : b ≠ target := by
      intro e; subst e
      rw [st] at sx; cases sx; omega
    rw [e5 hne]
    exact I.next_path b xb c sx ((onp sc hcle).1 hc) hpar'
  · -- next_none
    intro b h' hb hor
    obtain ⟨xb, sx, hle, _, _, _, _, e5, e6⟩ := back hb
    by_cases e : b = target
    · exact e6 e
    · rw [e5 e]
      rcases hor with h | h
      · exact absurd (h.trans htip) e
      · exact I.next_none b xb sx (Or.inr (fun hp => h ((onp sx hle).2 hp)))
  · -- height_le
    intro b h' hb
    obtain ⟨xb, _, hle, _, e2, _⟩ := back hb
    rw [hth, e2]; exact hle
  · -- zi
    intro x k
    constructor
    · intro hz
      cases sx : lookup l.B x with
      | none => rw [hIu x sx] at hz; cases hz
      | some xb =>
        by_cases hgt : th.height < xb.height
        · rw [hIg x xb sx hgt] at hz; cases hz
        · obtain ⟨h', s', _, e2, _⟩ := fwd sx (by omega)
          by_cases heq : xb.height = th.height
          · rw [hIe x xb sx heq] at hz; cases hz
            refine ⟨h', s', by omega, ?_⟩
            intro c hc
            obtain ⟨hc', cb, sc, hcle⟩ := par_le hc
            obtain ⟨_, _, sc', _, sx', hh⟩ := T.par_stored hc'
            rw [sc] at sc'; cases sc'
            rw [sx] at sx'; cases sx'
            omega
          · rw [hIl x xb sx (by omega)] at hz
            obtain ⟨xb', sx', e, hl⟩ := (I.zi x k).1 hz
            rw [sx] at sx'; cases sx'
            exact ⟨h', s', by omega, fun c hc => hl c (par_le hc).1⟩
    · rintro ⟨h', hb, e, hl⟩
      obtain ⟨xb, sx, hle, _, e2, _⟩ := back hb
      by_cases heq : xb.height = th.height
      · rw [hIe x xb sx heq]; congr 1; omega
      · rw [hIl x xb sx (by omega)]
        refine (I.zi x k).2 ⟨xb, sx, by omega, ?_⟩
        intro c hc
        obtain ⟨_, _, sc, _, sx', hh⟩ := T.par_stored hc
        rw [sx] at sx'; cases sx'
        exact hl c ((par_ge sc (by omega)).trans hc)
  · -- c_sound
    intro t c ch hc hb
    obtain ⟨xb, sx, _, _, _, e3, _⟩ := back hb
    rw [hC] at hc
    rw [e3]; exact I.c_sound t c xb hc sx
  · -- c_total
    intro b h' t hb ht
    obtain ⟨xb, sx, _, _, _, e3, _⟩ := back hb
    rw [hC]
    exact I.c_total b xb t sx (e3 ▸ ht)
  · -- c_trunk
    intro b h' t hb hp ht
    obtain ⟨xb, sx, hle, _, _, e3, _⟩ := back hb
    rw [hC]
    exact I.c_trunk b xb t sx ((onp sx hle).1 hp) (e3 ▸ ht)
  · -- norepeat
    intro a b ha hb sa sb hab hne t ht
    obtain ⟨xa, s1, _, _, _, e3, _⟩ := back sa
    obtain ⟨xb, s2, _, _, _, f3, _⟩ := back sb
    rw [e3]
    exact I.norepeat a b xa xb s1 s2 (anc_fwd hab) hne t (f3 ▸ ht)

/-- **`truncate` to a main-chain block preserves the invariant** -/
theorem truncate_ledgerInv {l : L} (I : LedgerInv l) (target : Nat) (hon : OnPath l target) :
    LedgerInv (truncate l target).1 := by
  have T := I.tree
  obtain ⟨th, st⟩ := I.path_stored hon
  rw [truncate_eq st]
  have hps : ∀ p, p ∈ l.ZI.filter (fun p => p.1 ≠ target && p.2 > th.height) ↔
      p ∈ l.ZI ∧ p.1 ≠ target ∧ th.height < p.2 := by
    intro p
    rw [List.mem_filter]
    simp
  generalize hpsdef : l.ZI.filter (fun p => p.1 ≠ target && p.2 > th.height) = ps at hps
  have leafOf : ∀ p, p ∈ ps → ∃ pb, lookup l.B p.1 = some pb ∧ pb.height = p.2 ∧ th.height < pb.height ∧
      ∀ c, par l c ≠ some p.1 := by
    intro p hp
    obtain ⟨h1, _, h3⟩ := (hps p).1 hp
    have := lookup_of_mem_nodup I.zi_nodup (k := p.1) (v := p.2) h1
    obtain ⟨pb, s1, e, hl⟩ := (I.zi p.1 p.2).1 this
    exact ⟨pb, s1, e, by omega, hl⟩
  have V : ∀ p, p ∈ ps → ∃ pb, lookup l.B p.1 = some pb ∧ th.height < pb.height := by
    intro p hp
    obtain ⟨pb, s1, _, h, _⟩ := leafOf p hp
    exact ⟨pb, s1, h⟩
  have F := truncFold_spec T target th.height ps l V
  generalize ps.foldl (truncStep l target th.height) l = f at F
  have mem_ps : ∀ x xb, lookup l.B x = some xb → (∀ c, par l c ≠ some x) → th.height < xb.height → (x, xb.height) ∈ ps := by
    intro x xb sx hl hgt
    rw [hps]
    refine ⟨lookup_mem _ _ _ ((I.zi x xb.height).2 ⟨xb, sx, rfl, hl⟩), ?_, hgt⟩
    intro e
    have e' : x = target := e
    rw [e', st] at sx; cases sx; omega
  have covered : ∀ x xb, lookup l.B x = some xb → th.height < xb.height → ∃ p, p ∈ ps ∧ Anc l x p.1 := by
    intro x xb sx hgt
    obtain ⟨p, pb, sp, hxp, hl⟩ := I.exists_leaf_desc sx
    have := T.anc_height_le hxp sx sp
    exact ⟨(p, pb.height), mem_ps p pb sp hl (by omega), hxp⟩
  have thin : th.inTrunk = true := (I.trunk target th st).2 hon
  have fBt : lookup f.B target = some th := by
    rw [F.B2 target (fun xb sx => by rw [st] at sx; cases sx; exact Nat.le_refl _)]; exact st
  have fZt : lookup f.ZH th.height = some target := by
    rw [F.Z2 _ (Nat.le_refl _)]; exact I.zh_complete target th st hon
  -- the written tables, uniformly in whether the `next` link had to be cleared
  have hB' : ∀ x, lookup (if th.next.isSome then saveBlock f target { th with next := none } else f).B x =
      if target = x then some { th with next := none } else lookup f.B x := by
    intro x
    by_cases hn : th.next.isSome = true
    · rw [if_pos hn, saveBlock_B']
    · rw [if_neg hn]
      by_cases e : target = x
      · subst e
        rw [if_pos rfl, fBt]
        have : th.next = none := by
          cases h : th.next with
          | none => rfl
          | some v => simp [h] at hn
        cases th
        simp only at this
        subst this
        rfl
      · rw [if_neg e]
  have hZH' : ∀ k, lookup (if th.next.isSome then saveBlock f target { th with next := none } else f).ZH k = lookup f.ZH k := by
    intro k
    by_cases hn : th.next.isSome = true
    · rw [if_pos hn]
      show lookup (if th.inTrunk = true then put f.ZH th.height target else f.ZH) k = _
      rw [if_pos thin, lookup_put]
      by_cases e : th.height = k
      · rw [if_pos e, ← e, fZt]
      · rw [if_neg e]
    · rw [if_neg hn]
  have hrest : (if th.next.isSome then saveBlock f target { th with next := none } else f).ZI = f.ZI ∧
      (if th.next.isSome then saveBlock f target { th with next := none } else f).C = f.C ∧
      (if th.next.isSome then saveBlock f target { th with next := none } else f).root = f.root := by
    by_cases hn : th.next.isSome = true
    · rw [if_pos hn]; exact ⟨rfl, rfl, rfl⟩
    · rw [if_neg hn]; exact ⟨rfl, rfl, rfl⟩
  generalize (if th.next.isSome then saveBlock f target { th with next := none } else f) = g at hB' hZH' hrest
  obtain ⟨gZI, gC, groot⟩ := hrest
  have gI : ∀ x, lookup g.ZI x = lookup f.ZI x := fun x => by rw [gZI]
  refine trunc_inv (l' := { g with tip := target, trunkHeight := th.height }) I st hon ?_ ?_ ?_ ?_ ?_ ?_ ?_ ?_ ?_ ?_ ?_ ?_ ?_ rfl rfl
  · show lookup g.B target = _
    rw [hB', if_pos rfl]
  · intro x xb hne sx hle
    show lookup g.B x = _
    rw [hB', if_neg (fun e => hne e.symm), F.B2 x (fun xb' sx' => by rw [sx] at sx'; cases sx'; exact hle)]
    exact sx
  · intro x xb sx hgt
    show lookup g.B x = _
    have hne : target ≠ x := by
      intro e; subst e
      rw [st] at sx; cases sx; omega
    obtain ⟨p, hp, hxp⟩ := covered x xb sx hgt
    rw [hB', if_neg hne]
    exact F.B1 p hp x xb sx hxp hgt
  · intro x sx
    show lookup g.B x = _
    have hne : target ≠ x := by
      intro e; subst e
      rw [st] at sx; cases sx
    rw [hB', if_neg hne]
    exact F.B3 x sx
  · intro k hk
    show lookup g.ZH k = _
    rw [hZH', F.Z2 k hk]
  · intro k hk
    show lookup g.ZH k = _
    rw [hZH']
    by_cases hkt : k ≤ l.trunkHeight
    · obtain ⟨b, hb, _, sb, e, hp⟩ := I.zh_at hkt
      obtain ⟨p, hp', hbp⟩ := covered b hb sb (by omega)
      have := F.Z1 p hp' b hb sb hbp (by omega) ((I.trunk b hb sb).2 hp)
      rw [e] at this; exact this
    · exact F.Z3 k (I.zh_none_above (by omega))
  · intro x sx
    show lookup g.ZI x = _
    rw [gI, F.I3]
    · cases hz : lookup l.ZI x with
      | none => rfl
      | some k =>
        obtain ⟨xb, sx', _⟩ := (I.zi x k).1 hz
        rw [sx] at sx'; cases sx'
    · intro p hp
      obtain ⟨pb, sp, _⟩ := V p hp
      refine ⟨?_, fun xb sx' => by rw [sx] at sx'; cases sx'⟩
      intro e
      rw [e, sp] at sx; cases sx
  · intro x xb sx hgt
    show lookup g.ZI x = _
    rw [gI]
    by_cases hx : ∃ p, p ∈ ps ∧ x = p.1
    · obtain ⟨p, hp, e⟩ := hx
      rw [e]; exact F.I1 p hp
    · rw [F.I3]
      · cases hz : lookup l.ZI x with
        | none => rfl
        | some k =>
          exfalso
          obtain ⟨xb', sx', e, hl⟩ := (I.zi x k).1 hz
          rw [sx] at sx'; cases sx'
          exact hx ⟨_, mem_ps x xb sx hl hgt, rfl⟩
      · intro p hp
        refine ⟨fun e => hx ⟨p, hp, e⟩, ?_⟩
        intro xb' sx' _
        rw [sx] at sx'; cases sx'; omega
  · intro x xb sx heq
    show lookup g.ZI x = _
    rw [gI]
    by_cases hcov : ∃ p, p ∈ ps ∧ Anc l x p.1
    · obtain ⟨p, hp, hxp⟩ := hcov
      exact F.I2 p hp x xb hxp sx heq
    · have hl : ∀ c, par l c ≠ some x := by
        intro c hc
        obtain ⟨cb, _, sc, _, sx', hh⟩ := T.par_stored hc
        rw [sx] at sx'; cases sx'
        obtain ⟨p, hp, hcp⟩ := covered c cb sc (by omega)
        exact hcov ⟨p, hp, (anc_of_par hc).trans hcp⟩
      rw [F.I3]
      · rw [(I.zi x xb.height).2 ⟨xb, sx, rfl, hl⟩, heq]
      · intro p hp
        obtain ⟨pb, sp, hgt⟩ := V p hp
        refine ⟨?_, fun _ _ hxp _ => hcov ⟨p, hp, hxp⟩⟩
        intro e
        rw [e, sp] at sx; cases sx; omega
  · intro x xb sx hlt
    show lookup g.ZI x = _
    rw [gI, F.I3]
    intro p hp
    obtain ⟨pb, sp, hgt⟩ := V p hp
    refine ⟨?_, ?_⟩
    · intro e
      rw [e, sp] at sx; cases sx; omega
    · intro xb' sx' _
      rw [sx] at sx'; cases sx'; omega
  · show (g.ZI.map (·.1)).Nodup
    rw [gZI]; exact F.I4 I.zi_nodup
  · show g.C = l.C
    rw [gC]; exact F.frame.1
  · show g.root = l.root
    rw [groot]; exact F.frame.2.1

end XV.Ledger
