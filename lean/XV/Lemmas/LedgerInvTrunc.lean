import XV.Lemmas.LedgerInvPath
import XV.Lemmas.LedgerInvAdd
/-!
Ledger main-chain invariant, part 11: `removeAbove` and the per-branch-tip fold of `truncate`.
-/
namespace XV.Ledger
open XV.Chain (lookup put del lookup_put lookup_del lookup_put_same lookup_del_same lookup_cons lookup_nil)

/-- effect of `removeAbove l0 toH _ b acc` on the tables (result `a`) -/
structure RemSpec (l0 acc a : L) (toH b : Nat) : Prop where
  B1 : ∀ x xb, lookup l0.B x = some xb → Anc l0 x b → toH < xb.height → lookup a.B x = none
  B2 : ∀ x, (∀ xb, lookup l0.B x = some xb → xb.height ≤ toH) → lookup a.B x = lookup acc.B x
  B3 : ∀ x, lookup acc.B x = none → lookup a.B x = none
  Z1 : ∀ x xb, lookup l0.B x = some xb → Anc l0 x b → toH < xb.height → xb.inTrunk = true →
    lookup a.ZH xb.height = none
  Z2 : ∀ k, k ≤ toH → lookup a.ZH k = lookup acc.ZH k
  Z3 : ∀ k, lookup acc.ZH k = none → lookup a.ZH k = none
  frame : a.C = acc.C ∧ a.ZI = acc.ZI ∧ a.root = acc.root ∧ a.tip = acc.tip ∧ a.trunkHeight = acc.trunkHeight

theorem RemSpec.noop {l0 acc : L} {toH b : Nat} (T : TreeInv l0) {hb : Hdr} (sb : lookup l0.B b = some hb)
    (hle : hb.height ≤ toH) : RemSpec l0 acc acc toH b := by
  refine ⟨?_, fun _ _ => rfl, fun _ h => h, ?_, fun _ _ => rfl, fun _ h => h, ⟨rfl, rfl, rfl, rfl, rfl⟩⟩
  · intro x xb sx hx hlt
    have := T.anc_height_le hx sx sb
    omega
  · intro x xb sx hx hlt
    have := T.anc_height_le hx sx sb
    omega

theorem removeAbove_spec {l0 : L} (T : TreeInv l0) (toH fuel b : Nat) (acc : L) (hb : Hdr)
    (sb : lookup l0.B b = some hb) (hf : hb.height ≤ toH + fuel) :
    RemSpec l0 acc (removeAbove l0 toH fuel b acc).1 toH b ∧
    (toH ≤ hb.height → ∃ r rb, (removeAbove l0 toH fuel b acc).2 = some r ∧ Anc l0 r b ∧ lookup l0.B r = some rb ∧
      rb.height = toH) := by
  induction fuel generalizing b acc hb with
  | zero =>
    have : removeAbove l0 toH 0 b acc = (acc, some b) := rfl
    rw [this]
    exact ⟨RemSpec.noop T sb (by omega), fun h => ⟨b, hb, rfl, Anc.refl _, sb, by omega⟩⟩
  | succ n ih =>
    by_cases hgt : hb.height > toH
    · have hne : b ≠ l0.root := by
        intro e; subst e
        obtain ⟨h', h1, _, h3⟩ := T.root
        rw [sb] at h1; cases h1; omega
      obtain ⟨p, ph, e1, e2, e3⟩ := T.parent b hb sb hne
      have parb : par l0 b = some p := by rw [par_of_lookup sb, e1]
      have hrun : removeAbove l0 toH (n + 1) b acc = removeAbove l0 toH n p
          { acc with B := del acc.B b, ZH := if hb.inTrunk then del acc.ZH hb.height else acc.ZH } := by
        simp [removeAbove, sb, hgt, e1]
      rw [hrun]
      obtain ⟨R, hrem⟩ := ih p { acc with B := del acc.B b, ZH := if hb.inTrunk then del acc.ZH hb.height else acc.ZH }
        ph e2 (by omega)
      have dn : ∀ {x}, Anc l0 x b → x ≠ b → Anc l0 x p := by
        intro x h hne'
        obtain ⟨p', h1, h2⟩ := T.anc_par_of_ne h hne'
        rw [parb] at h1; cases h1; exact h2
      constructor
      · refine ⟨?_, ?_, ?_, ?_, ?_, ?_, R.frame⟩
        · intro x xb sx hx hlt
          by_cases ex : x = b
          · subst ex
            exact R.B3 x (by simp [lookup_del])
          · exact R.B1 x xb sx (dn hx ex) hlt
        · intro x hx
          rw [R.B2 x hx]
          show lookup (del acc.B b) x = _
          rw [lookup_del, if_neg]
          intro e; subst e
          have := hx hb sb
          omega
        · intro x hx
          apply R.B3
          show lookup (del acc.B b) x = none
          rw [lookup_del, hx]; simp
        · intro x xb sx hx hlt hit
          by_cases ex : x = b
          · subst ex
            rw [sb] at sx; cases sx
            apply R.Z3
            show lookup (if hb.inTrunk = true then del acc.ZH hb.height else acc.ZH) hb.height = none
            rw [if_pos hit, lookup_del_same]
          · exact R.Z1 x xb sx (dn hx ex) hlt hit
        · intro k hk
          rw [R.Z2 k hk]
          show lookup (if hb.inTrunk = true then del acc.ZH hb.height else acc.ZH) k = _
          split
          · rw [lookup_del, if_neg (by omega)]
          · rfl
        · intro k hk
          apply R.Z3
          show lookup (if hb.inTrunk = true then del acc.ZH hb.height else acc.ZH) k = none
          split
          · rw [lookup_del, hk]; simp
          · exact hk
      · intro hle
        obtain ⟨r, rb, r1, r2, r3, r4⟩ := hrem (by omega)
        exact ⟨r, rb, r1, Anc.step parb r2, r3, r4⟩
    · have hrun : removeAbove l0 toH (n + 1) b acc = (acc, some b) := by
        simp [removeAbove, sb, hgt]
      rw [hrun]
      exact ⟨RemSpec.noop T sb (by omega), fun h => ⟨b, hb, rfl, Anc.refl _, sb, by omega⟩⟩

/-- one step of the fold in `truncate`: cut the branch ending in the branch tip `p.1` down to height `K` -/
def truncStep (l : L) (target K : Nat) (acc : L) (p : Nat × Nat) : L :=
  let (a, remain) := removeAbove l K (l.B.length + 1) p.1 acc
  let r := remain.getD target
  let rh := (lookup l.B r).map (·.height) |>.getD K
  { a with ZI := put (del a.ZI p.1) r rh }

theorem truncStep_spec {l : L} (T : TreeInv l) (target K : Nat) (acc : L) (p : Nat × Nat) (pb : Hdr)
    (sp : lookup l.B p.1 = some pb) (hK : K < pb.height) :
    ∃ a r rb, RemSpec l acc a K p.1 ∧ Anc l r p.1 ∧ lookup l.B r = some rb ∧ rb.height = K ∧
      truncStep l target K acc p = { a with ZI := put (del acc.ZI p.1) r K } := by
  have hlen := T.height_lt_length sp
  obtain ⟨R, hrem⟩ := removeAbove_spec T K (l.B.length + 1) p.1 acc pb sp (by omega)
  obtain ⟨r, rb, r1, r2, r3, r4⟩ := hrem (by omega)
  refine ⟨_, r, rb, R, r2, r3, r4, ?_⟩
  unfold truncStep
  simp only [r1, Option.getD_some, r3, Option.map_some, r4]
  rw [R.frame.2.1]

/-- effect of the fold of `truncate` over a list `ps` of branch tips higher than `K` (result `f`) -/
structure FoldSpec (l acc f : L) (K : Nat) (ps : List (Nat × Nat)) : Prop where
  B1 : ∀ p, p ∈ ps → ∀ x xb, lookup l.B x = some xb → Anc l x p.1 → K < xb.height → lookup f.B x = none
  B2 : ∀ x, (∀ xb, lookup l.B x = some xb → xb.height ≤ K) → lookup f.B x = lookup acc.B x
  B3 : ∀ x, lookup acc.B x = none → lookup f.B x = none
  Z1 : ∀ p, p ∈ ps → ∀ x xb, lookup l.B x = some xb → Anc l x p.1 → K < xb.height → xb.inTrunk = true →
    lookup f.ZH xb.height = none
  Z2 : ∀ k, k ≤ K → lookup f.ZH k = lookup acc.ZH k
  Z3 : ∀ k, lookup acc.ZH k = none → lookup f.ZH k = none
  I1 : ∀ p, p ∈ ps → lookup f.ZI p.1 = none
  I2 : ∀ p, p ∈ ps → ∀ r rb, Anc l r p.1 → lookup l.B r = some rb → rb.height = K → lookup f.ZI r = some K
  I3 : ∀ x, (∀ p, p ∈ ps → x ≠ p.1 ∧ ∀ xb, lookup l.B x = some xb → Anc l x p.1 → xb.height ≠ K) →
    lookup f.ZI x = lookup acc.ZI x
  I4 : (acc.ZI.map (·.1)).Nodup → (f.ZI.map (·.1)).Nodup
  frame : f.C = acc.C ∧ f.root = acc.root ∧ f.tip = acc.tip ∧ f.trunkHeight = acc.trunkHeight

theorem truncFold_spec {l : L} (T : TreeInv l) (target K : Nat) (ps : List (Nat × Nat)) (acc : L)
    (V : ∀ p, p ∈ ps → ∃ pb, lookup l.B p.1 = some pb ∧ K < pb.height) :
    FoldSpec l acc (ps.foldl (truncStep l target K) acc) K ps := by
  induction ps generalizing acc with
  | nil =>
    simp only [List.foldl_nil]
    exact ⟨fun _ h => (by cases h), fun _ _ => rfl, fun _ h => h, fun _ h => (by cases h), fun _ _ => rfl, fun _ h => h,
      fun _ h => (by cases h), fun _ h => (by cases h), fun _ _ => rfl, fun h => h, ⟨rfl, rfl, rfl, rfl⟩⟩
  | cons p ps ih =>
    obtain ⟨pb, sp, hK⟩ := V p List.mem_cons_self
    obtain ⟨a, r, rb, R, r2, r3, r4, hstep⟩ := truncStep_spec T target K acc p pb sp hK
    have F := ih (truncStep l target K acc p) (fun q hq => V q (List.mem_cons_of_mem _ hq))
    simp only [List.foldl_cons]
    rw [hstep] at F ⊢
    have hrp : r ≠ p.1 := by
      intro e
      rw [e, sp] at r3; cases r3; omega
    -- the branch-tip table right after this step
    have hZI : ∀ x, lookup (put (del acc.ZI p.1) r K) x = if r = x then some K else if p.1 = x then none else lookup acc.ZI x := by
      intro x; rw [lookup_put, lookup_del]
    refine ⟨?_, ?_, ?_, ?_, ?_, ?_, ?_, ?_, ?_, ?_, ?_⟩
    · intro q hq x xb sx hx hlt
      rcases List.mem_cons.1 hq with e | hq
      · subst e
        exact F.B3 x (R.B1 x xb sx hx hlt)
      · exact F.B1 q hq x xb sx hx hlt
    · intro x hx
      rw [F.B2 x hx]
      exact R.B2 x hx
    · intro x hx
      exact F.B3 x (R.B3 x hx)
    · intro q hq x xb sx hx hlt hit
      rcases List.mem_cons.1 hq with e | hq
      · subst e
        exact F.Z3 _ (R.Z1 x xb sx hx hlt hit)
      · exact F.Z1 q hq x xb sx hx hlt hit
    · intro k hk
      rw [F.Z2 k hk]
      exact R.Z2 k hk
    · intro k hk
      exact F.Z3 k (R.Z3 k hk)
    · intro q hq
      rcases List.mem_cons.1 hq with e | hq
      · subst e
        by_cases hdup : ∃ q', q' ∈ ps ∧ q'.1 = q.1
        · obtain ⟨q', h1, h2⟩ := hdup
          have := F.I1 q' h1
          rw [h2] at this; exact this
        · rw [F.I3]
          · show lookup (put (del acc.ZI q.1) r K) q.1 = none
            rw [hZI, if_neg hrp, if_pos rfl]
          · intro q' hq'
            refine ⟨fun e => hdup ⟨q', hq', e.symm⟩, ?_⟩
            intro xb sx _
            rw [sp] at sx; cases sx; omega
      · exact F.I1 q hq
    · intro q hq r' rb' hr' sr' hh
      rcases List.mem_cons.1 hq with e | hq
      · subst e
        have er : r' = r := T.anc_unique hr' r2 sr' r3 (by omega)
        subst er
        by_cases hcov : ∃ q', q' ∈ ps ∧ Anc l r' q'.1
        · obtain ⟨q', h1, h2⟩ := hcov
          exact F.I2 q' h1 r' rb' h2 sr' hh
        · rw [F.I3]
          · show lookup (put (del acc.ZI q.1) r' K) r' = some K
            rw [hZI, if_pos rfl]
          · intro q' hq'
            refine ⟨?_, fun xb _ hx _ => hcov ⟨q', hq', hx⟩⟩
            intro e
            obtain ⟨qb, sq, hq⟩ := V q' (List.mem_cons_of_mem _ hq')
            rw [e, sq] at sr'; cases sr'; omega
      · exact F.I2 q hq r' rb' hr' sr' hh
    · intro x hx
      rw [F.I3 x (fun q hq => hx q (List.mem_cons_of_mem _ hq))]
      show lookup (put (del acc.ZI p.1) r K) x = _
      obtain ⟨h1, h2⟩ := hx p List.mem_cons_self
      have : r ≠ x := by
        intro e; subst e
        exact h2 rb r3 r2 r4
      rw [hZI, if_neg this, if_neg (fun e => h1 e.symm)]
    · intro hnd
      apply F.I4
      show ((put (del acc.ZI p.1) r K).map (·.1)).Nodup
      exact nodup_keys_put _ _ _ (nodup_keys_del _ _ hnd)
    · obtain ⟨f1, f2, f3, f4⟩ := F.frame
      obtain ⟨g1, _, g3, g4, g5⟩ := R.frame
      exact ⟨f1.trans g1, f2.trans g3, f3.trans g4, f4.trans g5⟩

end XV.Ledger
