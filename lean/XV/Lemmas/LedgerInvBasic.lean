import XV.Lemmas.Assoc
import XV.Model.Ledger
/-!
Ledger main-chain invariant, part 1: the ancestor relation of the stored block tree, the tree invariant
(`TreeInv`: parents stored, heights consecutive, root at height 0) and its order-theoretic consequences
(ancestors of one block are linearly ordered by height, every block descends from the root, …).
-/
namespace XV.Ledger
open XV.Chain (lookup put del lookup_put lookup_del lookup_put_same)

/-- parent pointer of a stored block -/
def par (l : L) (b : Nat) : Option Nat := (lookup l.B b).bind (·.pre)

/-- `Anc l a b`: `a` is `b` or is reached from `b` by following `pre` links of stored blocks -/
inductive Anc (l : L) : Nat → Nat → Prop
  | refl (b : Nat) : Anc l b b
  | step {a b p : Nat} : par l b = some p → Anc l a p → Anc l a b

/-- (a) the stored blocks form a tree below `root` with consecutive heights -/
structure TreeInv (l : L) : Prop where
  root : ∃ h, lookup l.B l.root = some h ∧ h.pre = none ∧ h.height = 0
  parent : ∀ b h, lookup l.B b = some h → b ≠ l.root →
    ∃ p ph, h.pre = some p ∧ lookup l.B p = some ph ∧ h.height = ph.height + 1

theorem par_of_lookup {l : L} {b : Nat} {h : Hdr} (hb : lookup l.B b = some h) : par l b = h.pre := by
  simp [par, hb]

theorem par_some {l : L} {b p : Nat} (h : par l b = some p) : ∃ hb, lookup l.B b = some hb ∧ hb.pre = some p := by
  unfold par at h
  cases hb : lookup l.B b with
  | none => simp [hb] at h
  | some x => exact ⟨x, rfl, by simpa [hb] using h⟩

theorem Anc.trans {l : L} {a b c : Nat} (h1 : Anc l a b) (h2 : Anc l b c) : Anc l a c := by
  induction h2 with
  | refl => exact h1
  | step hp _ ih => exact Anc.step hp ih

theorem anc_inv {l : L} {a b : Nat} (h : Anc l a b) : a = b ∨ ∃ p, par l b = some p ∧ Anc l a p := by
  cases h with
  | refl => exact Or.inl rfl
  | step hp h' => exact Or.inr ⟨_, hp, h'⟩

theorem anc_of_par {l : L} {b p : Nat} (h : par l b = some p) : Anc l p b := Anc.step h (Anc.refl p)

/-- an unstored block has no proper ancestors -/
theorem anc_unstored {l : L} {a b : Nat} (hb : lookup l.B b = none) (h : Anc l a b) : a = b := by
  rcases anc_inv h with h | ⟨p, hp, _⟩
  · exact h
  · simp [par, hb] at hp

/-- ancestor relations agree when the parent pointers agree -/
theorem anc_congr {l l' : L} (hp : ∀ b, par l' b = par l b) {a b : Nat} (h : Anc l a b) : Anc l' a b := by
  induction h with
  | refl => exact Anc.refl _
  | step hq _ ih => exact Anc.step ((hp _).trans hq) ih

/-- a proper ancestor has a child on the way to the descendant -/
theorem anc_child {l : L} {a b : Nat} (h : Anc l a b) (hne : a ≠ b) : ∃ c, Anc l c b ∧ par l c = some a := by
  induction h with
  | refl => exact absurd rfl hne
  | step hp hap ih =>
    rename_i b p
    by_cases e : a = p
    · subst e; exact ⟨b, Anc.refl _, hp⟩
    · obtain ⟨c, h1, h2⟩ := ih e
      exact ⟨c, Anc.step hp h1, h2⟩

namespace TreeInv
variable {l : L}

theorem root_par (T : TreeInv l) : par l l.root = none := by
  obtain ⟨h, h1, h2, _⟩ := T.root
  rw [par_of_lookup h1, h2]

theorem par_stored (T : TreeInv l) {b p : Nat} (hp : par l b = some p) :
    ∃ hb ph, lookup l.B b = some hb ∧ hb.pre = some p ∧ lookup l.B p = some ph ∧ hb.height = ph.height + 1 := by
  obtain ⟨hb, h1, h2⟩ := par_some hp
  have hne : b ≠ l.root := by
    intro e; subst e
    rw [T.root_par] at hp; cases hp
  obtain ⟨p', ph, e1, e2, e3⟩ := T.parent b hb h1 hne
  rw [h2] at e1
  cases e1
  exact ⟨hb, ph, h1, h2, e2, e3⟩

theorem height_zero (T : TreeInv l) {b : Nat} {h : Hdr} (hb : lookup l.B b = some h) (h0 : h.height = 0) : b = l.root := by
  by_cases e : b = l.root
  · exact e
  · obtain ⟨_, _, _, _, e3⟩ := T.parent b h hb e
    omega

theorem anc_stored (T : TreeInv l) {a b : Nat} (h : Anc l a b) {hb : Hdr} (sb : lookup l.B b = some hb) :
    ∃ ha, lookup l.B a = some ha := by
  induction h generalizing hb with
  | refl => exact ⟨hb, sb⟩
  | step hp _ ih =>
    obtain ⟨_, ph, _, _, e2, _⟩ := T.par_stored hp
    exact ih e2

theorem anc_height (T : TreeInv l) {a b : Nat} (h : Anc l a b) {ha hb : Hdr} (sa : lookup l.B a = some ha)
    (sb : lookup l.B b = some hb) : ha.height ≤ hb.height ∧ (ha.height = hb.height → a = b) := by
  induction h generalizing hb with
  | refl => rw [sa] at sb; cases sb; exact ⟨Nat.le_refl _, fun _ => rfl⟩
  | step hp _ ih =>
    obtain ⟨hb', ph, e0, _, e2, e3⟩ := T.par_stored hp
    rw [sb] at e0; cases e0
    have := ih e2
    constructor
    · omega
    · intro e; omega

theorem anc_height_le (T : TreeInv l) {a b : Nat} (h : Anc l a b) {ha hb : Hdr} (sa : lookup l.B a = some ha)
    (sb : lookup l.B b = some hb) : ha.height ≤ hb.height := (T.anc_height h sa sb).1

theorem anc_eq_of_height (T : TreeInv l) {a b : Nat} (h : Anc l a b) {ha hb : Hdr} (sa : lookup l.B a = some ha)
    (sb : lookup l.B b = some hb) (e : ha.height = hb.height) : a = b := (T.anc_height h sa sb).2 e

theorem anc_antisymm (T : TreeInv l) {a b : Nat} (h1 : Anc l a b) (h2 : Anc l b a) {hb : Hdr}
    (sb : lookup l.B b = some hb) : a = b := by
  obtain ⟨ha, sa⟩ := T.anc_stored h1 sb
  have := T.anc_height_le h1 sa sb
  have := T.anc_height_le h2 sb sa
  exact T.anc_eq_of_height h1 sa sb (by omega)

/-- the ancestors of a block are linearly ordered (by height) -/
theorem anc_linear (T : TreeInv l) {a b c : Nat} (hbc : Anc l b c) (hac : Anc l a c) {ha hb : Hdr}
    (sa : lookup l.B a = some ha) (sb : lookup l.B b = some hb) (hle : ha.height ≤ hb.height) : Anc l a b := by
  induction hbc with
  | refl => exact hac
  | step hp hbp ih =>
    rename_i c p
    rcases anc_inv hac with e | ⟨p', hp', hap⟩
    · subst e
      obtain ⟨hc, ph, e0, _, e2, e3⟩ := T.par_stored hp
      rw [sa] at e0; cases e0
      have := T.anc_height_le hbp sb e2
      omega
    · rw [hp] at hp'; cases hp'
      exact ih hap

theorem anc_root (T : TreeInv l) {b : Nat} {h : Hdr} (hb : lookup l.B b = some h) : Anc l l.root b := by
  generalize hn : h.height = n
  induction n generalizing b h with
  | zero => rw [T.height_zero hb hn]; exact Anc.refl _
  | succ n ih =>
    have hne : b ≠ l.root := by
      intro e; subst e
      obtain ⟨h', h1, _, h3⟩ := T.root
      rw [hb] at h1; cases h1; omega
    obtain ⟨p, ph, e1, e2, e3⟩ := T.parent b h hb hne
    have hp : par l b = some p := by rw [par_of_lookup hb, e1]
    exact Anc.step hp (ih e2 (by omega))

theorem exists_anc_at (T : TreeInv l) {b : Nat} {h : Hdr} (hb : lookup l.B b = some h) {k : Nat} (hk : k ≤ h.height) :
    ∃ a ha, Anc l a b ∧ lookup l.B a = some ha ∧ ha.height = k := by
  generalize hn : h.height = n at hk
  induction n generalizing b h with
  | zero => exact ⟨b, h, Anc.refl _, hb, by omega⟩
  | succ n ih =>
    by_cases e : k = n + 1
    · exact ⟨b, h, Anc.refl _, hb, by omega⟩
    · have hne : b ≠ l.root := by
        intro e; subst e
        obtain ⟨h', h1, _, h3⟩ := T.root
        rw [hb] at h1; cases h1; omega
      obtain ⟨p, ph, e1, e2, e3⟩ := T.parent b h hb hne
      have hp : par l b = some p := by rw [par_of_lookup hb, e1]
      obtain ⟨a, ha, h1, h2, h3⟩ := ih e2 (by omega) (by omega)
      exact ⟨a, ha, Anc.step hp h1, h2, h3⟩

/-- two ancestors of one block at the same height coincide -/
theorem anc_unique (T : TreeInv l) {a b c : Nat} (hac : Anc l a c) (hbc : Anc l b c) {ha hb : Hdr}
    (sa : lookup l.B a = some ha) (sb : lookup l.B b = some hb) (e : ha.height = hb.height) : a = b :=
  T.anc_eq_of_height (T.anc_linear hbc hac sa sb (by omega)) sa sb e

/-- a proper ancestor is an ancestor of the parent -/
theorem anc_par_of_ne (_T : TreeInv l) {a b : Nat} (h : Anc l a b) (hne : a ≠ b) : ∃ p, par l b = some p ∧ Anc l a p := by
  rcases anc_inv h with e | h
  · exact absurd e hne
  · exact h

theorem not_anc_of_lt' (T : TreeInv l) {a b : Nat} {ha hb : Hdr} (sa : lookup l.B a = some ha)
    (sb : lookup l.B b = some hb) (hlt : hb.height < ha.height) : ¬ Anc l a b := by
  intro h
  have := T.anc_height_le h sa sb
  omega

end TreeInv
end XV.Ledger
