import XV.Lemmas.LedgerInvBasic
/-!
Ledger main-chain invariant, part 2: the definition of `LedgerInv`, facts derived from it, and `genesis`.
-/
namespace XV.Ledger
open XV.Chain (lookup put del lookup_put lookup_del lookup_put_same lookup_cons lookup_nil)

/-- `b` lies on the path from the tip down to the root (the main chain) -/
def OnPath (l : L) (b : Nat) : Prop := Anc l b l.tip

/-- a transaction is never repeated along one branch: a block shares no transaction with a proper ancestor -/
def NoRepeatOnBranch (l : L) : Prop :=
  ∀ a b ha hb, lookup l.B a = some ha → lookup l.B b = some hb → Anc l a b → a ≠ b → ∀ t, t ∈ hb.txs → t ∉ ha.txs

/-- the main-chain invariant of the ledger tables -/
structure LedgerInv (l : L) : Prop where
  /-- (a) stored blocks form a tree: parent stored, `height = parent.height + 1`, root at height 0 without parent -/
  tree : TreeInv l
  /-- (b) the tip is stored at height `trunkHeight` (its `pre`-path reaches the root by `TreeInv.anc_root`) -/
  tip : ∃ h, lookup l.B l.tip = some h ∧ h.height = l.trunkHeight
  /-- (c) the trunk flag marks exactly the path blocks -/
  trunk : ∀ b h, lookup l.B b = some h → (h.inTrunk = true ↔ OnPath l b)
  /-- (d) the height index holds exactly the path blocks -/
  zh_sound : ∀ k b, lookup l.ZH k = some b → ∃ h, lookup l.B b = some h ∧ h.height = k ∧ OnPath l b
  zh_complete : ∀ b h, lookup l.B b = some h → OnPath l b → lookup l.ZH h.height = some b
  /-- (e) `next` of a path block is its child on the path; tip and off-path blocks have none -/
  next_path : ∀ b h c, lookup l.B b = some h → OnPath l c → par l c = some b → h.next = some c
  next_none : ∀ b h, lookup l.B b = some h → (b = l.tip ∨ ¬ OnPath l b) → h.next = none
  /-- (f) no stored block is higher than the trunk -/
  height_le : ∀ b h, lookup l.B b = some h → h.height ≤ l.trunkHeight
  /-- (g) the branch-tip table holds exactly the leaves with their heights -/
  zi : ∀ b k, lookup l.ZI b = some k ↔ ∃ h, lookup l.B b = some h ∧ h.height = k ∧ ∀ c, par l c ≠ some b
  zi_nodup : (l.ZI.map (·.1)).Nodup
  /-- (h) the confirmed table: an entry naming a stored block names a block containing the transaction; every
  transaction of a stored block has an entry; a transaction of a path block is mapped to that path block -/
  c_sound : ∀ t c ch, lookup l.C t = some c → lookup l.B c = some ch → t ∈ ch.txs
  c_total : ∀ b h t, lookup l.B b = some h → t ∈ h.txs → ∃ c, lookup l.C t = some c
  c_trunk : ∀ b h t, lookup l.B b = some h → OnPath l b → t ∈ h.txs → lookup l.C t = some b
  norepeat : NoRepeatOnBranch l

/-- every entry of the confirmed table names a stored block (holds along truncation-free histories) -/
def CStored (l : L) : Prop := ∀ t c, lookup l.C t = some c → ∃ ch, lookup l.B c = some ch

namespace LedgerInv
variable {l : L}

/-- (b) the path from the tip reaches the root -/
theorem root_on_path (I : LedgerInv l) : OnPath l l.root := by
  obtain ⟨h, hs, _⟩ := I.tip
  exact I.tree.anc_root hs

theorem tip_on_path (_I : LedgerInv l) : OnPath l l.tip := Anc.refl _

theorem path_stored (I : LedgerInv l) {b : Nat} (hb : OnPath l b) : ∃ h, lookup l.B b = some h := by
  obtain ⟨h, hs, _⟩ := I.tip
  exact I.tree.anc_stored hb hs

/-- (d) above the trunk height the height index is empty -/
theorem zh_none_above (I : LedgerInv l) {k : Nat} (hk : l.trunkHeight < k) : lookup l.ZH k = none := by
  cases hz : lookup l.ZH k with
  | none => rfl
  | some b =>
    obtain ⟨h, hs, e, _⟩ := I.zh_sound k b hz
    have := I.height_le b h hs
    omega

/-- (d) up to the trunk height the height index gives the path block of that height -/
theorem zh_at (I : LedgerInv l) {k : Nat} (hk : k ≤ l.trunkHeight) :
    ∃ b h, lookup l.ZH k = some b ∧ lookup l.B b = some h ∧ h.height = k ∧ OnPath l b := by
  obtain ⟨th, hs, e⟩ := I.tip
  obtain ⟨a, ha, h1, h2, h3⟩ := I.tree.exists_anc_at hs (k := k) (by omega)
  refine ⟨a, ha, ?_, h2, h3, h1⟩
  have := I.zh_complete a ha h2 h1
  rwa [h3] at this

/-- path blocks are determined by their height -/
theorem path_unique (I : LedgerInv l) {a b : Nat} {ha hb : Hdr} (pa : OnPath l a) (pb : OnPath l b)
    (sa : lookup l.B a = some ha) (sb : lookup l.B b = some hb) (e : ha.height = hb.height) : a = b :=
  I.tree.anc_unique pa pb sa sb e

/-- (e) a `next` link of a path block points to the path block one higher -/
theorem next_some (I : LedgerInv l) {b c : Nat} {h : Hdr} (hb : lookup l.B b = some h) (hn : h.next = some c) :
    OnPath l b ∧ OnPath l c ∧ par l c = some b := by
  by_cases hp : OnPath l b
  · by_cases ht : b = l.tip
    · have := I.next_none b h hb (Or.inl ht)
      rw [this] at hn; cases hn
    · obtain ⟨c', hc1, hc2⟩ := anc_child hp ht
      have := I.next_path b h c' hb hc1 hc2
      rw [this] at hn; cases hn
      exact ⟨hp, hc1, hc2⟩
  · have := I.next_none b h hb (Or.inr hp)
    rw [this] at hn; cases hn

end LedgerInv

/-! ### genesis -/

theorem lookup_map_const (txs : List Nat) (id t : Nat) :
    lookup (txs.map (fun t => (t, id))) t = if t ∈ txs then some id else none := by
  induction txs with
  | nil => simp
  | cons a r ih =>
    simp only [List.map_cons, lookup_cons, ih, List.mem_cons]
    by_cases e : a = t
    · simp [e]
    · have : ¬ t = a := fun h => e h.symm
      simp [e, this]

theorem genesis_B (id : Nat) (txs : List Nat) (x : Nat) :
    lookup (genesis id txs).B x = if id = x then some ⟨none, 0, true, none, txs⟩ else none := by
  simp [genesis, lookup_cons]

theorem genesis_par (id : Nat) (txs : List Nat) (x : Nat) : par (genesis id txs) x = none := by
  unfold par
  rw [genesis_B]
  by_cases e : id = x <;> simp [e]

theorem genesis_anc {id : Nat} {txs : List Nat} {a b : Nat} (h : Anc (genesis id txs) a b) : a = b := by
  rcases anc_inv h with e | ⟨p, hp, _⟩
  · exact e
  · rw [genesis_par] at hp; cases hp

theorem genesis_stored {id : Nat} {txs : List Nat} {x : Nat} {h : Hdr} (hx : lookup (genesis id txs).B x = some h) :
    x = id ∧ h = ⟨none, 0, true, none, txs⟩ := by
  rw [genesis_B] at hx
  by_cases e : id = x
  · simp [e] at hx; exact ⟨e.symm, hx.symm⟩
  · simp [e] at hx

theorem genesis_ledgerInv (id : Nat) (txs : List Nat) : LedgerInv (genesis id txs) := by
  have hroot : (genesis id txs).root = id := rfl
  have htip : (genesis id txs).tip = id := rfl
  have hth : (genesis id txs).trunkHeight = 0 := rfl
  have hid : lookup (genesis id txs).B id = some ⟨none, 0, true, none, txs⟩ := by rw [genesis_B]; simp
  refine
    { tree := ⟨⟨_, by rw [hroot]; exact hid, rfl, rfl⟩, ?_⟩, tip := ⟨_, by rw [htip]; exact hid, rfl⟩, trunk := ?_,
      zh_sound := ?_, zh_complete := ?_, next_path := ?_, next_none := ?_, height_le := ?_, zi := ?_, zi_nodup := ?_,
      c_sound := ?_, c_total := ?_, c_trunk := ?_, norepeat := ?_ }
  · intro b h hb hne
    exact absurd (genesis_stored hb).1 hne
  · intro b h hb
    obtain ⟨e1, e2⟩ := genesis_stored hb
    subst e1 e2
    simp only [true_iff]
    exact Anc.refl _
  · intro k b hz
    have : k = 0 ∧ b = id := by
      simp only [genesis, lookup_cons, lookup_nil] at hz
      by_cases e : 0 = k
      · simp [e] at hz; exact ⟨e.symm, hz.symm⟩
      · simp [e] at hz
    obtain ⟨e1, e2⟩ := this
    subst e1 e2
    exact ⟨_, hid, rfl, Anc.refl _⟩
  · intro b h hb _
    obtain ⟨e1, e2⟩ := genesis_stored hb
    subst e1 e2
    simp [genesis, lookup_cons]
  · intro b h c _ _ hp
    rw [genesis_par] at hp; cases hp
  · intro b h hb _
    obtain ⟨_, e2⟩ := genesis_stored hb
    subst e2; rfl
  · intro b h hb
    obtain ⟨_, e2⟩ := genesis_stored hb
    subst e2; exact Nat.le_refl _
  · intro b k
    constructor
    · intro hz
      have : b = id ∧ k = 0 := by
        simp only [genesis, lookup_cons, lookup_nil] at hz
        by_cases e : id = b
        · simp [e] at hz; exact ⟨e.symm, hz.symm⟩
        · simp [e] at hz
      obtain ⟨e1, e2⟩ := this
      subst e1 e2
      exact ⟨_, hid, rfl, fun c => by rw [genesis_par]; simp⟩
    · rintro ⟨h, hb, e, _⟩
      obtain ⟨e1, e2⟩ := genesis_stored hb
      subst e1 e2
      subst e
      simp [genesis, lookup_cons]
  · simp [genesis]
  · intro t c ch hc hb
    obtain ⟨e1, e2⟩ := genesis_stored hb
    subst e1 e2
    have : lookup (genesis c txs).C t = if t ∈ txs then some c else none := lookup_map_const txs c t
    rw [this] at hc
    by_cases e : t ∈ txs
    · exact e
    · simp [e] at hc
  · intro b h t hb ht
    obtain ⟨e1, e2⟩ := genesis_stored hb
    subst e1 e2
    have : lookup (genesis b txs).C t = if t ∈ txs then some b else none := lookup_map_const txs b t
    exact ⟨b, by rw [this]; simp [show t ∈ txs from ht]⟩
  · intro b h t hb _ ht
    obtain ⟨e1, e2⟩ := genesis_stored hb
    subst e1 e2
    have : lookup (genesis b txs).C t = if t ∈ txs then some b else none := lookup_map_const txs b t
    rw [this]; simp [show t ∈ txs from ht]
  · intro a b ha hb sa sb hab hne
    exact absurd (genesis_anc hab) hne

theorem genesis_cstored (id : Nat) (txs : List Nat) : CStored (genesis id txs) := by
  intro t c hc
  have : lookup (genesis id txs).C t = if t ∈ txs then some id else none := lookup_map_const txs id t
  rw [this] at hc
  by_cases e : t ∈ txs
  · simp [e] at hc; subst hc
    exact ⟨⟨none, 0, true, none, txs⟩, by rw [genesis_B]; simp⟩
  · simp [e] at hc

end XV.Ledger
