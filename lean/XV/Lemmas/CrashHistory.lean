import XV.Lemmas.CrashNode
import XV.Lemmas.CrashStore
/-!
History level: the invariants of C01 / C02 on every crash state of a history, recovery of an interrupted
synchronisation walk, the irreversible height along the crash states, and the ledger invariant along the run.
-/
namespace XV.Crash
open XV.Chain XV.C01 XV.C02

/-- side conditions of the walk theorems of C01 (block tree) and C02 (ghost log) for a walk from node `m` to `dest`; the
last one is what the ledger guarantees of the skip list (`SkipsConfirmed`: repaired `recoverUnconfirmedTx`; it replaces
the former dynamic hypothesis "a pending transaction that the new branch confirms has a token input") -/
structure WalkSide (e : Env) (m : Node) (dest : Nat) : Prop where
  tree : WalkTree e m.s.pointer dest
  ghost : ∃ C C0, Ledger e m.s C ∧
    C = C0 ++ blockTxs e (undoTodo e m.s.pointer dest).1.reverse ∧
    (C0 ++ blockTxs e (undoTodo e m.s.pointer dest).2).Nodup ∧
    (∀ bi ∈ (undoTodo e m.s.pointer dest).2, (∀ i ∈ (e.block bi).txs, (e.tx i).id = i) ∧
      (∀ i ∈ (e.block bi).txs, (e.tx i).coinbase = true → (e.tx i).ins = [] ∧ feeOf (e.tx i).outs = 0)) ∧
    SkipsConfirmed e m.s (C0 ++ blockTxs e (undoTodo e m.s.pointer dest).2)

/-- **what is assumed of a history.** The base state is well-formed and every chain of the environment replays
validly from it; the nodes of the UNINTERRUPTED run between two operations satisfy the C01 invariant `SInv` and the
C02 invariant `Ledger` (C01 / C02 prove exactly this operation by operation, under their side conditions; for `play`
on a non-empty pool and `playForMiner` the C01 half is open there and is what this hypothesis asks); every walk of
the history meets the side conditions of the walk theorems at the node it starts from. -/
structure History (e : Env) (g : St) (n : Node) (ops : List Op) : Prop where
  kv : KVInv e g
  tree : TreeValid e g
  sinv : ∀ k, k ≤ ops.length → SInv e g (run e n (ops.take k)).s
  led : ∀ k, k ≤ ops.length → ∃ C, Ledger e (run e n (ops.take k)).s C
  walks : ∀ k dest prune, ops[k]? = some (.walk dest prune) → WalkSide e (run e n (ops.take k)) dest

theorem getElem?_lt_length {α : Type} (l : List α) (k : Nat) (a : α) (h : l[k]? = some a) : k < l.length := by
  cases Nat.lt_or_ge k l.length with
  | inl hlt => exact hlt
  | inr hge => rw [List.getElem?_eq_none hge] at h; cases h

/-- every crash state satisfies the C01 invariant as soon as the nodes of the uninterrupted run do and the walks of the
history meet `WalkTree` -/
theorem crashStates_SInv (e : Env) (g : St) (n : Node) (ops : List Op) (hinv : KVInv e g) (htree : TreeValid e g)
    (hs : ∀ k, k ≤ ops.length → SInv e g (run e n (ops.take k)).s)
    (hw : ∀ k dest prune, ops[k]? = some (.walk dest prune) → WalkTree e (run e n (ops.take k)).s.pointer dest)
    (x : Node) (hx : x ∈ crashStates e n ops) : SInv e g x.s := by
  obtain ⟨k, hk, h | ⟨dest, prune, hop, _, hs'⟩⟩ := mem_crashStates e ops n x hx
  · rw [h]; exact hs k hk
  · have W := hw k dest prune hop
    have hlt := getElem?_lt_length ops k _ hop
    refine walkTrace_SInv e _ _ dest prune g W hinv (htree _) (hs k hk) ?_ x.s hs'
    intro hok
    have hfin := (hs (k + 1) hlt).pool
    rw [run_take_succ e n ops k _ hop] at hfin
    have hp : (runOp e (run e n (ops.take k)) (.walk dest prune)).s.pointer = dest :=
      walk_reaches_any e _ _ dest prune W.lower W.destId hok
    rw [hp] at hfin
    exact hfin

/-- **every crash state of a history satisfies the C01 invariant**: its tables are those of the canonical state of
the block its pointer names, with its pool applied -/
theorem history_SInv (e : Env) (g : St) (n : Node) (ops : List Op) (H : History e g n ops)
    (x : Node) (hx : x ∈ crashStates e n ops) : SInv e g x.s :=
  crashStates_SInv e g n ops H.kv H.tree H.sinv (fun k dest prune hop => (H.walks k dest prune hop).tree) x hx

/-- **every crash state of a history satisfies the C02 ledger invariant** for a suitable ghost log -/
theorem history_Ledger (e : Env) (g : St) (n : Node) (ops : List Op) (H : History e g n ops)
    (x : Node) (hx : x ∈ crashStates e n ops) : ∃ C, Ledger e x.s C := by
  obtain ⟨k, hk, h | ⟨dest, prune, hop, _, hs⟩⟩ := mem_crashStates e ops n x hx
  · rw [h]; exact H.led k hk
  · obtain ⟨C, C0, h1, h2, h3, h4, h5⟩ := (H.walks k dest prune hop).ghost
    exact walkTrace_Ledger e _ _ dest prune C C0 h1 h2 h3 h4 h5 x.s hs

/-- a node with another state -/
def Node.withState (m : Node) (s : St) : Node := { m with s := s }

theorem recover_of_walk (e : Env) (x : Node) (r : St × Bool)
    (hw : walk e x.s (lh x) x.l.tip false = r) (hself : x.s.pointer = x.l.tip → r = (x.s, true)) :
    recover e x = ({ x with s := r.1 }, r.2) := by
  unfold recover
  by_cases hp : x.s.pointer = x.l.tip
  · rw [if_pos hp, hself hp]
  · rw [if_neg hp, hw]

/-- **recovery of an interrupted synchronisation walk.** Node `m` runs `walk m.l.tip false` (the state machine is
synchronised to the ledger tip) and the process dies after any batch of it; let `x` be what is on disk. Then for the
part `B` of the re-admission list whose batches had not been written (`B` is the whole list when the crash hit before the
first re-admission; `repostList e m.s = A ++ B` — the old pool without the transactions the ledger records as confirmed on
the chain walked to; the statement formerly said `m.s.pool`):
* the restart `recover` succeeds exactly when the uninterrupted walk succeeds;
* if it succeeds, the uninterrupted walk's state is the recovered state with `B` re-admitted on it (oldest first) —
  the same state, field by field, when `B` is empty, and otherwise the same tables below the pool transactions of `B`;
* if it fails, both stop in the same state (the last completed block batch);
* the ledger is untouched. -/
theorem recover_sync (e : Env) (m : Node) (W : WalkTree e m.s.pointer m.l.tip)
    (s' : St) (hs' : s' ∈ walkTrace e m.s (lh m) m.l.tip false) :
    ∃ A B, repostList e m.s = A ++ B ∧
      (recover e (m.withState s')).1.l = m.l ∧
      (recover e (m.withState s')).2 = (walk e m.s (lh m) m.l.tip false).2 ∧
      ((walk e m.s (lh m) m.l.tip false).2 = true →
        (walk e m.s (lh m) m.l.tip false).1 =
          B.foldl (fun st i => (doTx e st (lh m) i).1) (recover e (m.withState s')).1.s) ∧
      ((walk e m.s (lh m) m.l.tip false).2 = false →
        (recover e (m.withState s')).1.s = (walk e m.s (lh m) m.l.tip false).1) := by
  unfold walkTrace at hs'
  rcases List.mem_append.mp hs' with hmid | hre
  · -- block-boundary part: the restart performs the rest of the walk
    have hres := walk_resume e m.s (lh m) m.l.tip false W s' hmid
    obtain ⟨_, _, _, _, hall⟩ := walkMid_position e m.s (lh m) m.l.tip false W
    obtain ⟨hpool, _⟩ := hall s' hmid
    have hrec : recover e (m.withState s') =
        ({ m.withState s' with s := (walkCore e m.s (lh m) m.l.tip false).1 },
          (walkCore e m.s (lh m) m.l.tip false).2) := by
      apply recover_of_walk e (m.withState s') _ hres
      intro hp
      have hp' : s'.pointer = m.l.tip := hp
      rw [← hres, ← hp']
      exact walk_self e s' (lh m) false hpool
    refine ⟨[], repostList e m.s, rfl, ?_, ?_, ?_, ?_⟩
    · rw [hrec]; rfl
    · rw [hrec, walk_ok_iff_core]
    · intro hok
      rw [walk_ok_iff_core] at hok
      rw [hrec, walk_eq_core, if_pos hok]
    · intro hok
      rw [walk_ok_iff_core] at hok
      rw [hrec, walk_eq_core, hok]
      rfl
  · -- re-admission part: the pointer already names the ledger tip, nothing is done
    obtain ⟨hok, A, B, hsplit, _, hxe⟩ := mem_walkRepost e m.s (lh m) m.l.tip false s' hre
    have hptr : s'.pointer = m.l.tip := by
      rw [hxe, foldl_doTx_pointer]; exact walkCore_pointer e m.s (lh m) m.l.tip false W hok
    have hrec : recover e (m.withState s') = (m.withState s', true) := by
      unfold recover
      have hptr' : (m.withState s').s.pointer = (m.withState s').l.tip := hptr
      rw [if_pos hptr']
    refine ⟨A, B, hsplit, by rw [hrec]; rfl, by rw [hrec, walk_ok_iff_core, hok], ?_, ?_⟩
    · intro _
      rw [hrec, walk_eq_core, if_pos hok, hsplit, List.foldl_append, ← hxe]
      rfl
    · intro hf
      rw [walk_ok_iff_core, hok] at hf
      cases hf

-- ------------------------------------------------------------------ the irreversible height along a history

/-- the history contains no pruning walk (pruning is the administrator's truncation, not consensus) -/
def PruneFree : List Op → Prop
  | [] => True
  | .walk _ prune :: rest => prune = false ∧ PruneFree rest
  | _ :: rest => PruneFree rest

instance decPruneFree : (ops : List Op) → Decidable (PruneFree ops)
  | [] => isTrue trivial
  | op :: rest =>
    have := decPruneFree rest
    match op with
    | .walk _ prune => by unfold PruneFree; exact inferInstance
    | .submit _ => by unfold PruneFree; exact inferInstance
    | .confirm _ => by unfold PruneFree; exact inferInstance
    | .play _ => by unfold PruneFree; exact inferInstance
    | .playMiner _ => by unfold PruneFree; exact inferInstance
    | .truncate _ => by unfold PruneFree; exact inferInstance

theorem runOp_irrev_le (e : Env) (n : Node) (op : Op) (h : PruneFree [op]) : n.s.irrev ≤ (runOp e n op).s.irrev := by
  cases op with
  | submit i => exact Int.le_of_eq (XV.C17.doTx_irrev e n.s (lh n) i).symm
  | confirm b => exact Int.le_refl _
  | play b => exact (XV.C17.play_irrev e n.s (lh n) (e.block b)).1
  | playMiner b => exact (XV.C17.playForMiner_irrev e n.s (lh n) (e.block b)).1
  | walk dest prune =>
    have hp : prune = false := h.1
    subst hp
    exact XV.C17.walk_irrev_mono e n.s (lh n) dest
  | truncate d => exact Int.le_refl _

/-- **along a history without pruning walks the irreversible height never decreases from one crash state to the
next** (the crash states in the order in which they can occur): the value a crash leaves behind lies between the
values of the uninterrupted run before and after the interrupted operation -/
theorem crashStates_irrev_sorted (e : Env) : ∀ (ops : List Op) (n : Node), PruneFree ops →
    (crashStates e n ops).Pairwise (fun a b => a.s.irrev ≤ b.s.irrev) := by
  intro ops
  induction ops with
  | nil => intro n _; simp [crashStates]
  | cons op rest ih =>
    intro n hpf
    have hop : PruneFree [op] ∧ PruneFree rest := by
      cases op with
      | walk dest prune => exact ⟨⟨hpf.1, trivial⟩, hpf.2⟩
      | submit i => exact ⟨trivial, hpf⟩
      | confirm b => exact ⟨trivial, hpf⟩
      | play b => exact ⟨trivial, hpf⟩
      | playMiner b => exact ⟨trivial, hpf⟩
      | truncate d => exact ⟨trivial, hpf⟩
    have hrest := ih (runOp e n op) hop.2
    have hle := runOp_irrev_le e n op hop.1
    -- the trace of this operation
    have htrace : (opTrace e n op).Pairwise (fun a b => a.s.irrev ≤ b.s.irrev) ∧
        ∀ a ∈ opTrace e n op, n.s.irrev ≤ a.s.irrev ∧ a.s.irrev ≤ (runOp e n op).s.irrev := by
      cases op with
      | walk dest prune =>
        have hp : prune = false := hop.1.1
        subst hp
        obtain ⟨w1, w2⟩ := walkTrace_irrev_sorted e n.s (lh n) dest
        obtain ⟨w1a, w1b⟩ := List.pairwise_cons.mp w1
        unfold opTrace
        refine ⟨?_, ?_⟩
        · rw [List.pairwise_map]
          exact w1b
        · intro a ha
          obtain ⟨s', hs', rfl⟩ := List.mem_map.mp ha
          exact ⟨w1a s' hs', w2 s' hs'⟩
      | submit i =>
        exact ⟨by simp [opTrace], fun a ha => by
          have : a = runOp e n (.submit i) := by simpa [opTrace] using ha
          rw [this]; exact ⟨hle, Int.le_refl _⟩⟩
      | confirm b =>
        exact ⟨by simp [opTrace], fun a ha => by
          have : a = runOp e n (.confirm b) := by simpa [opTrace] using ha
          rw [this]; exact ⟨hle, Int.le_refl _⟩⟩
      | play b =>
        exact ⟨by simp [opTrace], fun a ha => by
          have : a = runOp e n (.play b) := by simpa [opTrace] using ha
          rw [this]; exact ⟨hle, Int.le_refl _⟩⟩
      | playMiner b =>
        exact ⟨by simp [opTrace], fun a ha => by
          have : a = runOp e n (.playMiner b) := by simpa [opTrace] using ha
          rw [this]; exact ⟨hle, Int.le_refl _⟩⟩
      | truncate d =>
        exact ⟨by simp [opTrace], fun a ha => by
          have : a = runOp e n (.truncate d) := by simpa [opTrace] using ha
          rw [this]; exact ⟨hle, Int.le_refl _⟩⟩
    obtain ⟨tl, htl⟩ := crashStates_head e (runOp e n op) rest
    have hfrom : ∀ b ∈ crashStates e (runOp e n op) rest, (runOp e n op).s.irrev ≤ b.s.irrev := by
      intro b hb
      rw [htl] at hb hrest
      rcases List.mem_cons.mp hb with rfl | hb
      · exact Int.le_refl _
      · exact (List.pairwise_cons.mp hrest).1 b hb
    unfold crashStates
    refine List.pairwise_cons.mpr ⟨?_, List.pairwise_append.mpr ⟨htrace.1, hrest, ?_⟩⟩
    · intro a ha
      rcases List.mem_append.mp ha with ha | ha
      · exact (htrace.2 a ha).1
      · exact Int.le_trans hle (hfrom a ha)
    · intro a ha b hb
      exact Int.le_trans (htrace.2 a ha).2 (hfrom b hb)

-- ------------------------------------------------------------------ first and last crash state

theorem crashStates_getLast (e : Env) : ∀ (ops : List Op) (n : Node),
    (crashStates e n ops).getLast? = some (run e n ops) := by
  intro ops
  induction ops with
  | nil => intro n; rfl
  | cons op rest ih =>
    intro n
    unfold crashStates
    rw [List.getLast?_cons, List.getLast?_append, ih]
    rfl

/-- in a list sorted for a reflexive relation every element lies between the first and the last -/
theorem pairwise_bounds {α : Type} (r : α → α → Prop) (hrefl : ∀ a, r a a) (l : List α) (h : l.Pairwise r) (a b : α)
    (hh : l.head? = some a) (hl : l.getLast? = some b) : ∀ x ∈ l, r a x ∧ r x b := by
  intro x hx
  obtain ⟨l1, l2, hsplit⟩ := List.append_of_mem hx
  subst hsplit
  obtain ⟨_, p2, p3⟩ := List.pairwise_append.mp h
  constructor
  · cases l1 with
    | nil =>
      simp only [List.nil_append, List.head?_cons, Option.some.injEq] at hh
      rw [← hh]; exact hrefl _
    | cons c l1' =>
      simp only [List.cons_append, List.head?_cons, Option.some.injEq] at hh
      rw [← hh]
      exact p3 c List.mem_cons_self x List.mem_cons_self
  · rw [List.getLast?_append, List.getLast?_cons] at hl
    simp only [Option.some_or, Option.some.injEq] at hl
    cases hl2 : l2.getLast? with
    | none =>
      rw [hl2] at hl
      simp only [Option.getD_none] at hl
      rw [← hl]; exact hrefl _
    | some c =>
      rw [hl2] at hl
      simp only [Option.getD_some] at hl
      rw [← hl]
      exact (List.pairwise_cons.mp p2).1 c (List.mem_of_getLast? hl2)

/-- along a history without pruning walks the irreversible height of every crash state lies between the value the
history starts with and the value the uninterrupted run ends with -/
theorem crashStates_irrev_bounds (e : Env) (ops : List Op) (n : Node) (hpf : PruneFree ops)
    (x : Node) (hx : x ∈ crashStates e n ops) :
    n.s.irrev ≤ x.s.irrev ∧ x.s.irrev ≤ (run e n ops).s.irrev := by
  obtain ⟨tl, htl⟩ := crashStates_head e n ops
  exact pairwise_bounds (fun a b : Node => a.s.irrev ≤ b.s.irrev) (fun a => Int.le_refl _) _
    (crashStates_irrev_sorted e ops n hpf) n (run e n ops) (by rw [htl]; rfl) (crashStates_getLast e ops n) x hx

end XV.Crash
