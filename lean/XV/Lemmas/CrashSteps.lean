import XV.Lemmas.CrashHistory
/-!
The C01 invariant `SInv` along the UNINTERRUPTED run, operation by operation, from the C01 theorems: `doTx`
(`doTx_keeps_pool_form`, `poolValid_snoc`), `play` on an empty pool (`play_invariant`), `walk` (`walkTrace_SInv`);
ledger operations do not touch the state. `play` on a non-empty pool and `playForMiner` are open in C01: for them the
step condition is the conclusion itself.
-/
namespace XV.Crash
open XV.Chain XV.C01

/-- one admission keeps the invariant; side conditions of the C01 transaction theorems for the submitted transaction
(asked only when it is admitted): known under its id / no self-citing input / one write per key, no row carries its
id, its inputs cite the frozen height of the rows they spend -/
theorem SInv.submit {e : Env} {g s : St} (hs : SInv e g s) (lh : Int) (i : Nat)
    (hside : (doTx e s lh i).2 = .ok → TxWF e i ∧ (∀ o, lookup s.U (i, o) = none) ∧ citesFrozen s (e.tx i)) :
    SInv e g (doTx e s lh i).1 := by
  by_cases hok : (doTx e s lh i).2 = .ok
  · obtain ⟨hwf, hfresh, hfz⟩ := hside hok
    obtain ⟨_, hadm, heq⟩ := XV.C03.doTx_ok e s lh i hok
    have hptr : (doTx e s lh i).1.pointer = s.pointer := doTx_pointer e s lh i
    have hform := doTx_keeps_pool_form e (canon e g s.pointer) s lh i hs.tables
    refine ⟨by rw [hptr]; exact hform, ?_⟩
    rw [hptr]
    have hpool : (doTx e s lh i).1.pool = s.pool ++ [i] := by rw [heq]
    rw [hpool]
    have hobs := hs.tables.obs
    apply poolValid_snoc e s.pool i _ hs.pool
    · exact ⟨lh, by rw [← admission_congrT s _ lh (e.tx i) hobs]; exact hadm⟩
    · exact hwf
    · intro o; rw [← hobs.U]; exact hfresh o
    · intro r hr u hu
      rw [← hobs.U] at hu
      exact hfz r hr u hu
  · rw [XV.C05.doTx_fail_noop e s lh i hok]; exact hs

/-- `play` on an empty pool keeps the invariant (C01 `play_invariant`) -/
theorem SInv.play_empty {e : Env} {g s : St} (hs : SInv e g s) (hpl : ParentLower e) (lh : Int) (b : Block)
    (hp : s.pool = []) (hb : e.block b.id = b) : SInv e g (play e s lh b).1 := by
  by_cases hok : (play e s lh b).2 = .ok
  · have ht := hs.tables
    rw [hp] at ht
    obtain ⟨h1, h2, h3⟩ := play_invariant e s lh b g hpl hb hp hok ht
    exact SInv.of_boundary h3 (by rw [h2]; exact h1)
  · rw [XV.C05.play_fail_noop e s lh b hok]; exact hs

/-- side condition of one operation for the C01 invariant along the uninterrupted run -/
def SStep (e : Env) (g : St) (m : Node) : Op → Prop
  | .submit i => (doTx e m.s (lh m) i).2 = .ok →
      TxWF e i ∧ (∀ o, lookup m.s.U (i, o) = none) ∧ citesFrozen m.s (e.tx i)
  | .confirm _ => True
  | .truncate _ => True
  | .play b => (m.s.pool = [] ∧ e.block (e.block b).id = e.block b) ∨ SInv e g (play e m.s (lh m) (e.block b)).1
  | .playMiner b => SInv e g (playForMiner e m.s (lh m) (e.block b)).1
  | .walk dest prune => WalkTree e m.s.pointer dest ∧
      ((walk e m.s (lh m) dest prune).2 = true → PoolValid e (walk e m.s (lh m) dest prune).1.pool (canon e g dest))

/-- **the uninterrupted run keeps the C01 invariant**, operation by operation -/
theorem run_SInv (e : Env) (g : St) (n : Node) (ops : List Op) (hpl : ParentLower e) (hinv : KVInv e g)
    (htree : TreeValid e g) (h0 : SInv e g n.s)
    (hsteps : ∀ k op, ops[k]? = some op → SStep e g (run e n (ops.take k)) op) :
    ∀ k, k ≤ ops.length → SInv e g (run e n (ops.take k)).s := by
  intro k
  induction k with
  | zero => intro _; exact h0
  | succ k ih =>
    intro hk
    have hlt : k < ops.length := by omega
    have hS := ih (by omega)
    have hop : ops[k]? = some ops[k] := List.getElem?_eq_getElem hlt
    have hstep := hsteps k _ hop
    rw [run_take_succ e n ops k _ hop]
    generalize run e n (ops.take k) = m at hS hstep
    generalize ops[k] = op at hstep
    cases op with
    | submit i => exact hS.submit (lh m) i hstep
    | confirm b => exact hS
    | truncate d => exact hS
    | play b =>
      rcases hstep with ⟨hp, hb⟩ | h
      · exact hS.play_empty hpl (lh m) (e.block b) hp hb
      · exact h
    | playMiner b => exact hstep
    | walk dest prune =>
      exact walkTrace_SInv e m.s (lh m) dest prune g hstep.1 hinv (htree _) hS hstep.2 _
        (List.mem_of_getLast? (walkTrace_getLast e m.s (lh m) dest prune))

end XV.Crash
