import XV.Lemmas.RefineOps
/-!
What a list of table operations (`POp`) can and cannot do to a row / a key version, whatever the order:

* a row whose transaction id is none of the operations' ids can only disappear (`prun_row_other`);
* a fee-slot row of `i` appears only by `fee i` (`prun_row_fee`);
* the current version of a key after the list is the one before, or was written by an application in the list
  (`prun_curVer`);
* `FrozenInv`: every row carries the frozen height that its transaction declares — kept by every operation, so an input
  that cites the declared height (`StaticFrozen`) cites the height of the row it spends, in every state built from a
  base state that satisfies it.
-/
namespace XV.Chain

def opId : POp → Nat
  | .app i => i
  | .fee i _ => i

/-- a row whose id is not the id of any operation can only disappear -/
theorem prun_row_other (e : Env) (l : List POp) (X : St) (i o : Nat) (u : UItem)
    (hid : ∀ op ∈ l, (e.tx (opId op)).id = opId op) (hni : ∀ op ∈ l, opId op ≠ i)
    (h : lookup (prun e l X).U (i, o) = some u) : lookup X.U (i, o) = some u := by
  induction l generalizing X with
  | nil => exact h
  | cons op rest ih =>
    rw [prun_cons] at h
    have h1 := ih (pstep e X op) (fun p hp => hid p (List.mem_cons_of_mem _ hp))
      (fun p hp => hni p (List.mem_cons_of_mem _ hp)) h
    have hidop := hid op List.mem_cons_self
    have hne := hni op List.mem_cons_self
    cases op with
    | app j =>
      simp only [opId] at hidop hne
      have hk : (i, o).1 ≠ (e.tx j).id := by rw [hidop]; exact fun h => hne h.symm
      simp only [pstep] at h1
      rw [applyTx_lookup_otherid X (e.tx j) _ hk] at h1
      split at h1
      · cases h1
      · exact h1
    | fee j prop =>
      simp only [opId] at hidop hne
      have hk : (i, o).1 ≠ (e.tx j).id := by rw [hidop]; exact fun h => hne h.symm
      simp only [pstep] at h1
      rw [payFee_lookup_otherid _ _ _ _ _ _ hk] at h1
      exact h1

/-- … so a row that is absent in the base state stays absent -/
theorem prun_row_absent (e : Env) (l : List POp) (X : St) (i o : Nat)
    (hid : ∀ op ∈ l, (e.tx (opId op)).id = opId op) (hni : ∀ op ∈ l, opId op ≠ i)
    (h : lookup X.U (i, o) = none) : lookup (prun e l X).U (i, o) = none := by
  cases hl : lookup (prun e l X).U (i, o) with
  | none => rfl
  | some u => rw [prun_row_other e l X i o u hid hni hl] at h; cases h

/-- a fee-slot row of `i` is created only by `fee i` -/
theorem prun_row_fee (e : Env) (l : List POp) (X : St) (i o : Nat) (u : UItem)
    (hid : ∀ op ∈ l, (e.tx (opId op)).id = opId op) (hnf : ∀ p, POp.fee i p ∉ l)
    (hself : ∀ r ∈ (e.tx i).ins, r.tx ≠ i) (hf : feeSlot (e.tx i) o = true)
    (h : lookup (prun e l X).U (i, o) = some u) : lookup X.U (i, o) = some u := by
  induction l generalizing X with
  | nil => exact h
  | cons op rest ih =>
    rw [prun_cons] at h
    have h1 := ih (pstep e X op) (fun p hp => hid p (List.mem_cons_of_mem _ hp))
      (fun p hp => hnf p (List.mem_cons_of_mem _ hp)) h
    have hidop := hid op List.mem_cons_self
    cases op with
    | app j =>
      simp only [opId] at hidop
      simp only [pstep] at h1
      by_cases hji : j = i
      · subst hji
        have hs : ∀ r ∈ (e.tx j).ins, r.tx ≠ (e.tx j).id := by rw [hidop]; exact hself
        have := applyTx_lookup_idx X (e.tx j) o hs
        rw [hidop] at this
        rw [this] at h1
        unfold feeSlot at hf
        split at h1
        · rename_i out hout
          simp only [hout] at hf
          simp only [hf, Bool.true_or, ↓reduceIte] at h1
          exact h1
        · exact h1
      · have hk : (i, o).1 ≠ (e.tx j).id := by rw [hidop]; exact fun h => hji h.symm
        rw [applyTx_lookup_otherid X (e.tx j) _ hk] at h1
        split at h1
        · cases h1
        · exact h1
    | fee j prop =>
      simp only [opId] at hidop
      simp only [pstep] at h1
      have hji : j ≠ i := by
        intro hji
        subst hji
        exact hnf prop List.mem_cons_self
      have hk : (i, o).1 ≠ (e.tx j).id := by rw [hidop]; exact fun h => hji h.symm
      rw [payFee_lookup_otherid _ _ _ _ _ _ hk] at h1
      exact h1

/-- the current version of a key after a list of operations: unchanged, or written by an application of the list -/
theorem prun_curVer (e : Env) (l : List POp) (X : St) (key : String)
    (hid : ∀ op ∈ l, (e.tx (opId op)).id = opId op) :
    curVer (prun e l X) key = curVer X key ∨ ∃ w o, POp.app w ∈ l ∧ curVer (prun e l X) key = some (w, o) := by
  induction l generalizing X with
  | nil => exact Or.inl rfl
  | cons op rest ih =>
    rw [prun_cons]
    rcases ih (pstep e X op) (fun p hp => hid p (List.mem_cons_of_mem _ hp)) with h | ⟨w, o, hw, h⟩
    · have hidop := hid op List.mem_cons_self
      cases op with
      | app j =>
        simp only [opId] at hidop
        by_cases hwr : ∃ ko ∈ (e.tx j).kout, ko.key = key
        · obtain ⟨o, ho⟩ := applyTx_curVer_written X (e.tx j) key hwr
          right
          refine ⟨j, o, List.mem_cons_self, ?_⟩
          rw [h]
          simp only [pstep]
          rw [ho, hidop]
        · left
          rw [h]
          simp only [pstep]
          exact applyTx_curVer_other X (e.tx j) key (fun ko hko he => hwr ⟨ko, hko, he⟩)
      | fee j prop =>
        left
        rw [h]
        simp only [pstep]
        exact payFee_curVer _ _ _ _ _ _
    · exact Or.inr ⟨w, o, List.mem_cons_of_mem _ hw, h⟩

-- ------------------------------------------------------------------ frozen heights

/-- the frozen height that transaction `a` declares for its output `o` (a fee row is never frozen) -/
def declFrozen (e : Env) (a o : Nat) : Int :=
  match (e.tx a).outs[o]? with
  | some x => if (x.addr == "$") = true then 0 else x.frozen
  | none => 0

/-- every row carries the frozen height its transaction declares -/
def FrozenInv (e : Env) (s : St) : Prop :=
  ∀ a o u, lookup s.U (a, o) = some u → u.frozen = declFrozen e a o

/-- every input of `i` cites the declared frozen height of the output it spends -/
def StaticFrozen (e : Env) (i : Nat) : Prop :=
  ∀ r ∈ (e.tx i).ins, r.frozen = declFrozen e r.tx r.off

theorem FrozenInv_of_U (e : Env) (s s' : St) (h : ∀ k, lookup s'.U k = lookup s.U k) (hf : FrozenInv e s) :
    FrozenInv e s' := by
  intro a o u hu
  rw [h] at hu
  exact hf a o u hu

theorem applyTx_FrozenInv (e : Env) (s : St) (i : Nat) (w : WF e i) (hf : FrozenInv e s) :
    FrozenInv e (applyTx s (e.tx i)) := by
  intro a o u hu
  by_cases hai : a = i
  · subst hai
    have hs : ∀ r ∈ (e.tx a).ins, r.tx ≠ (e.tx a).id := by rw [w.id]; exact w.self
    have := applyTx_lookup_idx s (e.tx a) o hs
    rw [w.id] at this
    rw [this] at hu
    unfold declFrozen
    split at hu
    · rename_i out hout
      rw [hout]
      by_cases hz : (out.addr == "$" || out.amt == 0) = true
      · simp only [hz, ↓reduceIte] at hu
        have := hf a o u hu
        unfold declFrozen at this
        rw [hout] at this
        exact this
      · simp only [hz, Bool.false_eq_true, ↓reduceIte, Option.some.injEq] at hu
        have hd : (out.addr == "$") = false := by
          cases hdd : (out.addr == "$") with
          | false => rfl
          | true => simp [hdd] at hz
        simp only [hd, Bool.false_eq_true, ↓reduceIte]
        rw [← hu]
    · rename_i hout
      have := hf a o u hu
      unfold declFrozen at this
      rw [hout] at this
      rw [hout]
      exact this
  · have hk : (a, o).1 ≠ (e.tx i).id := by rw [w.id]; exact hai
    rw [applyTx_lookup_otherid s (e.tx i) _ hk] at hu
    split at hu
    · cases hu
    · exact hf a o u hu

theorem payFee_FrozenInv (e : Env) (s : St) (i : Nat) (prop : String) (hidi : (e.tx i).id = i)
    (hf : FrozenInv e s) : FrozenInv e (payFee (e.tx i) prop (e.tx i).outs 0 s) := by
  intro a o u hu
  by_cases hai : a = i
  · subst hai
    have := payFee_lookup_idx0 (e.tx a) prop s o
    rw [hidi] at this
    rw [this] at hu
    unfold declFrozen
    split at hu
    · rename_i out hout
      rw [hout]
      by_cases hd : (out.addr == "$") = true
      · simp only [hd, ↓reduceIte, Option.some.injEq] at hu ⊢
        rw [← hu]
      · simp only [hd, Bool.false_eq_true, ↓reduceIte] at hu ⊢
        have := hf a o u hu
        unfold declFrozen at this
        rw [hout] at this
        simpa [hd] using this
    · rename_i hout
      have := hf a o u hu
      unfold declFrozen at this
      rw [hout] at this
      rw [hout]
      exact this
  · have hk : (a, o).1 ≠ (e.tx i).id := by rw [hidi]; exact hai
    rw [payFee_lookup_otherid _ _ _ _ _ _ hk] at hu
    exact hf a o u hu

theorem prun_FrozenInv (e : Env) (l : List POp) (X : St) (hwf : ∀ op ∈ l, WF e (opId op)) (hf : FrozenInv e X) :
    FrozenInv e (prun e l X) := by
  induction l generalizing X with
  | nil => exact hf
  | cons op rest ih =>
    rw [prun_cons]
    apply ih _ (fun p hp => hwf p (List.mem_cons_of_mem _ hp))
    have w := hwf op List.mem_cons_self
    cases op with
    | app j => exact applyTx_FrozenInv e X j w hf
    | fee j prop => exact payFee_FrozenInv e X j prop w.id hf

/-- what `citesFrozen` (Props/C01) says, from the invariant and the static condition -/
theorem citesFrozen_of_inv (e : Env) (s : St) (i : Nat) (hf : FrozenInv e s) (hs : StaticFrozen e i) :
    ∀ r ∈ (e.tx i).ins, ∀ u, lookup s.U (r.tx, r.off) = some u → u.frozen = r.frozen := by
  intro r hr u hu
  rw [hf r.tx r.off u hu, hs r hr]

-- ------------------------------------------------------------------ the pool, with its side conditions

/-- mirror of `PoolValid` (Props/C01): each pending transaction at its point of application is admitted, well-formed,
has no row under its id, and cites the frozen heights of the rows it spends -/
def PoolOK (e : Env) : List Nat → St → Prop
  | [], _ => True
  | i :: rest, s => (∃ lh, admitTx s lh (e.tx i) = .ok) ∧ WF e i ∧ (∀ o, lookup s.U (i, o) = none) ∧
      (∀ r ∈ (e.tx i).ins, ∀ u, lookup s.U (r.tx, r.off) = some u → u.frozen = r.frozen) ∧
      PoolOK e rest (applyTx s (e.tx i))

theorem PoolOK.valid {e : Env} {l : List Nat} {s : St} (h : PoolOK e l s) : pValid e (l.map POp.app) s := by
  induction l generalizing s with
  | nil => trivial
  | cons i rest ih => exact (pValid_cons e _ _ s).mpr ⟨h.1, ih h.2.2.2.2⟩

/-- a valid list of applications of distinct, well-formed transactions that have no row in the start state and cite
the declared frozen heights satisfies the side conditions of the pool -/
theorem poolOK_of_valid (e : Env) (l : List Nat) (s : St) (hv : pValid e (l.map POp.app) s) (hnd : l.Nodup)
    (hwf : ∀ i ∈ l, WF e i) (hfresh : ∀ i ∈ l, ∀ o, lookup s.U (i, o) = none) (hf : FrozenInv e s)
    (hsf : ∀ i ∈ l, StaticFrozen e i) : PoolOK e l s := by
  induction l generalizing s with
  | nil => trivial
  | cons i rest ih =>
    obtain ⟨h1, h2⟩ := (pValid_cons e _ _ s).mp hv
    simp only [List.nodup_cons] at hnd
    have wi := hwf i List.mem_cons_self
    refine ⟨h1, wi, hfresh i List.mem_cons_self, citesFrozen_of_inv e s i hf (hsf i List.mem_cons_self), ?_⟩
    apply ih (applyTx s (e.tx i)) h2 hnd.2 (fun j hj => hwf j (List.mem_cons_of_mem _ hj))
    · intro j hj o
      have hk : (j, o).1 ≠ (e.tx i).id := by
        rw [wi.id]; intro h; exact hnd.1 (h ▸ hj)
      rw [applyTx_lookup_otherid s (e.tx i) _ hk, hfresh j (List.mem_cons_of_mem _ hj) o]
      split <;> rfl
    · exact applyTx_FrozenInv e s i wi hf
    · exact fun j hj => hsf j (List.mem_cons_of_mem _ hj)

-- ------------------------------------------------------------------ list facts

/-- in a list without repetitions two elements stand in one order only -/
theorem nodup_pair_order {α : Type} (l : List α) (x y : α) (hnd : l.Nodup) (h1 : [x, y].Sublist l)
    (h2 : [y, x].Sublist l) : False := by
  induction l with
  | nil => cases h1
  | cons z rest ih =>
    simp only [List.nodup_cons] at hnd
    cases h1 with
    | cons _ h1' =>
      cases h2 with
      | cons _ h2' => exact ih hnd.2 h1' h2'
      | cons_cons _ h2' =>
        -- z = y, and y occurs in rest through h1'
        have : y ∈ rest := h1'.subset (by simp)
        exact hnd.1 this
    | cons_cons _ h1' =>
      cases h2 with
      | cons _ h2' =>
        have : x ∈ rest := h2'.subset (by simp)
        exact hnd.1 this
      | cons_cons _ h2' =>
        have : x ∈ rest := List.singleton_sublist.mp h2'
        exact hnd.1 this

theorem skipOps_congr (prop : String) (f g : Nat → Bool) (l : List Nat) (h : ∀ i ∈ l, f i = g i) :
    skipOps prop f l = skipOps prop g l := by
  induction l with
  | nil => rfl
  | cons i rest ih =>
    rw [skipOps_cons, skipOps_cons, h i List.mem_cons_self, ih (fun j hj => h j (List.mem_cons_of_mem _ hj))]

theorem opId_blockOps (prop : String) (l : List Nat) : ∀ op ∈ blockOps prop l, opId op ∈ l := by
  intro op hop
  unfold blockOps at hop
  obtain ⟨i, hi, hop⟩ := List.mem_flatMap.mp hop
  simp only [List.mem_cons, List.not_mem_nil, or_false] at hop
  rcases hop with rfl | rfl <;> exact hi

theorem app_mem_blockOps (prop : String) (l : List Nat) (w : Nat) (h : POp.app w ∈ blockOps prop l) : w ∈ l :=
  opId_blockOps prop l _ h

theorem blockOps_append (prop : String) (l1 l2 : List Nat) :
    blockOps prop (l1 ++ l2) = blockOps prop l1 ++ blockOps prop l2 := by
  unfold blockOps; rw [List.flatMap_append]

end XV.Chain
