/-!
Generic list lemmas (core library only) used by the history-level invariants: sums over duplicate-free lists depend only
on membership; `eraseDups` keeps the length exactly when there are no duplicates.
-/
namespace XV.InvList

theorem sum_filter_ne (f : Nat → Int) (l : List Nat) (a : Nat) (hnd : l.Nodup) (ha : a ∈ l) :
    (l.map f).sum = f a + ((l.filter (fun x => x != a)).map f).sum := by
  induction l with
  | nil => cases ha
  | cons x r ih =>
    simp only [List.nodup_cons] at hnd
    simp only [List.map_cons, List.sum_cons, List.filter_cons]
    by_cases hx : x = a
    · subst hx
      have hall : r.filter (fun y => y != x) = r := by
        apply List.filter_eq_self.mpr
        intro y hy
        simp only [bne_iff_ne, ne_eq]
        intro e; exact hnd.1 (e ▸ hy)
      simp [hall]
    · have har : a ∈ r := by
        rcases List.mem_cons.mp ha with h | h
        · exact absurd h.symm hx
        · exact h
      have hb : (x != a) = true := by simpa using hx
      simp only [hb, ↓reduceIte, List.map_cons, List.sum_cons]
      rw [ih hnd.2 har]; omega

/-- the sum over a duplicate-free list depends only on the set of its members -/
theorem sum_eq_of_same_mem (f : Nat → Int) (l1 l2 : List Nat) (h1 : l1.Nodup) (h2 : l2.Nodup)
    (hm : ∀ x, x ∈ l1 ↔ x ∈ l2) : (l1.map f).sum = (l2.map f).sum := by
  induction l1 generalizing l2 with
  | nil =>
    have : l2 = [] := by
      cases l2 with
      | nil => rfl
      | cons y r => exact absurd ((hm y).mpr List.mem_cons_self) (by simp)
    subst this; rfl
  | cons a r ih =>
    simp only [List.nodup_cons] at h1
    have ha2 : a ∈ l2 := (hm a).mp List.mem_cons_self
    rw [sum_filter_ne f l2 a h2 ha2]
    simp only [List.map_cons, List.sum_cons]
    rw [ih (l2.filter (fun x => x != a)) h1.2 (List.Nodup.sublist List.filter_sublist h2)]
    intro x
    simp only [List.mem_filter, bne_iff_ne, ne_eq]
    constructor
    · intro hx
      exact ⟨(hm x).mp (List.mem_cons_of_mem _ hx), fun e => h1.1 (e ▸ hx)⟩
    · intro ⟨hx, hne⟩
      rcases List.mem_cons.mp ((hm x).mpr hx) with h | h
      · exact absurd h hne
      · exact h

theorem sum_filter_split (f : Nat → Int) (l : List Nat) (p : Nat → Bool) :
    (l.map f).sum = ((l.filter p).map f).sum + ((l.filter (fun x => !p x)).map f).sum := by
  induction l with
  | nil => rfl
  | cons x r ih =>
    simp only [List.map_cons, List.sum_cons, List.filter_cons]
    cases hp : p x
    · simp only [Bool.false_eq_true, ↓reduceIte, Bool.not_false, List.map_cons, List.sum_cons]; omega
    · simp only [↓reduceIte, Bool.not_true, Bool.false_eq_true, List.map_cons, List.sum_cons]; omega

theorem eraseDups_length_le {α : Type} [BEq α] (l : List α) : l.eraseDups.length ≤ l.length := by
  generalize hn : l.length = n
  induction n using Nat.strongRecOn generalizing l with
  | _ n ih =>
    cases l with
    | nil => simp
    | cons a r =>
      rw [List.eraseDups_cons]
      simp only [List.length_cons] at hn ⊢
      have h1 := List.length_filter_le (fun b => !b == a) r
      have := ih (r.filter (fun b => !b == a)).length (by omega) _ rfl
      omega

/-- `eraseDups` keeps the length only if there was no duplicate -/
theorem nodup_of_eraseDups_length {α : Type} [BEq α] [LawfulBEq α] (l : List α)
    (h : l.eraseDups.length = l.length) : l.Nodup := by
  induction l with
  | nil => exact List.nodup_nil
  | cons a r ih =>
    rw [List.eraseDups_cons] at h
    simp only [List.length_cons, Nat.add_right_cancel_iff] at h
    have h1 := List.length_filter_le (fun b => !b == a) r
    have h2 := eraseDups_length_le (r.filter (fun b => !b == a))
    have hlen : (r.filter (fun b => !b == a)).length = r.length := by omega
    have hall : r.filter (fun b => !b == a) = r := by
      apply List.filter_eq_self.mpr
      intro y hy
      cases hya : (!y == a)
      · exfalso
        -- a strict drop in length
        have : (r.filter (fun b => !b == a)).length < r.length := by
          clear h h2 hlen ih h1
          induction r with
          | nil => cases hy
          | cons z t iht =>
            simp only [List.filter_cons, List.length_cons]
            rcases List.mem_cons.mp hy with rfl | hy'
            · simp only [hya, Bool.false_eq_true, ↓reduceIte]
              have := List.length_filter_le (fun b => !b == a) t
              omega
            · have := iht hy'
              split
              · simp only [List.length_cons]; omega
              · omega
        omega
      · rfl
    rw [hall] at h
    simp only [List.nodup_cons]
    refine ⟨?_, ih h⟩
    intro ha
    have := (List.filter_eq_self.mp hall) a ha
    simp at this

end XV.InvList
