import XV.Props.C03
import XV.Lemmas.UndoKeys
import XV.Lemmas.UndoObs
/-!
The *key ledger* invariant `LedK`: the key tables (ZU live rows, ZD delete markers) are completely explained by a
log `A` of applied transactions (confirmed ones, then the pool). It is the key-version sibling of `Led`
(`XV.Lemmas.InvLedger`, token rows) over the same ghost log:

* every current version was written by a logged transaction (`curLogged`), every version a logged transaction read was
  written by a logged transaction (`readLogged`), nobody read a version written later (`orderK`, `noSelfK`);
* every version written by a logged transaction is current or was superseded by a logged transaction (`written`);
* a version superseded by a logged transaction is not current (`versGone`);
* **no two logged transactions supersede the same version of a key** (`disjointK`);
* every delete marker was written by a logged transaction (`markers`).

As for `Led`, hash-causality (the id of an admitted transaction is cited by nobody, it does not cite itself) is a
*consequence* here. Three steps: a transaction is applied at the end of the log (`LedK_add`), the log is reordered
(`LedK_reorder`: a pending transaction is confirmed), a logged transaction whose versions nobody read is undone
(`LedK_undo`). The only place where `undoKOut` reads the raw marker table (`UndoSafe`) is discharged from the
invariant: when the first writer of a key is undone no marker of that key is left (`LedK.undoSafe`).
-/
namespace XV.Chain
open XV.C03 (supersedes)

-- ---------------------------------------------------------------- what apply / undo do to one key

theorem applyTx_curVer_idx (s : St) (t : Tx) (hnd : (t.kout.map (·.key)).Nodup) (i : Nat) (ko : KOut)
    (hi : t.kout[i]? = some ko) : curVer (applyTx s t) ko.key = some (t.id, i) := by
  obtain ⟨a1, a2⟩ := applyKOut_written t t.kout 0 s i ko hnd hi
  unfold curVer
  rw [applyTx_ZU, applyTx_ZD, a1, a2]
  by_cases hd : ko.del = true <;> simp [hd]

theorem applyTx_ZD_idx (s : St) (t : Tx) (hnd : (t.kout.map (·.key)).Nodup) (i : Nat) (ko : KOut)
    (hi : t.kout[i]? = some ko) :
    lookup (applyTx s t).ZD ko.key = if ko.del then some (t.id, i) else lookup s.ZD ko.key := by
  obtain ⟨_, a2⟩ := applyKOut_written t t.kout 0 s i ko hnd hi
  rw [applyTx_ZD, a2]
  simp

theorem applyTx_ZD_other (s : St) (t : Tx) (k : String) (hk : ∀ ko ∈ t.kout, ko.key ≠ k) :
    lookup (applyTx s t).ZD k = lookup s.ZD k := by
  rw [applyTx_ZD]
  apply (applyKOut_other t t.kout 0 s k _).2
  intro hm
  obtain ⟨ko, hko, he⟩ := List.mem_map.mp hm
  exact hk ko hko he

/-- current version of a written key after `undoTx`: the version the transaction cites, provided the one raw read of
the marker table is harmless -/
theorem undoTx_curVer_cited (e : Env) (s : St) (t : Tx) (hnd : (t.kout.map (·.key)).Nodup) (ko : KOut)
    (hko : ko ∈ t.kout) (hsafe : citedVer t ko.key = none → ko.del = false → lookup s.ZD ko.key = none) :
    curVer (undoTx e s t) ko.key = citedVer t ko.key := by
  rw [undoTx_curVer_written e s t hnd ko hko]
  cases hc : citedVer t ko.key with
  | none =>
    by_cases hd : ko.del = true
    · simp [undoZU, undoZD, hd]
    · have hd' : ko.del = false := by simpa using hd
      simp [undoZU, undoZD, hd', hsafe hc hd']
  | some pv =>
    by_cases hm : verIsDel e pv = true
    · simp [undoZU, undoZD, hm]
    · simp [undoZU, hm]

theorem undoTx_ZD_written (e : Env) (s : St) (t : Tx) (hnd : (t.kout.map (·.key)).Nodup) (ko : KOut)
    (hko : ko ∈ t.kout) :
    lookup (undoTx e s t).ZD ko.key = undoZD e (citedVer t ko.key) ko.del (lookup s.ZD ko.key) := by
  rw [undoTx_ZD]
  exact (undoKOut_written e t t.kout s ko hnd hko).2

theorem undoTx_ZD_other (e : Env) (s : St) (t : Tx) (k : String) (hk : k ∉ t.kout.map (·.key)) :
    lookup (undoTx e s t).ZD k = lookup s.ZD k := by
  rw [undoTx_ZD]
  exact (undoKOut_other e t t.kout s k hk).2

-- ---------------------------------------------------------------- read / write sets

theorem citedVer_some_mem (t : Tx) (k : String) (v : Ver) (h : citedVer t k = some v) :
    ∃ ki ∈ t.kin, ki.key = k ∧ ki.ver = some v := by
  unfold citedVer at h
  cases hf : t.kin.find? (fun ki => ki.key == k) with
  | none => simp [hf] at h
  | some k1 =>
    simp only [hf, Option.bind_some] at h
    exact ⟨k1, List.mem_of_find?_eq_some hf, by simpa using List.find?_some hf, h⟩

/-- when every read is current, every read entry of a key cites the version the first entry of that key cites -/
theorem readsAgree_of_current (s : St) (t : Tx) (hread : ∀ ki ∈ t.kin, curVer s ki.key = ki.ver) :
    ∀ ki ∈ t.kin, ki.ver = citedVer t ki.key := by
  intro ki hki
  unfold citedVer
  cases hf : t.kin.find? (fun k' => k'.key == ki.key) with
  | none =>
    have := List.find?_eq_none.mp hf ki hki
    simp at this
  | some k1 =>
    have h1 : k1.key = ki.key := by simpa using List.find?_some hf
    have h2 := hread k1 (List.mem_of_find?_eq_some hf)
    simp only [Option.bind_some]
    rw [← h2, h1, hread ki hki]

/-- static well-formedness of the declared read / write set of a transaction: one write per key, every written key
was read, all read entries of one key cite the same version -/
structure KWf (t : Tx) : Prop where
  koutNodup : (t.kout.map (·.key)).Nodup
  writtenRead : ∀ ko ∈ t.kout, ∃ ki ∈ t.kin, ki.key = ko.key
  readsAgree : ∀ ki ∈ t.kin, ki.ver = citedVer t ki.key

theorem KWf.of_current (s : St) (t : Tx) (hnd : (t.kout.map (·.key)).Nodup)
    (hread : ∀ ki ∈ t.kin, curVer s ki.key = ki.ver) (hwr : ∀ ko ∈ t.kout, ∃ ki ∈ t.kin, ki.key = ko.key) : KWf t :=
  ⟨hnd, hwr, readsAgree_of_current s t hread⟩

/-- for a well-formed transaction "supersedes version `v` of `k`" is "writes `k` and cites `v` for it" -/
theorem supersedes_iff (t : Tx) (hw : KWf t) (k : String) (v : Option Ver) :
    supersedes t k v ↔ (∃ ko ∈ t.kout, ko.key = k) ∧ citedVer t k = v := by
  constructor
  · intro ⟨h1, ki, hki, hkk, hkv⟩
    refine ⟨h1, ?_⟩
    rw [← hkv, ← hkk]
    exact (hw.readsAgree ki hki).symm
  · intro ⟨h1, h2⟩
    refine ⟨h1, ?_⟩
    obtain ⟨ko, hko, hk⟩ := h1
    obtain ⟨ki, hki, hkk⟩ := hw.writtenRead ko hko
    refine ⟨ki, hki, hkk.trans hk, ?_⟩
    rw [hw.readsAgree ki hki, hkk, hk]
    exact h2

theorem kout_idx_unique (l : List KOut) (hnd : (l.map (·.key)).Nodup) (i j : Nat) (a b : KOut)
    (hi : l[i]? = some a) (hj : l[j]? = some b) (hk : a.key = b.key) : i = j := by
  induction l generalizing i j with
  | nil => simp at hi
  | cons x rest ih =>
    simp only [List.map_cons, List.nodup_cons] at hnd
    cases i with
    | zero =>
      cases j with
      | zero => rfl
      | succ j' =>
        simp only [List.getElem?_cons_zero, Option.some.injEq] at hi
        simp only [List.getElem?_cons_succ] at hj
        exfalso
        apply hnd.1
        rw [hi, hk]
        exact List.mem_map.mpr ⟨b, List.mem_of_getElem? hj, rfl⟩
    | succ i' =>
      cases j with
      | zero =>
        simp only [List.getElem?_cons_zero, Option.some.injEq] at hj
        simp only [List.getElem?_cons_succ] at hi
        exfalso
        apply hnd.1
        rw [hj, ← hk]
        exact List.mem_map.mpr ⟨a, List.mem_of_getElem? hi, rfl⟩
      | succ j' =>
        simp only [List.getElem?_cons_succ] at hi hj
        rw [ih hnd.2 i' j' hi hj]

theorem kout_unique (l : List KOut) (hnd : (l.map (·.key)).Nodup) (a b : KOut) (ha : a ∈ l) (hb : b ∈ l)
    (hk : a.key = b.key) : a = b := by
  obtain ⟨i, hi⟩ := List.mem_iff_getElem?.mp ha
  obtain ⟨j, hj⟩ := List.mem_iff_getElem?.mp hb
  have := kout_idx_unique l hnd i j a b hi hj hk
  rw [this, hj] at hi
  exact (Option.some.inj hi).symm

-- ---------------------------------------------------------------- the invariant

/-- version `v` is a write of key `k` -/
def wrOf (e : Env) (v : Ver) (k : String) : Prop := ∃ ko, (e.tx v.1).kout[v.2]? = some ko ∧ ko.key = k

/-- `a` read a key version written by `b` -/
def citesK (e : Env) (a b : Nat) : Prop := ∃ ki ∈ (e.tx a).kin, ∃ v, ki.ver = some v ∧ v.1 = b

/-- `citesK` on the list of writers of the versions read (the key half of `refTxs`); makes it decidable -/
theorem citesK_iff (e : Env) (a b : Nat) :
    citesK e a b ↔ b ∈ (e.tx a).kin.filterMap (fun ki => ki.ver.map (fun v => v.1)) := by
  unfold citesK
  rw [List.mem_filterMap]
  constructor
  · intro ⟨ki, hki, v, hv, hvb⟩
    exact ⟨ki, hki, by rw [hv]; simp [hvb]⟩
  · intro ⟨ki, hki, hm⟩
    cases hv : ki.ver with
    | none => simp [hv] at hm
    | some v =>
      simp only [hv, Option.map_some, Option.some.injEq] at hm
      exact ⟨ki, hki, v, hv, hm⟩

instance (e : Env) (a b : Nat) : Decidable (citesK e a b) := decidable_of_iff _ (citesK_iff e a b).symm

structure LedK (e : Env) (s : St) (A : List Nat) : Prop where
  nodupA : A.Nodup
  idEq : ∀ i ∈ A, (e.tx i).id = i
  wf : ∀ i ∈ A, KWf (e.tx i)
  /-- nobody read a version written by a later transaction -/
  orderK : A.Pairwise (fun a b => ¬ citesK e a b)
  noSelfK : ∀ i ∈ A, ¬ citesK e i i
  /-- every version a logged transaction read was written by a logged transaction -/
  readLogged : ∀ j ∈ A, ∀ ki ∈ (e.tx j).kin, ∀ v, ki.ver = some v → v.1 ∈ A ∧ wrOf e v ki.key
  /-- every current version was written by a logged transaction -/
  curLogged : ∀ k v, curVer s k = some v → v.1 ∈ A ∧ wrOf e v k
  /-- every version written by a logged transaction is current or was superseded by a logged transaction -/
  written : ∀ i ∈ A, ∀ off k, wrOf e (i, off) k →
    curVer s k = some (i, off) ∨ ∃ j ∈ A, supersedes (e.tx j) k (some (i, off))
  /-- a superseded version is not current -/
  versGone : ∀ i ∈ A, ∀ k v, supersedes (e.tx i) k v → curVer s k ≠ v
  /-- **no two logged transactions supersede the same version of a key** -/
  disjointK : ∀ i ∈ A, ∀ j ∈ A, i ≠ j → ∀ k v, supersedes (e.tx i) k v → ¬ supersedes (e.tx j) k v
  /-- every delete marker was written by a logged transaction -/
  markers : ∀ k m, lookup s.ZD k = some m →
    m.1 ∈ A ∧ ∃ ko, (e.tx m.1).kout[m.2]? = some ko ∧ ko.key = k ∧ ko.del = true

theorem LedK_empty (e : Env) (s : St) (h1 : s.ZU = []) (h2 : s.ZD = []) : LedK e s [] := by
  have hc : ∀ k, curVer s k = none := by intro k; simp [curVer, h1, h2]
  refine ⟨List.nodup_nil, ?_, ?_, List.Pairwise.nil, ?_, ?_, ?_, ?_, ?_, ?_, ?_⟩
  · intro i hi; cases hi
  · intro i hi; cases hi
  · intro i hi; cases hi
  · intro i hi; cases hi
  · intro k v hv; rw [hc k] at hv; cases hv
  · intro i hi; cases hi
  · intro i hi; cases hi
  · intro i hi; cases hi
  · intro k m hm; simp [h2] at hm

/-- the invariant only looks at the two key tables -/
theorem LedK.congr {e : Env} {s s' : St} {A : List Nat} (h : LedK e s A) (h1 : s'.ZU = s.ZU) (h2 : s'.ZD = s.ZD) :
    LedK e s' A := by
  have hc : ∀ k, curVer s' k = curVer s k := fun k => curVer_congr_tables _ _ _ (by rw [h1]) (by rw [h2])
  refine ⟨h.nodupA, h.idEq, h.wf, h.orderK, h.noSelfK, h.readLogged, ?_, ?_, ?_, h.disjointK, ?_⟩
  · intro k v hv; rw [hc] at hv; exact h.curLogged k v hv
  · intro i hi off k hw; rw [hc]; exact h.written i hi off k hw
  · intro i hi k v hs; rw [hc]; exact h.versGone i hi k v hs
  · intro k m hm; rw [h2] at hm; exact h.markers k m hm

/-- **the log is reordered** (same members, the new order still has no read of a later write) -/
theorem LedK_reorder (e : Env) (s : St) (A A' : List Nat) (h : LedK e s A) (hmem : ∀ x, x ∈ A' ↔ x ∈ A)
    (hnd : A'.Nodup) (hord : A'.Pairwise (fun a b => ¬ citesK e a b)) : LedK e s A' := by
  refine ⟨hnd, ?_, ?_, hord, ?_, ?_, ?_, ?_, ?_, ?_, ?_⟩
  · intro i hi; exact h.idEq i ((hmem i).mp hi)
  · intro i hi; exact h.wf i ((hmem i).mp hi)
  · intro i hi; exact h.noSelfK i ((hmem i).mp hi)
  · intro j hj ki hki v hv
    obtain ⟨a, b⟩ := h.readLogged j ((hmem j).mp hj) ki hki v hv
    exact ⟨(hmem _).mpr a, b⟩
  · intro k v hv
    obtain ⟨a, b⟩ := h.curLogged k v hv
    exact ⟨(hmem _).mpr a, b⟩
  · intro i hi off k hw
    rcases h.written i ((hmem i).mp hi) off k hw with hc | ⟨j, hj, hs⟩
    · exact Or.inl hc
    · exact Or.inr ⟨j, (hmem j).mpr hj, hs⟩
  · intro i hi; exact h.versGone i ((hmem i).mp hi)
  · intro i hi j hj; exact h.disjointK i ((hmem i).mp hi) j ((hmem j).mp hj)
  · intro k m hm
    obtain ⟨a, b⟩ := h.markers k m hm
    exact ⟨(hmem _).mpr a, b⟩

/-- nobody logged read a version written by a transaction that is not logged -/
theorem LedK.notCited {e : Env} {s : St} {A : List Nat} (h : LedK e s A) (x : Nat) (hx : x ∉ A) :
    ∀ j ∈ A, ¬ citesK e j x := by
  intro j hj ⟨ki, hki, v, hv, hvx⟩
  exact hx (hvx ▸ (h.readLogged j hj ki hki v hv).1)

-- ---------------------------------------------------------------- a transaction is applied

/-- **an admitted transaction is applied at the end of the log**: `x` is not logged, `e.tx x` has id `x`, one write per
key, every read is current and every written key was read (admission). That nobody cites `x` and that `x` does not cite
itself follow from the invariant. -/
theorem LedK_add (e : Env) (s : St) (A : List Nat) (x : Nat) (h : LedK e s A) (hx : x ∉ A)
    (hid : (e.tx x).id = x) (hnd : ((e.tx x).kout.map (·.key)).Nodup)
    (hread : ∀ ki ∈ (e.tx x).kin, curVer s ki.key = ki.ver)
    (hwr : ∀ ko ∈ (e.tx x).kout, ∃ ki ∈ (e.tx x).kin, ki.key = ko.key) :
    LedK e (applyTx s (e.tx x)) (A ++ [x]) := by
  have hwf : KWf (e.tx x) := KWf.of_current s (e.tx x) hnd hread hwr
  have hmem : ∀ y, y ∈ A ++ [x] ↔ y ∈ A ∨ y = x := by
    intro y; simp only [List.mem_append, List.mem_cons, List.not_mem_nil, or_false]
  have hncx := h.notCited x hx
  have hselfx : ¬ citesK e x x := by
    intro ⟨ki, hki, v, hv, hvx⟩
    have := hread ki hki
    rw [hv] at this
    exact hx (hvx ▸ (h.curLogged ki.key v this).1)
  -- the current version of every key afterwards
  have hother : ∀ k, (∀ ko ∈ (e.tx x).kout, ko.key ≠ k) → curVer (applyTx s (e.tx x)) k = curVer s k :=
    fun k hk => applyTx_curVer_other s (e.tx x) k hk
  have hidx : ∀ i ko, (e.tx x).kout[i]? = some ko → curVer (applyTx s (e.tx x)) ko.key = some (x, i) := by
    intro i ko hi
    have := applyTx_curVer_idx s (e.tx x) hnd i ko hi
    rw [hid] at this
    exact this
  have hsupx : ∀ k v, supersedes (e.tx x) k v → v = curVer s k := by
    intro k v ⟨_, ki, hki, hkk, hkv⟩
    rw [← hkv, ← hkk]
    exact (hread ki hki).symm
  refine ⟨?_, ?_, ?_, ?_, ?_, ?_, ?_, ?_, ?_, ?_, ?_⟩
  · apply List.nodup_append.mpr
    refine ⟨h.nodupA, by simp, ?_⟩
    intro a ha b hb
    simp only [List.mem_cons, List.not_mem_nil, or_false] at hb
    rw [hb]; intro e2; exact hx (e2 ▸ ha)
  · intro i hi
    rcases (hmem i).mp hi with hi | hi
    · exact h.idEq i hi
    · rw [hi]; exact hid
  · intro i hi
    rcases (hmem i).mp hi with hi | hi
    · exact h.wf i hi
    · rw [hi]; exact hwf
  · apply List.pairwise_append.mpr
    refine ⟨h.orderK, by simp, ?_⟩
    intro a ha b hb
    simp only [List.mem_cons, List.not_mem_nil, or_false] at hb
    rw [hb]; exact hncx a ha
  · intro i hi
    rcases (hmem i).mp hi with hi | hi
    · exact h.noSelfK i hi
    · rw [hi]; exact hselfx
  · -- readLogged
    intro j hj ki hki v hv
    rcases (hmem j).mp hj with hj | hj
    · obtain ⟨a, b⟩ := h.readLogged j hj ki hki v hv
      exact ⟨(hmem _).mpr (Or.inl a), b⟩
    · rw [hj] at hki
      have := hread ki hki
      rw [hv] at this
      obtain ⟨a, b⟩ := h.curLogged ki.key v this
      exact ⟨(hmem _).mpr (Or.inl a), b⟩
  · -- curLogged
    intro k v hv
    by_cases hk : ∃ ko ∈ (e.tx x).kout, ko.key = k
    · obtain ⟨ko, hko, hkk⟩ := hk
      obtain ⟨i, hi⟩ := List.mem_iff_getElem?.mp hko
      have := hidx i ko hi
      rw [hkk, hv] at this
      have hvx : v = (x, i) := Option.some.inj this
      rw [hvx]
      exact ⟨(hmem _).mpr (Or.inr rfl), ko, hi, hkk⟩
    · rw [hother k (fun ko hko he => hk ⟨ko, hko, he⟩)] at hv
      obtain ⟨a, b⟩ := h.curLogged k v hv
      exact ⟨(hmem _).mpr (Or.inl a), b⟩
  · -- written
    intro i hi off k hw
    rcases (hmem i).mp hi with hiA | hix
    · rcases h.written i hiA off k hw with hc | ⟨j, hj, hs⟩
      · by_cases hk : ∃ ko ∈ (e.tx x).kout, ko.key = k
        · right
          refine ⟨x, (hmem _).mpr (Or.inr rfl), hk, ?_⟩
          obtain ⟨ko, hko, hkk⟩ := hk
          obtain ⟨ki, hki, hkik⟩ := hwr ko hko
          refine ⟨ki, hki, hkik.trans hkk, ?_⟩
          rw [← hread ki hki, hkik, hkk, hc]
        · left
          rw [hother k (fun ko hko he => hk ⟨ko, hko, he⟩)]
          exact hc
      · exact Or.inr ⟨j, (hmem _).mpr (Or.inl hj), hs⟩
    · left
      rw [hix] at hw
      obtain ⟨ko, hko, hkk⟩ := hw
      have := hidx off ko hko
      rw [hkk] at this
      rw [hix]
      exact this
  · -- versGone
    intro i hi k v hs
    rcases (hmem i).mp hi with hiA | hix
    · by_cases hk : ∃ ko ∈ (e.tx x).kout, ko.key = k
      · obtain ⟨ko, hko, hkk⟩ := hk
        obtain ⟨o, ho⟩ := List.mem_iff_getElem?.mp hko
        have hc := hidx o ko ho
        rw [hkk] at hc
        rw [hc]
        intro hv
        obtain ⟨_, ki, hki, _, hkv⟩ := hs
        exact hncx i hiA ⟨ki, hki, (x, o), by rw [hkv, ← hv], rfl⟩
      · rw [hother k (fun ko hko he => hk ⟨ko, hko, he⟩)]
        exact h.versGone i hiA k v hs
    · rw [hix] at hs
      have hv := hsupx k v hs
      obtain ⟨ko, hko, hkk⟩ := hs.1
      obtain ⟨o, ho⟩ := List.mem_iff_getElem?.mp hko
      have hc := hidx o ko ho
      rw [hkk] at hc
      rw [hc, hv]
      intro he
      exact hx (h.curLogged k (x, o) he.symm).1
  · -- disjointK
    intro i hi j hj hij k v hsi hsj
    rcases (hmem i).mp hi with hiA | hix
    · rcases (hmem j).mp hj with hjA | hjx
      · exact h.disjointK i hiA j hjA hij k v hsi hsj
      · rw [hjx] at hsj
        exact h.versGone i hiA k v hsi (hsupx k v hsj).symm
    · rcases (hmem j).mp hj with hjA | hjx
      · rw [hix] at hsi
        exact h.versGone j hjA k v hsj (hsupx k v hsi).symm
      · exact hij (hix.trans hjx.symm)
  · -- markers
    intro k m hm
    by_cases hk : ∃ ko ∈ (e.tx x).kout, ko.key = k
    · obtain ⟨ko, hko, hkk⟩ := hk
      obtain ⟨o, ho⟩ := List.mem_iff_getElem?.mp hko
      have hz := applyTx_ZD_idx s (e.tx x) hnd o ko ho
      rw [hkk, hid] at hz
      rw [hz] at hm
      by_cases hd : ko.del = true
      · simp only [hd, ↓reduceIte, Option.some.injEq] at hm
        rw [← hm]
        exact ⟨(hmem _).mpr (Or.inr rfl), ko, ho, hkk, hd⟩
      · simp only [hd, Bool.false_eq_true, ↓reduceIte] at hm
        obtain ⟨a, b⟩ := h.markers k m hm
        exact ⟨(hmem _).mpr (Or.inl a), b⟩
    · rw [applyTx_ZD_other s (e.tx x) k (fun ko hko he => hk ⟨ko, hko, he⟩)] at hm
      obtain ⟨a, b⟩ := h.markers k m hm
      exact ⟨(hmem _).mpr (Or.inl a), b⟩

-- ---------------------------------------------------------------- a transaction is undone

/-- the versions written by a logged transaction that nobody read are all current -/
theorem LedK.current_of_uncited {e : Env} {s : St} {A : List Nat} (h : LedK e s A) (t : Nat) (ht : t ∈ A)
    (hnc : ∀ j ∈ A, ¬ citesK e j t) : ∀ off k, wrOf e (t, off) k → curVer s k = some (t, off) := by
  intro off k hw
  rcases h.written t ht off k hw with hc | ⟨j, hj, _, ki, hki, _, hkv⟩
  · exact hc
  · exact absurd ⟨ki, hki, (t, off), hkv, rfl⟩ (hnc j hj)

/-- when the current version of `k` was written by a transaction that cites `k` as never written, no other logged
transaction writes `k`: every other writer would have a chain of superseding logged writers ending at the current
version, whose writer read "never written" -/
theorem LedK.root_unique {e : Env} {s : St} {A : List Nat} (h : LedK e s A) (t : Nat) (k : String) (o : Nat)
    (hcur : curVer s k = some (t, o)) (hroot : citedVer (e.tx t) k = none) :
    ∀ j ∈ A, j ≠ t → ∀ oj, ¬ wrOf e (j, oj) k := by
  have key : ∀ suf pre, A = pre ++ suf → ∀ j ∈ suf, j ≠ t → ∀ oj, ¬ wrOf e (j, oj) k := by
    intro suf
    induction suf with
    | nil => intro _ _ j hj; cases hj
    | cons a rest ih =>
      intro pre hA j hj hjt oj hw
      have hrest := ih (pre ++ [a]) (by rw [hA, List.append_assoc]; rfl)
      rcases List.mem_cons.mp hj with hja | hjr
      · have haA : a ∈ A := by rw [hA]; simp
        rw [hja] at hw hjt
        rcases h.written a haA oj k hw with hc | ⟨j2, hj2, hs2⟩
        · rw [hcur] at hc
          injection hc with hc
          injection hc with hc1 _
          exact hjt hc1.symm
        · have hc2 := ((supersedes_iff (e.tx j2) (h.wf j2 hj2) k (some (a, oj))).mp hs2).2
          have hj2t : j2 ≠ t := by
            intro e2
            rw [e2, hroot] at hc2
            cases hc2
          obtain ⟨ko2, hko2, hkk2⟩ := hs2.1
          obtain ⟨o2, ho2⟩ := List.mem_iff_getElem?.mp hko2
          obtain ⟨_, ki, hki, _, hkv⟩ := hs2
          have hcite : citesK e j2 a := ⟨ki, hki, (a, oj), hkv, rfl⟩
          have hj2r : j2 ∈ rest := by
            rw [hA] at hj2
            rcases List.mem_append.mp hj2 with hp | hp
            · have hord := h.orderK
              rw [hA] at hord
              exact absurd hcite ((List.pairwise_append.mp hord).2.2 j2 hp a List.mem_cons_self)
            · rcases List.mem_cons.mp hp with hp | hp
              · rw [hp] at hcite
                exact absurd hcite (h.noSelfK a haA)
              · exact hp
          exact hrest j2 hj2r hj2t o2 ⟨ko2, ho2, hkk2⟩
      · exact hrest j hjr hjt oj hw
  exact key A [] rfl

/-- **the raw read of the marker table in `undoKOut` is harmless** for a logged transaction whose versions nobody read:
if it cites a key as never written and did not delete it, no marker of that key exists -/
theorem LedK.undoSafe {e : Env} {s : St} {A : List Nat} (h : LedK e s A) (t : Nat) (ht : t ∈ A)
    (hnc : ∀ j ∈ A, ¬ citesK e j t) : UndoSafe s (e.tx t) := by
  intro ko hko hc hd
  cases hz : lookup s.ZD ko.key with
  | none => rfl
  | some m =>
    exfalso
    obtain ⟨o, ho⟩ := List.mem_iff_getElem?.mp hko
    have hcur := h.current_of_uncited t ht hnc o ko.key ⟨ko, ho, rfl⟩
    obtain ⟨hmA, ko', hko', hkk', hd'⟩ := h.markers ko.key m hz
    by_cases hmt : m.1 = t
    · rw [hmt] at hko'
      have := kout_unique (e.tx t).kout (h.wf t ht).koutNodup ko' ko (List.mem_of_getElem? hko') hko hkk'
      rw [this, hd] at hd'
      cases hd'
    · exact h.root_unique t ko.key o hcur hc m.1 hmA hmt m.2 ⟨ko', hko', hkk'⟩

/-- **a logged transaction whose versions nobody read is undone** (pool eviction, pool roll-back, `undoBlock`) -/
theorem LedK_undo (e : Env) (s : St) (A : List Nat) (t : Nat) (h : LedK e s A) (ht : t ∈ A)
    (hnc : ∀ j ∈ A, ¬ citesK e j t) :
    LedK e (undoTx e s (e.tx t)) (A.filter (fun x => x != t)) := by
  have hwf := h.wf t ht
  have hnd := hwf.koutNodup
  have hmem : ∀ x, x ∈ A.filter (fun x => x != t) ↔ x ∈ A ∧ x ≠ t := by
    intro x; simp only [List.mem_filter, bne_iff_ne, ne_eq]
  have hcurT := h.current_of_uncited t ht hnc
  have hsafe := h.undoSafe t ht hnc
  have hwritten : ∀ k, (∃ ko ∈ (e.tx t).kout, ko.key = k) → ∃ o, wrOf e (t, o) k := by
    intro k ⟨ko, hko, hkk⟩
    obtain ⟨o, ho⟩ := List.mem_iff_getElem?.mp hko
    exact ⟨o, ko, ho, hkk⟩
  -- the current version of every key afterwards
  have hother : ∀ k, ¬ (∃ ko ∈ (e.tx t).kout, ko.key = k) →
      curVer (undoTx e s (e.tx t)) k = curVer s k ∧ lookup (undoTx e s (e.tx t)).ZD k = lookup s.ZD k := by
    intro k hk
    have hk' : k ∉ (e.tx t).kout.map (·.key) := by
      intro hm
      obtain ⟨ko, hko, he⟩ := List.mem_map.mp hm
      exact hk ⟨ko, hko, he⟩
    exact ⟨undoTx_curVer_other e s (e.tx t) k hk', undoTx_ZD_other e s (e.tx t) k hk'⟩
  have hback : ∀ ko ∈ (e.tx t).kout, curVer (undoTx e s (e.tx t)) ko.key = citedVer (e.tx t) ko.key :=
    fun ko hko => undoTx_curVer_cited e s (e.tx t) hnd ko hko (hsafe ko hko)
  have hnotT : ∀ k (v : Ver), wrOf e v k → ¬ (∃ ko ∈ (e.tx t).kout, ko.key = k) → v.1 ≠ t := by
    intro k v ⟨ko, hko, hkk⟩ hk e2
    rw [e2] at hko
    exact hk ⟨ko, List.mem_of_getElem? hko, hkk⟩
  refine ⟨List.Nodup.sublist List.filter_sublist h.nodupA, ?_, ?_,
    List.Pairwise.sublist List.filter_sublist h.orderK, ?_, ?_, ?_, ?_, ?_, ?_, ?_⟩
  · intro i hi; exact h.idEq i ((hmem i).mp hi).1
  · intro i hi; exact h.wf i ((hmem i).mp hi).1
  · intro i hi; exact h.noSelfK i ((hmem i).mp hi).1
  · -- readLogged
    intro j hj ki hki v hv
    obtain ⟨hjA, _⟩ := (hmem j).mp hj
    obtain ⟨a, b⟩ := h.readLogged j hjA ki hki v hv
    exact ⟨(hmem _).mpr ⟨a, fun e2 => hnc j hjA ⟨ki, hki, v, hv, e2⟩⟩, b⟩
  · -- curLogged
    intro k v hv
    by_cases hk : ∃ ko ∈ (e.tx t).kout, ko.key = k
    · obtain ⟨ko, hko, hkk⟩ := hk
      have := hback ko hko
      rw [hkk, hv] at this
      obtain ⟨ki, hki, hkik, hkv⟩ := citedVer_some_mem (e.tx t) k v this.symm
      obtain ⟨a, b⟩ := h.readLogged t ht ki hki v hkv
      rw [hkik] at b
      exact ⟨(hmem _).mpr ⟨a, fun e2 => h.noSelfK t ht ⟨ki, hki, v, hkv, e2⟩⟩, b⟩
    · rw [(hother k hk).1] at hv
      obtain ⟨a, b⟩ := h.curLogged k v hv
      exact ⟨(hmem _).mpr ⟨a, hnotT k v b hk⟩, b⟩
  · -- written
    intro i hi off k hw
    obtain ⟨hiA, hit⟩ := (hmem i).mp hi
    rcases h.written i hiA off k hw with hc | ⟨j, hj, hs⟩
    · left
      by_cases hk : ∃ ko ∈ (e.tx t).kout, ko.key = k
      · obtain ⟨o, ho⟩ := hwritten k hk
        have := hcurT o k ho
        rw [hc] at this
        injection this with this
        injection this with h1 _
        exact absurd h1 hit
      · rw [(hother k hk).1]; exact hc
    · by_cases hjt : j = t
      · left
        rw [hjt] at hs
        obtain ⟨hk, hcv⟩ := (supersedes_iff (e.tx t) hwf k (some (i, off))).mp hs
        obtain ⟨ko, hko, hkk⟩ := hk
        have := hback ko hko
        rw [hkk, hcv] at this
        exact this
      · exact Or.inr ⟨j, (hmem _).mpr ⟨hj, hjt⟩, hs⟩
  · -- versGone
    intro i hi k v hs
    obtain ⟨hiA, hit⟩ := (hmem i).mp hi
    by_cases hk : ∃ ko ∈ (e.tx t).kout, ko.key = k
    · obtain ⟨ko, hko, hkk⟩ := hk
      have hb := hback ko hko
      rw [hkk] at hb
      rw [hb]
      intro hv
      have hsT : supersedes (e.tx t) k (citedVer (e.tx t) k) :=
        (supersedes_iff (e.tx t) hwf k _).mpr ⟨⟨ko, hko, hkk⟩, rfl⟩
      rw [hv] at hsT
      exact h.disjointK t ht i hiA (fun e2 => hit e2.symm) k v hsT hs
    · rw [(hother k hk).1]; exact h.versGone i hiA k v hs
  · intro i hi j hj; exact h.disjointK i ((hmem i).mp hi).1 j ((hmem j).mp hj).1
  · -- markers
    intro k m hm
    by_cases hk : ∃ ko ∈ (e.tx t).kout, ko.key = k
    · obtain ⟨ko, hko, hkk⟩ := hk
      have hz := undoTx_ZD_written e s (e.tx t) hnd ko hko
      rw [hkk] at hz
      rw [hz] at hm
      -- a marker that was there before and stays is not one of `t`: the only write of `k` by `t` is `ko`, not a delete
      have hold : ko.del = false → lookup s.ZD k = some m →
          m.1 ∈ A.filter (fun x => x != t) ∧ ∃ ko', (e.tx m.1).kout[m.2]? = some ko' ∧ ko'.key = k ∧ ko'.del = true := by
        intro hd hz0
        obtain ⟨a, ko', hko', hkk', hd'⟩ := h.markers k m hz0
        refine ⟨(hmem _).mpr ⟨a, ?_⟩, ko', hko', hkk', hd'⟩
        intro e2
        rw [e2] at hko'
        have := kout_unique (e.tx t).kout hnd ko' ko (List.mem_of_getElem? hko') hko (hkk'.trans hkk.symm)
        rw [this, hd] at hd'
        cases hd'
      unfold undoZD at hm
      cases hc : citedVer (e.tx t) k with
      | none =>
        simp only [hc] at hm
        by_cases hd : ko.del = true
        · simp [hd] at hm
        · have hd' : ko.del = false := by simpa using hd
          simp only [hd', Bool.false_eq_true, ↓reduceIte] at hm
          exact hold hd' hm
      | some pv =>
        simp only [hc] at hm
        by_cases hv : verIsDel e pv = true
        · simp only [hv, ↓reduceIte, Option.some.injEq] at hm
          rw [← hm]
          obtain ⟨ki, hki, hkik, hkv⟩ := citedVer_some_mem (e.tx t) k pv hc
          obtain ⟨a, ko', hko', hkk'⟩ := h.readLogged t ht ki hki pv hkv
          refine ⟨(hmem _).mpr ⟨a, fun e2 => h.noSelfK t ht ⟨ki, hki, pv, hkv, e2⟩⟩, ko', hko', hkk'.trans hkik, ?_⟩
          unfold verIsDel at hv
          simpa [hko'] using hv
        · simp only [hv, Bool.false_eq_true, ↓reduceIte] at hm
          by_cases hd : ko.del = true
          · simp [hd] at hm
          · have hd' : ko.del = false := by simpa using hd
            simp only [hd', Bool.false_eq_true, ↓reduceIte] at hm
            exact hold hd' hm
    · rw [(hother k hk).2] at hm
      obtain ⟨a, ko', hko', hkk', hd'⟩ := h.markers k m hm
      exact ⟨(hmem _).mpr ⟨a, hnotT k m ⟨ko', hko', hkk'⟩ hk⟩, ko', hko', hkk', hd'⟩

end XV.Chain
