import XV.Lemmas.Repost
import XV.Lemmas.CrashWalk
/-!
Dying again during the restart leaves nothing new: the trace of the walk that resumes an interrupted walk consists of
elements of the trace of the interrupted walk.
-/
namespace XV.Crash
open XV.Chain XV.C01

theorem walkRepost_of_pool_nil (e : Env) (x : St) (lh : Int) (dest : Nat) (prune : Bool) (hp : x.pool = []) :
    walkRepost e x lh dest prune = [] := by
  unfold walkRepost
  simp only
  split
  · rw [repostList_of_pool_nil e x hp]; rfl
  · rfl

theorem mem_walkMid_of_undo (e : Env) (s : St) (lh : Int) (dest : Nat) (prune : Bool) (A B : List Nat) (x : St)
    (hsplit : (undoTodo e s.pointer dest).1 = A ++ B) (hne : A ≠ [])
    (hrun : walk.undoAll e prune A (rolledBack e s) = (x, true)) : x ∈ walkMid e s lh dest prune := by
  unfold walkMid
  simp only
  apply List.mem_cons_of_mem
  apply List.mem_append_left
  rw [hsplit]
  exact undoSteps_complete e prune A B _ x hne hrun

theorem mem_walkMid_of_todo (e : Env) (s : St) (lh : Int) (dest : Nat) (prune : Bool) (s1 : St) (A B : List Nat) (x : St)
    (hund : walk.undoAll e prune (undoTodo e s.pointer dest).1 (rolledBack e s) = (s1, true))
    (hsplit : (undoTodo e s.pointer dest).2 = A ++ B) (hne : A ≠ [])
    (hrun : walk.todoAll e lh A s1 = (x, true)) : x ∈ walkMid e s lh dest prune := by
  unfold walkMid
  simp only
  apply List.mem_cons_of_mem
  apply List.mem_append_right
  rw [hund]
  simp only [↓reduceIte]
  rw [hsplit]
  exact todoSteps_complete e lh A B _ x hne hrun

/-- **the crash states of a restart are crash states of the interrupted walk**: if the process dies again while the
walk from an intermediate state `x` of a walk resumes it (same destination, ledger height and prune flag), what is on
disk is again an intermediate state of the ORIGINAL walk — repeated crashes produce nothing new -/
theorem walkTrace_restart_closed (e : Env) (s : St) (lh : Int) (dest : Nat) (prune : Bool) (W : WalkTree e s.pointer dest)
    (x : St) (hx : x ∈ walkMid e s lh dest prune) (x' : St) (hx' : x' ∈ walkTrace e x lh dest prune) :
    x' ∈ walkMid e s lh dest prune := by
  obtain ⟨lca, r, _, _, hall⟩ := walkMid_position e s lh dest prune W
  obtain ⟨hpool, hpos⟩ := hall x hx
  unfold walkTrace at hx'
  rw [walkRepost_of_pool_nil e x lh dest prune hpool, List.append_nil] at hx'
  have hrb := rolledBack_of_pool_nil e x hpool
  rcases mem_walkMid e x lh dest prune x' hx' with h | ⟨A', B', hsplit', hne', hrun'⟩ |
      ⟨s1', A', B', hund', hsplit', hne', hrun'⟩
  · rw [h, hrb]; exact hx
  · rw [hrb] at hrun'
    cases hpos with
    | undo A B split run anc rest =>
      rw [rest] at hsplit'
      simp only at hsplit'
      apply mem_walkMid_of_undo e s lh dest prune (A ++ A') B' x'
      · rw [split, hsplit', List.append_assoc]
      · intro h; exact hne' (List.append_eq_nil_iff.mp h).2
      · rw [undoAll_append, run]
        simp only [↓reduceIte]
        exact hrun'
    | todo s1 A B undone split ne run anc rest =>
      rw [rest] at hsplit'
      simp only at hsplit'
      exact absurd (List.append_eq_nil_iff.mp hsplit'.symm).1 hne'
  · rw [hrb] at hund'
    cases hpos with
    | undo A B split run anc rest =>
      rw [rest] at hund' hsplit'
      simp only at hund' hsplit'
      apply mem_walkMid_of_todo e s lh dest prune s1' A' B' x' _ hsplit' hne' hrun'
      rw [split, undoAll_append, run]
      simp only [↓reduceIte]
      exact hund'
    | todo s1 A B undone split ne run anc rest =>
      rw [rest] at hund' hsplit'
      simp only at hund' hsplit'
      rw [undoAll_nil] at hund'
      cases hund'
      apply mem_walkMid_of_todo e s lh dest prune s1 (A ++ A') B' x' undone
      · rw [split, hsplit', List.append_assoc]
      · intro h; exact hne' (List.append_eq_nil_iff.mp h).2
      · rw [todoAll_append, run]
        simp only [↓reduceIte]
        exact hrun'

end XV.Crash
