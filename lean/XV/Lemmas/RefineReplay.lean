import XV.Lemmas.RefinePlay
import XV.Lemmas.StaleMember
/-!
When is a block that `play` accepts replayable on a fresh node? After the repair of `processUnconfirmTxs` (guard
`staleMember` of `play`): always (Props/C01: `accepted_block_replayable`; of the code as found it was false, see there).
Here: the hypothesis `H1` of `absorb` derived WITHOUT assuming that the block can be replayed — from the tests `play`
itself makes: `parentMissing`, `conflicts`, the admission of the new transactions on the node, and `staleMember` (a
pending member of the block read, of every key written earlier in the block, the last version written before it;
`hstale`). Then the replay of the block is valid (`play_replayable_form`).
Also: admission is monotone in the ledger height, so a valid list of block operations is a successful run of
`applyBlockTxs` at a single, sufficiently high ledger height.
-/
namespace XV.Chain

-- ------------------------------------------------------------------ admission is monotone in the ledger height

theorem checkInputs_mono (s : St) (lh lh' : Int) (hle : lh ≤ lh') (ins : List InRef) (seen : List Ver) (acc n : Nat)
    (h : checkInputs s lh ins seen acc = .ok n) : checkInputs s lh' ins seen acc = .ok n := by
  induction ins generalizing seen acc with
  | nil => exact h
  | cons r rest ih =>
    unfold checkInputs at h ⊢
    by_cases hc : seen.contains (r.tx, r.off) = true
    · simp only [hc, ↓reduceIte] at h; cases h
    · simp only [hc, Bool.false_eq_true, ↓reduceIte] at h ⊢
      cases hl : lookup s.U (r.tx, r.off) with
      | none => simp only [hl] at h; cases h
      | some u =>
        simp only [hl] at h ⊢
        by_cases ha : u.addr ≠ r.addr
        · rw [if_pos ha] at h; cases h
        · rw [if_neg ha] at h ⊢
          by_cases hm : (r.raw || decide (u.amt ≠ r.amt)) = true
          · simp only [hm, ↓reduceIte] at h; cases h
          · simp only [hm, Bool.false_eq_true, ↓reduceIte] at h ⊢
            by_cases hf : (decide (u.frozen > lh) || u.frozen == -1) = true
            · simp only [hf, ↓reduceIte] at h; cases h
            · simp only [hf, Bool.false_eq_true, ↓reduceIte] at h
              have hf' : (decide (u.frozen > lh') || u.frozen == -1) = false := by
                simp only [Bool.or_eq_true, decide_eq_true_eq, beq_iff_eq, not_or] at hf
                simp only [Bool.or_eq_false_iff, decide_eq_false_iff_not, beq_eq_false_iff_ne, ne_eq]
                exact ⟨by omega, hf.2⟩
              simp only [hf', Bool.false_eq_true, ↓reduceIte]
              exact ih _ _ h

theorem admitTx_mono (s : St) (lh lh' : Int) (hle : lh ≤ lh') (t : Tx) (h : admitTx s lh t = .ok) :
    admitTx s lh' t = .ok := by
  unfold admitTx checkInputEqualOutput at h ⊢
  cases hc : checkInputs s lh t.ins [] 0 with
  | error r =>
    rw [hc] at h
    simp only at h
    -- an error result is never `.ok` here: the match returns `r`, which would have to be `.ok`
    cases r <;> simp at h
    -- `.error .ok` does not occur
    exact absurd hc (by
      intro hc'
      have : ∀ (ins : List InRef) (seen : List Ver) (acc : Nat), checkInputs s lh ins seen acc ≠ .error .ok := by
        intro ins
        induction ins with
        | nil => intro seen acc; simp [checkInputs]
        | cons r rest ih =>
          intro seen acc
          unfold checkInputs
          split
          · simp
          · split
            · simp
            · split
              · simp
              · split
                · simp
                · split
                  · simp
                  · exact ih _ _
      exact this _ _ _ hc')
  | ok n =>
    rw [hc] at h
    rw [checkInputs_mono s lh lh' hle t.ins [] 0 n hc]
    exact h

/-- a successful run of the block loop succeeds at every higher ledger height, with the same result -/
theorem applyBlockTxs_mono (e : Env) (lh lh' : Int) (hle : lh ≤ lh') (prop : String) (l : List Nat) (s s2 : St)
    (h : applyBlockTxs e lh prop [] l s = some (s2, .ok)) : applyBlockTxs e lh' prop [] l s = some (s2, .ok) := by
  induction l generalizing s with
  | nil => exact h
  | cons i rest ih =>
    obtain ⟨hadm, hrest⟩ := applyBlockTxs_cons_ok e lh prop i rest s s2 h
    unfold applyBlockTxs
    simp only [List.contains_nil, Bool.false_eq_true, ↓reduceIte]
    rw [admitTx_mono s lh lh' hle _ hadm]
    exact ih _ hrest

/-- a valid list of block operations is a successful run of the block loop of a fresh node, at some ledger height -/
theorem applyBlockTxs_of_pValid (e : Env) (prop : String) (l : List Nat) (R : St)
    (h : pValid e (blockOps prop l) R) : ∃ lh s2, applyBlockTxs e lh prop [] l R = some (s2, .ok) := by
  induction l generalizing R with
  | nil => exact ⟨0, R, rfl⟩
  | cons i rest ih =>
    rw [blockOps_cons] at h
    obtain ⟨⟨lh1, hadm⟩, h2⟩ := (pValid_cons e _ _ R).mp h
    obtain ⟨_, h3⟩ := (pValid_cons e _ _ _).mp h2
    obtain ⟨lh2, s2, hrest⟩ := ih _ h3
    refine ⟨max lh1 lh2, s2, ?_⟩
    unfold applyBlockTxs
    simp only [List.contains_nil, Bool.false_eq_true, ↓reduceIte]
    rw [admitTx_mono R lh1 (max lh1 lh2) (Int.le_max_left _ _) _ hadm]
    exact applyBlockTxs_mono e lh2 (max lh1 lh2) (Int.le_max_right _ _) prop rest _ s2 hrest

-- ------------------------------------------------------------------ the operations of the node, split at a transaction

theorem skipOps_append (prop : String) (f : Nat → Bool) (l1 l2 : List Nat) :
    skipOps prop f (l1 ++ l2) = skipOps prop f l1 ++ skipOps prop f l2 := by
  unfold skipOps; rw [List.flatMap_append]

theorem opId_skipOps (prop : String) (f : Nat → Bool) (l : List Nat) : ∀ op ∈ skipOps prop f l, opId op ∈ l := by
  intro op hop
  unfold skipOps at hop
  obtain ⟨i, hi, hop⟩ := List.mem_flatMap.mp hop
  by_cases hf : f i = true
  · simp only [hf, ↓reduceIte, List.mem_cons, List.not_mem_nil, or_false] at hop
    rw [hop]; exact hi
  · simp only [hf, Bool.false_eq_true, ↓reduceIte, List.mem_cons, List.not_mem_nil, or_false] at hop
    rcases hop with rfl | rfl <;> exact hi

theorem mem_refTxs_insR (t : Tx) (r : InRef) (hr : r ∈ t.ins) : r.tx ∈ refTxs t := by
  unfold refTxs
  exact List.mem_append_left _ (List.mem_map.mpr ⟨r, hr, rfl⟩)

theorem mem_refTxs_ver (t : Tx) (ki : KIn) (hki : ki ∈ t.kin) (v : Ver) (hv : ki.ver = some v) : v.1 ∈ refTxs t := by
  unfold refTxs
  apply List.mem_append_right
  apply List.mem_filterMap.mpr
  exact ⟨ki, hki, by rw [hv]; rfl⟩

/-- **the hypothesis `H1` of `absorb` for an accepted `play`, without assuming that the block can be replayed.** `hnode`: the
operations of the node (kept pool, then the block with its kept pending members skipped) are valid on `R`; `hstale`: the
guard `staleMember` did not fire. -/
theorem play_H1_noreplay (e : Env) (s : St) (lh : Int) (b : Block) (R : St)
    (hok : (play e s lh b).2 = .ok)
    (hP : PoolOK e s.pool R) (hndP : s.pool.Nodup) (hwB : ∀ i ∈ b.txs, WF e i) (hndB : b.txs.Nodup)
    (hfreshU : ∀ i ∈ s.pool ++ b.txs, ∀ o, lookup R.U (i, o) = none)
    (hfreshV : ∀ i ∈ s.pool ++ b.txs, ∀ k o, curVer R k ≠ some (i, o))
    (hnode : pValid e ((s.pool.filter (fun i => !(playEvict e s b).contains i)).map POp.app ++
      skipOps b.prop (fun i => decide (i ∈ s.pool.filter (fun i => !(playEvict e s b).contains i))) b.txs) R)
    (hstale : staleMember e s.pool [] b.txs = false) :
    ∀ i ∈ b.txs, ∀ a ∈ s.pool.filter (fun i => !(playEvict e s b).contains i), a ≠ i →
      ¬ [a, i].Sublist b.txs →
      (i ∈ s.pool.filter (fun i => !(playEvict e s b).contains i) →
        [a, i].Sublist (s.pool.filter (fun i => !(playEvict e s b).contains i))) →
      depB e i a = false ∧ ∀ r ∈ (e.tx a).ins, r.tx ≠ i := by
  intro i hiB a haK hai hnb hord
  have hpm := play_ok_parents e s lh b hok
  have haP : a ∈ s.pool := (List.mem_filter.mp haK).1
  have hak : (playEvict e s b).contains a = false := by simpa using (List.mem_filter.mp haK).2
  have hwP := hP.wf
  have hKsub : ∀ x ∈ s.pool.filter (fun i => !(playEvict e s b).contains i), x ∈ s.pool :=
    fun x hx => (List.mem_filter.mp hx).1
  obtain ⟨pre, post, hsplit⟩ := List.append_of_mem hiB
  have hapre : a ∉ pre := by
    intro hm
    apply hnb
    rw [hsplit]
    exact List.Sublist.append (List.singleton_sublist.mpr hm) (List.singleton_sublist.mpr List.mem_cons_self)
  have hpreB : ∀ j ∈ pre, j ∈ b.txs := fun j hj => by rw [hsplit]; exact List.mem_append_left _ hj
  have hparents := parentMissing_false e s.pool [] b.txs hpm pre i post hsplit
  constructor
  · cases hd : depB e i a with
    | false => rfl
    | true =>
      exfalso
      unfold depB at hd
      simp only [Bool.or_eq_true, List.any_eq_true, beq_iff_eq, Bool.and_eq_true, Bool.not_eq_true',
        List.any_eq_false] at hd
      rcases hd with (⟨r, hr, hra⟩ | ⟨ki, hki, hkv⟩) | ⟨pk, hpk, hnw, ck, hck, ⟨hkk, hvv⟩, ko, hko, hkok⟩
      · -- an input of `i` cites the pending `a`: `a` must stand before `i` in the block
        have := hparents a (hra ▸ mem_refTxs_insR _ r hr) haP
        simp only [List.nil_append] at this
        exact hapre this
      · cases hv : ki.ver with
        | none => rw [hv] at hkv; cases hkv
        | some v =>
          rw [hv] at hkv
          simp only [beq_iff_eq] at hkv
          have := hparents a (hkv ▸ mem_refTxs_ver _ ki hki v hv) haP
          simp only [List.nil_append] at this
          exact hapre this
      · have hnw' : ∀ ko' ∈ (e.tx a).kout, ko'.key ≠ pk.key := by
          intro ko' hko' he
          have := hnw ko' hko'
          simp [he] at this
        have hwi : ∃ ko ∈ (e.tx i).kout, ko.key = pk.key := ⟨ko, hko, by rw [hkok, hkk]⟩
        -- a version that `i` read and that a transaction of the block wrote was written strictly before `i`
        have hbefore : ∀ rv : Ver, ck.ver = some rv → rv.1 ∈ b.txs → rv.1 ∈ pre := by
          intro rv hckv hrvB
          by_cases hrvP : rv.1 ∈ s.pool
          · have := hparents rv.1 (mem_refTxs_ver _ ck hck rv hckv) hrvP
            simpa using this
          · -- rv.1 is not pending: at the point of `i` on the node its version can only come from `pre`
            by_cases hiK : i ∈ s.pool.filter (fun i => !(playEvict e s b).contains i)
            · exfalso
              obtain ⟨k1, k2, hKs⟩ := List.append_of_mem hiK
              obtain ⟨hvK, _⟩ := (pValid_append e _ _ R).mp hnode
              rw [hKs] at hvK
              simp only [List.map_append, List.map_cons] at hvK
              obtain ⟨_, hv2⟩ := (pValid_append e _ _ R).mp hvK
              obtain ⟨⟨lh1, hadm⟩, _⟩ := (pValid_cons e _ _ _).mp hv2
              obtain ⟨_, _, hread, _⟩ := XV.C03.admit_sound _ lh1 _ hadm
              have hcv := hread ck hck
              rw [hckv] at hcv
              have hk1 : ∀ x ∈ k1, x ∈ s.pool := fun x hx => hKsub x (by rw [hKs]; simp [hx])
              rcases prun_curVer e (k1.map POp.app) R ck.key (fun op hop => by
                obtain ⟨j, hj, rfl⟩ := List.mem_map.mp hop
                exact (hwP j (hk1 j hj)).id) with h | ⟨w', o', hw', h⟩
              · rw [h] at hcv
                exact hfreshV rv.1 (List.mem_append_right _ hrvB) ck.key rv.2 hcv
              · rw [h] at hcv
                injection hcv with hcv
                obtain ⟨j, hj, hje⟩ := List.mem_map.mp hw'
                injection hje with hje
                apply hrvP
                rw [← hcv]
                simp only
                rw [← hje]
                exact hk1 j hj
            · -- `i` is applied by the block loop of the node
              have hnode' := hnode
              rw [hsplit, skipOps_append, skipOps_cons] at hnode'
              simp only [hiK, decide_false, Bool.false_eq_true, ↓reduceIte] at hnode'
              rw [← List.append_assoc] at hnode'
              obtain ⟨_, hv2⟩ := (pValid_append e _ _ R).mp hnode'
              simp only [List.cons_append, List.nil_append] at hv2
              obtain ⟨⟨lh1, hadm⟩, _⟩ := (pValid_cons e _ _ _).mp hv2
              obtain ⟨_, _, hread, _⟩ := XV.C03.admit_sound _ lh1 _ hadm
              have hcv := hread ck hck
              rw [hckv] at hcv
              rcases prun_curVer e ((s.pool.filter (fun i => !(playEvict e s b).contains i)).map POp.app ++
                  skipOps b.prop (fun i => decide (i ∈ s.pool.filter
                    (fun i => !(playEvict e s b).contains i))) pre) R ck.key (fun op hop => by
                rcases List.mem_append.mp hop with h | h
                · obtain ⟨j, hj, rfl⟩ := List.mem_map.mp h
                  exact (hwP j (hKsub j hj)).id
                · exact (hwB _ (hpreB _ (opId_skipOps _ _ _ op h))).id) with h | ⟨w', o', hw', h⟩
              · rw [h] at hcv
                exact absurd hcv (hfreshV rv.1 (List.mem_append_right _ hrvB) ck.key rv.2)
              · rw [h] at hcv
                injection hcv with hcv
                have hw'e : w' = rv.1 := by rw [← hcv]
                rcases List.mem_append.mp hw' with h | h
                · obtain ⟨j, hj, hje⟩ := List.mem_map.mp h
                  injection hje with hje
                  exact absurd (hw'e ▸ hje ▸ hKsub j hj) hrvP
                · rw [← hw'e]
                  exact opId_skipOps _ _ _ _ h
        by_cases haB : a ∈ b.txs
        · -- `a` is a later pending member of the block: by the guard `staleMember` it read the last version written before
          -- it — a version of `i` or of a later transaction, which `i` (reading the same version) cannot have read
          have hapost : a ∈ post := by
            rw [hsplit] at haB
            rcases List.mem_append.mp haB with h | h
            · exact absurd h hapre
            · rcases List.mem_cons.mp h with h | h
              · exact absurd h hai
              · exact h
          obtain ⟨p1, p2, hpost⟩ := List.append_of_mem hapost
          have hsplit2 : b.txs = (pre ++ i :: p1) ++ a :: p2 := by
            rw [hsplit, hpost]; simp
          obtain ⟨x, hx, off, hlk⟩ := writtenBy_writer e pre p1 i [] pk.key hwi
          rw [hsplit2] at hstale
          have hpv := staleMember_false e s.pool (pre ++ i :: p1) a p2 [] hstale haP pk hpk (x, off) hlk
          have hxpost : x ∈ i :: post := by
            rcases List.mem_cons.mp hx with h | h
            · rw [h]; exact List.mem_cons_self
            · exact List.mem_cons_of_mem _ (by rw [hpost]; exact List.mem_append_left _ h)
          have hxB : x ∈ b.txs := by rw [hsplit]; exact List.mem_append_right _ hxpost
          have hxpre : x ∈ pre := hbefore (x, off) (by rw [hvv, hpv]) hxB
          rw [hsplit] at hndB
          exact (List.nodup_append.mp hndB).2.2 x hxpre x hxpost rfl
        · -- `a` stays pending: it has no conflict with the block
          have hcf := playEvict_seed e s b a haP haB hak
          obtain ⟨rv, hrv⟩ := blockVerOf_of_writer e b.txs pk.key i hiB hwi
          rcases conflicts_false_kin e s.pool b.txs a hcf pk hpk rv hrv with hpv | ⟨v, hpv, hvP, hvB⟩
          · -- `i` read the block's final version of the key, written by rv.1 — which does not stand before `i`
            obtain ⟨prew, postw, hw1, hw2⟩ := blockVerOf_some e b.txs pk.key rv hrv
            have hrvB : rv.1 ∈ b.txs := by rw [hw1]; simp
            have hckv : ck.ver = some rv := by rw [hvv, hpv]
            have hwpre : rv.1 ∈ pre := hbefore rv hckv hrvB
            have h1 : [rv.1, i].Sublist b.txs := by
              rw [hsplit]
              exact List.Sublist.append (List.singleton_sublist.mpr hwpre)
                (List.singleton_sublist.mpr List.mem_cons_self)
            have hipost : i ∉ postw := by
              intro hm
              obtain ⟨ko', hko', he'⟩ := hwi
              exact hw2 i hm ko' hko' he'
            have hirv : i ≠ rv.1 := by
              intro h2
              rw [hsplit] at hndB
              exact (List.nodup_append.mp hndB).2.2 rv.1 hwpre i (by simp) h2.symm
            have hipre : i ∈ prew := by
              have hi2 := hiB
              rw [hw1] at hi2
              rcases List.mem_append.mp hi2 with h | h
              · exact h
              · rcases List.mem_cons.mp h with h | h
                · exact absurd h hirv
                · exact absurd h hipost
            have h2 : [i, rv.1].Sublist b.txs := by
              rw [hw1]
              exact List.Sublist.append (List.singleton_sublist.mpr hipre)
                (List.singleton_sublist.mpr List.mem_cons_self)
            exact nodup_pair_order b.txs rv.1 i hndB h1 h2
          · -- `i` read a version written by a pending transaction that is not in the block
            have hckv : ck.ver = some v := by rw [hvv, hpv]
            have := hparents v.1 (mem_refTxs_ver _ ck hck v hckv) hvP
            simp only [List.nil_append] at this
            exact hvB (hpreB _ this)
  · apply absorb_cite e s.pool _ b.txs R hP hndP List.filter_sublist hfreshU _ i hiB a haK hai hord
    intro j hjP hjK c hcK hcj r hr hrj
    have hcP : c ∈ s.pool := (List.mem_filter.mp hcK).1
    have hck : (playEvict e s b).contains c = false := by simpa using (List.mem_filter.mp hcK).2
    have hje : (playEvict e s b).contains j = true := by
      cases h : (playEvict e s b).contains j with
      | true => rfl
      | false => exact absurd (List.mem_filter.mpr ⟨hjP, by rw [h]; rfl⟩) hjK
    have hdep : depB e c j = true := by
      unfold depB
      simp only [Bool.or_eq_true, List.any_eq_true, beq_iff_eq]
      exact Or.inl (Or.inl ⟨r, hr, hrj⟩)
    have := playEvict_closedB e s b j hjP hje c hcP hcj hdep
    rw [hck] at this; cases this

/-- **an accepted block can be replayed on `R`**: its operations are valid there (`hstale` follows from `hok`:
`play_ok_noStale`; it is kept as a parameter to show what is used). `hs1` / `hK`: the state after the
eviction refines "`R`, then the kept pool", which is valid on `R` (`play_evict_form` and the roll-back theorem). -/
theorem play_replayable_form (e : Env) (s : St) (lh : Int) (b : Block) (R : St)
    (hok : (play e s lh b).2 = .ok)
    (hP : PoolOK e s.pool R) (hndP : s.pool.Nodup)
    (hK : PoolOK e (s.pool.filter (fun i => !(playEvict e s b).contains i)) R)
    (hs1 : TRefines (playUndone e s b) (applyPool e (s.pool.filter (fun i => !(playEvict e s b).contains i)) R))
    (hwB : ∀ i ∈ b.txs, WF e i) (hndB : b.txs.Nodup)
    (hfreshU : ∀ i ∈ s.pool ++ b.txs, ∀ o, lookup R.U (i, o) = none)
    (hfreshV : ∀ i ∈ s.pool ++ b.txs, ∀ k o, curVer R k ≠ some (i, o))
    (hstale : staleMember e s.pool [] b.txs = false) :
    pValid e (blockOps b.prop b.txs) R := by
  obtain ⟨s2, happ, _⟩ := play_ok_raw e s lh b hok
  have hrun := applyBlockTxs_run e lh b.prop _ b.txs _ s2 happ
  obtain ⟨_, r2⟩ := blockRun_refines e lh b.prop _ b.txs _ s2 _ hrun hs1
  have hskip : skipOps b.prop (fun i => ((s.pool.filter (fun i => b.txs.contains i)).filter
        (fun i => !(playEvict e s b).contains i)).contains i) b.txs =
      skipOps b.prop (fun i => decide (i ∈ s.pool.filter (fun i => !(playEvict e s b).contains i))) b.txs := by
    apply skipOps_congr
    intro i hi
    by_cases h1 : i ∈ s.pool <;> by_cases h2 : (playEvict e s b).contains i = true <;>
      simp [List.mem_filter, h1, h2, hi]
  rw [hskip] at r2
  have hndK : (s.pool.filter (fun i => !(playEvict e s b).contains i)).Nodup :=
    List.Nodup.sublist List.filter_sublist hndP
  have hvall : pValid e ((s.pool.filter (fun i => !(playEvict e s b).contains i)).map POp.app ++
      skipOps b.prop (fun i => decide (i ∈ s.pool.filter (fun i => !(playEvict e s b).contains i))) b.txs) R := by
    apply (pValid_append e _ _ R).mpr
    refine ⟨hK.valid, ?_⟩
    rw [prun_apps]
    exact r2
  obtain ⟨vfin, _⟩ := absorb e b.prop b.txs _ R hndB hndK hwB hK.wf hvall
    (play_H1_noreplay e s lh b R hok hP hndP hwB hndB hfreshU hfreshV hvall hstale)
    (fun i hi a ha => play_H2 e s.pool b.txs R hP hwB
      (fun j hj => hfreshU j (List.mem_append_right _ hj)) i hi a (List.mem_filter.mp ha).1)
  exact ((pValid_append e _ _ R).mp vfin).1

end XV.Chain
